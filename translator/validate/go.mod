module kyverif/limbvalidate

go 1.25.0

require go.dedis.ch/kyber/v4 v4.0.0

require (
	go.dedis.ch/fixbuf v1.0.3 // indirect
	golang.org/x/crypto v0.48.0 // indirect
	golang.org/x/sys v0.42.0 // indirect
)

replace go.dedis.ch/kyber/v4 => /repo
