//go:build verif

// Command limbvalidate runs kyber's real scMulAdd/scMul/scAdd/scSub/scReduce
// (through the `verif` export hooks of group/edwards25519) on limb-boundary
// operand patterns and writes Coq case files that evaluate the GENERATED Gallina
// functions (coq/theories/Generated/ScalarLimbs.v) on the same inputs. Used by
// `bin/gen-limbs --validate`.
package main

import (
	"encoding/hex"
	"flag"
	"fmt"
	"math/big"
	"math/rand"
	"os"
	"path/filepath"
	"strings"

	ed "go.dedis.ch/kyber/v4/group/edwards25519"
)

func words(b []byte) string {
	var sb strings.Builder
	sb.WriteString("[")
	for i := 0; i < len(b); i += 7 {
		if i > 0 {
			sb.WriteString(";")
		}
		var w [7]byte
		copy(w[:], b[i:])
		sb.WriteString("0x" + hex.EncodeToString(w[:]))
	}
	sb.WriteString("]%uint63")
	return sb.String()
}

func coqBytes(b []byte) string {
	if len(b) == 0 {
		return "(@nil Z)"
	}
	return fmt.Sprintf("(bs %d %s)", len(b), words(b))
}

func le(v *big.Int, n int) []byte {
	m := new(big.Int).Mod(v, new(big.Int).Lsh(big.NewInt(1), uint(8*n)))
	be := m.Bytes()
	out := make([]byte, n)
	for i, x := range be {
		out[len(be)-1-i] = x
	}
	return out
}

func pow2(k int) *big.Int { return new(big.Int).Lsh(big.NewInt(1), uint(k)) }

// patterns returns nbytes-long little-endian operands hitting the 21-bit limb
// boundaries, the group order and the byte-load windows.
func patterns(nbytes int, rng *rand.Rand, nrand int) [][]byte {
	L, _ := new(big.Int).SetString("7237005577332262213973186563042994240857116359379907606001950938285454250989", 10)
	one := big.NewInt(1)
	var vs []*big.Int
	add := func(v *big.Int) { vs = append(vs, new(big.Int).Set(v)) }
	add(big.NewInt(0))
	add(one)
	add(big.NewInt(2))
	for _, d := range []int64{-2, -1, 0, 1, 2} {
		add(new(big.Int).Add(L, big.NewInt(d)))
		add(new(big.Int).Add(new(big.Int).Lsh(L, 1), big.NewInt(d)))
		add(new(big.Int).Add(new(big.Int).Lsh(L, 3), big.NewInt(d)))
	}
	add(new(big.Int).Mul(L, big.NewInt(15)))
	add(new(big.Int).Sub(new(big.Int).Mul(L, big.NewInt(16)), one))
	nl := (8*nbytes + 20) / 21
	for i := 0; i <= nl; i++ {
		k := 21 * i
		if k < 8*nbytes {
			add(pow2(k))                               // lowest bit of limb i
			add(new(big.Int).Sub(pow2(k), one))        // all limbs below i full
			add(new(big.Int).Lsh(big.NewInt(0x1fffff), uint(k))) // limb i full
			add(pow2(k + 20))                          // top bit of limb i (rounding carry threshold)
			add(new(big.Int).Sub(pow2(k+20), one))
		}
	}
	for _, k := range []int{252, 253, 255, 256, 8 * nbytes} {
		add(new(big.Int).Sub(pow2(k), one))
		add(pow2(k - 1))
	}
	// alternating limbs full / empty
	alt0, alt1 := big.NewInt(0), big.NewInt(0)
	for i := 0; i < nl; i++ {
		if i%2 == 0 {
			alt0.Or(alt0, new(big.Int).Lsh(big.NewInt(0x1fffff), uint(21*i)))
		} else {
			alt1.Or(alt1, new(big.Int).Lsh(big.NewInt(0x1fffff), uint(21*i)))
		}
	}
	add(alt0)
	add(alt1)
	var out [][]byte
	for _, v := range vs {
		out = append(out, le(v, nbytes))
	}
	// single bytes set (load3/load4 windows)
	for i := 0; i < nbytes; i++ {
		b := make([]byte, nbytes)
		b[i] = 0xff
		out = append(out, b)
		b2 := make([]byte, nbytes)
		b2[i] = 0x80
		out = append(out, b2)
	}
	for i := 0; i < nrand; i++ {
		b := make([]byte, nbytes)
		rng.Read(b)
		switch i % 4 {
		case 1: // reduced
			v := new(big.Int).SetBytes(b)
			b = le(v.Mod(v, L), nbytes)
		case 2: // sparse
			for j := range b {
				if rng.Intn(3) != 0 {
					b[j] = 0
				}
			}
		case 3: // dense
			for j := range b {
				if rng.Intn(3) != 0 {
					b[j] = 0xff
				}
			}
		}
		out = append(out, b)
	}
	return out
}

type item struct{ text string }

func main() {
	outDir := flag.String("out", "", "output directory")
	seed := flag.Int64("seed", 1, "seed")
	perShard := flag.Int("shard", 400, "cases per shard")
	nrand := flag.Int("rand", 40, "random operands per pattern set")
	pairs := flag.Int("pairs", 1500, "operand tuples per function")
	flag.Parse()
	if *outDir == "" {
		fmt.Fprintln(os.Stderr, "limbvalidate: -out required")
		os.Exit(2)
	}
	rng := rand.New(rand.NewSource(*seed))
	P := patterns(32, rng, *nrand)
	P64 := patterns(64, rng, *nrand)
	var items []string
	id := 0
	emit := func(fn string, a, b, c, out []byte) {
		id++
		items = append(items, fmt.Sprintf("mkCase %d %s %s %s %s %s", id, fn, coqBytes(a), coqBytes(b), coqBytes(c), coqBytes(out)))
	}
	arr := func(b []byte) *[32]byte { var x [32]byte; copy(x[:], b); return &x }
	pick := func() []byte { return P[rng.Intn(len(P))] }
	// two-operand functions: every pattern against a few partners + random pairs
	type two struct {
		name string
		f    func(s, a, b *[32]byte)
	}
	for _, t := range []two{{"FMul", ed.VerifScMul}, {"FAdd", ed.VerifScAdd}, {"FSub", ed.VerifScSub}} {
		n := 0
		run := func(a, b []byte) {
			var s [32]byte
			t.f(&s, arr(a), arr(b))
			emit(t.name, a, b, nil, s[:])
			n++
		}
		for i, a := range P {
			run(a, a)
			run(a, P[(i*7+3)%len(P)])
			run(P[(i*11+5)%len(P)], a)
		}
		for n < *pairs {
			run(pick(), pick())
		}
	}
	{
		n := 0
		run := func(a, b, c []byte) {
			var s [32]byte
			ed.VerifScMulAdd(&s, arr(a), arr(b), arr(c))
			emit("FMulAdd", a, b, c, s[:])
			n++
		}
		for i, a := range P {
			run(a, a, a)
			run(a, P[(i*7+3)%len(P)], P[(i*13+1)%len(P)])
			run(P[(i*11+5)%len(P)], a, P[(i*5+2)%len(P)])
			run(P[(i*3+1)%len(P)], P[(i*17+4)%len(P)], a)
		}
		for n < *pairs {
			run(pick(), pick(), pick())
		}
	}
	{
		n := 0
		for _, a := range P64 {
			var s [32]byte
			var in [64]byte
			copy(in[:], a)
			ed.VerifScReduce(&s, &in)
			emit("FReduce", a, nil, nil, s[:])
			n++
		}
		for n < *pairs {
			a := make([]byte, 64)
			rng.Read(a)
			var s [32]byte
			var in [64]byte
			copy(in[:], a)
			ed.VerifScReduce(&s, &in)
			emit("FReduce", a, nil, nil, s[:])
			n++
		}
	}
	if err := os.MkdirAll(*outDir, 0o755); err != nil {
		panic(err)
	}
	shard := 0
	for i := 0; i < len(items); i += *perShard {
		j := i + *perShard
		if j > len(items) {
			j = len(items)
		}
		var sb strings.Builder
		sb.WriteString("From Coq Require Import ZArith List Uint63.\nFrom Kyber Require Import Base.Wire Limb.LimbRun.\nImport ListNotations.\nOpen Scope Z_scope.\n")
		sb.WriteString("Definition cases : list case := [\n  ")
		sb.WriteString(strings.Join(items[i:j], ";\n  "))
		sb.WriteString("].\n")
		sb.WriteString("Definition result := Eval vm_compute in mismatches cases.\n")
		sb.WriteString("Print result.\n")
		sb.WriteString("Goal result = []. Proof. reflexivity. Qed.\n")
		name := filepath.Join(*outDir, fmt.Sprintf("limbcases_%03d.v", shard))
		if err := os.WriteFile(name, []byte(sb.String()), 0o644); err != nil {
			panic(err)
		}
		shard++
	}
	fmt.Printf("limbvalidate: %d cases in %d shards (patterns: %d 32-byte, %d 64-byte)\n", len(items), shard, len(P), len(P64))
}
