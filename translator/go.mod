module kyverif/translator

go 1.21
