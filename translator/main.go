// Command translator reads the ref10 scalar limb code of kyber
// (group/edwards25519/scalar.go, helpers load3/load4 from fe.go) and prints a
// Coq file with, per function, (1) a shallow Gallina function over Z in which
// every int64 operation goes through the wrapper `i64`, (2) the same function
// with the wrapper `noi` (no wrapping), and (3) a deeply embedded straight-line
// program `prog` for the reflective analyses of coq/theories/Limb.
//
// Accepted source subset (anything else is a fatal error - the translator never
// guesses): functions whose first parameter is the output *[N]byte and whose
// other parameters are input *[N]byte; local int64 variables and int64 arrays
// with constant indices; :=, =, +=, -=, *=, |=, &=; the operators + - * & | and
// << >> by constants; int64(const), int64(in[i]); calls of helper functions of
// the same package taking one byte slice `x[k:]` and returning one int64 (their
// bodies are inlined with fresh temporaries); out[i] = byte(e).
//
// Standard library only.
package main

import (
	"flag"
	"fmt"
	"go/ast"
	"go/parser"
	"go/token"
	"math/big"
	"os"
	"path/filepath"
	"sort"
	"strconv"
	"strings"
)

type expr interface{}

type (
	eConst struct{ v *big.Int }
	eVar   struct{ id int }
	eIn    struct{ arr, idx int }
	eBin   struct {
		op   string // add sub mul and or
		a, b expr
	}
	eSh struct {
		op string // shl shr
		a  expr
		k  int
	}
)

type instr struct {
	dst int
	e   expr
}

type sliceBinding struct{ arr, off int }

type fnTrans struct {
	name     string
	fset     *token.FileSet
	helpers  map[string]*ast.FuncDecl
	varNames []string       // var id -> printed name
	scalars  map[string]int // current scope: Go name -> var id
	arrays   map[string][]int
	slices   map[string]sliceBinding // byte slice parameters of the function being inlined
	inputs   map[string]int          // input array parameter -> arr index
	inNames  []string
	inLens   []int
	outName  string
	outLen   int
	outs     []expr
	code     []instr
	inlineNo int
}

func (t *fnTrans) fail(n ast.Node, format string, args ...interface{}) {
	pos := ""
	if n != nil {
		pos = t.fset.Position(n.Pos()).String() + ": "
	}
	fmt.Fprintf(os.Stderr, "translator: %s%s: %s\n", pos, t.name, fmt.Sprintf(format, args...))
	os.Exit(1)
}

func (t *fnTrans) newVar(name string) int {
	t.varNames = append(t.varNames, name)
	return len(t.varNames) - 1
}

var min64 = new(big.Int).Neg(new(big.Int).Lsh(big.NewInt(1), 63))
var max64 = new(big.Int).Sub(new(big.Int).Lsh(big.NewInt(1), 63), big.NewInt(1))

func (t *fnTrans) constInt(n ast.Node, e expr) int {
	c, ok := e.(eConst)
	if !ok || !c.v.IsInt64() || c.v.Int64() < 0 || c.v.Int64() > 63 {
		t.fail(n, "expected a constant in 0..63")
	}
	return int(c.v.Int64())
}

func binOpName(tok token.Token) string {
	switch tok {
	case token.ADD, token.ADD_ASSIGN:
		return "add"
	case token.SUB, token.SUB_ASSIGN:
		return "sub"
	case token.MUL, token.MUL_ASSIGN:
		return "mul"
	case token.AND, token.AND_ASSIGN:
		return "and"
	case token.OR, token.OR_ASSIGN:
		return "or"
	case token.SHL, token.SHL_ASSIGN:
		return "shl"
	case token.SHR, token.SHR_ASSIGN:
		return "shr"
	}
	return ""
}

func (t *fnTrans) mkBin(n ast.Node, op string, a, b expr) expr {
	ca, aok := a.(eConst)
	cb, bok := b.(eConst)
	if aok && bok {
		// Go constant expression: exact arithmetic, must fit int64 (the compiler
		// rejects it otherwise)
		r := new(big.Int)
		switch op {
		case "add":
			r.Add(ca.v, cb.v)
		case "sub":
			r.Sub(ca.v, cb.v)
		case "mul":
			r.Mul(ca.v, cb.v)
		case "and":
			r.And(ca.v, cb.v)
		case "or":
			r.Or(ca.v, cb.v)
		case "shl":
			r.Lsh(ca.v, uint(t.constInt(n, b)))
		case "shr":
			r.Rsh(ca.v, uint(t.constInt(n, b)))
		}
		if r.Cmp(min64) < 0 || r.Cmp(max64) > 0 {
			t.fail(n, "constant expression outside int64")
		}
		return eConst{r}
	}
	switch op {
	case "shl", "shr":
		return eSh{op, a, t.constInt(n, b)}
	}
	return eBin{op, a, b}
}

// sliceOf resolves a byte-slice expression (x[k:], x[:], or a slice parameter,
// possibly re-sliced) to (input array, offset).
func (t *fnTrans) sliceOf(e ast.Expr) sliceBinding {
	switch x := e.(type) {
	case *ast.ParenExpr:
		return t.sliceOf(x.X)
	case *ast.Ident:
		if sb, ok := t.slices[x.Name]; ok {
			return sb
		}
		t.fail(e, "identifier %s is not a byte slice", x.Name)
	case *ast.SliceExpr:
		if x.High != nil || x.Max != nil {
			t.fail(e, "slice with upper bound not supported")
		}
		off := 0
		if x.Low != nil {
			off = t.constInt(x.Low, t.expr(x.Low))
		}
		if id, ok := x.X.(*ast.Ident); ok {
			if a, ok := t.inputs[id.Name]; ok && t.slices == nil {
				return sliceBinding{a, off}
			}
			if sb, ok := t.slices[id.Name]; ok {
				return sliceBinding{sb.arr, sb.off + off}
			}
		}
		t.fail(e, "unsupported slice base")
	}
	t.fail(e, "unsupported byte slice expression")
	return sliceBinding{}
}

func (t *fnTrans) byteAt(e *ast.IndexExpr) expr {
	idx := t.constInt(e.Index, t.expr(e.Index))
	id, ok := e.X.(*ast.Ident)
	if !ok {
		t.fail(e, "unsupported indexed expression")
	}
	if t.slices != nil {
		if sb, ok := t.slices[id.Name]; ok {
			if sb.off+idx >= t.inLens[sb.arr] {
				t.fail(e, "index out of range of input array")
			}
			return eIn{sb.arr, sb.off + idx}
		}
	} else if a, ok := t.inputs[id.Name]; ok {
		if idx >= t.inLens[a] {
			t.fail(e, "index out of range of input array")
		}
		return eIn{a, idx}
	}
	t.fail(e, "%s is not an input byte array", id.Name)
	return nil
}

func (t *fnTrans) expr(e ast.Expr) expr {
	switch x := e.(type) {
	case *ast.ParenExpr:
		return t.expr(x.X)
	case *ast.BasicLit:
		if x.Kind != token.INT {
			t.fail(e, "non-integer literal")
		}
		v, ok := new(big.Int).SetString(x.Value, 0)
		if !ok {
			t.fail(e, "bad integer literal %s", x.Value)
		}
		return eConst{v}
	case *ast.Ident:
		if id, ok := t.scalars[x.Name]; ok {
			return eVar{id}
		}
		t.fail(e, "unknown identifier %s", x.Name)
	case *ast.IndexExpr:
		id, ok := x.X.(*ast.Ident)
		if ok {
			if arr, ok := t.arrays[id.Name]; ok {
				i := t.constInt(x.Index, t.expr(x.Index))
				if i >= len(arr) {
					t.fail(e, "array index out of range")
				}
				return eVar{arr[i]}
			}
		}
		t.fail(e, "byte array element used without int64() conversion")
	case *ast.UnaryExpr:
		if x.Op == token.SUB {
			return t.mkBin(e, "sub", eConst{big.NewInt(0)}, t.expr(x.X))
		}
		t.fail(e, "unsupported unary operator %s", x.Op)
	case *ast.BinaryExpr:
		op := binOpName(x.Op)
		if op == "" {
			t.fail(e, "unsupported operator %s", x.Op)
		}
		return t.mkBin(e, op, t.expr(x.X), t.expr(x.Y))
	case *ast.CallExpr:
		fn, ok := x.Fun.(*ast.Ident)
		if !ok || len(x.Args) != 1 {
			t.fail(e, "unsupported call")
		}
		switch fn.Name {
		case "int64":
			if ie, ok := x.Args[0].(*ast.IndexExpr); ok {
				if id, ok := ie.X.(*ast.Ident); ok {
					if _, isArr := t.arrays[id.Name]; !isArr {
						return t.byteAt(ie)
					}
				}
			}
			return t.expr(x.Args[0]) // int64(int64 expression / constant)
		case "byte":
			t.fail(e, "byte() only supported as the right-hand side of an output assignment")
		default:
			h, ok := t.helpers[fn.Name]
			if !ok {
				t.fail(e, "call of unknown function %s", fn.Name)
			}
			return t.inline(h, x)
		}
	}
	t.fail(e, "unsupported expression %T", e)
	return nil
}

// inline translates a call of a helper `func h(in []byte) int64`.
func (t *fnTrans) inline(h *ast.FuncDecl, call *ast.CallExpr) expr {
	ps := h.Type.Params.List
	if len(ps) != 1 || len(ps[0].Names) != 1 || h.Type.Results == nil || len(h.Type.Results.List) != 1 {
		t.fail(call, "helper %s: unsupported signature", h.Name.Name)
	}
	if at, ok := ps[0].Type.(*ast.ArrayType); !ok || at.Len != nil || fmt.Sprint(at.Elt) != "byte" {
		t.fail(call, "helper %s: parameter must be []byte", h.Name.Name)
	}
	if fmt.Sprint(h.Type.Results.List[0].Type) != "int64" {
		t.fail(call, "helper %s: result must be int64", h.Name.Name)
	}
	sb := t.sliceOf(call.Args[0])
	saveScalars, saveArrays, saveSlices := t.scalars, t.arrays, t.slices
	t.inlineNo++
	no := t.inlineNo
	t.scalars = map[string]int{}
	t.arrays = map[string][]int{}
	t.slices = map[string]sliceBinding{ps[0].Names[0].Name: sb}
	prefix := fmt.Sprintf("%s_%d_", h.Name.Name, no)
	var result expr
	for i, st := range h.Body.List {
		if rs, ok := st.(*ast.ReturnStmt); ok {
			if i != len(h.Body.List)-1 || len(rs.Results) != 1 {
				t.fail(st, "helper %s: return must be the last statement", h.Name.Name)
			}
			result = t.expr(rs.Results[0])
			break
		}
		t.stmt(st, prefix)
	}
	if result == nil {
		t.fail(call, "helper %s: no return", h.Name.Name)
	}
	t.scalars, t.arrays, t.slices = saveScalars, saveArrays, saveSlices
	return result
}

func (t *fnTrans) declare(n ast.Node, name, prefix string) int {
	if name == "_" {
		t.fail(n, "blank identifier not supported")
	}
	id := t.newVar(prefix + name)
	t.scalars[name] = id
	return id
}

func (t *fnTrans) emit(dst int, e expr) { t.code = append(t.code, instr{dst, e}) }

func (t *fnTrans) stmt(s ast.Stmt, prefix string) {
	switch x := s.(type) {
	case *ast.DeclStmt:
		gd, ok := x.Decl.(*ast.GenDecl)
		if !ok || gd.Tok != token.VAR {
			t.fail(s, "unsupported declaration")
		}
		for _, sp := range gd.Specs {
			vs := sp.(*ast.ValueSpec)
			if len(vs.Values) != 0 {
				t.fail(s, "var with initialiser not supported")
			}
			switch ty := vs.Type.(type) {
			case *ast.Ident:
				if ty.Name != "int64" {
					t.fail(s, "only int64 variables supported")
				}
				for _, nm := range vs.Names {
					t.emit(t.declare(s, nm.Name, prefix), eConst{big.NewInt(0)})
				}
			case *ast.ArrayType:
				if fmt.Sprint(ty.Elt) != "int64" || ty.Len == nil {
					t.fail(s, "only [N]int64 arrays supported")
				}
				n := t.constInt(ty.Len, t.exprLen(ty.Len))
				for _, nm := range vs.Names {
					ids := make([]int, n)
					for i := range ids {
						ids[i] = t.newVar(fmt.Sprintf("%s%s_%d", prefix, nm.Name, i))
						t.emit(ids[i], eConst{big.NewInt(0)}) // Go zero value
					}
					t.arrays[nm.Name] = ids
				}
			default:
				t.fail(s, "unsupported variable type")
			}
		}
	case *ast.AssignStmt:
		if len(x.Lhs) != 1 || len(x.Rhs) != 1 {
			t.fail(s, "multiple assignment not supported")
		}
		// output byte?
		if ie, ok := x.Lhs[0].(*ast.IndexExpr); ok {
			if id, ok := ie.X.(*ast.Ident); ok && id.Name == t.outName && t.slices == nil {
				if x.Tok != token.ASSIGN {
					t.fail(s, "output bytes must be plainly assigned")
				}
				i := t.constInt(ie.Index, t.expr(ie.Index))
				if i >= t.outLen || t.outs[i] != nil {
					t.fail(s, "output byte %d out of range or assigned twice", i)
				}
				call, ok := x.Rhs[0].(*ast.CallExpr)
				if !ok || fmt.Sprint(call.Fun) != "byte" || len(call.Args) != 1 {
					t.fail(s, "output byte must be byte(<int64 expression>)")
				}
				t.outs[i] = t.expr(call.Args[0])
				return
			}
		}
		rhs := t.expr(x.Rhs[0])
		if x.Tok == token.DEFINE {
			id, ok := x.Lhs[0].(*ast.Ident)
			if !ok {
				t.fail(s, "unsupported := target")
			}
			if _, dup := t.scalars[id.Name]; dup {
				t.fail(s, "redeclaration of %s", id.Name)
			}
			// rhs is translated before the new name is visible
			t.emit(t.declare(s, id.Name, prefix), rhs)
			return
		}
		var dst int
		switch l := x.Lhs[0].(type) {
		case *ast.Ident:
			id, ok := t.scalars[l.Name]
			if !ok {
				t.fail(s, "assignment to unknown variable %s", l.Name)
			}
			dst = id
		case *ast.IndexExpr:
			id, ok := l.X.(*ast.Ident)
			if !ok {
				t.fail(s, "unsupported assignment target")
			}
			arr, ok := t.arrays[id.Name]
			if !ok {
				t.fail(s, "assignment to element of unknown array %s", id.Name)
			}
			i := t.constInt(l.Index, t.expr(l.Index))
			if i >= len(arr) {
				t.fail(s, "array index out of range")
			}
			dst = arr[i]
		default:
			t.fail(s, "unsupported assignment target")
		}
		if x.Tok == token.ASSIGN {
			t.emit(dst, rhs)
			return
		}
		op := binOpName(x.Tok)
		if op == "" {
			t.fail(s, "unsupported assignment operator %s", x.Tok)
		}
		t.emit(dst, t.mkBin(s, op, eVar{dst}, rhs))
	default:
		t.fail(s, "unsupported statement %T", s)
	}
}

func (t *fnTrans) exprLen(e ast.Expr) expr { return t.expr(e) }

func ptrArrayLen(ty ast.Expr) (int, bool) {
	st, ok := ty.(*ast.StarExpr)
	if !ok {
		return 0, false
	}
	at, ok := st.X.(*ast.ArrayType)
	if !ok || at.Len == nil || fmt.Sprint(at.Elt) != "byte" {
		return 0, false
	}
	bl, ok := at.Len.(*ast.BasicLit)
	if !ok {
		return 0, false
	}
	n, err := strconv.Atoi(bl.Value)
	return n, err == nil
}

func translate(fset *token.FileSet, fd *ast.FuncDecl, helpers map[string]*ast.FuncDecl) *fnTrans {
	t := &fnTrans{name: fd.Name.Name, fset: fset, helpers: helpers,
		scalars: map[string]int{}, arrays: map[string][]int{}, inputs: map[string]int{}}
	first := true
	for _, f := range fd.Type.Params.List {
		n, ok := ptrArrayLen(f.Type)
		if !ok {
			t.fail(f, "parameters must be *[N]byte")
		}
		for _, nm := range f.Names {
			if first {
				t.outName, t.outLen, first = nm.Name, n, false
				continue
			}
			t.inputs[nm.Name] = len(t.inNames)
			t.inNames = append(t.inNames, nm.Name)
			t.inLens = append(t.inLens, n)
		}
	}
	if fd.Type.Results != nil {
		t.fail(fd, "function must not return values")
	}
	t.outs = make([]expr, t.outLen)
	for _, s := range fd.Body.List {
		t.stmt(s, "")
	}
	for i, o := range t.outs {
		if o == nil {
			t.fail(fd, "output byte %d never assigned", i)
		}
	}
	return t
}

// ---------- printing ----------

func zlit(v *big.Int) string {
	if v.Sign() < 0 {
		return "(" + v.String() + ")"
	}
	return v.String()
}

func (t *fnTrans) shallow(e expr, wr string) string {
	switch x := e.(type) {
	case eConst:
		return zlit(x.v)
	case eVar:
		return t.varNames[x.id]
	case eIn:
		return fmt.Sprintf("(inb %s %d)", t.inParam(x.arr), x.idx)
	case eBin:
		a, b := t.shallow(x.a, wr), t.shallow(x.b, wr)
		switch x.op {
		case "add":
			return fmt.Sprintf("(%s (%s + %s))", wr, a, b)
		case "sub":
			return fmt.Sprintf("(%s (%s - %s))", wr, a, b)
		case "mul":
			return fmt.Sprintf("(%s (%s * %s))", wr, a, b)
		case "and":
			return fmt.Sprintf("(%s (Z.land %s %s))", wr, a, b)
		case "or":
			return fmt.Sprintf("(%s (Z.lor %s %s))", wr, a, b)
		}
	case eSh:
		a := t.shallow(x.a, wr)
		if x.op == "shl" {
			return fmt.Sprintf("(%s (Z.shiftl %s %d))", wr, a, x.k)
		}
		return fmt.Sprintf("(%s (Z.shiftr %s %d))", wr, a, x.k)
	}
	panic("shallow")
}

func (t *fnTrans) inParam(arr int) string { return "in_" + t.inNames[arr] }

func (t *fnTrans) deep(e expr) string {
	switch x := e.(type) {
	case eConst:
		return "(EConst " + zlit(x.v) + ")"
	case eVar:
		return fmt.Sprintf("(EVar %d)", x.id)
	case eIn:
		return fmt.Sprintf("(EIn %d %d)", x.arr, x.idx)
	case eBin:
		c := map[string]string{"add": "EAdd", "sub": "ESub", "mul": "EMul", "and": "EAnd", "or": "EOr"}[x.op]
		return fmt.Sprintf("(%s %s %s)", c, t.deep(x.a), t.deep(x.b))
	case eSh:
		c := map[string]string{"shl": "EShl", "shr": "EShr"}[x.op]
		return fmt.Sprintf("(%s %s %d)", c, t.deep(x.a), x.k)
	}
	panic("deep")
}

func (t *fnTrans) print(sb *strings.Builder) {
	params := ""
	for i := range t.inNames {
		params += " " + t.inParam(i)
	}
	for _, v := range []struct{ suffix, wr, doc string }{
		{"", "i64", "Go semantics: every int64 operation wrapped"},
		{"_nowrap", "noi", "the same code over unbounded integers (no wrapping)"},
	} {
		fmt.Fprintf(sb, "(* %s: %s *)\n", t.name, v.doc)
		fmt.Fprintf(sb, "Definition %s%s (%s : list Z) : list Z :=\n", t.name, v.suffix, strings.TrimSpace(params))
		for _, in := range t.code {
			fmt.Fprintf(sb, "  dlet %s := %s in\n", t.varNames[in.dst], t.shallow(in.e, v.wr))
		}
		sb.WriteString("  [")
		for i, o := range t.outs {
			if i > 0 {
				sb.WriteString(";\n   ")
			}
			fmt.Fprintf(sb, "byte8 %s", t.shallow(o, v.wr))
		}
		sb.WriteString("].\n\n")
	}
	fmt.Fprintf(sb, "Definition names_%s : list string :=\n  [", t.name)
	for i, n := range t.varNames {
		if i > 0 {
			sb.WriteString("; ")
			if i%8 == 0 {
				sb.WriteString("\n   ")
			}
		}
		fmt.Fprintf(sb, "%q", n)
	}
	sb.WriteString("].\n\n")
	fmt.Fprintf(sb, "Definition inlens_%s : list nat := [", t.name)
	for i, n := range t.inLens {
		if i > 0 {
			sb.WriteString("; ")
		}
		fmt.Fprintf(sb, "%d%%nat", n)
	}
	sb.WriteString("].\n\n")
	fmt.Fprintf(sb, "Definition prog_%s : prog := mkProg %d\n  [", t.name, len(t.varNames))
	for i, in := range t.code {
		if i > 0 {
			sb.WriteString(";\n   ")
		}
		fmt.Fprintf(sb, "ISet %d %s", in.dst, t.deep(in.e))
	}
	sb.WriteString("]\n  [")
	for i, o := range t.outs {
		if i > 0 {
			sb.WriteString(";\n   ")
		}
		sb.WriteString(strings.TrimSuffix(strings.TrimPrefix(t.deep(o), "("), ")"))
	}
	sb.WriteString("].\n\n")
}

func main() {
	dir := flag.String("dir", "/repo/group/edwards25519", "directory of package edwards25519")
	fns := flag.String("funcs", "scMulAdd,scMul,scAdd,scSub,scReduce", "functions to translate")
	helperNames := flag.String("helpers", "load3,load4", "helper functions to inline")
	out := flag.String("o", "", "output file (default stdout)")
	flag.Parse()

	fset := token.NewFileSet()
	decls := map[string]*ast.FuncDecl{}
	matches, err := filepath.Glob(filepath.Join(*dir, "*.go"))
	if err != nil || len(matches) == 0 {
		fmt.Fprintf(os.Stderr, "translator: no Go files in %s\n", *dir)
		os.Exit(1)
	}
	sort.Strings(matches)
	for _, m := range matches {
		if strings.HasSuffix(m, "_test.go") {
			continue
		}
		f, err := parser.ParseFile(fset, m, nil, 0)
		if err != nil {
			fmt.Fprintf(os.Stderr, "translator: %v\n", err)
			os.Exit(1)
		}
		for _, d := range f.Decls {
			if fd, ok := d.(*ast.FuncDecl); ok && fd.Recv == nil && fd.Body != nil {
				decls[fd.Name.Name] = fd
			}
		}
	}
	helpers := map[string]*ast.FuncDecl{}
	for _, h := range strings.Split(*helperNames, ",") {
		fd, ok := decls[h]
		if !ok {
			fmt.Fprintf(os.Stderr, "translator: helper %s not found\n", h)
			os.Exit(1)
		}
		helpers[h] = fd
	}
	var sb strings.Builder
	sb.WriteString("(* GENERATED by /verif/translator (bin/gen-limbs) from group/edwards25519/{scalar,fe}.go.\n")
	sb.WriteString("   Do not edit: regenerated on every check. Proofs about it: theories/Limb. *)\n")
	sb.WriteString("From Coq Require Import ZArith List String.\nFrom Kyber Require Import Limb.LimbSem.\n")
	sb.WriteString("Import ListNotations.\nOpen Scope string_scope.\nOpen Scope Z_scope.\n\n")
	var names []string
	for _, fn := range strings.Split(*fns, ",") {
		fd, ok := decls[fn]
		if !ok {
			fmt.Fprintf(os.Stderr, "translator: function %s not found\n", fn)
			os.Exit(1)
		}
		translate(fset, fd, helpers).print(&sb)
		names = append(names, fn)
	}
	if *out == "" {
		fmt.Print(sb.String())
		return
	}
	tmp := *out + fmt.Sprintf(".tmp%d", os.Getpid())
	if err := os.WriteFile(tmp, []byte(sb.String()), 0o644); err != nil {
		fmt.Fprintln(os.Stderr, "translator:", err)
		os.Exit(1)
	}
	if err := os.Rename(tmp, *out); err != nil {
		fmt.Fprintln(os.Stderr, "translator:", err)
		os.Exit(1)
	}
}
