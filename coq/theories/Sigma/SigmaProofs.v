(* Theorems about the model of package proof (Sigma/SigmaSM.v). *)
From Coq Require Import ZArith Znumtheory List Bool Lia Ring Field.
From Kyber Require Import Algebra.Zq Algebra.Grp Sigma.SigmaSM.
Import ListNotations.
Local Open Scope Z_scope.

(* induction principle for the nested inductive [pred] *)
Lemma pred_ind2 (Pp : pred -> Prop) :
  (forall P T, Pp (Rep P T)) ->
  (forall l, Forall Pp l -> Pp (And l)) ->
  (forall id l, Forall Pp l -> Pp (Or id l)) ->
  forall p, Pp p.
Proof.
  intros HR HA HO. fix IH 1. intros [P T|l|id l].
  - apply HR.
  - apply HA. revert l. fix IHl 1. intros [|x l]; constructor; [apply IH|apply IHl].
  - apply HO. revert l. fix IHl 1. intros [|x l]; constructor; [apply IH|apply IHl].
Qed.

Lemma mem_In x l : mem x l = true <-> In x l.
Proof.
  unfold mem. rewrite existsb_exists. split.
  - intros [y [Hy E]]. apply Z.eqb_eq in E. subst. exact Hy.
  - intros H. exists x. split; [exact H|apply Z.eqb_refl].
Qed.

Lemma dedup_acc_In seen l x : In x (dedup_acc seen l) <-> (In x l /\ ~ In x seen).
Proof.
  revert seen. induction l as [|y l IH]; intros seen; cbn [dedup_acc].
  - cbn. tauto.
  - destruct (mem y seen) eqn:E.
    + apply mem_In in E. rewrite IH. cbn. split; [tauto|].
      intros [[->|H] N]; [contradiction|tauto].
    + assert (N : ~ In y seen) by (rewrite <- mem_In; congruence).
      cbn [In]. rewrite IH. cbn [In]. split.
      * intros [->|[H1 H2]]; [tauto|]. split; [tauto|]. intros H3. apply H2. tauto.
      * intros [[->|H1] H2]; [tauto|]. destruct (Z.eq_dec y x); [tauto|]. right. split; [exact H1|].
        intros [H3|H3]; tauto.
Qed.

Lemma svars_In p x : In x (svars p) <-> In x (svars_raw p).
Proof. unfold svars. rewrite dedup_acc_In. cbn. tauto. Qed.

Section Proofs.
  Variable q : Z.
  Hypothesis q_prime : prime q.
  Notation F := (zq q).
  Add Field zqF : (zq_field q q_prime).

  Variable pval : Z -> F.
  Variable sval : Z -> F.
  Variable choice : Z -> option Z.
  Variable rnd : nat -> F.
  Variable svs : list Z.

  Notation vec := (vec q).

  Definition ext (v v' : vec) : Prop := forall s x, v s = Some x -> v' s = Some x.
  Definition getv (v : vec) (s : Z) : F := match v s with Some x => x | None => zzero end.

  Lemma ext_refl v : ext v v. Proof. intros s x H. exact H. Qed.
  Lemma ext_trans a b c : ext a b -> ext b c -> ext a c.
  Proof. intros H1 H2 s x H. apply H2, H1, H. Qed.
  Lemma ext_getv v v' s : ext v v' -> v s <> None -> getv v' s = getv v s.
  Proof. intros H N. unfold getv. destruct (v s) eqn:E; [|congruence]. rewrite (H _ _ E). reflexivity. Qed.

  Lemma lin_cons (f : Z -> F) s b T :
    lin q pval f ((s, b) :: T) = padd (smul (f s) (pval b)) (lin q pval f T).
  Proof. reflexivity. Qed.
  Lemma lin_nil (f : Z -> F) : lin q pval f [] = pzero.
  Proof. reflexivity. Qed.

  Lemma lin_ext (f g : Z -> F) T :
    (forall s, In s (map fst T) -> f s = g s) -> lin q pval f T = lin q pval g T.
  Proof.
    induction T as [|[s b] T IH]; intros H; [reflexivity|].
    rewrite !lin_cons. rewrite (H s) by (left; reflexivity). rewrite IH; [reflexivity|].
    intros s' Hs. apply H. right. exact Hs.
  Qed.

  Lemma lin_sub (f g : Z -> F) c T :
    lin q pval (fun s => zsub (f s) (zmul c (g s))) T =
    psub (lin q pval f T) (smul c (lin q pval g T)).
  Proof.
    induction T as [|[s b] T IH].
    - rewrite !lin_nil. unfold psub, smul, pzero. ring.
    - rewrite !lin_cons, IH. unfold psub, smul, padd. ring.
  Qed.

  (* ------------------------------------------------------------------ *)
  (* commit inside a scope *)
  Lemma commit_terms_spec T : forall v n V v' n' V',
      commit_terms q pval rnd T v n V = (v', n', V') ->
      ext v v' /\
      (forall s, In s (map fst T) -> v' s <> None) /\
      (forall s, v' s <> None -> v s <> None \/ In s (map fst T)) /\
      V' = padd V (lin q pval (getv v') T).
  Proof.
    induction T as [|[s b] T IH]; intros v n V v' n' V' H; cbn [commit_terms] in H.
    - inversion H; subst. repeat split.
      + apply ext_refl.
      + intros s [].
      + intros s Hs. left. exact Hs.
      + rewrite lin_nil. unfold padd, pzero. ring.
    - destruct (v s) as [x|] eqn:E.
      + apply IH in H. destruct H as (He & Hd & Hb & HV). repeat split.
        * exact He.
        * intros s' [<-|Hs]; [cbn; rewrite (He _ _ E); discriminate|apply Hd, Hs].
        * intros s' Hs. destruct (Hb _ Hs) as [?|?]; [left; assumption|right; right; assumption].
        * rewrite HV, lin_cons. unfold getv at 2. rewrite (He _ _ E). unfold padd. ring.
      + apply IH in H. destruct H as (He & Hd & Hb & HV).
        assert (Hs' : v' s = Some (rnd n)).
        { apply He. unfold upd. rewrite Z.eqb_refl. reflexivity. }
        repeat split.
        * intros s' x Hx. apply He. unfold upd. destruct (Z.eqb_spec s' s); [subst; congruence|exact Hx].
        * intros s' [<-|Hs]; [cbn; rewrite Hs'; discriminate|apply Hd, Hs].
        * intros s' Hs. destruct (Hb _ Hs) as [H1|H1]; [|right; right; exact H1].
          unfold upd in H1. destruct (Z.eqb_spec s' s); [right; left; cbn; congruence|left; exact H1].
        * rewrite HV, lin_cons. unfold getv at 2. rewrite Hs'. unfold padd. ring.
  Qed.

  (* the commitments of a scope as a function of the scope's final blinding vector *)
  Fixpoint commits_of (w : option F) (vf : Z -> F) (a : pred) : list F :=
    match a with
    | Rep P T => [padd (match w with Some w0 => smul w0 (pval P) | None => pzero end)
                       (lin q pval vf T)]
    | And l => flat_map (commits_of w vf) l
    | Or _ _ => []
    end.

  Lemma commit_and_spec a : andtree a = true -> forall w v n,
      exists v' n' Vs,
        commit_and q pval rnd a w v n = Ok (v', n', Vs) /\
        ext v v' /\
        (forall s, In s (scope_vars a) -> v' s <> None) /\
        (forall s, v' s <> None -> v s <> None \/ In s (scope_vars a)) /\
        length Vs = nreps a /\
        (forall vf, ext v' vf -> Vs = commits_of w (getv vf) a).
  Proof.
    induction a as [P T|l IH|id l IH] using pred_ind2; intros Hat w v n.
    - cbn [commit_and].
      destruct (commit_terms q pval rnd T v n
                  (match w with Some w0 => smul w0 (pval P) | None => pzero end))
        as [[v' n'] V'] eqn:E.
      apply commit_terms_spec in E. destruct E as (He & Hd & Hb & HV).
      exists v', n', [V']. repeat split; try assumption.
      intros vf Hvf. cbn [commits_of]. f_equal. rewrite HV. f_equal.
      apply lin_ext. intros s Hs. symmetry. apply ext_getv; [exact Hvf|apply Hd, Hs].
    - cbn [andtree] in Hat. revert v n. induction l as [|s l IHl]; intros v n.
      + exists v, n, []. cbn. split; [reflexivity|]. split; [apply ext_refl|].
        split; [intros s []|]. split; [intros s Hs; left; exact Hs|].
        split; [reflexivity|]. intros; reflexivity.
      + inversion IH as [|? ? IHs IHr]; subst. cbn [forallb] in Hat.
        apply andb_true_iff in Hat. destruct Hat as [Hs Hl].
        destruct (IHs Hs w v n) as (v1 & n1 & c1 & E1 & He1 & Hd1 & Hb1 & Hl1 & Hc1).
        destruct (IHl IHr Hl v1 n1) as (v2 & n2 & c2 & E2 & He2 & Hd2 & Hb2 & Hl2 & Hc2).
        exists v2, n2, (c1 ++ c2). cbn [commit_and] in E2 |- *. rewrite E1, E2.
        repeat split.
        * eapply ext_trans; eassumption.
        * intros s' Hs'. cbn [scope_vars flat_map] in Hs'. apply in_app_or in Hs'.
          destruct Hs' as [H1|H1].
          -- specialize (Hd1 _ H1). destruct (v1 s') eqn:E; [|congruence].
             rewrite (He2 _ _ E). discriminate.
          -- apply Hd2. exact H1.
        * intros s' Hs'. cbn [scope_vars flat_map]. rewrite in_app_iff.
          destruct (Hb2 _ Hs') as [H1|H1]; [|tauto].
          destruct (Hb1 _ H1); tauto.
        * rewrite app_length, Hl1, Hl2. reflexivity.
        * intros vf Hvf. cbn [commits_of flat_map]. f_equal.
          -- apply Hc1. eapply ext_trans; eassumption.
          -- apply Hc2. exact Hvf.
    - discriminate.
  Qed.

  (* ------------------------------------------------------------------ *)
  (* respond inside a scope *)
  Definition resp (w : option F) (c : F) (x : F) (s : Z) : F :=
    match w with Some _ => x | None => zsub x (zmul c (sval s)) end.

  Definition rcons (w : option F) (c : F) (v : vec) (r : vec) : Prop :=
    forall s y, r s = Some y -> y = resp w c (getv v s) s.

  Lemma respond_terms_spec w c v T : forall r0,
      (forall s, In s (map fst T) -> v s <> None) ->
      rcons w c v r0 ->
      let r1 := respond_terms q sval T w v c r0 in
      rcons w c v r1 /\ ext r0 r1 /\
      (forall s, In s (map fst T) -> r1 s <> None) /\
      (forall s, r1 s <> None -> r0 s <> None \/ In s (map fst T)).
  Proof.
    induction T as [|[s b] T IH]; intros r0 Hv Hc; cbn [respond_terms].
    - repeat split; [exact Hc|apply ext_refl|intros s []|intros s Hs; left; exact Hs].
    - assert (HvT : forall s', In s' (map fst T) -> v s' <> None).
      { intros s' Hs'. apply Hv. right. exact Hs'. }
      destruct (r0 s) as [y|] eqn:E.
      + destruct (IH r0 HvT Hc) as (H1 & H2 & H3 & H4). repeat split.
        * exact H1.
        * exact H2.
        * intros s' [<-|Hs']; [cbn; rewrite (H2 _ _ E); discriminate|apply H3, Hs'].
        * intros s' Hs'. destruct (H4 _ Hs'); [left; assumption|right; right; assumption].
      + set (y := match w with
                  | Some _ => v s
                  | None => option_map (fun vs => zsub vs (zmul c (sval s))) (v s)
                  end).
        assert (Hy : y = Some (resp w c (getv v s) s)).
        { unfold y, resp, getv. specialize (Hv s (or_introl eq_refl)).
          destruct (v s); [|congruence]. destruct w; reflexivity. }
        assert (Hc' : rcons w c v (updo q r0 s y)).
        { intros s' y' H'. unfold updo in H'. destruct (Z.eqb_spec s' s).
          - subst s'. rewrite Hy in H'. inversion H'. reflexivity.
          - apply Hc. exact H'. }
        destruct (IH _ HvT Hc') as (H1 & H2 & H3 & H4).
        assert (Hs1 : respond_terms q sval T w v c (updo q r0 s y) s <> None).
        { erewrite H2; [discriminate|]. unfold updo. rewrite Z.eqb_refl. exact Hy. }
        repeat split.
        * exact H1.
        * intros s' x Hx. apply H2. unfold updo. destruct (Z.eqb_spec s' s); [subst; congruence|exact Hx].
        * intros s' [<-|Hs']; [exact Hs1|apply H3, Hs'].
        * intros s' Hs'. destruct (H4 _ Hs') as [H5|H5]; [|right; right; exact H5].
          unfold updo in H5. destruct (Z.eqb_spec s' s); [right; left; cbn; congruence|left; exact H5].
  Qed.

  Lemma respond_and_spec w c v a : andtree a = true -> forall r0,
      (forall s, In s (scope_vars a) -> v s <> None) ->
      rcons w c v r0 ->
      let r1 := respond_and q sval a w v c r0 in
      rcons w c v r1 /\ ext r0 r1 /\
      (forall s, In s (scope_vars a) -> r1 s <> None) /\
      (forall s, r1 s <> None -> r0 s <> None \/ In s (scope_vars a)).
  Proof.
    induction a as [P T|l IH|id l IH] using pred_ind2; intros Hat r0 Hv Hc.
    - cbn [respond_and scope_vars]. apply respond_terms_spec; assumption.
    - cbn [andtree] in Hat. revert r0 Hv Hc. induction l as [|s l IHl]; intros r0 Hv Hc.
      + cbn. repeat split; [exact Hc|apply ext_refl|intros s []|intros s Hs; left; exact Hs].
      + inversion IH as [|? ? IHs IHr]; subst. cbn [forallb] in Hat.
        apply andb_true_iff in Hat. destruct Hat as [Hs Hl].
        assert (Hv1 : forall s', In s' (scope_vars s) -> v s' <> None).
        { intros s' H'. apply Hv. cbn [scope_vars flat_map]. apply in_or_app. left. exact H'. }
        assert (Hv2 : forall s', In s' (scope_vars (And l)) -> v s' <> None).
        { intros s' H'. apply Hv. cbn [scope_vars flat_map]. apply in_or_app. right. exact H'. }
        destruct (IHs Hs r0 Hv1 Hc) as (A1 & A2 & A3 & A4).
        destruct (IHl IHr Hl _ Hv2 A1) as (B1 & B2 & B3 & B4).
        cbn [respond_and] in B1, B2, B3, B4 |- *. repeat split.
        * exact B1.
        * eapply ext_trans; eassumption.
        * intros s' Hs'. cbn [scope_vars flat_map] in Hs'. apply in_app_or in Hs'.
          destruct Hs' as [H1|H1].
          -- specialize (A3 _ H1). destruct (respond_and q sval s w v c r0 s') eqn:E; [|congruence].
             rewrite (B2 _ _ E). discriminate.
          -- apply B3. exact H1.
        * intros s' Hs'. cbn [scope_vars flat_map]. rewrite in_app_iff.
          destruct (B4 _ Hs') as [H1|H1]; [|tauto].
          destruct (A4 _ H1); tauto.
    - discriminate.
  Qed.
  (* ------------------------------------------------------------------ *)
  (* verification inside a scope *)
  Lemma fold_lin (r : Z -> F) T : forall acc,
      fold_left (fun acc t => padd acc (smul (r (fst t)) (pval (snd t)))) T acc =
      padd acc (lin q pval r T).
  Proof.
    induction T as [|[s b] T IH]; intros acc; cbn [fold_left].
    - rewrite lin_nil. unfold padd, pzero. ring.
    - rewrite IH, lin_cons. cbn [fst snd]. unfold padd. ring.
  Qed.

  Lemma rep_lhs_lin c r P T :
    rep_lhs q pval c r P T = padd (smul c (pval P)) (lin q pval r T).
  Proof. unfold rep_lhs. apply fold_lin. Qed.

  Fixpoint sat_and (a : pred) : Prop :=
    match a with
    | Rep P T => pval P = lin q pval sval T
    | And l => fold_right (fun s acc => sat_and s /\ acc) True l
    | Or _ _ => False
    end.

  (* the challenge a node is answered with: the pre-challenge on simulated
     branches; on the obligated path the statement must hold *)
  Definition node_cond (w : option F) (c : F) (P : Prop) : Prop :=
    match w with Some w0 => c = w0 | None => P end.

  Lemma verify_and_ok a : andtree a = true -> forall w c (vf rr : Z -> F),
      (forall s, In s (scope_vars a) -> rr s = resp w c (vf s) s) ->
      node_cond w c (sat_and a) ->
      forall restV, verify_and q pval a c rr (commits_of w vf a ++ restV) = Ok restV.
  Proof.
    induction a as [P T|l IH|id l IH] using pred_ind2; intros Hat w c vf rr Hrr Hc restV.
    - cbn [commits_of verify_and app]. rewrite rep_lhs_lin.
      rewrite (lin_ext rr (fun s => resp w c (vf s) s) T) by (intros s Hs; apply Hrr; exact Hs).
      match goal with |- (if peqb ?a ?b then _ else _) = _ => assert (E : a = b) end.
      { destruct w as [w0|]; cbn [node_cond resp] in *.
        - subst c. reflexivity.
        - cbn [sat_and] in Hc. rewrite lin_sub. rewrite Hc. unfold psub, smul, padd, pzero. ring. }
      rewrite E. unfold peqb. destruct (zeqb_spec q (padd (match w with Some w0 => smul w0 (pval P) | None => pzero end) (lin q pval vf T)) (padd (match w with Some w0 => smul w0 (pval P) | None => pzero end) (lin q pval vf T))); [reflexivity|congruence].
    - cbn [andtree] in Hat. revert restV Hrr Hc. induction l as [|s l IHl]; intros restV Hrr Hc.
      + reflexivity.
      + inversion IH as [|? ? IHs IHr]; subst. cbn [forallb] in Hat.
        apply andb_true_iff in Hat. destruct Hat as [Hs Hl].
        cbn [commits_of flat_map verify_and]. rewrite <- app_assoc.
        rewrite (IHs Hs w c vf rr).
        * apply (IHl IHr Hl).
          -- intros s' H'. apply Hrr. cbn [scope_vars flat_map]. apply in_or_app. right. exact H'.
          -- destruct w; cbn [node_cond] in *; [exact Hc|]. cbn [sat_and fold_right] in Hc. apply Hc.
        * intros s' H'. apply Hrr. cbn [scope_vars flat_map]. apply in_or_app. left. exact H'.
        * destruct w; cbn [node_cond] in *; [exact Hc|]. cbn [sat_and fold_right] in Hc. apply Hc.
    - discriminate.
  Qed.

  (* ------------------------------------------------------------------ *)
  (* wire lemmas *)
  Lemma firstn_len_app {A} (a b : list A) : firstn (length a) (a ++ b) = a.
  Proof. induction a; cbn; [reflexivity|f_equal; assumption]. Qed.
  Lemma skipn_len_app {A} (a b : list A) : skipn (length a) (a ++ b) = b.
  Proof. induction a; cbn; [reflexivity|assumption]. Qed.

  Section WireFacts.
    Variable len : nat.
    Variable enc : F -> list Z.
    Variable dec : list Z -> option F.
    Hypothesis enc_len : forall x, length (enc x) = len.
    Hypothesis dec_enc : forall x, dec (enc x) = Some x.

    Lemma get_enc x rest : get q len dec (enc x ++ rest) = Some (x, rest).
    Proof.
      unfold get. rewrite app_length, enc_len.
      destruct (Nat.ltb_spec (len + length rest) len); [lia|].
      rewrite <- (enc_len x), firstn_len_app, skipn_len_app, dec_enc. reflexivity.
    Qed.

    Lemma read_n_enc xs : forall rest,
        read_n q len dec (length xs) (flat_map enc xs ++ rest) = Some (xs, rest).
    Proof.
      induction xs as [|x xs IH]; intros rest; cbn [read_n flat_map length app]; [reflexivity|].
      rewrite <- app_assoc, get_enc, IH. reflexivity.
    Qed.

    Lemma get_short buf : (length buf < len)%nat -> get q len dec buf = None.
    Proof. intros H. unfold get. destruct (Nat.ltb_spec (length buf) len); [reflexivity|lia]. Qed.
  End WireFacts.
  Lemma andtree_vars a : andtree a = true -> svars_raw a = scope_vars a.
  Proof.
    induction a as [P T|l IH|id l IH] using pred_ind2; intros H; [reflexivity| |discriminate].
    cbn [andtree] in H. cbn [svars_raw scope_vars]. induction l as [|s l IHl]; [reflexivity|].
    inversion IH; subst. cbn [forallb] in H. apply andb_true_iff in H. destruct H as [Ha Hb].
    cbn [flat_map]. f_equal; auto.
  Qed.

  (* ------------------------------------------------------------------ *)
  (* completeness of the interactive protocol, for every challenge *)
  Section Complete.
    Variable slen : nat.
    Variable enc_sc : F -> list Z.
    Variable dec_sc : list Z -> option F.
    Hypothesis enc_sc_len : forall x, length (enc_sc x) = slen.
    Hypothesis dec_enc_sc : forall x, dec_sc (enc_sc x) = Some x.

    Lemma read_resp_enc (f : Z -> F) names : forall r0 rest,
        exists rr,
          read_resp q slen dec_sc names r0 (enc_scs q enc_sc (map f names) ++ rest) = Some (rr, rest) /\
          (forall s, In s names -> rr s = f s) /\
          (forall s, ~ In s names -> rr s = r0 s).
    Proof.
      induction names as [|s0 t IH]; intros r0 rest.
      - exists r0. cbn. split; [reflexivity|]. split; [intros s []|reflexivity].
      - cbn [map enc_scs flat_map read_resp]. rewrite <- app_assoc.
        rewrite (get_enc slen enc_sc dec_sc enc_sc_len dec_enc_sc).
        destruct (IH (updf q r0 s0 (f s0)) rest) as (rr & E & H1 & H2).
        exists rr. unfold enc_scs in E. rewrite E. repeat split.
        + intros s [<-|Hs].
          * destruct (in_dec Z.eq_dec s0 t) as [Hi|Hn]; [apply H1, Hi|].
            rewrite (H2 _ Hn). unfold updf. rewrite Z.eqb_refl. reflexivity.
          * apply H1, Hs.
        + intros s Hs. cbn [In] in Hs. rewrite H2 by tauto.
          unfold updf. destruct (Z.eqb_spec s s0); [subst; tauto|reflexivity].
    Qed.

    Lemma send_filter (r : vec) sv l :
      (forall s, r s <> None <-> In s sv) ->
      send q l r = map (getv r) (filter (fun s => mem s sv) l).
    Proof.
      intros H. unfold send. induction l as [|s l IH]; [reflexivity|].
      cbn [flat_map filter]. destruct (mem s sv) eqn:E.
      - apply mem_In in E. apply H in E. cbn [map]. unfold getv at 1.
        destruct (r s) eqn:Er; [|congruence]. cbn [app]. f_equal. exact IH.
      - assert (N : r s = None).
        { destruct (r s) eqn:Er; [|reflexivity]. exfalso.
          assert (X : r s <> None) by congruence. apply H in X. apply mem_In in X. congruence. }
        rewrite N. exact IH.
    Qed.

    Lemma scope_complete a : andtree a = true -> incl (scope_vars a) svs ->
      forall w c n, node_cond w c (sat_and a) ->
      exists v n' Vs,
        commit_and q pval rnd a w (vempty q) n = Ok (v, n', Vs) /\
        length Vs = nreps a /\
        forall restV restB,
          match read_resp q slen dec_sc (resp_names svs a) (fun _ => zzero)
                  (enc_scs q enc_sc (send q svs (respond_and q sval a w v c (vempty q))) ++ restB) with
          | None => Err EDecode
          | Some (r, b') =>
              match verify_and q pval a c r (Vs ++ restV) with
              | Err e => Err e
              | Ok Vs' => Ok (Vs', b')
              end
          end = Ok (restV, restB).
    Proof.
      intros Hat Hin w c n Hc.
      destruct (commit_and_spec a Hat w (vempty q) n) as (v & n' & Vs & E & He & Hd & Hb & Hl & HV).
      exists v, n', Vs. split; [exact E|]. split; [exact Hl|]. intros restV restB.
      assert (Hc0 : rcons w c v (vempty q)) by (intros s y H; discriminate).
      destruct (respond_and_spec w c v a Hat (vempty q) Hd Hc0) as (R1 & R2 & R3 & R4).
      set (r1 := respond_and q sval a w v c (vempty q)) in *.
      assert (Hiff : forall s, r1 s <> None <-> In s (scope_vars a)).
      { intros s. split; [|apply R3]. intros H. destruct (R4 _ H) as [X|X]; [exfalso; apply X; reflexivity|exact X]. }
      rewrite (send_filter r1 (scope_vars a) svs Hiff). fold (resp_names svs a).
      destruct (read_resp_enc (getv r1) (resp_names svs a) (fun _ => zzero) restB) as (rr & Er & Hr1 & _).
      rewrite Er.
      rewrite (HV v (ext_refl v)).
      rewrite (verify_and_ok a Hat w c (getv v) rr); [reflexivity| |exact Hc].
      intros s Hs. rewrite Hr1.
      - unfold getv at 1. specialize (R3 _ Hs). destruct (r1 s) eqn:Es; [|congruence].
        apply (R1 _ _ Es).
      - unfold resp_names. apply filter_In. split; [apply Hin, Hs|apply mem_In, Hs].
    Qed.
    (* --- pre-challenges of an Or --- *)
    Definition nth_prop {A} (Q : A -> Prop) :=
      fix go (l : list A) (i : nat) : Prop :=
        match l with
        | [] => False
        | s :: l' => match i with O => Q s | S i' => go l' i' end
        end.

    Lemma nth_prop_lt {A} (Q : A -> Prop) l : forall i, nth_prop Q l i -> (i < length l)%nat.
    Proof.
      induction l as [|s l IH]; intros i H; cbn in *; [contradiction|].
      destruct i; [lia|]. apply IH in H. lia.
    Qed.

    Lemma somes_cons_some x (l : list (option F)) : somes q (Some x :: l) = x :: somes q l.
    Proof. reflexivity. Qed.
    Lemma somes_cons_none (l : list (option F)) : somes q (None :: l) = somes q l.
    Proof. reflexivity. Qed.

    Lemma draw_obl_len k : forall i ch n ws n',
        draw_obl q rnd k i ch n = (ws, n') -> length ws = k.
    Proof.
      induction k as [|k IH]; intros i ch n ws n' H; cbn [draw_obl] in H.
      - inversion H. reflexivity.
      - destruct (Nat.eqb i ch).
        + destruct (draw_obl q rnd k (S i) ch n) as [l n1] eqn:E. inversion H; subst.
          cbn. f_equal. eapply IH, E.
        + destruct (draw_obl q rnd k (S i) ch (S n)) as [l n1] eqn:E. inversion H; subst.
          cbn. f_equal. eapply IH, E.
    Qed.

    Lemma draw_obl_sum cs k : forall i ch n ws n',
        draw_obl q rnd k i ch n = (ws, n') ->
        ((i <= ch < i + k)%nat ->
         psum (map (fill q cs) ws) = padd (psum (somes q ws)) cs) /\
        ((ch < i)%nat -> psum (map (fill q cs) ws) = psum (somes q ws)).
    Proof.
      induction k as [|k IH]; intros i ch n ws n' H; cbn [draw_obl] in H.
      - inversion H; subst. split; [lia|reflexivity].
      - destruct (Nat.eqb_spec i ch) as [->|Hne].
        + destruct (draw_obl q rnd k (S ch) ch n) as [l n1] eqn:E. inversion H; subst.
          destruct (IH _ _ _ _ _ E) as [_ H2]. split; [|lia]. intros _.
          cbn [map fill psum fold_right]. rewrite somes_cons_none. fold (psum (map (fill q cs) l)).
          rewrite H2 by lia. unfold padd. ring.
        + destruct (draw_obl q rnd k (S i) ch (S n)) as [l n1] eqn:E. inversion H; subst.
          destruct (IH _ _ _ _ _ E) as [H1 H2]. rewrite somes_cons_some.
          cbn [map fill psum fold_right]. fold (psum (map (fill q cs) l)). fold (psum (somes q l)).
          split; intros Hr.
          * rewrite H1 by lia. unfold padd. ring.
          * rewrite H2 by lia. reflexivity.
    Qed.

    Lemma draw_obl_cond (Q : pred -> Prop) l : forall i ch n ws n',
        draw_obl q rnd (length l) i ch n = (ws, n') ->
        ((i <= ch)%nat -> nth_prop Q l (ch - i)) ->
        Forall2 (fun s w' => w' = None -> Q s) l ws.
    Proof.
      induction l as [|s l IH]; intros i ch n ws n' H Hn; cbn [length draw_obl] in H.
      - inversion H. constructor.
      - destruct (Nat.eqb_spec i ch) as [->|Hne].
        + destruct (draw_obl q rnd (length l) (S ch) ch n) as [l1 n1] eqn:E. inversion H; subst.
          constructor.
          * intros _. specialize (Hn (le_n _)). rewrite Nat.sub_diag in Hn. exact Hn.
          * eapply IH; [exact E|]. intros; lia.
        + destruct (draw_obl q rnd (length l) (S i) ch (S n)) as [l1 n1] eqn:E. inversion H; subst.
          constructor; [discriminate|].
          eapply IH; [exact E|]. intros Hle. assert (Hle' : (i <= ch)%nat) by lia.
          specialize (Hn Hle'). replace (ch - i)%nat with (S (ch - S i)) in Hn by lia. exact Hn.
    Qed.

    Lemma draw_sim_spec k : forall w0 n ws n',
        k <> O -> draw_sim q rnd k w0 n = (ws, n') ->
        length ws = k /\ Forall (fun o => o <> None) ws /\ psum (somes q ws) = w0.
    Proof.
      induction k as [|k IH]; intros w0 n ws n' Hk H; [congruence|].
      destruct k as [|k].
      - cbn in H. inversion H; subst. repeat split.
        + constructor; [discriminate|constructor].
        + cbn. unfold padd, pzero. ring.
      - change (draw_sim q rnd (S (S k)) w0 n) with
          (let '(l, n') := draw_sim q rnd (S k) (zsub w0 (rnd n)) (S n) in (Some (rnd n) :: l, n')) in H.
        destruct (draw_sim q rnd (S k) (zsub w0 (rnd n)) (S n)) as [l n1] eqn:E.
        inversion H; subst. destruct (IH _ _ _ _ ltac:(discriminate) E) as (J1 & J2 & J3).
        repeat split.
        + cbn [length]. rewrite J1. reflexivity.
        + constructor; [discriminate|exact J2].
        + rewrite somes_cons_some. cbn [psum fold_right]. fold (psum (somes q l)). rewrite J3.
          unfold padd. ring.
    Qed.

    Lemma fill_somes cs (ws : list (option F)) :
      Forall (fun o => o <> None) ws -> map (fill q cs) ws = somes q ws.
    Proof.
      induction 1 as [|o l Ho Hl IH]; [reflexivity|].
      destruct o; [|congruence]. rewrite somes_cons_some. cbn [map fill]. f_equal. exact IH.
    Qed.

    (* --- the statement proved on the obligated path --- *)
    Fixpoint obl_ok (p : pred) : Prop :=
      match p with
      | Or id l => exists ch, choice id = Some (Z.of_nat ch) /\ nth_prop obl_ok l ch
      | a => sat_and a
      end.

    Definition core (p : pred) : Prop :=
      wf p = true -> incl (svars_raw p) svs ->
      forall w c n, node_cond w c (obl_ok p) ->
      exists st n' Vs,
        commit q pval choice rnd p w n = Ok (st, n', Vs) /\
        length Vs = nreps p /\
        forall restV restB,
          verify q slen dec_sc pval svs p c (Vs ++ restV)
                 (enc_scs q enc_sc (respond q sval svs st c) ++ restB) = Ok (restV, restB).

    Lemma list_core l : Forall core l -> forallb wf l = true -> incl (flat_map svars_raw l) svs ->
      forall cs ws n,
        Forall2 (fun s w' => w' = None -> obl_ok s) l ws ->
        exists sts n' Vs,
          commit_list q (commit q pval choice rnd) l ws n = Ok (sts, n', Vs) /\
          length sts = length l /\
          length Vs = fold_right (fun s k => (nreps s + k)%nat) O l /\
          forall restV restB,
            verify_list q (verify q slen dec_sc pval svs) l (map (fill q cs) ws) (Vs ++ restV)
              (enc_scs q enc_sc (respond_list q (respond q sval svs) sts (map (fill q cs) ws)) ++ restB)
            = Ok (restV, restB).
    Proof.
      intros HF. induction HF as [|s l Hs Hl IH]; intros Hwf Hin cs ws n H2.
      - inversion H2; subst. exists [], n, []. cbn. repeat split; reflexivity.
      - inversion H2 as [|? w' ? ws' Hw Hws]; subst. cbn [forallb] in Hwf.
        apply andb_true_iff in Hwf. destruct Hwf as [Hwf1 Hwf2].
        cbn [flat_map] in Hin.
        assert (Hin1 : incl (svars_raw s) svs) by (intros x Hx; apply Hin, in_or_app; left; exact Hx).
        assert (Hin2 : incl (flat_map svars_raw l) svs) by (intros x Hx; apply Hin, in_or_app; right; exact Hx).
        assert (Hc : node_cond w' (fill q cs w') (obl_ok s)).
        { destruct w'; cbn; [reflexivity|apply Hw; reflexivity]. }
        destruct (Hs Hwf1 Hin1 w' (fill q cs w') n Hc) as (st & n1 & V1 & E1 & L1 & K1).
        destruct (IH Hwf2 Hin2 cs ws' n1 Hws) as (sts & n2 & V2 & E2 & L2 & L3 & K2).
        exists (st :: sts), n2, (V1 ++ V2). cbn [commit_list]. rewrite E1.
        change (commit_list q (commit q pval choice rnd) l ws' n1) with
          (commit_list q (commit q pval choice rnd) l ws' n1) in E2. rewrite E2.
        split; [reflexivity|]. split; [cbn; rewrite L2; reflexivity|].
        split; [rewrite app_length, L1, L3; reflexivity|].
        intros restV restB. cbn [map verify_list respond_list].
        unfold enc_scs. rewrite flat_map_app. fold (enc_scs q enc_sc). rewrite <- !app_assoc.
        rewrite K1. apply K2.
    Qed.
    Lemma or_core id l : Forall core l -> wf (Or id l) = true -> incl (svars_raw (Or id l)) svs ->
      forall ws c n1,
        length ws = length l ->
        Forall2 (fun s w' => w' = None -> obl_ok s) l ws ->
        psum (map (fill q (zsub c (psum (somes q ws)))) ws) = c ->
        exists sts n' Vs,
          commit_list q (commit q pval choice rnd) l ws n1 = Ok (sts, n', Vs) /\
          length Vs = nreps (Or id l) /\
          forall restV restB,
            verify q slen dec_sc pval svs (Or id l) c (Vs ++ restV)
              (enc_scs q enc_sc (respond q sval svs (SOr q ws sts) c) ++ restB) = Ok (restV, restB).
    Proof.
      intros HF Hwf Hin ws c n1 Hlen H2 Hsum.
      cbn [wf] in Hwf. apply andb_true_iff in Hwf. destruct Hwf as [Hne Hwf].
      set (cs := zsub c (psum (somes q ws))) in *.
      destruct (list_core l HF Hwf Hin cs ws n1 H2) as (sts & n2 & Vs & E & Ls & LV & K).
      exists sts, n2, Vs. split; [exact E|]. split; [exact LV|].
      intros restV restB. cbn [verify respond]. fold cs. rewrite Ls.
      destruct l as [|s0 [|s1 l]].
      - discriminate.
      - (* a single sub-predicate: no sub-challenges on the wire *)
        destruct ws as [|w' [|? ?]]; try discriminate.
        cbn [length Nat.ltb Nat.leb app].
        assert (Hw : fill q cs w' = c).
        { cbn [map psum fold_right] in Hsum. rewrite <- Hsum. unfold padd, pzero. ring. }
        specialize (K restV restB). cbn [map] in K. rewrite Hw in K. cbn [map]. rewrite Hw. exact K.
      - cbn [length Nat.ltb Nat.leb].
        unfold enc_scs. rewrite flat_map_app. fold (enc_scs q enc_sc). rewrite <- app_assoc.
        replace (S (S (length l))) with (length (map (fill q cs) ws)) by (rewrite map_length, Hlen; reflexivity).
        rewrite (read_n_enc slen enc_sc dec_sc enc_sc_len dec_enc_sc).
        rewrite Hsum. unfold zeqb. rewrite Z.eqb_refl. apply K.
    Qed.

    Theorem core_all p : core p.
    Proof.
      induction p as [P T|l IH|id l IH] using pred_ind2; unfold core.
      - intros _ Hin w c n Hc.
        destruct (scope_complete (Rep P T) eq_refl Hin w c n Hc) as (v & n' & Vs & E & L & K).
        exists (SScope q w v (Rep P T)), n', Vs. cbn [commit]. rewrite E. repeat split; [exact L|].
        intros restV restB. cbn [verify respond]. apply K.
      - intros Hwf Hin w c n Hc. change (andtree (And l) = true) in Hwf.
        rewrite (andtree_vars _ Hwf) in Hin.
        destruct (scope_complete (And l) Hwf Hin w c n Hc) as (v & n' & Vs & E & L & K).
        exists (SScope q w v (And l)), n', Vs. cbn [commit]. rewrite E. repeat split; [exact L|].
        intros restV restB. cbn [verify respond]. apply K.
      - intros Hwf Hin w c n Hc.
        assert (Hk : length l <> O).
        { cbn [wf] in Hwf. apply andb_true_iff in Hwf. destruct Hwf as [Hne _].
          destruct (Nat.eqb_spec (length l) 0); [discriminate|assumption]. }
        cbn [commit].
        destruct w as [w0|]; cbn [node_cond] in Hc.
        + (* simulated Or *)
          destruct (draw_sim q rnd (length l) w0 n) as [ws n1] eqn:Ed.
          destruct (draw_sim_spec _ _ _ _ _ Hk Ed) as (Hl & Hs & Hp).
          assert (H2 : Forall2 (fun s w' => w' = None -> obl_ok s) l ws).
          { clear - Hl Hs. revert l Hl. induction Hs as [|o ws Ho Hs IH]; intros [|s l] Hl; try discriminate; constructor.
            - intros; congruence.
            - apply IH. cbn in Hl. lia. }
          assert (Hsum : psum (map (fill q (zsub c (psum (somes q ws)))) ws) = c).
          { rewrite fill_somes by exact Hs. rewrite Hp. symmetry. exact Hc. }
          destruct (or_core id l IH Hwf Hin ws c n1 Hl H2 Hsum) as (sts & n2 & Vs & E & LV & K).
          exists (SOr q ws sts), n2, Vs.
          destruct (length l) eqn:El; [congruence|]. rewrite E. repeat split; [exact LV|exact K].
        + (* obligated Or *)
          cbn [obl_ok] in Hc. destruct Hc as (ch & Hch & Hn).
          pose proof (nth_prop_lt _ _ _ Hn) as Hlt.
          rewrite Hch.
          assert (Hb : ((0 <=? Z.of_nat ch) && (Z.of_nat ch <? Z.of_nat (length l)))%bool = true).
          { apply andb_true_iff. split; [apply Z.leb_le; lia|apply Z.ltb_lt; lia]. }
          rewrite Hb, Nat2Z.id.
          destruct (draw_obl q rnd (length l) 0 ch n) as [ws n1] eqn:Ed.
          pose proof (draw_obl_len _ _ _ _ _ _ Ed) as Hl.
          assert (H2 : Forall2 (fun s w' => w' = None -> obl_ok s) l ws).
          { eapply draw_obl_cond; [exact Ed|]. intros _. rewrite Nat.sub_0_r. exact Hn. }
          assert (Hsum : psum (map (fill q (zsub c (psum (somes q ws)))) ws) = c).
          { destruct (draw_obl_sum (zsub c (psum (somes q ws))) _ _ _ _ _ _ Ed) as [H1 _].
            rewrite H1 by lia. unfold padd. ring. }
          destruct (or_core id l IH Hwf Hin ws c n1 Hl H2 Hsum) as (sts & n2 & Vs & E & LV & K).
          exists (SOr q ws sts), n2, Vs.
          destruct (length l) eqn:El; [congruence|]. rewrite E. repeat split; [exact LV|exact K].
    Qed.
  End Complete.
End Proofs.

(* ====================================================================== *)
(* Fiat-Shamir and deniable contexts *)
Section Contexts.
  Variable q : Z.
  Hypothesis q_prime : prime q.
  Notation F := (zq q).

  Variable plen slen : nat.
  Variable enc_pt enc_sc : F -> list Z.
  Variable dec_pt dec_sc : list Z -> option F.
  Hypothesis enc_pt_len : forall x, length (enc_pt x) = plen.
  Hypothesis dec_enc_pt : forall x, dec_pt (enc_pt x) = Some x.
  Hypothesis enc_sc_len : forall x, length (enc_sc x) = slen.
  Hypothesis dec_enc_sc : forall x, dec_sc (enc_sc x) = Some x.

  Lemma svars_incl p : incl (svars_raw p) (svars p).
  Proof. intros x Hx. apply svars_In. exact Hx. Qed.

  (* the three moves, for an arbitrary challenge function of the commitments *)
  Lemma three_move_complete pval sval choice rnd p (chal : list F -> F) :
    wf p = true -> obl_ok q pval sval choice p ->
    exists st n Vs,
      commit q pval choice rnd p None O = Ok (st, n, Vs) /\
      length Vs = nreps p /\
      forall restB,
        verify q slen dec_sc pval (svars p) p (chal Vs) Vs
               (enc_scs q enc_sc (respond q sval (svars p) st (chal Vs)) ++ restB) = Ok ([], restB).
  Proof.
    intros Hwf Hobl.
    pose proof (core_all q q_prime pval sval choice rnd (svars p) slen enc_sc dec_sc
                         enc_sc_len dec_enc_sc p Hwf (svars_incl p)) as C.
    destruct (C None zzero O Hobl) as (st & n & Vs & E & L & _).
    exists st, n, Vs. split; [exact E|]. split; [exact L|]. intros restB.
    destruct (C None (chal Vs) O Hobl) as (st' & n' & Vs' & E' & _ & K).
    rewrite E in E'. inversion E'; subst. specialize (K [] restB). rewrite app_nil_r in K. exact K.
  Qed.

  Variable Hc : list Z -> list Z -> F.

  Theorem hash_complete pval sval choice rnd name p trailing :
    wf p = true -> obl_ok q pval sval choice p ->
    exists proof,
      hash_prove q enc_pt enc_sc Hc name p pval sval choice rnd = Ok proof /\
      hash_verify q plen slen dec_pt dec_sc Hc name p pval (proof ++ trailing) = None.
  Proof.
    intros Hwf Hobl.
    destruct (three_move_complete pval sval choice rnd p (fun Vs => Hc name (enc_pts q enc_pt Vs)) Hwf Hobl)
      as (st & n & Vs & E & L & K).
    unfold hash_prove. rewrite E. eexists. split; [reflexivity|].
    unfold hash_verify. rewrite <- app_assoc. rewrite <- L. unfold enc_pts at 1.
    rewrite (read_n_enc q plen enc_pt dec_pt enc_pt_len dec_enc_pt).
    rewrite app_length, Nat.add_sub. fold (enc_pts q enc_pt Vs). rewrite firstn_len_app.
    rewrite K. reflexivity.
  Qed.

  (* deniable prover over a clique, all participants honest: each participant's
     two message bodies are accepted by every verifier holding the right
     statement, whatever the mixed challenge is *)
  Variable X : list Z -> list Z.
  Variable Hd : list Z -> F.

  Theorem deniable_complete (pa : party q) mix :
    wf (pa_pred q pa) = true ->
    obl_ok q (pa_pval q pa) (pa_sval q pa) (pa_choice q pa) (pa_pred q pa) ->
    exists b1 b2,
      deniable_msgs q enc_pt enc_sc Hd pa mix = Ok (b1, b2) /\
      deniable_verify q plen slen dec_pt dec_sc Hd (pa_pred q pa) (pa_pval q pa) mix b1 b2 = None.
  Proof.
    intros Hwf Hobl.
    destruct (three_move_complete (pa_pval q pa) (pa_sval q pa) (pa_choice q pa) (pa_rnd q pa) (pa_pred q pa)
                                  (fun _ => Hd mix) Hwf Hobl) as (st & n & Vs & E & L & K).
    unfold deniable_msgs. rewrite E. eexists. eexists. split; [reflexivity|].
    unfold deniable_verify. rewrite <- L.
    rewrite <- (app_nil_r (enc_pts q enc_pt Vs)). unfold enc_pts.
    rewrite (read_n_enc q plen enc_pt dec_pt enc_pt_len dec_enc_pt).
    specialize (K []). rewrite app_nil_r in K. rewrite K. reflexivity.
  Qed.

  Lemma keys_ok_honest keys : keys_ok X (map X keys) keys = true.
  Proof.
    unfold keys_ok. induction keys as [|k keys IH]; [reflexivity|].
    cbn [map combine forallb fst snd]. destruct (list_eq_dec Z.eq_dec (X k) (X k)); [exact IH|congruence].
  Qed.
End Contexts.

(* ====================================================================== *)
(* what the verifier accepts *)
Section Sound.
  Variable q : Z.
  Hypothesis q_prime : prime q.
  Notation F := (zq q).
  Add Field zqF2 : (zq_field q q_prime).

  (* the Rep nodes of a scope, in order *)
  Fixpoint reps_of (a : pred) : list (Z * list (Z * Z)) :=
    match a with
    | Rep P T => [(P, T)]
    | And l => flat_map reps_of l
    | Or _ _ => []
    end.

  Definition rep_val (pval : Z -> F) (w : option F) (vf : Z -> F) (PT : Z * list (Z * Z)) : F :=
    padd (match w with Some w0 => smul w0 (pval (fst PT)) | None => pzero end)
         (lin q pval vf (snd PT)).

  Lemma commits_of_map pval w vf a :
    commits_of q pval w vf a = map (rep_val pval w vf) (reps_of a).
  Proof.
    induction a as [P T|l IH|id l IH] using pred_ind2; [reflexivity| |reflexivity].
    cbn [commits_of reps_of]. induction l as [|s l IHl]; [reflexivity|].
    inversion IH; subst. cbn [flat_map]. rewrite map_app. f_equal; auto.
  Qed.

  Lemma reps_of_len a : andtree a = true -> length (reps_of a) = nreps a.
  Proof.
    induction a as [P T|l IH|id l IH] using pred_ind2; intros H; [reflexivity| |discriminate].
    cbn [andtree] in H. cbn [reps_of nreps]. induction l as [|s l IHl]; [reflexivity|].
    inversion IH; subst. cbn [forallb] in H. apply andb_true_iff in H. destruct H as [Ha Hb].
    cbn [flat_map fold_right]. rewrite app_length. f_equal; auto.
  Qed.

  Section Scope.
    Variable pval : Z -> F.

    (* sigma_accept_iff, scope part: a scope is accepted exactly when the
       transmitted commitments are the recomputed values c*P + sum r_s*B_s of
       its Rep nodes, in order *)
    Theorem verify_and_iff a c rr : forall Vall Vrest,
        verify_and q pval a c rr Vall = Ok Vrest <->
        (andtree a = true /\ Vall = commits_of q pval (Some c) rr a ++ Vrest).
    Proof.
      induction a as [P T|l IH|id l IH] using pred_ind2; intros Vall Vrest.
      - cbn [verify_and andtree commits_of]. rewrite rep_lhs_lin by exact q_prime.
        destruct Vall as [|V Vs]; [split; [discriminate|intros [_ H]; discriminate]|].
        unfold peqb. destruct (zeqb_spec q (padd (smul c (pval P)) (lin q pval rr T)) V) as [E|E].
        + split.
          * intros H. inversion H; subst. split; reflexivity.
          * intros [_ H]. cbn in H. inversion H; subst. reflexivity.
        + split; [discriminate|]. intros [_ H]. cbn in H. inversion H. congruence.
      - cbn [andtree commits_of]. revert Vall. induction l as [|s l IHl]; intros Vall.
        + cbn. split.
          * intros H. inversion H. split; reflexivity.
          * intros [_ ->]. reflexivity.
        + inversion IH as [|? ? IHs IHr]; subst. specialize (IHl IHr).
          cbn [verify_and forallb flat_map]. cbn [verify_and] in IHl.
          destruct (verify_and q pval s c rr Vall) as [V'|e] eqn:E.
          * apply IHs in E. destruct E as [Hs ->]. rewrite Hs. cbn [andb].
            rewrite IHl. rewrite <- app_assoc. split.
            -- intros [H1 ->]. split; [exact H1|reflexivity].
            -- intros [H1 H2]. apply app_inv_head in H2. split; assumption.
          * split; [discriminate|]. intros [H1 H2]. apply andb_true_iff in H1. destruct H1 as [H1 H3].
            rewrite <- app_assoc in H2.
            assert (X : verify_and q pval s c rr Vall = Ok (flat_map (commits_of q pval (Some c) rr) l ++ Vrest)).
            { apply IHs. split; assumption. }
            congruence.
      - cbn. split; [discriminate|intros [H _]; discriminate].
    Qed.

    Lemma commits_len w vf a : andtree a = true -> length (commits_of q pval w vf a) = nreps a.
    Proof. intros H. rewrite commits_of_map, map_length. apply reps_of_len, H. Qed.

    Lemma app_eq_len {A} (a a' b b' : list A) : length a = length a' -> a ++ b = a' ++ b' -> a = a' /\ b = b'.
    Proof.
      revert a'. induction a as [|x a IH]; intros [|y a'] L H; try discriminate.
      - split; [reflexivity|exact H].
      - cbn in *. inversion H; subst. destruct (IH a') as [-> ->]; [lia|assumption|]. split; reflexivity.
    Qed.

    (* two accepting runs on the same commitments: all Rep equations agree *)
    Lemma accept_twice a c c' rr rr' Vall R R' :
      verify_and q pval a c rr Vall = Ok R -> verify_and q pval a c' rr' Vall = Ok R' ->
      forall PT, In PT (reps_of a) -> rep_val pval (Some c) rr PT = rep_val pval (Some c') rr' PT.
    Proof.
      intros H1 H2. apply verify_and_iff in H1. apply verify_and_iff in H2.
      destruct H1 as [Ha E1]. destruct H2 as [_ E2]. rewrite E1 in E2.
      apply app_eq_len in E2; [|rewrite !commits_len by exact Ha; reflexivity].
      destruct E2 as [E2 _]. rewrite !commits_of_map in E2.
      intros PT Hin. revert PT Hin. apply map_ext_in_iff. exact E2.
    Qed.

    (* altering a commitment (challenge and responses unchanged) is rejected *)
    Theorem altered_commitment_rejected a c rr Vall Vall' R :
      verify_and q pval a c rr Vall = Ok R ->
      firstn (nreps a) Vall' <> firstn (nreps a) Vall ->
      forall R', verify_and q pval a c rr Vall' <> Ok R'.
    Proof.
      intros H1 Hne R' H2. apply verify_and_iff in H1. apply verify_and_iff in H2.
      destruct H1 as [Ha E1]. destruct H2 as [_ E2]. apply Hne. rewrite E1, E2.
      rewrite <- (commits_len (Some c) rr a Ha). rewrite !firstn_len_app. reflexivity.
    Qed.

    (* coefficient of variable s in a Rep: sum of the bases it multiplies *)
    Definition coef (s : Z) (T : list (Z * Z)) : F :=
      psum (map (fun t => if fst t =? s then pval (snd t) else pzero) T).

    Lemma lin_updf rr s x T :
      lin q pval (updf q rr s x) T = padd (lin q pval rr T) (smul (zsub x (rr s)) (coef s T)).
    Proof.
      induction T as [|[s' b] T IH].
      - cbn. unfold padd, smul, pzero. ring.
      - unfold coef in *. cbn [map psum fold_right fst snd]. rewrite !lin_cons, IH.
        fold (psum (map (fun t => if fst t =? s then pval (snd t) else pzero) T)).
        unfold updf. destruct (Z.eqb_spec s' s) as [->|N]; unfold padd, smul, pzero; ring.
    Qed.

    (* altering one response to a different value is rejected as soon as the
       variable has a non-zero coefficient in some Rep of the scope *)
    Theorem altered_response_rejected a c rr Vall R s x P T :
      verify_and q pval a c rr Vall = Ok R ->
      x <> rr s -> In (P, T) (reps_of a) -> coef s T <> pzero ->
      forall R', verify_and q pval a c (updf q rr s x) Vall <> Ok R'.
    Proof.
      intros H1 Hx Hin Hco R' H2.
      pose proof (accept_twice a c c rr (updf q rr s x) Vall R R' H1 H2 (P, T) Hin) as E.
      unfold rep_val in E. cbn [fst snd] in E. rewrite lin_updf in E.
      assert (Z0 : smul (zsub x (rr s)) (coef s T) = pzero).
      { transitivity (psub (padd (smul c (pval P)) (padd (lin q pval rr T) (smul (zsub x (rr s)) (coef s T))))
                           (padd (smul c (pval P)) (lin q pval rr T))).
        - unfold psub, padd, smul. ring.
        - rewrite <- E. unfold psub, padd, pzero. ring. }
      apply (zmul_eq_0 q q_prime) in Z0. destruct Z0 as [Z0|Z0]; [|exact (Hco Z0)].
      apply Hx. transitivity (zadd (zsub x (rr s)) (rr s)); [ring|]. rewrite Z0. ring.
    Qed.

    (* a different challenge (other protocol name, other commitments hashed,
       altered sub-challenge above) is rejected as soon as some Rep has P <> O *)
    Theorem wrong_challenge_rejected a c c' rr Vall R P T :
      verify_and q pval a c rr Vall = Ok R ->
      c' <> c -> In (P, T) (reps_of a) -> pval P <> pzero ->
      forall R', verify_and q pval a c' rr Vall <> Ok R'.
    Proof.
      intros H1 Hc Hin HP R' H2.
      pose proof (accept_twice a c c' rr rr Vall R R' H1 H2 (P, T) Hin) as E.
      unfold rep_val in E. cbn [fst snd] in E.
      assert (Z0 : smul (zsub c' c) (pval P) = pzero).
      { transitivity (psub (padd (smul c' (pval P)) (lin q pval rr T)) (padd (smul c (pval P)) (lin q pval rr T))).
        - unfold psub, padd, smul. ring.
        - rewrite E. unfold psub, padd, pzero. ring. }
      apply (zmul_eq_0 q q_prime) in Z0. destruct Z0 as [Z0|Z0]; [|exact (HP Z0)].
      apply Hc. transitivity (zadd (zsub c' c) c); [ring|]. rewrite Z0. ring.
    Qed.
  End Scope.

  (* checked against other public points: the public point P of one Rep is
     replaced (not used as a base in that Rep): rejected unless c = 0 *)
  Theorem wrong_point_rejected pval pval' a c rr Vall R P T :
    verify_and q pval a c rr Vall = Ok R ->
    In (P, T) (reps_of a) -> pval' P <> pval P ->
    (forall t, In t T -> pval' (snd t) = pval (snd t)) -> c <> zzero ->
    forall R', verify_and q pval' a c rr Vall <> Ok R'.
  Proof.
    intros H1 Hin HP HT Hc R' H2.
    apply verify_and_iff in H1. apply verify_and_iff in H2.
    destruct H1 as [Ha E1]. destruct H2 as [_ E2]. rewrite E1 in E2.
    apply app_eq_len in E2; [|rewrite !commits_len by exact Ha; reflexivity].
    destruct E2 as [E2 _]. rewrite !commits_of_map in E2.
    assert (E : rep_val pval (Some c) rr (P, T) = rep_val pval' (Some c) rr (P, T)).
    { revert Hin. generalize (P, T). apply map_ext_in_iff. exact E2. }
    unfold rep_val in E. cbn [fst snd] in E.
    assert (L : lin q pval' rr T = lin q pval rr T).
    { clear - HT. induction T as [|[s b] T IH]; [reflexivity|].
      change (padd (smul (rr s) (pval' b)) (lin q pval' rr T) = padd (smul (rr s) (pval b)) (lin q pval rr T)).
      pose proof (HT (s, b) (or_introl eq_refl)) as e. cbn [snd] in e. rewrite e. f_equal.
      apply IH. intros t Ht. apply HT. right. exact Ht. }
    rewrite L in E.
    assert (Z0 : smul c (zsub (pval' P) (pval P)) = pzero).
    { transitivity (psub (padd (smul c (pval' P)) (lin q pval rr T)) (padd (smul c (pval P)) (lin q pval rr T))).
      - unfold psub, padd, smul. ring.
      - rewrite <- E. unfold psub, padd, pzero. ring. }
    apply (zmul_eq_0 q q_prime) in Z0. destruct Z0 as [Z0|Z0]; [exact (Hc Z0)|].
    apply HP. transitivity (zadd (zsub (pval' P) (pval P)) (pval P)); [ring|]. rewrite Z0. ring.
  Qed.
End Sound.

(* ====================================================================== *)
(* the tree level: how acceptance of a node reduces to its parts, and how
   many bytes an accepting run consumes *)
Section Tree.
  Variable q : Z.
  Hypothesis q_prime : prime q.
  Notation F := (zq q).
  Add Field zqF3 : (zq_field q q_prime).
  Variable slen : nat.
  Variable dec_sc : list Z -> option F.
  Variable pval : Z -> F.
  Variable svs : list Z.
  Notation verify' := (verify q slen dec_sc pval svs).

  Definition is_scope (a : pred) : Prop := match a with Or _ _ => False | _ => True end.

  (* sigma_accept_iff, scope node: read one response per variable of the scope,
     then the scope equations (verify_and_iff) *)
  Theorem verify_scope_iff a c Vs buf Vs' b' : is_scope a ->
    (verify' a c Vs buf = Ok (Vs', b') <->
     exists rr, read_resp q slen dec_sc (resp_names svs a) (fun _ => zzero) buf = Some (rr, b') /\
                verify_and q pval a c rr Vs = Ok Vs').
  Proof.
    intros Hs.
    assert (E : verify' a c Vs buf =
                match read_resp q slen dec_sc (resp_names svs a) (fun _ => zzero) buf with
                | None => Err EDecode
                | Some (r, b1) => match verify_and q pval a c r Vs with
                                  | Err e => Err e | Ok V1 => Ok (V1, b1) end
                end) by (destruct a; [reflexivity|reflexivity|contradiction]).
    rewrite E. destruct (read_resp q slen dec_sc (resp_names svs a) (fun _ => zzero) buf) as [[r b1]|].
    - destruct (verify_and q pval a c r Vs) as [V1|e] eqn:Ev; split.
      + intros H. inversion H; subst. exists r. split; [reflexivity|exact Ev].
      + intros (rr & H1 & H2). inversion H1; subst. rewrite Ev in H2. inversion H2. reflexivity.
      + discriminate.
      + intros (rr & H1 & H2). inversion H1; subst. congruence.
    - split; [discriminate|]. intros (rr & H1 & _). discriminate.
  Qed.

  Lemma verify_list_cons_iff f s l x ci Vs buf r :
    verify_list q f (s :: l) (x :: ci) Vs buf = Ok r <->
    exists Vs' b', f s x Vs buf = Ok (Vs', b') /\ verify_list q f l ci Vs' b' = Ok r.
  Proof.
    cbn [verify_list]. destruct (f s x Vs buf) as [[V b]|e]; split.
    - intros H. exists V, b. split; [reflexivity|exact H].
    - intros (V' & b' & H1 & H2). inversion H1; subst. exact H2.
    - discriminate.
    - intros (V' & b' & H1 & _). discriminate.
  Qed.

  (* sigma_accept_iff, Or node: with more than one branch the transmitted
     sub-challenges must add up to the node's challenge and every branch must
     be accepted under its own sub-challenge *)
  Theorem verify_or_iff id l c Vs buf r :
    verify' (Or id l) c Vs buf = Ok r <->
    match l with
    | [] => False
    | [s] => verify' s c Vs buf = Ok r
    | _ => exists ci b1, read_n q slen dec_sc (length l) buf = Some (ci, b1) /\
                         psum ci = c /\ verify_list q verify' l ci Vs b1 = Ok r
    end.
  Proof.
    destruct l as [|s [|s' l]].
    - cbn. split; [discriminate|contradiction].
    - cbn [verify length verify_list]. destruct (verify' s c Vs buf) as [[V b]|e]; tauto.
    - cbn [verify length].
      destruct (read_n q slen dec_sc (S (S (length l))) buf) as [[ci b1]|].
      + unfold zeqb. destruct (Z.eqb_spec (val (psum ci)) (val c)) as [E|E].
        * apply zq_eq in E. split.
          -- intros H. exists ci, b1. repeat split; assumption.
          -- intros (ci' & b' & H1 & _ & H3). inversion H1; subst. exact H3.
        * split; [discriminate|]. intros (ci' & b' & H1 & H2 & _). inversion H1; subst. congruence.
      + split; [discriminate|]. intros (ci' & b' & H1 & _). discriminate.
  Qed.

  (* altered sub-challenge: the sum no longer matches *)
  Theorem bad_subchallenges_rejected id l c Vs buf ci b1 :
    (1 < length l)%nat -> read_n q slen dec_sc (length l) buf = Some (ci, b1) -> psum ci <> c ->
    verify' (Or id l) c Vs buf = Err ESub.
  Proof.
    intros Hl Hr Hs. destruct l as [|s [|s' l]]; cbn in Hl; try lia.
    cbn [verify length] in *. rewrite Hr. unfold zeqb.
    destruct (Z.eqb_spec (val (psum ci)) (val c)) as [E|E]; [apply zq_eq in E; contradiction|reflexivity].
  Qed.

  Lemma psum_app (a b : list F) : psum (a ++ b) = padd (psum a) (psum b).
  Proof.
    induction a as [|x a IH]; cbn [app psum fold_right].
    - fold (psum b). unfold padd, pzero. ring.
    - fold (psum (a ++ b)). fold (psum a). rewrite IH. unfold padd. ring.
  Qed.

  Lemma psum_one_changed (pre post : list F) x x' :
    x' <> x -> psum (pre ++ x' :: post) <> psum (pre ++ x :: post).
  Proof.
    intros Hx E. rewrite !psum_app in E. cbn [psum fold_right] in E. fold (psum post) in E.
    apply Hx. transitivity (psub (padd (psum pre) (padd x' (psum post))) (padd (psum pre) (psum post))).
    - unfold psub, padd. ring.
    - rewrite E. unfold psub, padd. ring.
  Qed.

  Theorem altered_subchallenge_rejected id l c Vs buf buf' pre post x x' b1 b1' :
    (1 < length l)%nat ->
    read_n q slen dec_sc (length l) buf = Some (pre ++ x :: post, b1) -> psum (pre ++ x :: post) = c ->
    read_n q slen dec_sc (length l) buf' = Some (pre ++ x' :: post, b1') -> x' <> x ->
    verify' (Or id l) c Vs buf' = Err ESub.
  Proof.
    intros Hl _ Hs Hr' Hx. eapply bad_subchallenges_rejected; [exact Hl|exact Hr'|].
    rewrite <- Hs. apply psum_one_changed, Hx.
  Qed.

  (* a different challenge at an Or node with more than one branch *)
  Theorem or_wrong_challenge_rejected id l c c' Vs buf r :
    (1 < length l)%nat -> verify' (Or id l) c Vs buf = Ok r -> c' <> c ->
    verify' (Or id l) c' Vs buf = Err ESub.
  Proof.
    intros Hl H Hc. apply verify_or_iff in H. destruct l as [|s [|s' l]]; cbn in Hl; try lia.
    destruct H as (ci & b1 & Hr & Hs & _).
    eapply bad_subchallenges_rejected; [cbn; lia|exact Hr|congruence].
  Qed.

  (* ------------------------------------------------------------------ *)
  (* bytes consumed by an accepting run *)
  Fixpoint nscal (p : pred) : nat :=
    match p with
    | Or _ l => (if Nat.ltb 1 (length l) then length l else O) +
                fold_right (fun s k => (nscal s + k)%nat) O l
    | a => length (resp_names svs a)
    end.

  Lemma get_consumes len dec buf x rest :
    get q len dec buf = Some (x, rest) -> length buf = (len + length rest)%nat.
  Proof.
    unfold get. destruct (Nat.ltb_spec (length buf) len) as [Hlt|Hge]; [discriminate|].
    destruct (dec (firstn len buf)); [|discriminate]. intros Hx. inversion Hx; subst.
    rewrite skipn_length. lia.
  Qed.

  Lemma read_n_consumes len dec k : forall buf xs rest,
      read_n q len dec k buf = Some (xs, rest) -> length buf = (k * len + length rest)%nat.
  Proof.
    induction k as [|k IH]; intros buf xs rest H; cbn [read_n] in H.
    - inversion H. cbn. reflexivity.
    - destruct (get q len dec buf) as [[x b']|] eqn:E; [|discriminate].
      destruct (read_n q len dec k b') as [[xs' b'']|] eqn:E2; [|discriminate].
      inversion H; subst. apply get_consumes in E. apply IH in E2. cbn. lia.
  Qed.

  Lemma read_resp_consumes names : forall r buf rr rest,
      read_resp q slen dec_sc names r buf = Some (rr, rest) ->
      length buf = (length names * slen + length rest)%nat.
  Proof.
    induction names as [|s t IH]; intros r buf rr rest H; cbn [read_resp] in H.
    - inversion H. cbn. reflexivity.
    - destruct (get q slen dec_sc buf) as [[x b']|] eqn:E; [|discriminate].
      apply get_consumes in E. apply IH in H. cbn. lia.
  Qed.

  Theorem verify_consumes p : forall c Vs buf Vs' rest,
      verify' p c Vs buf = Ok (Vs', rest) -> length buf = (nscal p * slen + length rest)%nat.
  Proof.
    induction p as [P T|l IH|id l IH] using pred_ind2; intros c Vs buf Vs' rest H.
    - apply verify_scope_iff in H; [|exact I]. destruct H as (rr & H & _).
      apply read_resp_consumes in H. exact H.
    - apply verify_scope_iff in H; [|exact I]. destruct H as (rr & H & _).
      apply read_resp_consumes in H. exact H.
    - assert (HL : forall ci Vs b Vs' rest,
                 verify_list q verify' l ci Vs b = Ok (Vs', rest) ->
                 length b = (fold_right (fun s k => (nscal s + k)%nat) O l * slen + length rest)%nat).
      { clear H. induction IH as [|s l Hs Hl IHl]; intros ci Vs0 b Vs0' rest0 H.
        - cbn in H. inversion H. cbn. reflexivity.
        - destruct ci as [|x ci]; [discriminate|].
          apply verify_list_cons_iff in H. destruct H as (V1 & b1 & H1 & H2).
          apply Hs in H1. apply IHl in H2. cbn [fold_right]. lia. }
      apply verify_or_iff in H. destruct l as [|s [|s' l]].
      + contradiction.
      + inversion IH; subst. cbn [nscal length Nat.ltb Nat.leb fold_right]. rewrite (H2 _ _ _ _ _ H). lia.
      + destruct H as (ci & b1 & Hr & _ & Hv). apply read_n_consumes in Hr. apply HL in Hv.
        cbn [nscal length Nat.ltb Nat.leb] in *. lia.
  Qed.
End Tree.

(* ====================================================================== *)
(* Fiat-Shamir level: truncation, and the honest prover on a false claim *)
Section HashSound.
  Variable q : Z.
  Hypothesis q_prime : prime q.
  Notation F := (zq q).
  Add Field zqF4 : (zq_field q q_prime).
  Variable plen slen : nat.
  Variable enc_pt enc_sc : F -> list Z.
  Variable dec_pt dec_sc : list Z -> option F.
  Hypothesis enc_pt_len : forall x, length (enc_pt x) = plen.
  Hypothesis dec_enc_pt : forall x, dec_pt (enc_pt x) = Some x.
  Hypothesis enc_sc_len : forall x, length (enc_sc x) = slen.
  Hypothesis dec_enc_sc : forall x, dec_sc (enc_sc x) = Some x.
  Variable Hc : list Z -> list Z -> F.

  Definition proof_len (p : pred) : nat := (nreps p * plen + nscal (svars p) p * slen)%nat.

  Theorem accepted_length name p pval buf :
    hash_verify q plen slen dec_pt dec_sc Hc name p pval buf = None -> (proof_len p <= length buf)%nat.
  Proof.
    unfold hash_verify, proof_len.
    destruct (read_n q plen dec_pt (nreps p) buf) as [[Vs rest]|] eqn:E; [|discriminate].
    apply read_n_consumes in E.
    destruct (verify q slen dec_sc pval (svars p) p _ Vs rest) as [[V' b']|e] eqn:Ev; [|discriminate].
    apply verify_consumes in Ev. intros _. lia.
  Qed.

  (* a proof that is too short for the predicate is never accepted *)
  Theorem truncated_rejected name p pval buf :
    (length buf < proof_len p)%nat ->
    hash_verify q plen slen dec_pt dec_sc Hc name p pval buf <> None.
  Proof. intros H E. apply accepted_length in E. lia. Qed.

  Lemma flat_map_len {A} (f : A -> list Z) n l : (forall x, length (f x) = n) ->
    length (flat_map f l) = (length l * n)%nat.
  Proof. intros H. induction l; cbn; [reflexivity|]. rewrite app_length, H, IHl. reflexivity. Qed.

  (* every strict prefix of an honest proof is rejected *)
  Theorem honest_prefix_rejected pval sval choice rnd name p proof k :
    wf p = true -> obl_ok q pval sval choice p ->
    hash_prove q enc_pt enc_sc Hc name p pval sval choice rnd = Ok proof ->
    (k < length proof)%nat ->
    hash_verify q plen slen dec_pt dec_sc Hc name p pval (firstn k proof) <> None.
  Proof.
    intros Hwf Hobl Hp Hk.
    destruct (three_move_complete q q_prime slen enc_sc dec_sc enc_sc_len dec_enc_sc
                pval sval choice rnd p (fun Vs => Hc name (enc_pts q enc_pt Vs)) Hwf Hobl)
      as (st & n & Vs & E & L & K).
    unfold hash_prove in Hp. rewrite E in Hp. inversion Hp; subst proof. clear Hp.
    specialize (K []). rewrite app_nil_r in K. apply verify_consumes in K.
    apply truncated_rejected. rewrite firstn_length. unfold proof_len.
    unfold enc_pts in *. rewrite app_length in *. rewrite (flat_map_len enc_pt plen Vs enc_pt_len) in *.
    cbn [length] in K. rewrite <- L. lia.
  Qed.

  (* The honest prover run on a top-level scope (Rep / And of Reps) with
     arbitrary "secrets": the proof is accepted iff c*(P - sum x_s*B_s) = O for
     every Rep, c being the hash challenge; so a false Rep is accepted only if
     the oracle returns 0. *)
  Theorem false_claim_scope pval sval choice rnd name a :
    andtree a = true ->
    exists proof,
      hash_prove q enc_pt enc_sc Hc name a pval sval choice rnd = Ok proof /\
      (hash_verify q plen slen dec_pt dec_sc Hc name a pval proof = None <->
       forall P T, In (P, T) (reps_of a) ->
                   Hc name (firstn (nreps a * plen) proof) = (zzero : F) \/ pval P = lin q pval sval T).
  Proof.
    intros Hat.
    assert (Hsc : is_scope a) by (destruct a; [exact I|exact I|discriminate]).
    assert (Hin : incl (scope_vars a) (svars a)).
    { rewrite <- (andtree_vars a Hat). apply svars_incl. }
    destruct (commit_and_spec q q_prime pval sval choice rnd a Hat None (vempty q) O) as (v & n' & Vs & E & He & Hd & Hb & Hl & HV).
    set (c := Hc name (enc_pts q enc_pt Vs)).
    assert (Hc0 : rcons q sval None c v (vempty q)) by (intros s y H; discriminate).
    destruct (respond_and_spec q pval sval choice None c v a Hat (vempty q) Hd Hc0) as (R1 & R2 & R3 & R4).
    set (r1 := respond_and q sval a None v c (vempty q)) in *.
    assert (Hiff : forall s, r1 s <> None <-> In s (scope_vars a)).
    { intros s. split; [|apply R3]. intros H. destruct (R4 _ H) as [X|X]; [exfalso; apply X; reflexivity|exact X]. }
    destruct (read_resp_enc q pval sval choice rnd slen enc_sc dec_sc enc_sc_len dec_enc_sc (getv q r1)
                (resp_names (svars a) a) (fun _ => zzero) []) as (rr & Er & Hr1 & _).
    assert (Hrr : forall s, In s (scope_vars a) -> rr s = zsub (getv q v s) (zmul c (sval s))).
    { intros s Hs. rewrite Hr1.
      - unfold getv at 1. specialize (R3 _ Hs). destruct (r1 s) eqn:Es; [|congruence]. apply (R1 _ _ Es).
      - unfold resp_names. apply filter_In. split; [apply Hin, Hs|apply mem_In, Hs]. }
    exists (enc_pts q enc_pt Vs ++ enc_scs q enc_sc (send q (svars a) r1)).
    assert (Hcc : Hc name (firstn (nreps a * plen) (enc_pts q enc_pt Vs ++ enc_scs q enc_sc (send q (svars a) r1))) = c).
    { unfold c. f_equal. rewrite <- Hl. unfold enc_pts.
      rewrite <- (flat_map_len enc_pt plen Vs enc_pt_len). apply firstn_len_app. }
    rewrite Hcc. clear Hcc.
    assert (Hcm : commit q pval choice rnd a None O = Ok (SScope q None v a, n', Vs)).
    { destruct a; cbn [commit]; [rewrite E; reflexivity|rewrite E; reflexivity|discriminate]. }
    split.
    { unfold hash_prove. rewrite Hcm. destruct a; try discriminate; reflexivity. }
    unfold hash_verify. rewrite <- Hl. unfold enc_pts at 1.
    rewrite (read_n_enc q plen enc_pt dec_pt enc_pt_len dec_enc_pt).
    rewrite app_length, Nat.add_sub. fold (enc_pts q enc_pt Vs). rewrite firstn_len_app. fold c.
    rewrite (send_filter q r1 (scope_vars a) (svars a) Hiff). fold (resp_names (svars a) a).
    rewrite <- (app_nil_r (enc_scs q enc_sc (map (getv q r1) (resp_names (svars a) a)))).
    assert (EV : verify q slen dec_sc pval (svars a) a c Vs
                   (enc_scs q enc_sc (map (getv q r1) (resp_names (svars a) a)) ++ []) =
                 match verify_and q pval a c rr Vs with Err e => Err e | Ok V1 => Ok (V1, []) end).
    { destruct a; cbn [verify]; try contradiction; rewrite Er; reflexivity. }
    rewrite EV. rewrite (HV v (ext_refl q v)).
    split.
    - intros H. destruct (verify_and q pval a c rr (commits_of q pval None (getv q v) a)) as [V1|e] eqn:Ev; [|discriminate].
      apply (verify_and_iff q q_prime) in Ev. destruct Ev as [_ Ev].
      rewrite <- (app_nil_r (commits_of q pval None (getv q v) a)) in Ev at 1.
      apply app_eq_len in Ev; [|rewrite !commits_len by exact Hat; reflexivity].
      destruct Ev as [Ev _]. rewrite !commits_of_map in Ev.
      intros P T HPT.
      assert (E1 : rep_val q pval None (getv q v) (P, T) = rep_val q pval (Some c) rr (P, T)).
      { revert HPT. generalize (P, T). apply map_ext_in_iff. exact Ev. }
      unfold rep_val in E1. cbn [fst snd] in E1.
      rewrite (lin_ext q pval rr (fun s => zsub (getv q v s) (zmul c (sval s))) T) in E1.
      2:{ intros s Hs. apply Hrr. clear - HPT Hs. revert HPT.
          induction a as [P0 T0|l IH|id l IH] using pred_ind2; cbn [reps_of scope_vars].
          - intros [X|[]]. inversion X; subst. exact Hs.
          - induction l as [|s0 l IHl]; [intros []|]. inversion IH; subst. cbn [flat_map].
            rewrite !in_app_iff. intros [X|X]; [left; auto|right; auto].
          - intros []. }
      rewrite lin_sub in E1 by exact q_prime.
      assert (Z0 : smul c (zsub (pval P) (lin q pval sval T)) = pzero).
      { transitivity (psub (padd (smul c (pval P)) (psub (lin q pval (getv q v) T) (smul c (lin q pval sval T))))
                           (padd pzero (lin q pval (getv q v) T))).
        - unfold psub, padd, smul, pzero. ring.
        - rewrite <- E1. unfold psub, padd, pzero. ring. }
      apply (zmul_eq_0 q q_prime) in Z0. destruct Z0 as [Z0|Z0]; [left; exact Z0|right].
      transitivity (zadd (zsub (pval P) (lin q pval sval T)) (lin q pval sval T)); [ring|]. rewrite Z0. ring.
    - intros H.
      assert (Ev : verify_and q pval a c rr (commits_of q pval None (getv q v) a ++ []) = Ok []).
      { apply (verify_and_iff q q_prime). split; [exact Hat|]. f_equal.
        rewrite !commits_of_map. apply map_ext_in. intros [P T] HPT.
        unfold rep_val. cbn [fst snd].
        rewrite (lin_ext q pval rr (fun s => zsub (getv q v s) (zmul c (sval s))) T).
        2:{ intros s Hs. apply Hrr. clear - HPT Hs. revert HPT.
            induction a as [P0 T0|l IH|id l IH] using pred_ind2; cbn [reps_of scope_vars].
            - intros [X|[]]. inversion X; subst. exact Hs.
            - induction l as [|s0 l IHl]; [intros []|]. inversion IH; subst. cbn [flat_map].
              rewrite !in_app_iff. intros [X|X]; [left; auto|right; auto].
            - intros []. }
        rewrite lin_sub by exact q_prime.
        destruct (H P T HPT) as [Z0|Z0].
        - rewrite Z0. unfold psub, padd, smul, pzero. ring.
        - rewrite Z0. unfold psub, padd, smul, pzero. ring. }
      rewrite app_nil_r in Ev. rewrite Ev. reflexivity.
  Qed.
End HashSound.

(* ====================================================================== *)
(* special soundness of a scope: two accepting transcripts with the same
   commitments and different challenges yield a witness of every Rep *)
Section Special.
  Variable q : Z.
  Hypothesis q_prime : prime q.
  Notation F := (zq q).
  Add Field zqF5 : (zq_field q q_prime).
  Variable pval : Z -> F.

  Lemma lin_diff_scaled (f g : Z -> F) k T :
    lin q pval (fun s => zmul (zsub (f s) (g s)) k) T =
    smul k (psub (lin q pval f T) (lin q pval g T)).
  Proof.
    induction T as [|[s b] T IH].
    - cbn. unfold smul, psub, pzero. ring.
    - change (padd (smul (zmul (zsub (f s) (g s)) k) (pval b)) (lin q pval (fun s => zmul (zsub (f s) (g s)) k) T) =
              smul k (psub (padd (smul (f s) (pval b)) (lin q pval f T)) (padd (smul (g s) (pval b)) (lin q pval g T)))).
      rewrite IH. unfold smul, psub, padd. ring.
  Qed.

  Theorem special_sound_scope a c c' rr rr' Vall R R' :
    verify_and q pval a c rr Vall = Ok R -> verify_and q pval a c' rr' Vall = Ok R' -> c <> c' ->
    forall P T, In (P, T) (reps_of a) ->
      pval P = lin q pval (fun s => zmul (zsub (rr' s) (rr s)) (zinv (zsub c c'))) T.
  Proof.
    intros H1 H2 Hc P T Hin.
    pose proof (accept_twice q q_prime pval a c c' rr rr' Vall R R' H1 H2 (P, T) Hin) as E.
    unfold rep_val in E. cbn [fst snd] in E.
    rewrite lin_diff_scaled.
    assert (Hd : zsub c c' <> zzero).
    { intros Z0. apply Hc. transitivity (zadd (zsub c c') c'); [ring|]. rewrite Z0. ring. }
    assert (E2 : psub (lin q pval rr' T) (lin q pval rr T) = smul (zsub c c') (pval P)).
    { symmetry.
      transitivity (psub (psub (padd (smul c (pval P)) (lin q pval rr T)) (smul c' (pval P))) (lin q pval rr T)).
      - unfold psub, padd, smul. ring.
      - rewrite E. unfold psub, padd, smul. ring. }
    rewrite E2. unfold smul. field. exact Hd.
  Qed.
End Special.

(* ====================================================================== *)
(* a concrete instance for the non-vacuity example of props/C14.v *)
Definition nv_enc (x : zq 251) : list Z := [val x].
Definition nv_dec (b : list Z) : option (zq 251) :=
  match b with [v] => if (v <? 251)%Z then Some (of_Z 251 v) else None | _ => None end.
Definition nv_pval (i : Z) : zq 251 :=
  of_Z 251 (if i =? 10 then 1 else if i =? 11 then 7 else if i =? 1 then 3 * 1 + 5 * 7 else 99)%Z.
Definition nv_sval (i : Z) : zq 251 := of_Z 251 (if i =? 1 then 3 else 5)%Z.
Definition nv_pred : pred := Or 1 [Rep 2 [(1, 10)]; And [Rep 1 [(1, 10); (2, 11)]]]%Z.
Definition nv_choice (i : Z) : option Z := Some 1%Z.
Definition nv_Hc (name b : list Z) : zq 251 := of_Z 251 (fold_left Z.add (name ++ b) 17%Z).
Definition nv_rnd (i : nat) : zq 251 := of_Z 251 (Z.of_nat i * 31 + 4)%Z.

