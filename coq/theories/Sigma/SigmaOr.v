(* The honest prover on an arbitrary claim, through Or nodes: for every
   well-formed predicate tree and every valid choice map the proof produced
   from ARBITRARY secrets is accepted iff every Rep of the scope at the end of
   the proof-obligated path satisfies  c_scope = 0  \/  P = sum x_s*B_s,  where
   c_scope is the challenge that scope is answered with: the hash challenge
   minus the pre-challenges the prover drew for the other branches of every Or
   on the path.  Also: commitments are determined by challenge and responses
   (tree level), hence an altered commitment is accepted only if the hash
   output changes, and never under an Or with more than one branch. *)
From Coq Require Import ZArith Znumtheory List Bool Lia Ring Field.
From Kyber Require Import Algebra.Zq Algebra.Grp Sigma.SigmaSM Sigma.SigmaProofs.
Import ListNotations.
Local Open Scope Z_scope.

Section OrClaim.
  Variable q : Z.
  Hypothesis q_prime : prime q.
  Notation F := (zq q).
  Add Field zqF6 : (zq_field q q_prime).

  Variable pval sval : Z -> F.
  Variable choice : Z -> option Z.
  Variable rnd : nat -> F.
  Variable svs : list Z.
  Variable slen : nat.
  Variable enc_sc : F -> list Z.
  Variable dec_sc : list Z -> option F.
  Hypothesis enc_sc_len : forall x, length (enc_sc x) = slen.
  Hypothesis dec_enc_sc : forall x, dec_sc (enc_sc x) = Some x.

  Notation commit' := (commit q pval choice rnd).
  Notation verify' := (verify q slen dec_sc pval svs).
  Notation respond' := (respond q sval svs).
  Notation enc' := (enc_scs q enc_sc).

  (* every Rep of a scope: its challenge is 0 or the Rep is true *)
  Definition scope_claim (a : pred) (c : F) : Prop :=
    forall P T, In (P, T) (reps_of a) -> c = zzero \/ pval P = lin q pval sval T.

  (* the scopes at the end of the proof-obligated path (sub-predicates whose
     pre-challenge is nil), each with the challenge it is answered with *)
  Definition scopes_list (f : pst q -> F -> list (F * pred)) (cs : F) :=
    fix go (l : list (pst q)) (wi : list (option F)) : list (F * pred) :=
      match l, wi with
      | s :: l', None :: wi' => f s cs ++ go l' wi'
      | _ :: l', Some _ :: wi' => go l' wi'
      | _, _ => []
      end.

  Fixpoint obl_scopes (st : pst q) (c : F) : list (F * pred) :=
    match st with
    | SScope _ w _ a => match w with None => [(c, a)] | Some _ => [] end
    | SOr _ wi l => scopes_list obl_scopes (zsub c (psum (somes q wi))) l wi
    end.

  Definition claims (l : list (F * pred)) : Prop :=
    forall c a, In (c, a) l -> scope_claim a c.
  Definition claim_ok (st : pst q) (c : F) : Prop := claims (obl_scopes st c).

  Lemma claims_app l1 l2 : claims (l1 ++ l2) <-> claims l1 /\ claims l2.
  Proof.
    unfold claims. split.
    - intros H. split; intros c a Hi; apply H, in_or_app; [left|right]; exact Hi.
    - intros [H1 H2] c a Hi. apply in_app_or in Hi. destruct Hi; [apply H1|apply H2]; assumption.
  Qed.

  (* a valid choice at every Or of the obligated path (nothing is required of the secrets) *)
  Fixpoint choice_ok (p : pred) : Prop :=
    match p with
    | Or id l => exists ch, choice id = Some (Z.of_nat ch) /\ nth_prop choice_ok l ch
    | _ => True
    end.

  (* ------------------------------------------------------------------ *)
  (* a scope *)
  Lemma reps_vars a P T s : In (P, T) (reps_of a) -> In s (map fst T) -> In s (scope_vars a).
  Proof.
    induction a as [P0 T0|l IH|id l IH] using pred_ind2; cbn [reps_of scope_vars].
    - intros [X|[]]. inversion X; subst. auto.
    - induction l as [|s0 l IHl]; [intros []|]. inversion IH; subst. cbn [flat_map].
      rewrite !in_app_iff. intros [X|X] Hs; [left; auto|right; auto].
    - intros [].
  Qed.

  Lemma scope_eq_iff a c (vf rr : Z -> F) restV R :
    andtree a = true ->
    (forall s, In s (scope_vars a) -> rr s = zsub (vf s) (zmul c (sval s))) ->
    (verify_and q pval a c rr (commits_of q pval None vf a ++ restV) = Ok R <->
     (R = restV /\ scope_claim a c)).
  Proof.
    intros Hat Hrr. rewrite (verify_and_iff q q_prime).
    assert (Hrep : forall P T, In (P, T) (reps_of a) ->
              (rep_val q pval None vf (P, T) = rep_val q pval (Some c) rr (P, T) <->
               (c = zzero \/ pval P = lin q pval sval T))).
    { intros P T HPT. unfold rep_val. cbn [fst snd].
      rewrite (lin_ext q pval rr (fun s => zsub (vf s) (zmul c (sval s))) T)
        by (intros s Hs; apply Hrr; eapply reps_vars; eassumption).
      rewrite (lin_sub q q_prime). split.
      - intros E1.
        assert (Z0 : smul c (zsub (pval P) (lin q pval sval T)) = pzero).
        { transitivity (psub (padd (smul c (pval P)) (psub (lin q pval vf T) (smul c (lin q pval sval T))))
                             (padd pzero (lin q pval vf T))).
          - unfold psub, padd, smul, pzero. ring.
          - rewrite <- E1. unfold psub, padd, pzero. ring. }
        apply (zmul_eq_0 q q_prime) in Z0. destruct Z0 as [Z0|Z0]; [left; exact Z0|right].
        transitivity (zadd (zsub (pval P) (lin q pval sval T)) (lin q pval sval T)); [ring|]. rewrite Z0. ring.
      - intros [Z0|Z0]; rewrite Z0; unfold psub, padd, smul, pzero; ring. }
    split.
    - intros [_ Ev]. apply app_eq_len in Ev; [|rewrite !commits_len by exact Hat; reflexivity].
      destruct Ev as [Ev ER]. split; [symmetry; exact ER|].
      rewrite !commits_of_map in Ev. intros P T HPT. apply (Hrep P T HPT).
      revert HPT. generalize (P, T). apply map_ext_in_iff. exact Ev.
    - intros [-> Hcl]. split; [exact Hat|]. f_equal. rewrite !commits_of_map.
      apply map_ext_in. intros [P T] HPT. apply (Hrep P T HPT). apply Hcl, HPT.
  Qed.

  Definition outcome {A} (res : res A) (good : A) (claim : Prop) : Prop :=
    (res = Ok good /\ claim) \/ ((exists e, res = Err e) /\ ~ claim).

  Lemma scope_dich a : andtree a = true -> incl (scope_vars a) svs ->
    forall c n,
    exists v n' Vs,
      commit_and q pval rnd a None (vempty q) n = Ok (v, n', Vs) /\
      length Vs = nreps a /\
      forall restV restB,
        outcome
          (match read_resp q slen dec_sc (resp_names svs a) (fun _ => zzero)
                   (enc' (send q svs (respond_and q sval a None v c (vempty q))) ++ restB) with
           | None => Err EDecode
           | Some (r, b') =>
               match verify_and q pval a c r (Vs ++ restV) with
               | Err e => Err e
               | Ok Vs' => Ok (Vs', b')
               end
           end) (restV, restB) (scope_claim a c).
  Proof.
    intros Hat Hin c n.
    destruct (commit_and_spec q q_prime pval sval choice rnd a Hat None (vempty q) n)
      as (v & n' & Vs & E & He & Hd & Hb & Hl & HV).
    exists v, n', Vs. split; [exact E|]. split; [exact Hl|]. intros restV restB.
    assert (Hc0 : rcons q sval None c v (vempty q)) by (intros s y H; discriminate).
    destruct (respond_and_spec q pval sval choice None c v a Hat (vempty q) Hd Hc0) as (R1 & R2 & R3 & R4).
    set (r1 := respond_and q sval a None v c (vempty q)) in *.
    assert (Hiff : forall s, r1 s <> None <-> In s (scope_vars a)).
    { intros s. split; [|apply R3]. intros H. destruct (R4 _ H) as [X|X]; [exfalso; apply X; reflexivity|exact X]. }
    rewrite (send_filter q r1 (scope_vars a) svs Hiff). fold (resp_names svs a).
    destruct (read_resp_enc q pval sval choice rnd slen enc_sc dec_sc enc_sc_len dec_enc_sc (getv q r1)
                (resp_names svs a) (fun _ => zzero) restB) as (rr & Er & Hr1 & _).
    rewrite Er.
    assert (Hrr : forall s, In s (scope_vars a) -> rr s = zsub (getv q v s) (zmul c (sval s))).
    { intros s Hs. rewrite Hr1.
      - unfold getv at 1. specialize (R3 _ Hs). destruct (r1 s) eqn:Es; [|congruence]. apply (R1 _ _ Es).
      - unfold resp_names. apply filter_In. split; [apply Hin, Hs|apply mem_In, Hs]. }
    rewrite (HV v (ext_refl q v)).
    pose proof (fun R => scope_eq_iff a c (getv q v) rr restV R Hat Hrr) as Hiff2.
    destruct (verify_and q pval a c rr (commits_of q pval None (getv q v) a ++ restV)) as [R|e] eqn:Ev.
    - destruct (proj1 (Hiff2 R) eq_refl) as [-> Hcl]. left. split; [reflexivity|exact Hcl].
    - right. split; [exists e; reflexivity|]. intros Hcl.
      assert (X : Err e = Ok restV) by (apply (Hiff2 restV); split; [reflexivity|exact Hcl]). discriminate.
  Qed.

  (* ------------------------------------------------------------------ *)
  (* trees *)
  Definition dich (p : pred) : Prop :=
    wf p = true -> incl (svars_raw p) svs -> choice_ok p ->
    forall c n,
    exists st n' Vs,
      commit' p None n = Ok (st, n', Vs) /\
      length Vs = nreps p /\
      forall restV restB,
        outcome (verify' p c (Vs ++ restV) (enc' (respond' st c) ++ restB)) (restV, restB) (claim_ok st c).

  Lemma enc_scs_app (a b : list F) : enc' (a ++ b) = enc' a ++ enc' b.
  Proof. apply flat_map_app. Qed.

  Lemma list_dich l : Forall dich l -> forallb wf l = true -> incl (flat_map svars_raw l) svs ->
    forall cs ws n,
      Forall2 (fun s w' => w' = None -> choice_ok s) l ws ->
      exists sts n' Vs,
        commit_list q commit' l ws n = Ok (sts, n', Vs) /\
        length sts = length l /\
        length Vs = fold_right (fun s k => (nreps s + k)%nat) O l /\
        forall restV restB,
          outcome (verify_list q verify' l (map (fill q cs) ws) (Vs ++ restV)
                     (enc' (respond_list q respond' sts (map (fill q cs) ws)) ++ restB))
                  (restV, restB) (claims (scopes_list obl_scopes cs sts ws)).
  Proof.
    intros HF. induction HF as [|s l Hs Hl IH]; intros Hwf Hin cs ws n H2.
    - inversion H2; subst. exists [], n, []. cbn. repeat split; try reflexivity.
      intros restV restB. left. split; [reflexivity|]. intros c a [].
    - inversion H2 as [|? w' ? ws' Hw Hws]; subst. cbn [forallb] in Hwf.
      apply andb_true_iff in Hwf. destruct Hwf as [Hwf1 Hwf2].
      cbn [flat_map] in Hin.
      assert (Hin1 : incl (svars_raw s) svs) by (intros x Hx; apply Hin, in_or_app; left; exact Hx).
      assert (Hin2 : incl (flat_map svars_raw l) svs) by (intros x Hx; apply Hin, in_or_app; right; exact Hx).
      destruct w' as [w0|].
      + (* simulated branch: always accepted *)
        destruct (core_all q q_prime pval sval choice rnd svs slen enc_sc dec_sc enc_sc_len dec_enc_sc
                           s Hwf1 Hin1 (Some w0) w0 n eq_refl) as (st & n1 & V1 & E1 & L1 & K1).
        destruct (IH Hwf2 Hin2 cs ws' n1 Hws) as (sts & n2 & V2 & E2 & L2 & L3 & K2).
        exists (st :: sts), n2, (V1 ++ V2). cbn [commit_list]. rewrite E1, E2.
        split; [reflexivity|]. split; [cbn; rewrite L2; reflexivity|].
        split; [rewrite app_length, L1, L3; reflexivity|].
        intros restV restB. cbn [map fill verify_list respond_list scopes_list].
        rewrite enc_scs_app, <- !app_assoc.
        rewrite K1. apply K2.
      + (* the obligated branch *)
        destruct (Hs Hwf1 Hin1 (Hw eq_refl) cs n) as (st & n1 & V1 & E1 & L1 & K1).
        destruct (IH Hwf2 Hin2 cs ws' n1 Hws) as (sts & n2 & V2 & E2 & L2 & L3 & K2).
        exists (st :: sts), n2, (V1 ++ V2). cbn [commit_list]. rewrite E1, E2.
        split; [reflexivity|]. split; [cbn; rewrite L2; reflexivity|].
        split; [rewrite app_length, L1, L3; reflexivity|].
        intros restV restB. cbn [map fill verify_list respond_list scopes_list].
        rewrite enc_scs_app, <- !app_assoc.
        destruct (K1 (V2 ++ restV) (enc' (respond_list q respond' sts (map (fill q cs) ws')) ++ restB))
          as [[Ev Hc1]|[[e Ev] Hc1]]; rewrite Ev.
        * destruct (K2 restV restB) as [[Ev2 Hc2]|[[e2 Ev2] Hc2]].
          -- left. split; [exact Ev2|apply claims_app; split; assumption].
          -- right. split; [exists e2; exact Ev2|]. intros X. apply claims_app in X. exact (Hc2 (proj2 X)).
        * right. split; [exists e; reflexivity|]. intros X. apply claims_app in X. exact (Hc1 (proj1 X)).
  Qed.

  (* an Or node whose pre-challenges fit the challenge: the sub-challenges are
     read back and their sum is right, what remains is the loop over the branches *)
  Lemma or_unfold id l ws sts c Vall restB :
    l <> [] -> length ws = length l -> length sts = length l ->
    psum (map (fill q (zsub c (psum (somes q ws)))) ws) = c ->
    verify' (Or id l) c Vall (enc' (respond' (SOr q ws sts) c) ++ restB) =
    verify_list q verify' l (map (fill q (zsub c (psum (somes q ws)))) ws) Vall
      (enc' (respond_list q respond' sts (map (fill q (zsub c (psum (somes q ws)))) ws)) ++ restB).
  Proof.
    intros Hne Hlen Ls Hsum. cbn [verify respond]. set (cs := zsub c (psum (somes q ws))) in *.
    rewrite Ls. destruct l as [|s0 [|s1 l]].
    - congruence.
    - destruct ws as [|w' [|? ?]]; try discriminate.
      cbn [length Nat.ltb Nat.leb app].
      assert (Hw : fill q cs w' = c).
      { cbn [map psum fold_right] in Hsum. rewrite <- Hsum. unfold padd, pzero. ring. }
      cbn [map]. rewrite Hw. reflexivity.
    - cbn [length Nat.ltb Nat.leb].
      unfold enc_scs. rewrite flat_map_app. rewrite <- app_assoc.
      replace (S (S (length l))) with (length (map (fill q cs) ws)) by (rewrite map_length, Hlen; reflexivity).
      rewrite (read_n_enc q slen enc_sc dec_sc enc_sc_len dec_enc_sc).
      rewrite Hsum. unfold zeqb. rewrite Z.eqb_refl. reflexivity.
  Qed.

  Theorem dich_all p : dich p.
  Proof.
    induction p as [P T|l IH|id l IH] using pred_ind2; unfold dich.
    - intros _ Hin _ c n.
      destruct (scope_dich (Rep P T) eq_refl Hin c n) as (v & n' & Vs & E & L & K).
      exists (SScope q None v (Rep P T)), n', Vs. cbn [commit]. rewrite E. repeat split; [exact L|].
      intros restV restB. cbn [verify respond]. unfold claim_ok. cbn [obl_scopes].
      destruct (K restV restB) as [[Ev Hc]|[Ev Hc]]; [left|right]; (split; [exact Ev|]).
      + intros c' a [X|[]]. inversion X; subst. exact Hc.
      + intros X. apply Hc. apply (X c (Rep P T)). left. reflexivity.
    - intros Hwf Hin _ c n. change (andtree (And l) = true) in Hwf.
      rewrite (andtree_vars _ Hwf) in Hin.
      destruct (scope_dich (And l) Hwf Hin c n) as (v & n' & Vs & E & L & K).
      exists (SScope q None v (And l)), n', Vs. cbn [commit]. rewrite E. repeat split; [exact L|].
      intros restV restB. cbn [verify respond]. unfold claim_ok. cbn [obl_scopes].
      destruct (K restV restB) as [[Ev Hc]|[Ev Hc]]; [left|right]; (split; [exact Ev|]).
      + intros c' a [X|[]]. inversion X; subst. exact Hc.
      + intros X. apply Hc. apply (X c (And l)). left. reflexivity.
    - intros Hwf Hin Hch c n.
      assert (Hk : length l <> O).
      { cbn [wf] in Hwf. apply andb_true_iff in Hwf. destruct Hwf as [Hne _].
        destruct (Nat.eqb_spec (length l) 0); [discriminate|assumption]. }
      assert (Hne : l <> []) by (intros ->; apply Hk; reflexivity).
      cbn [commit]. cbn [choice_ok] in Hch. destruct Hch as (ch & Hch & Hn).
      pose proof (nth_prop_lt _ _ _ Hn) as Hlt. rewrite Hch.
      assert (Hb : ((0 <=? Z.of_nat ch) && (Z.of_nat ch <? Z.of_nat (length l)))%bool = true).
      { apply andb_true_iff. split; [apply Z.leb_le; lia|apply Z.ltb_lt; lia]. }
      rewrite Hb, Nat2Z.id.
      destruct (draw_obl q rnd (length l) 0 ch n) as [ws n1] eqn:Ed.
      pose proof (draw_obl_len _ _ _ _ _ _ _ _ Ed) as Hl.
      assert (H2 : Forall2 (fun s w' => w' = None -> choice_ok s) l ws).
      { eapply draw_obl_cond; [exact Ed|]. intros _. rewrite Nat.sub_0_r. exact Hn. }
      assert (Hsum : psum (map (fill q (zsub c (psum (somes q ws)))) ws) = c).
      { destruct (draw_obl_sum q q_prime rnd (zsub c (psum (somes q ws))) _ _ _ _ _ _ Ed) as [H1 _].
        rewrite H1 by lia. unfold padd. ring. }
      cbn [wf] in Hwf. apply andb_true_iff in Hwf. destruct Hwf as [_ Hwfl].
      destruct (list_dich l IH Hwfl Hin (zsub c (psum (somes q ws))) ws n1 H2)
        as (sts & n2 & Vs & E & Ls & LV & K).
      exists (SOr q ws sts), n2, Vs.
      destruct (length l) eqn:El; [congruence|]. rewrite E. split; [reflexivity|]. split; [exact LV|].
      intros restV restB.
      rewrite (or_unfold id l ws sts c (Vs ++ restV) restB Hne) by (try rewrite El; assumption).
      unfold claim_ok. cbn [obl_scopes]. apply K.
  Qed.
End OrClaim.

(* ====================================================================== *)
(* Fiat-Shamir level *)
Section HashClaim.
  Variable q : Z.
  Hypothesis q_prime : prime q.
  Notation F := (zq q).
  Variable plen slen : nat.
  Variable enc_pt enc_sc : F -> list Z.
  Variable dec_pt dec_sc : list Z -> option F.
  Hypothesis enc_pt_len : forall x, length (enc_pt x) = plen.
  Hypothesis dec_enc_pt : forall x, dec_pt (enc_pt x) = Some x.
  Hypothesis enc_sc_len : forall x, length (enc_sc x) = slen.
  Hypothesis dec_enc_sc : forall x, dec_sc (enc_sc x) = Some x.
  Variable Hc : list Z -> list Z -> F.

  (* the honest prover run with ARBITRARY secrets on ANY well-formed tree with
     a valid choice map: the proof exists, and it is accepted iff every Rep of
     the claimed scope satisfies  c_scope = 0 \/ P = sum x_s*B_s *)
  Theorem false_claim_tree pval sval choice rnd name p :
    wf p = true -> choice_ok choice p ->
    exists proof st n Vs,
      hash_prove q enc_pt enc_sc Hc name p pval sval choice rnd = Ok proof /\
      commit q pval choice rnd p None O = Ok (st, n, Vs) /\
      (hash_verify q plen slen dec_pt dec_sc Hc name p pval proof = None <->
       claim_ok q pval sval st (Hc name (firstn (nreps p * plen) proof))).
  Proof.
    intros Hwf Hch.
    pose proof (dich_all q q_prime pval sval choice rnd (svars p) slen enc_sc dec_sc enc_sc_len dec_enc_sc
                         p Hwf (svars_incl p) Hch) as D.
    destruct (D zzero O) as (st & n & Vs & E & L & _).
    set (c := Hc name (enc_pts q enc_pt Vs)).
    destruct (D c O) as (st' & n' & Vs' & E' & _ & K).
    rewrite E in E'. inversion E'; subst st' n' Vs'. clear E'.
    exists (enc_pts q enc_pt Vs ++ enc_scs q enc_sc (respond q sval (svars p) st c)), st, n, Vs.
    split; [unfold hash_prove; rewrite E; reflexivity|]. split; [exact E|].
    assert (Hcc : Hc name (firstn (nreps p * plen)
                    (enc_pts q enc_pt Vs ++ enc_scs q enc_sc (respond q sval (svars p) st c))) = c).
    { unfold c. f_equal. rewrite <- L. unfold enc_pts.
      rewrite <- (flat_map_len enc_pt plen Vs enc_pt_len). apply firstn_len_app. }
    rewrite Hcc. clear Hcc.
    unfold hash_verify. rewrite <- L. unfold enc_pts at 1.
    rewrite (read_n_enc q plen enc_pt dec_pt enc_pt_len dec_enc_pt).
    rewrite app_length, Nat.add_sub. fold (enc_pts q enc_pt Vs). rewrite firstn_len_app. fold c.
    specialize (K [] []). rewrite !app_nil_r in K.
    destruct K as [[Ev Hcl]|[[e Ev] Hcl]]; rewrite Ev.
    - split; [intros _; exact Hcl|reflexivity].
    - split; [discriminate|]. intros X. contradiction.
  Qed.

  (* in the property's words: a proof built from secrets that do not satisfy a
     Rep of the claimed branch is accepted only if the challenge that branch is
     answered with (hash challenge minus the other branches' pre-challenges) is 0 *)
  Corollary false_claim_rejected pval sval choice rnd name p proof st n Vs cs a P T :
    hash_prove q enc_pt enc_sc Hc name p pval sval choice rnd = Ok proof ->
    commit q pval choice rnd p None O = Ok (st, n, Vs) ->
    wf p = true -> choice_ok choice p ->
    In (cs, a) (obl_scopes q st (Hc name (firstn (nreps p * plen) proof))) ->
    In (P, T) (reps_of a) -> pval P <> lin q pval sval T ->
    cs <> zzero ->
    hash_verify q plen slen dec_pt dec_sc Hc name p pval proof <> None.
  Proof.
    intros Hp Hcm Hwf Hch Hin HPT Hfalse Hcs Hacc.
    destruct (false_claim_tree pval sval choice rnd name p Hwf Hch) as (proof' & st' & n' & Vs' & Hp' & Hcm' & Hiff).
    rewrite Hp in Hp'. inversion Hp'; subst proof'. rewrite Hcm in Hcm'. inversion Hcm'; subst st' n' Vs'.
    apply Hiff in Hacc. destruct (Hacc cs a Hin P T HPT) as [X|X]; [exact (Hcs X)|exact (Hfalse X)].
  Qed.
End HashClaim.

(* ====================================================================== *)
(* commitments are determined by the challenge and the rest of the proof *)
Section Determined.
  Variable q : Z.
  Hypothesis q_prime : prime q.
  Notation F := (zq q).
  Variable slen : nat.
  Variable dec_sc : list Z -> option F.
  Variable pval : Z -> F.
  Variable svs : list Z.
  Notation verify' := (verify q slen dec_sc pval svs).

  Definition det (p : pred) : Prop :=
    forall c V1 V2 buf R1 R2 b1 b2,
      verify' p c V1 buf = Ok (R1, b1) -> verify' p c V2 buf = Ok (R2, b2) ->
      b1 = b2 /\ exists Vs, V1 = Vs ++ R1 /\ V2 = Vs ++ R2.

  Lemma det_scope a : is_scope a -> det a.
  Proof.
    intros Hs c V1 V2 buf R1 R2 b1 b2 H1 H2.
    apply (verify_scope_iff q slen dec_sc pval svs a c V1 buf R1 b1 Hs) in H1.
    apply (verify_scope_iff q slen dec_sc pval svs a c V2 buf R2 b2 Hs) in H2.
    destruct H1 as (rr1 & E1 & A1). destruct H2 as (rr2 & E2 & A2).
    rewrite E1 in E2. inversion E2; subst rr2 b2. split; [reflexivity|].
    apply (verify_and_iff q q_prime) in A1. apply (verify_and_iff q q_prime) in A2.
    destruct A1 as [_ ->]. destruct A2 as [_ ->]. eexists. split; reflexivity.
  Qed.

  Lemma det_list l : Forall det l -> forall ci V1 V2 buf R1 R2 b1 b2,
      verify_list q verify' l ci V1 buf = Ok (R1, b1) -> verify_list q verify' l ci V2 buf = Ok (R2, b2) ->
      b1 = b2 /\ exists Vs, V1 = Vs ++ R1 /\ V2 = Vs ++ R2.
  Proof.
    induction 1 as [|s l Hs Hl IH]; intros ci V1 V2 buf R1 R2 b1 b2 H1 H2.
    - cbn in H1, H2. inversion H1; inversion H2; subst. split; [reflexivity|]. exists []. split; reflexivity.
    - destruct ci as [|x ci]; [discriminate|].
      apply verify_list_cons_iff in H1. apply verify_list_cons_iff in H2.
      destruct H1 as (M1 & m1 & A1 & B1). destruct H2 as (M2 & m2 & A2 & B2).
      destruct (Hs _ _ _ _ _ _ _ _ A1 A2) as [-> (Va & -> & ->)].
      destruct (IH _ _ _ _ _ _ _ _ B1 B2) as [-> (Vb & -> & ->)].
      split; [reflexivity|]. exists (Va ++ Vb). rewrite <- !app_assoc. split; reflexivity.
  Qed.

  Theorem det_all p : det p.
  Proof.
    induction p as [P T|l IH|id l IH] using pred_ind2.
    - apply det_scope. exact I.
    - apply det_scope. exact I.
    - intros c V1 V2 buf R1 R2 b1 b2 H1 H2.
      apply verify_or_iff in H1. apply verify_or_iff in H2.
      destruct l as [|s [|s' l]].
      + contradiction.
      + inversion IH; subst. eauto.
      + destruct H1 as (ci & m1 & E1 & _ & A1). destruct H2 as (ci2 & m2 & E2 & _ & A2).
        rewrite E1 in E2. inversion E2; subst ci2 m2.
        eapply det_list; eassumption.
  Qed.

  Lemma verify_takes p : forall c V buf R b, verify' p c V buf = Ok (R, b) ->
      exists Vs, V = Vs ++ R /\ length Vs = nreps p.
  Proof.
    induction p as [P T|l IH|id l IH] using pred_ind2; intros c V buf R b H.
    - apply verify_scope_iff in H; [|exact I]. destruct H as (rr & _ & A).
      apply (verify_and_iff q q_prime) in A. destruct A as [Ha ->]. eexists. split; [reflexivity|].
      apply commits_len. exact Ha.
    - apply verify_scope_iff in H; [|exact I]. destruct H as (rr & _ & A).
      apply (verify_and_iff q q_prime) in A. destruct A as [Ha ->]. eexists. split; [reflexivity|].
      apply commits_len. exact Ha.
    - assert (HL : forall ci V buf R b, verify_list q verify' l ci V buf = Ok (R, b) ->
                 exists Vs, V = Vs ++ R /\ length Vs = fold_right (fun s k => (nreps s + k)%nat) O l).
      { clear H. induction IH as [|s l Hs Hl IHl]; intros ci V0 buf0 R0 b0 H.
        - cbn in H. inversion H. exists []. split; reflexivity.
        - destruct ci as [|x ci]; [discriminate|].
          apply verify_list_cons_iff in H. destruct H as (M & m & A & B).
          destruct (Hs _ _ _ _ _ A) as (Va & -> & La). destruct (IHl _ _ _ _ _ B) as (Vb & -> & Lb).
          exists (Va ++ Vb). rewrite <- app_assoc. split; [reflexivity|].
          rewrite app_length, La, Lb. reflexivity. }
      apply verify_or_iff in H. destruct l as [|s [|s' l]].
      + contradiction.
      + inversion IH; subst. destruct (H2 _ _ _ _ _ H) as (Vs & -> & L). exists Vs. split; [reflexivity|].
        cbn [nreps fold_right]. lia.
      + destruct H as (ci & m & _ & _ & A). apply HL in A. exact A.
  Qed.

  (* tree level: with the same challenge and the same responses /
     sub-challenges, different commitments are not both accepted *)
  Theorem commitments_determined p c V1 V2 buf r1 r2 :
    verify' p c V1 buf = Ok r1 -> verify' p c V2 buf = Ok r2 ->
    firstn (nreps p) V1 = firstn (nreps p) V2.
  Proof.
    destruct r1 as [R1 b1], r2 as [R2 b2]. intros H1 H2.
    destruct (verify_takes p _ _ _ _ _ H1) as (Va & -> & La).
    destruct (det_all p _ _ _ _ _ _ _ _ H1 H2) as [_ (Vs & E1 & E2)].
    destruct (verify_takes p _ _ _ _ _ H2) as (Vb & -> & Lb).
    rewrite <- La at 1. rewrite <- Lb. rewrite !firstn_len_app.
    assert (length Vs = length Va).
    { apply (f_equal (@length F)) in E1. rewrite !app_length in E1. lia. }
    apply app_eq_len in E1; [|congruence]. destruct E1 as [-> _].
    apply app_eq_len in E2; [|congruence]. destruct E2 as [-> _]. reflexivity.
  Qed.
End Determined.

(* ====================================================================== *)
(* altered commitments at the Fiat-Shamir level *)
Section HashAltered.
  Variable q : Z.
  Hypothesis q_prime : prime q.
  Notation F := (zq q).
  Variable plen slen : nat.
  Variable enc_pt : F -> list Z.
  Variable dec_pt dec_sc : list Z -> option F.
  Hypothesis enc_pt_len : forall x, length (enc_pt x) = plen.
  Hypothesis dec_enc_pt : forall x, dec_pt (enc_pt x) = Some x.
  Variable Hc : list Z -> list Z -> F.

  Lemma hash_verify_enc name p pval Vs tail :
    length Vs = nreps p ->
    hash_verify q plen slen dec_pt dec_sc Hc name p pval (enc_pts q enc_pt Vs ++ tail) =
    match verify q slen dec_sc pval (svars p) p (Hc name (enc_pts q enc_pt Vs)) Vs tail with
    | Ok _ => None | Err e => Some e end.
  Proof.
    intros L. unfold hash_verify. rewrite <- L. unfold enc_pts at 1.
    rewrite (read_n_enc q plen enc_pt dec_pt enc_pt_len dec_enc_pt).
    rewrite app_length, Nat.add_sub. fold (enc_pts q enc_pt Vs). rewrite firstn_len_app. reflexivity.
  Qed.

  (* the commitments of an accepted proof are replaced by other values, the
     rest of the proof is kept: accepted only if the hash output CHANGES
     (with an unchanged challenge the proof is rejected) *)
  Theorem altered_commitments_need_new_challenge name p pval Vs Vs' tail :
    length Vs = nreps p -> length Vs' = nreps p -> Vs' <> Vs ->
    hash_verify q plen slen dec_pt dec_sc Hc name p pval (enc_pts q enc_pt Vs ++ tail) = None ->
    hash_verify q plen slen dec_pt dec_sc Hc name p pval (enc_pts q enc_pt Vs' ++ tail) = None ->
    Hc name (enc_pts q enc_pt Vs') <> Hc name (enc_pts q enc_pt Vs).
  Proof.
    intros L L' Hne H1 H2 Heq. rewrite hash_verify_enc in H1, H2 by assumption. rewrite Heq in H2.
    destruct (verify q slen dec_sc pval (svars p) p (Hc name (enc_pts q enc_pt Vs)) Vs tail) as [r1|] eqn:E1; [|discriminate].
    destruct (verify q slen dec_sc pval (svars p) p (Hc name (enc_pts q enc_pt Vs)) Vs' tail) as [r2|] eqn:E2; [|discriminate].
    pose proof (commitments_determined q q_prime slen dec_sc pval (svars p) p _ _ _ _ _ _ E1 E2) as X.
    rewrite <- L in X at 1. rewrite <- L' in X. rewrite !firstn_all in X. congruence.
  Qed.

  (* under an Or with more than one branch a changed challenge breaks the
     sub-challenge sum: altered commitments are rejected unconditionally *)
  Theorem altered_commitments_or_rejected name id l pval Vs Vs' tail :
    (1 < length l)%nat ->
    length Vs = nreps (Or id l) -> length Vs' = nreps (Or id l) -> Vs' <> Vs ->
    hash_verify q plen slen dec_pt dec_sc Hc name (Or id l) pval (enc_pts q enc_pt Vs ++ tail) = None ->
    hash_verify q plen slen dec_pt dec_sc Hc name (Or id l) pval (enc_pts q enc_pt Vs' ++ tail) <> None.
  Proof.
    intros Hl L L' Hne H1 H2.
    pose proof (altered_commitments_need_new_challenge name (Or id l) pval Vs Vs' tail L L' Hne H1 H2) as Hch.
    rewrite hash_verify_enc in H1, H2 by assumption.
    destruct (verify q slen dec_sc pval (svars (Or id l)) (Or id l) (Hc name (enc_pts q enc_pt Vs)) Vs tail) as [r1|] eqn:E1; [|discriminate].
    destruct (verify q slen dec_sc pval (svars (Or id l)) (Or id l) (Hc name (enc_pts q enc_pt Vs')) Vs' tail) as [r2|] eqn:E2; [|discriminate].
    (* both runs read the same sub-challenges from [tail]; their sum cannot equal both challenges *)
    apply verify_or_iff in E1. apply verify_or_iff in E2.
    destruct l as [|s [|s' l]]; cbn in Hl; try lia.
    destruct E1 as (ci & b1 & R1 & S1 & _). destruct E2 as (ci2 & b2 & R2 & S2 & _).
    rewrite R1 in R2. inversion R2; subst ci2. apply Hch. rewrite <- S1, <- S2. reflexivity.
  Qed.
End HashAltered.

(* ====================================================================== *)
(* the obligated path of an honest run ends in exactly one scope *)
Section Unique.
  Variable q : Z.
  Notation F := (zq q).
  Variable pval : Z -> F.
  Variable choice : Z -> option Z.
  Variable rnd : nat -> F.
  Notation commit' := (commit q pval choice rnd).

  Lemma commit_list_cons_inv f s l (w' : option F) ws n sts n2 Vs :
    commit_list q f (s :: l) (w' :: ws) n = Ok (sts, n2, Vs) ->
    exists st n1 V1 sts' V2,
      f s w' n = Ok (st, n1, V1) /\ commit_list q f l ws n1 = Ok (sts', n2, V2) /\ sts = st :: sts'.
  Proof.
    cbn [commit_list]. destruct (f s w' n) as [[[st n1] V1]|e] eqn:A; [|discriminate].
    destruct (commit_list q f l ws n1) as [[[sts' n3] V2]|e] eqn:B; [|discriminate].
    intros H. inversion H; subst. exists st, n1, V1, sts', V2. repeat split; assumption.
  Qed.

  Lemma draw_obl_allsome k : forall i ch n ws n',
      draw_obl q rnd k i ch n = (ws, n') -> (ch < i)%nat -> Forall (fun o => o <> None) ws.
  Proof.
    induction k as [|k IH]; intros i ch n ws n' H Hlt; cbn [draw_obl] in H.
    - inversion H. constructor.
    - destruct (Nat.eqb_spec i ch); [lia|].
      destruct (draw_obl q rnd k (S i) ch (S n)) as [l n1] eqn:E. inversion H; subst.
      constructor; [discriminate|]. eapply IH; [exact E|lia].
  Qed.

  Lemma scopes_list_allsome f cs (ws : list (option F)) : Forall (fun o => o <> None) ws ->
    forall sts, scopes_list q f cs sts ws = [].
  Proof.
    induction 1 as [|o ws Ho Hs IH]; intros [|st sts]; try reflexivity.
    destruct o; [|congruence]. cbn [scopes_list]. apply IH.
  Qed.

  Definition single (s : pred) : Prop :=
    wf s = true -> choice_ok choice s ->
    forall n st n' Vs, commit' s None n = Ok (st, n', Vs) ->
    forall c, exists cs a, obl_scopes q st c = [(cs, a)].

  Lemma scopes_single l : Forall single l -> forall i ch n0 ws n1,
      draw_obl q rnd (length l) i ch n0 = (ws, n1) ->
      (i <= ch < i + length l)%nat -> nth_prop (choice_ok choice) l (ch - i) ->
      forallb wf l = true ->
      forall n sts n2 Vs, commit_list q commit' l ws n = Ok (sts, n2, Vs) ->
      forall cs, exists c' a, scopes_list q (obl_scopes q) cs sts ws = [(c', a)].
  Proof.
    induction 1 as [|s l Hs Hl IH]; intros i ch n0 ws n1 Hd Hr Hn Hwf n sts n2 Vs Hc cs.
    - cbn in Hr. lia.
    - cbn [length draw_obl] in Hd. cbn [forallb] in Hwf. apply andb_true_iff in Hwf. destruct Hwf as [Hw1 Hw2].
      destruct (Nat.eqb_spec i ch) as [->|Hne].
      + destruct (draw_obl q rnd (length l) (S ch) ch n0) as [l1 m1] eqn:E. inversion Hd; subst.
        apply commit_list_cons_inv in Hc. destruct Hc as (st & m & V1 & sts' & V2 & A & B & ->).
        rewrite Nat.sub_diag in Hn. cbn in Hn.
        destruct (Hs Hw1 Hn _ _ _ _ A cs) as (c' & a & Ea).
        exists c', a. cbn [scopes_list]. rewrite Ea.
        rewrite (scopes_list_allsome _ _ _ (draw_obl_allsome _ _ _ _ _ _ E ltac:(lia))). reflexivity.
      + destruct (draw_obl q rnd (length l) (S i) ch (S n0)) as [l1 m1] eqn:E. inversion Hd; subst.
        apply commit_list_cons_inv in Hc. destruct Hc as (st & m & V1 & sts' & V2 & A & B & ->).
        cbn [scopes_list]. replace (ch - i)%nat with (S (ch - S i)) in Hn by lia. cbn in Hn.
        eapply IH; [exact E|cbn in Hr; lia|exact Hn|exact Hw2|exact B].
  Qed.

  Theorem obl_scope_unique p : single p.
  Proof.
    induction p as [P T|l IH|id l IH] using pred_ind2; unfold single.
    - intros _ _ n st n' Vs H c. cbn [commit] in H.
      destruct (commit_and q pval rnd (Rep P T) None (vempty q) n) as [[[v m] V]|]; [|discriminate].
      inversion H; subst. cbn. eexists. eexists. reflexivity.
    - intros _ _ n st n' Vs H c. cbn [commit] in H.
      destruct (commit_and q pval rnd (And l) None (vempty q) n) as [[[v m] V]|]; [|discriminate].
      inversion H; subst. cbn. eexists. eexists. reflexivity.
    - intros Hwf Hch n st n' Vs H c. cbn [commit] in H.
      cbn [wf] in Hwf. apply andb_true_iff in Hwf. destruct Hwf as [_ Hwfl].
      cbn [choice_ok] in Hch. destruct Hch as (ch & Hch & Hn).
      pose proof (nth_prop_lt _ _ _ Hn) as Hlt.
      destruct (length l) eqn:El; [lia|]. rewrite Hch in H.
      assert (Hb : ((0 <=? Z.of_nat ch) && (Z.of_nat ch <? Z.of_nat (S n0)))%bool = true).
      { apply andb_true_iff. split; [apply Z.leb_le; lia|apply Z.ltb_lt; lia]. }
      rewrite Hb, Nat2Z.id in H.
      destruct (draw_obl q rnd (S n0) 0 ch n) as [ws n1] eqn:Ed.
      destruct (commit_list q commit' l ws n1) as [[[sts n2] cs]|] eqn:Ec; [|discriminate].
      inversion H; subst. cbn [obl_scopes].
      rewrite <- El in Ed.
      eapply scopes_single; [exact IH|exact Ed|lia|rewrite Nat.sub_0_r; exact Hn|exact Hwfl|exact Ec].
  Qed.
End Unique.

(* ====================================================================== *)
(* a nested-Or instance for the example of props/C14.v (q = 251, encodings and
   oracle of the first example): Or [ false Rep ; Or [ And [true Rep] ; false Rep ] ] *)
Definition nv2_pred : pred :=
  Or 1 [Rep 2 [(1, 10)]; Or 2 [And [Rep 1 [(1, 10); (2, 11)]]; Rep 3 [(2, 11)]]]%Z.
Definition nv2_choice (i : Z) : option Z := if (i =? 1)%Z then Some 1%Z else Some 0%Z.
(* x2 is wrong: the claimed scope And [Rep 1 ...] is false under these secrets *)
Definition nv2_sval_bad (i : Z) : zq 251 := of_Z 251 (if i =? 1 then 3 else 6)%Z.
