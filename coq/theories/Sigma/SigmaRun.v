(* Runner for the C14 correspondence: instantiates the model with the
   transparent dlog group of the harness (order 2^61-1; point = tag byte 4 +
   8-byte big-endian logarithm, scalar = 8-byte big-endian) and evaluates it
   on the cases the harness wrote.  Not used by any theorem. *)
From Coq Require Import ZArith List Bool.
From Kyber Require Import Algebra.Zq Algebra.Grp Sigma.SigmaSM.
Import ListNotations.
Local Open Scope Z_scope.

Definition q61 : Z := 2305843009213693951.
Notation F := (zq q61).
Definition fz (x : Z) : F := of_Z q61 x.

Fixpoint be_enc (n : nat) (v : Z) (acc : list Z) : list Z :=
  match n with
  | O => acc
  | S k => be_enc k (Z.shiftr v 8) (Z.land v 255 :: acc)
  end.
Definition be_dec (b : list Z) : Z := fold_left (fun a x => a * 256 + x) b 0.

Definition enc_sc (x : F) : list Z := be_enc 8 (val x) [].
Definition enc_pt (x : F) : list Z := 4 :: enc_sc x.
Definition dec_sc (b : list Z) : option F :=
  let v := be_dec b in if v <? q61 then Some (fz v) else None.
Definition dec_pt (b : list Z) : option F :=
  match b with
  | 4 :: t => dec_sc t
  | _ => None
  end.

Fixpoint list_eqb (a b : list Z) : bool :=
  match a, b with
  | [], [] => true
  | x :: a', y :: b' => Z.eqb x y && list_eqb a' b'
  | _, _ => false
  end.

Fixpoint alookup (t : list (Z * Z)) (k : Z) : option Z :=
  match t with
  | [] => None
  | (k', v) :: r => if k =? k' then Some v else alookup r k
  end.
Definition fmap (t : list (Z * Z)) (k : Z) : F :=
  match alookup t k with Some v => fz v | None => zzero end.

(* oracle tables: ((name, bytes), scalar) *)
Definition htab := list (list Z * list Z * Z).
Fixpoint hlookup (t : htab) (name b : list Z) : option Z :=
  match t with
  | [] => None
  | (n', b', v) :: r => if list_eqb name n' && list_eqb b b' then Some v else hlookup r name b
  end.
Definition Hrun (t : htab) (name b : list Z) : F :=
  match hlookup t name b with Some v => fz v | None => zzero end.

Definition err_code (e : option err) : Z :=
  match e with
  | None => 0
  | Some ECommit => 1
  | Some ESub => 2
  | Some EDecode => 3
  | Some EStruct => 4
  | Some EChoice => 5
  | Some EPanic => 6
  end.

Definition run_verify (t : htab) (name : list Z) (p : pred) (pts : list (Z * Z)) (proof : list Z) : Z :=
  err_code (hash_verify q61 9 8 dec_pt dec_sc (Hrun t) name p (fmap pts) proof).

(* the challenge the verifier needs must be in the table (unless parsing the
   commitments already fails) *)
Definition table_ok (t : htab) (name : list Z) (p : pred) (proof : list Z) : bool :=
  match read_n q61 9 dec_pt (nreps p) proof with
  | None => true
  | Some (_, rest) =>
      match hlookup t name (firstn (length proof - length rest) proof) with
      | Some _ => true | None => false end
  end.

(* one verification variant of a tree: overrides (None = as in the tree) *)
Inductive variant :=
| VV (id : Z) (p : option pred) (pts : option (list (Z * Z))) (name : option (list Z))
     (proof : list Z) (verdict : Z).

Inductive case :=
(* a predicate, an assignment, the randomness the prover consumed, the
   observed HashProve result (error code, proof bytes) and verification variants *)
| CTree (id : Z) (p : pred) (pts secs choice : list (Z * Z)) (rnd : list Z)
        (name : list Z) (tab : htab) (perr : Z) (proof : list Z) (vs : list variant)
(* deniable run: mix, per participant (pred, pts, secs, choice, rnd, observed
   step-1 body, step-2 body), and verifications (verifier statement = index of
   the prover it checks, pred, pts, observed verdict) *)
| CDen (id : Z) (mix : list Z) (cval : Z)
       (parts : list (pred * list (Z * Z) * list (Z * Z) * list (Z * Z) * list Z * list Z * list Z))
       (vfs : list (Z * Z * pred * list (Z * Z) * Z)).

Definition check_variant (p0 : pred) (pts0 : list (Z * Z)) (name0 : list Z) (t : htab)
           (v : variant) : list Z :=
  match v with
  | VV id p pts name proof verdict =>
      let p' := match p with Some x => x | None => p0 end in
      let pts' := match pts with Some x => x | None => pts0 end in
      let name' := match name with Some x => x | None => name0 end in
      if table_ok t name' p' proof && (run_verify t name' p' pts' proof =? verdict)
      then [] else [id]
  end.

Definition check (c : case) : list Z :=
  match c with
  | CTree id p pts secs choice rnd name tab perr proof vs =>
      let r := hash_prove q61 enc_pt enc_sc (Hrun tab) name p (fmap pts) (fmap secs)
                          (alookup choice) (fun i => fz (nth i rnd 0)) in
      let okp := match r with
                 | Ok b => (perr =? 0) && list_eqb b proof
                 | Err e => perr =? err_code (Some e)
                 end in
      (if okp then [] else [id]) ++ flat_map (check_variant p pts name tab) vs
  | CDen id mix cval parts vfs =>
      let Hd := fun _ : list Z => fz cval in
      let bodies := map (fun pa =>
                           match pa with
                           | (p, pts, secs, choice, rnd, b1, b2) =>
                               (deniable_msgs q61 enc_pt enc_sc Hd
                                  (Build_party q61 p (fmap pts) (fmap secs) (alookup choice)
                                               (fun i => fz (nth i rnd 0)) []) mix, b1, b2)
                           end) parts in
      let okb := forallb (fun x =>
                            match x with
                            | (Ok (m1, m2), b1, b2) => list_eqb m1 b1 && list_eqb m2 b2
                            | (Err _, _, _) => false
                            end) bodies in
      let okv := forallb (fun vf =>
                            match vf with
                            | (vid, who, p, pts, verdict) =>
                                match nth_error parts (Z.to_nat who) with
                                | Some (_, _, _, _, _, b1, b2) =>
                                    err_code (deniable_verify q61 9 8 dec_pt dec_sc Hd p (fmap pts) mix b1 b2)
                                    =? verdict
                                | None => false
                                end
                            end) vfs in
      if okb && okv then [] else [id]
  end.

Definition mismatches (cs : list case) : list Z := flat_map check cs.
