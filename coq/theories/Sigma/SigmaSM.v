(* Executable model of kyber's package proof (proof/proof.go, proof/hash.go,
   the clique step function of proof/deniable.go).  Definitions only.

   Groups are modelled by discrete logarithms (Algebra/Grp.v): a point IS an
   element of zq q.  Variable names (Go strings) are integers.  The Go maps
   prf.sidx / the per-scope slices v, r indexed by variable number are
   modelled by functions from variable NAMES to optional scalars; the order in
   which responses are transmitted (increasing variable index = order of first
   occurrence in the predicate, enumVars) is the list [svs].

   Aliasing that matters is kept: inside one And-scope all Rep nodes share ONE
   blinding vector v and ONE response vector r (makeScalars returns the
   parent's slice), and pp.v of a Rep is that shared slice, i.e. at respond
   time it is the scope's final vector.  Hence the prover state of a scope is
   (w, final v) and respond runs over the scope's predicate again.

   Outcomes: Go errors are classes ([err]); panics of the Go code that a
   caller can reach with a syntactically valid predicate (Or() without
   sub-predicates) are [EPanic]. *)
From Coq Require Import ZArith List Bool.
From Kyber Require Import Algebra.Zq Algebra.Grp.
Import ListNotations.
Local Open Scope Z_scope.

(* predicate trees: Rep P [(s1,B1);...]  <->  P = s1*B1 + ...;
   an Or carries an identity (Go: the pointer used as key of the choice map) *)
Inductive pred :=
| Rep (P : Z) (T : list (Z * Z))
| And (l : list pred)
| Or (id : Z) (l : list pred).

Inductive err :=
| EStruct   (* Or inside And *)
| EChoice   (* no / out-of-range branch choice on the proof-obligated path *)
| EDecode   (* short read or invalid encoding *)
| ECommit   (* "invalid proof: commit mismatch" *)
| ESub      (* "invalid proof: bad sub-challenges" *)
| EPanic.   (* Go run-time panic (Or with no sub-predicates) *)

Inductive res (A : Type) := Ok (a : A) | Err (e : err).
Arguments Ok {A} a.
Arguments Err {A} e.

Definition mem (x : Z) (l : list Z) : bool := existsb (Z.eqb x) l.

(* enumVars: scalar variable names in order of first occurrence *)
Fixpoint svars_raw (p : pred) : list Z :=
  match p with
  | Rep _ T => map fst T
  | And l => flat_map svars_raw l
  | Or _ l => flat_map svars_raw l
  end.

Fixpoint dedup_acc (seen l : list Z) : list Z :=
  match l with
  | [] => []
  | x :: l' => if mem x seen then dedup_acc seen l' else x :: dedup_acc (x :: seen) l'
  end.

Definition svars (p : pred) : list Z := dedup_acc [] (svars_raw p).

(* scalar variables of one And-scope (getCommits does not pass the response
   slice below an Or) *)
Fixpoint scope_vars (p : pred) : list Z :=
  match p with
  | Rep _ T => map fst T
  | And l => flat_map scope_vars l
  | Or _ _ => []
  end.

(* number of Rep nodes = number of commitments *)
Fixpoint nreps (p : pred) : nat :=
  match p with
  | Rep _ _ => 1%nat
  | And l => fold_right (fun s k => (nreps s + k)%nat) O l
  | Or _ l => fold_right (fun s k => (nreps s + k)%nat) O l
  end.

(* no Or below an And *)
Fixpoint andtree (p : pred) : bool :=
  match p with
  | Rep _ _ => true
  | And l => forallb andtree l
  | Or _ _ => false
  end.

(* "Or above And", and no empty Or *)
Fixpoint wf (p : pred) : bool :=
  match p with
  | Rep _ _ => true
  | And l => forallb andtree l
  | Or _ l => negb (Nat.eqb (length l) 0) && forallb wf l
  end.

Section Model.
  Variable q : Z.
  Notation F := (zq q).

  Definition vec := Z -> option F.
  Definition vempty : vec := fun _ => None.
  Definition upd (v : vec) (s : Z) (x : F) : vec := fun i => if i =? s then Some x else v i.
  Definition updo (v : vec) (s : Z) (x : option F) : vec := fun i => if i =? s then x else v i.
  Definition updf (r : Z -> F) (s : Z) (x : F) : Z -> F := fun i => if i =? s then x else r i.

  (* linear combination  sum f(s)*pval(b)  over the terms of a Rep *)
  Definition lin (pval : Z -> F) (f : Z -> F) (T : list (Z * Z)) : F :=
    psum (map (fun t => smul (f (fst t)) (pval (snd t))) T).

  Definition somes (l : list (option F)) : list F :=
    flat_map (fun o => match o with Some x => [x] | None => [] end) l.
  Definition fill (d : F) (o : option F) : F := match o with Some x => x | None => d end.

  (* prover state kept between commit and respond (prf.pp) *)
  Inductive pst :=
  | SScope (w : option F) (v : vec) (a : pred)
  | SOr (wi : list (option F)) (l : list pst).

  (* the loops over the sub-predicates of an Or (commitmentProducer, and the
     loops of orPred.respond / orPred.verify), parametrised by the recursive call *)
  Definition commit_list (f : pred -> option F -> nat -> res (pst * nat * list F)) :=
    fix go (l : list pred) (ws : list (option F)) (n : nat) : res (list pst * nat * list F) :=
      match l, ws with
      | [], _ => Ok ([], n, [])
      | s :: l', w' :: ws' =>
          match f s w' n with
          | Err e => Err e
          | Ok (st, n1, c1) =>
              match go l' ws' n1 with
              | Err e => Err e
              | Ok (sts, n2, c2) => Ok (st :: sts, n2, c1 ++ c2)
              end
          end
      | _ :: _, [] => Err EPanic
      end.

  Definition respond_list (f : pst -> F -> list F) :=
    fix go (l : list pst) (ci : list F) : list F :=
      match l, ci with
      | s :: l', x :: ci' => f s x ++ go l' ci'
      | _, _ => []
      end.

  Definition verify_list (f : pred -> F -> list F -> list Z -> res (list F * list Z)) :=
    fix go (l : list pred) (ci : list F) (Vs : list F) (buf : list Z) : res (list F * list Z) :=
      match l, ci with
      | [], _ => Ok (Vs, buf)
      | s :: l', x :: ci' =>
          match f s x Vs buf with
          | Err e => Err e
          | Ok (Vs', b') => go l' ci' Vs' b'
          end
      | _ :: _, [] => Err EPanic
      end.

  (* ------------------------------------------------------------------ *)
  (* prover (proof.go: commit / respond) *)
  Section Prover.
    Variable pval : Z -> F.            (* public points *)
    Variable sval : Z -> F.            (* secrets *)
    Variable choice : Z -> option Z.   (* Or identity -> chosen branch *)
    Variable rnd : nat -> F.           (* private randomness: k-th scalar picked *)
    Variable svs : list Z.             (* enumVars order *)

    (* repPred.commit, the loop over the terms: blinding chosen at first
       encounter of a variable in the scope; V accumulated term by term *)
    Fixpoint commit_terms (T : list (Z * Z)) (v : vec) (n : nat) (V : F) : vec * nat * F :=
      match T with
      | [] => (v, n, V)
      | (s, b) :: T' =>
          match v s with
          | Some x => commit_terms T' v n (padd V (smul x (pval b)))
          | None => let x := rnd n in
                    commit_terms T' (upd v s x) (S n) (padd V (smul x (pval b)))
          end
      end.

    (* commit with a non-nil parent vector (inside an And-scope) *)
    Fixpoint commit_and (p : pred) (w : option F) (v : vec) (n : nat) : res (vec * nat * list F) :=
      match p with
      | Rep P T =>
          let V0 := match w with Some w0 => smul w0 (pval P) | None => pzero end in
          let '(v', n', V) := commit_terms T v n V0 in Ok (v', n', [V])
      | And l =>
          (fix go (l : list pred) (v : vec) (n : nat) : res (vec * nat * list F) :=
             match l with
             | [] => Ok (v, n, [])
             | s :: l' =>
                 match commit_and s w v n with
                 | Err e => Err e
                 | Ok (v1, n1, c1) =>
                     match go l' v1 n1 with
                     | Err e => Err e
                     | Ok (v2, n2, c2) => Ok (v2, n2, c1 ++ c2)
                     end
                 end
             end) l v n
      | Or _ _ => Err EStruct
      end.

    (* orPred.commit, obligated: a pre-challenge for every sub but the chosen one *)
    Fixpoint draw_obl (k i ch n : nat) : list (option F) * nat :=
      match k with
      | O => ([], n)
      | S k' =>
          if Nat.eqb i ch then
            let '(l, n') := draw_obl k' (S i) ch n in (None :: l, n')
          else
            let '(l, n') := draw_obl k' (S i) ch (S n) in (Some (rnd n) :: l, n')
      end.

    (* orPred.commit, simulated: all but the last random, last = w - sum *)
    Fixpoint draw_sim (k : nat) (wl : F) (n : nat) : list (option F) * nat :=
      match k with
      | O => ([], n)
      | S O => ([Some wl], n)
      | S k' => let x := rnd n in
                let '(l, n') := draw_sim k' (zsub wl x) (S n) in (Some x :: l, n')
      end.

    (* commit with pv = nil (top level or directly below an Or) *)
    Fixpoint commit (p : pred) (w : option F) (n : nat) : res (pst * nat * list F) :=
      match p with
      | Or id l =>
          let k := length l in
          (* k = 0: Go panics in both cases (wi[-1]; sub[0] while formatting
             the "no choice" error) *)
          let pre : res (list (option F) * nat) :=
            match k with
            | O => Err EPanic
            | _ =>
                match w with
                | None =>
                    match choice id with
                    | Some ch => if (0 <=? ch) && (ch <? Z.of_nat k)
                                 then Ok (draw_obl k 0 (Z.to_nat ch) n) else Err EChoice
                    | None => Err EChoice
                    end
                | Some w0 => Ok (draw_sim k w0 n)
                end
            end in
          match pre with
          | Err e => Err e
          | Ok (wi, n1) =>
              match commit_list commit l wi n1 with
              | Err e => Err e
              | Ok (sts, n2, cs) => Ok (SOr wi sts, n2, cs)
              end
          end
      | _ =>
          match commit_and p w vempty n with
          | Err e => Err e
          | Ok (v, n', cs) => Ok (SScope w v p, n', cs)
          end
      end.

    (* repPred.respond, the loop over the terms.  (v s = None cannot happen
       after commit; Go would dereference nil.) *)
    Fixpoint respond_terms (T : list (Z * Z)) (w : option F) (v : vec) (c : F) (r : vec) : vec :=
      match T with
      | [] => r
      | (s, _) :: T' =>
          match r s with
          | Some _ => respond_terms T' w v c r
          | None =>
              let y := match w with
                       | Some _ => v s
                       | None => option_map (fun vs => zsub vs (zmul c (sval s))) (v s)
                       end in
              respond_terms T' w v c (updo r s y)
          end
      end.

    (* respond inside a scope (an Or cannot occur: commit failed before) *)
    Fixpoint respond_and (p : pred) (w : option F) (v : vec) (c : F) (r : vec) : vec :=
      match p with
      | Rep _ T => respond_terms T w v c r
      | And l => (fix go (l : list pred) (r : vec) : vec :=
                    match l with [] => r | s :: l' => go l' (respond_and s w v c r) end) l r
      | Or _ _ => r
      end.

    (* sendResponses: in variable-index order, only the variables of the scope *)
    Definition send (r : vec) : list F :=
      flat_map (fun s => match r s with Some x => [x] | None => [] end) svs.

    (* the scalars the prover transmits after the challenge, in order *)
    Fixpoint respond (st : pst) (c : F) : list F :=
      match st with
      | SScope w v a => send (respond_and a w v c vempty)
      | SOr wi l =>
          let cs := zsub c (psum (somes wi)) in
          let ci := map (fill cs) wi in
          (if Nat.ltb 1 (length l) then ci else []) ++
          respond_list respond l ci
      end.
  End Prover.

  (* ------------------------------------------------------------------ *)
  (* wire format: fixed-length encodings of points and scalars *)
  Section Wire.
    Variable plen slen : nat.
    Variable enc_pt enc_sc : F -> list Z.
    Variable dec_pt dec_sc : list Z -> option F.

    Definition get (len : nat) (dec : list Z -> option F) (buf : list Z) : option (F * list Z) :=
      if Nat.ltb (length buf) len then None
      else match dec (firstn len buf) with
           | Some x => Some (x, skipn len buf)
           | None => None
           end.

    Fixpoint read_n (len : nat) (dec : list Z -> option F) (k : nat) (buf : list Z)
      : option (list F * list Z) :=
      match k with
      | O => Some ([], buf)
      | S k' => match get len dec buf with
                | Some (x, b') => match read_n len dec k' b' with
                                  | Some (xs, b'') => Some (x :: xs, b'')
                                  | None => None
                                  end
                | None => None
                end
      end.

    Definition enc_pts (l : list F) : list Z := flat_map enc_pt l.
    Definition enc_scs (l : list F) : list Z := flat_map enc_sc l.

    (* getResponses *)
    Fixpoint read_resp (names : list Z) (r : Z -> F) (buf : list Z) : option ((Z -> F) * list Z) :=
      match names with
      | [] => Some (r, buf)
      | s :: t => match get slen dec_sc buf with
                  | Some (x, b') => read_resp t (updf r s x) b'
                  | None => None
                  end
      end.

    (* -------------------------------------------------------------- *)
    (* verifier (proof.go: verify) *)
    Section Verifier.
      Variable pval : Z -> F.
      Variable svs : list Z.

      Definition rep_lhs (c : F) (r : Z -> F) (P : Z) (T : list (Z * Z)) : F :=
        fold_left (fun acc t => padd acc (smul (r (fst t)) (pval (snd t)))) T (smul c (pval P)).

      Fixpoint verify_and (p : pred) (c : F) (r : Z -> F) (Vs : list F) : res (list F) :=
        match p with
        | Rep P T =>
            match Vs with
            | [] => Err EPanic
            | V :: Vs' => if peqb (rep_lhs c r P T) V then Ok Vs' else Err ECommit
            end
        | And l =>
            (fix go (l : list pred) (Vs : list F) : res (list F) :=
               match l with
               | [] => Ok Vs
               | s :: l' => match verify_and s c r Vs with
                            | Err e => Err e
                            | Ok Vs' => go l' Vs'
                            end
               end) l Vs
        | Or _ _ => Err EStruct
        end.

      Definition resp_names (p : pred) : list Z :=
        filter (fun s => mem s (scope_vars p)) svs.

      Fixpoint verify (p : pred) (c : F) (Vs : list F) (buf : list Z) : res (list F * list Z) :=
        match p with
        | Or _ l =>
            let k := length l in
            let pre : res (list F * list Z) :=
              match k with
              | O => Err EPanic
              | S O => Ok ([c], buf)
              | _ => match read_n slen dec_sc k buf with
                     | None => Err EDecode
                     | Some (ci, b') => if zeqb (psum ci) c then Ok (ci, b') else Err ESub
                     end
              end in
            match pre with
            | Err e => Err e
            | Ok (ci, b1) =>
                verify_list verify l ci Vs b1
            end
        | _ =>
            match read_resp (resp_names p) (fun _ => zzero) buf with
            | None => Err EDecode
            | Some (r, b') =>
                match verify_and p c r Vs with
                | Err e => Err e
                | Ok Vs' => Ok (Vs', b')
                end
            end
        end.
    End Verifier.

    (* -------------------------------------------------------------- *)
    (* Fiat-Shamir contexts (hash.go).  Hc name bytes = the scalar read from
       XOF(name) after Reseed; Write(bytes) (no Reseed/Write when bytes = []). *)
    Variable Hc : list Z -> list Z -> F.

    Definition hash_prove (name : list Z) (p : pred) (pval sval : Z -> F)
               (choice : Z -> option Z) (rnd : nat -> F) : res (list Z) :=
      match commit pval choice rnd p None O with
      | Err e => Err e
      | Ok (st, _, Vs) =>
          let c := Hc name (enc_pts Vs) in
          Ok (enc_pts Vs ++ enc_scs (respond sval (svars p) st c))
      end.

    (* None = accepted *)
    Definition hash_verify (name : list Z) (p : pred) (pval : Z -> F) (buf : list Z) : option err :=
      match read_n plen dec_pt (nreps p) buf with
      | None => Some EDecode
      | Some (Vs, rest) =>
          let c := Hc name (firstn (length buf - length rest) buf) in
          match verify pval (svars p) p c Vs rest with
          | Ok _ => None
          | Err e => Some e
          end
      end.

    (* -------------------------------------------------------------- *)
    (* interactive run (deniable.go over a lock-step clique, all participants
       present): every participant i proves p_i; the challenge is derived from
       the XOR of the participants' committed keys.  X key = XOF(key) output
       (keySize bytes), Hd mix = the scalar read from XOF(mix). *)
    Variable X : list Z -> list Z.
    Variable Hd : list Z -> F.

    Record party := {
      pa_pred : pred; pa_pval : Z -> F; pa_sval : Z -> F;
      pa_choice : Z -> option Z; pa_rnd : nat -> F;
      pa_key : list Z            (* first committed key *)
    }.

    Fixpoint xor_bytes (a b : list Z) : list Z :=
      match a, b with
      | x :: a', y :: b' => Z.lxor x y :: xor_bytes a' b'
      | _, _ => []
      end.

    (* mix = XOR of all keys (keySize zero bytes to start) *)
    Definition mix_keys (ksz : nat) (keys : list (list Z)) : list Z :=
      fold_left xor_bytes keys (repeat 0 ksz).

    (* what verifier of participant i's proof concludes, given the statement
       (p, pval) it checks, the first-step message body of i and the
       second-step message body of i, and the mixed challenge *)
    Definition deniable_verify (p : pred) (pval : Z -> F) (mix body1 body2 : list Z) : option err :=
      match read_n plen dec_pt (nreps p) body1 with
      | None => Some EDecode
      | Some (Vs, _) =>
          match verify pval (svars p) p (Hd mix) Vs body2 with
          | Ok _ => None
          | Err e => Some e
          end
      end.

    (* step-1 and step-2 message bodies of an honest participant *)
    Definition deniable_msgs (pa : party) (mix : list Z) : res (list Z * list Z) :=
      match commit (pa_pval pa) (pa_choice pa) (pa_rnd pa) (pa_pred pa) None O with
      | Err e => Err e
      | Ok (st, _, Vs) =>
          Ok (enc_pts Vs, enc_scs (respond (pa_sval pa) (svars (pa_pred pa)) st (Hd mix)))
      end.

    (* challengeStep's check of the other participants' commitments *)
    Definition keys_ok (coms keys : list (list Z)) : bool :=
      forallb (fun ck => if list_eq_dec Z.eq_dec (fst ck) (X (snd ck)) then true else false)
              (combine coms keys).
  End Wire.
End Model.

Arguments Ok {A} a.
Arguments Err {A} e.
