(* Theorems about the XOF / random-stream model (property C19). *)
From Coq Require Import ZArith List Bool Lia.
From Kyber Require Import Xof.XofSM.
Import ListNotations.

Section Proofs.
  Variable out : kind -> list Z -> list Z -> nat -> Z.

  Notation xread := (xread out).
  Notation stream := (stream out).
  Notation read_chunks := (read_chunks out).
  Notation xxor := (xxor out).
  Notation xreseed := (xreseed out).

  Lemma stream_app x a n m : stream x a (n + m) = stream x a n ++ stream x (a + n) m.
  Proof. unfold XofSM.stream. rewrite seq_app, map_app. reflexivity. Qed.

  Definition sum (l : list nat) : nat := fold_right Nat.add 0 l.

  (* the primitive-visible part of the state *)
  Definition prim (x : xof) := (x_kind x, x_key x, x_abs x).

  Lemma xread_prim x n : prim (fst (xread x n)) = prim x.
  Proof. reflexivity. Qed.

  Lemma read_chunks_spec : forall chunks x,
      snd (read_chunks x chunks) = stream x (x_pos x) (sum chunks) /\
      prim (fst (read_chunks x chunks)) = prim x /\
      x_pos (fst (read_chunks x chunks)) = x_pos x + sum chunks /\
      x_seed (fst (read_chunks x chunks)) = x_seed x /\
      (chunks <> [] -> x_reading (fst (read_chunks x chunks)) = true).
  Proof.
    induction chunks as [|n rest IH]; intros x.
    - cbn. repeat split; try lia. intros H; congruence.
    - cbn [XofSM.read_chunks].
      destruct (xread x n) as [x' bs] eqn:E.
      destruct (read_chunks x' rest) as [x'' bs'] eqn:E2.
      specialize (IH x'). rewrite E2 in IH. cbn [fst snd] in *.
      unfold XofSM.xread in E. inversion E; subst x' bs; clear E.
      cbn [x_pos x_kind x_key x_abs x_seed x_reading prim] in *.
      destruct IH as (H1 & H2 & H3 & H4 & H5).
      repeat split.
      + rewrite H1. change (sum (n :: rest)) with (n + sum rest). rewrite stream_app. reflexivity.
      + exact H2.
      + rewrite H3. change (sum (n :: rest)) with (n + sum rest). lia.
      + exact H4.
      + intros _. destruct rest as [|m rest'].
        * cbn in E2. inversion E2. reflexivity.
        * apply H5. congruence.
  Qed.

  (* C19: output does not depend on how reads are chunked *)
  Theorem read_chunk_independent : forall x c1 c2,
      sum c1 = sum c2 ->
      snd (read_chunks x c1) = snd (read_chunks x c2) /\
      (c1 <> [] -> c2 <> [] -> fst (read_chunks x c1) = fst (read_chunks x c2)).
  Proof.
    intros x c1 c2 Hs.
    destruct (read_chunks_spec c1 x) as (A1 & A2 & A3 & A4 & A5).
    destruct (read_chunks_spec c2 x) as (B1 & B2 & B3 & B4 & B5).
    split.
    - rewrite A1, B1, Hs. reflexivity.
    - intros N1 N2. specialize (A5 N1). specialize (B5 N2).
      destruct (fst (read_chunks x c1)) as [k1 ke1 ab1 p1 r1 s1].
      destruct (fst (read_chunks x c2)) as [k2 ke2 ab2 p2 r2 s2].
      unfold prim in *. cbn in *. inversion A2. inversion B2. subst. f_equal. lia.
  Qed.

  (* the bytes of a chunked read are exactly the single-shot stream *)
  Theorem read_chunks_is_stream : forall x chunks,
      snd (read_chunks x chunks) = stream x (x_pos x) (sum chunks).
  Proof. intros. apply read_chunks_spec. Qed.

  (* C19: XORKeyStream XORs exactly the bytes Read would return *)
  Theorem xor_is_read : forall x dl src x' res,
      xxor x dl src = Some (x', res) ->
      x' = fst (xread x (length src)) /\
      res = xor_bytes src (snd (xread x (length src))).
  Proof.
    intros x dl src x' res. unfold XofSM.xxor.
    destruct (Nat.ltb dl (length src)); [discriminate|].
    cbn. intros H; inversion H; split; reflexivity.
  Qed.

  Theorem xor_panics_iff : forall x dl src,
      xxor x dl src = None <-> dl < length src.
  Proof.
    intros. unfold XofSM.xxor.
    destruct (Nat.ltb_spec dl (length src)); cbn; split; intros; try lia; try discriminate; auto.
  Qed.

  (* ---------------- single-object operation sequences ------------------- *)
  Inductive sop :=
  | SRead (n : nat) | SWrite (bs : list Z) | SXor (dl : nat) (src : list Z)
  | SReseed | SReset.

  Definition sstep (x : xof) (o : sop) : xof * obs :=
    match o with
    | SRead n => let (x', bs) := xread x n in (x', OBytes bs)
    | SWrite bs => match xwrite x bs with Some x' => (x', OUnit) | None => (x, OPanic) end
    | SXor dl src => match xxor x dl src with
                     | Some (x', bs) => (x', OBytes bs) | None => (x, OPanic) end
    | SReseed => (xreseed x, OUnit)
    | SReset => (xreset x, OUnit)
    end.

  Fixpoint srun (x : xof) (ops : list sop) : xof * list obs :=
    match ops with
    | [] => (x, [])
    | o :: rest => let (x', ob) := sstep x o in
                   let (x'', obs') := srun x' rest in (x'', ob :: obs')
    end.

  Definition no_reset (o : sop) : bool := match o with SReset => false | _ => true end.

  (* two objects with the same primitive state (a clone differs from its
     original only in the stored seed) *)
  Definition peq (x y : xof) : Prop :=
    x_kind x = x_kind y /\ x_key x = x_key y /\ x_abs x = x_abs y /\
    x_pos x = x_pos y /\ x_reading x = x_reading y.

  Lemma peq_clone x : peq x (xclone x).
  Proof. unfold peq; cbn; auto. Qed.

  Lemma sstep_peq x y o : peq x y -> no_reset o = true ->
      snd (sstep x o) = snd (sstep y o) /\ peq (fst (sstep x o)) (fst (sstep y o)).
  Proof.
    intros (K & Ke & A & P & R) Hn.
    destruct x as [k1 ke1 ab1 p1 r1 s1], y as [k2 ke2 ab2 p2 r2 s2].
    cbn in K, Ke, A, P, R. subst k2 ke2 ab2 p2 r2.
    destruct o as [n|bs|dl src| |]; cbn in Hn; try discriminate.
    - cbn. unfold peq; cbn; auto 10.
    - unfold sstep, xwrite; cbn. destruct r1; cbn; unfold peq; cbn; auto 10.
    - unfold sstep, XofSM.xxor. cbn [x_kind x_key x_abs x_pos x_reading x_seed]. destruct (Nat.ltb dl (length src)); cbn; unfold peq; cbn; auto 10.
    - cbn. unfold peq; cbn; auto 10.
  Qed.

  (* C19: a clone continues identically to its original under every further
     sequence of reads, writes, key-stream XORs and reseeds *)
  Theorem clone_bisim_gen : forall ops x y,
      peq x y -> forallb no_reset ops = true ->
      snd (srun x ops) = snd (srun y ops) /\ peq (fst (srun x ops)) (fst (srun y ops)).
  Proof.
    induction ops as [|o rest IH]; intros x y Hp Hn.
    - cbn; auto.
    - cbn in Hn. apply andb_prop in Hn. destruct Hn as [Ho Hr].
      destruct (sstep_peq x y o Hp Ho) as [E1 E2].
      cbn [srun].
      destruct (sstep x o) as [x' ob]; destruct (sstep y o) as [y' ob'].
      cbn [fst snd] in *. subst ob'.
      specialize (IH x' y' E2 Hr).
      destruct (srun x' rest) as [x'' l1]; destruct (srun y' rest) as [y'' l2].
      cbn [fst snd] in *. destruct IH as [I1 I2]. subst. auto.
  Qed.

  Theorem clone_bisim : forall ops x,
      forallb no_reset ops = true ->
      snd (srun x ops) = snd (srun (xclone x) ops).
  Proof. intros. apply clone_bisim_gen; auto using peq_clone. Qed.

  (* C19: Reseed makes the XOF writable again *)
  Theorem reseed_writable : forall x bs, xwrite (xreseed x) bs <> None.
  Proof. intros x bs. unfold XofSM.xreseed, xwrite. cbn. discriminate. Qed.

  (* kind and stored seed never change *)
  Lemma sstep_seed x o : x_kind (fst (sstep x o)) = x_kind x /\ x_seed (fst (sstep x o)) = x_seed x.
  Proof.
    destruct o as [n|bs|dl src| |]; cbn; auto.
    - unfold xwrite. destruct (x_reading x); cbn; auto.
    - unfold XofSM.xxor. destruct (Nat.ltb dl (length src)); cbn; auto.
  Qed.

  Lemma srun_seed : forall ops x,
      x_kind (fst (srun x ops)) = x_kind x /\ x_seed (fst (srun x ops)) = x_seed x.
  Proof.
    induction ops as [|o rest IH]; intros x; [cbn; auto|].
    cbn [srun]. pose proof (sstep_seed x o) as [A B].
    destruct (sstep x o) as [x' ob]. specialize (IH x').
    destruct (srun x' rest) as [x'' l]. cbn [fst] in *.
    destruct IH as [C D]. split; congruence.
  Qed.

  (* C19: Reset of an XOF obtained from its factory returns it to the seeded
     initial state, after any history (reads, writes, XORs, reseeds, resets) *)
  Theorem reset_initial : forall k seed ops,
      xreset (fst (srun (xnew k seed) ops)) = xnew k seed.
  Proof.
    intros. unfold xreset. destruct (srun_seed ops (xnew k seed)) as [A B].
    rewrite A, B. reflexivity.
  Qed.

  (* determinism: the whole observable behaviour is a function of kind, seed
     and operation history (trivially, [srun] is a function); stated for the
     record together with "equal seeds and histories give equal outputs". *)
  Theorem determinism : forall k seed ops1 ops2,
      ops1 = ops2 -> snd (srun (xnew k seed) ops1) = snd (srun (xnew k seed) ops2).
  Proof. intros; subst; reflexivity. Qed.

End Proofs.

(* ----------------------------- random.Bits ------------------------------ *)
Local Open Scope Z_scope.

Definition is_byte (b : Z) : Prop := 0 <= b < 256.

Lemma be_decode_acc_spec : forall bs acc,
    be_decode_acc acc bs = acc * 256 ^ Z.of_nat (length bs) + be_decode_acc 0 bs.
Proof.
  induction bs as [|b t IH]; intros acc.
  - cbn. lia.
  - cbn [be_decode_acc length]. rewrite IH. rewrite (IH (0 * 256 + b)).
    rewrite Nat2Z.inj_succ, Z.pow_succ_r by lia. ring.
Qed.

Lemma be_decode_cons b t : be_decode (b :: t) = b * 256 ^ Z.of_nat (length t) + be_decode t.
Proof. unfold be_decode. cbn [be_decode_acc]. rewrite be_decode_acc_spec. ring. Qed.

Lemma be_decode_range : forall bs, Forall is_byte bs ->
    0 <= be_decode bs < 256 ^ Z.of_nat (length bs).
Proof.
  induction bs as [|b t IH]; intros H.
  - cbn. lia.
  - inversion H as [|? ? Hb Ht]; subst. specialize (IH Ht).
    rewrite be_decode_cons. cbn [length]. rewrite Nat2Z.inj_succ, Z.pow_succ_r by lia.
    unfold is_byte in Hb. nia.
Qed.

(* finite sweep over the first byte and the number of high bits *)
Definition mask_ok (b0 hb : Z) : bool :=
  let m := Z.land b0 (Z.ones hb) in
  let e := Z.lor m (Z.shiftl 1 (hb - 1)) in
  (0 <=? m) && (m <? 2 ^ hb) && (2 ^ (hb - 1) <=? e) && (e <? 2 ^ hb).

Definition range (n : nat) : list Z := map Z.of_nat (seq 0 n).

Lemma in_range n z : 0 <= z < Z.of_nat n -> In z (range n).
Proof.
  intros H. unfold range. apply in_map_iff. exists (Z.to_nat z). split; [lia|].
  apply in_seq. lia.
Qed.

Lemma mask_sweep :
  forallb (fun b0 => forallb (fun hb => mask_ok b0 (hb + 1)) (range 7)) (range 256) = true.
Proof. vm_compute. reflexivity. Qed.

Lemma mask_ok_all b0 hb : is_byte b0 -> 1 <= hb <= 7 -> mask_ok b0 hb = true.
Proof.
  intros Hb Hh. pose proof mask_sweep as S.
  rewrite forallb_forall in S. specialize (S b0 (in_range 256 b0 Hb)).
  rewrite forallb_forall in S. specialize (S (hb - 1) (in_range 7 (hb - 1) ltac:(lia))).
  replace (hb - 1 + 1) with hb in S by lia. exact S.
Qed.

Lemma top_sweep :
  forallb (fun b0 => (128 <=? Z.lor b0 128) && (Z.lor b0 128 <? 256)) (range 256) = true.
Proof. vm_compute. reflexivity. Qed.

Lemma top_all b0 : is_byte b0 -> 128 <= Z.lor b0 128 < 256.
Proof.
  intros Hb. pose proof top_sweep as S. rewrite forallb_forall in S.
  specialize (S b0 (in_range 256 b0 Hb)). lia.
Qed.

Lemma firstn_skipn_len {A} n (l : list A) : (n <= length l)%nat ->
    l = firstn n l ++ skipn n l /\ length (firstn n l) = n.
Proof. intros H. split; [symmetry; apply firstn_skipn | apply firstn_length_le; exact H]. Qed.

(* C19: random.Bits returns ceil(bitlen/8) bytes whose big-endian value is below
   2^bitlen, with bit bitlen-1 set when exact (for bitlen >= 1); it consumes
   exactly that many stream bytes and is a function of them alone. *)
Theorem bits_spec : forall bitlen exact s b rest,
    0 <= bitlen -> Forall is_byte s ->
    bits bitlen exact s = Some (b, rest) ->
    let n := Z.to_nat ((bitlen + 7) / 8) in
    length b = n /\
    s = firstn n s ++ rest /\
    0 <= be_decode b < 2 ^ bitlen /\
    (exact = true -> 1 <= bitlen -> 2 ^ (bitlen - 1) <= be_decode b) /\
    (exact = false -> skipn 1 b = skipn 1 (firstn n s)) /\
    (forall s2, firstn n s2 = firstn n s -> (n <= length s2)%nat ->
                exists rest2, bits bitlen exact s2 = Some (b, rest2)).
Proof.
  intros bitlen exact s b rest Hbl Hs H n.
  unfold bits in H. fold n in H.
  destruct (Nat.ltb_spec (length s) n) as [|Hlen]; [discriminate|].
  destruct (firstn_skipn_len n s Hlen) as [Hsplit Hfl].
  assert (Hfb : Forall is_byte (firstn n s)).
  { rewrite Hsplit in Hs. apply Forall_app in Hs. tauto. }
  destruct (firstn n s) as [|b0 bt] eqn:Ef.
  - (* zero bytes requested *)
    inversion H; subst b rest; clear H. cbn [length] in Hfl.
    assert (bitlen = 0).
    { destruct (Z.eq_dec bitlen 0) as [|Hne]; [assumption|exfalso].
      assert (1 <= (bitlen + 7) / 8) by (apply Z.div_le_lower_bound; lia).
      subst n. lia. }
    subst bitlen. repeat split; auto; try (cbn; lia).
    intros s2 E2 L2. unfold bits. cbn. eauto.
  - inversion Hfb as [|? ? Hb0 Hbt]; subst.
    assert (Hnpos : (1 <= n)%nat) by (rewrite <- Hfl; cbn; lia).
    assert (Hbl1 : 1 <= bitlen).
    { destruct (Z.eq_dec bitlen 0) as [->|]; [|lia]. subst n. cbn in Hnpos. lia. }
    pose proof (be_decode_range bt Hbt) as Rbt.
    set (hb := bitlen mod 8) in *.
    assert (Hhb : 0 <= hb < 8) by (apply Z.mod_pos_bound; lia).
    assert (Hlenbt : Z.of_nat (length bt) = (bitlen + 7) / 8 - 1).
    { cbn [length] in Hfl. subst n. lia. }
    (* 256^len bt = 2^(8*len bt) *)
    assert (Hpow : 256 ^ Z.of_nat (length bt) = 2 ^ (8 * Z.of_nat (length bt))).
    { rewrite Z.pow_mul_r by lia. reflexivity. }
    assert (Hdiv : bitlen = 8 * (bitlen / 8) + hb) by (apply Z.div_mod; lia).
    inversion H; subst b rest; clear H.
    split; [cbn [length] in *; lia|].
    split; [exact Hsplit|].
    rewrite be_decode_cons.
    destruct (Z.eqb_spec hb 0) as [Hz|Hnz].
    + (* bitlen multiple of 8: no masking *)
      assert (Hq : (bitlen + 7) / 8 = bitlen / 8).
      { rewrite Hdiv at 1. rewrite Hz. replace (8 * (bitlen / 8) + 0 + 7) with (7 + (bitlen/8) * 8) by ring.
        rewrite Z.div_add by lia. cbn. lia. }
      assert (Hb8 : bitlen = 8 * Z.of_nat (length bt) + 8) by lia.
      assert (P2 : 2 ^ bitlen = 256 * 256 ^ Z.of_nat (length bt)).
      { rewrite Hb8 at 1. rewrite Hpow. rewrite Z.pow_add_r by lia. change (2 ^ 8) with 256. ring. }
      assert (P3 : 2 ^ (bitlen - 1) = 128 * 256 ^ Z.of_nat (length bt)).
      { rewrite Hb8 at 1. rewrite Hpow. replace (8 * Z.of_nat (length bt) + 8 - 1) with (8 * Z.of_nat (length bt) + 7) by lia.
        rewrite Z.pow_add_r by lia. change (2 ^ 7) with 128. ring. }
      pose proof (top_all b0 Hb0) as T. unfold is_byte in Hb0.
      repeat split.
      * destruct exact; nia.
      * destruct exact; rewrite P2; nia.
      * intros ->. intros _. rewrite P3. nia.
      * intros s2 E2 L2. unfold bits. fold n.
        destruct (Nat.ltb_spec (length s2) n); [lia|]. rewrite E2. fold hb.
        destruct (Z.eqb_spec hb 0); [|contradiction]. eauto.
    + assert (Hq : (bitlen + 7) / 8 = bitlen / 8 + 1).
      { rewrite Hdiv at 1. replace (8 * (bitlen / 8) + hb + 7) with ((hb + 7) + (bitlen/8) * 8) by ring.
        rewrite Z.div_add by lia. assert ((hb + 7) / 8 = 1) by (symmetry; apply Z.div_unique with (r := hb - 1); lia). lia. }
      assert (Hb8 : bitlen = 8 * Z.of_nat (length bt) + hb) by lia.
      assert (P2 : 2 ^ bitlen = 2 ^ hb * 256 ^ Z.of_nat (length bt)).
      { rewrite Hb8 at 1. rewrite Hpow. rewrite Z.pow_add_r by lia. ring. }
      assert (P3 : 2 ^ (bitlen - 1) = 2 ^ (hb - 1) * 256 ^ Z.of_nat (length bt)).
      { rewrite Hb8 at 1. rewrite Hpow. replace (8 * Z.of_nat (length bt) + hb - 1) with (8 * Z.of_nat (length bt) + (hb - 1)) by lia.
        rewrite Z.pow_add_r by lia. ring. }
      pose proof (mask_ok_all b0 hb Hb0 ltac:(lia)) as M. unfold mask_ok in M.
      set (m := Z.land b0 (Z.ones hb)) in *.
      set (e := Z.lor m (Z.shiftl 1 (hb - 1))) in *.
      assert (Hm : 0 <= m < 2 ^ hb) by lia.
      assert (He : 2 ^ (hb - 1) <= e < 2 ^ hb) by lia.
      assert (Hp0 : 0 < 2 ^ (hb - 1)) by (apply Z.pow_pos_nonneg; lia).
      repeat split.
      * destruct exact; nia.
      * destruct exact; rewrite P2; nia.
      * intros ->. intros _. rewrite P3. nia.
      * intros s2 E2 L2. unfold bits. fold n.
        destruct (Nat.ltb_spec (length s2) n); [lia|]. rewrite E2. fold hb.
        destruct (Z.eqb_spec hb 0); [contradiction|]. eauto.
Qed.


(* ----------------------------- random.Int ------------------------------- *)

Lemma skipn_skipn' {A} : forall a b (l : list A), skipn a (skipn b l) = skipn (b + a) l.
Proof.
  intros a b. revert a. induction b as [|b IH]; intros a l; [reflexivity|].
  destruct l as [|x t]; cbn [skipn Nat.add]; [destruct a; reflexivity | apply IH].
Qed.

(* candidate number j of the stream: the j-th group of ceil(bitlen/8) bytes,
   masked to bitlen bits, read as a big-endian integer *)
Definition cand (m : Z) (s : list Z) (j : nat) : option Z :=
  let n := Z.to_nat ((bitlen_of m + 7) / 8) in
  match bits (bitlen_of m) false (skipn (j * n) s) with
  | Some (b, _) => Some (be_decode b)
  | None => None
  end.

Lemma bitlen_of_nonneg m : 0 <= bitlen_of m.
Proof. unfold bitlen_of. destruct (Z.leb_spec m 0); [lia|]. pose proof (Z.log2_nonneg m). lia. Qed.

Lemma bits_rest bitlen exact s b rest :
  bits bitlen exact s = Some (b, rest) -> rest = skipn (Z.to_nat ((bitlen + 7) / 8)) s.
Proof.
  unfold bits. destruct (Nat.ltb _ _); [discriminate|].
  destruct (firstn _ s); intros H; inversion H; reflexivity.
Qed.

(* C19: random.Int returns the first candidate below the modulus, unchanged
   (no modular folding, hence no bias); all earlier candidates were >= m; it
   consumes exactly (k+1) candidates' worth of stream bytes. *)
Theorem rand_int_spec : forall fuel m s v rest,
    1 <= m -> Forall is_byte s ->
    rand_int fuel m s = Some (v, rest) ->
    0 <= v < m /\
    exists k : nat,
      (forall j, (j < k)%nat -> exists c, cand m s j = Some c /\ m <= c) /\
      cand m s k = Some v /\
      rest = skipn ((k + 1) * Z.to_nat ((bitlen_of m + 7) / 8)) s.
Proof.
  induction fuel as [|f IH]; intros m s v rest Hm Hs H; [discriminate|].
  cbn [rand_int] in H.
  destruct (bits (bitlen_of m) false s) as [[b r]|] eqn:Eb; [|discriminate].
  pose proof (bitlen_of_nonneg m) as Hbl.
  pose proof (bits_spec _ _ _ _ _ Hbl Hs Eb) as (L & Sp & R & _).
  pose proof (bits_rest _ _ _ _ _ Eb) as Hr.
  set (n := Z.to_nat ((bitlen_of m + 7) / 8)) in *.
  destruct (Z.ltb_spec (be_decode b) m) as [Hlt|Hge].
  - inversion H; subst v rest; clear H. split; [lia|].
    exists 0%nat. split; [intros j Hj; lia|]. split.
    + unfold cand. fold n. cbn [Nat.mul skipn]. rewrite Eb. reflexivity.
    + cbn [Nat.add Nat.mul]. rewrite Nat.add_0_r. exact Hr.
  - assert (Hsr : Forall is_byte r).
    { rewrite Hr. rewrite <- (firstn_skipn n s) in Hs. apply Forall_app in Hs. tauto. }
    destruct (IH m r v rest Hm Hsr H) as (Hv & k & Hrej & Hacc & Hrest).
    split; [exact Hv|]. exists (S k).
    assert (Hshift : forall j, cand m r j = cand m s (S j)).
    { intros j. unfold cand. fold n. rewrite Hr, skipn_skipn'.
      replace (n + j * n)%nat with (S j * n)%nat by lia. reflexivity. }
    split; [|split].
    + intros j Hj. destruct j as [|j].
      * exists (be_decode b). split; [|lia]. unfold cand. fold n. cbn [Nat.mul skipn]. rewrite Eb. reflexivity.
      * rewrite <- Hshift. apply Hrej. lia.
    + rewrite <- Hshift. exact Hacc.
    + rewrite Hrest, Hr, skipn_skipn'. f_equal; lia.
Qed.

(* enough fuel: if some candidate within the first [fuel] ones is below m,
   the loop terminates with a result *)
Theorem rand_int_terminates : forall fuel m s k c,
    cand m s k = Some c -> c < m -> (k < fuel)%nat ->
    (forall j, (j < k)%nat -> cand m s j <> None) ->
    exists v rest, rand_int fuel m s = Some (v, rest).
Proof.
  induction fuel as [|f IH]; intros m s k c Hc Hlt Hk Hall; [lia|].
  cbn [rand_int].
  set (n := Z.to_nat ((bitlen_of m + 7) / 8)).
  destruct k as [|k].
  - unfold cand in Hc. cbn [Nat.mul skipn] in Hc.
    destruct (bits (bitlen_of m) false s) as [[b r]|]; [|discriminate].
    inversion Hc; subst c. destruct (Z.ltb_spec (be_decode b) m); [eauto|lia].
  - pose proof (Hall 0%nat ltac:(lia)) as H0. unfold cand in H0. cbn [Nat.mul skipn] in H0.
    destruct (bits (bitlen_of m) false s) as [[b r]|] eqn:Eb; [|congruence].
    destruct (Z.ltb_spec (be_decode b) m); [eauto|].
    pose proof (bits_rest _ _ _ _ _ Eb) as Hr. fold n in Hr.
    assert (Hshift : forall j, cand m r j = cand m s (S j)).
    { intros j. unfold cand. fold n. rewrite Hr, skipn_skipn'.
      replace (n + j * n)%nat with (S j * n)%nat by lia. reflexivity. }
    apply (IH m r k c); [rewrite Hshift; exact Hc | exact Hlt | lia |].
    intros j Hj. rewrite Hshift. apply Hall. lia.
Qed.

(* ----------------------- multi-reader random stream --------------------- *)
Section RS.
  Variable sha256 : list Z -> list Z.
  Variable out : kind -> list Z -> list Z -> nat -> Z.

  (* the bytes consumed from the readers: at most 32 from each *)
  Definition consumed (readers : list (list Z)) : list Z := flat_map (firstn 32) readers.

  Lemma flat_map_takes readers :
    flat_map (fun t => fst (fst t)) (map reader_take readers) = consumed readers.
  Proof.
    unfold consumed. induction readers as [|r t IH]; [reflexivity|].
    cbn [map flat_map]. rewrite IH. reflexivity.
  Qed.

  Lemma count_failed readers :
    length (filter (fun t => snd (fst t)) (map reader_take readers)) =
    length (filter (fun r => Nat.ltb (length r) 32) readers).
  Proof.
    induction readers as [|r t IH]; [reflexivity|].
    cbn [map filter reader_take fst snd]. destruct (Nat.ltb (length r) 32); cbn [length]; rewrite IH; reflexivity.
  Qed.

  Lemma filter_length_le {A} (f : A -> bool) l : (length (filter f l) <= length l)%nat.
  Proof. induction l as [|a t IH]; cbn; [lia|]. destruct (f a); cbn; lia. Qed.

  Lemma filter_all {A} (f : A -> bool) l :
    length (filter f l) = length l <-> forall a, In a l -> f a = true.
  Proof.
    induction l as [|a t IH]; cbn; [tauto|].
    pose proof (filter_length_le f t).
    destruct (f a) eqn:E; cbn [length]; split.
    - intros H1 b [->|Hb]; [exact E|]. apply IH; [lia|exact Hb].
    - intros H1. f_equal. apply IH. intros b Hb. apply H1. auto.
    - intros H1. lia.
    - intros H1. specialize (H1 a (or_introl eq_refl)). congruence.
  Qed.

  (* C19: the stream's output is a deterministic function of the bytes it
     consumed (it is the BLAKE2Xb stream seeded with SHA-256 of their
     concatenation, which involves every reader's bytes), and it works exactly
     when at least one reader delivers its 32 bytes. *)
  Theorem rs_spec : forall readers src,
      (rs_xor sha256 out readers src = None <->
         forall r, In r readers -> (length r < 32)%nat) /\
      (forall res rest, rs_xor sha256 out readers src = Some (res, rest) ->
         res = xor_bytes src (stream out (xnew Blake2b (sha256 (consumed readers))) 0 (length src)) /\
         rest = map (skipn 32) readers).
  Proof.
    intros readers src. unfold rs_xor. rewrite flat_map_takes, count_failed.
    split.
    - destruct (Nat.eqb_spec (length (filter (fun r => Nat.ltb (length r) 32) readers)) (length readers)) as [E|E].
      + split; [intros _|reflexivity]. intros r Hr. rewrite filter_all in E.
        specialize (E r Hr). apply Nat.ltb_lt in E. exact E.
      + split; [discriminate|]. intros H. exfalso. apply E. apply filter_all.
        intros r Hr. apply Nat.ltb_lt. auto.
    - intros res rest.
      destruct (Nat.eqb _ _); [discriminate|]. intros H; inversion H. split; [reflexivity|].
      rewrite map_map. reflexivity.
  Qed.

  (* two reader sets delivering the same bytes give the same output *)
  Corollary rs_deterministic : forall rs1 rs2 src r1 t1 r2 t2,
      consumed rs1 = consumed rs2 ->
      rs_xor sha256 out rs1 src = Some (r1, t1) ->
      rs_xor sha256 out rs2 src = Some (r2, t2) -> r1 = r2.
  Proof.
    intros rs1 rs2 src r1 t1 r2 t2 Hc H1 H2.
    apply rs_spec in H1. apply rs_spec in H2. destruct H1 as [-> _], H2 as [-> _].
    rewrite Hc. reflexivity.
  Qed.
End RS.
