(* Executable model of kyber's XOFs (xof/blake2xb, xof/blake2xs, xof/keccak),
   of util/random.Bits / Int and of the multi-reader random stream.

   The underlying primitives (BLAKE2Xb/Xs, SHAKE256, SHA-256) are NOT modelled:
   [out kind key absorbed i] is an oracle giving byte [i] of the infinite output
   of the primitive keyed with [key] after absorbing [absorbed].  Every theorem
   is universally quantified over it.  In the correspondence run the oracle is
   a finite table computed by the harness with golang.org/x/crypto directly. *)
From Coq Require Import ZArith List Bool Lia.
Import ListNotations.

Inductive kind := Blake2b | Blake2s | Keccak.

Definition kind_eqb (a b : kind) : bool :=
  match a, b with
  | Blake2b, Blake2b | Blake2s, Blake2s | Keccak, Keccak => true
  | _, _ => false
  end.

(* key size of the keyed primitives; SHAKE has no key: everything is absorbed *)
Definition ksize (k : kind) : nat :=
  match k with Blake2b => 64 | Blake2s => 32 | Keccak => 0 end.

Record xof := mkxof {
  x_kind : kind;
  x_key : list Z;       (* key of the current primitive instance *)
  x_abs : list Z;       (* bytes absorbed so far *)
  x_pos : nat;          (* bytes squeezed so far *)
  x_reading : bool;     (* a Read happened since creation / Reseed / Reset *)
  x_seed : list Z       (* the seed kept for Reset (empty in a Clone) *)
}.

Inductive obs :=
| OUnit
| OBytes (bs : list Z)
| OPanic.

Section Model.
  Variable out : kind -> list Z -> list Z -> nat -> Z.

  (* New(seed): the first [ksize] bytes key the primitive, the rest is absorbed *)
  Definition xnew (k : kind) (seed : list Z) : xof :=
    mkxof k (firstn (ksize k) seed) (skipn (ksize k) seed) 0 false seed.

  Definition stream (x : xof) (from n : nat) : list Z :=
    map (out (x_kind x) (x_key x) (x_abs x)) (seq from n).

  Definition xread (x : xof) (n : nat) : xof * list Z :=
    (mkxof (x_kind x) (x_key x) (x_abs x) (x_pos x + n) true (x_seed x),
     stream x (x_pos x) n).

  (* Write after Read panics in both x/crypto primitives *)
  Definition xwrite (x : xof) (bs : list Z) : option xof :=
    if x_reading x then None
    else Some (mkxof (x_kind x) (x_key x) (x_abs x ++ bs) (x_pos x) false (x_seed x)).

  Definition xor_bytes (a b : list Z) : list Z :=
    map (fun p => Z.lxor (fst p) (snd p)) (combine a b).

  (* XORKeyStream(dst, src): panics when dst is shorter than src *)
  Definition xxor (x : xof) (dstlen : nat) (src : list Z) : option (xof * list Z) :=
    if Nat.ltb dstlen (length src) then None
    else let (x', ks) := xread x (length src) in Some (x', xor_bytes src ks).

  (* Reseed: draw 128 bytes and start a fresh instance seeded with them; the
     seed kept for Reset is unchanged *)
  Definition xreseed (x : xof) : xof :=
    let (x', k) := xread x 128 in
    let y := xnew (x_kind x) k in
    mkxof (x_kind y) (x_key y) (x_abs y) 0 false (x_seed x).

  (* Reset: back to New(seed) for the seed stored in the object *)
  Definition xreset (x : xof) : xof := xnew (x_kind x) (x_seed x).

  (* Clone: same primitive state, no stored seed *)
  Definition xclone (x : xof) : xof :=
    mkxof (x_kind x) (x_key x) (x_abs x) (x_pos x) (x_reading x) [].

  (* ---------------- operation sequences over a pool of XOFs -------------- *)

  Inductive op :=
  | Read (v n : nat)
  | Write (v : nat) (bs : list Z)
  | Xor (v dstlen : nat) (src : list Z)
  | Reseed (v : nat)
  | Reset (v : nat)
  | Clone (v : nat).           (* appends the clone to the pool *)

  Fixpoint upd {A} (l : list A) (i : nat) (a : A) : list A :=
    match l, i with
    | [], _ => []
    | _ :: t, O => a :: t
    | h :: t, S j => h :: upd t j a
    end.

  Definition step (pool : list xof) (o : op) : list xof * obs :=
    match o with
    | Read v n =>
        match nth_error pool v with
        | Some x => let (x', bs) := xread x n in (upd pool v x', OBytes bs)
        | None => (pool, OPanic)
        end
    | Write v bs =>
        match nth_error pool v with
        | Some x => match xwrite x bs with
                    | Some x' => (upd pool v x', OUnit)
                    | None => (pool, OPanic)
                    end
        | None => (pool, OPanic)
        end
    | Xor v dl src =>
        match nth_error pool v with
        | Some x => match xxor x dl src with
                    | Some (x', bs) => (upd pool v x', OBytes bs)
                    | None => (pool, OPanic)
                    end
        | None => (pool, OPanic)
        end
    | Reseed v =>
        match nth_error pool v with
        | Some x => (upd pool v (xreseed x), OUnit)
        | None => (pool, OPanic)
        end
    | Reset v =>
        match nth_error pool v with
        | Some x => (upd pool v (xreset x), OUnit)
        | None => (pool, OPanic)
        end
    | Clone v =>
        match nth_error pool v with
        | Some x => (pool ++ [xclone x], OUnit)
        | None => (pool, OPanic)
        end
    end.

  (* run until the first panic (the harness stops there too) *)
  Fixpoint run (pool : list xof) (ops : list op) : list xof * list obs :=
    match ops with
    | [] => (pool, [])
    | o :: rest =>
        let (p', ob) := step pool o in
        match ob with
        | OPanic => (p', [OPanic])
        | _ => let (p'', obs') := run p' rest in (p'', ob :: obs')
        end
    end.

  (* single-object versions used by the theorems *)
  Fixpoint read_chunks (x : xof) (chunks : list nat) : xof * list Z :=
    match chunks with
    | [] => (x, [])
    | n :: rest =>
        let (x', bs) := xread x n in
        let (x'', bs') := read_chunks x' rest in (x'', bs ++ bs')
    end.

End Model.

(* ------------------------- random.Bits / random.Int ---------------------- *)
Local Open Scope Z_scope.

Fixpoint be_decode_acc (acc : Z) (bs : list Z) : Z :=
  match bs with
  | [] => acc
  | b :: t => be_decode_acc (acc * 256 + b) t
  end.
Definition be_decode (bs : list Z) : Z := be_decode_acc 0 bs.

(* Bits(bitlen, exact, stream): stream is the key stream, consumed left to
   right; None = the (finite) model stream ran out. An empty request with
   exact returns the empty string. *)
Definition bits (bitlen : Z) (exact : bool) (stream : list Z)
  : option (list Z * list Z) :=
  let n := Z.to_nat ((bitlen + 7) / 8) in
  if Nat.ltb (length stream) n then None else
  let b := firstn n stream in
  let rest := skipn n stream in
  let hb := bitlen mod 8 in
  match b with
  | [] => Some ([], rest)
  | b0 :: bt =>
      let b0' := if Z.eqb hb 0 then b0 else Z.land b0 (Z.ones hb) in
      let b0'' := if exact
                  then (if Z.eqb hb 0 then Z.lor b0' 128
                        else Z.lor b0' (Z.shiftl 1 (hb - 1)))
                  else b0' in
      Some (b0'' :: bt, rest)
  end.

(* bit length of a positive integer, as big.Int.BitLen *)
Definition bitlen_of (m : Z) : Z := if Z.leb m 0 then 0 else Z.log2 m + 1.

(* Int(mod, stream): rejection sampling with explicit fuel *)
Fixpoint rand_int (fuel : nat) (m : Z) (stream : list Z) : option (Z * list Z) :=
  match fuel with
  | O => None
  | S f =>
      match bits (bitlen_of m) false stream with
      | None => None
      | Some (b, rest) =>
          let v := be_decode b in
          if Z.ltb v m then Some (v, rest) else rand_int f m rest
      end
  end.

(* ------------------------- multi-reader random stream -------------------- *)

(* A reader is the list of bytes it can still deliver. ReadFull(32): delivers
   min(32, available) bytes and fails when fewer than 32 were available. *)
Definition reader_take (r : list Z) : list Z * bool * list Z :=
  (firstn 32 r, Nat.ltb (length r) 32, skipn 32 r)%nat.

Section RandStream.
  Variable sha256 : list Z -> list Z.
  Variable out : kind -> list Z -> list Z -> nat -> Z.

  (* XORKeyStream(dst, src) with len dst = len src = n.
     None = panic (all readers failed; or no reader at all, which cannot be
     constructed through New). *)
  Definition rs_xor (readers : list (list Z)) (src : list Z)
    : option (list Z * list (list Z)) :=
    let takes := map reader_take readers in
    let buf := flat_map (fun t => fst (fst t)) takes in
    let nerr := length (filter (fun t => snd (fst t)) takes) in
    if Nat.eqb nerr (length readers) then None
    else
      let seed := sha256 buf in
      let x := xnew Blake2b seed in
      Some (xor_bytes src (stream out x 0%nat (length src)), map snd takes).
End RandStream.
