(* Runner for the C19 correspondence: evaluates the model on the cases the
   harness wrote and lists the cases whose observations differ. Not used by
   any theorem. *)
From Coq Require Import ZArith List Bool.
From Kyber Require Import Xof.XofSM.
Import ListNotations.
Local Open Scope Z_scope.

Fixpoint list_eqb (a b : list Z) : bool :=
  match a, b with
  | [], [] => true
  | x :: a', y :: b' => Z.eqb x y && list_eqb a' b'
  | _, _ => false
  end.

Definition kind_of (k : Z) : kind :=
  if k =? 0 then Blake2b else if k =? 1 then Blake2s else Keccak.

(* oracle table: (kind, key, absorbed, output prefix) *)
Definition entry := (Z * list Z * list Z * list Z)%type.

Fixpoint lookup (tbl : list entry) (k : kind) (key ab : list Z) (i : nat) : Z :=
  match tbl with
  | [] => -1
  | (k', key', ab', o) :: t =>
      if kind_eqb k (kind_of k') && list_eqb key key' && list_eqb ab ab'
      then nth i o (-1) else lookup t k key ab i
  end.

Definition obs_eqb (a b : obs) : bool :=
  match a, b with
  | OUnit, OUnit => true
  | OPanic, OPanic => true
  | OBytes x, OBytes y => list_eqb x y
  | _, _ => false
  end.

Fixpoint obs_list_eqb (a b : list obs) : bool :=
  match a, b with
  | [], [] => true
  | x :: a', y :: b' => obs_eqb x y && obs_list_eqb a' b'
  | _, _ => false
  end.

(* wire constructors (indices and sizes arrive as Z) *)
Definition rd (v n : Z) := Read (Z.to_nat v) (Z.to_nat n).
Definition wr (v : Z) (b : list Z) := Write (Z.to_nat v) b.
Definition xr (v dl : Z) (src : list Z) := Xor (Z.to_nat v) (Z.to_nat dl) src.
Definition rs (v : Z) := Reseed (Z.to_nat v).
Definition rt (v : Z) := Reset (Z.to_nat v).
Definition cl (v : Z) := Clone (Z.to_nat v).

Inductive case :=
| CXof (id : Z) (tbl : list entry) (k : Z) (seed : list Z) (ops : list op) (observed : list obs)
| CBits (id : Z) (bitlen : Z) (exact : bool) (stream : list Z) (observed : option (list Z))
| CInt (id : Z) (m : Z) (stream : list Z) (value consumed : Z)
| CRS (id : Z) (tbl : list entry) (sha : list (list Z * list Z)) (readers : list (list Z))
      (srclen : Z) (observed : option (list Z)).

Fixpoint sha_lookup (t : list (list Z * list Z)) (x : list Z) : list Z :=
  match t with
  | [] => [-1]
  | (i, o) :: r => if list_eqb i x then o else sha_lookup r x
  end.

Definition opt_eqb (a b : option (list Z)) : bool :=
  match a, b with
  | None, None => true
  | Some x, Some y => list_eqb x y
  | _, _ => false
  end.

Definition check (c : case) : option Z :=
  match c with
  | CXof id tbl k seed ops observed =>
      let '(_, o) := run (lookup tbl) [xnew (kind_of k) seed] ops in
      if obs_list_eqb o observed then None else Some id
  | CBits id bl ex st observed =>
      let r := match bits bl ex st with Some (b, _) => Some b | None => None end in
      if opt_eqb r observed then None else Some id
  | CInt id m st v consumed =>
      match rand_int (Z.to_nat 10000) m st with
      | Some (v', rest) =>
          if (v' =? v) && (Z.of_nat (length st - length rest) =? consumed) then None else Some id
      | None => Some id
      end
  | CRS id tbl sha readers srclen observed =>
      let src := repeat 0 (Z.to_nat srclen) in
      let r := match rs_xor (sha_lookup sha) (lookup tbl) readers src with
               | Some (b, _) => Some b | None => None end in
      if opt_eqb r observed then None else Some id
  end.

Definition mismatches (cs : list case) : list Z :=
  flat_map (fun c => match check c with Some i => [i] | None => [] end) cs.
