(* Runner for the C05 correspondence: executes the transcriptions (aliased
   semantics, discrete-log interpretation) on the programs the harness ran on
   the implementation and lists the cases whose observations differ.  Not used
   by any theorem. *)
From Coq Require Import ZArith List Bool Arith.
From Kyber Require Import Heap.Store Heap.AliasSem Heap.Transcr Heap.TranscrProofs.
Import ListNotations.
Local Open Scope Z_scope.

Definition impl_of (z : Z) : option impl :=
  nth_error [Ed25519Point; Ed25519Scalar; VtProj; VtExt; ModInt; P256Point; Residue;
             BnCurve; BnGT; KilicG; KilicGT; CirclG; CirclGT; CirclScalar;
             GnarkG; GnarkGT; GnarkScalar] (Z.to_nat z).

Fixpoint list_eqb (a b : list Z) : bool :=
  match a, b with
  | [], [] => true
  | x :: a', y :: b' => Z.eqb x y && list_eqb a' b'
  | _, _ => false
  end.

(* one program: group order, point / scalar implementation, pool sizes, initial
   values, calls (method, cells of receiver and operands, outside value), and per
   call the observed value of every pool cell followed by the returned value *)
Inductive case :=
| CProg (id q pimpl simpl np ns : Z) (init : list Z)
        (calls : list (Z * list Z * Z)) (observed : list (list Z)).

Section R.
  Variable q : Z.
  Variable pimpl simpl : impl.
  Variable np ns : nat.

  Definition cell_vf (c : nat) : nat := if Nat.ltb c np then vf pimpl else vf simpl.

  Definition obs (s : store Z) (c : nat) : Z :=
    assemble (map (s c) (seq 0 (cell_vf c))).

  Definition init_store (init : list Z) : store Z :=
    fun c f => if Nat.ltb f (cell_vf c) then nth c init junk else 0.

  Definition variant_of (m a b : Z) : Z :=
    if m =? M_ADD then (if a =? 0 then 1 else if b =? 0 then 2 else if a =? b then 3 else 0)
    else if m =? M_SUB then (if a =? 0 then 1 else if b =? 0 then 2 else if (a + b) mod q =? 0 then 3 else 0)
    else 0.

  Definition run_call (s : store Z) (c : Z * list Z * Z) : store Z * Z :=
    let '(m, envl, orc) := c in
    let e : env := fun v => Z.to_nat (nth v envl 0) in
    let i := if m <? 20 then pimpl else simpl in
    let v := variant_of m (obs s (e 1%nat)) (obs s (e 2%nat)) in
    let mt := transcr i v m in
    let r := run_aliased Z opn (dl_interp q orc) junk mt e s in
    let rv := assemble (map (ret_val Z opn junk mt e r) (seq 0 (vf i))) in
    (fst r, rv).

  Fixpoint run_calls (s : store Z) (cs : list (Z * list Z * Z)) (observed : list (list Z)) : bool :=
    match cs, observed with
    | [], [] => true
    | c :: cs', o :: os' =>
        let '(s', rv) := run_call s c in
        list_eqb (map (obs s') (seq 0 (np + ns)) ++ [rv]) o && run_calls s' cs' os'
    | _, _ => false
    end.
End R.

Definition known_method (m : Z) : bool :=
  match meth_of all_meths m with Some _ => true | None => false end.

Definition check (c : case) : option Z :=
  match c with
  | CProg id q pi si np ns init calls observed =>
      match impl_of pi, impl_of si with
      | Some p, Some s =>
          if forallb (fun c => known_method (fst (fst c))) calls &&
             run_calls q p s (Z.to_nat np) (Z.to_nat ns)
                       (init_store p s (Z.to_nat np) init) calls observed
          then None else Some id
      | _, _ => Some id
      end
  end.

Definition mismatches (cs : list case) : list Z :=
  flat_map (fun c => match check c with Some i => [i] | None => [] end) cs.
