(* C05 - every transcribed method of every implementation has value semantics;
   the pre-repair / defective variants do not (concrete witnesses). *)
From Coq Require Import ZArith List Bool Arith Lia.
From Kyber Require Import Heap.Store Heap.AliasSem Heap.AliasProofs Heap.Transcr.
Import ListNotations.

(* methods and Add-path variants as finite enumerations *)
Inductive meth :=
| MAdd | MSub | MNeg | MMul | MMulBase | MNull | MBase | MSet | MClone | MPick | MEmbed
| SAdd | SSub | SNeg | SMul | SDiv | SInv | SOne | SZero | SSetInt | SPick | SSetBytes | SSet | SClone.

Definition mid (m : meth) : Z :=
  match m with
  | MAdd => M_ADD | MSub => M_SUB | MNeg => M_NEG | MMul => M_MUL | MMulBase => M_MULBASE
  | MNull => M_NULL | MBase => M_BASE | MSet => M_SET | MClone => M_CLONE | MPick => M_PICK | MEmbed => M_EMBED
  | SAdd => S_ADD | SSub => S_SUB | SNeg => S_NEG | SMul => S_MUL | SDiv => S_DIV | SInv => S_INV
  | SOne => S_ONE | SZero => S_ZERO | SSetInt => S_SETINT | SPick => S_PICK | SSetBytes => S_SETBYTES
  | SSet => S_SET | SClone => S_CLONE
  end.

Definition all_meths : list meth :=
  [MAdd; MSub; MNeg; MMul; MMulBase; MNull; MBase; MSet; MClone; MPick; MEmbed;
   SAdd; SSub; SNeg; SMul; SDiv; SInv; SOne; SZero; SSetInt; SPick; SSetBytes; SSet; SClone].

Fixpoint meth_of (l : list meth) (z : Z) : option meth :=
  match l with
  | [] => None
  | m :: r => if Z.eqb (mid m) z then Some m else meth_of r z
  end.

Inductive variant := VGeneric | VInfA | VInfB | VDouble.
Definition vid (v : variant) : Z :=
  match v with VGeneric => 0 | VInfA => 1 | VInfB => 2 | VDouble => 3 end%Z.

Section P.
  Variable val : Type.
  Variable interp : opn -> list val -> val.
  Variable dflt : val.

  Lemma vt_mul_branches_3 : branch_equiv val opn interp (vt_mul_temp 3 3) (vt_mul_inplace 3 3).
  Proof.
    intros s ts c f.
    destruct c as [|[|[|c]]]; destruct f as [|[|[|[|f]]]]; reflexivity.
  Qed.

  Lemma vt_mul_branches_4 : branch_equiv val opn interp (vt_mul_temp 4 4) (vt_mul_inplace 4 4).
  Proof.
    intros s ts c f.
    destruct c as [|[|[|c]]]; destruct f as [|[|[|[|[|f]]]]]; reflexivity.
  Qed.

  (* every mutating method of every implementation, on every Add path *)
  Theorem all_methods_ok : forall (i : impl) (v : variant) (m : meth),
      method_ok val opn interp (transcr i (vid v) (mid m)).
  Proof.
    intros i v m.
    destruct i; destruct m; destruct v;
      try (split; [reflexivity | vm_compute; reflexivity]);
      (split; [reflexivity|]; cbn [m_test transcr transcr0 vtproj vtext with_distinct mid vid];
       split; [discriminate|]; split; [vm_compute; reflexivity|]; split; [vm_compute; reflexivity|]);
      first [apply vt_mul_branches_3 | apply vt_mul_branches_4].
  Qed.

  Theorem all_methods_value_semantics : forall i v m,
      value_semantics val opn interp dflt (transcr i (vid v) (mid m)).
  Proof. intros. apply method_ok_value_semantics. apply all_methods_ok. Qed.
End P.
