(* Memory-level model shared by C05 (value semantics / aliasing) and C20
   (read-only sharing).  Definitions only.

   A mutating method of a point or scalar implementation is transcribed as a
   straight-line micro-program over *cells with fields*: every API variable
   (receiver = variable 0, operands = 1, 2, ...) denotes a cell; an
   instruction either computes a temporary from temporaries and field reads,
   or writes a field of a variable's cell.  Instructions appear in source
   order, so "the receiver's X is overwritten before the operand's X is read
   for the last time" is visible.  The arithmetic itself is abstract: [interp]
   is an arbitrary interpretation of operation names, the theorems hold for
   every interpretation. *)
From Coq Require Import ZArith List Bool Arith Lia.
Import ListNotations.

Definition var := nat.     (* 0 = receiver, 1.. = operands *)
Definition field := nat.
Definition tmp := nat.
Definition cell := nat.
Definition loc := (cell * field)%type.

Definition recv : var := 0%nat.

Inductive arg := ATmp (t : tmp) | AFld (v : var) (f : field).

Section Sem.
  Variable val : Type.
  Variable opn : Type.
  Variable interp : opn -> list val -> val.

  Inductive instr :=
  | ILet (t : tmp) (o : opn) (args : list arg)             (* t := o(args) *)
  | ISet (v : var) (f : field) (o : opn) (args : list arg). (* v.f := o(args) *)

  Definition store := cell -> field -> val.
  Definition temps := tmp -> val.
  Definition env := var -> cell.

  Definition upd_store (s : store) (c : cell) (f : field) (x : val) : store :=
    fun c' f' => if (Nat.eqb c' c && Nat.eqb f' f)%bool then x else s c' f'.

  Definition upd_tmp (ts : temps) (t : tmp) (x : val) : temps :=
    fun t' => if Nat.eqb t' t then x else ts t'.

  Definition eval_arg (e : env) (s : store) (ts : temps) (a : arg) : val :=
    match a with
    | ATmp t => ts t
    | AFld v f => s (e v) f
    end.

  Definition exec_instr (e : env) (st : store * temps) (i : instr) : store * temps :=
    let '(s, ts) := st in
    match i with
    | ILet t o args => (s, upd_tmp ts t (interp o (map (eval_arg e s ts) args)))
    | ISet v f o args => (upd_store s (e v) f (interp o (map (eval_arg e s ts) args)), ts)
    end.

  Definition exec (e : env) (p : list instr) (st : store * temps) : store * temps :=
    fold_left (exec_instr e) p st.

  (* ---------------------------------------------------------------- footprints *)

  Definition arg_reads (e : env) (a : arg) : list loc :=
    match a with ATmp _ => [] | AFld v f => [(e v, f)] end.

  Definition instr_args (i : instr) : list arg :=
    match i with ILet _ _ a => a | ISet _ _ _ a => a end.

  Definition reads_of (e : env) (i : instr) : list loc :=
    flat_map (arg_reads e) (instr_args i).

  Definition writes_of (e : env) (i : instr) : list loc :=
    match i with ILet _ _ _ => [] | ISet v f _ _ => [(e v, f)] end.

  Definition prog_reads (e : env) (p : list instr) : list loc := flat_map (reads_of e) p.
  Definition prog_writes (e : env) (p : list instr) : list loc := flat_map (writes_of e) p.

  (* ---------------------------------------------------------------- threads *)

  Record thread := { t_env : env; t_tmp : temps; t_code : list instr }.
  Definition pool := nat -> thread.

  (* one step of the interleaving semantics: some thread executes its next
     instruction atomically on the shared store *)
  Inductive step : store * pool -> store * pool -> Prop :=
  | step_i : forall s P i ins rest s' ts' P',
      t_code (P i) = ins :: rest ->
      exec_instr (t_env (P i)) (s, t_tmp (P i)) ins = (s', ts') ->
      (forall j, j <> i -> P' j = P j) ->
      P' i = {| t_env := t_env (P i); t_tmp := ts'; t_code := rest |} ->
      step (s, P) (s', P').

  Inductive steps : store * pool -> store * pool -> Prop :=
  | steps_refl : forall c, steps c c
  | steps_snoc : forall c1 c2 c3, steps c1 c2 -> step c2 c3 -> steps c1 c3.

  Definition finished (P : pool) : Prop := forall i, t_code (P i) = [].

  (* thread i's whole footprint *)
  Definition t_reads (P : pool) (i : nat) : list loc := prog_reads (t_env (P i)) (t_code (P i)).
  Definition t_writes (P : pool) (i : nat) : list loc := prog_writes (t_env (P i)) (t_code (P i)).

  (* no thread writes a location another thread reads or writes *)
  Definition noninterfering (P : pool) : Prop :=
    forall i j l, i <> j -> In l (t_writes P i) -> ~ In l (t_reads P j) /\ ~ In l (t_writes P j).

  (* a data race in a configuration: two distinct threads whose next
     instructions touch the same location, one of them writing it *)
  Definition race_now (P : pool) : Prop :=
    exists i j ii ri ij rj l, i <> j /\
      t_code (P i) = ii :: ri /\ t_code (P j) = ij :: rj /\
      In l (writes_of (t_env (P i)) ii) /\
      (In l (reads_of (t_env (P j)) ij) \/ In l (writes_of (t_env (P j)) ij)).

  (* running thread i alone from the initial store *)
  Definition solo (P : pool) (s0 : store) (i : nat) : store * temps :=
    exec (t_env (P i)) (t_code (P i)) (s0, t_tmp (P i)).

  (* sequential execution of threads 0 .. n-1, one after the other *)
  Fixpoint seq_run (P : pool) (n : nat) (s0 : store) : store :=
    match n with
    | O => s0
    | S k => fst (solo P (seq_run P k s0) k)
    end.
End Sem.

Arguments ILet {opn}.
Arguments ISet {opn}.
