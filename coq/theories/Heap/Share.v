(* C05 - Clone / Set independence.  Objects whose fields are reached through
   pointers (big.Int limb arrays, *PointG1, *curvePoint, ...): a field of an
   object is bound to an address, the value lives at the address.  A copy can
   bind its field to a FRESH address holding the same value (deep) or to the
   SAME address (struct copy of a big.Int / pointer copy: shallow).  After a
   deep copy no in-place write or rebinding applied to one object changes the
   other; after a shallow copy an in-place write to the source is seen by the
   copy. *)
From Coq Require Import ZArith List Bool Arith Lia.
From Kyber Require Import Heap.Store.
Import ListNotations.

Definition obj := nat.
Definition addr := nat.

Section H.
  Variable val : Type.

  Record heap := { bind : obj -> field -> addr; mem : addr -> val; next : addr }.

  Definition look (h : heap) (o : obj) (f : field) : val := mem h (bind h o f).

  Definition write (h : heap) (o : obj) (f : field) (x : val) : heap :=
    {| bind := bind h;
       mem := fun a => if Nat.eqb a (bind h o f) then x else mem h a;
       next := next h |}.

  Definition rebind (h : heap) (o : obj) (f : field) (x : val) : heap :=
    {| bind := fun o' f' => if (Nat.eqb o' o && Nat.eqb f' f)%bool then next h else bind h o' f';
       mem := fun a => if Nat.eqb a (next h) then x else mem h a;
       next := S (next h) |}.

  Definition share (h : heap) (o : obj) (f : field) (src : obj) (g : field) : heap :=
    {| bind := fun o' f' => if (Nat.eqb o' o && Nat.eqb f' f)%bool then bind h src g else bind h o' f';
       mem := mem h; next := next h |}.

  (* operations a later method can perform on an object *)
  Inductive hop :=
  | HWrite (o : obj) (f : field) (x : val)            (* in place, through the pointer: z.SetInt64(1), p.g.Set(..) *)
  | HRebind (o : obj) (f : field) (x : val)           (* P.x = new(big.Int)..., k.p = fresh *)
  | HShare (o : obj) (f : field) (src : obj) (g : field).  (* P.Int = Q.Int, k.p = q.p *)

  Definition hop_target (o : hop) : obj :=
    match o with HWrite t _ _ => t | HRebind t _ _ => t | HShare t _ _ _ => t end.
  Definition hop_deep (o : hop) : Prop := match o with HShare _ _ _ _ => False | _ => True end.

  Definition run_hop (h : heap) (o : hop) : heap :=
    match o with
    | HWrite t f x => write h t f x
    | HRebind t f x => rebind h t f x
    | HShare t f s g => share h t f s g
    end.
  Definition run_hops (ops : list hop) (h : heap) : heap := fold_left run_hop ops h.

  Definition deep_copy (dst src : obj) (fs : list field) (h : heap) : heap :=
    fold_left (fun h f => rebind h dst f (look h src f)) fs h.
  Definition shallow_copy (dst src : obj) (fs : list field) (h : heap) : heap :=
    fold_left (fun h f => share h dst f src f) fs h.

  Definition wf (h : heap) : Prop := forall o f, bind h o f < next h.
  Definition separated (h : heap) (a b : obj) : Prop := forall f g, bind h a f <> bind h b g.

  (* ---------------------------------------------------------------- lemmas *)

  Lemma wf_write : forall h o f x, wf h -> wf (write h o f x).
  Proof. intros h o f x H o' f'. simpl. apply H. Qed.

  Lemma wf_rebind : forall h o f x, wf h -> wf (rebind h o f x).
  Proof.
    intros h o f x H o' f'. simpl. destruct (Nat.eqb o' o && Nat.eqb f' f); [lia|].
    specialize (H o' f'). lia.
  Qed.

  Lemma look_rebind_same : forall h o f x, look (rebind h o f x) o f = x.
  Proof. intros. unfold look. simpl. repeat (rewrite Nat.eqb_refl; simpl). reflexivity. Qed.

  Lemma look_rebind_other : forall h o f x o' f', wf h -> (o' <> o \/ f' <> f) ->
      look (rebind h o f x) o' f' = look h o' f'.
  Proof.
    intros h o f x o' f' H Hne. unfold look. simpl.
    assert (E : (Nat.eqb o' o && Nat.eqb f' f)%bool = false).
    { destruct Hne as [Hn|Hn]; [apply Nat.eqb_neq in Hn; rewrite Hn; reflexivity|
                                apply Nat.eqb_neq in Hn; rewrite Hn; apply andb_false_r]. }
    rewrite E. specialize (H o' f'). destruct (Nat.eqb_spec (bind h o' f') (next h)); [lia|reflexivity].
  Qed.

  Lemma look_write_other : forall h o f x o' f', bind h o' f' <> bind h o f ->
      look (write h o f x) o' f' = look h o' f'.
  Proof.
    intros h o f x o' f' Hne. unfold look. simpl.
    destruct (Nat.eqb_spec (bind h o' f') (bind h o f)); [contradiction|reflexivity].
  Qed.

  Lemma sep_write : forall h o f x a b, separated h a b -> separated (write h o f x) a b.
  Proof. intros h o f x a b H f' g'. simpl. apply H. Qed.

  Lemma sep_rebind : forall h o f x a b, wf h -> separated h a b -> a <> b -> separated (rebind h o f x) a b.
  Proof.
    intros h o f x a b Hw H Hab f' g'. simpl.
    destruct (Nat.eqb a o && Nat.eqb f' f) eqn:E1; destruct (Nat.eqb b o && Nat.eqb g' f) eqn:E2.
    - apply andb_prop in E1. apply andb_prop in E2. destruct E1 as [E1 _], E2 as [E2 _].
      apply Nat.eqb_eq in E1. apply Nat.eqb_eq in E2. congruence.
    - specialize (Hw b g'). lia.
    - specialize (Hw a f'). lia.
    - apply H.
  Qed.

  (* one deep operation on src or dst: invariant and frame *)
  Lemma hop_inv : forall h o src dst, wf h -> separated h src dst -> src <> dst -> hop_deep o ->
      wf (run_hop h o) /\ separated (run_hop h o) src dst.
  Proof.
    intros h [t f x|t f x|t f s g] src dst Hw Hs Hne Hd; simpl in *.
    - split; [apply wf_write | apply sep_write]; assumption.
    - split; [apply wf_rebind | apply sep_rebind]; assumption.
    - contradiction.
  Qed.

  Lemma hop_frame : forall h o a b, wf h -> separated h a b -> a <> b -> hop_deep o -> hop_target o = a ->
      forall f, look (run_hop h o) b f = look h b f.
  Proof.
    intros h [t f x|t f x|t f s g] a b Hw Hs Hne Hd Ht f0; simpl in *; try subst t.
    - apply look_write_other. intro E. apply (Hs f f0). symmetry. exact E.
    - apply look_rebind_other; [assumption | left; congruence].
    - contradiction.
  Qed.

  Lemma sep_sym : forall h a b, separated h a b -> separated h b a.
  Proof. intros h a b H f g E. apply (H g f). symmetry. exact E. Qed.

  Lemma hops_inv : forall ops h src dst, wf h -> separated h src dst -> src <> dst ->
      Forall hop_deep ops ->
      wf (run_hops ops h) /\ separated (run_hops ops h) src dst.
  Proof.
    induction ops as [|o ops IH]; intros h src dst Hw Hs Hne Hd.
    - simpl. auto.
    - inversion Hd; subst. simpl.
      destruct (hop_inv h o src dst Hw Hs Hne H1) as [Hw' Hs'].
      apply IH; assumption.
  Qed.

  Lemma hops_frame : forall ops h a b, wf h -> separated h a b -> a <> b ->
      Forall hop_deep ops -> Forall (fun o => hop_target o = a) ops ->
      forall f, look (run_hops ops h) b f = look h b f.
  Proof.
    induction ops as [|o ops IH]; intros h a b Hw Hs Hne Hd Ht f.
    - reflexivity.
    - pose proof (Forall_inv Hd) as H1. pose proof (Forall_inv_tail Hd) as H2.
      pose proof (Forall_inv Ht) as H3. pose proof (Forall_inv_tail Ht) as H4. simpl.
      destruct (hop_inv h o a b Hw Hs Hne H1) as [Hw' Hs'].
      rewrite (IH _ a b Hw' Hs' Hne H2 H4). apply (hop_frame h o a b); auto.
  Qed.

  (* the deep copy itself *)
  Lemma deep_copy_spec : forall fs h dst src, wf h -> src <> dst ->
      wf (deep_copy dst src fs h) /\
      (forall f, look (deep_copy dst src fs h) src f = look h src f) /\
      (forall f, In f fs -> look (deep_copy dst src fs h) dst f = look h src f) /\
      (forall f g, (In f fs \/ bind h dst f <> bind h src g) -> bind (deep_copy dst src fs h) dst f <> bind (deep_copy dst src fs h) src g).
  Proof.
    induction fs as [|f0 fs IH]; intros h dst src Hw Hne.
    - simpl. repeat split; auto.
      + intros f [].
      + intros f g [[]|H]. exact H.
    - simpl.
      set (h1 := rebind h dst f0 (look h src f0)).
      assert (Hw1 : wf h1) by (apply wf_rebind; exact Hw).
      assert (Hsrc1 : forall f, look h1 src f = look h src f).
      { intros f. apply look_rebind_other; [exact Hw | left; exact Hne]. }
      destruct (IH h1 dst src Hw1 Hne) as [A [B [C D]]].
      repeat split.
      + exact A.
      + intros f. rewrite B. apply Hsrc1.
      + intros f [<-|Hin].
        * destruct (in_dec Nat.eq_dec f0 fs) as [Hi|Hni].
          -- rewrite (C f0 Hi). apply Hsrc1.
          -- (* f0 not copied again: its binding and value survive the remaining rebinds *)
             clear - Hw1 Hne Hni Hsrc1 Hw.
             assert (G : forall fs h', wf h' -> ~ In f0 fs ->
                        look (deep_copy dst src fs h') dst f0 = look h' dst f0).
             { induction fs0 as [|g fs0 IHf]; intros h' Hw' Hn; [reflexivity|].
               simpl. rewrite IHf.
               - apply look_rebind_other; [exact Hw'|]. right. intro; subst. apply Hn. left. reflexivity.
               - apply wf_rebind. exact Hw'.
               - intro. apply Hn. right. assumption. }
             rewrite (G fs h1 Hw1 Hni). unfold h1. apply look_rebind_same.
        * rewrite (C f Hin). apply Hsrc1.
      + intros f g Hor. apply D.
        destruct Hor as [[<-|Hin]|Hb].
        * right. unfold h1. simpl. rewrite !Nat.eqb_refl. simpl.
          destruct (Nat.eqb_spec src dst); [contradiction|]. simpl.
          specialize (Hw src g). lia.
        * left. exact Hin.
        * destruct (Nat.eq_dec f f0) as [->|Hf].
          -- right. unfold h1. simpl. rewrite !Nat.eqb_refl. simpl.
             destruct (Nat.eqb_spec src dst); [contradiction|]. simpl.
             specialize (Hw src g). lia.
          -- right. unfold h1. simpl. apply Nat.eqb_neq in Hf. rewrite Hf, andb_false_r.
             destruct (Nat.eqb_spec src dst); [contradiction|]. simpl. exact Hb.
  Qed.

  (* Clone / Set by deep copy of all the object's pointer fields [fs]; the fields not in [fs] are
     assumed not to be shared with the source beforehand (a fresh object / an independent receiver) *)
  Theorem clone_independent_gen : forall (h : heap) (src dst : obj) (fs : list field) (ops : list hop),
      wf h -> src <> dst ->
      (forall f g, ~ In f fs -> bind h dst f <> bind h src g) ->
      Forall (fun o => hop_target o = src \/ hop_target o = dst) ops -> Forall hop_deep ops ->
      let h1 := deep_copy dst src fs h in
      let h2 := run_hops ops h1 in
      separated h2 src dst /\
      (Forall (fun o => hop_target o = src) ops -> forall f, In f fs -> look h2 dst f = look h src f) /\
      (Forall (fun o => hop_target o = dst) ops -> forall f, look h2 src f = look h src f).
  Proof.
    intros h src dst fs ops Hw Hne Hout Htg Hd. cbv zeta.
    destruct (deep_copy_spec fs h dst src Hw Hne) as [A [B [C D]]].
    assert (Hsep : separated (deep_copy dst src fs h) src dst).
    { intros g f E. destruct (in_dec Nat.eq_dec f fs) as [Hi|Hni].
      - apply (D f g (or_introl Hi)). symmetry. exact E.
      - apply (D f g (or_intror (Hout f g Hni))). symmetry. exact E. }
    destruct (hops_inv ops _ src dst A Hsep Hne Hd) as [Hw2 Hs2].
    repeat split.
    - exact Hs2.
    - intros Hsrc f Hin. rewrite (hops_frame ops _ src dst A Hsep Hne Hd Hsrc). apply C. exact Hin.
    - intros Hdst f. rewrite (hops_frame ops _ dst src A (sep_sym _ _ _ Hsep) (not_eq_sym Hne) Hd Hdst). apply B.
  Qed.

  (* Base / Null / Mul by the base copy a GROUP CONSTANT (object [cst]) into the receiver [p]: when
     the copy is deep, no later write to the receiver changes the constant *)
  Theorem constant_intact : forall (h : heap) (cst p : obj) (fs : list field) (ops : list hop),
      wf h -> cst <> p ->
      (forall f g, ~ In f fs -> bind h p f <> bind h cst g) ->
      Forall (fun o => hop_target o = p) ops -> Forall hop_deep ops ->
      forall f, look (run_hops ops (deep_copy p cst fs h)) cst f = look h cst f.
  Proof.
    intros h cst p fs ops Hw Hne Hout Ht Hd f.
    assert (Ht' : Forall (fun o => hop_target o = cst \/ hop_target o = p) ops).
    { eapply Forall_impl; [|exact Ht]. intros a Ha. right. exact Ha. }
    destruct (clone_independent_gen h cst p fs ops Hw Hne Hout Ht' Hd) as [_ [_ H3]].
    apply H3. exact Ht.
  Qed.
End H.

Arguments HWrite {val}. Arguments HRebind {val}. Arguments HShare {val}.
Arguments look {val}. Arguments run_hops {val}. Arguments deep_copy {val}. Arguments shallow_copy {val}.
Arguments wf {val}. Arguments separated {val}. Arguments hop_target {val}. Arguments hop_deep {val}.
Arguments bind {val}. Arguments mem {val}. Arguments next {val}.
