(* C05 - alias semantics of method transcriptions (definitions).

   A method is run in two ways on the same initial store:
     - aliased: the API variables denote cells through an arbitrary map
       [e : var -> cell] (receiver = operand, both operands equal, ...);
     - fresh:   every variable gets its own cell (cell = variable index)
       initialised with a copy of what the variable denoted.
   The method has value semantics when both runs leave the same value in the
   receiver, no other cell changes, and the receiver is what is returned.

   [check] is a syntactic criterion on a micro-program (proved sound in
   AliasProofs.v): all writes go to the receiver, and no field [f] of a
   non-receiver variable is read after field [f] of the receiver was
   written -- unless the variable is known not to be the receiver ([D]), which
   is what a Go-level test [if G == P] establishes. *)
From Coq Require Import ZArith List Bool Arith Lia.
From Kyber Require Import Heap.Store.
Import ListNotations.

Definition mem_nat (x : nat) (l : list nat) : bool := existsb (Nat.eqb x) l.

Definition arg_ok (D : list var) (W : list field) (a : arg) : bool :=
  match a with
  | ATmp _ => true
  | AFld v f => Nat.eqb v recv || mem_nat v D || negb (mem_nat f W)
  end.

Fixpoint check {opn : Type} (D : list var) (W : list field) (p : list (instr opn)) : bool :=
  match p with
  | [] => true
  | ILet _ _ args :: r => forallb (arg_ok D W) args && check D W r
  | ISet v f _ args :: r => Nat.eqb v recv && forallb (arg_ok D W) args && check D (f :: W) r
  end.

(* what a method returns: the receiver itself, or a freshly allocated object
   whose fields are the listed values (the receiver is then NOT the result) *)
Inductive ret := RRecv | RFresh (fields : list arg).

(* [m_test = Some v]: the code starts with the pointer test "is operand v the
   receiver itself?" and runs [m_alias] if so, [m_body] otherwise *)
Record method (opn : Type) := {
  m_distinct : list var;   (* operands of another Go type than the receiver (the scalar of a point
                              method): they can never be the receiver itself *)
  m_test : option var;
  m_alias : list (instr opn);
  m_body : list (instr opn);
  m_ret : ret
}.
Arguments m_distinct {opn}. Arguments m_test {opn}. Arguments m_alias {opn}. Arguments m_body {opn}. Arguments m_ret {opn}.

Definition plain {opn} (p : list (instr opn)) : method opn :=
  {| m_distinct := []; m_test := None; m_alias := []; m_body := p; m_ret := RRecv |}.

Definition with_distinct {opn} (d : list var) (m : method opn) : method opn :=
  {| m_distinct := d; m_test := m_test m; m_alias := m_alias m; m_body := m_body m; m_ret := m_ret m |}.

(* an aliasing pattern the Go type system allows for the method *)
Definition env_ok {opn} (m : method opn) (e : env) : Prop :=
  forall v, In v (m_distinct m) -> e v <> e recv.

Definition method_code {opn} (m : method opn) (e : env) : list (instr opn) :=
  match m_test m with
  | Some v => if Nat.eqb (e v) (e recv) then m_alias m else m_body m
  | None => m_body m
  end.

Definition id_env : env := fun v => v.

Section Run.
  Variable val : Type.
  Variable opn : Type.
  Variable interp : opn -> list val -> val.
  Variable dflt : val.

  Definition ts0 : temps val := fun _ => dflt.

  (* the method on the real (possibly aliased) variables *)
  Definition run_aliased (m : method opn) (e : env) (s : store val) : store val * temps val :=
    exec val opn interp e (method_code m e) (s, ts0).

  (* the method on fresh, unaliased copies: cell v holds a copy of variable v *)
  Definition copies (e : env) (s : store val) : store val := fun v f => s (e v) f.
  Definition run_fresh (m : method opn) (e : env) (s : store val) : store val * temps val :=
    exec val opn interp id_env (method_code m id_env) (copies e s, ts0).

  (* value of the object the method returns, field by field *)
  Definition ret_val (m : method opn) (e : env) (r : store val * temps val) (f : field) : val :=
    match m_ret m with
    | RRecv => fst r (e recv) f
    | RFresh a => nth f (map (eval_arg val e (fst r) (snd r)) a) dflt
    end.

  (* both branches of an alias test compute the same store on unaliased inputs *)
  Definition branch_equiv (pa pb : list (instr opn)) : Prop :=
    forall s ts c f, fst (exec val opn interp id_env pa (s, ts)) c f = fst (exec val opn interp id_env pb (s, ts)) c f.

  Definition method_ok (m : method opn) : Prop :=
    m_ret m = RRecv /\
    match m_test m with
    | None => check (m_distinct m) [] (m_body m) = true
    | Some v => v <> recv /\ check (v :: m_distinct m) [] (m_body m) = true /\
                check (m_distinct m) [] (m_alias m) = true /\
                branch_equiv (m_alias m) (m_body m)
    end.

  (* the property, for one method *)
  Definition value_semantics (m : method opn) : Prop :=
    forall (e : env) (s : store val), env_ok m e ->
      let r1 := run_aliased m e s in
      let r2 := run_fresh m e s in
      (forall f, fst r1 (e recv) f = fst r2 recv f) /\            (* same result as on fresh copies *)
      (forall f, ret_val m e r1 f = fst r1 (e recv) f) /\          (* receiver = returned value *)
      (forall c f, c <> e recv -> fst r1 c f = s c f) /\           (* nothing but the receiver changes *)
      (forall v f, v <> recv -> fst r2 v f = s (e v) f).

  (* ---------------------------------------------------------------- programs *)

  (* a call: method, and which pool cell each of its variables is *)
  Definition call := (method opn * env)%type.

  Definition step_aliased (s : store val) (c : call) : store val :=
    fst (run_aliased (fst c) (snd c) s).

  (* value semantics: compute on copies, then store the result in the receiver *)
  Definition step_value (s : store val) (c : call) : store val :=
    let r := fst (run_fresh (fst c) (snd c) s) in
    fun c' f => if Nat.eqb c' (snd c recv) then r recv f else s c' f.

  Definition prog_aliased (p : list call) (s : store val) : store val := fold_left step_aliased p s.
  Definition prog_value (p : list call) (s : store val) : store val := fold_left step_value p s.
End Run.
