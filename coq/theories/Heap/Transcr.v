(* C05/C20 - transcriptions of the mutating methods of kyber's point and scalar
   implementations (as repaired), and of the pre-repair / defective variants
   that are refuted in props/C05.v.  Definitions only.

   Operation names.  [Op g ks nchk]: the argument list is split into groups of
   sizes [ks] (group i = the fields read from the i-th operand of the abstract
   group operation [g]), followed by [nchk] "partial results" of the same
   operation (temporaries such as  A = X1*X2  that already mix both operands),
   followed by reads that do not enter the abstract semantics (moduli, curve
   constants, the group pointer).  The theorems of AliasProofs.v hold for every
   interpretation of operation names; [dl_interp] below is the one used to run
   the transcriptions against the implementation (values = discrete logarithms
   / scalar values mod the group order, -1 = torn or undefined value). *)
From Coq Require Import ZArith List Bool Arith Lia.
From Kyber Require Import Heap.Store Heap.AliasSem.
Import ListNotations.
Local Open Scope Z_scope.

Inductive gop :=
| GAdd | GSub | GNeg | GMul | GInv | GDiv | GId | GDbl
| GConst (k : Z)      (* 0 = Null / Zero, 1 = Base / One *)
| GMulAcc             (* acc + s * g *)
| GOrc.               (* value supplied from outside: picked / decoded / SetInt64 *)

Inductive opn := Op (g : gop) (ks : list nat) (nchk : nat).

(* ---------------------------------------------------------------- discrete-log interpretation *)

Definition junk : Z := -1.

Fixpoint all_eq (x : Z) (l : list Z) : bool :=
  match l with [] => true | y :: r => Z.eqb x y && all_eq x r end.

Definition assemble (l : list Z) : Z :=
  match l with
  | [] => junk
  | x :: r => if (0 <=? x) && all_eq x r then x else junk
  end.

Fixpoint split_groups (ks : list nat) (l : list Z) : list Z * list Z :=
  match ks with
  | [] => ([], l)
  | k :: r => let '(gs, rest) := split_groups r (skipn k l) in (assemble (firstn k l) :: gs, rest)
  end.

Section Dl.
  Variable q : Z.     (* group order *)
  Variable orc : Z.   (* the outside value of the current call; for Inv/Div: claimed inverse *)

  Definition gsem (g : gop) (ds : list Z) : Z :=
    match g, ds with
    | GAdd, [a; b] => (a + b) mod q
    | GSub, [a; b] => (a - b) mod q
    | GNeg, [a] => (- a) mod q
    | GMul, [s; p] => (s * p) mod q
    | GDbl, [a] => (2 * a) mod q
    | GId, [a] => a
    | GConst k, [] => k mod q
    | GMulAcc, [acc; s; g] => (acc + s * g) mod q
    | GOrc, _ => orc mod q
    | GInv, [a] => if (a * orc) mod q =? 1 then orc mod q else junk
    | GDiv, [a; b] => if (b * orc) mod q =? 1 then (a * orc) mod q else junk
    | _, _ => junk
    end.

  Definition dl_interp (o : opn) (args : list Z) : Z :=
    let '(Op g ks nchk) := o in
    let '(ds, rest) := split_groups ks args in
    if existsb (fun d => d <? 0) ds then junk else
    let r := gsem g ds in
    if all_eq r (firstn nchk rest) then r else junk.
End Dl.

(* ---------------------------------------------------------------- helpers *)

Arguments AFld v%nat f%nat.
Arguments ATmp t%nat.
Arguments ILet {opn} t%nat o args.
Arguments ISet {opn} v%nat f%nat o args.
Arguments Op g ks nchk%nat.

Definition a1 (f : nat) := AFld 1 f.
Definition a2 (f : nat) := AFld 2 f.
Definition r0 (f : nat) := AFld 0 f.
Definition tm (t : nat) := ATmp t.
Definition flds (v : nat) (n : nat) : list arg := map (AFld v) (seq 0 n).
Arguments a1 f%nat. Arguments a2 f%nat. Arguments r0 f%nat. Arguments tm t%nat. Arguments flds v%nat n%nat.

(* whole-object operations on an object with n value fields, written field by field *)
Definition set_all (n : nat) (g : gop) (ks : list nat) (args : list arg) : list (instr opn) :=
  map (fun f => ISet recv f (Op g ks 0) args) (seq 0 n).
Definition let_all (base n : nat) (g : gop) (ks : list nat) (args : list arg) : list (instr opn) :=
  map (fun f => ILet (base + f) (Op g ks 0) args) (seq 0 n).
Definition tmps (base n : nat) : list arg := map (fun f => ATmp (base + f)) (seq 0 n).
(* recv.f := t(base+f) *)
Definition store_tmps (base n : nat) : list (instr opn) :=
  map (fun f => ISet recv f (Op GId [1%nat] 0) [ATmp (base + f)]) (seq 0 n).
(* field-wise copy recv.f := v.f for f < n *)
Definition copy_fields (v : nat) (fs : list nat) : list (instr opn) :=
  map (fun f => ISet recv f (Op GId [1%nat] 0) [AFld v f]) fs.

Arguments set_all n%nat g ks args. Arguments let_all base%nat n%nat g ks args.
Arguments tmps base%nat n%nat. Arguments store_tmps base%nat n%nat. Arguments copy_fields v%nat fs.

(* the library call  dst.Op(x, y)  on whole objects: one atomic write per value field *)
Definition direct2 (n : nat) (g : gop) : list (instr opn) := set_all n g [n; n] (flds 1 n ++ flds 2 n).
Definition direct1 (n : nat) (g : gop) : list (instr opn) := set_all n g [n] (flds 1 n).
Definition const0 (n : nat) (k : Z) : list (instr opn) := set_all n (GConst k) [] [].
Definition orc0 (n : nat) : list (instr opn) := set_all n GOrc [] [].
(* point.Mul(s, q): scalar value is field 0 of variable 1, point is variable 2 *)
Definition directmul (n : nat) : list (instr opn) := set_all n GMul [1%nat; n] (a1 0 :: flds 2 n).
Definition directmulbase (n : nat) : list (instr opn) :=
  let_all 10 n (GConst 1) [] [] ++ set_all n GMul [1%nat; n] (a1 0 :: tmps 10 n).
(* t := Neg(b) on a fresh object, then dst.Add(a, t) *)
Definition sub_via_neg (n : nat) : list (instr opn) :=
  let_all 10 n GNeg [n] (flds 2 n) ++ set_all n GAdd [n; n] (flds 1 n ++ tmps 10 n).
(* compute into temporaries, then store *)
Definition buffered2 (n : nat) (g : gop) : list (instr opn) :=
  let_all 10 n g [n; n] (flds 1 n ++ flds 2 n) ++ store_tmps 10 n.
Definition buffered1 (n : nat) (g : gop) : list (instr opn) :=
  let_all 10 n g [n] (flds 1 n) ++ store_tmps 10 n.
(* dst.Set(a); dst.NegInPlace() *)
Definition set_then1 (n : nat) (g : gop) : list (instr opn) :=
  copy_fields 1 (seq 0 n) ++ set_all n g [n] (flds 0 n).
(* read-modify-write of the receiver after an outside value was stored (Pick: decode, then multiply by cofactor) *)
Definition orc_then_rmw (n : nat) : list (instr opn) :=
  orc0 n ++ let_all 10 n GId [n] (flds 0 n) ++ store_tmps 10 n.

Arguments direct2 n%nat g. Arguments direct1 n%nat g. Arguments const0 n%nat k%Z. Arguments orc0 n%nat.
Arguments directmul n%nat. Arguments directmulbase n%nat. Arguments sub_via_neg n%nat.
Arguments buffered2 n%nat g. Arguments buffered1 n%nat g. Arguments set_then1 n%nat g. Arguments orc_then_rmw n%nat.

(* ---------------------------------------------------------------- method and implementation ids *)

(* methods (as numbered by the harness) *)
Definition M_ADD := 0. Definition M_SUB := 1. Definition M_NEG := 2. Definition M_MUL := 3.
Definition M_MULBASE := 4. Definition M_NULL := 5. Definition M_BASE := 6. Definition M_SET := 7.
Definition M_CLONE := 8. Definition M_PICK := 9. Definition M_EMBED := 10.
Definition S_ADD := 20. Definition S_SUB := 21. Definition S_NEG := 22. Definition S_MUL := 23.
Definition S_DIV := 24. Definition S_INV := 25. Definition S_ONE := 26. Definition S_ZERO := 27.
Definition S_SETINT := 28. Definition S_PICK := 29. Definition S_SETBYTES := 30.
Definition S_SET := 31. Definition S_CLONE := 32.

Inductive impl :=
| Ed25519Point | Ed25519Scalar | VtProj | VtExt | ModInt | P256Point | Residue
| BnCurve | BnGT | KilicG | KilicGT | CirclG | CirclGT | CirclScalar
| GnarkG | GnarkGT | GnarkScalar.

(* number of value-bearing fields (fields >= vf are auxiliary: modulus, curve / group pointer, t) *)
Definition vf (i : impl) : nat :=
  match i with
  | VtProj => 3 | VtExt => 4 | P256Point => 2 | BnCurve => 3 | BnGT => 2
  | _ => 1
  end%nat.

(* ---------------------------------------------------------------- generic (single-field, library backed) *)

Definition unsupported : method opn := plain [].

(* scalar methods of a single-field implementation; [neg_in_place]: Neg is Set then negate in place;
   Div is  t := Inv(b) on a fresh scalar; recv := Mul(t, a) *)
Definition scalar1 (neg_in_place inv_buffered : bool) (m : Z) : method opn :=
  plain (
    if m =? S_ADD then direct2 1 GAdd else
    if m =? S_SUB then direct2 1 GSub else
    if m =? S_NEG then (if neg_in_place then set_then1 1 GNeg else direct1 1 GNeg) else
    if m =? S_MUL then direct2 1 GMul else
    if m =? S_DIV then [ILet 10 (Op GInv [1%nat] 0) [a2 0]; ISet recv 0 (Op GDiv [1%nat; 1%nat] 0) [a1 0; a2 0; tm 10]] else
    if m =? S_INV then (if inv_buffered then [ILet 10 (Op GInv [1%nat] 0) [a1 0]; ISet recv 0 (Op GId [1%nat] 0) [tm 10]]
                        else direct1 1 GInv) else
    if m =? S_ONE then const0 1 1 else
    if m =? S_ZERO then const0 1 0 else
    if (m =? S_SETINT) || (m =? S_PICK) || (m =? S_SETBYTES) then orc0 1 else
    if (m =? S_SET) || (m =? S_CLONE) then direct1 1 GId else []).

(* point methods of a single-field implementation.
   sub: 0 direct library Sub, 1 Neg on a fresh object then Add
   add: 0 direct, 1 computed in a temporary then stored
   neg: 0 direct, 1 Set then negate in place
   pick: 0 outside value stored, 1 stored then read-modify-write (cofactor), 2 Base then exponentiate in place *)
Definition point1 (add sub neg pick : Z) (m : Z) : method opn :=
  plain (
    if m =? M_ADD then (if add =? 0 then direct2 1 GAdd else buffered2 1 GAdd) else
    if m =? M_SUB then (if sub =? 1 then sub_via_neg 1 else if add =? 0 then direct2 1 GSub else buffered2 1 GSub) else
    if m =? M_NEG then (if neg =? 0 then direct1 1 GNeg else set_then1 1 GNeg) else
    if m =? M_MUL then directmul 1 else
    if m =? M_MULBASE then directmulbase 1 else
    if m =? M_NULL then const0 1 0 else
    if m =? M_BASE then const0 1 1 else
    if (m =? M_SET) || (m =? M_CLONE) then direct1 1 GId else
    if (m =? M_PICK) || (m =? M_EMBED) then
      (if pick =? 0 then orc0 1 else if pick =? 1 then orc_then_rmw 1
       else const0 1 1 ++ [ISet recv 0 (Op GOrc [] 0) [r0 0]]) else []).

(* ---------------------------------------------------------------- mod.Int: V = field 0, M = field 1 *)

Definition setM : instr opn := ISet recv 1 (Op GId [1%nat] 0) [a1 1].
Definition modint (m : Z) : method opn :=
  plain (
    if m =? S_ADD then [setM; ISet recv 0 (Op GAdd [1;1]%nat 0) [a1 0; a2 0; r0 1]] else
    if m =? S_SUB then [setM; ISet recv 0 (Op GSub [1;1]%nat 0) [a1 0; a2 0; r0 1]] else
    if m =? S_NEG then [setM; ILet 10 (Op GId [1%nat] 0) [a1 0]; ISet recv 0 (Op GNeg [1%nat] 0) [a1 0; r0 1]] else
    if m =? S_MUL then [setM; ISet recv 0 (Op GMul [1;1]%nat 0) [a1 0; a2 0; r0 1]] else
    if m =? S_DIV then [setM; ILet 10 (Op GInv [1%nat] 0) [a2 0; r0 1];
                        ISet recv 0 (Op GDiv [1;1]%nat 0) [a1 0; a2 0; tm 10; r0 1]] else
    if m =? S_INV then [setM; ISet recv 0 (Op GInv [1%nat] 0) [a1 0; r0 1]] else
    if m =? S_ONE then const0 1 1 else
    if m =? S_ZERO then const0 1 0 else
    if m =? S_SETINT then [ISet recv 0 (Op GOrc [] 0) []; ISet recv 0 (Op GId [1%nat] 0) [r0 0; r0 1]] else
    if m =? S_PICK then [ILet 10 (Op GOrc [] 0) [r0 1]; ISet recv 0 (Op GId [1%nat] 0) [tm 10]] else
    if m =? S_SETBYTES then [ISet recv 0 (Op GOrc [] 0) []; ISet recv 0 (Op GId [1%nat] 0) [r0 0; r0 1]] else
    if m =? S_SET then [ISet recv 0 (Op GId [1%nat] 0) [a1 0]; setM] else
    if m =? S_CLONE then [ILet 10 (Op GId [1%nat] 0) [a1 1]; ISet recv 1 (Op GId [1%nat] 0) [tm 10];
                          ISet recv 0 (Op GId [1%nat] 0) [a1 0; tm 10]] else []).

(* ---------------------------------------------------------------- edwards25519vartime *)

(* projPoint: X Y Z = 0 1 2, c = 3 (curve pointer: constants a, d, null, base) *)
Definition vtp_addsub (g : gop) : list (instr opn) :=
  let ab f := [a1 f; a2 f] in
  [ ILet 10 (Op g [1;1]%nat 0) [a1 2; a2 2];                 (* A = Z1*Z2 *)
    ILet 11 (Op GId [1%nat] 0) [tm 10];                      (* B = A^2 *)
    ILet 12 (Op g [1;1]%nat 0) [a1 0; a2 0];                 (* C = X1*X2 *)
    ILet 13 (Op g [1;1]%nat 0) [a1 1; a2 1];                 (* D = Y1*Y2 *)
    ILet 14 (Op GId [2%nat] 0) [tm 12; tm 13; r0 3];         (* E = d*C*D *)
    ILet 15 (Op GId [2%nat] 0) [tm 11; tm 14];               (* F *)
    ILet 16 (Op GId [2%nat] 0) [tm 11; tm 14];               (* G *)
    ILet 17 (Op g [2;2]%nat 4) [a1 0; a1 1; a2 0; a2 1; tm 12; tm 13; tm 15; tm 10];   (* X3 *)
    ILet 18 (Op GId [4%nat] 0) [tm 12; tm 13; tm 16; tm 10; r0 3];                     (* Y3 *)
    ILet 19 (Op GId [2%nat] 0) [tm 15; tm 16];                                          (* Z3 *)
    ISet recv 3 (Op GId [1%nat] 0) [a1 3];
    ISet recv 0 (Op GId [1%nat] 0) [tm 17];
    ISet recv 1 (Op GId [1%nat] 0) [tm 18];
    ISet recv 2 (Op GId [1%nat] 0) [tm 19] ].

Definition vt_neg (n c : nat) (negf : list nat) : list (instr opn) :=
  ISet recv c (Op GId [1%nat] 0) [a1 c] ::
  map (fun f => ISet recv f (Op GNeg [1%nat] 0) [a1 f]) (seq 0 n).

Definition vt_set (n c : nat) : list (instr opn) :=
  ISet recv c (Op GId [1%nat] 0) [a1 c] :: copy_fields 1 (seq 0 n).

(* Set(&P.c.null) / Set(&P.c.base): reads the receiver's curve pointer *)
Definition vt_const (n c : nat) (k : Z) : list (instr opn) :=
  map (fun f => ISet recv f (Op (GConst k) [] 0) [r0 c]) (seq 0 n).

Arguments vt_neg n%nat c%nat negf. Arguments vt_set n%nat c%nat. Arguments vt_const n%nat c%nat k%Z.

(* Mul(s, G), G is not the receiver: the receiver is the accumulator
     T.Set(null); loop { T.double(); T.Add(T, G) }                      *)
Definition vt_mul_inplace (n c : nat) : list (instr opn) :=
  vt_const n c 0 ++
  let_all 20 n GMulAcc [n; 1%nat; n] (flds 0 n ++ [a1 0] ++ flds 2 n ++ [r0 c]) ++
  store_tmps 20 n.
(* Mul(s, G) with G == receiver: accumulate in a temporary point, then P.Set(T) *)
Definition vt_mul_temp (n c : nat) : list (instr opn) :=
  let_all 10 n (GConst 0) [] [r0 c] ++
  let_all 20 n GMulAcc [n; 1%nat; n] (tmps 10 n ++ [a1 0] ++ flds 2 n ++ [r0 c]) ++
  store_tmps 20 n.
(* Mul(s, nil) = P.Base().Mul(s, P) *)
Definition vt_mulbase (n c : nat) : list (instr opn) :=
  vt_const n c 1 ++
  let_all 10 n (GConst 0) [] [r0 c] ++
  let_all 20 n GMulAcc [n; 1%nat; n] (tmps 10 n ++ [a1 0] ++ flds 0 n ++ [r0 c]) ++
  store_tmps 20 n.

(* embed: initXY writes c, X, Y, Z; then P.Mul(cofactor, P) through the temporary branch *)
Definition vt_pick (n c : nat) : list (instr opn) :=
  map (fun f => ISet recv f (Op GOrc [] 0) []) (seq 0 n) ++
  let_all 20 n GId [n] (flds 0 n ++ [r0 c]) ++ store_tmps 20 n.

Arguments vt_mul_inplace n%nat c%nat. Arguments vt_mul_temp n%nat c%nat.
Arguments vt_mulbase n%nat c%nat. Arguments vt_pick n%nat c%nat.

Definition vtproj (m : Z) : method opn :=
  if m =? M_MUL then
    {| m_distinct := []; m_test := Some 2%nat; m_alias := vt_mul_temp 3 3; m_body := vt_mul_inplace 3 3; m_ret := RRecv |}
  else plain (
    if m =? M_ADD then vtp_addsub GAdd else
    if m =? M_SUB then vtp_addsub GSub else
    if m =? M_NEG then vt_neg 3 3 [0%nat] else
    if m =? M_MULBASE then vt_mulbase 3 3 else
    if m =? M_NULL then vt_const 3 3 0 else
    if m =? M_BASE then vt_const 3 3 1 else
    if (m =? M_SET) || (m =? M_CLONE) then vt_set 3 3 else
    if (m =? M_PICK) || (m =? M_EMBED) then vt_pick 3 3 else []).

(* extPoint: X Y Z T = 0 1 2 3, c = 4; Add/Sub compute A..H from the operands
   and then write X3 Y3 T3 Z3 (in that order) *)
Definition vte_addsub (g : gop) : list (instr opn) :=
  [ ILet 10 (Op g [1;1]%nat 0) [a1 0; a2 0];                 (* A *)
    ILet 11 (Op g [1;1]%nat 0) [a1 1; a2 1];                 (* B *)
    ILet 12 (Op g [1;1]%nat 0) [a1 3; a2 3; r0 4];           (* C *)
    ILet 13 (Op g [1;1]%nat 0) [a1 2; a2 2];                 (* D *)
    ILet 14 (Op g [2;2]%nat 2) [a1 0; a1 1; a2 0; a2 1; tm 10; tm 11];   (* E *)
    ILet 15 (Op GId [2%nat] 0) [tm 13; tm 12];               (* F *)
    ILet 16 (Op GId [2%nat] 0) [tm 13; tm 12];               (* G *)
    ILet 17 (Op GId [2%nat] 0) [tm 10; tm 11; r0 4];         (* H *)
    ISet recv 0 (Op GId [2%nat] 0) [tm 14; tm 15];
    ISet recv 1 (Op GId [2%nat] 0) [tm 16; tm 17];
    ISet recv 3 (Op GId [2%nat] 0) [tm 14; tm 17];
    ISet recv 2 (Op GId [2%nat] 0) [tm 15; tm 16] ].

Definition vtext (m : Z) : method opn :=
  if m =? M_MUL then
    {| m_distinct := []; m_test := Some 2%nat; m_alias := vt_mul_temp 4 4; m_body := vt_mul_inplace 4 4; m_ret := RRecv |}
  else plain (
    if m =? M_ADD then vte_addsub GAdd else
    if m =? M_SUB then vte_addsub GSub else
    if m =? M_NEG then vt_neg 4 4 [0%nat; 3%nat] else
    if m =? M_MULBASE then vt_mulbase 4 4 else
    if m =? M_NULL then vt_const 4 4 0 else
    if m =? M_BASE then vt_const 4 4 1 else
    if (m =? M_SET) || (m =? M_CLONE) then vt_set 4 4 else
    if (m =? M_PICK) || (m =? M_EMBED) then vt_pick 4 4 else []).

(* ---------------------------------------------------------------- P-256 curvePoint: x y = 0 1, c = 2 *)

(* P.x, P.y = P.c.Add(ca.x, ca.y, cb.x, cb.y): both results computed, then assigned *)
Definition p256 (m : Z) : method opn :=
  plain (
    if m =? M_ADD then let_all 10 2 GAdd [2;2]%nat (flds 1 2 ++ flds 2 2 ++ [r0 2]) ++ store_tmps 10 2 else
    if m =? M_SUB then
      let_all 20 2 GNeg [2%nat] (flds 2 2 ++ [r0 2]) ++
      let_all 10 2 GAdd [2;2]%nat (flds 1 2 ++ tmps 20 2 ++ [r0 2]) ++ store_tmps 10 2 else
    if m =? M_NEG then let_all 10 2 GNeg [2%nat] (flds 1 2 ++ [r0 2]) ++ store_tmps 10 2 else
    if m =? M_MUL then let_all 10 2 GMul [1;2]%nat (a1 0 :: flds 2 2 ++ [r0 2]) ++ store_tmps 10 2 else
    if m =? M_MULBASE then
      let_all 20 2 (GConst 1) [] [r0 2] ++
      let_all 10 2 GMul [1;2]%nat (a1 0 :: tmps 20 2 ++ [r0 2]) ++ store_tmps 10 2 else
    if m =? M_NULL then const0 2 0 else
    if m =? M_BASE then set_all 2 (GConst 1) [] [r0 2] else
    if (m =? M_SET) || (m =? M_CLONE) then copy_fields 1 [0;1]%nat else
    if (m =? M_PICK) || (m =? M_EMBED) then let_all 10 2 GOrc [] [r0 2] ++ store_tmps 10 2 else []).

(* ---------------------------------------------------------------- residue group: Int = 0, g = 1 *)

Definition residue (m : Z) : method opn :=
  let modp := ISet recv 0 (Op GId [1%nat] 0) [r0 0; r0 1] in
  plain (
    if m =? M_ADD then [ISet recv 0 (Op GAdd [1;1]%nat 0) [a1 0; a2 0]; modp] else
    if m =? M_SUB then [ILet 10 (Op GNeg [1%nat] 0) [a2 0; r0 1];
                        ISet recv 0 (Op GAdd [1;1]%nat 0) [a1 0; tm 10]; modp] else
    if m =? M_NEG then [ISet recv 0 (Op GNeg [1%nat] 0) [a1 0; r0 1]] else
    if m =? M_MUL then [ILet 10 (Op GMul [1;1]%nat 0) [a1 0; a2 0; r0 1]; ISet recv 0 (Op GId [1%nat] 0) [tm 10]] else
    if m =? M_MULBASE then [ISet recv 0 (Op (GConst 1) [] 0) [r0 1];
                            ILet 10 (Op GMul [1;1]%nat 0) [a1 0; r0 0; r0 1]; ISet recv 0 (Op GId [1%nat] 0) [tm 10]] else
    if m =? M_NULL then const0 1 0 else
    if m =? M_BASE then [ISet recv 0 (Op (GConst 1) [] 0) [r0 1]] else
    if m =? M_SET then [ISet recv 1 (Op GId [1%nat] 0) [a1 1]; ISet recv 0 (Op GId [1%nat] 0) [a1 0]] else
    if m =? M_CLONE then [ISet recv 1 (Op GId [1%nat] 0) [a1 1]; ISet recv 0 (Op GId [1%nat] 0) [a1 0]] else
    if (m =? M_PICK) || (m =? M_EMBED) then [ISet recv 0 (Op GOrc [] 0) [r0 1]] else []).

(* ---------------------------------------------------------------- bn256 / bn254 curvePoint, twistPoint: x y z t = 0 1 2 3 *)

(* the Jacobian addition  c.Add(a, b); [variant]: 1 a is infinity (c.Set(b)), 2 b is infinity (c.Set(a)),
   3 a = b (c.Double(a)), 0 generic.  In the generic path c.x and c.y are written before a.z and b.z
   are read for the last time. *)
Definition bn_prefix : list (instr opn) :=
  [ ILet 10 (Op GId [1%nat] 0) [a1 2];      (* a.IsInfinity() *)
    ILet 11 (Op GId [1%nat] 0) [a2 2] ].    (* b.IsInfinity() *)
Definition bn_generic_reads (g : gop) : list (instr opn) :=
  [ ILet 12 (Op GId [1%nat] 0) [a1 2];                        (* z12 *)
    ILet 13 (Op GId [1%nat] 0) [a2 2];                        (* z22 *)
    ILet 14 (Op g [1;1]%nat 0) [a1 0; tm 13];                 (* u1 = a.x*z22 *)
    ILet 15 (Op g [1;1]%nat 0) [tm 12; a2 0];                 (* u2 = b.x*z12 *)
    ILet 16 (Op g [1;2]%nat 0) [a1 1; a2 2; tm 13];           (* s1 = a.y*b.z*z22 *)
    ILet 17 (Op g [2;1]%nat 0) [a1 2; tm 12; a2 1];           (* s2 = b.y*a.z*z12 *)
    ILet 18 (Op GId [2%nat] 0) [tm 15; tm 14];                (* h = u2-u1 *)
    ILet 19 (Op GId [2%nat] 0) [tm 17; tm 16] ].              (* t = s2-s1 *)
Definition bn_double : list (instr opn) :=
  [ ILet 20 (Op GDbl [1%nat] 0) [a1 0];                       (* A *)
    ILet 21 (Op GDbl [1%nat] 0) [a1 1];                       (* B, C *)
    ILet 22 (Op GDbl [2%nat] 0) [a1 0; a1 1];                 (* d, e, f *)
    ISet recv 0 (Op GId [3%nat] 0) [tm 20; tm 21; tm 22];
    ISet recv 2 (Op GDbl [2%nat] 0) [a1 1; a1 2];             (* c.z = 2*a.y*a.z *)
    ISet recv 1 (Op GId [3%nat] 0) [tm 20; tm 21; tm 22; r0 0] ].
Definition bn_add (variant : Z) : list (instr opn) :=
  if variant =? 1 then [ILet 10 (Op GId [1%nat] 0) [a1 2]] ++ copy_fields 2 [0;1;2;3]%nat else
  if variant =? 2 then bn_prefix ++ copy_fields 1 [0;1;2;3]%nat else
  if variant =? 3 then bn_prefix ++ bn_generic_reads GAdd ++ bn_double else
  bn_prefix ++ bn_generic_reads GAdd ++
  [ ISet recv 0 (Op GId [4%nat] 0) [tm 14; tm 18; tm 19; tm 16];
    ISet recv 1 (Op GId [4%nat] 0) [tm 14; tm 18; tm 19; tm 16; r0 0];
    ISet recv 2 (Op GAdd [2;2]%nat 1) [a1 2; tm 12; a2 2; tm 13; tm 18] ].
(* c.Neg(a): x, y, z written in turn, t := 0 *)
Definition bn_neg_into_tmps (v : nat) : list (instr opn) :=
  [ ILet 30 (Op GNeg [1%nat] 0) [AFld v 0]; ILet 31 (Op GNeg [1%nat] 0) [AFld v 1];
    ILet 32 (Op GNeg [1%nat] 0) [AFld v 2]; ILet 33 (Op (GConst 0) [] 0) [] ].

Definition bn_add_tmp (variant : Z) : list (instr opn) :=
  (* p.Add(a, q.Neg(b)) with q fresh: the second operand lives in temporaries 30..33 *)
  let b f := ATmp (30 + f) in
  if variant =? 1 then [ILet 10 (Op GId [1%nat] 0) [a1 2]] ++
                       map (fun f => ISet recv f (Op GId [1%nat] 0) [b f]) [0;1;2;3]%nat else
  if variant =? 2 then [ILet 10 (Op GId [1%nat] 0) [a1 2]; ILet 11 (Op GId [1%nat] 0) [b 2%nat]] ++ copy_fields 1 [0;1;2;3]%nat else
  if variant =? 3 then [ILet 10 (Op GId [1%nat] 0) [a1 2]; ILet 11 (Op GId [1%nat] 0) [b 2%nat]] ++ bn_double else
  [ ILet 10 (Op GId [1%nat] 0) [a1 2]; ILet 11 (Op GId [1%nat] 0) [b 2%nat];
    ILet 12 (Op GId [1%nat] 0) [a1 2];
    ILet 14 (Op GAdd [1;1]%nat 0) [a1 0; b 2%nat];
    ILet 15 (Op GAdd [1;1]%nat 0) [a1 2; b 0%nat];
    ILet 16 (Op GAdd [1;1]%nat 0) [a1 1; b 2%nat];
    ILet 17 (Op GAdd [1;1]%nat 0) [a1 2; b 1%nat];
    ISet recv 0 (Op GId [4%nat] 0) [tm 14; tm 15; tm 16; tm 17];
    ISet recv 1 (Op GId [4%nat] 0) [tm 14; tm 15; tm 16; tm 17; r0 0];
    ISet recv 2 (Op GAdd [1;1]%nat 2) [a1 2; b 2%nat; tm 14; tm 15] ].

Definition bncurve (variant : Z) (m : Z) : method opn :=
  plain (
    if m =? M_ADD then bn_add variant else
    if m =? M_SUB then bn_neg_into_tmps 2 ++ bn_add_tmp variant else
    if m =? M_NEG then [ISet recv 0 (Op GNeg [1%nat] 0) [a1 0]; ISet recv 1 (Op GNeg [1%nat] 0) [a1 1];
                        ISet recv 2 (Op GNeg [1%nat] 0) [a1 2]; ISet recv 3 (Op (GConst 0) [] 0) []] else
    (* c.Mul(a, k): sum/t temporaries, all reads of a before c.Set(sum) *)
    if m =? M_MUL then let_all 20 3 GMul [1;3]%nat (a1 0 :: flds 2 3) ++ store_tmps 20 3 ++
                       [ISet recv 3 (Op (GConst 0) [] 0) []] else
    if m =? M_MULBASE then let_all 10 3 (GConst 1) [] [] ++
                       let_all 20 3 GMul [1;3]%nat (a1 0 :: tmps 10 3) ++ store_tmps 20 3 ++
                       [ISet recv 3 (Op (GConst 0) [] 0) []] else
    if m =? M_NULL then const0 3 0 ++ [ISet recv 3 (Op (GConst 0) [] 0) []] else
    if m =? M_BASE then const0 3 1 ++ [ISet recv 3 (Op (GConst 0) [] 0) []] else
    if (m =? M_SET) || (m =? M_CLONE) then copy_fields 1 [0;1;2;3]%nat else
    (* Pick: s.Pick; p.Base(); p.g.Mul(p.g, s)  -- Embed (bn256 G1): x, y, z assigned, then IsOnCurve/MakeAffine in place *)
    if (m =? M_PICK) || (m =? M_EMBED) then
      const0 3 1 ++ let_all 20 3 GOrc [] (flds 0 3) ++ store_tmps 20 3 else []).

(* gfP12 (GT): x y = 0 1; Mul / Exp / Conjugate compute in temporaries and then store x, y *)
Definition bngt (m : Z) : method opn :=
  plain (
    if m =? M_ADD then buffered2 2 GAdd else
    if m =? M_SUB then let_all 30 2 GNeg [2%nat] (flds 2 2) ++
                       let_all 10 2 GAdd [2;2]%nat (flds 1 2 ++ tmps 30 2) ++ store_tmps 10 2 else
    if m =? M_NEG then buffered1 2 GNeg else
    if m =? M_MUL then let_all 10 2 GMul [1;2]%nat (a1 0 :: flds 2 2) ++ store_tmps 10 2 else
    if m =? M_MULBASE then let_all 30 2 (GConst 1) [] [] ++
                       let_all 10 2 GMul [1;2]%nat (a1 0 :: tmps 30 2) ++ store_tmps 10 2 else
    if m =? M_NULL then const0 2 0 else
    if m =? M_BASE then const0 2 1 else
    if (m =? M_SET) || (m =? M_CLONE) then copy_fields 1 [0;1]%nat else
    if m =? M_PICK then const0 2 1 ++ let_all 10 2 GOrc [] (flds 0 2) ++ store_tmps 10 2 else []).

(* ---------------------------------------------------------------- the table *)

(* geScalarMult / geScalarMultVartime(&P.ge, a, &A.ge): table of multiples of A first, h written last *)
Definition ed25519point (m : Z) : method opn :=
  if m =? M_MUL then plain (let_all 10 1 GMul [1;1]%nat [a1 0; a2 0] ++ store_tmps 10 1)
  else point1 1 0 0 1 m.   (* Add/Sub: cached + completed temporaries, then ToExtended(&P.ge) *)

Definition transcr0 (i : impl) (variant : Z) (m : Z) : method opn :=
  match i with
  | Ed25519Point => ed25519point m
  | Ed25519Scalar => scalar1 false true m
  | VtProj => vtproj m
  | VtExt => vtext m
  | ModInt => modint m
  | P256Point => p256 m
  | Residue => residue m
  | BnCurve => bncurve variant m
  | BnGT => bngt m
  | KilicG => point1 0 0 0 0 m
  | KilicGT => point1 0 1 0 0 m             (* Sub (repaired): nb := fresh.Neg(b); k.Add(a, nb) *)
  | CirclG => point1 0 1 1 0 m
  | CirclGT => point1 0 1 0 0 m
  | CirclScalar => scalar1 true false m
  | GnarkG => point1 1 0 0 0 m              (* Add/Sub (repaired): temporary Jacobian point, then assigned *)
  | GnarkGT => point1 0 1 0 0 m
  | GnarkScalar => scalar1 true false m
  end.

(* the scalar operand (variable 1) of Mul is of another Go type than the receiver *)
Definition transcr (i : impl) (variant : Z) (m : Z) : method opn :=
  if (m =? M_MUL) || (m =? M_MULBASE) then with_distinct [1%nat] (transcr0 i variant m)
  else transcr0 i variant m.

(* ---------------------------------------------------------------- defective variants (pre-repair code / typical slips) *)

(* gnark G1/G2 Add before the repair:  p.inner.Set(&a.inner); p.inner.AddAssign(&b.inner) *)
Definition gnark_add_unrepaired (g : gop) : method opn :=
  plain (copy_fields 1 [0%nat] ++ [ISet recv 0 (Op g [1;1]%nat 0) [r0 0; a2 0]]).
(* kilic G1/G2 Null / Base before the repair: a fresh point is returned, the receiver is untouched *)
Definition kilic_const_unrepaired (k : Z) : method opn :=
  {| m_distinct := []; m_test := None; m_alias := []; m_body := [ILet 10 (Op (GConst k) [] 0) []]; m_ret := RFresh [tm 10] |}.
(* kilic GT Sub before the repair: result built in a fresh element and returned *)
Definition kilic_gtsub_unrepaired : method opn :=
  {| m_distinct := []; m_test := None; m_alias := [];
     m_body := [ILet 10 (Op GNeg [1%nat] 0) [a2 0]; ILet 11 (Op GAdd [1;1]%nat 0) [a1 0; tm 10]];
     m_ret := RFresh [tm 11] |}.
(* vartime Mul without the  G == P  test *)
Definition vt_mul_notest : method opn := plain (vt_mul_inplace 3 3).

(* a scalar multiplication that sets its output to the neutral element ("default result") before it
   reads the point operand to build its table: wrong as soon as the receiver is that operand *)
Definition mul_output_cleared_first : method opn :=
  with_distinct [1%nat] (plain (const0 1 0 ++ let_all 10 1 GMul [1;1]%nat [a1 0; a2 0] ++ store_tmps 10 1)).
