(* Runner for the C20 correspondence: for every read-only call the harness made
   it reports which of the shared objects changed in its deep byte-level
   snapshot; a change is only admissible where the transcription has a write.
   Not used by any theorem. *)
From Coq Require Import ZArith List Bool Arith.
From Kyber Require Import Heap.Store Heap.AliasSem Heap.Transcr Heap.TranscrProofs Heap.AliasRun Heap.Footprint.
Import ListNotations.
Local Open Scope Z_scope.

Inductive case :=
| CRead (id impl rm : Z) (changed : list bool)      (* read-only method: variables 0, 1 are the shared objects *)
| COperand (id impl m : Z) (changed : list bool)    (* mutating method with a private receiver (variable 0), shared operands *)
| CObj (id kind : Z) (changed : bool).              (* suite / mask / key / polynomial used read-only: no write at all *)

Fixpoint admissible (ws : list var) (i : nat) (changed : list bool) : bool :=
  match changed with
  | [] => true
  | c :: r => (negb c || mem_nat i ws) && admissible ws (S i) r
  end.

Definition variants := [0; 1; 2; 3].

Definition check (c : case) : option Z :=
  match c with
  | CRead id i rm changed =>
      match impl_of i, rmeth_of all_rmeths rm with
      | Some im, Some r => if admissible (written_vars (ro_prog im r)) 0 changed then None else Some id
      | _, _ => Some id
      end
  | COperand id i m changed =>
      match impl_of i, meth_of all_meths m with
      | Some im, Some _ =>
          let ws := flat_map (fun v => written_vars (method_code (transcr im v m) id_env)) variants in
          (* the receiver (variable 0) is private to the caller *)
          if admissible (filter (fun v => negb (Nat.eqb v recv)) ws) 0 changed then None else Some id
      | _, _ => Some id
      end
  | CObj id _ changed => if changed then Some id else None
  end.

Definition mismatches (cs : list case) : list Z :=
  flat_map (fun c => match check c with Some i => [i] | None => [] end) cs.
