(* C05 - proofs: soundness of the syntactic alias check, per-method value
   semantics, program-level alias independence. *)
From Coq Require Import ZArith List Bool Arith Lia.
From Kyber Require Import Heap.Store Heap.AliasSem.
Import ListNotations.

Section Proofs.
  Variable val : Type.
  Variable opn : Type.
  Variable interp : opn -> list val -> val.
  Variable dflt : val.

  Notation exec := (exec val opn interp).
  Notation exec_instr := (exec_instr val opn interp).
  Notation eval_arg := (eval_arg val).
  Notation upd_store := (upd_store val).
  Notation upd_tmp := (upd_tmp val).

  Lemma mem_nat_spec : forall x l, mem_nat x l = true <-> In x l.
  Proof.
    intros x l. unfold mem_nat. rewrite existsb_exists. split.
    - intros [y [Hy He]]. apply Nat.eqb_eq in He. subst. exact Hy.
    - intros H. exists x. split; [exact H | apply Nat.eqb_refl].
  Qed.

  Lemma mem_nat_false : forall x l, mem_nat x l = false <-> ~ In x l.
  Proof.
    intros x l. rewrite <- mem_nat_spec. destruct (mem_nat x l); split; intros; congruence.
  Qed.

  Lemma exec_cons : forall e i p st, exec e (i :: p) st = exec e p (exec_instr e st i).
  Proof. reflexivity. Qed.

  Lemma exec_let : forall e s ts t o args,
      exec_instr e (s, ts) (ILet t o args) = (s, upd_tmp ts t (interp o (map (eval_arg e s ts) args))).
  Proof. reflexivity. Qed.

  Lemma exec_set : forall e s ts v f o args,
      exec_instr e (s, ts) (ISet v f o args) = (upd_store s (e v) f (interp o (map (eval_arg e s ts) args)), ts).
  Proof. reflexivity. Qed.

  (* ------------------------------------------------ extensionality of exec *)

  Lemma eval_arg_ext : forall e s1 s2 t1 t2 a,
      (forall c f, s1 c f = s2 c f) -> (forall t, t1 t = t2 t) ->
      eval_arg e s1 t1 a = eval_arg e s2 t2 a.
  Proof. intros e s1 s2 t1 t2 [t|v f] Hs Ht; simpl; auto. Qed.

  Lemma exec_instr_ext : forall e i s1 s2 t1 t2,
      (forall c f, s1 c f = s2 c f) -> (forall t, t1 t = t2 t) ->
      (forall c f, fst (exec_instr e (s1, t1) i) c f = fst (exec_instr e (s2, t2) i) c f) /\
      (forall t, snd (exec_instr e (s1, t1) i) t = snd (exec_instr e (s2, t2) i) t).
  Proof.
    intros e i s1 s2 t1 t2 Hs Ht.
    assert (Hm : forall args, map (eval_arg e s1 t1) args = map (eval_arg e s2 t2) args).
    { intros args. apply map_ext. intros a. apply eval_arg_ext; auto. }
    destruct i as [t o args | v f o args]; simpl; split; intros.
    - apply Hs.
    - unfold Store.upd_tmp. rewrite Hm. destruct (Nat.eqb t0 t); auto.
    - unfold Store.upd_store. rewrite Hm. destruct (Nat.eqb c (e v) && Nat.eqb f0 f); auto.
    - apply Ht.
  Qed.

  Lemma exec_ext : forall e p s1 s2 t1 t2,
      (forall c f, s1 c f = s2 c f) -> (forall t, t1 t = t2 t) ->
      (forall c f, fst (exec e p (s1, t1)) c f = fst (exec e p (s2, t2)) c f) /\
      (forall t, snd (exec e p (s1, t1)) t = snd (exec e p (s2, t2)) t).
  Proof.
    intros e p. induction p as [|i p IH]; intros s1 s2 t1 t2 Hs Ht.
    - simpl. auto.
    - rewrite !exec_cons.
      destruct (exec_instr_ext e i s1 s2 t1 t2 Hs Ht) as [H1 H2].
      destruct (exec_instr e (s1, t1) i) as [s1' t1'] eqn:E1.
      destruct (exec_instr e (s2, t2) i) as [s2' t2'] eqn:E2.
      simpl in H1, H2. apply (IH s1' s2' t1' t2' H1 H2).
  Qed.

  (* ------------------------------------------------ frame: only the receiver is written *)

  Lemma check_frame : forall D p W e s ts c f,
      check D W p = true -> c <> e recv ->
      fst (exec e p (s, ts)) c f = s c f.
  Proof.
    intros D p. induction p as [|i p IH]; intros W e s ts c f Hc Hne.
    - reflexivity.
    - rewrite exec_cons. destruct i as [t o args | v g o args]; simpl in Hc.
      + apply andb_prop in Hc. destruct Hc as [_ Hc]. rewrite exec_let.
        apply (IH W e s _ c f Hc Hne).
      + apply andb_prop in Hc. destruct Hc as [Hc Hc2]. apply andb_prop in Hc. destruct Hc as [Hv _].
        apply Nat.eqb_eq in Hv. subst v. rewrite exec_set.
        rewrite (IH (g :: W) e _ ts c f Hc2 Hne).
        unfold Store.upd_store. destruct (Nat.eqb_spec c (e recv)); [contradiction | reflexivity].
  Qed.

  (* ------------------------------------------------ simulation aliased / fresh *)

  (* s1: store of the aliased run (cells); s2: store of the fresh run (cell = variable) *)
  Definition sim (W : list field) (e : env) (s1 s2 : store val) : Prop :=
    (forall f, s1 (e recv) f = s2 recv f) /\
    (forall v f, v <> recv -> ~ In f W -> s1 (e v) f = s2 v f) /\
    (forall v f, e v <> e recv -> s1 (e v) f = s2 v f).

  Lemma arg_ok_eval : forall D W e s1 s2 t1 t2 a,
      (forall v, In v D -> e v <> e recv) ->
      sim W e s1 s2 -> (forall t, t1 t = t2 t) ->
      arg_ok D W a = true ->
      eval_arg e s1 t1 a = eval_arg id_env s2 t2 a.
  Proof.
    intros D W e s1 s2 t1 t2 [t|v f] HD [I1 [I2 I3]] Ht Hok; simpl.
    - apply Ht.
    - unfold id_env. simpl in Hok.
      destruct (Nat.eqb_spec v recv) as [->|Hv].
      + apply I1.
      + simpl in Hok. apply orb_prop in Hok. destruct Hok as [Hd|Hw].
        * apply mem_nat_spec in Hd. apply I3. apply HD. exact Hd.
        * apply negb_true_iff in Hw. apply mem_nat_false in Hw. apply I2; assumption.
  Qed.

  Lemma check_sim : forall D p W e s1 s2 t1 t2,
      (forall v, In v D -> e v <> e recv) ->
      sim W e s1 s2 -> (forall t, t1 t = t2 t) ->
      check D W p = true ->
      (forall f, fst (exec e p (s1, t1)) (e recv) f = fst (exec id_env p (s2, t2)) recv f) /\
      (forall t, snd (exec e p (s1, t1)) t = snd (exec id_env p (s2, t2)) t).
  Proof.
    intros D p. induction p as [|i p IH]; intros W e s1 s2 t1 t2 HD Hsim Ht Hc.
    - simpl. destruct Hsim as [I1 _]. split; auto.
    - rewrite !exec_cons. destruct i as [t o args | v g o args]; simpl in Hc.
      + apply andb_prop in Hc. destruct Hc as [Ha Hc].
        assert (Hm : map (eval_arg e s1 t1) args = map (eval_arg id_env s2 t2) args).
        { apply map_ext_in. intros a Hin. rewrite forallb_forall in Ha.
          apply (arg_ok_eval D W); auto. }
        rewrite !exec_let. rewrite Hm.
        apply (IH W e s1 s2 _ _ HD Hsim); [|exact Hc].
        intros t'. unfold Store.upd_tmp. destruct (Nat.eqb t' t); auto.
      + apply andb_prop in Hc. destruct Hc as [Hc Hc2]. apply andb_prop in Hc. destruct Hc as [Hv Ha].
        apply Nat.eqb_eq in Hv. subst v.
        assert (Hm : map (eval_arg e s1 t1) args = map (eval_arg id_env s2 t2) args).
        { apply map_ext_in. intros a Hin. rewrite forallb_forall in Ha.
          apply (arg_ok_eval D W); auto. }
        rewrite !exec_set. rewrite Hm. change (id_env recv) with recv.
        apply (IH (g :: W) e _ _ t1 t2 HD); [|exact Ht|exact Hc2].
        destruct Hsim as [I1 [I2 I3]]. unfold Store.upd_store. repeat split.
        * intros f. rewrite !Nat.eqb_refl. simpl. destruct (Nat.eqb f g); auto.
        * intros v f Hvr Hnin.
          assert (Hfg : f <> g) by (intro; subst; apply Hnin; left; reflexivity).
          assert (Hnin' : ~ In f W) by (intro; apply Hnin; right; assumption).
          destruct (Nat.eqb_spec f g); [contradiction|]. rewrite !andb_false_r. apply I2; assumption.
        * intros v f Hne.
          destruct (Nat.eqb_spec (e v) (e recv)); [contradiction|].
          destruct (Nat.eqb_spec v recv) as [->|]; [contradiction|]. simpl. apply I3. assumption.
  Qed.

  Lemma sim_init : forall e s, sim [] e s (copies val e s).
  Proof. intros e s. unfold sim, copies. repeat split; auto. Qed.

  (* soundness of the syntactic check (same code in both runs) *)
  Theorem check_alias_safe : forall D p e s ts,
      (forall v, In v D -> e v <> e recv) ->
      check D [] p = true ->
      let r1 := exec e p (s, ts) in
      let r2 := exec id_env p (copies val e s, ts) in
      (forall f, fst r1 (e recv) f = fst r2 recv f) /\
      (forall c f, c <> e recv -> fst r1 c f = s c f) /\
      (forall v f, v <> recv -> fst r2 v f = s (e v) f) /\
      (forall t, snd r1 t = snd r2 t).
  Proof.
    intros D p e s ts HD Hc. cbv zeta.
    destruct (check_sim D p [] e s (copies val e s) ts ts HD (sim_init e s) (fun _ => eq_refl) Hc) as [H1 H2].
    repeat split; auto.
    - intros c f Hne. apply (check_frame D p [] e s ts c f Hc Hne).
    - intros v f Hne. rewrite (check_frame D p [] id_env (copies val e s) ts v f Hc).
      + reflexivity.
      + exact Hne.
  Qed.

  (* ------------------------------------------------ methods *)

  Theorem method_ok_value_semantics : forall m, method_ok val opn interp m -> value_semantics val opn interp dflt m.
  Proof.
    intros m [Hret Hm] e s Hok. cbv zeta.
    unfold run_aliased, run_fresh, ret_val, method_code. rewrite Hret.
    destruct (m_test m) as [v|].
    - destruct Hm as [Hv [Hb [Ha Heq]]].
      assert (Hid : Nat.eqb (id_env v) (id_env recv) = false).
      { unfold id_env. apply Nat.eqb_neq. exact Hv. }
      rewrite Hid.
      destruct (Nat.eqb_spec (e v) (e recv)) as [Hal|Hnal].
      + (* aliased branch in the real run, plain branch on the copies *)
        destruct (check_alias_safe (m_distinct m) (m_alias m) e s (ts0 val dflt)) as [H1 [H2 [H3 H4]]];
          [exact Hok| exact Ha |].
        repeat split; auto.
        * intros f. rewrite H1. apply Heq.
        * intros w f Hw. rewrite <- (Heq (copies val e s) (ts0 val dflt) w f). apply H3. exact Hw.
      + destruct (check_alias_safe (v :: m_distinct m) (m_body m) e s (ts0 val dflt)) as [H1 [H2 [H3 H4]]];
          [| exact Hb |].
        { intros w [<-|Hw]; [exact Hnal | apply Hok; exact Hw]. }
        repeat split; auto.
    - destruct (check_alias_safe (m_distinct m) (m_body m) e s (ts0 val dflt)) as [H1 [H2 [H3 H4]]];
        [exact Hok| exact Hm |].
      repeat split; auto.
  Qed.

  (* ------------------------------------------------ programs *)

  Lemma run_aliased_ext : forall m e s s',
      (forall c f, s c f = s' c f) ->
      forall c f, fst (run_aliased val opn interp dflt m e s) c f = fst (run_aliased val opn interp dflt m e s') c f.
  Proof.
    intros m e s s' H. unfold run_aliased.
    apply (exec_ext e (method_code m e) s s' _ _ H (fun _ => eq_refl)).
  Qed.

  Lemma run_fresh_ext : forall m e s s',
      (forall c f, s c f = s' c f) ->
      forall c f, fst (run_fresh val opn interp dflt m e s) c f = fst (run_fresh val opn interp dflt m e s') c f.
  Proof.
    intros m e s s' H. unfold run_fresh.
    apply (exec_ext id_env (method_code m id_env) (copies val e s) (copies val e s') _ _).
    - intros c f. unfold copies. apply H.
    - reflexivity.
  Qed.

  Lemma step_agree : forall (c : call opn) s s',
      value_semantics val opn interp dflt (fst c) -> env_ok (fst c) (snd c) ->
      (forall x f, s x f = s' x f) ->
      forall x f, step_aliased val opn interp dflt s c x f = step_value val opn interp dflt s' c x f.
  Proof.
    intros [m e] s s' Hvs He Hs x f. unfold step_aliased, step_value. simpl.
    rewrite (run_aliased_ext m e s s' Hs).
    destruct (Hvs e s' He) as [H1 [_ [H3 _]]].
    destruct (Nat.eqb_spec x (e recv)) as [->|Hne].
    - apply H1.
    - apply H3. exact Hne.
  Qed.

  (* a program of calls over a pool of cells, each call with its own aliasing
     pattern, computes the same store as the value-semantics execution *)
  Theorem program_alias_independent : forall (p : list (call opn)) s s',
      Forall (fun c => method_ok val opn interp (fst c) /\ env_ok (fst c) (snd c)) p ->
      (forall x f, s x f = s' x f) ->
      forall x f, prog_aliased val opn interp dflt p s x f = prog_value val opn interp dflt p s' x f.
  Proof.
    intros p. induction p as [|c p IH]; intros s s' Hok Hs x f.
    - simpl. apply Hs.
    - inversion Hok as [|? ? Hc Hp]; subst.
      unfold prog_aliased, prog_value. simpl.
      apply (IH _ _ Hp). intros y g.
      apply step_agree; [apply method_ok_value_semantics; exact (proj1 Hc) | exact (proj2 Hc) | exact Hs].
  Qed.
End Proofs.
