(* Interleaving semantics of noninterfering threads over the shared store of
   Heap/Store.v: every interleaving is race free and computes exactly what
   sequential (one thread after the other) execution computes.

   Proof route: an invariant on reachable configurations relating each
   thread to a prefix of its own solo run; no diamond / commutation lemma is
   needed.  Everything is stated pointwise (no functional extensionality). *)
From Coq Require Import ZArith List Bool Arith Lia.
From Kyber Require Import Heap.Store.
Import ListNotations.

Section Interleave.
  Variable val : Type.
  Variable opn : Type.
  Variable interp : opn -> list val -> val.

  Local Notation instr := (Store.instr opn).
  Local Notation store := (Store.store val).
  Local Notation temps := (Store.temps val).
  Local Notation thread := (Store.thread val opn).
  Local Notation pool := (Store.pool val opn).
  Local Notation eval_arg := (Store.eval_arg val).
  Local Notation upd_store := (Store.upd_store val).
  Local Notation upd_tmp := (Store.upd_tmp val).
  Local Notation exec_instr := (Store.exec_instr val opn interp).
  Local Notation exec := (Store.exec val opn interp).
  Local Notation reads_of := (Store.reads_of opn).
  Local Notation writes_of := (Store.writes_of opn).
  Local Notation prog_reads := (Store.prog_reads opn).
  Local Notation prog_writes := (Store.prog_writes opn).
  Local Notation t_env := (Store.t_env val opn).
  Local Notation t_tmp := (Store.t_tmp val opn).
  Local Notation t_code := (Store.t_code val opn).
  Local Notation step := (Store.step val opn interp).
  Local Notation steps := (Store.steps val opn interp).
  Local Notation finished := (Store.finished val opn).
  Local Notation t_reads := (Store.t_reads val opn).
  Local Notation t_writes := (Store.t_writes val opn).
  Local Notation noninterfering := (Store.noninterfering val opn).
  Local Notation race_now := (Store.race_now val opn).
  Local Notation solo := (Store.solo val opn interp).
  Local Notation seq_run := (Store.seq_run val opn interp).

  (* ------------------------------------------------------------ one instruction *)

  Lemma eval_args_eq : forall (e : env) (s1 s2 : store) (ts1 ts2 : temps) (args : list arg),
    (forall t, ts1 t = ts2 t) ->
    (forall c f, In (c, f) (flat_map (arg_reads e) args) -> s1 c f = s2 c f) ->
    map (eval_arg e s1 ts1) args = map (eval_arg e s2 ts2) args.
  Proof.
    intros e s1 s2 ts1 ts2 args Ht Hs.
    apply map_ext_in. intros a Ha. destruct a as [t | v f]; simpl.
    - apply Ht.
    - apply Hs. apply in_flat_map. exists (AFld v f). split; [exact Ha | simpl; auto].
  Qed.

  Lemma exec_instr_agree : forall (e : env) (i : instr) (s1 s2 : store) (ts1 ts2 : temps),
    (forall t, ts1 t = ts2 t) ->
    (forall c f, In (c, f) (reads_of e i) -> s1 c f = s2 c f) ->
    (forall t, snd (exec_instr e (s1, ts1) i) t = snd (exec_instr e (s2, ts2) i) t) /\
    (forall c f, s1 c f = s2 c f \/ In (c, f) (writes_of e i) ->
        fst (exec_instr e (s1, ts1) i) c f = fst (exec_instr e (s2, ts2) i) c f).
  Proof.
    intros e i s1 s2 ts1 ts2 Ht Hs.
    destruct i as [t o args | v f o args]; simpl.
    - rewrite (eval_args_eq e s1 s2 ts1 ts2 args Ht Hs). split.
      + intros t'. unfold Store.upd_tmp. destruct (Nat.eqb t' t); auto.
      + intros c f [H | []]. exact H.
    - rewrite (eval_args_eq e s1 s2 ts1 ts2 args Ht Hs). split.
      + exact Ht.
      + intros c f' H. unfold Store.upd_store.
        destruct (Nat.eqb c (e v) && Nat.eqb f' f)%bool eqn:E; [reflexivity |].
        destruct H as [H | [H | []]]; [exact H |].
        inversion H; subst. rewrite !Nat.eqb_refl in E. discriminate E.
  Qed.

  Lemma exec_instr_outside : forall (e : env) (i : instr) (s : store) (ts : temps) c f,
    ~ In (c, f) (writes_of e i) ->
    fst (exec_instr e (s, ts) i) c f = s c f.
  Proof.
    intros e i s ts c f Hn. destruct i as [t o args | v f0 o args]; simpl; [reflexivity |].
    unfold Store.upd_store.
    destruct (Nat.eqb_spec c (e v)) as [Hc | Hc]; destruct (Nat.eqb_spec f f0) as [Hf | Hf];
      simpl; try reflexivity.
    subst. exfalso. apply Hn. simpl. auto.
  Qed.

  (* ------------------------------------------------------------ whole programs *)

  Lemma exec_cons : forall (e : env) (i : instr) (p : list instr) st,
    exec e (i :: p) st = exec e p (exec_instr e st i).
  Proof. reflexivity. Qed.

  Lemma exec_snoc : forall (e : env) (p : list instr) (i : instr) st,
    exec e (p ++ [i]) st = exec_instr e (exec e p st) i.
  Proof. intros. unfold Store.exec. rewrite fold_left_app. reflexivity. Qed.

  Lemma prog_reads_cons : forall (e : env) (i : instr) p,
    prog_reads e (i :: p) = reads_of e i ++ prog_reads e p.
  Proof. reflexivity. Qed.

  Lemma prog_writes_cons : forall (e : env) (i : instr) p,
    prog_writes e (i :: p) = writes_of e i ++ prog_writes e p.
  Proof. reflexivity. Qed.

  Lemma in_prog_reads : forall (e : env) (p : list instr) (i : instr) l,
    In i p -> In l (reads_of e i) -> In l (prog_reads e p).
  Proof. intros. unfold Store.prog_reads. apply in_flat_map. exists i. auto. Qed.

  Lemma in_prog_writes : forall (e : env) (p : list instr) (i : instr) l,
    In i p -> In l (writes_of e i) -> In l (prog_writes e p).
  Proof. intros. unfold Store.prog_writes. apply in_flat_map. exists i. auto. Qed.

  (* key frame lemma: two runs of [p] from stores that agree on everything [p]
     reads produce the same temporaries, agree on everything [p] writes, and
     keep agreeing wherever they agreed before *)
  Lemma exec_agree : forall (e : env) (p : list instr) (s1 s2 : store) (ts1 ts2 : temps),
    (forall t, ts1 t = ts2 t) ->
    (forall c f, In (c, f) (prog_reads e p) -> s1 c f = s2 c f) ->
    (forall t, snd (exec e p (s1, ts1)) t = snd (exec e p (s2, ts2)) t) /\
    (forall c f, s1 c f = s2 c f \/ In (c, f) (prog_writes e p) ->
        fst (exec e p (s1, ts1)) c f = fst (exec e p (s2, ts2)) c f).
  Proof.
    intros e p. induction p as [| i p IH]; intros s1 s2 ts1 ts2 Ht Hs.
    - simpl. split; [exact Ht |]. intros c f [H | []]. exact H.
    - rewrite !exec_cons.
      assert (Hr : forall c f, In (c, f) (reads_of e i) -> s1 c f = s2 c f).
      { intros c f H. apply Hs. rewrite prog_reads_cons. apply in_app_iff. auto. }
      destruct (exec_instr_agree e i s1 s2 ts1 ts2 Ht Hr) as [Ht' Hs'].
      destruct (exec_instr e (s1, ts1) i) as [s1' ts1'].
      destruct (exec_instr e (s2, ts2) i) as [s2' ts2'].
      simpl in Ht', Hs'.
      assert (Hr' : forall c f, In (c, f) (prog_reads e p) -> s1' c f = s2' c f).
      { intros c f H. apply Hs'. left. apply Hs. rewrite prog_reads_cons.
        apply in_app_iff. auto. }
      destruct (IH s1' s2' ts1' ts2' Ht' Hr') as [IHt IHs].
      split; [exact IHt |].
      intros c f H. apply IHs. rewrite prog_writes_cons in H.
      destruct H as [H | H].
      + left. apply Hs'. auto.
      + apply in_app_iff in H. destruct H as [H | H].
        * left. apply Hs'. auto.
        * right. exact H.
  Qed.

  Lemma exec_outside : forall (e : env) (p : list instr) (s : store) (ts : temps) c f,
    ~ In (c, f) (prog_writes e p) ->
    fst (exec e p (s, ts)) c f = s c f.
  Proof.
    intros e p. induction p as [| i p IH]; intros s ts c f Hn.
    - reflexivity.
    - rewrite exec_cons. rewrite prog_writes_cons in Hn.
      assert (H1 : ~ In (c, f) (writes_of e i)) by (intro; apply Hn; apply in_app_iff; auto).
      assert (H2 : ~ In (c, f) (prog_writes e p)) by (intro; apply Hn; apply in_app_iff; auto).
      pose proof (exec_instr_outside e i s ts c f H1) as Ho.
      destruct (exec_instr e (s, ts) i) as [s' ts']. simpl in Ho.
      rewrite (IH s' ts' c f H2). exact Ho.
  Qed.

  (* ------------------------------------------------------------ footprints along steps *)

  Lemma step_preserves_footprint : forall s P s' P',
    step (s, P) (s', P') ->
    forall i,
      (exists dn, t_code (P i) = dn ++ t_code (P' i)) /\
      t_env (P' i) = t_env (P i) /\
      (forall l, In l (t_reads P' i) -> In l (t_reads P i)) /\
      (forall l, In l (t_writes P' i) -> In l (t_writes P i)).
  Proof.
    intros s P s' P' Hst.
    inversion Hst as [s1 P1 k ins rest s1' ts' P1' Hcode Hexec Hother Hself]; subst.
    intros i. destruct (Nat.eq_dec i k) as [-> | Hne].
    - unfold Store.t_reads, Store.t_writes. rewrite Hself, Hcode. simpl.
      split; [exists [ins]; reflexivity |]. split; [reflexivity |].
      split; intros l H; apply in_app_iff; auto.
    - unfold Store.t_reads, Store.t_writes. rewrite (Hother i Hne).
      split; [exists []; reflexivity |]. auto.
  Qed.

  Lemma steps_preserves_footprint : forall c0 c,
    steps c0 c ->
    forall i,
      (exists dn, t_code (snd c0 i) = dn ++ t_code (snd c i)) /\
      t_env (snd c i) = t_env (snd c0 i) /\
      (forall l, In l (t_reads (snd c) i) -> In l (t_reads (snd c0) i)) /\
      (forall l, In l (t_writes (snd c) i) -> In l (t_writes (snd c0) i)).
  Proof.
    intros c0 c H. induction H as [c | c1 c2 c3 H12 IH H23]; intros i.
    - split; [exists []; reflexivity |]. auto.
    - destruct c2 as [s2 P2]; destruct c3 as [s3 P3].
      destruct (IH i) as [[d1 Hd1] [He1 [Hr1 Hw1]]].
      destruct (step_preserves_footprint _ _ _ _ H23 i) as [[d2 Hd2] [He2 [Hr2 Hw2]]].
      simpl in *. split; [| split; [| split]].
      + exists (d1 ++ d2). rewrite Hd1, Hd2. apply app_assoc.
      + congruence.
      + auto.
      + auto.
  Qed.

  Lemma noninterfering_incl : forall P0 P,
    (forall i l, In l (t_reads P i) -> In l (t_reads P0 i)) ->
    (forall i l, In l (t_writes P i) -> In l (t_writes P0 i)) ->
    noninterfering P0 -> noninterfering P.
  Proof.
    intros P0 P Hr Hw Hn i j l Hij Hl.
    destruct (Hn i j l Hij (Hw i l Hl)) as [H1 H2].
    split; intro H; [apply H1, Hr, H | apply H2, Hw, H].
  Qed.

  Lemma noninterfering_step : forall s P s' P',
    noninterfering P -> step (s, P) (s', P') -> noninterfering P'.
  Proof.
    intros s P s' P' Hn Hst.
    apply (noninterfering_incl P P'); [| | exact Hn]; intros i l H;
      apply (step_preserves_footprint _ _ _ _ Hst i); exact H.
  Qed.

  Lemma noninterfering_steps : forall s0 P0 s P,
    noninterfering P0 -> steps (s0, P0) (s, P) -> noninterfering P.
  Proof.
    intros s0 P0 s P Hn Hst.
    apply (noninterfering_incl P0 P); [| | exact Hn]; intros i l H;
      apply (steps_preserves_footprint _ _ Hst i); exact H.
  Qed.

  (* a configuration in which the next instructions of two threads conflict
     is interfering *)
  Lemma race_now_interferes : forall P, noninterfering P -> ~ race_now P.
  Proof.
    intros P Hn (i & j & ii & ri & ij & rj & l & Hij & Hci & Hcj & Hw & Hrw).
    assert (Hwi : In l (t_writes P i)).
    { unfold Store.t_writes. rewrite Hci. rewrite prog_writes_cons. apply in_app_iff. auto. }
    destruct (Hn i j l Hij Hwi) as [H1 H2].
    destruct Hrw as [H | H].
    - apply H1. unfold Store.t_reads. rewrite Hcj, prog_reads_cons. apply in_app_iff. auto.
    - apply H2. unfold Store.t_writes. rewrite Hcj, prog_writes_cons. apply in_app_iff. auto.
  Qed.

  Theorem no_race_reachable :
    forall P0 s0 s P, noninterfering P0 -> steps (s0, P0) (s, P) -> ~ race_now P.
  Proof.
    intros P0 s0 s P Hn Hst. apply race_now_interferes.
    exact (noninterfering_steps s0 P0 s P Hn Hst).
  Qed.

  (* ------------------------------------------------------------ the invariant *)

  Definition inv (P0 : pool) (s0 : store) (s : store) (P : pool) : Prop :=
    (forall i, exists dn,
        t_code (P0 i) = dn ++ t_code (P i) /\
        t_env (P i) = t_env (P0 i) /\
        (forall t, t_tmp (P i) t = snd (exec (t_env (P0 i)) dn (s0, t_tmp (P0 i))) t) /\
        (forall c f, In (c, f) (t_reads P0 i) \/ In (c, f) (t_writes P0 i) ->
             s c f = fst (exec (t_env (P0 i)) dn (s0, t_tmp (P0 i))) c f)) /\
    (forall c f, (forall i, ~ In (c, f) (t_writes P0 i)) -> s c f = s0 c f).

  Lemma inv_init : forall P0 s0, inv P0 s0 s0 P0.
  Proof.
    intros P0 s0. split.
    - intros i. exists []. simpl. auto.
    - auto.
  Qed.

  Lemma inv_step : forall P0 s0 s P s' P',
    noninterfering P0 -> inv P0 s0 s P -> step (s, P) (s', P') -> inv P0 s0 s' P'.
  Proof.
    intros P0 s0 s P s' P' Hn [Hth Hnw] Hst.
    inversion Hst as [s1 P1 k ins rest s1' ts' P1' Hcode Hexec Hother Hself]; subst.
    destruct (Hth k) as (dnk & Hck & Hek & Htk & Hsk).
    rewrite Hcode in Hck. rewrite Hek in Hexec.
    assert (Hin : In ins (t_code (P0 k))).
    { rewrite Hck. apply in_app_iff. right. simpl. auto. }
    (* what the executed instruction writes lies in thread k's write set *)
    assert (Hwk : forall l, In l (writes_of (t_env (P0 k)) ins) -> In l (t_writes P0 k)).
    { intros l H. exact (in_prog_writes _ _ _ _ Hin H). }
    assert (Hrk : forall l, In l (reads_of (t_env (P0 k)) ins) -> In l (t_reads P0 k)).
    { intros l H. exact (in_prog_reads _ _ _ _ Hin H). }
    (* the step changes the store only inside writes_of ins *)
    assert (Hout : forall c f, ~ In (c, f) (writes_of (t_env (P0 k)) ins) -> s' c f = s c f).
    { intros c f H.
      pose proof (exec_instr_outside (t_env (P0 k)) ins s (t_tmp (P k)) c f H) as Ho.
      rewrite Hexec in Ho. exact Ho. }
    split.
    - intros i. destruct (Nat.eq_dec i k) as [-> | Hne].
      + exists (dnk ++ [ins]). rewrite Hself. simpl.
        split; [rewrite <- app_assoc; exact Hck |].
        split; [exact Hek |].
        rewrite exec_snoc.
        assert (Hr : forall c f, In (c, f) (reads_of (t_env (P0 k)) ins) ->
                       s c f = fst (exec (t_env (P0 k)) dnk (s0, t_tmp (P0 k))) c f).
        { intros c f H. apply Hsk. left. apply Hrk. exact H. }
        destruct (exec (t_env (P0 k)) dnk (s0, t_tmp (P0 k))) as [s2 ts2]. simpl in Htk, Hsk, Hr.
        destruct (exec_instr_agree (t_env (P0 k)) ins s s2 (t_tmp (P k)) ts2 Htk Hr) as [Ha Hb].
        rewrite Hexec in Ha, Hb. simpl in Ha, Hb.
        split; [exact Ha |].
        intros c f H. apply Hb. left. apply Hsk. exact H.
      + destruct (Hth i) as (dni & Hci & Hei & Hti & Hsi).
        exists dni. rewrite (Hother i Hne).
        split; [exact Hci |]. split; [exact Hei |]. split; [exact Hti |].
        intros c f H. rewrite <- (Hsi c f H). apply Hout.
        intro Hw. destruct (Hn k i (c, f) (not_eq_sym Hne) (Hwk _ Hw)) as [H1 H2].
        destruct H as [H | H]; auto.
    - intros c f H. rewrite <- (Hnw c f H). apply Hout.
      intro Hw. exact (H k (Hwk _ Hw)).
  Qed.

  Lemma inv_steps : forall c0 c,
    steps c0 c -> noninterfering (snd c0) -> inv (snd c0) (fst c0) (fst c) (snd c).
  Proof.
    intros c0 c H. induction H as [c | c1 c2 c3 H12 IH H23]; intros Hn.
    - apply inv_init.
    - destruct c2 as [s2 P2]; destruct c3 as [s3 P3]. simpl in *.
      exact (inv_step _ _ _ _ _ _ Hn (IH Hn) H23).
  Qed.

  Theorem interleaving_deterministic :
    forall P0 s0 s P, noninterfering P0 -> steps (s0, P0) (s, P) -> finished P ->
      (forall i t, t_tmp (P i) t = snd (solo P0 s0 i) t) /\
      (forall c f, (forall i, ~ In (c, f) (t_writes P0 i)) -> s c f = s0 c f) /\
      (forall i c f, In (c, f) (t_writes P0 i) -> s c f = fst (solo P0 s0 i) c f).
  Proof.
    intros P0 s0 s P Hn Hst Hfin.
    destruct (inv_steps _ _ Hst Hn) as [Hth Hnw]. simpl in Hth, Hnw.
    assert (Hdone : forall i,
      (forall t, t_tmp (P i) t = snd (solo P0 s0 i) t) /\
      (forall c f, In (c, f) (t_writes P0 i) -> s c f = fst (solo P0 s0 i) c f)).
    { intros i. destruct (Hth i) as (dn & Hc & He & Ht & Hs).
      rewrite (Hfin i), app_nil_r in Hc. subst dn. unfold Store.solo.
      split; [exact Ht |]. intros c f H. apply Hs. auto. }
    split; [intros i; apply (Hdone i) |].
    split; [exact Hnw |].
    intros i; apply (Hdone i).
  Qed.

  (* ------------------------------------------------------------ sequential execution *)

  Lemma seq_run_outside : forall P0 s0 n c f,
    (forall i, (i < n)%nat -> ~ In (c, f) (t_writes P0 i)) -> seq_run P0 n s0 c f = s0 c f.
  Proof.
    intros P0 s0 n. induction n as [| n IH]; intros c f H.
    - reflexivity.
    - simpl. unfold Store.solo. rewrite exec_outside.
      + apply IH. intros i Hi. apply H. lia.
      + apply (H n). lia.
  Qed.

  (* the store thread i sees when run after 0..i-1 agrees with s0 on what it reads *)
  Lemma seq_run_reads : forall P0 s0 i c f,
    noninterfering P0 -> In (c, f) (t_reads P0 i) -> seq_run P0 i s0 c f = s0 c f.
  Proof.
    intros P0 s0 i c f Hn Hr. apply seq_run_outside.
    intros k Hk Hw. assert (Hki : k <> i) by lia.
    destruct (Hn k i (c, f) Hki Hw) as [H1 _]. exact (H1 Hr).
  Qed.

  Lemma solo_seq_run : forall P0 s0 i,
    noninterfering P0 ->
    (forall t, snd (solo P0 (seq_run P0 i s0) i) t = snd (solo P0 s0 i) t) /\
    (forall c f, In (c, f) (t_writes P0 i) ->
        fst (solo P0 (seq_run P0 i s0) i) c f = fst (solo P0 s0 i) c f).
  Proof.
    intros P0 s0 i Hn. unfold Store.solo.
    destruct (exec_agree (t_env (P0 i)) (t_code (P0 i)) (seq_run P0 i s0) s0
                (t_tmp (P0 i)) (t_tmp (P0 i)) (fun t => eq_refl)) as [Ha Hb].
    - intros c f H. apply seq_run_reads; assumption.
    - split; [exact Ha |]. intros c f H. apply Hb. right. exact H.
  Qed.

  Theorem seq_run_spec :
    forall P0 s0 n, noninterfering P0 ->
      (forall c f, (forall i, (i < n)%nat -> ~ In (c, f) (t_writes P0 i)) ->
           seq_run P0 n s0 c f = s0 c f) /\
      (forall i c f, (i < n)%nat -> In (c, f) (t_writes P0 i) ->
           seq_run P0 n s0 c f = fst (solo P0 s0 i) c f) /\
      (forall i t, snd (solo P0 (seq_run P0 i s0) i) t = snd (solo P0 s0 i) t).
  Proof.
    intros P0 s0 n Hn.
    split; [intros c f H; apply seq_run_outside; exact H |].
    split; [| intros i; apply (solo_seq_run P0 s0 i Hn)].
    induction n as [| n IH]; intros i c f Hi Hw.
    - lia.
    - simpl. destruct (Nat.eq_dec i n) as [-> | Hne].
      + apply (solo_seq_run P0 s0 n Hn). exact Hw.
      + unfold Store.solo at 1. rewrite exec_outside.
        * apply IH; [lia | exact Hw].
        * intro Hwn. destruct (Hn i n (c, f) Hne Hw) as [_ H2]. exact (H2 Hwn).
  Qed.

  (* ------------------------------------------------------------ main theorem *)

  Lemma loc_eq_dec : forall a b : loc, {a = b} + {a <> b}.
  Proof. decide equality; apply Nat.eq_dec. Qed.

  Lemma bounded_writer_dec : forall (P0 : pool) (l : loc) n,
    (exists i, (i < n)%nat /\ In l (t_writes P0 i)) \/
    (forall i, (i < n)%nat -> ~ In l (t_writes P0 i)).
  Proof.
    intros P0 l n. induction n as [| n [[i [Hi Hw]] | IH]].
    - right. intros i Hi. lia.
    - left. exists i. split; [lia | exact Hw].
    - destruct (in_dec loc_eq_dec l (t_writes P0 n)) as [Hw | Hw].
      + left. exists n. split; [lia | exact Hw].
      + right. intros i Hi. destruct (Nat.eq_dec i n) as [-> | Hne]; [exact Hw |].
        apply IH. lia.
  Qed.

  Theorem disjoint_writes_race_free :
    forall P0 s0 n, noninterfering P0 -> (forall i, (n <= i)%nat -> t_code (P0 i) = []) ->
      forall s P, steps (s0, P0) (s, P) ->
        ~ race_now P /\
        (finished P ->
           (forall c f, s c f = seq_run P0 n s0 c f) /\
           (forall i t, t_tmp (P i) t = snd (solo P0 (seq_run P0 i s0) i) t)).
  Proof.
    intros P0 s0 n Hn Hidle s P Hst.
    split; [exact (no_race_reachable P0 s0 s P Hn Hst) |].
    intros Hfin.
    destruct (interleaving_deterministic P0 s0 s P Hn Hst Hfin) as (Htmp & Hnw & Hw).
    destruct (seq_run_spec P0 s0 n Hn) as (Sa & Sb & Sc).
    split.
    - intros c f. destruct (bounded_writer_dec P0 (c, f) n) as [[i [Hi Hwi]] | Hnone].
      + rewrite (Hw i c f Hwi). symmetry. apply Sb; assumption.
      + rewrite (Sa c f Hnone). apply Hnw. intros i.
        destruct (le_lt_dec n i) as [Hge | Hlt].
        * unfold Store.t_writes. rewrite (Hidle i Hge). simpl. auto.
        * apply Hnone. exact Hlt.
    - intros i t. rewrite (Sc i t). apply Htmp.
  Qed.

End Interleave.

Print Assumptions disjoint_writes_race_free.
Print Assumptions interleaving_deterministic.
Print Assumptions seq_run_spec.
Print Assumptions no_race_reachable.
