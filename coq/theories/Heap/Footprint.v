(* C20 - footprints of read-only use.  Transcriptions of the methods the
   interface treats as read-only (encode, print, compare, clone, extract data,
   being an operand of an operation that writes elsewhere, pairing), their
   write sets, and the race-freedom theorem for threads that only write cells
   they own. *)
From Coq Require Import ZArith List Bool Arith Lia.
From Kyber Require Import Heap.Store Heap.AliasSem Heap.AliasProofs Heap.Transcr Heap.TranscrProofs Heap.Interleave.
Import ListNotations.

(* ---------------------------------------------------------------- read-only methods *)

Inductive rmeth :=
| RMarshal | RString | REqual | RClone | RData | RMarshalTo   (* variable 0 (and 1 for Equal) shared *)
| RPair                                                       (* Suite.Pair / ValidatePairing: variables 0, 1 shared *)
| RScalarMarshal | RScalarString | RScalarEqual | RScalarClone.

Definition rid (r : rmeth) : Z :=
  match r with
  | RMarshal => 0 | RString => 1 | REqual => 2 | RClone => 3 | RData => 4 | RMarshalTo => 5
  | RPair => 6 | RScalarMarshal => 7 | RScalarString => 8 | RScalarEqual => 9 | RScalarClone => 10
  end%Z.
Definition all_rmeths := [RMarshal; RString; REqual; RClone; RData; RMarshalTo; RPair;
                          RScalarMarshal; RScalarString; RScalarEqual; RScalarClone].
Fixpoint rmeth_of (l : list rmeth) (z : Z) : option rmeth :=
  match l with [] => None | r :: t => if Z.eqb (rid r) z then Some r else rmeth_of t z end.

(* read every value field (and the auxiliary pointer field) of variable v into temporaries *)
Definition read_all (base v n : nat) : list (instr opn) :=
  map (fun f => ILet (base + f) (Op GId [1%nat] 0) [AFld v f]) (seq 0 (S n)).

(* encode / print / data: the (repaired) code works on a private copy: vartime normalises a
   temporary point, bn256 makes a clone affine, kilic converts a clone, the others only read *)
Definition ro_prog (i : impl) (r : rmeth) : list (instr opn) :=
  let n := vf i in
  match r with
  | RMarshal | RString | RData | RMarshalTo | RScalarMarshal | RScalarString =>
      read_all 10 0 n ++ [ILet 30 (Op GId [n] 0) (tmps 10 n)]
  | REqual | RScalarEqual | RPair =>
      read_all 10 0 n ++ read_all 20 1 n ++ [ILet 30 (Op GId [n] 0) (tmps 10 n); ILet 31 (Op GId [n] 0) (tmps 20 n)]
  | RClone | RScalarClone => read_all 10 0 n
  end.

(* pre-repair: projPoint / extPoint MarshalBinary, String, Data normalise the receiver in place;
   kilic Suite.Pair hands its operands to the engine, which makes them affine in place *)
Definition vt_marshal_unrepaired (n : nat) : list (instr opn) :=
  [ ISet 0 2 (Op GId [1%nat] 0) [AFld 0 2];          (* P.Z.Inv(&P.Z) *)
    ISet 0 0 (Op GId [2%nat] 0) [AFld 0 0; AFld 0 2];
    ISet 0 1 (Op GId [2%nat] 0) [AFld 0 1; AFld 0 2];
    ISet 0 2 (Op GId [1%nat] 0) [AFld 0 2] ] ++ read_all 10 0 n.
Definition kilic_pair_unrepaired : list (instr opn) :=
  [ ISet 0 0 (Op GId [1%nat] 0) [AFld 0 0]; ISet 1 0 (Op GId [1%nat] 0) [AFld 1 0] ] ++ read_all 10 0 1 ++ read_all 20 1 1.

Definition written_vars (p : list (instr opn)) : list var :=
  flat_map (fun i => match i with ISet v _ _ _ => [v] | ILet _ _ _ => [] end) p.

Lemma ro_prog_no_write : forall i r, written_vars (ro_prog i r) = [].
Proof. intros i r. destruct i; destruct r; reflexivity. Qed.

Lemma written_vars_writes : forall (p : list (instr opn)) e l,
    In l (prog_writes opn e p) -> exists v, In v (written_vars p) /\ fst l = e v.
Proof.
  induction p as [|i p IH]; intros e l H; simpl in H.
  - contradiction.
  - unfold prog_writes in H. simpl in H. apply in_app_or in H. destruct H as [H|H].
    + destruct i as [t o a|v f o a]; simpl in H; [contradiction|].
      destruct H as [<-|[]]. exists v. split; [simpl; left; reflexivity | reflexivity].
    + destruct (IH e l H) as [v [Hv Hl]]. exists v. split; [|exact Hl].
      simpl. apply in_or_app. right. exact Hv.
Qed.

(* the read-only methods write nothing at all *)
Theorem readonly_footprint : forall i r e, prog_writes opn e (ro_prog i r) = [].
Proof.
  intros i r e.
  destruct (prog_writes opn e (ro_prog i r)) as [|l ls] eqn:E; [reflexivity|].
  destruct (written_vars_writes (ro_prog i r) e l) as [v [Hv _]].
  - rewrite E. left. reflexivity.
  - rewrite ro_prog_no_write in Hv. contradiction.
Qed.

(* a checked mutating method writes its receiver only: operands may be shared *)
Lemma check_writes_recv : forall (p : list (instr opn)) D W e l,
    check D W p = true -> In l (prog_writes opn e p) -> fst l = e recv.
Proof.
  induction p as [|i p IH]; intros D W e l Hc H.
  - contradiction.
  - unfold prog_writes in H. simpl in H. apply in_app_or in H.
    destruct i as [t o a|v f o a]; simpl in Hc.
    + apply andb_prop in Hc. destruct Hc as [_ Hc]. destruct H as [H|H]; [contradiction|].
      apply (IH D W e l Hc H).
    + apply andb_prop in Hc. destruct Hc as [Hc Hc2]. apply andb_prop in Hc. destruct Hc as [Hv _].
      apply Nat.eqb_eq in Hv. subst v. destruct H as [H|H].
      * simpl in H. destruct H as [<-|[]]. reflexivity.
      * apply (IH D (f :: W) e l Hc2 H).
Qed.

Theorem mutator_writes_only_receiver :
  forall (i : impl) (v : variant) (m : meth) (e : env) l,
    In l (prog_writes opn e (method_code (transcr i (vid v) (mid m)) e)) -> fst l = e recv.
Proof.
  intros i v m e l H.
  destruct (all_methods_ok unit (fun _ _ => tt) i v m) as [_ Hok].
  unfold method_code in H.
  destruct (m_test (transcr i (vid v) (mid m))) as [w|].
  - destruct Hok as [_ [Hb [Ha _]]].
    destruct (Nat.eqb (e w) (e recv)).
    + exact (check_writes_recv _ _ _ e l Ha H).
    + exact (check_writes_recv _ _ _ e l Hb H).
  - exact (check_writes_recv _ _ _ e l Hok H).
Qed.

(* the pre-repair transcriptions do write the shared object *)
Lemma unrepaired_write_shared :
  In 0%nat (written_vars (vt_marshal_unrepaired 3)) /\
  In 0%nat (written_vars kilic_pair_unrepaired) /\ In 1%nat (written_vars kilic_pair_unrepaired).
Proof. repeat split; vm_compute; auto. Qed.

(* ---------------------------------------------------------------- ownership => race freedom *)

Section Own.
  Variable val : Type.
  Variable opn' : Type.
  Variable interp : opn' -> list val -> val.

  (* [owner c = Some i]: cell c is private to thread i; [None]: shared *)
  Theorem shared_readonly_race_free :
    forall (P0 : pool val opn') (s0 : store val) (n : nat) (owner : cell -> option nat),
      (forall i l, In l (t_writes val opn' P0 i) -> owner (fst l) = Some i) ->
      (forall i l, In l (t_reads val opn' P0 i) -> owner (fst l) = None \/ owner (fst l) = Some i) ->
      (forall i, (n <= i)%nat -> t_code val opn' (P0 i) = []) ->
      forall s P, steps val opn' interp (s0, P0) (s, P) ->
        ~ race_now val opn' P /\
        (finished val opn' P ->
           (forall c f, s c f = seq_run val opn' interp P0 n s0 c f) /\
           (forall i t, t_tmp val opn' (P i) t = snd (solo val opn' interp P0 (seq_run val opn' interp P0 i s0) i) t) /\
           (forall c f, owner c = None -> s c f = s0 c f)).
  Proof.
    intros P0 s0 n owner Hw Hr Hn s P Hsteps.
    assert (NI : noninterfering val opn' P0).
    { intros i j l Hij Hl. pose proof (Hw i l Hl) as Ho. split; intro Hc.
      - destruct (Hr j l Hc) as [E|E]; rewrite Ho in E; [discriminate | inversion E; contradiction].
      - pose proof (Hw j l Hc) as E. rewrite Ho in E. inversion E. contradiction. }
    destruct (disjoint_writes_race_free val opn' interp P0 s0 n NI Hn s P Hsteps) as [Hrace Hfin].
    split; [exact Hrace|]. intros Hf. destruct (Hfin Hf) as [H1 H2].
    split; [exact H1|]. split; [exact H2|].
    intros c f Hsh.
    destruct (interleaving_deterministic val opn' interp P0 s0 s P NI Hsteps Hf) as [_ [Hun _]].
    apply Hun. intros i Hin. pose proof (Hw i (c, f) Hin) as E. simpl in E. rewrite Hsh in E. discriminate.
  Qed.
End Own.
