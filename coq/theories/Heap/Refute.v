(* C05 - the transcriptions of the code as it was before the repairs (and of a
   typical slip) do NOT have value semantics: concrete witnesses. *)
From Coq Require Import ZArith List Bool Arith Lia.
From Kyber Require Import Heap.Store Heap.AliasSem Heap.Transcr Heap.Share.
Import ListNotations.

Definition wit_heap : heap Z :=
  {| bind := fun o f => Nat.min 50 (o * 7 + f); mem := fun _ => 5%Z; next := 100 |}.

Lemma wit_heap_wf : wf wit_heap.
Proof. intros o f. unfold wit_heap, bind, next. apply Nat.le_lt_trans with 50; [apply Nat.le_min_l | lia]. Qed.

Lemma unrepaired_refuted :
  (exists e s, fst (run_aliased Z opn (dl_interp 101 0) junk (gnark_add_unrepaired GAdd) e s) (e recv) 0%nat
               <> fst (run_fresh Z opn (dl_interp 101 0) junk (gnark_add_unrepaired GAdd) e s) recv 0%nat) /\
  (exists e s, ret_val Z opn junk (kilic_const_unrepaired 0) e (run_aliased Z opn (dl_interp 101 0) junk (kilic_const_unrepaired 0) e s) 0%nat
               <> fst (run_aliased Z opn (dl_interp 101 0) junk (kilic_const_unrepaired 0) e s) (e recv) 0%nat) /\
  (exists e s, ret_val Z opn junk kilic_gtsub_unrepaired e (run_aliased Z opn (dl_interp 101 0) junk kilic_gtsub_unrepaired e s) 0%nat
               <> fst (run_aliased Z opn (dl_interp 101 0) junk kilic_gtsub_unrepaired e s) (e recv) 0%nat) /\
  (exists e s, fst (run_aliased Z opn (dl_interp 101 0) junk vt_mul_notest e s) (e recv) 0%nat
               <> fst (run_fresh Z opn (dl_interp 101 0) junk vt_mul_notest e s) recv 0%nat) /\
  (exists (h : heap Z) x, wf h /\ look (run_hops [HWrite 0%nat 0%nat x] (shallow_copy 1%nat 0%nat [0%nat] h)) 1%nat 0%nat
                                   <> look h 0%nat 0%nat).
Proof.
  repeat split.
  - exists (fun v => match v with 1%nat => 1%nat | _ => 0%nat end), (fun c _ => if Nat.eqb c 0 then 5%Z else 7%Z).
    vm_compute. discriminate.
  - exists id_env, (fun _ _ => 5%Z). vm_compute. discriminate.
  - exists id_env, (fun c _ => Z.of_nat c + 3)%Z. vm_compute. discriminate.
  - exists (fun v => match v with 1%nat => 1%nat | _ => 0%nat end), (fun c _ => if Nat.eqb c 0 then 5%Z else 3%Z).
    vm_compute. discriminate.
  - exists wit_heap, 9%Z. split; [exact wit_heap_wf|]. vm_compute. discriminate.
Qed.

(* receivers sharing storage with a group constant; output cleared before the operand is read *)
Lemma constant_sharing_refuted :
  (* Base() as a struct copy of the generator: a later in-place write to the receiver (object 1)
     changes the constant (object 0) *)
  (exists (h : heap Z) x, wf h /\ look (run_hops [HWrite 1%nat 0%nat x] (shallow_copy 1%nat 0%nat [0%nat] h)) 0%nat 0%nat
                                   <> look h 0%nat 0%nat) /\
  (exists e s, env_ok mul_output_cleared_first e /\
               fst (run_aliased Z opn (dl_interp 101 0) junk mul_output_cleared_first e s) (e recv) 0%nat
               <> fst (run_fresh Z opn (dl_interp 101 0) junk mul_output_cleared_first e s) recv 0%nat).
Proof.
  split.
  - exists wit_heap, 9%Z. split; [exact wit_heap_wf|]. vm_compute. discriminate.
  - exists (fun v => match v with 1%nat => 1%nat | _ => 0%nat end), (fun c _ => if Nat.eqb c 0 then 5%Z else 3%Z).
    split.
    + intros v [<-|[]]. vm_compute. discriminate.
    + vm_compute. discriminate.
Qed.
