(* Runner for the C12 correspondence: evaluates the DSS model on the histories
   the harness drove sign/dss through over the transparent dlog group
   (harness/vh/dlog.go) and lists the cases whose observations differ.  Not used
   by any theorem.

   Codecs of the dlog group: a scalar is its fixed-length big-endian value
   (mod.Int), a point is the tag byte 4 followed by the encoding of its
   logarithm; decoding rejects wrong lengths, a wrong tag and values >= q.
   The two hash functions are finite tables computed by the harness with
   crypto/sha256 and crypto/sha512 directly. *)
From Coq Require Import ZArith List Bool.
From Kyber Require Import Base.Wire Algebra.Zq Algebra.Grp Share.ShamirSM Sig.Schnorr DSS.DSSSM.
Import ListNotations.
Local Open Scope Z_scope.

Definition blen (q : Z) : nat := Z.to_nat ((Z.log2 q + 8) / 8).

Definition be_dec (l : list Z) : Z := fold_left (fun a b => a * 256 + b) l 0.

Section Codec.
  Variable q : Z.
  Definition senc (s : zq q) : list Z := be_bytes_acc (blen q) (val s) [].
  Definition sdec (l : list Z) : option (zq q) :=
    if negb (length l =? blen q)%nat then None else
    let v := be_dec l in if v <? q then Some (of_Z q v) else None.
  Definition penc (p : zq q) : list Z := 4 :: senc p.
  Definition pdec (l : list Z) : option (zq q) :=
    match l with
    | 4 :: r => sdec r
    | _ => None
    end.
  Definition plen : nat := S (blen q).
  Definition slen : nat := blen q.

  Fixpoint lookup {A} (t : list (list Z * A)) (d : A) (x : list Z) : A :=
    match t with
    | [] => d
    | (k, v) :: r => if bytes_eqb k x then v else lookup r d x
    end.
End Codec.

Inductive wop := WSign (k : Z) | WRecv (i v : Z) (sid sig : list Z).
(* result of the call: the partial signature issued / the verdict class *)
Inductive wres := RSign (i v : Z) (sid sig : list Z) | RRecv (cls : Z).

Definition cls_of (v : verdict) : Z :=
  match v with VOk => 0 | VIndex => 1 | VAuth => 2 | VSid => 3 | VDup => 4 | VInvalid => 5 end.

Definition opt_bytes_eqb (a b : option (list Z)) : bool :=
  match a, b with
  | None, None => true
  | Some x, Some y => bytes_eqb x y
  | _, _ => false
  end.

Definition res_eqb {q} (o : obs q) (w : wres) : bool :=
  match o, w with
  | BSign ps, RSign i v sid sig =>
      (ps_i ps =? i) && (val (ps_v ps) =? v) && bytes_eqb (ps_sid ps) sid && bytes_eqb (ps_sig ps) sig
  | BRecv v, RRecv c => cls_of v =? c
  | _, _ => false
  end.

Fixpoint obs_eqb {q} (a : list (obs q * bool * option (list Z)))
                     (b : list (wres * bool * option (list Z))) : bool :=
  match a, b with
  | [], [] => true
  | (o, e, s) :: a', (w, e', s') :: b' =>
      res_eqb o w && Bool.eqb e e' && opt_bytes_eqb s s' && obs_eqb a' b'
  | _, _ => false
  end.

(* one DSS instance: NewDSS arguments, the history, what was observed after
   every call (result, EnoughPartialSig(), Signature()) *)
Inductive case :=
| CDss (id : Z) (q : Z) (hc : list (list Z * Z)) (hs : list (list Z * list Z))
       (parts : list Z) (sec : Z) (T : Z) (longC randC : list Z) (alpha beta : Z) (msg : list Z)
       (idx : Z) (ops : list wop) (observed : list (wres * bool * option (list Z))).

Definition check (c : case) : option Z :=
  match c with
  | CDss id q hc hs parts sec T longC randC alpha beta msg idx ops observed =>
      let Hc := fun x => of_Z q (lookup hc 0 x) in
      let Hs := fun x => lookup hs [-1] x in
      let zs := map (of_Z q) in
      match new_dss q (zs parts) (of_Z q sec) (Z.to_nat T) (zs longC) (zs randC)
                    (of_Z q alpha) (of_Z q beta) msg with
      | None => if idx =? -1 then None else Some id
      | Some cfg =>
          let mops := map (fun o => match o with
                                    | WSign k => OSign (of_Z q k)
                                    | WRecv i v sid sig => ORecv (mkpsig i (of_Z q v) sid sig)
                                    end) ops in
          let r := run_obs q (plen q) (slen q) (penc q) (pdec q) (senc q) (sdec q) Hc Hs
                           cfg init_state mops in
          if (c_idx cfg =? idx) && obs_eqb r observed then None else Some id
      end
  end.

Definition mismatches (cs : list case) : list Z :=
  flat_map (fun c => match check c with Some i => [i] | None => [] end) cs.
