(* Executable model of kyber's sign/dss/dss.go (distributed Schnorr signature).
   Definitions only; the theorems are in DSSProofs.v.

   A point of the prime-order group is modelled by its discrete logarithm
   (Algebra/Grp.v).  The Schnorr signature that authenticates a partial
   signature is sign/schnorr's, modelled in Sig/Schnorr.v (property C08) at byte
   level; Lagrange recovery of the response is share.RecoverSecret, modelled in
   Share/ShamirSM.v (property C07).  The point / scalar codecs and the two hash
   functions are Section variables:
     Hc : SHA-512 of a byte string reduced into the scalar field (hashSig of
          dss.go and hash of schnorr.go are the same function of R || A || msg),
     Hs : suite.Hash() (sessionID, PriShare.Hash, PartialSig.Hash).

   The Go map [partialsIdx] is only ever used for membership: it is a list. *)
From Coq Require Import ZArith List Bool.
From Kyber Require Import Algebra.Zq Algebra.Grp Share.ShamirSM Sig.Schnorr.
Import ListNotations.
Local Open Scope Z_scope.

(* error classes of ProcessPartialSig, in the order of the checks in the code *)
Inductive verdict :=
| VOk
| VIndex     (* ErrInvalidSignatureIndex: no participant with that index *)
| VAuth      (* schnorr.Verify of the partial's signature failed *)
| VSid       (* "session id do not match" *)
| VDup       (* "partial signature already received from peer" *)
| VInvalid.  (* "partial signature not valid" *)

Definition verdict_eqb (a b : verdict) : bool :=
  match a, b with
  | VOk, VOk | VIndex, VIndex | VAuth, VAuth | VSid, VSid | VDup, VDup | VInvalid, VInvalid => true
  | _, _ => false
  end.

Fixpoint bytes_eqb (a b : list Z) : bool :=
  match a, b with
  | [], [] => true
  | x :: a', y :: b' => (x =? y) && bytes_eqb a' b'
  | _, _ => false
  end.

(* binary.Write(h, binary.LittleEndian, uint32) *)
Definition le32 (i : Z) : list Z :=
  [i mod 256; (i / 256) mod 256; (i / 65536) mod 256; (i / 16777216) mod 256].

Section DSS.
  Variable q : Z.
  Notation F := (zq q).
  Notation point := (zq q) (only parsing).
  Variable plen slen : nat.
  Variable penc : point -> list Z.
  Variable pdec : list Z -> option point.
  Variable senc : F -> list Z.
  Variable sdec : list Z -> option F.
  Variable Hc : list Z -> F.
  Variable Hs : list Z -> list Z.

  (* PartialSig{Partial: &PriShare{I, V}, SessionID, Signature} *)
  Record psig := mkpsig { ps_i : Z; ps_v : F; ps_sid : list Z; ps_sig : list Z }.

  (* the immutable fields of a DSS struct: participants, own index and
     long-term secret, threshold, the commitments of the long-term and of the
     one-time distributed key, the own shares of both, the message *)
  Record config := mkcfg {
    c_parts : list point; c_idx : Z; c_sec : F; c_T : nat;
    c_longC : list point; c_randC : list point;
    c_alpha : F; c_beta : F; c_msg : list Z }.

  (* the mutable fields *)
  Record state := mkst { partials : list (Z * F); pidx : list Z; signed : bool }.

  Definition init_state : state := mkst [] [] false.

  (* NewDSS: the own index is the position of the first participant key equal
     to secret*B; [None] = "public key not found in list of participants" *)
  Fixpoint find_pub (pub : point) (l : list point) (k : Z) : option Z :=
    match l with
    | [] => None
    | p :: r => if peqb p pub then Some k else find_pub pub r (k + 1)
    end.

  Definition new_dss (parts : list point) (sec : F) (T : nat) (longC randC : list point)
             (alpha beta : F) (msg : list Z) : option config :=
    match find_pub (smul sec pbase) parts 0 with
    | Some i => Some (mkcfg parts i sec T longC randC alpha beta msg)
    | None => None
    end.

  (* sessionID: Hash(enc longC_0 || ... || enc randC_0 || ...) *)
  Definition session_id (c : config) : list Z :=
    Hs (flat_map penc (c_longC c) ++ flat_map penc (c_randC c)).

  (* hashSig: H(R || A || msg), R = random.Commitments()[0], A = long.Commitments()[0] *)
  Definition hash_sig (c : config) : F :=
    challenge q penc Hc (hd pzero (c_randC c)) (hd pzero (c_longC c)) (c_msg c).

  (* PriShare.Hash: Hash(enc V || le32 I);  PartialSig.Hash: Hash(that || SessionID) *)
  Definition share_hash (i : Z) (v : F) : list Z := Hs (senc v ++ le32 i).
  Definition ps_hash (ps : psig) : list Z := Hs (share_hash (ps_i ps) (ps_v ps) ++ ps_sid ps).

  (* the own partial: index = own participant index, value = hash*alpha + beta *)
  Definition own_partial (c : config) : Z * F :=
    (c_idx c, zadd (zmul (hash_sig c) (c_alpha c)) (c_beta c)).

  (* PartialSig(); [k] is the nonce schnorr.Sign draws from the suite's stream.
     The own partial is stored on the first call only ([signed]) - without
     looking at partialsIdx. *)
  Definition partial_sig (c : config) (k : F) (st : state) : psig * state :=
    let p := own_partial c in
    let ps0 := mkpsig (fst p) (snd p) (session_id c) [] in
    let ps := mkpsig (fst p) (snd p) (session_id c)
                     (schnorr_sign q penc senc Hc (c_sec c) k (ps_hash ps0)) in
    (ps, if signed st then st
         else mkst (partials st ++ [p]) (c_idx c :: pidx st) true).

  (* gamma_i * B == randomPoly.Eval(i).V + hash * longPoly.Eval(i).V *)
  Definition pub_check (c : config) (i : Z) (v : F) : bool :=
    peqb (smul v pbase)
         (padd (snd (pub_eval (c_randC c) i)) (smul (hash_sig c) (snd (pub_eval (c_longC c) i)))).

  (* ProcessPartialSig *)
  Definition process (c : config) (st : state) (ps : psig) : state * verdict :=
    let i := ps_i ps in
    if (i <? 0) || (Z.of_nat (length (c_parts c)) <=? i) then (st, VIndex) else
    let pub := nth (Z.to_nat i) (c_parts c) pzero in
    if negb (sverdict_ok (schnorr_verify_point q plen slen penc pdec sdec Hc pub (ps_hash ps) (ps_sig ps)))
    then (st, VAuth) else
    if negb (bytes_eqb (ps_sid ps) (session_id c)) then (st, VSid) else
    if existsb (Z.eqb i) (pidx st) then (st, VDup) else
    if negb (pub_check c i (ps_v ps)) then (st, VInvalid) else
    (mkst (partials st ++ [(i, ps_v ps)]) (i :: pidx st) (signed st), VOk).

  (* EnoughPartialSig: len(partials) >= T *)
  Definition enough (c : config) (st : state) : bool := (c_T c <=? length (partials st))%nat.

  (* the []*share.PriShare handed to RecoverSecret: no nil entry, no nil value *)
  Definition entries (l : list (Z * F)) : list (entry q) :=
    map (fun p => Some (fst p, Some (snd p))) l.

  (* Signature: enc R || enc gamma, gamma = RecoverSecret(partials, T, n);
     [None] = either error *)
  Definition signature (c : config) (st : state) : option (list Z) :=
    if negb (enough c st) then None else
    match recover_secret (c_T c) (entries (partials st)) with
    | None => None
    | Some g => Some (penc (hd pzero (c_randC c)) ++ senc g)
    end.

  (* histories of one DSS instance *)
  Inductive op := OSign (k : F) | ORecv (ps : psig).
  Inductive obs := BSign (ps : psig) | BRecv (v : verdict).

  Definition step (c : config) (st : state) (o : op) : state * obs :=
    match o with
    | OSign k => let r := partial_sig c k st in (snd r, BSign (fst r))
    | ORecv ps => let r := process c st ps in (fst r, BRecv (snd r))
    end.

  Definition run (c : config) (st : state) (ops : list op) : state :=
    fold_left (fun s o => fst (step c s o)) ops st.

  (* what is visible after every call: its result, EnoughPartialSig(), Signature() *)
  Fixpoint run_obs (c : config) (st : state) (ops : list op) : list (obs * bool * option (list Z)) :=
    match ops with
    | [] => []
    | o :: r => let s := step c st o in
                (snd s, enough c (fst s), signature c (fst s)) :: run_obs c (fst s) r
    end.
End DSS.

Arguments mkpsig {q} ps_i ps_v ps_sid ps_sig.
Arguments ps_i {q} p.
Arguments ps_v {q} p.
Arguments ps_sid {q} p.
Arguments ps_sig {q} p.
Arguments mkcfg {q} c_parts c_idx c_sec c_T c_longC c_randC c_alpha c_beta c_msg.
Arguments c_parts {q} c.
Arguments c_idx {q} c.
Arguments c_sec {q} c.
Arguments c_T {q} c.
Arguments c_longC {q} c.
Arguments c_randC {q} c.
Arguments c_alpha {q} c.
Arguments c_beta {q} c.
Arguments c_msg {q} c.
Arguments mkst {q} partials pidx signed.
Arguments partials {q} s.
Arguments pidx {q} s.
Arguments signed {q} s.
Arguments init_state {q}.
Arguments OSign {q} k.
Arguments ORecv {q} ps.
Arguments BSign {q} ps.
Arguments BRecv {q} v.
Arguments entries {q} l.
Arguments enough {q} c st.
