(* A concrete session on which all hypotheses of the C12 theorems hold
   (non-vacuity): q = 251, three participants, threshold 2, long-term polynomial
   5 + 7x, one-time polynomial 11 + 13x, toy codecs and toy hash functions.
   Participant 1 (not itself a signer) receives a forged partial, the valid
   partial of participant 2, a duplicate of it and the valid partial of
   participant 0; participant 0 signs itself and receives the partial of 2. *)
From Coq Require Import ZArith Znumtheory List Bool Lia.
From Kyber Require Import Algebra.Zq Algebra.Grp Share.ShamirSM Sig.Schnorr DSS.DSSSM DSS.DSSProofs.
Import ListNotations.
Local Open Scope Z_scope.

Definition xq : Z := 251.
Notation X := (zq xq).
Definition z (v : Z) : X := of_Z xq v.

Definition xpenc (p : X) : list Z := [val p].
Definition xdec (l : list Z) : option X := match l with [v] => Some (z v) | _ => None end.
Definition xHc (l : list Z) : X := z (fold_right Z.add 1 l).
Definition xHs (l : list Z) : list Z := [Z.of_nat (length l); (fold_right Z.add 7 l) mod 256].

Definition xsecs : list X := [z 2; z 3; z 4].
Definition xparts : list X := map (fun s => smul s pbase) xsecs.
Definition xapoly : list X := [z 5; z 7].
Definition xrpoly : list X := [z 11; z 13].
Definition xmsg : list Z := [104; 105].

Definition xcfg (j : Z) : config xq :=
  mkcfg xparts j (nth (Z.to_nat j) xsecs zzero) 2 (commit pbase xapoly) (commit pbase xrpoly)
        (peval xapoly (xeval xq j)) (peval xrpoly (xeval xq j)) xmsg.

Definition xps (j k : Z) : psig xq := fst (partial_sig xq xpenc xpenc xHc xHs (xcfg j) (z k) init_state).

(* a forged partial: the value of signer 2 plus one, re-signed by signer 2 *)
Definition xforged : psig xq :=
  let p := xps 2 9 in
  let p0 := mkpsig 2 (zadd (ps_v p) zone) (ps_sid p) [] in
  mkpsig 2 (zadd (ps_v p) zone) (ps_sid p)
         (schnorr_sign xq xpenc xpenc xHc (z 4) (z 33) (ps_hash xq xpenc xHs p0)).

Definition xops1 : list (op xq) := [ORecv xforged; ORecv (xps 2 9); ORecv (xps 2 10); ORecv (xps 0 21)].
Definition xops0 : list (op xq) := [OSign (z 77); ORecv (xps 2 9)].

Lemma z_val (a : X) : z (val a) = a.
Proof. apply zq_eq. unfold z. rewrite val_of_Z. apply val_mod. Qed.

Lemma xcodec : codec_ok xq 1 1 xpenc xdec xpenc xdec.
Proof.
  unfold codec_ok, xpenc, xdec. repeat split; intros; try reflexivity; rewrite z_val; reflexivity.
Qed.

Lemma xsession : session_ok xq xparts 2 xapoly xrpoly.
Proof. unfold session_ok. cbn. repeat split; lia. Qed.

Lemma xwf j : 0 <= j < 3 -> wf xq xparts 2 xapoly xrpoly xmsg (xcfg j).
Proof.
  intros H. unfold wf, xcfg. cbn [c_parts c_T c_longC c_randC c_msg c_idx c_sec c_alpha c_beta].
  repeat split; try reflexivity; try (cbn; lia).
  assert (E : j = 0 \/ j = 1 \/ j = 2) by lia. destruct E as [->|[->| ->]]; reflexivity.
Qed.

Lemma xhonest j k : 0 <= j < 3 ->
  honest_ps xq xpenc xpenc xHc xHs xparts 2 xapoly xrpoly xmsg j (xps j k).
Proof.
  intros H. exists (xcfg j), (z k), init_state. split; [apply xwf; exact H|]. split; reflexivity.
Qed.

Theorem example_instance :
  prime xq /\ codec_ok xq 1 1 xpenc xdec xpenc xdec /\ session_ok xq xparts 2 xapoly xrpoly /\
  wf xq xparts 2 xapoly xrpoly xmsg (xcfg 0) /\ wf xq xparts 2 xapoly xrpoly xmsg (xcfg 1) /\
  (forall j, In j [2; 0] -> delivered xq xpenc xpenc xHc xHs xparts 2 xapoly xrpoly xmsg (xcfg 1) xops1 j) /\
  (forall j, In j [0; 2] -> delivered xq xpenc xpenc xHc xHs xparts 2 xapoly xrpoly xmsg (xcfg 0) xops0 j) /\
  (* what the model computes on the two histories *)
  map (fun r => snd (fst r)) (run_obs xq 1 1 xpenc xdec xpenc xdec xHc xHs (xcfg 1) init_state xops1)
    = [false; false; false; true] /\
  map (fun r => match fst (fst r) with BRecv v => v | BSign _ => VOk end)
      (run_obs xq 1 1 xpenc xdec xpenc xdec xHc xHs (xcfg 1) init_state xops1)
    = [VInvalid; VOk; VDup; VOk] /\
  signature xq xpenc xpenc (xcfg 1) (run xq 1 1 xpenc xdec xpenc xdec xHc xHs (xcfg 1) init_state xops1)
    = Some (the_signature xq xpenc xpenc xHc xapoly xrpoly xmsg) /\
  signature xq xpenc xpenc (xcfg 0) (run xq 1 1 xpenc xdec xpenc xdec xHc xHs (xcfg 0) init_state xops0)
    = Some (the_signature xq xpenc xpenc xHc xapoly xrpoly xmsg) /\
  the_signature xq xpenc xpenc xHc xapoly xrpoly xmsg = [11; 137].
Proof.
  split; [exact prime_251|]. split; [exact xcodec|]. split; [exact xsession|].
  split; [apply xwf; lia|]. split; [apply xwf; lia|].
  split.
  { intros j [<-|[<-|[]]]; left.
    - exists (xps 2 9). split; [apply xhonest; lia|]. right. left. reflexivity.
    - exists (xps 0 21). split; [apply xhonest; lia|]. right. right. right. left. reflexivity. }
  split.
  { intros j [<-|[<-|[]]].
    - right. split; [reflexivity|]. exists (z 77). left. reflexivity.
    - left. exists (xps 2 9). split; [apply xhonest; lia|]. right. left. reflexivity. }
  repeat split; vm_compute; reflexivity.
Qed.
