(* Theorems about the DSS model (property C12).  Everything is proved for every
   prime q, every codec that round-trips, every pair of hash functions, every
   number of participants n < q, every threshold 1 <= T, every pair of secret
   polynomials with T coefficients, every message and every history. *)
From Coq Require Import ZArith Znumtheory List Bool Lia Ring Field Permutation.
From Kyber Require Import Algebra.Zq Algebra.Grp Share.ShamirSM Share.PolyFacts Share.ShamirProofs
                          Sig.Schnorr DSS.DSSSM.
Import ListNotations.
Local Open Scope Z_scope.

Lemma bytes_eqb_eq : forall a b, bytes_eqb a b = true <-> a = b.
Proof.
  induction a as [|x a IH]; destruct b as [|y b]; cbn [bytes_eqb]; split; intros H;
    try reflexivity; try discriminate.
  - apply andb_true_iff in H. destruct H as [H1 H2]. apply Z.eqb_eq in H1. apply IH in H2. congruence.
  - inversion H; subst. rewrite Z.eqb_refl. cbn. apply IH. reflexivity.
Qed.

Lemma existsb_eqb_in i l : existsb (Z.eqb i) l = true <-> In i l.
Proof.
  rewrite existsb_exists. split.
  - intros [x [Hin E]]. apply Z.eqb_eq in E. subst. exact Hin.
  - intros H. exists i. split; [exact H|apply Z.eqb_refl].
Qed.

Lemma nodup_length_le (l : list Z) : (length (nodup Z.eq_dec l) <= length l)%nat.
Proof.
  induction l as [|a l IH]; cbn [nodup length]; [lia|].
  destruct (in_dec Z.eq_dec a l); cbn [length]; lia.
Qed.

Section DSSProcess.
  Variable q : Z.
  Hypothesis q_prime : prime q.
  Add Field zqF_dss : (zq_field q q_prime).
  Notation F := (zq q).
  Variable plen slen : nat.
  Variable penc : F -> list Z.
  Variable pdec : list Z -> option F.
  Variable senc : F -> list Z.
  Variable sdec : list Z -> option F.
  Variable Hc : list Z -> F.
  Variable Hs : list Z -> list Z.

  (* what is assumed of a codec: fixed lengths, decoding inverts encoding *)
  Hypothesis penc_len : forall P, length (penc P) = plen.
  Hypothesis senc_len : forall s, length (senc s) = slen.
  Hypothesis pdec_enc : forall P, pdec (penc P) = Some P.
  Hypothesis sdec_enc : forall s, sdec (senc s) = Some s.

  Notation psig := (psig q).
  Notation config := (config q).
  Notation state := (state q).
  Notation op := (op q).
  Notation challenge := (challenge q penc Hc).
  Notation ssign := (schnorr_sign q penc senc Hc).
  Notation sverify := (schnorr_verify_point q plen slen penc pdec sdec Hc).
  Notation session_id := (session_id q penc Hs).
  Notation hash_sig := (hash_sig q penc Hc).
  Notation ps_hash := (ps_hash q senc Hs).
  Notation own_partial := (own_partial q penc Hc).
  Notation partial_sig := (partial_sig q penc senc Hc Hs).
  Notation pub_check := (pub_check q penc Hc).
  Notation process := (process q plen slen penc pdec senc sdec Hc Hs).
  Notation signature := (signature q penc senc).
  Notation step := (step q plen slen penc pdec senc sdec Hc Hs).
  Notation run := (run q plen slen penc pdec senc sdec Hc Hs).

  (* ------------------------------------------------------------------ ProcessPartialSig:
     acceptance is exactly the conjunction of the five checks, the accepted
     partial is appended, and a rejected one changes nothing *)
  Definition accepts (c : config) (st : state) (ps : psig) : Prop :=
    0 <= ps_i ps < Z.of_nat (length (c_parts c)) /\
    sverify (nth (Z.to_nat (ps_i ps)) (c_parts c) pzero) (ps_hash ps) (ps_sig ps) = SOk /\
    ps_sid ps = session_id c /\
    ~ In (ps_i ps) (pidx st) /\
    pub_check c (ps_i ps) (ps_v ps) = true.

  Definition stored (st : state) (ps : psig) : state :=
    mkst (partials st ++ [(ps_i ps, ps_v ps)]) (ps_i ps :: pidx st) (signed st).

  Lemma process_dec c st ps :
    (accepts c st ps /\ process c st ps = (stored st ps, VOk)) \/
    (~ accepts c st ps /\ fst (process c st ps) = st /\ snd (process c st ps) <> VOk).
  Proof.
    unfold accepts, stored, DSSSM.process.
    destruct ((ps_i ps <? 0) || (Z.of_nat (length (c_parts c)) <=? ps_i ps)) eqn:E1.
    { right. apply orb_true_iff in E1. split; [intros [H _]; lia|]. split; [reflexivity|discriminate]. }
    apply orb_false_iff in E1. destruct E1 as [E1a E1b].
    destruct (sverify (nth (Z.to_nat (ps_i ps)) (c_parts c) pzero) (ps_hash ps) (ps_sig ps)) eqn:E2;
      cbn [sverdict_ok negb];
      try (right; split; [intros [_ [H _]]; discriminate|split; [reflexivity|discriminate]]).
    destruct (bytes_eqb (ps_sid ps) (session_id c)) eqn:E3; cbn [negb].
    2:{ right. split; [intros [_ [_ [H _]]]|split; [reflexivity|discriminate]].
        apply bytes_eqb_eq in H. congruence. }
    apply bytes_eqb_eq in E3.
    destruct (existsb (Z.eqb (ps_i ps)) (pidx st)) eqn:E4.
    { right. split; [intros [_ [_ [_ [H _]]]]|split; [reflexivity|discriminate]].
      apply existsb_eqb_in in E4. contradiction. }
    destruct (pub_check c (ps_i ps) (ps_v ps)) eqn:E5; cbn [negb].
    2:{ right. split; [intros [_ [_ [_ [_ H]]]]; discriminate|split; [reflexivity|discriminate]]. }
    left. split; [|reflexivity]. repeat split; try lia; try assumption.
    intros Hin. apply existsb_eqb_in in Hin. congruence.
  Qed.

  Theorem process_spec c st ps :
    (accepts c st ps -> process c st ps = (stored st ps, VOk)) /\
    (~ accepts c st ps -> fst (process c st ps) = st /\ snd (process c st ps) <> VOk).
  Proof.
    destruct (process_dec c st ps) as [[A E]|[A E]]; split; intros H; try contradiction; assumption.
  Qed.

  Corollary process_accept_iff c st ps : snd (process c st ps) = VOk <-> accepts c st ps.
  Proof.
    destruct (process_dec c st ps) as [[A E]|[A [E1 E2]]]; split; intros H; try contradiction; try assumption.
    rewrite E. reflexivity.
  Qed.

  Corollary reject_unchanged c st ps : snd (process c st ps) <> VOk -> fst (process c st ps) = st.
  Proof.
    destruct (process_dec c st ps) as [[A E]|[A [E1 E2]]]; intros H; [|exact E1].
    rewrite E in H. cbn in H. congruence.
  Qed.

  (* the error class is determined by the first failing check, in code order *)
  Theorem process_classes c st ps :
    let i := ps_i ps in
    let v := snd (process c st ps) in
    (v = VIndex <-> ~ (0 <= i < Z.of_nat (length (c_parts c)))) /\
    (v = VDup -> In i (pidx st)) /\
    (v = VSid -> ps_sid ps <> session_id c) /\
    (v = VInvalid -> pub_check c i (ps_v ps) = false) /\
    (v = VAuth -> sverify (nth (Z.to_nat i) (c_parts c) pzero) (ps_hash ps) (ps_sig ps) <> SOk).
  Proof.
    cbv zeta. unfold DSSSM.process.
    destruct ((ps_i ps <? 0) || (Z.of_nat (length (c_parts c)) <=? ps_i ps)) eqn:E1.
    { cbn [snd]. apply orb_true_iff in E1. repeat split; try discriminate; intros; lia. }
    apply orb_false_iff in E1. destruct E1 as [E1a E1b].
    destruct (sverify (nth (Z.to_nat (ps_i ps)) (c_parts c) pzero) (ps_hash ps) (ps_sig ps)) eqn:E2;
      cbn [sverdict_ok negb snd];
      try (repeat split; try discriminate; intros; lia).
    destruct (bytes_eqb (ps_sid ps) (session_id c)) eqn:E3; cbn [negb snd].
    2:{ repeat split; try discriminate; try (intros; lia).
        intros _ H. apply bytes_eqb_eq in H. congruence. }
    destruct (existsb (Z.eqb (ps_i ps)) (pidx st)) eqn:E4; cbn [snd].
    { repeat split; try discriminate; try (intros; lia). intros _. apply existsb_eqb_in. exact E4. }
    destruct (pub_check c (ps_i ps) (ps_v ps)) eqn:E5; cbn [negb snd];
      repeat split; try discriminate; try (intros; lia).
  Qed.

  (* ------------------------------------------------------------------ rejections:
     a partial that fails ANY of the checks is rejected and changes nothing -
     whatever the state, whatever else the message contains *)
  Lemma reject_if c st ps : ~ accepts c st ps ->
    fst (process c st ps) = st /\ snd (process c st ps) <> VOk.
  Proof. apply process_spec. Qed.

  Corollary reject_out_of_range c st ps :
    ~ (0 <= ps_i ps < Z.of_nat (length (c_parts c))) -> process c st ps = (st, VIndex).
  Proof.
    intros H. unfold DSSSM.process.
    replace ((ps_i ps <? 0) || (Z.of_nat (length (c_parts c)) <=? ps_i ps)) with true; [reflexivity|].
    symmetry. apply orb_true_iff. destruct (Z.ltb_spec (ps_i ps) 0); [left; reflexivity|right].
    apply Z.leb_le. lia.
  Qed.

  Corollary reject_unauthenticated c st ps :
    sverify (nth (Z.to_nat (ps_i ps)) (c_parts c) pzero) (ps_hash ps) (ps_sig ps) <> SOk ->
    fst (process c st ps) = st /\ snd (process c st ps) <> VOk.
  Proof. intros H. apply reject_if. intros [_ [A _]]. contradiction. Qed.

  Corollary reject_other_session c st ps :
    ps_sid ps <> session_id c -> fst (process c st ps) = st /\ snd (process c st ps) <> VOk.
  Proof. intros H. apply reject_if. intros [_ [_ [A _]]]. contradiction. Qed.

  Corollary reject_duplicate c st ps :
    In (ps_i ps) (pidx st) -> fst (process c st ps) = st /\ snd (process c st ps) <> VOk.
  Proof. intros H. apply reject_if. intros [_ [_ [_ [A _]]]]. contradiction. Qed.

  (* the signature on an accepted partial satisfies Schnorr's equation under the
     key of the participant the partial claims to come from *)
  Theorem accepted_is_authentic c st ps : accepts c st ps ->
    let pub := nth (Z.to_nat (ps_i ps)) (c_parts c) pzero in
    length (ps_sig ps) = (plen + slen)%nat /\
    exists R s, pdec (firstn plen (ps_sig ps)) = Some R /\ sdec (skipn plen (ps_sig ps)) = Some s /\
                smul s pbase = padd R (smul (challenge R pub (ps_hash ps)) pub).
  Proof.
    intros [_ [A _]]. cbv zeta. unfold schnorr_verify_point in A.
    apply (schnorr_accept_iff q q_prime) in A. destruct A as [L [R [s [A' [H1 [H2 [H3 H4]]]]]]].
    rewrite pdec_enc in H3. injection H3 as <-. split; [exact L|]. exists R, s. repeat split; assumption.
  Qed.

  (* a message re-signed with another key x' verifies under [pub] only on a
     coincidence of the two challenge values *)
  Theorem resigned_accept_iff (x' k pub : F) (m : list Z) :
    sverify pub m (ssign x' k m) = SOk <->
    zmul (challenge (smul k pbase) pub m) pub =
    zmul (challenge (smul k pbase) (smul x' pbase) m) (smul x' pbase).
  Proof.
    unfold schnorr_verify_point. rewrite (schnorr_accept_iff q q_prime). unfold schnorr_sign.
    rewrite (Schnorr.firstn_app_len _ _ plen (penc_len _)), (Schnorr.skipn_app_len _ _ plen (penc_len _)).
    rewrite !pdec_enc, sdec_enc, app_length, penc_len, senc_len.
    set (h := challenge (smul k pbase) pub m). set (h' := challenge (smul k pbase) (smul x' pbase) m).
    split.
    - intros [_ [R [s [A [H1 [H2 [H3 H4]]]]]]]. injection H1 as <-. injection H2 as <-. injection H3 as <-.
      fold h in H4. unfold smul, padd, pbase in *.
      transitivity (zsub (zmul (zadd k (zmul x' h')) zone) (zmul k zone)); [rewrite H4; ring|ring].
    - intros H. split; [reflexivity|]. exists (smul k pbase), (zadd k (zmul x' h')), pub.
      repeat split. fold h. unfold smul, padd, pbase in *. rewrite H. ring.
  Qed.

  Corollary resigned_rejected c st ps x' k : 
    let pub := nth (Z.to_nat (ps_i ps)) (c_parts c) pzero in
    ps_sig ps = ssign x' k (ps_hash ps) ->
    zmul (challenge (smul k pbase) pub (ps_hash ps)) pub <>
    zmul (challenge (smul k pbase) (smul x' pbase) (ps_hash ps)) (smul x' pbase) ->   (* no hash coincidence *)
    fst (process c st ps) = st /\ snd (process c st ps) <> VOk.
  Proof.
    cbv zeta. intros E H. apply reject_unauthenticated. rewrite E. intros A. apply H.
    apply resigned_accept_iff. exact A.
  Qed.

  (* whatever is stored came in through an accepted call or is the own partial *)
  Theorem stored_provenance c : forall ops st p, In p (partials (run c st ops)) ->
    In p (partials st) \/ p = own_partial c \/
    exists ps, In (ORecv ps) ops /\ p = (ps_i ps, ps_v ps).
  Proof.
    induction ops as [|o ops IH]; intros st p H; [left; exact H|].
    unfold DSSSM.run in *. cbn [fold_left] in H. apply IH in H.
    destruct H as [H|[H|[ps [H1 H2]]]]; [|right; left; exact H|right; right; exists ps; split; [right; exact H1|exact H2]].
    destruct o as [k|ps]; cbn [DSSSM.step fst] in H.
    - unfold DSSSM.partial_sig in H. cbn [snd] in H. destruct (signed st); [left; exact H|].
      cbn [partials] in H. apply in_app_iff in H. destruct H as [H|[<-|[]]]; [left; exact H|right; left; reflexivity].
    - destruct (process_dec c st ps) as [[_ E]|[_ [E _]]]; rewrite E in H; [|left; exact H].
      cbn [fst] in H. unfold stored in H. cbn [partials] in H. apply in_app_iff in H.
      destruct H as [H|[<-|[]]]; [left; exact H|]. right. right. exists ps. split; [left; reflexivity|reflexivity].
  Qed.

End DSSProcess.

Section DSSSession.
  Variable q : Z.
  Hypothesis q_prime : prime q.
  Add Field zqF_dss2 : (zq_field q q_prime).
  Notation F := (zq q).
  Variable plen slen : nat.
  Variable penc : F -> list Z.
  Variable pdec : list Z -> option F.
  Variable senc : F -> list Z.
  Variable sdec : list Z -> option F.
  Variable Hc : list Z -> F.
  Variable Hs : list Z -> list Z.

  (* what is assumed of a codec: fixed lengths, decoding inverts encoding *)
  Hypothesis penc_len : forall P, length (penc P) = plen.
  Hypothesis senc_len : forall s, length (senc s) = slen.
  Hypothesis pdec_enc : forall P, pdec (penc P) = Some P.
  Hypothesis sdec_enc : forall s, sdec (senc s) = Some s.

  Notation psig := (psig q).
  Notation config := (config q).
  Notation state := (state q).
  Notation op := (op q).
  Notation challenge := (challenge q penc Hc).
  Notation ssign := (schnorr_sign q penc senc Hc).
  Notation sverify := (schnorr_verify_point q plen slen penc pdec sdec Hc).
  Notation session_id := (session_id q penc Hs).
  Notation hash_sig := (hash_sig q penc Hc).
  Notation ps_hash := (ps_hash q senc Hs).
  Notation own_partial := (own_partial q penc Hc).
  Notation partial_sig := (partial_sig q penc senc Hc Hs).
  Notation pub_check := (pub_check q penc Hc).
  Notation process := (process q plen slen penc pdec senc sdec Hc Hs).
  Notation signature := (signature q penc senc).
  Notation step := (step q plen slen penc pdec senc sdec Hc Hs).
  Notation run := (run q plen slen penc pdec senc sdec Hc Hs).
  Notation accepts := (accepts q plen slen penc pdec senc sdec Hc Hs).
  Notation stored := (stored q).
  Notation process_dec := (process_dec q plen slen penc pdec senc sdec Hc Hs).
  Notation process_spec := (process_spec q plen slen penc pdec senc sdec Hc Hs).
  Notation reject_if := (reject_if q plen slen penc pdec senc sdec Hc Hs).

  (* ------------------------------------------------------------------ the session:
     n participants, threshold T, the two secret polynomials the DKGs shared
     (long-term key a, one-time key r), the message *)
  Variable parts : list F.
  Variable T : nat.
  Variables apoly rpoly : list F.
  Variable msg : list Z.
  Hypothesis T_pos : (1 <= T)%nat.
  Hypothesis apoly_len : length apoly = T.
  Hypothesis rpoly_len : length rpoly = T.
  Hypothesis n_lt_q : Z.of_nat (length parts) < q.
  Hypothesis n_u32 : Z.of_nat (length parts) < 4294967296.

  Let n := Z.of_nat (length parts).
  Definition a0 : F := hd zzero apoly.                (* the distributed long-term secret *)
  Definition r0 : F := hd zzero rpoly.                (* the distributed one-time secret *)
  Definition Apub : F := smul a0 pbase.               (* distributed public key A = a*B *)
  Definition Rpub : F := smul r0 pbase.               (* R = r*B *)
  Definition hmsg : F := challenge Rpub Apub msg.     (* H(R || A || msg) *)

  (* the polynomial all valid partials lie on: gamma(x) = r(x) + h * a(x) *)
  Definition spoly : list F := zip_add rpoly (pscale hmsg apoly).

  (* participant [c_idx c] of the session, holding the shares the DKGs gave it *)
  Definition wf (c : config) : Prop :=
    c_parts c = parts /\ c_T c = T /\
    c_longC c = commit pbase apoly /\ c_randC c = commit pbase rpoly /\
    c_msg c = msg /\
    0 <= c_idx c < n /\
    nth (Z.to_nat (c_idx c)) parts pzero = smul (c_sec c) pbase /\
    c_alpha c = peval apoly (xeval q (c_idx c)) /\
    c_beta c = peval rpoly (xeval q (c_idx c)).

  (* a stored partial is valid: index of a participant, value on [spoly] *)
  Definition valid_p (p : Z * F) : Prop :=
    0 <= fst p < n /\ snd p = peval spoly (xeval q (fst p)).

  (* the signature every participant must end up with: the ordinary Schnorr
     signature of [msg] under the secret a0 with nonce r0 (sign/schnorr, C08) *)
  Definition the_signature : list Z := ssign a0 r0 msg.

  Lemma hd_commit (c : list F) : hd pzero (commit pbase c) = smul (hd zzero c) pbase.
  Proof. destruct c as [|x c]; cbn [commit map hd]; [|reflexivity]. unfold smul, pzero, pbase. ring. Qed.

  Lemma hash_sig_wf c : wf c -> hash_sig c = hmsg.
  Proof.
    intros [_ [_ [HL [HR [HM _]]]]]. unfold DSSSM.hash_sig. rewrite HL, HR, HM, !hd_commit. reflexivity.
  Qed.

  Lemma spoly_len : length spoly = T.
  Proof.
    unfold spoly. rewrite length_zip_add; [exact rpoly_len|].
    rewrite length_pscale. congruence.
  Qed.

  Lemma spoly_eval x : peval spoly x = zadd (peval rpoly x) (zmul hmsg (peval apoly x)).
  Proof.
    unfold spoly. rewrite peval_zip_add by first [exact q_prime | rewrite length_pscale; congruence].
    rewrite peval_pscale by exact q_prime. ring.
  Qed.

  Lemma spoly_hd : hd zzero spoly = zadd r0 (zmul a0 hmsg).
  Proof.
    unfold spoly, a0, r0. destruct rpoly as [|r rp], apoly as [|a ap]; cbn [length] in *; try lia.
    cbn [pscale map zip_add hd]. ring.
  Qed.

  Lemma the_signature_eq : the_signature = penc Rpub ++ senc (hd zzero spoly).
  Proof. unfold the_signature, schnorr_sign. rewrite spoly_hd. reflexivity. Qed.

  Lemma pub_eval_commit (c : list F) i : snd (pub_eval (commit pbase c) i) = smul (peval c (xeval q i)) pbase.
  Proof. rewrite eval_commit_commute by exact q_prime. reflexivity. Qed.

  (* the public check accepts exactly the value on the polynomial *)
  Lemma pub_check_iff c i v : wf c -> (pub_check c i v = true <-> v = peval spoly (xeval q i)).
  Proof.
    intros W. unfold DSSSM.pub_check. rewrite (hash_sig_wf c W).
    destruct W as [_ [_ [HL [HR _]]]]. rewrite HL, HR, !pub_eval_commit, spoly_eval.
    unfold peqb. rewrite zeqb_eq. unfold smul, padd, pbase. split; intros H.
    - transitivity (zmul v zone); [ring|]. rewrite H. ring.
    - rewrite H. ring.
  Qed.

  Lemma own_partial_valid c : wf c -> valid_p (own_partial c).
  Proof.
    intros W. unfold valid_p, DSSSM.own_partial. cbn [fst snd]. rewrite (hash_sig_wf c W).
    destruct W as [_ [_ [_ [_ [_ [Hi [_ [Ha Hb]]]]]]]]. split; [exact Hi|].
    rewrite spoly_eval, Ha, Hb. ring.
  Qed.

  (* ------------------------------------------------------------------ invariant of every history:
     every stored partial is a valid one, the index set is exactly the set of
     stored indices, the own index is recorded once signed *)
  Definition inv (c : config) (st : state) : Prop :=
    Forall valid_p (partials st) /\
    (forall i, In i (pidx st) <-> In i (map fst (partials st))) /\
    (signed st = true -> In (c_idx c) (pidx st)).

  Lemma inv_init c : inv c init_state.
  Proof.
    unfold inv, init_state. cbn. split; [constructor|]. split; [tauto|discriminate].
  Qed.

  Lemma inv_add c st i v b :
    inv c st -> valid_p (i, v) -> (b = true -> i = c_idx c \/ signed st = true) ->
    inv c (mkst (partials st ++ [(i, v)]) (i :: pidx st) b).
  Proof.
    intros [I1 [I2 I3]] Hp Hb. unfold inv. cbn [partials pidx signed]. split; [|split].
    - apply Forall_app. split; [exact I1|constructor; [exact Hp|constructor]].
    - intros j. rewrite map_app, in_app_iff. cbn [map In fst]. rewrite (I2 j). tauto.
    - intros E. destruct (Hb E) as [->|H]; [left; reflexivity|right; apply I3; exact H].
  Qed.

  Lemma process_inv c st ps : wf c -> inv c st -> inv c (fst (process c st ps)).
  Proof.
    intros W I. destruct (process_dec c st ps) as [[A E]|[_ [E _]]]; [|rewrite E; exact I].
    rewrite E. cbn [fst]. unfold stored.
    apply inv_add; [exact I| |].
    - destruct A as [A1 [_ [_ [_ A5]]]]. split; cbn [fst snd].
      + destruct W as [Wp _]. rewrite Wp in A1. exact A1.
      + apply (pub_check_iff c); assumption.
    - intros H. right. exact H.
  Qed.

  Lemma partial_sig_inv c k st : wf c -> inv c st -> inv c (snd (partial_sig c k st)).
  Proof.
    intros W I. unfold DSSSM.partial_sig. cbn [snd]. destruct (signed st) eqn:E; [exact I|].
    pose proof (own_partial_valid c W) as V. unfold DSSSM.own_partial in *.
    apply inv_add; [exact I|exact V|]. intros _. left. reflexivity.
  Qed.

  Lemma step_inv c st o : wf c -> inv c st -> inv c (fst (step c st o)).
  Proof.
    intros W I. destruct o as [k|ps]; cbn [DSSSM.step fst].
    - apply partial_sig_inv; assumption.
    - apply process_inv; assumption.
  Qed.

  Lemma run_inv c : wf c -> forall ops st, inv c st -> inv c (run c st ops).
  Proof.
    intros W. induction ops as [|o ops IH]; intros st I; [exact I|].
    unfold DSSSM.run in *. cbn [fold_left]. apply IH. apply step_inv; assumption.
  Qed.

  (* ------------------------------------------------------------------ Signature() *)
  Definition distinct_stored (st : state) : nat := length (nodup Z.eq_dec (map fst (partials st))).

  Lemma valid_idx_entries (l : list (Z * F)) : valid_idx (entries l) = map fst l.
  Proof.
    induction l as [|p l IH]; [reflexivity|].
    unfold valid_idx, entries in *. cbn [map nonnil flat_map app]. unfold vidx in *.
    cbn [flat_map snd fst app]. rewrite <- IH. reflexivity.
  Qed.

  (* no signature from fewer than T distinct stored partials - in EVERY state *)
  Theorem signature_below_t c st : (distinct_stored st < c_T c)%nat -> signature c st = None.
  Proof.
    intros H. unfold DSSSM.signature. destruct (negb (enough c st)); [reflexivity|].
    destruct (recover_secret_refuses q (c_T c) (entries (partials st))) as [E _].
    - rewrite valid_idx_entries. exact H.
    - rewrite E. reflexivity.
  Qed.

  Lemma distinct_le_length (st : state) : (distinct_stored st <= length (partials st))%nat.
  Proof.
    unfold distinct_stored. etransitivity; [apply nodup_length_le|]. rewrite map_length. lia.
  Qed.

  (* at a participant of the session, in a state satisfying the invariant, T
     distinct stored partials give THE signature *)
  Theorem signature_correct c st :
    wf c -> inv c st -> (T <= distinct_stored st)%nat -> signature c st = Some the_signature.
  Proof.
    intros W [I1 _] Hd. unfold DSSSM.signature, DSSSM.enough.
    pose proof W as [_ [WT [_ [WR _]]]]. rewrite WT.
    pose proof (distinct_le_length st) as Hl.
    replace (T <=? length (partials st))%nat with true by (symmetry; apply Nat.leb_le; lia).
    cbn [negb].
    rewrite (recover_secret_correct q q_prime T spoly (entries (partials st)) T_pos spoly_len).
    - rewrite WR, hd_commit, the_signature_eq. reflexivity.
    - intros i y Hin. unfold entries in Hin. apply in_map_iff in Hin. destruct Hin as [p [E Hp]].
      injection E as <- <-. rewrite Forall_forall in I1. destruct (I1 p Hp) as [V1 V2].
      unfold n in V1. repeat split; try lia. exact V2.
    - rewrite valid_idx_entries. exact Hd.
  Qed.

  (* ------------------------------------------------------------------ honest partials *)
  (* what participant j of the session sends: the output of its PartialSig(),
     for any nonce and whatever it has stored itself *)
  Definition honest_ps (j : Z) (ps : psig) : Prop :=
    exists cj k stj, wf cj /\ c_idx cj = j /\ ps = fst (partial_sig cj k stj).

  Lemma session_id_wf c c' : wf c -> wf c' -> session_id c = session_id c'.
  Proof.
    intros [_ [_ [L [R _]]]] [_ [_ [L' [R' _]]]]. unfold DSSSM.session_id. rewrite L, R, L', R'. reflexivity.
  Qed.

  Lemma bytes_eqb_refl a : bytes_eqb a a = true.
  Proof. apply bytes_eqb_eq. reflexivity. Qed.

  (* an honest partial of the session is accepted at every participant, in every
     state, unless one with its index is already stored *)
  Theorem honest_process c st j ps : wf c -> honest_ps j ps ->
    ps_i ps = j /\
    process c st ps = if existsb (Z.eqb j) (pidx st) then (st, VDup) else (stored st ps, VOk).
  Proof.
    intros W [cj [k [stj [Wj [Ej ->]]]]]. unfold DSSSM.partial_sig. cbn [fst].
    set (ps0 := mkpsig (fst (own_partial cj)) (snd (own_partial cj)) (session_id cj) []).
    set (ps := mkpsig _ _ _ _).
    assert (Ei : ps_i ps = j) by (unfold ps; cbn [ps_i]; unfold DSSSM.own_partial; cbn [fst]; exact Ej).
    split; [exact Ei|].
    assert (Eh : ps_hash ps = ps_hash ps0) by reflexivity.
    unfold DSSSM.process. rewrite Ei.
    pose proof Wj as [Wjp [_ [_ [_ [_ [Wji [Wjs _]]]]]]]. rewrite Ej in Wji, Wjs.
    pose proof W as [Wp _]. rewrite Wp. fold n.
    replace ((j <? 0) || (n <=? j)) with false by (symmetry; apply orb_false_iff; split; [apply Z.ltb_ge|apply Z.leb_gt]; lia).
    rewrite Wjs. rewrite Eh. unfold ps at 1. cbn [ps_sig].
    unfold schnorr_verify_point.
    rewrite (schnorr_complete q q_prime plen slen penc pdec senc sdec Hc penc_len senc_len pdec_enc sdec_enc).
    cbn [sverdict_ok negb]. unfold ps at 1. cbn [ps_sid].
    rewrite (session_id_wf cj c Wj W), bytes_eqb_refl. cbn [negb].
    destruct (existsb (Z.eqb j) (pidx st)); [reflexivity|].
    replace (pub_check c j (ps_v ps)) with true; [cbn [negb]; unfold stored; rewrite Ei; reflexivity|].
    symmetry. apply (pub_check_iff c j _ W). unfold ps. cbn [ps_v].
    destruct (own_partial_valid cj Wj) as [_ V]. unfold DSSSM.own_partial in *. cbn [fst snd] in *.
    rewrite Ej in V. exact V.
  Qed.

  Lemma pidx_mono_step c st o i : In i (pidx st) -> In i (pidx (fst (step c st o))).
  Proof.
    intros H. destruct o as [k|ps]; cbn [DSSSM.step fst].
    - unfold DSSSM.partial_sig. cbn [snd]. destruct (signed st); [exact H|]. cbn [pidx]. right. exact H.
    - destruct (process_dec c st ps) as [[_ E]|[_ [E _]]]; rewrite E; [|exact H].
      cbn [fst]. unfold stored. cbn [pidx]. right. exact H.
  Qed.

  Lemma pidx_mono_run c : forall ops st i, In i (pidx st) -> In i (pidx (run c st ops)).
  Proof.
    induction ops as [|o ops IH]; intros st i H; [exact H|].
    unfold DSSSM.run in *. cbn [fold_left]. apply IH. apply pidx_mono_step. exact H.
  Qed.

  Lemma recv_honest_in c : wf c -> forall ops st j ps, honest_ps j ps -> In (ORecv ps) ops ->
    In j (pidx (run c st ops)).
  Proof.
    intros W. induction ops as [|o ops IH]; intros st j ps Hh Hin; [contradiction|].
    unfold DSSSM.run in *. cbn [fold_left]. destruct Hin as [->|Hin]; [|eapply IH; eassumption].
    apply pidx_mono_run. cbn [DSSSM.step fst].
    destruct (honest_process c st j ps W Hh) as [Ei E]. rewrite E.
    destruct (existsb (Z.eqb j) (pidx st)) eqn:Ex; cbn [fst].
    - apply existsb_eqb_in. exact Ex.
    - unfold stored. cbn [pidx]. left. exact Ei.
  Qed.

  Lemma sign_in c : wf c -> forall ops st k, inv c st -> In (OSign k) ops ->
    In (c_idx c) (pidx (run c st ops)).
  Proof.
    intros W. induction ops as [|o ops IH]; intros st k I Hin; [contradiction|].
    unfold DSSSM.run in *. cbn [fold_left]. destruct Hin as [->|Hin].
    - apply pidx_mono_run. cbn [DSSSM.step fst]. unfold DSSSM.partial_sig. cbn [snd].
      destruct (signed st) eqn:E.
      + destruct I as [_ [_ I3]]. apply I3. exact E.
      + cbn [pidx]. left. reflexivity.
    - eapply IH; [|exact Hin]. apply step_inv; assumption.
  Qed.

  (* [j]'s valid partial reaches the instance during the history: it is received
     from the network, or j is the instance itself and calls PartialSig() *)
  Definition delivered (c : config) (ops : list op) (j : Z) : Prop :=
    (exists ps, honest_ps j ps /\ In (ORecv ps) ops) \/
    (j = c_idx c /\ exists k, In (OSign k) ops).

  Lemma delivered_stored c ops j : wf c -> delivered c ops j ->
    In j (map fst (partials (run c init_state ops))).
  Proof.
    intros W D. destruct (run_inv c W ops init_state (inv_init c)) as [_ [I2 _]]. apply I2.
    destruct D as [[ps [Hh Hin]]|[-> [k Hin]]].
    - eapply recv_honest_in; eassumption.
    - eapply sign_in; [exact W|apply inv_init|exact Hin].
  Qed.

  (* MAIN THEOREM.  At any participant of the session, after ANY history -
     any interleaving of own PartialSig() calls and of received partial
     signatures, valid or not, in any order, with any repetitions - during which
     the valid partials of at least T distinct signers were delivered,
     Signature() returns the ordinary Schnorr signature of the message under the
     distributed key: enc(r*B) || enc(r + H(R||A||msg)*a). *)
  Theorem dss_any_t c ops (S : list Z) :
    wf c -> NoDup S -> (T <= length S)%nat -> (forall j, In j S -> delivered c ops j) ->
    signature c (run c init_state ops) = Some the_signature.
  Proof.
    intros W ND HT HD. apply signature_correct; [exact W|apply run_inv; [exact W|apply inv_init]|].
    unfold distinct_stored. etransitivity; [exact HT|]. apply NoDup_incl_length; [exact ND|].
    intros j Hj. apply nodup_In. apply delivered_stored; [exact W|apply HD; exact Hj].
  Qed.

  (* every participant derives the same signature, whatever the two histories were *)
  Corollary dss_agree c1 c2 ops1 ops2 S1 S2 :
    wf c1 -> wf c2 -> NoDup S1 -> NoDup S2 -> (T <= length S1)%nat -> (T <= length S2)%nat ->
    (forall j, In j S1 -> delivered c1 ops1 j) -> (forall j, In j S2 -> delivered c2 ops2 j) ->
    signature c1 (run c1 init_state ops1) = signature c2 (run c2 init_state ops2) /\
    signature c1 (run c1 init_state ops1) <> None.
  Proof.
    intros W1 W2 N1 N2 T1 T2 D1 D2.
    rewrite (dss_any_t c1 ops1 S1), (dss_any_t c2 ops2 S2) by assumption. split; [reflexivity|discriminate].
  Qed.

  (* ... and it verifies as an ordinary Schnorr / EdDSA signature under A = a*B:
     sign/schnorr's Verify (model of property C08) accepts it *)
  Theorem dss_is_schnorr : sverify Apub msg the_signature = SOk.
  Proof.
    unfold the_signature, schnorr_verify_point, Apub.
    apply (schnorr_complete q q_prime plen slen penc pdec senc sdec Hc penc_len senc_len pdec_enc sdec_enc).
  Qed.

  (* the verification equation itself: s*B = R + H(R||A||msg)*A *)
  Theorem dss_schnorr_equation :
    the_signature = penc Rpub ++ senc (zadd r0 (zmul a0 hmsg)) /\
    smul (zadd r0 (zmul a0 hmsg)) pbase = padd Rpub (smul hmsg Apub).
  Proof.
    split; [reflexivity|]. unfold Rpub, Apub, smul, padd, pbase. ring.
  Qed.
  (* a forged response: any value other than THE valid partial of that index is
     rejected, whoever signed the message and whatever it claims otherwise *)
  Corollary reject_forged_value c st ps : wf c ->
    ps_v ps <> peval spoly (xeval q (ps_i ps)) ->
    fst (process c st ps) = st /\ snd (process c st ps) <> VOk.
  Proof.
    intros W H. apply reject_if. intros [_ [_ [_ [_ A]]]]. apply H. apply (pub_check_iff c); assumption.
  Qed.

  (* ------------------------------------------------------------------ EnoughPartialSig *)
  (* with pairwise distinct stored indices EnoughPartialSig() tells exactly
     whether Signature() succeeds *)
  Theorem enough_iff_signature c st : wf c -> inv c st -> NoDup (map fst (partials st)) ->
    (enough c st = true <-> signature c st = Some the_signature).
  Proof.
    intros W I ND. split.
    - intros E. apply signature_correct; [exact W|exact I|]. unfold distinct_stored.
      rewrite (nodup_fixed_point Z.eq_dec ND), map_length. unfold DSSSM.enough in E.
      apply Nat.leb_le in E. destruct W as [_ [WT _]]. rewrite <- WT. exact E.
    - intros E. unfold DSSSM.signature in E. destruct (enough c st); [reflexivity|discriminate].
  Qed.

  (* the indices are pairwise distinct in every history in which the own partial
     is never received from the network *)
  Theorem no_echo_nodup c ops : wf c ->
    (forall ps, In (ORecv ps) ops -> ps_i ps <> c_idx c) ->
    NoDup (map fst (partials (run c init_state ops))).
  Proof.
    intros W.
    assert (G : forall ops st,
              (NoDup (map fst (partials st)) /\
               (forall i, In i (pidx st) <-> In i (map fst (partials st))) /\
               (signed st = false -> ~ In (c_idx c) (pidx st))) ->
              (forall ps, In (ORecv ps) ops -> ps_i ps <> c_idx c) ->
              NoDup (map fst (partials (run c st ops)))).
    { clear ops. induction ops as [|o ops IH]; intros st [J1 [J2 J3]] Hne; [exact J1|].
      unfold DSSSM.run in *. cbn [fold_left]. apply IH; [|intros ps H; apply Hne; right; exact H].
      destruct o as [k|ps]; cbn [DSSSM.step fst].
      - unfold DSSSM.partial_sig. cbn [snd]. destruct (signed st) eqn:E; [split; [exact J1|split; [exact J2|intros X; congruence]]|].
        cbn [partials pidx signed]. unfold DSSSM.own_partial. rewrite map_app. cbn [map fst]. split; [|split].
        + apply (Permutation_NoDup (Permutation_cons_append _ _)). constructor; [|exact J1].
          intros H. apply (J3 eq_refl). apply J2. exact H.
        + intros i. rewrite in_app_iff. cbn [In]. rewrite (J2 i). tauto.
        + discriminate.
      - destruct (process_dec c st ps) as [[A E]|[_ [E _]]]; rewrite E; [|split; [exact J1|split; [exact J2|exact J3]]].
        cbn [fst]. unfold stored. cbn [partials pidx signed]. rewrite map_app. cbn [map fst]. split; [|split].
        + apply (Permutation_NoDup (Permutation_cons_append _ _)). constructor; [|exact J1].
          destruct A as [_ [_ [_ [A _]]]]. intros H. apply A. apply J2. exact H.
        + intros i. rewrite in_app_iff. cbn [In]. rewrite (J2 i). tauto.
        + intros Es [H|H]; [|exact (J3 Es H)]. apply (Hne ps); [left; reflexivity|exact H]. }
    intros Hne. apply G; [|exact Hne]. unfold init_state. cbn. repeat split; try tauto. constructor.
  Qed.

  (* OBSERVATION (quirk of dss.go, not a violation of the property): when the own
     valid partial is received from the network BEFORE PartialSig() is called, it
     is stored twice (PartialSig looks at the [signed] flag, not at partialsIdx);
     EnoughPartialSig() then counts it twice and says true with T-1 distinct
     partials - but Signature() still refuses (RecoverSecret de-duplicates). *)
  Theorem enough_double_count c k ps : wf c -> T = 2%nat -> honest_ps (c_idx c) ps ->
    let st := run c init_state [ORecv ps; OSign k] in
    partials st = [own_partial c; own_partial c] /\ enough c st = true /\ signature c st = None.
  Proof.
    intros W HT Hh. cbv zeta. unfold DSSSM.run. cbn [fold_left DSSSM.step fst].
    destruct (honest_process c init_state (c_idx c) ps W Hh) as [Ei E]. rewrite E.
    unfold init_state, stored. cbn [pidx existsb fst partials signed app].
    unfold DSSSM.partial_sig. cbn [snd signed partials pidx app].
    assert (Ep : (ps_i ps, ps_v ps) = own_partial c).
    { destruct Hh as [cj [k' [stj [Wj [Ej ->]]]]]. unfold DSSSM.partial_sig. cbn [fst ps_i ps_v].
      destruct (own_partial_valid cj Wj) as [_ V1]. destruct (own_partial_valid c W) as [_ V2].
      unfold DSSSM.own_partial in *. cbn [fst snd] in *. rewrite Ej in *. rewrite V1, <- V2. reflexivity. }
    rewrite Ep. split; [reflexivity|]. split.
    - unfold DSSSM.enough. cbn [partials length]. destruct W as [_ [WT _]]. rewrite WT, HT. reflexivity.
    - apply signature_below_t. unfold distinct_stored. cbn [partials map]. destruct W as [_ [WT _]]. rewrite WT, HT.
      cbn [nodup]. destruct (in_dec Z.eq_dec (fst (own_partial c)) [fst (own_partial c)]) as [_|N]; [cbn; lia|].
      exfalso. apply N. left. reflexivity.
  Qed.
  (* "no signature from fewer than T partials", over all histories: a signature
     that IS produced is backed by T pairwise distinct signers, each with a VALID
     stored partial that is the own one or arrived in a received message *)
  Theorem signature_needs_t c ops sig : wf c ->
    signature c (run c init_state ops) = Some sig ->
    sig = the_signature /\
    exists S : list Z, NoDup S /\ (T <= length S)%nat /\
      forall i, In i S -> exists v, valid_p (i, v) /\
        ((i, v) = own_partial c \/ exists ps, In (ORecv ps) ops /\ ps_i ps = i /\ ps_v ps = v).
  Proof.
    intros W H. set (st := run c init_state ops) in *.
    pose proof (run_inv c W ops init_state (inv_init c)) as I. fold st in I.
    assert (Hd : (T <= distinct_stored st)%nat).
    { destruct (Nat.le_gt_cases T (distinct_stored st)) as [L|L]; [exact L|].
      pose proof W as [_ [WT _]]. rewrite <- WT in L. rewrite (signature_below_t c st L) in H. discriminate. }
    split.
    - rewrite (signature_correct c st W I Hd) in H. congruence.
    - exists (nodup Z.eq_dec (map fst (partials st))). split; [apply NoDup_nodup|]. split; [exact Hd|].
      intros i Hi. apply nodup_In in Hi. apply in_map_iff in Hi. destruct Hi as [[i' v] [E Hin]].
      cbn [fst] in E. subst i'. exists v. split.
      + destruct I as [I1 _]. rewrite Forall_forall in I1. apply I1. exact Hin.
      + unfold st in Hin. apply (stored_provenance q plen slen penc pdec senc sdec Hc Hs) in Hin.
        destruct Hin as [[]|[Hin|[ps [H1 H2]]]]; [left; exact Hin|right].
        exists ps. injection H2 as -> ->. repeat split. exact H1.
  Qed.
End DSSSession.

(* ====================================================================
   The statements of property C12 in closed form (coq/props/C12.v restates
   them verbatim).  [codec_ok]: the point / scalar codecs have fixed lengths
   and decoding inverts encoding.  [session_ok]: threshold at least 1, both
   shared polynomials have T coefficients, fewer participants than the group
   order and than 2^32 (share indices are uint32). *)
Definition codec_ok (q : Z) (plen slen : nat) (penc : zq q -> list Z) (pdec : list Z -> option (zq q))
           (senc : zq q -> list Z) (sdec : list Z -> option (zq q)) : Prop :=
  (forall P, length (penc P) = plen) /\ (forall s, length (senc s) = slen) /\
  (forall P, pdec (penc P) = Some P) /\ (forall s, sdec (senc s) = Some s).

Definition session_ok (q : Z) (parts : list (zq q)) (T : nat) (apoly rpoly : list (zq q)) : Prop :=
  (1 <= T)%nat /\ length apoly = T /\ length rpoly = T /\
  Z.of_nat (length parts) < q /\ Z.of_nat (length parts) < 4294967296.

Section Closed.
  Variable q : Z.
  Hypothesis q_prime : prime q.
  Variable plen slen : nat.
  Variable penc : zq q -> list Z.
  Variable pdec : list Z -> option (zq q).
  Variable senc : zq q -> list Z.
  Variable sdec : list Z -> option (zq q).
  Variable Hc : list Z -> zq q.
  Variable Hs : list Z -> list Z.
  Hypothesis codec : codec_ok q plen slen penc pdec senc sdec.
  Variable parts : list (zq q).
  Variable T : nat.
  Variables apoly rpoly : list (zq q).
  Variable msg : list Z.
  Hypothesis session : session_ok q parts T apoly rpoly.

  Notation wf := (wf q parts T apoly rpoly msg).
  Notation delivered := (delivered q penc senc Hc Hs parts T apoly rpoly msg).
  Notation honest_ps := (honest_ps q penc senc Hc Hs parts T apoly rpoly msg).
  Notation the_signature := (the_signature q penc senc Hc apoly rpoly msg).
  Notation valid_p := (valid_p q penc Hc parts apoly rpoly msg).
  Notation signature := (signature q penc senc).
  Notation run := (run q plen slen penc pdec senc sdec Hc Hs).
  Notation process := (process q plen slen penc pdec senc sdec Hc Hs).
  Notation own_partial := (own_partial q penc Hc).

  Ltac open_hyps :=
    destruct codec as [C1 [C2 [C3 C4]]]; destruct session as [Z1 [Z2 [Z3 [Z4 Z5]]]].

  Theorem closed_any_t c ops (S : list Z) :
    wf c -> NoDup S -> (T <= length S)%nat -> (forall j, In j S -> delivered c ops j) ->
    signature c (run c init_state ops) = Some the_signature.
  Proof. open_hyps. intros. eapply dss_any_t with (S := S); eassumption. Qed.

  Theorem closed_agree c1 c2 ops1 ops2 S1 S2 :
    wf c1 -> wf c2 -> NoDup S1 -> NoDup S2 -> (T <= length S1)%nat -> (T <= length S2)%nat ->
    (forall j, In j S1 -> delivered c1 ops1 j) -> (forall j, In j S2 -> delivered c2 ops2 j) ->
    signature c1 (run c1 init_state ops1) = signature c2 (run c2 init_state ops2) /\
    signature c1 (run c1 init_state ops1) <> None.
  Proof.
    open_hyps. intros.
    apply (dss_agree q q_prime plen slen penc pdec senc sdec Hc Hs C1 C2 C3 C4 parts T apoly rpoly msg Z1 Z2 Z3 Z4 Z5
                     c1 c2 ops1 ops2 S1 S2); assumption.
  Qed.

  Theorem closed_is_schnorr :
    schnorr_verify_point q plen slen penc pdec sdec Hc (Apub q apoly) msg the_signature = SOk /\
    the_signature = penc (Rpub q rpoly) ++
                    senc (zadd (r0 q rpoly) (zmul (a0 q apoly) (hmsg q penc Hc apoly rpoly msg))) /\
    smul (zadd (r0 q rpoly) (zmul (a0 q apoly) (hmsg q penc Hc apoly rpoly msg))) pbase =
      padd (Rpub q rpoly) (smul (hmsg q penc Hc apoly rpoly msg) (Apub q apoly)).
  Proof.
    open_hyps. split; [apply dss_is_schnorr; assumption|].
    apply (dss_schnorr_equation q q_prime).
  Qed.

  Theorem closed_honest_accepted c st j ps : wf c -> honest_ps j ps ->
    ps_i ps = j /\
    process c st ps = if existsb (Z.eqb j) (pidx st) then (st, VDup) else (stored q st ps, VOk).
  Proof. open_hyps. apply honest_process; assumption. Qed.

  Theorem closed_invariant c ops : wf c ->
    let st := run c init_state ops in
    Forall valid_p (partials st) /\
    (forall i, In i (pidx st) <-> In i (map fst (partials st))) /\
    (forall p, In p (partials st) ->
       p = own_partial c \/ exists ps, In (ORecv ps) ops /\ p = (ps_i ps, ps_v ps)).
  Proof.
    open_hyps. intros W. cbv zeta.
    assert (I : inv q penc Hc parts apoly rpoly msg c (run c init_state ops))
      by (apply run_inv with (T := T); try assumption; exact (inv_init q penc Hc Hs parts apoly rpoly msg c)).
    destruct I as [I1 [I2 _]].
    split; [exact I1|]. split; [exact I2|].
    intros p Hp. apply (stored_provenance q plen slen penc pdec senc sdec Hc Hs) in Hp.
    destruct Hp as [[]|Hp]. exact Hp.
  Qed.

  Theorem closed_reject_forged_value c st ps : wf c ->
    ps_v ps <> peval (spoly q penc Hc apoly rpoly msg) (xeval q (ps_i ps)) ->
    fst (process c st ps) = st /\ snd (process c st ps) <> VOk.
  Proof. open_hyps. apply reject_forged_value; assumption. Qed.

  Theorem closed_signature_needs_t c ops sig : wf c ->
    signature c (run c init_state ops) = Some sig ->
    sig = the_signature /\
    exists S : list Z, NoDup S /\ (T <= length S)%nat /\
      forall i, In i S -> exists v, valid_p (i, v) /\
        ((i, v) = own_partial c \/ exists ps, In (ORecv ps) ops /\ ps_i ps = i /\ ps_v ps = v).
  Proof. open_hyps. apply signature_needs_t; assumption. Qed.

  Theorem closed_enough_iff_signature c ops : wf c ->
    (forall ps, In (ORecv ps) ops -> ps_i ps <> c_idx c) ->
    let st := run c init_state ops in
    NoDup (map fst (partials st)) /\
    (enough c st = true <-> signature c st = Some the_signature).
  Proof.
    open_hyps. intros W Hne. cbv zeta.
    assert (ND : NoDup (map fst (partials (run c init_state ops)))).
    { apply (no_echo_nodup q plen slen penc pdec senc sdec Hc Hs parts T apoly rpoly msg); assumption. }
    split; [exact ND|].
    apply enough_iff_signature with (parts := parts) (T := T); try assumption.
    apply run_inv with (T := T); try assumption. exact (inv_init q penc Hc Hs parts apoly rpoly msg c).
  Qed.

  Theorem closed_enough_double_count c k ps : wf c -> T = 2%nat -> honest_ps (c_idx c) ps ->
    let st := run c init_state [ORecv ps; OSign k] in
    partials st = [own_partial c; own_partial c] /\ enough c st = true /\ signature c st = None.
  Proof. open_hyps. apply enough_double_count; assumption. Qed.
End Closed.
