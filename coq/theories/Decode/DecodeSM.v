(* Property C04 - executable model of kyber's decoders of untrusted bytes.

   Every decoder is transcribed from the Go source with *guarded* byte access:
   an index or slice expression of the source becomes [byte_at] / [slice],
   which return [None] when the index is out of range, and the transcription
   maps that [None] to the explicit outcome [Panic].  "Decoding never panics"
   is then the theorem that [Panic] is unreachable (DecodeProofs.v); an
   unguarded [b[0]] shows up as a refutable goal (see [edv_decode_unguarded]).

   Points are decoded over the field-operations record of CurveRef.Field, so
   that the same definitions are (a) run on Bignums BigZ against the
   implementation and (b) instantiated with [zq p] for the proofs.

   Sources: group/edwards25519/ge.go (FromBytes), group/edwards25519vartime/
   curve.go (decodePoint, solveForX), group/p256/curve.go (UnmarshalBinary,
   Valid), pairing/bn256/point.go + gfp.go, pairing/bn254/point.go + gfp.go,
   group/mod/int.go (UnmarshalBinary), group/edwards25519/scalar.go,
   sign/schnorr, sign/eddsa, sign/cosi, sign/tbls, encrypt/ecies, sign/anon. *)
From Coq Require Import ZArith List Bool.
From Kyber Require Import CurveRef.Field CurveRef.Edwards CurveRef.Weierstrass.
Import ListNotations.
Local Open Scope Z_scope.

Inductive res (A : Type) := Ok (a : A) | Err | Panic.
Arguments Ok {A} a. Arguments Err {A}. Arguments Panic {A}.

(* s[i] and s[off:off+len] with Go's bounds checks *)
Definition byte_at (s : list Z) (i : nat) : option Z := nth_error s i.
Definition slice (s : list Z) (off len : nat) : option (list Z) :=
  if (off + len <=? length s)%nat then Some (firstn len (skipn off s)) else None.
(* s[off:] *)
Definition slice_from (s : list Z) (off : nat) : option (list Z) :=
  if (off <=? length s)%nat then Some (skipn off s) else None.

(* ------------------------------------------------------------------ *)
(* Edwards25519 *)
Section Ed.
  Context {F : Type} (O : fops F).
  Variable K : @edc F.
  Notation "a +f b" := (fadd O a b) (at level 50, left associativity).
  Notation "a -f b" := (fsub O a b) (at level 50, left associativity).
  Notation "a *f b" := (fmul O a b) (at level 40, left associativity).

  (* affine point as decoded: (x, y); extended coordinates are (x, y, 1, x*y) *)
  Definition ed_of_xy (x y : F) : @ept F := mkept x y (f1 O) (x *f y).

  (* group/edwards25519: point.UnmarshalBinary -> extendedGroupElement.FromBytes.
     The only index expression is s[31] (sign bit), after the length check. *)
  Definition ed25519_decode (s : list Z) : res (@ept F) :=
    if negb (Nat.eqb (length s) 32) then Err else
    match byte_at s 31 with
    | None => Panic
    | Some top =>
        let yint := le_decode s mod 2 ^ 255 in         (* feFromBytes ignores bit 255 *)
        let sign := top / 128 in
        let y := fofZ O yint in
        let one := f1 O in
        let u0 := fsq O y in
        let v := (u0 *f c_d K) +f one in
        let u := u0 -f one in
        let v3 := fsq O v *f v in
        let uv7 := fsq O v3 *f v *f u in
        let x0 := fpow O uv7 ((ed_p - 5) / 8) *f v3 *f u in
        let vxx := fsq O x0 *f v in
        let x1 :=
          if feqb O (vxx -f u) (f0 O) then Some x0
          else if feqb O (vxx +f u) (f0 O) then Some (x0 *f c_sqrtm1 K)
          else None in
        match x1 with
        | None => Err
        | Some x =>
            let x' := if Z.eqb (ftoZ O x mod 2) sign then x else fneg O x in
            Ok (ed_of_xy x' y)
        end
    end.

  (* square root in GF(p), p = 5 mod 8 (what big.Int.ModSqrt decides; the root
     returned may differ by sign, which the caller normalises) *)
  Definition fsqrt58 (a : F) : option F :=
    let r := fpow O a ((ed_p + 3) / 8) in
    if feqb O (fsq O r) a then Some r
    else if feqb O (fsq O r) (fneg O a) then Some (r *f c_sqrtm1 K)
    else None.

  Definition ed_a : F := fneg O (f1 O).

  (* group/edwards25519vartime: projPoint/extPoint.UnmarshalBinary -> curve.decodePoint
     -> solveForX, for ParamEd25519 (a = -1), AFTER the repair (length check,
     y reduced).  [b[0]] is the index expression that panicked on empty input. *)
  Definition edv_decode_body (s : list Z) : res (@ept F) :=
    let b := rev s in                                   (* reverse(b, bb) *)
    match byte_at b 0 with
    | None => Panic                                     (* b[0] >> 7 *)
    | Some b0 =>
        let xsign := b0 / 128 in
        let b' := (b0 mod 128) :: tl b in               (* b[0] &^= 0x80 *)
        let y := fofZ O (be_decode b') in               (* y.V.SetBytesMod(b, P) *)
        let yy := y *f y in
        let t1 := f1 O -f yy in
        let t2 := ed_a -f (c_d K *f yy) in
        let x2 := t1 *f finv O t2 in                    (* t2.Div(&t1, &t2) *)
        match fsqrt58 x2 with
        | None => Err
        | Some x =>
            let x' := if Z.eqb (ftoZ O x mod 2) xsign then x else fneg O x in
            Ok (ed_of_xy x' y)
        end
    end.

  Definition edv_decode (s : list Z) : res (@ept F) :=
    if negb (Nat.eqb (length s) 32) then Err             (* len(bb) != c.PointLen() *)
    else edv_decode_body s.

  (* the decoder as it was before the repair: no length check *)
  Definition edv_decode_unguarded (s : list Z) : res (@ept F) := edv_decode_body s.

  (* encoding of an affine point *)
  Definition ed_encode_xy (x y : F) : list Z :=
    let yb := le_bytes 32 (ftoZ O y) in
    firstn 31 yb ++ [nth 31 yb 0 + 128 * (ftoZ O x mod 2)].
End Ed.

(* ------------------------------------------------------------------ *)
(* short Weierstrass: P-256, BN256 G1, BN254 G1 *)
Inductive wpt := WInf | WAff (x y : Z).

Section W.
  Context {F : Type} (O : fops F) (W : wparams).
  Variable fa : F.
  Let p := w_p W.

  Definition w_is00 (x y : Z) : bool := (x =? 0) && (y =? 0).

  (* group/p256 curvePoint.Valid: crypto/elliptic IsOnCurve (which refuses
     coordinates >= p and (0,0)) or the identity encoded as (0,0) *)
  Definition p256_valid (x y : Z) : bool :=
    ((x <? p) && (y <? p) && negb (w_is00 x y) && w_oncurve O W fa x y) || w_is00 x y.

  (* group/p256 curvePoint.UnmarshalBinary AFTER the repair (Valid() is called) *)
  Definition p256_decode (s : list Z) : res wpt :=
    if negb (Nat.eqb (length s) 65) then Err else
    match byte_at s 0 with
    | None => Panic                                       (* buf[0] *)
    | Some f =>
        if negb (f =? 4) then Err else
        match slice s 1 32, slice s 33 32 with            (* buf[1:1+n], buf[1+n:1+2n] *)
        | Some xb, Some yb =>
            let x := be_decode xb in let y := be_decode yb in
            if p256_valid x y then Ok (if w_is00 x y then WInf else WAff x y) else Err
        | _, _ => Panic
        end
    end.

  (* before the repair: every 65-byte string with format byte 4 is accepted *)
  Definition p256_decode_unchecked (s : list Z) : res wpt :=
    if negb (Nat.eqb (length s) 65) then Err else
    match byte_at s 0 with
    | None => Panic
    | Some f =>
        if negb (f =? 4) then Err else
        match slice s 1 32, slice s 33 32 with
        | Some xb, Some yb =>
            let x := be_decode xb in let y := be_decode yb in
            Ok (if w_is00 x y then WInf else WAff x y)
        | _, _ => Panic
        end
    end.

  Definition p256_encode_w (P : wpt) : list Z :=
    match P with
    | WInf => 4 :: repeat 0 64
    | WAff x y => 4 :: be_bytes 32 x ++ be_bytes 32 y
    end.

  (* pairing/bn256 pointG1.UnmarshalBinary: at least 64 bytes (a longer buffer is
     accepted, the rest ignored); gfP.Unmarshal takes any 256-bit value and
     montEncode reduces it modulo p; (0,0) is the point at infinity *)
  Definition bn256_decode (s : list Z) : res wpt :=
    if (length s <? 64)%nat then Err else
    match slice s 0 32, slice s 32 32 with                (* buf, buf[n:] read 32 bytes each *)
    | Some xb, Some yb =>
        let x := be_decode xb mod p in let y := be_decode yb mod p in
        if w_is00 x y then Ok WInf
        else if w_oncurve O W fa x y then Ok (WAff x y) else Err
    | _, _ => Panic
    end.

  (* pairing/bn254 pointG1.UnmarshalBinary: gfP.Unmarshal refuses values >= p *)
  Definition bn254_decode (s : list Z) : res wpt :=
    if (length s <? 64)%nat then Err else
    match slice s 0 32, slice s 32 32 with
    | Some xb, Some yb =>
        let x := be_decode xb in let y := be_decode yb in
        if p <=? x then Err else if p <=? y then Err else
        if w_is00 x y then Ok WInf
        else if w_oncurve O W fa x y then Ok (WAff x y) else Err
    | _, _ => Panic
    end.

  Definition bn_encode_w (P : wpt) : list Z :=
    match P with
    | WInf => repeat 0 64
    | WAff x y => be_bytes 32 x ++ be_bytes 32 y
    end.
End W.

(* ------------------------------------------------------------------ *)
(* scalars *)

(* group/mod Int.UnmarshalBinary: exact size, value < M (both byte orders) *)
Definition modint_decode (q : Z) (size : nat) (le : bool) (s : list Z) : res Z :=
  if negb (Nat.eqb (length s) size) then Err else
  let v := if le then le_decode s else be_decode s in
  if q <=? v then Err else Ok v.

Definition modint_encode (size : nat) (le : bool) (v : Z) : list Z :=
  if le then le_bytes size v else be_bytes size v.

(* group/edwards25519 scalar.UnmarshalBinary: any 32 bytes are kept as they are;
   MarshalBinary reduces modulo L *)
Definition edscalar_decode (s : list Z) : res (list Z) :=
  if negb (Nat.eqb (length s) 32) then Err else Ok s.
Definition edscalar_encode (s : list Z) : list Z := le_bytes 32 (le_decode s mod ed_L).

(* ------------------------------------------------------------------ *)
(* composite messages: the slicing done before anything is decoded.  [pl] /
   [sl] are the point and scalar sizes of the group. *)

(* sign/schnorr VerifyWithChecks: sig = R || s, exact length *)
Definition schnorr_split (pl sl : nat) (sig : list Z) : res (list Z * list Z) :=
  if negb (Nat.eqb (length sig) (sl + pl)) then Err else
  match slice sig 0 pl, slice_from sig pl with            (* sig[:pointSize], sig[pointSize:] *)
  | Some R, Some s => Ok (R, s)
  | _, _ => Panic
  end.

(* sign/eddsa VerifyWithChecks: 64 bytes, R = sig[:32], s = sig[32:] *)
Definition eddsa_split (sig : list Z) : res (list Z * list Z) :=
  if negb (Nat.eqb (length sig) 64) then Err else
  match slice sig 0 32, slice_from sig 32 with
  | Some R, Some s => Ok (R, s)
  | _, _ => Panic
  end.

(* sign/cosi Verify: V || r || mask; [vok] = whether V decodes (an oracle of
   the splitter); the mask must have exactly ceil(npub/8) bytes.
   Outcome classes: Err = a length guard refused, Ok None = V did not decode. *)
Definition cosi_split (pl sl npub : nat) (vok : bool) (sig : list Z)
  : res (option (list Z * list Z * list Z)) :=
  if (length sig <? pl)%nat then Err else
  match slice sig 0 pl with
  | None => Panic
  | Some V =>
      if negb vok then Ok None else
      if (length sig <? pl + sl)%nat then Err else
      match slice sig pl sl, slice_from sig (pl + sl) with   (* sig[lenCom:lenRes], sig[lenRes:] *)
      | Some r, Some mask =>
          if negb (Nat.eqb (Nat.div (npub + 7) 8) (length mask)) then Err
          else Ok (Some (V, r, mask))
      | _, _ => Panic
      end
  end.

(* encrypt/ecies Decrypt: R = ctx[:l], rest = ctx[l:] *)
Definition ecies_split (pl : nat) (ctx : list Z) : res (list Z * list Z) :=
  if (length ctx <? pl)%nat then Err else
  match slice ctx 0 pl, slice_from ctx pl with
  | Some R, Some c => Ok (R, c)
  | _, _ => Panic
  end.

(* sign/tbls: IndexOf (exact length) and SigShare.Index/Value (VerifyPartial, Recover) *)
Definition tbls_index_of (pl : nat) (sig : list Z) : res Z :=
  if negb (Nat.eqb (length sig) (pl + 2)) then Err else
  match slice sig 0 2 with
  | Some ib => Ok (be_decode ib)
  | None => Panic
  end.
Definition tbls_split (sig : list Z) : res (Z * list Z) :=
  match slice sig 0 2 with                                 (* binary.Read of a uint16: error if short *)
  | None => Err
  | Some ib =>
      match slice_from sig 2 with                          (* Value: the bytes after the index *)
      | Some v => Ok (be_decode ib, v)
      | None => Panic
      end
  end.

(* sign/anon Decrypt: X || nkeys slots of [sl] bytes || ctx || mac.  [xok] = X
   decodes, [kok] = the slot decrypts to the right key (oracles); [mine < nkeys] is
   the caller's obligation (the code panics otherwise, by design). *)
Definition anon_split (pl sl nkeys mine macsz : nat) (xok kok : bool) (ct : list Z)
  : res (option (list Z * list Z * list Z * list Z)) :=
  if (length ct <? pl)%nat then Err else
  match slice ct 0 pl with
  | None => Panic
  | Some X =>
      if negb xok then Ok None else
      if negb (mine <? nkeys)%nat then Panic else           (* panic("private-key index out of range") *)
      if (length ct <? pl + sl * nkeys)%nat then Err else
      match slice ct (pl + sl * mine) sl with               (* ciphertext[secofs:secofs+seclen] *)
      | None => Panic
      | Some slot =>
          if negb kok then Ok None else                      (* x.UnmarshalBinary / X != x.B / header check *)
          let hdrlen := (pl + sl * nkeys)%nat in
          if (length ct <? hdrlen + macsz)%nat then Err else
          match slice ct hdrlen (length ct - macsz - hdrlen), slice_from ct (length ct - macsz) with
          | Some ctx, Some mac => Ok (Some (X, slot, ctx, mac))
          | _, _ => Panic
          end
      end
  end.

(* ------------------------------------------------------------------ *)
(* Parameterised groups (every parameter set the API allows, not only the
   default instances) *)

(* group/p256/residue.go: residuePoint.UnmarshalBinary = SetBytes (any length)
   followed by Valid(): 0 < v < P and v^Q = 1 (mod P), for the parameters
   (P, Q) of the group the point belongs to (SetParams / QuadraticResidueGroup) *)
Section Residue.
  Context {F : Type} (O : fops F).
  Definition residue_decode (P Q : Z) (s : list Z) : res Z :=
    let v := be_decode s in
    if (0 <? v) && (v <? P) && feqb O (fpow O (fofZ O v) Q) (f1 O) then Ok v else Err.
  Definition residue_encode (n : nat) (v : Z) : list Z := be_bytes n v.
End Residue.

(* group/edwards25519vartime curve.decodePoint / solveForX for an arbitrary
   parameter set: field prime p (p = 3 mod 4 or p = 5 mod 8), curve constants a, d,
   encoding length n = PointLen.  [sqrtm1] is only used when p = 5 mod 8. *)
Section EdGen.
  Context {F : Type} (O : fops F).
  Variables (p : Z) (a d sqrtm1 : F) (n : nat).
  Notation "x +f y" := (fadd O x y) (at level 50, left associativity).
  Notation "x -f y" := (fsub O x y) (at level 50, left associativity).
  Notation "x *f y" := (fmul O x y) (at level 40, left associativity).

  Definition ginv (x : F) : F := fpow O x (p - 2).

  Definition gsqrt (t : F) : option F :=
    if p mod 4 =? 3 then
      let r := fpow O t ((p + 1) / 4) in
      if feqb O (r *f r) t then Some r else None
    else
      let r := fpow O t ((p + 3) / 8) in
      if feqb O (r *f r) t then Some r
      else if feqb O (r *f r) (fneg O t) then Some (r *f sqrtm1)
      else None.

  Definition edg_decode (s : list Z) : res (F * F) :=
    if negb (Nat.eqb (length s) n) then Err else         (* len(bb) != c.PointLen() *)
    let b := rev s in
    match byte_at b 0 with
    | None => Panic                                       (* b[0] >> 7 *)
    | Some b0 =>
        let xsign := b0 / 128 in
        let y := fofZ O (be_decode ((b0 mod 128) :: tl b)) in
        let yy := y *f y in
        let t1 := f1 O -f yy in
        let t2 := a -f (d *f yy) in
        let x2 := t1 *f ginv t2 in
        match gsqrt x2 with
        | None => Err
        | Some x =>
            let x' := if Z.eqb (ftoZ O x mod 2) xsign then x else fneg O x in
            Ok (x', y)
        end
    end.

  Definition edg_encode (P : F * F) : list Z :=
    let yb := le_bytes n (ftoZ O (snd P)) in
    firstn (n - 1) yb ++ [nth (n - 1) yb 0 + 128 * (ftoZ O (fst P) mod 2)].
End EdGen.
