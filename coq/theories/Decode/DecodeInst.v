(* Property C04 - the abstract-ring theorems instantiated with the integers
   modulo p (Algebra/Zq.v): the premises of DecodeProofs.Alg are satisfiable,
   and the square-root-of-minus-one premise holds for the Ed25519 constants. *)
From Coq Require Import ZArith List Bool Lia Ring.
From Kyber Require Import Algebra.Zq CurveRef.Field CurveRef.Edwards CurveRef.Weierstrass
  Decode.DecodeSM Decode.DecodeProofs.
Import ListNotations.
Local Open Scope Z_scope.

Definition zq_ops (q : Z) : fops (zq q) :=
  mkfops (zq q) zzero zone zadd zsub zmul zopp zeqb (of_Z q) val.

Lemma zq_ops_ring q :
  ring_theory (f0 (zq_ops q)) (f1 (zq_ops q)) (fadd (zq_ops q)) (fmul (zq_ops q))
              (fsub (zq_ops q)) (fneg (zq_ops q)) eq.
Proof. exact (zq_ring q). Qed.

Lemma zq_ops_eqb q (a b : zq q) : feqb (zq_ops q) a b = true -> a = b.
Proof. cbn. apply zeqb_eq. Qed.

Definition OEd := zq_ops ed_p.
Definition KEd : @edc (zq ed_p) := ed_consts OEd.

Lemma KEd_sqrtm1 : fmul OEd (c_sqrtm1 KEd) (c_sqrtm1 KEd) = fneg OEd (f1 OEd).
Proof. apply zq_eq. vm_compute. reflexivity. Qed.

(* Ed25519 (group/edwards25519): every accepted byte string is a point of
   -x^2 + y^2 = 1 + d x^2 y^2 over Z/(2^255-19) *)
Theorem ed25519_accepts_only_curve_points s P :
  ed25519_decode OEd KEd s = Ok P -> ed_on_curve OEd (fneg OEd (f1 OEd)) (c_d KEd) P.
Proof. apply (ed25519_decode_member OEd (zq_ops_ring ed_p) (zq_ops_eqb ed_p) KEd KEd_sqrtm1). Qed.

(* the vartime decoder: the field-inverse law (Fermat; needs the primality of
   2^255-19) and the non-vanishing denominator are premises *)
Theorem edv_accepts_only_curve_points s P :
  (forall a, a <> f0 OEd -> fmul OEd a (finv OEd a) = f1 OEd) ->
  (forall y, fsub OEd (ed_a OEd) (fmul OEd (c_d KEd) (fmul OEd y y)) <> f0 OEd) ->
  edv_decode OEd KEd s = Ok P -> ed_on_curve OEd (ed_a OEd) (c_d KEd) P.
Proof.
  intros Hinv Hnz. apply (edv_decode_member OEd (zq_ops_ring ed_p) (zq_ops_eqb ed_p) KEd KEd_sqrtm1 Hinv Hnz).
Qed.

(* P-256 / BN256 / BN254 over Z/p *)
Definition OW (W : wparams) := zq_ops (w_p W).
Definition faW (W : wparams) := fofZ (OW W) (w_a W).

Lemma p256_bounds : 0 < w_p p256 /\ w_p p256 < 2 ^ 256. Proof. split; vm_compute; reflexivity. Qed.
Lemma bn256_bounds : 0 < w_p bn256 /\ w_p bn256 < 2 ^ 256. Proof. split; vm_compute; reflexivity. Qed.
Lemma bn254_bounds : 0 < w_p bn254 /\ w_p bn254 < 2 ^ 256. Proof. split; vm_compute; reflexivity. Qed.

(* accepted affine point: coordinates are canonical residues and satisfy
   y^2 = x^3 + a x + b in Z/p *)
Definition w_member (W : wparams) (P : wpt) : Prop :=
  match P with
  | WInf => True
  | WAff x y =>
      0 <= x < w_p W /\ 0 <= y < w_p W /\ (x, y) <> (0, 0) /\
      let X := of_Z (w_p W) x in let Y := of_Z (w_p W) y in
      zmul Y Y = zadd (zadd (zmul (zmul X X) X) (zmul (of_Z (w_p W) (w_a W)) X)) (of_Z (w_p W) (w_b W))
  end.

Lemma wvalid_member W P : wvalid (OW W) W (faW W) P -> w_member W P.
Proof.
  destruct P as [|x y]; cbn [wvalid w_member]; [auto|].
  intros (Hx & Hy & Z0 & C). repeat split; try lia.
  - intros E; inversion E; subst. discriminate.
  - apply (w_oncurve_eq (OW W) (zq_ops_eqb (w_p W))) in C. exact C.
Qed.

Theorem p256_accepts_only_curve_points s P :
  Forall is_byte s -> p256_decode (OW p256) p256 (faW p256) s = Ok P -> w_member p256 P.
Proof. intros Hs H. apply wvalid_member. eapply p256_decode_member; eauto. Qed.

Theorem bn256_accepts_only_curve_points s P :
  bn256_decode (OW bn256) bn256 (faW bn256) s = Ok P -> w_member bn256 P.
Proof. intros H. apply wvalid_member. eapply bn256_decode_member; eauto. apply bn256_bounds. Qed.

Theorem bn254_accepts_only_curve_points s P :
  Forall is_byte s -> bn254_decode (OW bn254) bn254 (faW bn254) s = Ok P -> w_member bn254 P.
Proof. intros Hs H. apply wvalid_member. eapply bn254_decode_member; eauto. Qed.

Theorem w_roundtrip P :
  (wvalid (OW p256) p256 (faW p256) P -> p256_decode (OW p256) p256 (faW p256) (p256_encode_w P) = Ok P) /\
  (wvalid (OW bn256) bn256 (faW bn256) P -> bn256_decode (OW bn256) bn256 (faW bn256) (bn_encode_w P) = Ok P) /\
  (wvalid (OW bn254) bn254 (faW bn254) P -> bn254_decode (OW bn254) bn254 (faW bn254) (bn_encode_w P) = Ok P).
Proof.
  repeat split; intros V.
  - apply p256_roundtrip; [apply p256_bounds|exact V].
  - apply bn256_roundtrip; [apply bn256_bounds|apply bn256_bounds|exact V].
  - apply bn254_roundtrip; [apply bn254_bounds|apply bn254_bounds|exact V].
Qed.

(* a decoded point re-encodes to a string that decodes to the same point *)
Theorem w_decode_reencode s P :
  Forall is_byte s ->
  (p256_decode (OW p256) p256 (faW p256) s = Ok P ->
     p256_decode (OW p256) p256 (faW p256) (p256_encode_w P) = Ok P) /\
  (bn256_decode (OW bn256) bn256 (faW bn256) s = Ok P ->
     bn256_decode (OW bn256) bn256 (faW bn256) (bn_encode_w P) = Ok P) /\
  (bn254_decode (OW bn254) bn254 (faW bn254) s = Ok P ->
     bn254_decode (OW bn254) bn254 (faW bn254) (bn_encode_w P) = Ok P).
Proof.
  intros Hs. repeat split; intros H.
  - apply w_roundtrip. eapply p256_decode_member; eauto.
  - apply w_roundtrip. eapply bn256_decode_member; eauto. apply bn256_bounds.
  - apply w_roundtrip. eapply bn254_decode_member; eauto.
Qed.

(* the unrepaired P-256 decoder accepted the off-curve point (1,1) *)
Example p256_unchecked_accepts_offcurve :
  p256_decode_unchecked (4 :: be_bytes 32 1 ++ be_bytes 32 1) = Ok (WAff 1 1) /\
  p256_decode (OW p256) p256 (faW p256) (4 :: be_bytes 32 1 ++ be_bytes 32 1) = Err.
Proof. split; vm_compute; reflexivity. Qed.

(* concrete runs over Z/(2^255-19) (plain Z arithmetic: slow, done once here):
   the RFC 8032 base point encoding is accepted by both Edwards decoders and
   re-encodes to itself, the order-4 point (y = 0) is accepted, y = 2 has no x *)
Definition ed_B : list Z := 88 :: repeat 102 31.
Definition reencodes_to (r : res (@ept (zq ed_p))) (b : list Z) : bool :=
  match r with
  | Ok P => if list_eq_dec Z.eq_dec (ed_encode_xy OEd (eX P) (eY P)) b then true else false
  | _ => false
  end.
Definition is_err {A} (r : res A) : bool := match r with Err => true | _ => false end.
Definition is_ok {A} (r : res A) : bool := match r with Ok _ => true | _ => false end.

Lemma ed_examples :
  reencodes_to (ed25519_decode OEd KEd ed_B) ed_B = true /\
  reencodes_to (edv_decode OEd KEd ed_B) ed_B = true /\
  is_ok (ed25519_decode OEd KEd (repeat 0 32)) = true /\
  is_err (ed25519_decode OEd KEd (2 :: repeat 0 31)) = true.
Proof.
  split; [vm_compute; reflexivity|]. split; [vm_compute; reflexivity|].
  split; vm_compute; reflexivity.
Qed.

(* Ed25519 round trip over Z/(2^255-19): the premises of DecodeProofs.EdRoundtrip
   hold; only the absence of zero divisors needs the primality of 2^255-19,
   which stays an explicit premise *)
Lemma ed_p_pos : 0 < ed_p. Proof. vm_compute; reflexivity. Qed.
Lemma ed_p_odd : ed_p mod 2 = 1. Proof. vm_compute; reflexivity. Qed.

Lemma neg_parity_Z p v : 0 < p -> p mod 2 = 1 -> 0 < v < p -> (- v mod p) mod 2 <> v mod 2.
Proof.
  intros Hp Ho Hv.
  replace (- v) with ((p - v) + (-1) * p) by ring.
  rewrite Z.mod_add by lia. rewrite (Z.mod_small (p - v) p) by lia.
  rewrite (Z.mod_eq p 2) in Ho by lia.
  intros E. rewrite (Z.mod_eq (p - v) 2), (Z.mod_eq v 2) in E by lia. lia.
Qed.

Lemma OEd_neg_parity (a : zq ed_p) : a <> f0 OEd -> ftoZ OEd (fneg OEd a) mod 2 <> ftoZ OEd a mod 2.
Proof.
  intros Ha. change (ftoZ OEd (fneg OEd a)) with (val (zopp a)). change (ftoZ OEd a) with (val a).
  pose proof (val_range ed_p a ed_p_pos) as R.
  assert (Hnz : val a <> 0).
  { intros E. apply Ha. apply zq_eq. change (f0 OEd) with (@zzero ed_p). unfold zzero.
    rewrite val_of_Z, E. symmetry. apply Z.mod_0_l. apply Z.neq_sym, Z.lt_neq, ed_p_pos. }
  unfold zopp. rewrite val_of_Z. apply neg_parity_Z; [exact ed_p_pos|exact ed_p_odd|].
  destruct R as [R1 R2]. split; [|exact R2]. destruct (Z.eq_dec (val a) 0); [contradiction|].
  apply Z.le_neq. split; [exact R1|]. apply Z.neq_sym. assumption.
Qed.

Theorem ed25519_roundtrip_Zp :
  Znumtheory.prime ed_p ->
  forall x y : zq ed_p,
    fmul OEd (fmul OEd x x) (fadd OEd (fmul OEd (fmul OEd y y) (c_d KEd)) (f1 OEd)) = fsub OEd (fmul OEd y y) (f1 OEd) ->
    fadd OEd (fmul OEd (fmul OEd y y) (c_d KEd)) (f1 OEd) <> f0 OEd ->
    (forall P, ed25519_decode OEd KEd (ed_encode_xy OEd x y) = Ok P -> P = ed_of_xy OEd x y) /\
    (ed25519_decode OEd KEd (ed_encode_xy OEd x y) <> Err ->
     ed25519_decode OEd KEd (ed_encode_xy OEd x y) = Ok (ed_of_xy OEd x y)).
Proof.
  intros Hp x y Hc Hv.
  assert (Hint : forall a b : zq ed_p, fmul OEd a b = f0 OEd -> a = f0 OEd \/ b = f0 OEd)
    by (intros a b; apply (zmul_eq_0 ed_p Hp)).
  assert (Hrefl : forall a : zq ed_p, feqb OEd a a = true) by (intros a; cbn; apply zeqb_eq; reflexivity).
  assert (Hrange : forall a : zq ed_p, 0 <= ftoZ OEd a < ed_p) by (intros a; apply val_range, ed_p_pos).
  assert (Hofto : forall a : zq ed_p, fofZ OEd (ftoZ OEd a) = a) by (intros a; apply zq_eq; cbn; apply val_mod).
  split.
  - intros P. apply (ed25519_roundtrip_partial OEd (zq_ops_ring ed_p) (zq_ops_eqb ed_p) Hrefl Hint Hrange Hofto
                       OEd_neg_parity KEd KEd_sqrtm1 x y P Hc Hv).
  - apply (ed25519_roundtrip OEd (zq_ops_ring ed_p) (zq_ops_eqb ed_p) Hrefl Hint Hrange Hofto
             OEd_neg_parity KEd KEd_sqrtm1 x y Hc Hv).
Qed.

(* parameterised groups over Z/P: a residue group with cofactor 6 (P = 31, Q = 5):
   4 = 2^2 is in the subgroup of order 5 and round-trips; 9 is a quadratic residue
   outside it and is refused (a Jacobi-symbol test would accept it) *)
Example residue_cofactor6 :
  residue_decode (zq_ops 31) 31 5 [4] = Ok 4 /\
  residue_decode (zq_ops 31) 31 5 (residue_encode 1 4) = Ok 4 /\
  residue_decode (zq_ops 31) 31 5 [9] = Err /\
  Z.pow 9 15 mod 31 = 1 /\
  residue_decode (zq_ops 31) 31 5 [0] = Err /\ residue_decode (zq_ops 31) 31 5 [31] = Err /\
  residue_decode (zq_ops 31) 31 5 [0; 0; 4] = Ok 4.
Proof. vm_compute. repeat split; reflexivity. Qed.

Lemma zq_ops_refl q (a : zq q) : feqb (zq_ops q) a a = true.
Proof. cbn. apply zeqb_eq. reflexivity. Qed.
