(* Property C04 - theorems about the decoder models of DecodeSM.v. *)
From Coq Require Import ZArith List Bool Lia Ring Arith.
From Kyber Require Import CurveRef.Field CurveRef.Edwards CurveRef.Weierstrass Decode.DecodeSM.
Import ListNotations.
Local Open Scope Z_scope.

(* ------------------------------------------------------------------ *)
(* guarded access *)
Lemma byte_at_some (s : list Z) i : (i < length s)%nat -> exists b, byte_at s i = Some b.
Proof.
  intros H. unfold byte_at. destruct (nth_error s i) eqn:E; [eauto|].
  apply nth_error_None in E. lia.
Qed.

Lemma slice_some (s : list Z) off len : (off + len <= length s)%nat ->
  slice s off len = Some (firstn len (skipn off s)).
Proof. intros H. unfold slice. destruct (Nat.leb_spec (off + len) (length s)); [reflexivity|lia]. Qed.

Lemma slice_none (s : list Z) off len : (length s < off + len)%nat -> slice s off len = None.
Proof. intros H. unfold slice. destruct (Nat.leb_spec (off + len) (length s)); [lia|reflexivity]. Qed.

Lemma slice_length (s : list Z) off len r : slice s off len = Some r -> length r = len.
Proof.
  unfold slice. destruct (Nat.leb_spec (off + len) (length s)); [|discriminate].
  intros E; inversion E; subst. rewrite firstn_length, skipn_length. lia.
Qed.

Lemma slice_from_some (s : list Z) off : (off <= length s)%nat -> slice_from s off = Some (skipn off s).
Proof. intros H. unfold slice_from. destruct (Nat.leb_spec off (length s)); [reflexivity|lia]. Qed.

(* ------------------------------------------------------------------ *)
(* totality: [Panic] is unreachable *)
Section Total.
  Context {F : Type} (O : fops F).

  Theorem ed25519_decode_total (K : @edc F) s : ed25519_decode O K s <> Panic.
  Proof.
    unfold ed25519_decode. destruct (Nat.eqb_spec (length s) 32) as [L|L]; cbn [negb]; [|discriminate].
    destruct (byte_at_some s 31 ltac:(lia)) as [b ->].
    repeat match goal with |- context [if ?c then _ else _] => destruct c end; discriminate.
  Qed.

  Theorem edv_decode_total (K : @edc F) s : edv_decode O K s <> Panic.
  Proof.
    unfold edv_decode. destruct (Nat.eqb_spec (length s) 32) as [L|L]; cbn [negb]; [|discriminate].
    unfold edv_decode_body.
    destruct (byte_at_some (rev s) 0 ltac:(rewrite rev_length; lia)) as [b ->].
    destruct (fsqrt58 O K _); discriminate.
  Qed.

  (* the decoder before the repair panics on the empty string: the unguarded b[0] *)
  Theorem edv_decode_unguarded_panics (K : @edc F) : edv_decode_unguarded O K [] = Panic.
  Proof. reflexivity. Qed.

  Theorem p256_decode_total W fa s : p256_decode O W fa s <> Panic.
  Proof.
    unfold p256_decode. destruct (Nat.eqb_spec (length s) 65) as [L|L]; cbn [negb]; [|discriminate].
    destruct (byte_at_some s 0 ltac:(lia)) as [b ->].
    destruct (negb (b =? 4)); [discriminate|].
    rewrite !slice_some by lia.
    destruct (p256_valid _ _ _ _ _); discriminate.
  Qed.

  Theorem bn256_decode_total W fa s : bn256_decode O W fa s <> Panic.
  Proof.
    unfold bn256_decode. destruct (Nat.ltb_spec (length s) 64) as [L|L]; [discriminate|].
    rewrite !slice_some by lia.
    repeat match goal with |- context [if ?c then _ else _] => destruct c end; discriminate.
  Qed.

  Theorem bn254_decode_total W fa s : bn254_decode O W fa s <> Panic.
  Proof.
    unfold bn254_decode. destruct (Nat.ltb_spec (length s) 64) as [L|L]; [discriminate|].
    rewrite !slice_some by lia.
    repeat match goal with |- context [if ?c then _ else _] => destruct c end; discriminate.
  Qed.

  (* every length other than the advertised one is refused (BN: every shorter one) *)
  Theorem wrong_length_rejected (K : @edc F) W fa s :
    (length s <> 32%nat -> ed25519_decode O K s = Err /\ edv_decode O K s = Err /\ edscalar_decode s = Err) /\
    (length s <> 65%nat -> p256_decode O W fa s = Err) /\
    ((length s < 64)%nat -> bn256_decode O W fa s = Err /\ bn254_decode O W fa s = Err) /\
    (forall q n le, length s <> n -> modint_decode q n le s = Err).
  Proof.
    repeat split.
    - unfold ed25519_decode. destruct (Nat.eqb_spec (length s) 32); [contradiction|reflexivity].
    - unfold edv_decode. destruct (Nat.eqb_spec (length s) 32); [contradiction|reflexivity].
    - unfold edscalar_decode. destruct (Nat.eqb_spec (length s) 32); [contradiction|reflexivity].
    - intros H. unfold p256_decode. destruct (Nat.eqb_spec (length s) 65); [contradiction|reflexivity].
    - unfold bn256_decode. destruct (Nat.ltb_spec (length s) 64); [reflexivity|lia].
    - unfold bn254_decode. destruct (Nat.ltb_spec (length s) 64); [reflexivity|lia].
    - intros q n le H. unfold modint_decode. destruct (Nat.eqb_spec (length s) n); [contradiction|reflexivity].
  Qed.
End Total.

Theorem scalar_decode_total q n le s : modint_decode q n le s <> Panic /\ edscalar_decode s <> Panic.
Proof.
  unfold modint_decode, edscalar_decode. split;
  repeat match goal with |- context [if ?c then _ else _] => destruct c end; discriminate.
Qed.

(* ------------------------------------------------------------------ *)
(* composite splitters: total, accept exactly the advertised lengths, and cut
   the input without losing or inventing bytes *)
Lemma skipn_skipn (x y : nat) (l : list Z) : skipn x (skipn y l) = skipn (x + y) l.
Proof.
  revert l. induction y as [|y IH]; intros l.
  - rewrite skipn_O, Nat.add_0_r. reflexivity.
  - destruct l as [|a l]; [rewrite !skipn_nil; reflexivity|].
    rewrite Nat.add_succ_r. cbn [skipn]. apply IH.
Qed.

Theorem schnorr_split_spec pl sl sig :
  schnorr_split pl sl sig <> Panic /\
  (length sig <> (sl + pl)%nat -> schnorr_split pl sl sig = Err) /\
  (length sig = (sl + pl)%nat ->
     exists R s, schnorr_split pl sl sig = Ok (R, s) /\ R ++ s = sig /\ length R = pl /\ length s = sl).
Proof.
  unfold schnorr_split. destruct (Nat.eqb_spec (length sig) (sl + pl)) as [L|L]; cbn [negb].
  - rewrite slice_some, slice_from_some by lia. rewrite ?skipn_O. repeat split; try discriminate; try lia.
    intros _. eexists _, _. split; [reflexivity|]. split; [apply firstn_skipn|].
    split; [rewrite firstn_length; lia | rewrite skipn_length; lia].
  - repeat split; try discriminate; try reflexivity. lia.
Qed.

Theorem eddsa_split_spec sig :
  eddsa_split sig <> Panic /\
  (length sig <> 64%nat -> eddsa_split sig = Err) /\
  (length sig = 64%nat ->
     exists R s, eddsa_split sig = Ok (R, s) /\ R ++ s = sig /\ length R = 32%nat /\ length s = 32%nat).
Proof.
  unfold eddsa_split. destruct (Nat.eqb_spec (length sig) 64) as [L|L]; cbn [negb].
  - rewrite slice_some, slice_from_some by lia. rewrite ?skipn_O. repeat split; try discriminate; try lia.
    intros _. eexists _, _. split; [reflexivity|]. split; [apply firstn_skipn|].
    split; [rewrite firstn_length; lia | rewrite skipn_length; lia].
  - repeat split; try discriminate; try reflexivity. lia.
Qed.

Theorem cosi_split_spec pl sl npub vok sig :
  cosi_split pl sl npub vok sig <> Panic /\
  (forall V r m, cosi_split pl sl npub vok sig = Ok (Some (V, r, m)) ->
     V ++ r ++ m = sig /\ length V = pl /\ length r = sl /\ length m = Nat.div (npub + 7) 8) /\
  (length sig <> (pl + sl + Nat.div (npub + 7) 8)%nat -> vok = true -> cosi_split pl sl npub vok sig = Err).
Proof.
  unfold cosi_split. destruct (Nat.ltb_spec (length sig) pl) as [L|L].
  { repeat split; try discriminate. }
  rewrite slice_some by lia. rewrite ?skipn_O.
  destruct vok; cbn [negb]; [|repeat split; discriminate].
  destruct (Nat.ltb_spec (length sig) (pl + sl)) as [L2|L2].
  { repeat split; try discriminate. }
  rewrite slice_some, slice_from_some by lia.
  destruct (Nat.eqb_spec (Nat.div (npub + 7) 8) (length (skipn (pl + sl) sig))) as [E|E]; cbn [negb].
  - repeat split; try discriminate.
    + inversion H; subst. replace (pl + sl)%nat with (sl + pl)%nat by lia.
      rewrite <- skipn_skipn. rewrite firstn_skipn. apply firstn_skipn.
    + inversion H; subst. rewrite firstn_length. lia.
    + inversion H; subst. rewrite firstn_length, skipn_length. lia.
    + inversion H; subst. symmetry. exact E.
    + intros H _. rewrite skipn_length in E. lia.
  - repeat split; discriminate.
Qed.

Theorem ecies_split_spec pl ctx :
  ecies_split pl ctx <> Panic /\
  ((length ctx < pl)%nat -> ecies_split pl ctx = Err) /\
  ((pl <= length ctx)%nat -> exists R c, ecies_split pl ctx = Ok (R, c) /\ R ++ c = ctx /\ length R = pl).
Proof.
  unfold ecies_split. destruct (Nat.ltb_spec (length ctx) pl) as [L|L].
  - repeat split; try discriminate. lia.
  - rewrite slice_some, slice_from_some by lia. rewrite ?skipn_O. repeat split; try discriminate; try lia.
    intros _. eexists _, _. split; [reflexivity|]. rewrite firstn_skipn, firstn_length. split; [reflexivity|lia].
Qed.

Theorem tbls_split_spec pl sig :
  tbls_index_of pl sig <> Panic /\ tbls_split sig <> Panic /\
  (length sig <> (pl + 2)%nat -> tbls_index_of pl sig = Err) /\
  ((length sig < 2)%nat -> tbls_split sig = Err) /\
  ((2 <= length sig)%nat -> exists ib v, tbls_split sig = Ok (be_decode ib, v) /\ ib ++ v = sig /\ length ib = 2%nat).
Proof.
  unfold tbls_index_of, tbls_split. repeat split.
  - destruct (Nat.eqb_spec (length sig) (pl + 2)); cbn [negb]; [|discriminate].
    rewrite slice_some by lia. discriminate.
  - destruct (slice sig 0 2) eqn:E; [|discriminate].
    assert (length sig >= 2)%nat.
    { unfold slice in E. destruct (Nat.leb_spec (0 + 2) (length sig)); [lia|discriminate]. }
    rewrite slice_from_some by lia. discriminate.
  - intros H. destruct (Nat.eqb_spec (length sig) (pl + 2)); [contradiction|reflexivity].
  - intros H. rewrite slice_none by lia. reflexivity.
  - intros H. rewrite slice_some, slice_from_some by lia. rewrite ?skipn_O.
    eexists _, _. split; [reflexivity|]. rewrite firstn_skipn, firstn_length. split; [reflexivity|lia].
Qed.

(* anon: no out-of-range slice is reachable when the caller's index is valid
   (the code panics on purpose otherwise), for every ciphertext *)
Theorem anon_split_spec pl sl nkeys mine macsz xok kok ct :
  (mine < nkeys)%nat ->
  anon_split pl sl nkeys mine macsz xok kok ct <> Panic /\
  (forall X slot ctx mac, anon_split pl sl nkeys mine macsz xok kok ct = Ok (Some (X, slot, ctx, mac)) ->
     length X = pl /\ length slot = sl /\ length mac = macsz /\
     (length ct = pl + sl * nkeys + length ctx + macsz)%nat /\
     X = firstn pl ct /\ ctx ++ mac = skipn (pl + sl * nkeys) ct).
Proof.
  intros Hm. unfold anon_split.
  destruct (Nat.ltb_spec (length ct) pl) as [L|L]; [split; [discriminate|intros; discriminate]|].
  rewrite slice_some by lia. rewrite ?skipn_O.
  destruct xok; cbn [negb]; [|split; [discriminate|intros; discriminate]].
  destruct (Nat.ltb_spec mine nkeys) as [_|]; [|lia]. cbn [negb].
  destruct (Nat.ltb_spec (length ct) (pl + sl * nkeys)) as [L2|L2]; [split; [discriminate|intros; discriminate]|].
  assert (pl + sl * mine + sl <= length ct)%nat by nia.
  rewrite slice_some by lia.
  destruct kok; cbn [negb]; [|split; [discriminate|intros; discriminate]].
  destruct (Nat.ltb_spec (length ct) (pl + sl * nkeys + macsz)) as [L3|L3]; [split; [discriminate|intros; discriminate]|].
  rewrite slice_some, slice_from_some by lia.
  split; [discriminate|]. intros X slot ctx mac H0. inversion H0; subst; clear H0.
  rewrite !firstn_length, !skipn_length.
  repeat split; try lia.
  set (h := (pl + sl * nkeys)%nat) in *.
  replace (skipn (length ct - macsz) ct) with (skipn (length ct - macsz - h) (skipn h ct)).
  - apply firstn_skipn.
  - rewrite skipn_skipn. f_equal. lia.
Qed.

(* ------------------------------------------------------------------ *)
(* accepted => member: algebra over an abstract commutative ring.
   The carrier only has to satisfy the ring laws and have a sound equality
   test; no primality is needed: the decoders *check* an equation, and the
   curve equation is a ring consequence of the checked one. *)
Section Alg.
  Context {F : Type} (O : fops F).
  Hypothesis Rth : ring_theory (f0 O) (f1 O) (fadd O) (fmul O) (fsub O) (fneg O) eq.
  Hypothesis feqb_ok : forall a b, feqb O a b = true -> a = b.
  Add Ring Fring : Rth.
  Notation "a +f b" := (fadd O a b) (at level 50, left associativity).
  Notation "a -f b" := (fsub O a b) (at level 50, left associativity).
  Notation "a *f b" := (fmul O a b) (at level 40, left associativity).
  Notation "0f" := (f0 O).
  Notation "1f" := (f1 O).

  (* twisted Edwards equation a x^2 + y^2 = 1 + d x^2 y^2 on an extended point with Z = 1 *)
  Definition ed_on_curve (a d : F) (P : @ept F) : Prop :=
    eZ P = 1f /\ eT P = eX P *f eY P /\
    a *f (eX P *f eX P) +f eY P *f eY P = 1f +f d *f (eX P *f eX P) *f (eY P *f eY P).

  Lemma sub_zero a b : a -f b = 0f -> a = b.
  Proof. intros H. assert (E : a = (a -f b) +f b) by ring. rewrite E, H. ring. Qed.

  Lemma add_zero a b : a +f b = 0f -> a = fneg O b.
  Proof. intros H. assert (E : a = (a +f b) -f b) by ring. rewrite E, H. ring. Qed.

  (* v x^2 = u with u = y^2 - 1, v = d y^2 + 1 is the curve equation (a = -1) *)
  Lemma ed_eq_from_ratio d x y :
    (x *f x) *f ((y *f y) *f d +f 1f) = (y *f y) -f 1f ->
    fneg O 1f *f (x *f x) +f y *f y = 1f +f d *f (x *f x) *f (y *f y).
  Proof.
    intros H.
    assert (E : fneg O 1f *f (x *f x) +f y *f y =
                (1f +f d *f (x *f x) *f (y *f y)) +f (((y *f y) -f 1f) -f (x *f x) *f ((y *f y) *f d +f 1f))) by ring.
    rewrite E, H. ring.
  Qed.

  Variable K : @edc F.
  Hypothesis sqrtm1_ok : c_sqrtm1 K *f c_sqrtm1 K = fneg O 1f.

  Lemma choose_sign_sq (c : bool) x : (if c then x else fneg O x) *f (if c then x else fneg O x) = x *f x.
  Proof. destruct c; ring. Qed.

  Theorem ed25519_decode_member s P :
    ed25519_decode O K s = Ok P -> ed_on_curve (fneg O 1f) (c_d K) P.
  Proof.
    unfold ed25519_decode.
    destruct (negb (Nat.eqb (length s) 32)); [discriminate|].
    destruct (byte_at s 31) as [top|]; [|discriminate].
    set (y := fofZ O (le_decode s mod 2 ^ 255)).
    set (u0 := fsq O y). set (v := u0 *f c_d K +f 1f). set (u := u0 -f 1f).
    set (v3 := fsq O v *f v). set (uv7 := fsq O v3 *f v *f u).
    set (x0 := fpow O uv7 ((ed_p - 5) / 8) *f v3 *f u).
    set (vxx := fsq O x0 *f v).
    assert (Hkey : forall x, (x *f x) *f v = u -> forall c : bool,
               ed_on_curve (fneg O 1f) (c_d K) (ed_of_xy O (if c then x else fneg O x) y)).
    { intros x Hx c. unfold ed_on_curve, ed_of_xy. cbn [eX eY eZ eT]. split; [reflexivity|]. split; [reflexivity|].
      apply ed_eq_from_ratio. rewrite choose_sign_sq. exact Hx. }
    destruct (feqb O (vxx -f u) 0f) eqn:E1.
    - intros H; inversion H; subst P; clear H. apply Hkey.
      apply feqb_ok in E1. apply sub_zero in E1. exact E1.
    - destruct (feqb O (vxx +f u) 0f) eqn:E2; [|discriminate].
      intros H; inversion H; subst P; clear H. apply Hkey.
      apply feqb_ok in E2. apply add_zero in E2. unfold vxx, fsq in E2.
      assert (E : (x0 *f c_sqrtm1 K) *f (x0 *f c_sqrtm1 K) *f v =
                  (x0 *f x0 *f v) *f (c_sqrtm1 K *f c_sqrtm1 K)) by ring.
      rewrite E, E2, sqrtm1_ok. ring.
  Qed.

  (* the generic Edwards decoder (vartime package): x^2 = (1 - y^2)/(a - d y^2).
     The inverse law and the non-vanishing of the denominator (d is a non-square
     and a = -1 a square modulo p) are explicit premises. *)
  Hypothesis finv_ok : forall a, a <> 0f -> a *f finv O a = 1f.
  Hypothesis denom_nz : forall y, ed_a O -f (c_d K *f (y *f y)) <> 0f.

  Lemma fsqrt58_sq a x : fsqrt58 O K a = Some x -> x *f x = a.
  Proof.
    unfold fsqrt58, fsq. set (r := fpow O a ((ed_p + 3) / 8)).
    destruct (feqb O (r *f r) a) eqn:E1.
    - intros H; inversion H; subst. apply feqb_ok. exact E1.
    - destruct (feqb O (r *f r) (fneg O a)) eqn:E2; [|discriminate].
      intros H; inversion H; subst. apply feqb_ok in E2.
      assert (E : r *f c_sqrtm1 K *f (r *f c_sqrtm1 K) = (r *f r) *f (c_sqrtm1 K *f c_sqrtm1 K)) by ring.
      rewrite E, E2, sqrtm1_ok. ring.
  Qed.

  Theorem edv_decode_member s P :
    edv_decode O K s = Ok P -> ed_on_curve (ed_a O) (c_d K) P.
  Proof.
    unfold edv_decode. destruct (negb (Nat.eqb (length s) 32)); [discriminate|].
    unfold edv_decode_body.
    destruct (byte_at (rev s) 0) as [b0|]; [|discriminate].
    set (y := fofZ O (be_decode (b0 mod 128 :: tl (rev s)))).
    set (t2 := ed_a O -f c_d K *f (y *f y)).
    destruct (fsqrt58 O K _) as [x|] eqn:Es; [|discriminate].
    intros H; inversion H; subst P; clear H.
    apply fsqrt58_sq in Es.
    unfold ed_on_curve, ed_of_xy. cbn [eX eY eZ eT]. split; [reflexivity|]. split; [reflexivity|].
    set (c := (ftoZ O x mod 2 =? b0 / 128)). rewrite choose_sign_sq, Es.
    pose proof (finv_ok t2 (denom_nz y)) as Hi.
    assert (E : ed_a O *f ((1f -f y *f y) *f finv O t2) +f y *f y =
                (1f +f c_d K *f ((1f -f y *f y) *f finv O t2) *f (y *f y)) +f
                ((1f -f y *f y) *f (t2 *f finv O t2) -f (1f -f y *f y))) by (unfold t2; ring).
    rewrite E, Hi. ring.
  Qed.

  (* short Weierstrass: the on-curve test is the curve equation *)
  Lemma w_oncurve_eq W fa x y :
    w_oncurve O W fa x y = true ->
    let X := fofZ O x in let Y := fofZ O y in
    Y *f Y = X *f X *f X +f fa *f X +f fofZ O (w_b W).
  Proof. unfold w_oncurve, fsq. intros H. apply feqb_ok in H. exact H. Qed.
End Alg.

(* ------------------------------------------------------------------ *)
(* bytes <-> integers *)
Definition is_byte (b : Z) : Prop := 0 <= b < 256.

Lemma le_bytes_length n v : length (le_bytes n v) = n.
Proof. revert v. induction n as [|n IH]; intros v; cbn [le_bytes length]; [reflexivity|]. rewrite IH. reflexivity. Qed.

Lemma be_bytes_length n v : length (be_bytes n v) = n.
Proof. unfold be_bytes. rewrite rev_length. apply le_bytes_length. Qed.

Lemma le_decode_le_bytes n v : 0 <= v -> le_decode (le_bytes n v) = v mod 256 ^ Z.of_nat n.
Proof.
  revert v. induction n as [|n IH]; intros v Hv.
  - cbn. rewrite Z.mod_1_r. reflexivity.
  - cbn [le_bytes le_decode]. rewrite IH by (apply Z.div_pos; lia).
    rewrite Nat2Z.inj_succ, Z.pow_succ_r by lia.
    rewrite Z.rem_mul_r by lia. reflexivity.
Qed.

Lemma be_decode_be_bytes n v : 0 <= v -> be_decode (be_bytes n v) = v mod 256 ^ Z.of_nat n.
Proof. intros Hv. unfold be_decode, be_bytes. rewrite rev_involutive. apply le_decode_le_bytes. exact Hv. Qed.

Lemma le_decode_nonneg s : Forall is_byte s -> 0 <= le_decode s.
Proof. induction 1 as [|b t Hb _ IH]; cbn [le_decode]; [lia|]. unfold is_byte in Hb. lia. Qed.

Lemma be_decode_nonneg s : Forall is_byte s -> 0 <= be_decode s.
Proof. intros H. unfold be_decode. apply le_decode_nonneg. apply Forall_rev. exact H. Qed.

Lemma Forall_firstn {A} (P : A -> Prop) n l : Forall P l -> Forall P (firstn n l).
Proof. revert l. induction n; intros l H; cbn; [constructor|]. destruct l; [constructor|]. inversion H; subst. constructor; auto. Qed.

Lemma Forall_skipn {A} (P : A -> Prop) n l : Forall P l -> Forall P (skipn n l).
Proof. revert l. induction n; intros l H; cbn; [exact H|]. destruct l; [constructor|]. inversion H; subst. auto. Qed.

Lemma slice_bytes s off len r : Forall is_byte s -> slice s off len = Some r -> Forall is_byte r.
Proof.
  unfold slice. destruct (off + len <=? length s)%nat; [|discriminate].
  intros H E; inversion E; subst. apply Forall_firstn, Forall_skipn, H.
Qed.

(* ------------------------------------------------------------------ *)
(* Weierstrass decoders: accepted => coordinates in range and on the curve;
   decode (encode P) = P *)
Section WProofs.
  Context {F : Type} (O : fops F) (W : wparams).
  Variable fa : F.
  Let p := w_p W.
  Hypothesis p_pos : 0 < p.
  Hypothesis p_256 : p < 2 ^ 256.

  Definition wvalid (P : wpt) : Prop :=
    match P with
    | WInf => True
    | WAff x y => 0 <= x < p /\ 0 <= y < p /\ w_is00 x y = false /\ w_oncurve O W fa x y = true
    end.

  Theorem p256_decode_member s P :
    Forall is_byte s -> p256_decode O W fa s = Ok P -> wvalid P.
  Proof.
    intros Hs. unfold p256_decode.
    destruct (negb (Nat.eqb (length s) 65)); [discriminate|].
    destruct (byte_at s 0) as [f|]; [|discriminate].
    destruct (negb (f =? 4)); [discriminate|].
    destruct (slice s 1 32) as [xb|] eqn:Ex; [|discriminate].
    destruct (slice s 33 32) as [yb|] eqn:Ey; [|discriminate].
    pose proof (be_decode_nonneg _ (slice_bytes _ _ _ _ Hs Ex)) as Hx.
    pose proof (be_decode_nonneg _ (slice_bytes _ _ _ _ Hs Ey)) as Hy.
    set (x := be_decode xb) in *. set (y := be_decode yb) in *.
    destruct (p256_valid O W fa x y) eqn:V; [|discriminate].
    destruct (w_is00 x y) eqn:Z0; intros H; inversion H; subst P; cbn [wvalid]; [exact I|].
    unfold p256_valid in V. rewrite Z0 in V. fold p in V. cbn [negb] in V.
    rewrite orb_false_r, andb_true_r in V.
    apply andb_prop in V. destruct V as [V Hc]. apply andb_prop in V. destruct V as [V1 V2].
    apply Z.ltb_lt in V1, V2. repeat split; try lia; assumption.
  Qed.

  Theorem bn256_decode_member s P : bn256_decode O W fa s = Ok P -> wvalid P.
  Proof.
    unfold bn256_decode. destruct (length s <? 64)%nat; [discriminate|].
    destruct (slice s 0 32) as [xb|]; [|discriminate].
    destruct (slice s 32 32) as [yb|]; [|discriminate].
    fold p. pose proof (Z.mod_pos_bound (be_decode xb) p p_pos). pose proof (Z.mod_pos_bound (be_decode yb) p p_pos).
    destruct (w_is00 _ _) eqn:Z0; [intros H'; inversion H'; exact I|].
    destruct (w_oncurve O W fa _ _) eqn:C; [|discriminate].
    intros H'; inversion H'; subst P. cbn [wvalid]. repeat split; try lia; assumption.
  Qed.

  Theorem bn254_decode_member s P :
    Forall is_byte s -> bn254_decode O W fa s = Ok P -> wvalid P.
  Proof.
    intros Hs. unfold bn254_decode. destruct (length s <? 64)%nat; [discriminate|].
    destruct (slice s 0 32) as [xb|] eqn:Ex; [|discriminate].
    destruct (slice s 32 32) as [yb|] eqn:Ey; [|discriminate].
    pose proof (be_decode_nonneg _ (slice_bytes _ _ _ _ Hs Ex)) as Hx.
    pose proof (be_decode_nonneg _ (slice_bytes _ _ _ _ Hs Ey)) as Hy.
    fold p. destruct (Z.leb_spec p (be_decode xb)); [discriminate|].
    destruct (Z.leb_spec p (be_decode yb)); [discriminate|].
    destruct (w_is00 _ _) eqn:Z0; [intros H'; inversion H'; exact I|].
    destruct (w_oncurve O W fa _ _) eqn:C; [|discriminate].
    intros H'; inversion H'; subst P. cbn [wvalid]. repeat split; try lia; assumption.
  Qed.

  Lemma mod_small_256 v : 0 <= v < p -> v mod 256 ^ Z.of_nat 32 = v.
  Proof. intros H. apply Z.mod_small. change (256 ^ Z.of_nat 32) with (2 ^ 256). lia. Qed.

  Lemma two_coords x y :
    slice (be_bytes 32 x ++ be_bytes 32 y) 0 32 = Some (be_bytes 32 x) /\
    slice (be_bytes 32 x ++ be_bytes 32 y) 32 32 = Some (be_bytes 32 y).
  Proof.
    split.
    - rewrite slice_some by (rewrite app_length, !be_bytes_length; lia). rewrite skipn_O.
      rewrite firstn_app, be_bytes_length. replace (32 - 32)%nat with 0%nat by lia.
      rewrite firstn_O, app_nil_r. rewrite firstn_all2 by (rewrite be_bytes_length; lia). reflexivity.
    - rewrite slice_some by (rewrite app_length, !be_bytes_length; lia).
      rewrite skipn_app, be_bytes_length. replace (32 - 32)%nat with 0%nat by lia.
      rewrite skipn_O. rewrite skipn_all2 by (rewrite be_bytes_length; lia). cbn [app].
      rewrite firstn_all2 by (rewrite be_bytes_length; lia). reflexivity.
  Qed.

  Theorem p256_roundtrip P : wvalid P -> p256_decode O W fa (p256_encode_w P) = Ok P.
  Proof.
    destruct P as [|x y]; intros V.
    - unfold p256_decode. cbn [p256_encode_w].
      replace (negb (Nat.eqb (length (4 :: repeat 0 64)) 65)) with false by reflexivity.
      replace (byte_at (4 :: repeat 0 64) 0) with (Some 4) by reflexivity.
      replace (negb (4 =? 4)) with false by reflexivity.
      replace (slice (4 :: repeat 0 64) 1 32) with (Some (repeat 0 32)) by reflexivity.
      replace (slice (4 :: repeat 0 64) 33 32) with (Some (repeat 0 32)) by reflexivity.
      replace (be_decode (repeat 0 32)) with 0 by reflexivity.
      unfold p256_valid. replace (w_is00 0 0) with true by reflexivity. rewrite orb_true_r. reflexivity.
    - destruct V as (Hx & Hy & Z0 & C). unfold p256_decode. cbn [p256_encode_w].
      cbn [length]. rewrite app_length, !be_bytes_length. cbn [Nat.add Nat.eqb negb byte_at nth_error].
      change (4 =? 4) with true. cbn [negb].
      destruct (two_coords x y) as [S1 S2].
      assert (E1 : slice (4 :: be_bytes 32 x ++ be_bytes 32 y) 1 32 = Some (be_bytes 32 x)).
      { unfold slice in *. cbn [length]. rewrite app_length, !be_bytes_length in *. cbn [skipn]. exact S1. }
      assert (E2 : slice (4 :: be_bytes 32 x ++ be_bytes 32 y) 33 32 = Some (be_bytes 32 y)).
      { unfold slice in *. cbn [length]. rewrite app_length, !be_bytes_length in *. cbn [skipn]. exact S2. }
      rewrite E1, E2. rewrite !be_decode_be_bytes by lia. rewrite !mod_small_256 by assumption.
      unfold p256_valid. fold p. rewrite Z0, C. cbn [negb].
      destruct (Z.ltb_spec x p); [|lia]. destruct (Z.ltb_spec y p); [|lia]. reflexivity.
  Qed.

  Theorem bn256_roundtrip P : wvalid P -> bn256_decode O W fa (bn_encode_w P) = Ok P.
  Proof.
    destruct P as [|x y]; intros V.
    - unfold bn256_decode. cbn [bn_encode_w].
      replace (length (repeat 0 64) <? 64)%nat with false by reflexivity.
      replace (slice (repeat 0 64) 0 32) with (Some (repeat 0 32)) by reflexivity.
      replace (slice (repeat 0 64) 32 32) with (Some (repeat 0 32)) by reflexivity.
      replace (be_decode (repeat 0 32)) with 0 by reflexivity. fold p. rewrite Z.mod_0_l by lia. reflexivity.
    - destruct V as (Hx & Hy & Z0 & C). unfold bn256_decode. cbn [bn_encode_w].
      rewrite app_length, !be_bytes_length. change (32 + 32 <? 64)%nat with false.
      destruct (two_coords x y) as [-> ->].
      rewrite !be_decode_be_bytes by lia. rewrite !mod_small_256 by assumption.
      fold p. rewrite !Z.mod_small by lia. rewrite Z0, C. reflexivity.
  Qed.

  Theorem bn254_roundtrip P : wvalid P -> bn254_decode O W fa (bn_encode_w P) = Ok P.
  Proof.
    destruct P as [|x y]; intros V.
    - unfold bn254_decode. cbn [bn_encode_w].
      replace (length (repeat 0 64) <? 64)%nat with false by reflexivity.
      replace (slice (repeat 0 64) 0 32) with (Some (repeat 0 32)) by reflexivity.
      replace (slice (repeat 0 64) 32 32) with (Some (repeat 0 32)) by reflexivity.
      replace (be_decode (repeat 0 32)) with 0 by reflexivity. fold p.
      destruct (Z.leb_spec p 0); [lia|]. reflexivity.
    - destruct V as (Hx & Hy & Z0 & C). unfold bn254_decode. cbn [bn_encode_w].
      rewrite app_length, !be_bytes_length. change (32 + 32 <? 64)%nat with false.
      destruct (two_coords x y) as [-> ->].
      rewrite !be_decode_be_bytes by lia. rewrite !mod_small_256 by assumption.
      fold p. destruct (Z.leb_spec p x); [lia|]. destruct (Z.leb_spec p y); [lia|].
      rewrite Z0, C. reflexivity.
  Qed.
End WProofs.

(* ------------------------------------------------------------------ *)
(* scalars *)
Theorem modint_decode_range q n le s v :
  Forall is_byte s -> modint_decode q n le s = Ok v -> 0 <= v < q.
Proof.
  intros Hs. unfold modint_decode. destruct (negb (Nat.eqb (length s) n)); [discriminate|].
  set (w := if le then le_decode s else be_decode s).
  assert (0 <= w) by (unfold w; destruct le; [apply le_decode_nonneg|apply be_decode_nonneg]; exact Hs).
  destruct (Z.leb_spec q w); [discriminate|]. intros E; inversion E; subst. lia.
Qed.

Theorem modint_roundtrip q n le v :
  0 <= v < q -> q <= 256 ^ Z.of_nat n ->
  modint_decode q n le (modint_encode n le v) = Ok v.
Proof.
  intros Hv Hq. unfold modint_decode, modint_encode.
  assert (L : length (if le then le_bytes n v else be_bytes n v) = n)
    by (destruct le; [apply le_bytes_length|apply be_bytes_length]).
  rewrite L, Nat.eqb_refl. cbn [negb].
  assert (E : (if le then le_decode (if le then le_bytes n v else be_bytes n v)
               else be_decode (if le then le_bytes n v else be_bytes n v)) = v).
  { destruct le; [rewrite le_decode_le_bytes by lia|rewrite be_decode_be_bytes by lia]; apply Z.mod_small; lia. }
  rewrite E. destruct (Z.leb_spec q v); [lia|reflexivity].
Qed.

(* Ed25519 scalars: every 32-byte string is accepted; its re-encoding is the
   canonical residue, which decodes and re-encodes to itself *)
Theorem edscalar_reencode s s' :
  Forall is_byte s -> edscalar_decode s = Ok s' ->
  s' = s /\ 0 <= le_decode (edscalar_encode s') < ed_L /\
  edscalar_decode (edscalar_encode s') = Ok (edscalar_encode s') /\
  edscalar_encode (edscalar_encode s') = edscalar_encode s'.
Proof.
  intros Hs. unfold edscalar_decode. destruct (negb (Nat.eqb (length s) 32)); [discriminate|].
  intros E; inversion E; subst s'. split; [reflexivity|].
  pose proof (le_decode_nonneg s Hs) as Hn.
  assert (HL : 0 < ed_L) by (vm_compute; reflexivity).
  pose proof (Z.mod_pos_bound (le_decode s) ed_L HL) as Hm.
  assert (H256 : ed_L < 256 ^ Z.of_nat 32) by (vm_compute; reflexivity).
  assert (Ed : le_decode (edscalar_encode s) = le_decode s mod ed_L).
  { unfold edscalar_encode. rewrite le_decode_le_bytes by lia. apply Z.mod_small. lia. }
  split; [rewrite Ed; exact Hm|]. split.
  - unfold edscalar_decode. unfold edscalar_encode at 1. rewrite le_bytes_length. reflexivity.
  - unfold edscalar_encode at 1. rewrite Ed. rewrite Z.mod_mod by lia. reflexivity.
Qed.

(* ------------------------------------------------------------------ *)
(* Ed25519 round trip.  Over an integral domain whose representation map is
   canonical, whatever FromBytes returns on the encoding of a curve point
   (x, y) is (x, y) itself.  That it returns something (the candidate root is a
   root whenever one exists) is the square-root premise [root_found]. *)
Section EdRoundtrip.
  Context {F : Type} (O : fops F).
  Hypothesis Rth : ring_theory (f0 O) (f1 O) (fadd O) (fmul O) (fsub O) (fneg O) eq.
  Hypothesis feqb_ok : forall a b, feqb O a b = true -> a = b.
  Hypothesis feqb_refl : forall a, feqb O a a = true.
  Hypothesis integral : forall a b, fmul O a b = f0 O -> a = f0 O \/ b = f0 O.
  (* canonical representatives, odd modulus *)
  Hypothesis toZ_range : forall a, 0 <= ftoZ O a < ed_p.
  Hypothesis of_to : forall a, fofZ O (ftoZ O a) = a.
  Hypothesis neg_parity : forall a, a <> f0 O -> ftoZ O (fneg O a) mod 2 <> ftoZ O a mod 2.
  Add Ring Fring2 : Rth.
  Notation "a +f b" := (fadd O a b) (at level 50, left associativity).
  Notation "a -f b" := (fsub O a b) (at level 50, left associativity).
  Notation "a *f b" := (fmul O a b) (at level 40, left associativity).
  Variable K : @edc F.
  Hypothesis sqrtm1_ok : c_sqrtm1 K *f c_sqrtm1 K = fneg O (f1 O).

  Lemma sq_eq_cases a b : a *f a = b *f b -> a = b \/ a = fneg O b.
  Proof.
    intros H. assert (E : (a -f b) *f (a +f b) = f0 O).
    { assert (E0 : (a -f b) *f (a +f b) = a *f a -f b *f b) by ring. rewrite E0, H. ring. }
    destruct (integral _ _ E) as [E1|E1].
    - left. apply (sub_zero O Rth). exact E1.
    - right. apply (add_zero O Rth). exact E1.
  Qed.

  Lemma parity_01 z : z mod 2 = 0 \/ z mod 2 = 1.
  Proof. pose proof (Z.mod_pos_bound z 2 ltac:(lia)). lia. Qed.

  (* the parsed fields of the input: y and the sign bit *)
  Theorem ed25519_decode_unique s top x y P :
    byte_at s 31 = Some top -> top / 128 = ftoZ O x mod 2 ->
    fofZ O (le_decode s mod 2 ^ 255) = y ->
    (x *f x) *f ((y *f y) *f c_d K +f f1 O) = (y *f y) -f f1 O ->
    (y *f y) *f c_d K +f f1 O <> f0 O ->
    ed25519_decode O K s = Ok P -> P = ed_of_xy O x y.
  Proof.
    intros Htop Hsign Hy Hcurve Hv. unfold ed25519_decode.
    destruct (negb (Nat.eqb (length s) 32)); [discriminate|].
    rewrite Htop, Hy, Hsign.
    set (u0 := fsq O y). set (v := u0 *f c_d K +f f1 O). set (u := u0 -f f1 O).
    set (v3 := fsq O v *f v). set (uv7 := fsq O v3 *f v *f u).
    set (x0 := fpow O uv7 ((ed_p - 5) / 8) *f v3 *f u).
    set (vxx := fsq O x0 *f v).
    assert (Hkey : forall xc, (xc *f xc) *f v = u ->
       (if ftoZ O xc mod 2 =? ftoZ O x mod 2 then xc else fneg O xc) = x).
    { intros xc Hxc.
      assert (Hsq : xc *f xc = x *f x).
      { assert (E : (xc *f xc -f x *f x) *f v = f0 O).
        { assert (E0 : (xc *f xc -f x *f x) *f v = (xc *f xc) *f v -f (x *f x) *f v) by ring.
          rewrite E0, Hxc. unfold v, u, u0, fsq. rewrite Hcurve. ring. }
        destruct (integral _ _ E) as [E1|E1]; [apply (sub_zero O Rth); exact E1|].
        exfalso. apply Hv. exact E1. }
      destruct (sq_eq_cases _ _ Hsq) as [->|Hneg].
      - rewrite Z.eqb_refl. reflexivity.
      - (* xc = -x *)
        destruct (Z.eqb_spec (ftoZ O xc mod 2) (ftoZ O x mod 2)) as [Ep|Ep].
        + (* same parity although xc = -x: x = 0 *)
          destruct (feqb O x (f0 O)) eqn:Ez.
          * apply feqb_ok in Ez. subst x. rewrite Hneg. ring.
          * exfalso. assert (Hx0 : x <> f0 O) by (intros E; rewrite E, feqb_refl in Ez; discriminate).
            apply (neg_parity x Hx0). rewrite <- Hneg. exact Ep.
        + rewrite Hneg. ring. }
    destruct (feqb O (vxx -f u) (f0 O)) eqn:E1.
    - intros H; inversion H; subst P. f_equal. apply Hkey.
      apply feqb_ok in E1. apply (sub_zero O Rth) in E1. exact E1.
    - destruct (feqb O (vxx +f u) (f0 O)) eqn:E2; [|discriminate].
      intros H; inversion H; subst P.
      f_equal. apply Hkey.
      apply feqb_ok in E2. apply (add_zero O Rth) in E2. unfold vxx, fsq in E2.
      assert (E : (x0 *f c_sqrtm1 K) *f (x0 *f c_sqrtm1 K) *f v =
                  (x0 *f x0 *f v) *f (c_sqrtm1 K *f c_sqrtm1 K)) by ring.
      rewrite E, E2, sqrtm1_ok. ring.
  Qed.

  (* bytes of the encoding: y in the low 255 bits, parity of x in bit 255 *)
  Lemma le_decode_app a b : le_decode (a ++ b) = le_decode a + 256 ^ Z.of_nat (length a) * le_decode b.
  Proof.
    induction a as [|h t IH]; cbn [app le_decode length].
    - change (Z.of_nat 0) with 0. rewrite Z.pow_0_r. lia.
    - rewrite IH, Nat2Z.inj_succ, Z.pow_succ_r by lia. ring.
  Qed.

  Lemma encode_fields x y :
    let s := ed_encode_xy O x y in
    length s = 32%nat /\
    byte_at s 31 = Some (nth 31 (le_bytes 32 (ftoZ O y)) 0 + 128 * (ftoZ O x mod 2)) /\
    (nth 31 (le_bytes 32 (ftoZ O y)) 0 + 128 * (ftoZ O x mod 2)) / 128 = ftoZ O x mod 2 /\
    le_decode s mod 2 ^ 255 = ftoZ O y.
  Proof.
    cbv zeta. unfold ed_encode_xy.
    pose proof (toZ_range y) as Ry. set (Y := ftoZ O y) in *. set (sg := ftoZ O x mod 2).
    assert (Hsg : 0 <= sg <= 1) by (unfold sg; pose proof (Z.mod_pos_bound (ftoZ O x) 2 ltac:(lia)); lia).
    assert (Hp : ed_p < 2 ^ 255) by (vm_compute; reflexivity).
    set (yb := le_bytes 32 Y).
    assert (Lyb : length yb = 32%nat) by apply le_bytes_length.
    assert (L31 : length (firstn 31 yb) = 31%nat) by (rewrite firstn_length; lia).
    (* yb = firstn 31 yb ++ [nth 31 yb 0] *)
    assert (Hsplit : yb = firstn 31 yb ++ [nth 31 yb 0]).
    { rewrite <- (firstn_skipn 31 yb) at 1. f_equal. }
    assert (HY : le_decode yb = Y).
    { unfold yb. rewrite le_decode_le_bytes by lia. apply Z.mod_small.
      change (256 ^ Z.of_nat 32) with (2 ^ 256). lia. }
    set (top := nth 31 yb 0) in *.
    assert (Hdec : Y = le_decode (firstn 31 yb) + 2 ^ 248 * top).
    { rewrite <- HY at 1. rewrite Hsplit at 1. rewrite le_decode_app, L31. cbn [le_decode].
      change (256 ^ Z.of_nat 31) with (2 ^ 248). ring. }
    assert (Hbytes : forall n v, Forall is_byte (le_bytes n v)).
    { induction n as [|n IH]; intros v; cbn [le_bytes]; constructor; [|apply IH].
      unfold is_byte. apply Z.mod_pos_bound. lia. }
    assert (Hlow : 0 <= le_decode (firstn 31 yb)) by (apply le_decode_nonneg, Forall_firstn, Hbytes).
    assert (Htop : 0 <= top < 256).
    { unfold top. destruct (nth_in_or_default 31 yb 0) as [Hin | Hd]; [|rewrite Hd; lia].
      pose proof (Hbytes 32%nat Y) as Hb. rewrite Forall_forall in Hb. apply Hb. exact Hin. }
    set (c := 2 ^ 248) in *.
    assert (Hc : 0 < c) by (vm_compute; reflexivity).
    assert (H255 : 2 ^ 255 = 128 * c) by (vm_compute; reflexivity).
    assert (Htop128 : top < 128) by nia.
    split; [rewrite app_length, L31; reflexivity|].
    split.
    { unfold byte_at. rewrite nth_error_app2 by lia. rewrite L31. reflexivity. }
    split.
    { rewrite Z.add_comm, Z.mul_comm. rewrite Z.div_add_l by lia. rewrite Z.div_small by lia. lia. }
    rewrite le_decode_app, L31. cbn [le_decode]. change (256 ^ Z.of_nat 31) with c.
    replace (le_decode (firstn 31 yb) + c * (top + 128 * sg + 256 * 0)) with (Y + sg * 2 ^ 255) by (rewrite H255, Hdec; ring).
    rewrite Z.mod_add by lia. apply Z.mod_small. lia.
  Qed.

  (* decode (encode (x, y)) returns (x, y) whenever it returns anything *)
  Theorem ed25519_roundtrip_partial x y P :
    (x *f x) *f ((y *f y) *f c_d K +f f1 O) = (y *f y) -f f1 O ->
    (y *f y) *f c_d K +f f1 O <> f0 O ->
    ed25519_decode O K (ed_encode_xy O x y) = Ok P -> P = ed_of_xy O x y.
  Proof.
    intros Hc Hv. destruct (encode_fields x y) as (_ & Hb & Hs & Hy).
    eapply ed25519_decode_unique; eauto. rewrite Hy. apply of_to.
  Qed.

  (* ... and it does return (x, y) as soon as it does not refuse (square-root premise) *)
  Theorem ed25519_roundtrip x y :
    (x *f x) *f ((y *f y) *f c_d K +f f1 O) = (y *f y) -f f1 O ->
    (y *f y) *f c_d K +f f1 O <> f0 O ->
    ed25519_decode O K (ed_encode_xy O x y) <> Err ->
    ed25519_decode O K (ed_encode_xy O x y) = Ok (ed_of_xy O x y).
  Proof.
    intros Hc Hv Hne. pose proof (ed25519_decode_total O K (ed_encode_xy O x y)) as Ht.
    destruct (ed25519_decode O K (ed_encode_xy O x y)) as [P| |] eqn:E; try contradiction.
    f_equal. eapply ed25519_roundtrip_partial; eauto.
  Qed.
End EdRoundtrip.

(* ------------------------------------------------------------------ *)
(* parameterised groups: residue groups with arbitrary (P, Q) and the generic
   Edwards decoder with arbitrary (p, a, d, n) *)
Section Param.
  Context {F : Type} (O : fops F).
  Hypothesis Rth : ring_theory (f0 O) (f1 O) (fadd O) (fmul O) (fsub O) (fneg O) eq.
  Hypothesis feqb_ok : forall a b, feqb O a b = true -> a = b.
  Hypothesis feqb_refl : forall a, feqb O a a = true.
  Add Ring Fring3 : Rth.
  Notation "a +f b" := (fadd O a b) (at level 50, left associativity).
  Notation "a -f b" := (fsub O a b) (at level 50, left associativity).
  Notation "a *f b" := (fmul O a b) (at level 40, left associativity).

  (* accepted iff 0 < v < P and v^Q = 1 in the ring: membership in the subgroup of
     order Q for EVERY parameter set, whatever the cofactor *)
  Theorem residue_decode_iff P Q s v :
    residue_decode O P Q s = Ok v <->
    v = be_decode s /\ 0 < v < P /\ fpow O (fofZ O v) Q = f1 O.
  Proof.
    unfold residue_decode. split.
    - destruct (Z.ltb_spec 0 (be_decode s)); cbn [andb]; [|discriminate].
      destruct (Z.ltb_spec (be_decode s) P); cbn [andb]; [|discriminate].
      destruct (feqb O _ _) eqn:E; [|discriminate].
      intros H'; inversion H'; subst v. apply feqb_ok in E. repeat split; try lia; exact E.
    - intros (-> & Hr & Hm). destruct (Z.ltb_spec 0 (be_decode s)); [|lia].
      destruct (Z.ltb_spec (be_decode s) P); [|lia]. cbn [andb]. rewrite Hm, feqb_refl. reflexivity.
  Qed.

  Theorem residue_decode_total P Q s : residue_decode O P Q s <> Panic.
  Proof. unfold residue_decode. destruct (_ && _); discriminate. Qed.

  Theorem residue_roundtrip P Q n v :
    0 < v < P -> P <= 256 ^ Z.of_nat n -> fpow O (fofZ O v) Q = f1 O ->
    residue_decode O P Q (residue_encode n v) = Ok v.
  Proof.
    intros Hv Hn Hm. apply residue_decode_iff. unfold residue_encode.
    rewrite be_decode_be_bytes by lia. rewrite Z.mod_small by lia. repeat split; try lia; exact Hm.
  Qed.

  Variables (p : Z) (a d sqrtm1 : F) (n : nat).

  (* n = PointLen >= 1 for every curve; with n = 0 the (repaired) length check would let
     the empty string through to b[0] *)
  Theorem edg_decode_total s : (0 < n)%nat -> edg_decode O p a d sqrtm1 n s <> Panic.
  Proof.
    intros Hn. unfold edg_decode. destruct (Nat.eqb_spec (length s) n) as [L|L]; cbn [negb]; [|discriminate].
    destruct (byte_at_some (rev s) 0 ltac:(rewrite rev_length; lia)) as [b ->].
    destruct (gsqrt O p sqrtm1 _); discriminate.
  Qed.

  Theorem edg_wrong_length_rejected s : length s <> n -> edg_decode O p a d sqrtm1 n s = Err.
  Proof. intros H. unfold edg_decode. destruct (Nat.eqb_spec (length s) n); [contradiction|reflexivity]. Qed.

  Hypothesis sqrtm1_ok : p mod 4 <> 3 -> sqrtm1 *f sqrtm1 = fneg O (f1 O).

  Lemma gsqrt_sq t x : gsqrt O p sqrtm1 t = Some x -> x *f x = t.
  Proof.
    unfold gsqrt. destruct (Z.eqb_spec (p mod 4) 3) as [E4|E4].
    - destruct (feqb O _ t) eqn:E1; [|discriminate]. intros H; inversion H; subst. apply feqb_ok. exact E1.
    - set (r := fpow O t ((p + 3) / 8)).
      destruct (feqb O (r *f r) t) eqn:E1.
      + intros H; inversion H; subst. apply feqb_ok. exact E1.
      + destruct (feqb O (r *f r) (fneg O t)) eqn:E2; [|discriminate].
        intros H; inversion H; subst. apply feqb_ok in E2.
        assert (E : r *f sqrtm1 *f (r *f sqrtm1) = (r *f r) *f (sqrtm1 *f sqrtm1)) by ring.
        rewrite E, E2, (sqrtm1_ok E4). ring.
  Qed.

  (* accepted => on the curve a x^2 + y^2 = 1 + d x^2 y^2, for every parameter set;
     premises: inverse law on the denominator, which does not vanish (d non-square) *)
  Theorem edg_decode_member s x y :
    (forall t, t <> f0 O -> t *f ginv O p t = f1 O) ->
    (forall y, a -f d *f (y *f y) <> f0 O) ->
    edg_decode O p a d sqrtm1 n s = Ok (x, y) ->
    a *f (x *f x) +f y *f y = f1 O +f d *f (x *f x) *f (y *f y).
  Proof.
    intros Hinv Hnz. unfold edg_decode. destruct (negb (Nat.eqb (length s) n)); [discriminate|].
    destruct (byte_at (rev s) 0) as [b0|]; [|discriminate].
    set (y0 := fofZ O (be_decode (b0 mod 128 :: tl (rev s)))).
    set (t2 := a -f d *f (y0 *f y0)).
    destruct (gsqrt O p sqrtm1 _) as [x0|] eqn:Es; [|discriminate].
    intros H; inversion H; subst x y; clear H.
    apply gsqrt_sq in Es.
    assert (Hsq : forall c : bool, (if c then x0 else fneg O x0) *f (if c then x0 else fneg O x0) = x0 *f x0)
      by (intros c; destruct c; ring).
    rewrite Hsq, Es.
    pose proof (Hinv t2 (Hnz y0)) as Hi.
    assert (E : a *f ((f1 O -f y0 *f y0) *f ginv O p t2) +f y0 *f y0 =
                (f1 O +f d *f ((f1 O -f y0 *f y0) *f ginv O p t2) *f (y0 *f y0)) +f
                ((f1 O -f y0 *f y0) *f (t2 *f ginv O p t2) -f (f1 O -f y0 *f y0))) by (unfold t2; ring).
    rewrite E, Hi. ring.
  Qed.
End Param.
