(* Runner of the C04 correspondence: the model decoders are executed (BigZ
   field arithmetic) on the byte strings the implementation was run on and
   their outcome {Err, Ok re-encoding} is compared with the observed one. *)
From Coq Require Import ZArith List Bool.
From Bignums Require Import BigZ.
From Kyber Require Import CurveRef.Field CurveRef.Edwards CurveRef.Weierstrass Decode.DecodeSM.
Import ListNotations.
Local Open Scope Z_scope.

Fixpoint zl_eqb (a b : list Z) : bool :=
  match a, b with
  | [], [] => true
  | x :: a', y :: b' => (x =? y) && zl_eqb a' b'
  | _, _ => false
  end.

(* observed: None = error, Some bytes = re-encoding of the accepted value.
   A model [Panic] never matches (the harness writes an impossible re-encoding
   for an observed panic, so that one never matches either). *)
Definition same {A} (enc : A -> list Z) (m : res A) (obs : option (list Z)) : bool :=
  match m, obs with
  | Err, None => true
  | Ok a, Some b => zl_eqb (enc a) b
  | _, _ => false
  end.

Inductive case :=
(* grp: 0 edwards25519, 1 edwards25519vartime, 2 P-256, 3 BN256 G1, 4 BN254 G1 *)
| CPoint (id grp : Z) (items : list (list Z * option (list Z)))
(* kind: 0 edwards25519 scalar, 1 mod.Int big-endian, 2 mod.Int little-endian *)
| CScalar (id kind q size : Z) (items : list (list Z * option (list Z)))
(* composite splitters: item = (bytes, oracle flags, observed class: 0 = a length
   guard refused, 1 = passed the guards (whatever happened later), 2 = the
   embedded point/key did not decode) *)
| CSplit (id kind : Z) (params : list Z) (items : list (list Z * Z * Z))
(* residue group with parameters P, Q; n = PointLen *)
| CResidue (id P Q n : Z) (items : list (list Z * option (list Z)))
(* generic Edwards curve a x^2 + y^2 = 1 + d x^2 y^2 over GF(p); n = PointLen *)
| CEdGen (id p a d n : Z) (items : list (list Z * option (list Z))).

Definition ed_enc {F} (O : fops F) (P : @ept F) : list Z := ed_encode_xy O (eX P) (eY P).

Definition split_class {A} (r : res A) : Z :=
  match r with Err => 0 | Ok _ => 1 | Panic => 99 end.
Definition split_class_opt {A} (r : res (option A)) : Z :=
  match r with Err => 0 | Ok (Some _) => 1 | Ok None => 2 | Panic => 99 end.

Definition pnat (params : list Z) (i : nat) : nat := Z.to_nat (nth i params 0).

Definition check (c : case) : option Z :=
  match c with
  | CPoint id grp items =>
      let ok :=
        if grp <? 2 then
          let O := bz_ops ed_p in let K := ed_consts O in
          let dec := if grp =? 0 then ed25519_decode O K else edv_decode O K in
          forallb (fun it => same (ed_enc O) (dec (fst it)) (snd it)) items
        else
          let W := if grp =? 2 then p256 else if grp =? 3 then bn256 else bn254 in
          let O := bz_ops (w_p W) in let fa := fofZ O (w_a W) in
          if grp =? 2 then forallb (fun it => same p256_encode_w (p256_decode O W fa (fst it)) (snd it)) items
          else if grp =? 3 then forallb (fun it => same bn_encode_w (bn256_decode O W fa (fst it)) (snd it)) items
          else forallb (fun it => same bn_encode_w (bn254_decode O W fa (fst it)) (snd it)) items in
      if ok then None else Some id
  | CScalar id kind q size items =>
      let ok :=
        if kind =? 0 then forallb (fun it => same edscalar_encode (edscalar_decode (fst it)) (snd it)) items
        else let le := kind =? 2 in let n := Z.to_nat size in
             forallb (fun it => same (modint_encode n le) (modint_decode q n le (fst it)) (snd it)) items in
      if ok then None else Some id
  | CSplit id kind ps items =>
      let cls (it : list Z * Z * Z) : Z :=
        let '(b, fl, _) := it in
        if kind =? 0 then split_class (schnorr_split (pnat ps 0) (pnat ps 1) b)
        else if kind =? 1 then split_class (eddsa_split b)
        else if kind =? 2 then split_class_opt (cosi_split (pnat ps 0) (pnat ps 1) (pnat ps 2) (Z.odd fl) b)
        else if kind =? 3 then split_class (ecies_split (pnat ps 0) b)
        else if kind =? 4 then split_class (tbls_index_of (pnat ps 0) b)
        else if kind =? 5 then split_class (tbls_split b)
        else split_class_opt (anon_split (pnat ps 0) (pnat ps 1) (pnat ps 2) (pnat ps 3) (pnat ps 4)
                                (Z.odd fl) (Z.odd (fl / 2)) b) in
      if forallb (fun it => cls it =? snd it) items then None else Some id
  | CResidue id P Q n items =>
      let O := bz_ops P in
      if forallb (fun it => same (residue_encode (Z.to_nat n)) (residue_decode O P Q (fst it)) (snd it)) items
      then None else Some id
  | CEdGen id p a d n items =>
      let O := bz_ops p in
      let fa := fofZ O a in let fd := fofZ O d in
      let i := if p mod 4 =? 3 then f0 O else fpow O (fofZ O 2) ((p - 1) / 4) in
      let nn := Z.to_nat n in
      if forallb (fun it => same (edg_encode O nn) (edg_decode O p fa fd i nn (fst it)) (snd it)) items
      then None else Some id
  end.

Definition mismatches (cs : list case) : list Z :=
  flat_map (fun c => match check c with Some i => [i] | None => [] end) cs.
