(* Executable model of kyber's share/vss/pedersen/vss.go and share/vss/rabin/vss.go
   (dealer, verifier and the aggregator both embed).  Definitions only; the
   theorems are in VssProofs.v, the correspondence runner in VssRun.v.

   Groups are modelled by discrete logarithms (Algebra/Grp.v): a point IS its
   logarithm.  Primitives are idealised as follows (and only so):
   - the session id  sessionID(dealer, verifiers, commitments, t)  is the section
     variable [Hsid] (any function; theorems that need collision freedom say so);
   - a Schnorr signature is [SigBy key content] (the holder of [key] signed
     exactly [content]) or [SigJunk]; verification under [pk] of [content']
     succeeds iff the signature is [SigBy pk content'] (existential unforgeability
     and correctness, idealised);
   - an encrypted deal records who signed the ephemeral DH key, for which public
     key, under which (dealer, verifiers) context it was sealed and whether the
     ciphertext is intact; it opens iff recipient, context and integrity match
     (DH key agreement + HKDF + AES-GCM, idealised).

   The model describes the REPAIRED code (see the C10 report): VerifyDeal refuses
   a deal whose session id is not the hash of its own content before recording
   it, and verifyJustification insists on the deal of the complaining verifier
   for the recorded commitments. *)
From Coq Require Import ZArith List Bool.
From Kyber Require Import Algebra.Zq Algebra.Grp Share.ShamirSM.
Import ListNotations.
Local Open Scope Z_scope.

Inductive variant := Pedersen | Rabin.

Definition sidt := list Z.

Fixpoint sid_eqb (a b : sidt) : bool :=
  match a, b with
  | [], [] => true
  | x :: a', y :: b' => (x =? y) && sid_eqb a' b'
  | _, _ => false
  end.

Section VSS.
  Variable q : Z.
  Notation F := (zq q).
  Notation point := (zq q) (only parsing).

  (* sessionID(suite, dealer, verifiers, commitments, t) *)
  Variable Hsid : point -> list point -> list point -> Z -> sidt.
  Variable var : variant.
  (* Rabin: H = deriveH(verifiers), the second base of the commitments *)
  Variable hH : point.

  (* ---------------------------------------------------------------- messages *)

  (* Deal; Pedersen deals have no RndShare: [d_ri = d_i], [d_rv] unused *)
  Record deal := mkDeal {
    d_sid : sidt; d_i : Z; d_v : F; d_ri : Z; d_rv : F; d_t : Z; d_commits : list point }.

  Inductive sigt :=
  | SigBy (key : point) (m_sid : sidt) (m_idx : Z) (m_appr : bool)
  | SigJunk.

  Record response := mkResp { r_sid : sidt; r_idx : Z; r_appr : bool; r_sig : sigt }.

  (* Justification: SessionID and Signature are never looked at by the code;
     [j_deal = None] is a nil Deal pointer *)
  Record justification := mkJust { j_idx : Z; j_deal : option deal }.

  Record encdeal := mkEnc {
    e_signer : option point;       (* key whose holder signed the DH key; None: no valid signature *)
    e_rcpt : point;                (* public key the DH exchange was made with *)
    e_cdealer : point;             (* dealer key in the HKDF / AEAD context *)
    e_cvs : list point;            (* verifier list in the HKDF / AEAD context *)
    e_intact : bool;               (* ciphertext not modified *)
    e_deal : option deal }.        (* plaintext; None: does not decode as a Deal *)

  (* ---------------------------------------------------------------- aggregator *)

  (* responses: Go map index -> *Response, as an association list with unique
     keys (addResponse refuses a second entry); only StatusApproved matters *)
  Record agg := mkAgg {
    a_dealer : point; a_vs : list point;
    a_commits : list point;        (* [] = nil *)
    a_sid : option sidt;           (* None = nil *)
    a_deal : option deal; a_t : Z; a_bad : bool; a_timeout : bool;
    a_resps : list (Z * bool) }.

  Definition nverif (a : agg) : Z := Z.of_nat (length (a_vs a)).

  Fixpoint lookup (m : list (Z * bool)) (i : Z) : option bool :=
    match m with
    | [] => None
    | (j, b) :: r => if j =? i then Some b else lookup r i
    end.

  Fixpoint set_true (m : list (Z * bool)) (i : Z) : list (Z * bool) :=
    match m with
    | [] => []
    | (j, b) :: r => if j =? i then (j, true) :: r else (j, b) :: set_true r i
    end.

  Definition validT (t n : Z) : bool := (2 <=? t) && (t <=? n).

  (* fi*G (+ gi*H) == PubPoly(commitments).Eval(fi.I).V *)
  Definition share_ok (d : deal) : bool :=
    let lhs := match var with
               | Pedersen => smul (d_v d) pbase
               | Rabin => padd (smul (d_v d) pbase) (smul (d_rv d) hH)
               end in
    peqb lhs (pub_peval (d_commits d) (xeval q (d_i d))).

  Inductive verdict := VOk | VAlready | VErr.

  Definition record_deal (a : agg) (d : deal) : agg :=
    match a_deal a with
    | Some _ => a
    | None => mkAgg (a_dealer a) (a_vs a) (d_commits d) (Some (d_sid d)) (Some d)
                    (match var with Pedersen => d_t d | Rabin => a_t a end)
                    (a_bad a) (a_timeout a) (a_resps a)
    end.

  Definition osid_eqb (o : option sidt) (s : sidt) : bool :=
    match o with Some x => sid_eqb x s | None => sid_eqb [] s end.

  (* the checks of VerifyDeal after the deal has (possibly) been recorded *)
  Definition deal_checks (a : agg) (d : deal) : bool :=
    validT (d_t d) (nverif a)
    && (match var with Pedersen => d_t d =? a_t a | Rabin => true end)
    && osid_eqb (a_sid a) (d_sid d)
    && (match var with Pedersen => true | Rabin => d_i d =? d_ri d end)
    && (d_i d <? nverif a)
    && share_ok d.

  Definition sid_bound (a : agg) (d : deal) : bool :=
    sid_eqb (Hsid (a_dealer a) (a_vs a) (d_commits d) (d_t d)) (d_sid d).

  (* Aggregator.VerifyDeal(d, inclusion) *)
  Definition verify_deal (a : agg) (d : deal) (incl : bool) : agg * verdict :=
    match a_deal a, incl with
    | Some _, true => (a, VAlready)
    | _, _ =>
        if negb (sid_bound a d) then (a, VErr)
        else let a' := record_deal a d in
             (a', if deal_checks a' d then VOk else VErr)
    end.

  Definition with_resps (a : agg) (m : list (Z * bool)) : agg :=
    mkAgg (a_dealer a) (a_vs a) (a_commits a) (a_sid a) (a_deal a) (a_t a) (a_bad a) (a_timeout a) m.
  Definition with_bad (a : agg) : agg :=
    mkAgg (a_dealer a) (a_vs a) (a_commits a) (a_sid a) (a_deal a) (a_t a) true (a_timeout a) (a_resps a).
  Definition with_timeout (a : agg) : agg :=
    mkAgg (a_dealer a) (a_vs a) (a_commits a) (a_sid a) (a_deal a) (a_t a) (a_bad a) true (a_resps a).

  (* addResponse; None = error *)
  Definition add_response (a : agg) (i : Z) (appr : bool) : option agg :=
    if negb ((0 <=? i) && (i <? nverif a)) then None    (* indices are uint32: never negative *)
    else match lookup (a_resps a) i with
         | Some _ => None
         | None => Some (with_resps a ((i, appr) :: a_resps a))
         end.

  Definition nth_pub (vs : list point) (i : Z) : point := nth (Z.to_nat i) vs pzero.

  (* schnorr.Verify(pub_i, r.Hash(), r.Signature) *)
  Definition sig_ok (vs : list point) (r : response) : bool :=
    match r_sig r with
    | SigBy k s i b => zeqb k (nth_pub vs (r_idx r)) && sid_eqb s (r_sid r) && (i =? r_idx r) && Bool.eqb b (r_appr r)
    | SigJunk => false
    end.

  (* verifyResponse; None = error *)
  Definition verify_response (a : agg) (r : response) : option agg :=
    let sid_fine := match var, a_sid a with
                    | Pedersen, None => true            (* a.sid != nil && ... *)
                    | _, o => osid_eqb o (r_sid r)
                    end in
    if negb sid_fine then None
    else if negb (r_idx r <? nverif a) then None
    else if negb (sig_ok (a_vs a) r) then None
    else add_response a (r_idx r) (r_appr r).

  Fixpoint points_eqb (x y : list point) : bool :=
    match x, y with
    | [], [] => true
    | c :: x', e :: y' => zeqb c e && points_eqb x' y'
    | _, _ => false
    end.

  (* verifyJustification; the boolean is "no error" *)
  Definition verify_justification (a : agg) (j : justification) : agg * bool :=
    if negb (j_idx j <? nverif a) then (a, false)
    else match lookup (a_resps a) (j_idx j) with
         | None => (a, false)
         | Some true => (a, false)
         | Some false =>
             match j_deal j with
             | None => (with_bad a, false)
             | Some d =>
                 if negb (d_i d =? j_idx j) then (with_bad a, false)
                 else if (match a_commits a with [] => false | _ => negb (points_eqb (a_commits a) (d_commits d)) end)
                      then (with_bad a, false)
                      else match verify_deal a d false with
                           | (a', VOk) => (with_resps a' (set_true (a_resps a') (j_idx j)), true)
                           | (a', _) => (with_bad a', false)
                           end
             end
         end.

  Definition zrange (n : Z) : list Z := map Z.of_nat (seq 0 (Z.to_nat n)).

  Definition count_where (f : option bool -> bool) (a : agg) : Z :=
    Z.of_nat (length (filter (fun i => f (lookup (a_resps a) i)) (zrange (nverif a)))).

  Definition is_absent (o : option bool) := match o with None => true | _ => false end.
  Definition is_approved (o : option bool) := match o with Some true => true | _ => false end.
  Definition is_complaint (o : option bool) := match o with Some false => true | _ => false end.

  (* DealCertified.  Pedersen: uint32 arithmetic in  absent > n - t . *)
  Definition deal_certified (a : agg) : bool :=
    match var with
    | Pedersen =>
        let absent := count_where is_absent a in
        let approvals := count_where is_approved a in
        let complaints := count_where is_complaint a in
        let base := negb (a_bad a) && (validT (a_t a) (nverif a) && (a_t a <=? approvals)) && (complaints =? 0) in
        if a_timeout a
        then base && negb ((nverif a - a_t a) mod 4294967296 <? absent)
        else base && (absent <=? 0)
    | Rabin =>
        (* EnoughApprovals ranges over the whole map *)
        let app := Z.of_nat (length (filter (fun e => snd e) (a_resps a))) in
        (validT (a_t a) (nverif a) && (a_t a <=? app)) && (count_where is_absent a =? 0) && negb (a_bad a)
    end.

  (* Rabin cleanVerifiers: a complaint for every verifier without response *)
  Definition clean_verifiers (a : agg) : agg :=
    fold_left (fun acc i => match lookup (a_resps acc) i with
                            | Some _ => acc
                            | None => with_resps acc ((i, false) :: a_resps acc)
                            end) (zrange (nverif a)) a.

  Definition set_timeout (a : agg) : agg :=
    match var with Pedersen => with_timeout a | Rabin => clean_verifiers a end.

  (* ---------------------------------------------------------------- verifier *)

  Record vst := mkV {
    v_idx : Z; v_pub : point; v_dealer : point; v_vs : list point;
    v_agg : option agg }.            (* Rabin: nil until the first deal *)

  Definition empty_agg (dealer : point) (vs : list point) : agg :=
    mkAgg dealer vs [] None None 0 false false [].

  Definition new_verifier (idx : Z) (pub dealer : point) (vs : list point) : vst :=
    mkV idx pub dealer vs (match var with Pedersen => Some (empty_agg dealer vs) | Rabin => None end).

  Inductive out :=
  | OOk | OErr | OPanic
  | OResp (r : response)
  | OJust (j : justification).

  Definition with_agg (v : vst) (a : agg) : vst := mkV (v_idx v) (v_pub v) (v_dealer v) (v_vs v) (Some a).

  (* decryptDeal: signature on the DH key, DH + HKDF + AEAD open, Unmarshal *)
  Definition decrypt_deal (v : vst) (e : encdeal) : option deal :=
    match e_signer e with
    | None => None
    | Some k =>
        if zeqb k (v_dealer v) && zeqb (e_rcpt e) (v_pub v) && zeqb (e_cdealer e) (v_dealer v)
           && points_eqb (e_cvs e) (v_vs v) && e_intact e
        then e_deal e else None
    end.

  (* Verifier.ProcessEncryptedDeal *)
  Definition process_encrypted_deal (v : vst) (e : encdeal) : vst * out :=
    match decrypt_deal v e with
    | None => (v, OErr)
    | Some d =>
        if negb (d_i d =? v_idx v) then (v, OErr)
        else
          let sid := Hsid (v_dealer v) (v_vs v) (d_commits d) (d_t d) in
          let oa := match v_agg v with
                    | Some a => Some a
                    | None => if sid_eqb sid (d_sid d)
                              then Some (mkAgg (v_dealer v) (v_vs v) (d_commits d) (Some (d_sid d)) None (d_t d) false false [])
                              else None
                    end in
          match oa with
          | None => (v, OErr)
          | Some a =>
              match verify_deal a d true with
              | (_, VAlready) => (with_agg v a, OErr)
              | (a', vd) =>
                  let appr := match vd with VOk => true | _ => false end in
                  match add_response a' (v_idx v) appr with
                  | None => (with_agg v a', OErr)
                  | Some a'' => (with_agg v a'', OResp (mkResp sid (v_idx v) appr (SigBy (v_pub v) sid (v_idx v) appr)))
                  end
              end
          end
    end.

  Inductive vop :=
  | VEnc (e : encdeal)
  | VResp (r : response)
  | VJust (j : justification)
  | VTimeout.

  Definition vstep (v : vst) (o : vop) : vst * out :=
    match o with
    | VEnc e => process_encrypted_deal v e
    | VResp r =>
        match v_agg v with
        | None => (v, OPanic)
        | Some a =>
            match var, a_deal a with
            | Pedersen, None => (v, OErr)          (* ErrNoDealBeforeResponse *)
            | _, _ => match verify_response a r with
                      | Some a' => (with_agg v a', OOk)
                      | None => (v, OErr)
                      end
            end
        end
    | VJust j =>
        match v_agg v with
        | None => (v, OPanic)
        | Some a => let '(a', ok) := verify_justification a j in
                    (with_agg v a', if ok then OOk else OErr)
        end
    | VTimeout =>
        match v_agg v with
        | None => (v, OPanic)
        | Some a => (with_agg v (set_timeout a), OOk)
        end
    end.

  Definition vrun (v : vst) (h : list vop) : vst := fold_left (fun s o => fst (vstep s o)) h v.

  Definition v_certified (v : vst) : bool :=
    match v_agg v with Some a => deal_certified a | None => false end.
  Definition v_bad (v : vst) : bool :=
    match v_agg v with Some a => a_bad a | None => false end.

  (* ---------------------------------------------------------------- dealer *)

  (* NewDealer from the coefficients of f (f_0 = secret) and, for Rabin, g *)
  Definition dealer_commits (f g : list F) : list point :=
    match var with
    | Pedersen => commit pbase f
    | Rabin => zip_add (commit pbase f) (commit hH g)
    end.

  Definition dealer_deal (sid : sidt) (f g : list F) (t : Z) (i : Z) : deal :=
    mkDeal sid i (peval f (xeval q i)) i
           (match var with Pedersen => zzero | Rabin => peval g (xeval q i) end)
           t (dealer_commits f g).

  Record dst := mkD { dl_agg : agg; dl_deals : list deal; dl_secret : F }.

  Definition new_dealer (dealer : point) (vs : list point) (t : Z) (f g : list F) : dst :=
    let cs := dealer_commits f g in
    let sid := Hsid dealer vs cs t in
    mkD (mkAgg dealer vs cs (Some sid) None t false false [])
        (map (dealer_deal sid f g t) (zrange (Z.of_nat (length vs))))
        (hd zzero f).

  Inductive dop := DResp (r : response) | DTimeout.

  (* Dealer.ProcessResponse / SetTimeout *)
  Definition dstep (s : dst) (o : dop) : dst * out :=
    match o with
    | DResp r =>
        match verify_response (dl_agg s) r with
        | None => (s, OErr)
        | Some a' =>
            let s' := mkD a' (dl_deals s) (dl_secret s) in
            if r_appr r then (s', OOk)
            else (s', OJust (mkJust (r_idx r) (nth_error (dl_deals s) (Z.to_nat (r_idx r)))))
        end
    | DTimeout => (mkD (set_timeout (dl_agg s)) (dl_deals s) (dl_secret s), OOk)
    end.

  Definition drun (s : dst) (h : list dop) : dst := fold_left (fun x o => fst (dstep x o)) h s.

  (* Dealer.SecretCommit *)
  Definition secret_commit (s : dst) : option point :=
    if deal_certified (dl_agg s) then Some (smul (dl_secret s) pbase) else None.

  (* vss.RecoverSecret(deals, n, t): all session ids equal to the first, then
     share.RecoverSecret on the SecShares *)
  Definition recover (ds : list deal) (t : Z) : option F :=
    match ds with
    | [] => recover_secret (Z.to_nat t) []
    | d0 :: _ =>
        if forallb (fun d => sid_eqb (d_sid d) (d_sid d0)) ds
        then recover_secret (Z.to_nat t) (map (fun d => Some (d_i d, Some (d_v d))) ds)
        else None
    end.
End VSS.

Arguments mkDeal {q}.
Arguments SigBy {q}.
Arguments SigJunk {q}.
Arguments mkResp {q}.
Arguments mkJust {q}.
Arguments mkEnc {q}.
Arguments mkAgg {q}.
Arguments mkV {q}.
Arguments OOk {q}.
Arguments OErr {q}.
Arguments OPanic {q}.
Arguments OResp {q}.
Arguments OJust {q}.
Arguments VEnc {q}.
Arguments VResp {q}.
Arguments VJust {q}.
Arguments VTimeout {q}.
Arguments DResp {q}.
Arguments DTimeout {q}.
