(* Theorems about the VSS model (VssSM.v) for property C10. *)
From Coq Require Import ZArith Znumtheory List Bool Lia Ring Permutation.
From Kyber Require Import Algebra.Zq Algebra.Grp Share.ShamirSM Share.PolyFacts Share.ShamirProofs VSS.VssSM.
Import ListNotations.
Local Open Scope Z_scope.

Lemma sid_eqb_eq : forall a b, sid_eqb a b = true <-> a = b.
Proof.
  induction a as [|x a IH]; destruct b as [|y b]; cbn; split; intros H; try congruence; try discriminate.
  - apply andb_true_iff in H. destruct H as [H1 H2]. apply Z.eqb_eq in H1. apply IH in H2. congruence.
  - inversion H; subst. apply andb_true_iff. split; [apply Z.eqb_refl|apply IH; reflexivity].
Qed.

Lemma sid_eqb_refl a : sid_eqb a a = true.
Proof. apply sid_eqb_eq. reflexivity. Qed.

Section Proofs.
  Variable q : Z.
  Notation F := (zq q).
  Variable Hsid : F -> list F -> list F -> Z -> sidt.
  Variable var : variant.
  Variable hH : F.

  Notation deal := (deal q).
  Notation agg := (agg q).
  Notation response := (response q).
  Notation share_ok := (share_ok q var hH).
  Notation deal_checks := (deal_checks q var hH).
  Notation sid_bound := (sid_bound q Hsid).
  Notation record_deal := (record_deal q var).
  Notation verify_deal := (verify_deal q Hsid var hH).
  Notation verify_response := (verify_response q var).
  Notation verify_justification := (verify_justification q Hsid var hH).
  Notation deal_certified := (deal_certified q var).
  Notation set_timeout := (set_timeout q var).
  Notation process_encrypted_deal := (process_encrypted_deal q Hsid var hH).
  Notation vstep := (vstep q Hsid var hH).
  Notation vrun := (vrun q Hsid var hH).
  Notation dstep := (dstep q var).
  Notation drun := (drun q var).
  Notation new_verifier := (new_verifier q var).
  Notation new_dealer := (new_dealer q Hsid var hH).
  Notation nverif := (nverif q).
  Notation lookup := (lookup).

  Lemma points_eqb_eq : forall x y : list F, points_eqb q x y = true <-> x = y.
  Proof.
    induction x as [|a x IH]; destruct y as [|b y]; cbn; split; intros H; try congruence; try discriminate.
    - apply andb_true_iff in H. destruct H as [H1 H2]. apply zeqb_eq in H1. apply IH in H2. congruence.
    - inversion H; subst. apply andb_true_iff. split; [apply zeqb_eq; reflexivity|apply IH; reflexivity].
  Qed.

  (* ------------------------------------------------------------ the share check *)

  (* what "the share lies on the committed polynomial" means: f_i*G (+ g_i*H) is the
     evaluation of the commitment polynomial at x = i+1 *)
  Definition on_committed_poly (d : deal) : Prop :=
    match var with
    | Pedersen => smul (d_v q d) pbase = pub_peval (d_commits q d) (xeval q (d_i q d))
    | Rabin => padd (smul (d_v q d) pbase) (smul (d_rv q d) hH) = pub_peval (d_commits q d) (xeval q (d_i q d))
    end.

  Lemma share_ok_iff d : share_ok d = true <-> on_committed_poly d.
  Proof.
    unfold VssSM.share_ok, on_committed_poly, peqb. destruct var; apply zeqb_eq.
  Qed.

  (* ------------------------------------------------------------ VerifyDeal *)

  Definition deal_conditions (a : agg) (d : deal) : Prop :=
    2 <= d_t q d <= nverif a /\
    (var = Pedersen -> d_t q d = a_t q a) /\
    osid_eqb (a_sid q a) (d_sid q d) = true /\
    (var = Rabin -> d_i q d = d_ri q d) /\
    d_i q d < nverif a /\
    on_committed_poly d.

  Lemma deal_checks_iff a d : deal_checks a d = true <-> deal_conditions a d.
  Proof.
    unfold VssSM.deal_checks, deal_conditions, validT.
    rewrite !andb_true_iff, share_ok_iff, Z.ltb_lt, !Z.leb_le.
    destruct var; rewrite ?Z.eqb_eq; intuition (try congruence; try discriminate).
  Qed.

  (* VerifyDeal accepts exactly when: no deal was recorded before (if inclusion),
     the session id is the hash of the deal's own content, and, with the deal
     recorded if it is the first one, threshold, session id, index and share
     check out *)
  Lemma sid_bound_iff a d :
    sid_bound a d = true <-> d_sid q d = Hsid (a_dealer q a) (a_vs q a) (d_commits q d) (d_t q d).
  Proof. unfold VssSM.sid_bound. rewrite sid_eqb_eq. split; congruence. Qed.

  Theorem verify_deal_ok_iff a d incl a' :
    verify_deal a d incl = (a', VOk) <->
    (incl = true -> a_deal q a = None) /\
    d_sid q d = Hsid (a_dealer q a) (a_vs q a) (d_commits q d) (d_t q d) /\
    a' = record_deal a d /\
    deal_conditions (record_deal a d) d.
  Proof.
    rewrite <- sid_bound_iff, <- deal_checks_iff.
    unfold VssSM.verify_deal.
    destruct (a_deal q a) eqn:Ed, incl; cbn [negb];
      try (split; [discriminate|intros [H _]; specialize (H eq_refl); discriminate]);
      destruct (sid_bound a d) eqn:Es; cbn [negb];
      try (split; [discriminate|intros (_ & H & _); discriminate]);
      destruct (deal_checks (record_deal a d) d) eqn:Ec;
      try (split; [discriminate|intros (_ & _ & _ & H); discriminate]);
      (split; [intros H; inversion H; subst; repeat split; congruence
              |intros (_ & _ & -> & _); reflexivity]).
  Qed.

  (* ------------------------------------------------------------ ProcessEncryptedDeal *)

  Definition wf_v (v : vst q) : Prop :=
    match v_agg q v with
    | Some a => a_vs q a = v_vs q v /\ a_dealer q a = v_dealer q v
    | None => True
    end.

  Definition authentic (v : vst q) (e : encdeal q) : Prop :=
    e_signer q e = Some (v_dealer q v) /\ e_rcpt q e = v_pub q v /\
    e_cdealer q e = v_dealer q v /\ e_cvs q e = v_vs q v /\ e_intact q e = true.

  Lemma decrypt_deal_some v e d :
    decrypt_deal q v e = Some d <-> authentic v e /\ e_deal q e = Some d.
  Proof.
    unfold decrypt_deal, authentic. destruct (e_signer q e) as [k|].
    - destruct (zeqb k (v_dealer q v) && zeqb (e_rcpt q e) (v_pub q v) && zeqb (e_cdealer q e) (v_dealer q v)
                && points_eqb q (e_cvs q e) (v_vs q v) && e_intact q e) eqn:E.
      + rewrite !andb_true_iff in E. destruct E as [[[[E1 E2] E3] E4] E5].
        apply zeqb_eq in E1, E2, E3. apply points_eqb_eq in E4. subst.
        split; [intros H; repeat split; congruence|intros [_ H]; exact H].
      + split; [discriminate|]. intros [(H1 & H2 & H3 & H4 & H5) _].
        inversion H1; subst k. rewrite H2, H3, H4, H5 in E.
        assert (Z1 : zeqb (v_dealer q v) (v_dealer q v) = true) by (apply zeqb_eq; reflexivity).
        assert (Z2 : zeqb (v_pub q v) (v_pub q v) = true) by (apply zeqb_eq; reflexivity).
        assert (Z3 : points_eqb q (v_vs q v) (v_vs q v) = true) by (apply points_eqb_eq; reflexivity).
        rewrite Z1, Z2, Z3 in E. discriminate.
    - split; [discriminate|]. intros [(H1 & _) _]. discriminate.
  Qed.

  Definition vn (v : vst q) : Z := Z.of_nat (length (v_vs q v)).

  (* what a verifier demands of a deal before it approves it *)
  Definition consistent_deal (v : vst q) (d : deal) : Prop :=
    d_i q d = v_idx q v /\
    2 <= d_t q d <= vn v /\
    d_i q d < vn v /\
    (var = Rabin -> d_i q d = d_ri q d) /\
    d_sid q d = Hsid (v_dealer q v) (v_vs q v) (d_commits q d) (d_t q d) /\
    on_committed_poly d.

  Definition approval_of (v : vst q) (d : deal) : response :=
    mkResp (d_sid q d) (v_idx q v) true (SigBy (v_pub q v) (d_sid q d) (v_idx q v) true).

  Definition fresh (v : vst q) : Prop :=
    match v_agg q v with
    | Some a => a_deal q a = None /\ lookup (a_resps q a) (v_idx q v) = None
    | None => True
    end.

  Lemma add_response_some a i b a' :
    add_response q a i b = Some a' <->
    0 <= i < nverif a /\ lookup (a_resps q a) i = None /\ a' = with_resps q a ((i, b) :: a_resps q a).
  Proof.
    unfold add_response.
    destruct ((0 <=? i) && (i <? nverif a)) eqn:E; cbn [negb].
    - apply andb_true_iff in E. destruct E as [E1 E2]. apply Z.leb_le in E1. apply Z.ltb_lt in E2.
      destruct (lookup (a_resps q a) i).
      + split; [discriminate|]. intros (_ & H & _). discriminate.
      + split; [intros H; inversion H; auto|]. intros (_ & _ & ->). reflexivity.
    - split; [discriminate|]. intros ((H1 & H2) & _).
      apply andb_false_iff in E. destruct E as [E|E]; [apply Z.leb_gt in E|apply Z.ltb_ge in E]; lia.
  Qed.

  (* A verifier answers an encrypted deal with an approval exactly when the deal
     authenticates as coming from the dealer for this verifier, carries this
     verifier's index, a threshold in range, the session id that is the hash of its
     own content, a share on the committed polynomial, and it is the first deal *)
  Theorem approve_iff v e :
    wf_v v ->
    ((exists v' r, process_encrypted_deal v e = (v', OResp r) /\ r_appr q r = true) <->
     (exists d, authentic v e /\ e_deal q e = Some d /\ consistent_deal v d /\ fresh v /\ 0 <= v_idx q v)).
  Proof.
    intros WF. unfold VssSM.process_encrypted_deal.
    destruct (decrypt_deal q v e) as [d|] eqn:Ed.
    2:{ split; [intros (? & ? & H & _); discriminate|].
        intros (d & A & D & _). assert (decrypt_deal q v e = Some d) by (apply decrypt_deal_some; auto). congruence. }
    apply decrypt_deal_some in Ed. destruct Ed as [A D].
    destruct (d_i q d =? v_idx q v) eqn:Ei; cbn [negb].
    2:{ split; [intros (? & ? & H & _); discriminate|].
        intros (d' & _ & D' & (C & _) & _). rewrite D in D'. inversion D'; subst d'. apply Z.eqb_neq in Ei. contradiction. }
    apply Z.eqb_eq in Ei.
    set (sid := Hsid (v_dealer q v) (v_vs q v) (d_commits q d) (d_t q d)).
    (* the aggregator the deal is checked against *)
    set (oa := match v_agg q v with
               | Some a => Some a
               | None => if sid_eqb sid (d_sid q d)
                         then Some (mkAgg (v_dealer q v) (v_vs q v) (d_commits q d) (Some (d_sid q d)) None (d_t q d) false false [])
                         else None
               end).
    destruct oa as [a|] eqn:Eoa.
    2:{ split; [intros (? & ? & H & _); discriminate|].
        intros (d' & _ & D' & (_ & _ & _ & _ & S & _) & _). rewrite D in D'. inversion D'; subst d'.
        unfold oa in Eoa. destruct (v_agg q v); [discriminate|].
        fold sid in S. rewrite S, sid_eqb_refl in Eoa. discriminate. }
    assert (Wa : a_vs q a = v_vs q v /\ a_dealer q a = v_dealer q v).
    { unfold oa, wf_v in *. destruct (v_agg q v) as [a0|].
      - inversion Eoa; subst. exact WF.
      - destruct (sid_eqb sid (d_sid q d)); inversion Eoa; subst; cbn; auto. }
    assert (Fa : fresh v <-> a_deal q a = None /\ lookup (a_resps q a) (v_idx q v) = None).
    { unfold oa, fresh in *. destruct (v_agg q v) as [a0|].
      - inversion Eoa; subst. tauto.
      - destruct (sid_eqb sid (d_sid q d)); inversion Eoa; subst; cbn; tauto. }
    destruct Wa as [Wv Wd].
    assert (N : nverif a = vn v) by (unfold VssSM.nverif, vn; rewrite Wv; reflexivity).
    destruct (verify_deal a d true) as [a1 vd] eqn:Ev.
    destruct vd.
    - (* VOk *)
      apply verify_deal_ok_iff in Ev. destruct Ev as (Hn & Hs & -> & C).
      specialize (Hn eq_refl).
      assert (Nr : nverif (record_deal a d) = vn v).
      { unfold VssSM.record_deal. rewrite Hn. unfold VssSM.nverif. cbn. fold (nverif a). exact N. }
      assert (Lr : a_resps q (record_deal a d) = a_resps q a).
      { unfold VssSM.record_deal. rewrite Hn. reflexivity. }
      destruct (add_response q (record_deal a d) (v_idx q v) true) as [a2|] eqn:Ea.
      + apply add_response_some in Ea. destruct Ea as (R & L & ->).
        split; [intros _|intros _; do 2 eexists; split; [reflexivity|reflexivity]].
        exists d. split; [exact A|]. split; [exact D|].
        destruct C as (C1 & C2 & C3 & C4 & C5 & C6).
        rewrite Nr in *. rewrite Wv, Wd in Hs.
        split; [repeat split; auto; lia|]. split; [|lia].
        apply Fa. rewrite Lr in L. auto.
      + split; [intros (? & ? & H & _); discriminate|].
        intros (d' & _ & D' & _ & Fr & I0). rewrite D in D'. inversion D'; subst d'.
        apply Fa in Fr. destruct Fr as [_ L].
        assert (add_response q (record_deal a d) (v_idx q v) true <> None).
        { destruct C as (_ & _ & _ & _ & C5 & _). rewrite Nr in C5.
          intros Hc. assert (exists x, add_response q (record_deal a d) (v_idx q v) true = Some x).
          { eexists. apply add_response_some. rewrite Nr, Lr. repeat split; auto; lia. }
          destruct H as [x Hx]. congruence. }
        contradiction.
    - (* VAlready *)
      split; [intros (? & ? & H & _); discriminate|].
      intros (d' & _ & D' & _ & Fr & _). apply Fa in Fr. destruct Fr as [Fr _].
      unfold VssSM.verify_deal in Ev. rewrite Fr in Ev.
      destruct (negb (sid_bound a d)); [inversion Ev|].
      destruct (deal_checks (record_deal a d) d); inversion Ev.
    - (* VErr *)
      split.
      + intros (v' & r & H & Hr). destruct (add_response q a1 (v_idx q v) false); inversion H; subst; cbn in Hr; discriminate.
      + intros (d' & _ & D' & C & Fr & _). rewrite D in D'. inversion D'; subst d'.
        apply Fa in Fr. destruct Fr as [Fr L].
        assert (verify_deal a d true = (record_deal a d, VOk)).
        { apply verify_deal_ok_iff. destruct C as (C1 & C2 & C3 & C4 & C5 & C6).
          split; [auto|]. split; [rewrite Wv, Wd; exact C5|]. split; [reflexivity|].
          assert (Nr : nverif (record_deal a d) = vn v).
          { unfold VssSM.record_deal. rewrite Fr. unfold VssSM.nverif. cbn. fold (nverif a). exact N. }
          unfold deal_conditions. rewrite Nr.
          repeat split; auto; try lia.
          - intros Pv. unfold VssSM.record_deal. rewrite Fr. cbn. rewrite Pv. reflexivity.
          - unfold VssSM.record_deal. rewrite Fr. cbn. apply sid_eqb_refl. }
        congruence.
  Qed.

  (* ------------------------------------------------------------ maps *)

  Lemma lookup_cons k b m i : lookup ((k, b) :: m) i = if k =? i then Some b else lookup m i.
  Proof. reflexivity. Qed.

  Lemma lookup_none_notin m i : lookup m i = None -> ~ In i (map fst m).
  Proof.
    induction m as [|[k b] m IH]; cbn; [tauto|].
    destruct (k =? i) eqn:E; [discriminate|]. apply Z.eqb_neq in E. intros H [H1|H1]; [congruence|]. exact (IH H H1).
  Qed.

  Lemma lookup_in m i b : lookup m i = Some b -> In i (map fst m).
  Proof.
    induction m as [|[k c] m IH]; cbn; [discriminate|].
    destruct (k =? i) eqn:E; [apply Z.eqb_eq in E; auto|]. intros H. right. exact (IH H).
  Qed.

  Lemma set_true_keys m i : map fst (set_true m i) = map fst m.
  Proof.
    induction m as [|[k c] m IH]; cbn; [reflexivity|].
    destruct (k =? i); cbn; [reflexivity|]. rewrite IH. reflexivity.
  Qed.

  Lemma lookup_set_true m i k :
    lookup (set_true m i) k = if k =? i then match lookup m i with Some _ => Some true | None => None end else lookup m k.
  Proof.
    induction m as [|[j c] m IH]; cbn.
    - destruct (k =? i); reflexivity.
    - destruct (j =? i) eqn:E1.
      + apply Z.eqb_eq in E1. subst j. cbn. destruct (i =? k) eqn:E2.
        * apply Z.eqb_eq in E2. subst k. rewrite Z.eqb_refl. reflexivity.
        * rewrite Z.eqb_sym, E2. reflexivity.
      + cbn. destruct (j =? k) eqn:E2.
        * apply Z.eqb_eq in E2. subst k. rewrite E1. reflexivity.
        * exact IH.
  Qed.

  Lemma lookup_nodup_in m i b : NoDup (map fst m) -> In (i, b) m -> lookup m i = Some b.
  Proof.
    induction m as [|[k c] m IH]; cbn; [tauto|].
    intros N [H|H].
    - inversion H; subst. rewrite Z.eqb_refl. reflexivity.
    - inversion N; subst. destruct (k =? i) eqn:E.
      + apply Z.eqb_eq in E. subst k. exfalso. apply H2. apply in_map_iff. exists (i, b). auto.
      + apply IH; auto.
  Qed.

  Definition keys_ok (n : Z) (m : list (Z * bool)) : Prop :=
    NoDup (map fst m) /\ forall k, In k (map fst m) -> 0 <= k < n.

  Lemma keys_ok_cons n m i b : keys_ok n m -> 0 <= i < n -> lookup m i = None -> keys_ok n ((i, b) :: m).
  Proof.
    intros [N R] Hi L. split; cbn.
    - constructor; [apply lookup_none_notin; exact L|exact N].
    - intros k [<-|H]; auto.
  Qed.

  Lemma in_zrange n k : In k (zrange n) <-> 0 <= k < n.
  Proof.
    unfold zrange. rewrite in_map_iff. split.
    - intros (x & <- & H). apply in_seq in H. lia.
    - intros H. exists (Z.to_nat k). split; [lia|]. apply in_seq. lia.
  Qed.

  Lemma nodup_zrange n : NoDup (zrange n).
  Proof.
    unfold zrange. apply FinFun.Injective_map_NoDup; [|apply seq_NoDup].
    intros x y H. lia.
  Qed.

  (* cleanVerifiers only adds complaints, for indices in range without a response *)
  Lemma clean_fold n (l : list Z) : forall a : agg,
    (forall k, In k l -> 0 <= k < n) -> keys_ok n (a_resps q a) ->
    let a' := fold_left (fun acc i => match lookup (a_resps q acc) i with
                                      | Some _ => acc
                                      | None => with_resps q acc ((i, false) :: a_resps q acc)
                                      end) l a in
    keys_ok n (a_resps q a') /\
    (forall k, lookup (a_resps q a') k = Some true <-> lookup (a_resps q a) k = Some true) /\
    (forall k, In k l -> lookup (a_resps q a') k <> None) /\
    (forall k, lookup (a_resps q a) k <> None -> lookup (a_resps q a') k <> None) /\
    a_dealer q a' = a_dealer q a /\ a_vs q a' = a_vs q a /\ a_commits q a' = a_commits q a /\ a_sid q a' = a_sid q a /\
    a_deal q a' = a_deal q a /\ a_t q a' = a_t q a /\ a_bad q a' = a_bad q a /\ a_timeout q a' = a_timeout q a.
  Proof.
    induction l as [|i l IH]; intros a R K; cbn [fold_left].
    - cbn. split; [exact K|]. repeat split; auto; try tauto; intros k [].
    - set (a1 := match lookup (a_resps q a) i with Some _ => a | None => with_resps q a ((i, false) :: a_resps q a) end).
      assert (K1 : keys_ok n (a_resps q a1)).
      { unfold a1. destruct (lookup (a_resps q a) i) eqn:E; [exact K|]. cbn. apply keys_ok_cons; auto. apply R. left. reflexivity. }
      assert (T1 : forall k, lookup (a_resps q a1) k = Some true <-> lookup (a_resps q a) k = Some true).
      { intros k. unfold a1. destruct (lookup (a_resps q a) i) eqn:E; [tauto|]. cbn.
        destruct (i =? k) eqn:E2; [|tauto]. apply Z.eqb_eq in E2. subst k. rewrite E. split; discriminate. }
      assert (P1 : lookup (a_resps q a1) i <> None).
      { unfold a1. destruct (lookup (a_resps q a) i) eqn:E; [congruence|]. cbn. rewrite Z.eqb_refl. discriminate. }
      assert (M1 : forall k, lookup (a_resps q a) k <> None -> lookup (a_resps q a1) k <> None).
      { intros k. unfold a1. destruct (lookup (a_resps q a) i) eqn:E; [tauto|]. cbn. destruct (i =? k); [discriminate|tauto]. }
      assert (F1 : a_dealer q a1 = a_dealer q a /\ a_vs q a1 = a_vs q a /\ a_commits q a1 = a_commits q a /\ a_sid q a1 = a_sid q a /\
                   a_deal q a1 = a_deal q a /\ a_t q a1 = a_t q a /\ a_bad q a1 = a_bad q a /\ a_timeout q a1 = a_timeout q a).
      { unfold a1. destruct (lookup (a_resps q a) i); cbn; repeat split; reflexivity. }
      specialize (IH a1 (fun k H => R k (or_intror H)) K1). cbn zeta in IH.
      destruct IH as (I1 & I2 & I3 & I4 & I5).
      split; [exact I1|]. split; [intros k; rewrite I2; apply T1|].
      split; [intros k [<-|H]; [apply I4; exact P1|apply I3; exact H]|].
      split; [intros k H; apply I4, M1, H|].
      destruct F1 as (E1 & E2 & E3 & E4 & E5 & E6 & E7 & E8).
      destruct I5 as (J1 & J2 & J3 & J4 & J5 & J6 & J7 & J8).
      repeat split; congruence.
  Qed.

  Lemma keys_ok_range n m k : keys_ok n m -> In k (map fst m) -> 0 <= k < n.
  Proof. intros [_ H]. apply H. Qed.
  Lemma keys_ok_nodup n m : keys_ok n m -> NoDup (map fst m).
  Proof. intros [H _]. exact H. Qed.
  Lemma keys_ok_nil n : keys_ok n [].
  Proof. split; cbn; [constructor|tauto]. Qed.
  Lemma keys_ok_set_true n m i : keys_ok n m -> keys_ok n (set_true m i).
  Proof. unfold keys_ok. rewrite set_true_keys. tauto. Qed.
  Global Opaque keys_ok.
  Ltac asplit := split; [|split; [|split]].
  Ltac vsplit := split; [|split; [|split; [|split]]].

  (* ------------------------------------------------------------ DealCertified *)

  Lemma nodup_filter_keys (f : Z * bool -> bool) m : NoDup (map fst m) -> NoDup (map fst (filter f m)).
  Proof.
    induction m as [|[k b] m IH]; cbn; [constructor|]. intros N. inversion N; subst.
    destruct (f (k, b)); cbn; auto. constructor; auto.
    intros H. apply H1. apply in_map_iff in H. destruct H as ([k' b'] & E & H). cbn in E. subst k'.
    apply filter_In in H. apply in_map_iff. exists (k, b'). tauto.
  Qed.

  Theorem certified_counts n a :
    nverif a = n -> keys_ok n (a_resps q a) -> deal_certified a = true ->
    a_bad q a = false /\ 2 <= a_t q a <= n /\
    exists l, NoDup l /\ a_t q a <= Z.of_nat (length l) /\
              forall i, In i l -> 0 <= i < n /\ lookup (a_resps q a) i = Some true.
  Proof.
    intros Hn K C. unfold VssSM.deal_certified in C. destruct var.
    - assert (B : negb (a_bad q a) && (validT (a_t q a) (nverif a) && (a_t q a <=? count_where q is_approved a)) && (count_where q is_complaint a =? 0) = true).
      { destruct (a_timeout q a); apply andb_true_iff in C; tauto. }
      rewrite !andb_true_iff in B. destruct B as [[B1 [B2 B3]] _].
      apply negb_true_iff in B1. unfold validT in B2. apply andb_true_iff in B2. destruct B2 as [T1 T2].
      apply Z.leb_le in T1, T2, B3. rewrite Hn in *.
      split; [exact B1|]. split; [lia|].
      exists (filter (fun i => is_approved (lookup (a_resps q a) i)) (zrange n)).
      split; [apply NoDup_filter, nodup_zrange|]. split; [unfold count_where in B3; rewrite Hn in B3; exact B3|].
      intros i H. apply filter_In in H. destruct H as [H1 H2]. apply in_zrange in H1. split; [exact H1|].
      unfold is_approved in H2. destruct (lookup (a_resps q a) i) as [[|]|]; congruence.
    - rewrite !andb_true_iff in C. destruct C as [[[B2 B3] _] B1].
      apply negb_true_iff in B1. unfold validT in B2. apply andb_true_iff in B2. destruct B2 as [T1 T2].
      apply Z.leb_le in T1, T2, B3. rewrite Hn in *.
      split; [exact B1|]. split; [lia|].
      exists (map fst (filter (fun e => snd e) (a_resps q a))).
      split; [apply nodup_filter_keys, (keys_ok_nodup n), K|]. split; [rewrite map_length; exact B3|].
      intros i H. apply in_map_iff in H. destruct H as ([k b] & E & H). cbn in E. subst k.
      apply filter_In in H. destruct H as [H1 H2]. cbn in H2. subst b.
      split; [apply (keys_ok_range n _ i K), in_map_iff; exists (i, true); auto|].
      apply lookup_nodup_in; [apply (keys_ok_nodup n), K|exact H1].
  Qed.

  (* once the dealer is marked bad the deal is never certified *)
  Theorem bad_never_certified a : a_bad q a = true -> deal_certified a = false.
  Proof.
    intros B. unfold VssSM.deal_certified. rewrite B. cbn.
    destruct var; [destruct (a_timeout q a); reflexivity|apply andb_false_r].
  Qed.

  (* ------------------------------------------------------------ justifications *)

  (* what a correct justification of the complaint of verifier j_idx is *)
  Definition correct_justification (a : agg) (j : justification q) : Prop :=
    exists d, j_deal q j = Some d /\ d_i q d = j_idx q j /\
              (a_commits q a <> [] -> d_commits q d = a_commits q a) /\
              d_sid q d = Hsid (a_dealer q a) (a_vs q a) (d_commits q d) (d_t q d) /\
              deal_conditions (record_deal a d) d.

  (* against a standing complaint: a correct justification clears it (and only
     that), an incorrect one marks the dealer bad *)
  Theorem justification_spec a j :
    lookup (a_resps q a) (j_idx q j) = Some false -> j_idx q j < nverif a ->
    let '(a', ok) := verify_justification a j in
    (ok = true <-> correct_justification a j) /\
    (ok = true -> lookup (a_resps q a') (j_idx q j) = Some true /\ a_bad q a' = a_bad q a /\
                  forall k, k <> j_idx q j -> lookup (a_resps q a') k = lookup (a_resps q a) k) /\
    (ok = false -> a_bad q a' = true).
  Proof.
    intros L R. unfold VssSM.verify_justification, correct_justification.
    apply Z.ltb_lt in R. rewrite R, L. cbn [negb].
    destruct (j_deal q j) as [d|] eqn:Ed.
    2:{ cbn. repeat split; try discriminate; auto. intros (d & H & _). discriminate. }
    destruct (d_i q d =? j_idx q j) eqn:Ei; cbn [negb].
    2:{ cbn. repeat split; try discriminate; auto. intros (d' & H & H2 & _). inversion H; subst d'. apply Z.eqb_neq in Ei. contradiction. }
    apply Z.eqb_eq in Ei.
    destruct (match a_commits q a with [] => false | _ => negb (points_eqb q (a_commits q a) (d_commits q d)) end) eqn:Ec.
    { cbn. repeat split; try discriminate; auto. intros (d' & H & _ & H3 & _). inversion H; subst d'.
      destruct (a_commits q a) as [|c0 cl] eqn:Eca; [discriminate|]. apply negb_true_iff in Ec.
      assert (points_eqb q (c0 :: cl) (d_commits q d) = true) by (apply points_eqb_eq; symmetry; apply H3; discriminate). congruence. }
    assert (Cm : a_commits q a <> [] -> d_commits q d = a_commits q a).
    { intros Hne. destruct (a_commits q a) eqn:Eca; [congruence|].
      apply negb_false_iff in Ec. apply points_eqb_eq in Ec. congruence. }
    destruct (verify_deal a d false) as [a1 vd] eqn:Ev.
    destruct vd.
    - apply verify_deal_ok_iff in Ev. destruct Ev as (_ & Hs & -> & C). cbv iota beta.
      split; [split; [intros _; exists d; split; [reflexivity|]; split; [exact Ei|]; split; [exact Cm|]; split; [exact Hs|exact C]|reflexivity]|].
      split; [|discriminate]. intros _.
      assert (Lr : a_resps q (record_deal a d) = a_resps q a) by (unfold VssSM.record_deal; destruct (a_deal q a); reflexivity).
      assert (Br : a_bad q (record_deal a d) = a_bad q a) by (unfold VssSM.record_deal; destruct (a_deal q a); reflexivity).
      cbn. rewrite Lr. repeat split; auto.
      + rewrite lookup_set_true, Z.eqb_refl, L. reflexivity.
      + intros k Hk. rewrite lookup_set_true. apply Z.eqb_neq in Hk. rewrite Hk. reflexivity.
    - cbn. repeat split; try discriminate; auto.
      intros (d' & H & _ & _ & Hs & C). inversion H; subst d'.
      assert (verify_deal a d false = (record_deal a d, VOk)) by (apply verify_deal_ok_iff; split; [discriminate|]; split; [exact Hs|]; split; [reflexivity|exact C]).
      congruence.
    - cbn. repeat split; try discriminate; auto.
      intros (d' & H & _ & _ & Hs & C). inversion H; subst d'.
      assert (verify_deal a d false = (record_deal a d, VOk)) by (apply verify_deal_ok_iff; split; [discriminate|]; split; [exact Hs|]; split; [reflexivity|exact C]).
      congruence.
  Qed.

  (* ------------------------------------------------------------ histories at a verifier *)

  Lemma verify_deal_cases a d incl a' vd :
    verify_deal a d incl = (a', vd) ->
    (a' = a /\ (a_deal q a = None -> vd = VErr)) \/
    (a_deal q a = None /\ sid_bound a d = true /\ a' = record_deal a d).
  Proof.
    unfold VssSM.verify_deal. intros H.
    destruct (a_deal q a) eqn:Ed.
    - left. assert (R : record_deal a d = a) by (unfold VssSM.record_deal; rewrite Ed; reflexivity).
      destruct incl; [inversion H; split; [reflexivity|discriminate]|].
      destruct (sid_bound a d); cbn [negb] in H; inversion H; rewrite ?R; split; auto; discriminate.
    - destruct (sid_bound a d) eqn:Es; cbn [negb] in H.
      + right. destruct incl; inversion H; auto.
      + left. destruct incl; inversion H; auto.
  Qed.

  Section Verifier.
    Variables (idx : Z) (pub dealer : F) (vs : list F).
    Notation n := (Z.of_nat (length vs)).
    Notation v0 := (new_verifier idx pub dealer vs).

    (* verifier i signed an approval for session id sid *)
    Definition signed_approval (sid : sidt) (i : Z) (r : response) : Prop :=
      r_idx q r = i /\ r_appr q r = true /\ r_sid q r = sid /\
      r_sig q r = SigBy (nth_pub q vs i) sid i true.

    (* d is a deal for verifier i, on commitments cs (compared only if there are
       any: Go nil slice), for session id sid = hash of its content, threshold in
       range, share on the committed polynomial *)
    Definition good_deal (cs : list F) (sid : sidt) (i : Z) (d : deal) : Prop :=
      d_i q d = i /\ (cs <> [] -> d_commits q d = cs) /\ d_sid q d = sid /\
      d_sid q d = Hsid dealer vs (d_commits q d) (d_t q d) /\
      2 <= d_t q d <= n /\ 0 <= i < n /\ (var = Rabin -> d_i q d = d_ri q d) /\ on_committed_poly d.

    Definition genuine (h : list (vop q)) (cs : list F) (sid : sidt) (i : Z) : Prop :=
      (exists r, In (VResp r) h /\ signed_approval sid i r) \/
      (i = idx /\ exists e d, In (VEnc e) h /\ authentic v0 e /\ e_deal q e = Some d /\ good_deal cs sid i d) \/
      (exists j d, In (VJust j) h /\ j_idx q j = i /\ j_deal q j = Some d /\ good_deal cs sid i d).

    Lemma genuine_mono h o cs sid i : genuine h cs sid i -> genuine (h ++ [o]) cs sid i.
    Proof.
      intros [(r & H & G)|[(E & e & d & H & G)|(j & d & H & G)]].
      - left. exists r. split; [apply in_or_app; auto|exact G].
      - right. left. split; [exact E|]. exists e, d. split; [apply in_or_app; auto|exact G].
      - right. right. exists j, d. split; [apply in_or_app; auto|exact G].
    Qed.

    Definition held (a : agg) (h : list (vop q)) : Prop :=
      match a_deal q a with
      | None => var = Pedersen /\ forall i, lookup (a_resps q a) i <> Some true
      | Some d0 =>
          a_sid q a = Some (d_sid q d0) /\ a_commits q a = d_commits q d0 /\ a_t q a = d_t q d0 /\
          d_sid q d0 = Hsid dealer vs (d_commits q d0) (d_t q d0) /\
          forall i, lookup (a_resps q a) i = Some true -> genuine h (d_commits q d0) (d_sid q d0) i
      end.

    Definition ainv (a : agg) (h : list (vop q)) : Prop :=
      a_vs q a = vs /\ a_dealer q a = dealer /\ keys_ok n (a_resps q a) /\ held a h.

    Definition Inv (h : list (vop q)) (s : vst q) : Prop :=
      v_idx q s = idx /\ v_pub q s = pub /\ v_dealer q s = dealer /\ v_vs q s = vs /\
      match v_agg q s with None => True | Some a => ainv a h end.

    Lemma held_mono a h o : held a h -> held a (h ++ [o]).
    Proof.
      unfold held. destruct (a_deal q a); [|tauto].
      intros (H1 & H2 & H3 & H4 & H5). repeat split; auto. intros i L. apply genuine_mono. auto.
    Qed.

    Lemma ainv_mono a h o : ainv a h -> ainv a (h ++ [o]).
    Proof. intros (H1 & H2 & H3 & H4). asplit; auto. apply held_mono. exact H4. Qed.

    (* recording the first deal: no approval exists yet *)
    Lemma record_ainv a d h :
      a_vs q a = vs -> a_dealer q a = dealer -> keys_ok n (a_resps q a) ->
      a_deal q a = None -> (forall i, lookup (a_resps q a) i <> Some true) ->
      (var = Rabin -> a_t q a = d_t q d) -> sid_bound a d = true ->
      ainv (record_deal a d) h.
    Proof.
      intros Hv Hd K Hn Hl Ht Hs. apply sid_bound_iff in Hs. rewrite Hv, Hd in Hs.
      unfold VssSM.record_deal. rewrite Hn. asplit; cbn; auto. unfold held. cbn.
      repeat split; auto.
      - destruct var; [reflexivity|auto].
      - intros i L. exfalso. exact (Hl i L).
    Qed.

    Lemma ainv_with_bad a h : ainv a h -> ainv (with_bad q a) h.
    Proof. unfold ainv, held. cbn. tauto. Qed.
    Lemma ainv_with_timeout a h : ainv a h -> ainv (with_timeout q a) h.
    Proof. unfold ainv, held. cbn. tauto. Qed.

    (* adding a complaint *)
    Lemma ainv_add_complaint a h i :
      ainv a h -> 0 <= i < n -> lookup (a_resps q a) i = None ->
      ainv (with_resps q a ((i, false) :: a_resps q a)) h.
    Proof.
      intros (Hv & Hd & K & Hh) Hi L. asplit; cbn; auto; [apply keys_ok_cons; auto|].
      unfold held in *. cbn.
      destruct (a_deal q a).
      - destruct Hh as (H1 & H2 & H3 & H4 & H5). repeat split; auto.
        intros k. destruct (i =? k); [discriminate|apply H5].
      - destruct Hh as [H1 H2]. split; auto. intros k. destruct (i =? k); [discriminate|apply H2].
    Qed.

    (* adding an approval that is genuine *)
    Lemma ainv_add_approval a h i d0 :
      ainv a h -> a_deal q a = Some d0 -> 0 <= i < n -> lookup (a_resps q a) i = None ->
      genuine h (d_commits q d0) (d_sid q d0) i ->
      ainv (with_resps q a ((i, true) :: a_resps q a)) h.
    Proof.
      intros (Hv & Hd & K & Hh) Hd0 Hi L G. asplit; cbn; auto; [apply keys_ok_cons; auto|].
      unfold held in *. cbn. rewrite Hd0 in *.
      repeat split; try apply Hh.
      intros k. destruct (i =? k) eqn:E; [apply Z.eqb_eq in E; subst k; intros _; exact G|apply Hh].
    Qed.

    Lemma nverif_vs a : a_vs q a = vs -> nverif a = n.
    Proof. intros H. unfold VssSM.nverif. rewrite H. reflexivity. Qed.

    Lemma conditions_good a d d0 i :
      a_vs q a = vs -> a_dealer q a = dealer ->
      a_deal q a = Some d0 -> a_sid q a = Some (d_sid q d0) ->
      sid_bound a d = true -> deal_conditions a d -> d_i q d = i -> 0 <= i ->
      (d_commits q d0 <> [] -> d_commits q d = d_commits q d0) ->
      good_deal (d_commits q d0) (d_sid q d0) i d.
    Proof.
      intros Hv Hd Hd0 Hs Sb (C1 & C2 & C3 & C4 & C5 & C6) Hi H0 Hc.
      apply sid_bound_iff in Sb. rewrite Hv, Hd in Sb.
      rewrite (nverif_vs a Hv) in *. rewrite Hs in C3. cbn in C3. apply sid_eqb_eq in C3.
      unfold good_deal. repeat split; auto; lia.
    Qed.

    Theorem inv_step h s o : Inv h s -> Inv (h ++ [o]) (fst (vstep s o)).
    Proof.
      intros (I1 & I2 & I3 & I4 & IA).
      assert (Auth : forall e, authentic s e <-> authentic v0 e).
      { intros e. unfold authentic. cbn. rewrite I2, I3, I4. tauto. }
      destruct o as [e|r|j|]; cbn [VssSM.vstep].
      - (* ProcessEncryptedDeal *)
        unfold VssSM.process_encrypted_deal.
        destruct (decrypt_deal q s e) as [d|] eqn:Ed.
        2:{ cbn. vsplit; auto. destruct (v_agg q s); [apply ainv_mono; exact IA|exact I]. }
        apply decrypt_deal_some in Ed. destruct Ed as [A D]. apply Auth in A.
        destruct (d_i q d =? v_idx q s) eqn:Ei; cbn [negb].
        2:{ cbn. vsplit; auto. destruct (v_agg q s); [apply ainv_mono; exact IA|exact I]. }
        apply Z.eqb_eq in Ei. rewrite I1 in Ei.
        rewrite I3, I4.
        set (sid := Hsid dealer vs (d_commits q d) (d_t q d)).
        destruct (v_agg q s) as [a|] eqn:Ea.
        + (* an aggregator exists *)
          destruct IA as (Hv & Hd & K & Hh).
          destruct (verify_deal a d true) as [a1 vd] eqn:Ev.
          pose proof (verify_deal_cases _ _ _ _ _ Ev) as Cs.
          destruct vd.
          * (* approved: the deal was recorded now *)
            apply verify_deal_ok_iff in Ev. destruct Ev as (Hn & Hs & -> & C). specialize (Hn eq_refl).
            assert (Hh' := Hh). unfold held in Hh'. rewrite Hn in Hh'. destruct Hh' as [Pv Hl].
            assert (Sb : sid_bound a d = true) by (apply sid_bound_iff; exact Hs).
            assert (R : ainv (record_deal a d) (h ++ [VEnc e])).
            { apply record_ainv; auto. intros Rv. congruence. }
            destruct (add_response q (record_deal a d) idx true) as [a2|] eqn:Eadd;
              rewrite I1; rewrite Eadd; cbn; vsplit; auto.
            apply add_response_some in Eadd. destruct Eadd as (Ri & L & ->).
            assert (Da : a_deal q (record_deal a d) = Some d) by (unfold VssSM.record_deal; rewrite Hn; reflexivity).
            rewrite (nverif_vs _ (proj1 R)) in Ri.
            apply (ainv_add_approval _ _ _ d); auto.
            right. left. split; [reflexivity|]. exists e, d. split; [apply in_or_app; right; left; reflexivity|].
            split; [exact A|]. split; [exact D|].
            assert (As : a_sid q (record_deal a d) = Some (d_sid q d)) by (unfold VssSM.record_deal; rewrite Hn; reflexivity).
            apply (conditions_good (record_deal a d) d d idx); auto; try lia; try apply (proj1 R); try apply (proj1 (proj2 R)).
            unfold VssSM.sid_bound. unfold VssSM.record_deal. rewrite Hn. cbn. exact Sb.
          * (* already processed *)
            cbn. vsplit; auto. apply ainv_mono. asplit; auto.
          * (* refused: complaint *)
            assert (R : ainv a1 (h ++ [VEnc e])).
            { destruct Cs as [[-> _]|(Hn & Sb & ->)]; [apply ainv_mono; asplit; auto|].
              assert (Hh' := Hh). unfold held in Hh'. rewrite Hn in Hh'. destruct Hh' as [Pv Hl].
              apply record_ainv; auto. intros Rv. congruence. }
            rewrite I1.
            destruct (add_response q a1 idx false) as [a2|] eqn:Eadd; cbn; vsplit; auto.
            apply add_response_some in Eadd. destruct Eadd as (Ri & L & ->).
            rewrite (nverif_vs _ (proj1 R)) in Ri. apply ainv_add_complaint; auto.
        + (* Rabin: the aggregator is created from this deal *)
          destruct (sid_eqb sid (d_sid q d)) eqn:Es; [|cbn; vsplit; auto; rewrite Ea; exact I].
          set (a := mkAgg dealer vs (d_commits q d) (Some (d_sid q d)) None (d_t q d) false false []).
          assert (Sb : sid_bound a d = true) by (unfold VssSM.sid_bound; cbn; exact Es).
          assert (K0 : keys_ok n (a_resps q a)) by apply keys_ok_nil.
          assert (R : ainv (record_deal a d) (h ++ [VEnc e])).
          { apply record_ainv; auto. intros i; cbn; discriminate. }
          destruct (verify_deal a d true) as [a1 vd] eqn:Ev.
          pose proof (verify_deal_cases _ _ _ _ _ Ev) as Cs.
          assert (E1 : a1 = record_deal a d).
          { destruct Cs as [[-> Hx]|(_ & _ & ->)]; [|reflexivity].
            specialize (Hx eq_refl). subst vd. unfold VssSM.verify_deal in Ev. cbn [a_deal a] in Ev.
            rewrite Sb in Ev. cbn [negb] in Ev. inversion Ev. }
          subst a1. rewrite I1.
          assert (Da : a_deal q (record_deal a d) = Some d) by reflexivity.
          destruct vd.
          * apply verify_deal_ok_iff in Ev. destruct Ev as (_ & Hs & _ & C).
            destruct (add_response q (record_deal a d) idx true) as [a2|] eqn:Eadd; cbn; vsplit; auto.
            apply add_response_some in Eadd. destruct Eadd as (Ri & L & ->).
            rewrite (nverif_vs _ (proj1 R)) in Ri.
            apply (ainv_add_approval _ _ _ d); auto.
            right. left. split; [reflexivity|]. exists e, d. split; [apply in_or_app; right; left; reflexivity|].
            split; [exact A|]. split; [exact D|].
            apply (conditions_good (record_deal a d) d d idx); auto; try lia; try apply (proj1 R); try apply (proj1 (proj2 R)).
          * cbn. vsplit; auto. unfold VssSM.verify_deal in Ev. cbn [a_deal a] in Ev. rewrite Sb in Ev. cbn [negb] in Ev.
            destruct (deal_checks (record_deal a d) d); inversion Ev.
          * destruct (add_response q (record_deal a d) idx false) as [a2|] eqn:Eadd; cbn; vsplit; auto.
            apply add_response_some in Eadd. destruct Eadd as (Ri & L & ->).
            rewrite (nverif_vs _ (proj1 R)) in Ri. apply ainv_add_complaint; auto.
      - (* ProcessResponse *)
        destruct (v_agg q s) as [a|] eqn:Ea; [|cbn; vsplit; auto; rewrite Ea; exact I].
        assert (IA' := ainv_mono a h (VResp r) IA).
        assert (Keep : Inv (h ++ [VResp r]) s) by (vsplit; auto; rewrite Ea; exact IA').
        destruct IA as (Hv & Hd & K & Hh).
        destruct (a_deal q a) as [d0|] eqn:Ed0.
        2:{ unfold held in Hh. rewrite Ed0 in Hh. destruct Hh as [Pv _]. rewrite Pv. cbn. exact Keep. }
        assert (X : fst (match verify_response a r with Some a' => (with_agg q s a', @OOk q) | None => (s, @OErr q) end)
                    = match verify_response a r with Some a' => with_agg q s a' | None => s end)
          by (destruct (verify_response a r); reflexivity).
        assert (G : Inv (h ++ [VResp r]) (match verify_response a r with Some a' => with_agg q s a' | None => s end)).
        { destruct (verify_response a r) as [a'|] eqn:Ev; [|exact Keep].
          unfold VssSM.verify_response in Ev.
          unfold held in Hh. rewrite Ed0 in Hh. destruct Hh as (Hs & Hc & Ht & Hb & Hg).
          rewrite Hs in Ev.
          assert (Sf : (match var with Pedersen => osid_eqb (Some (d_sid q d0)) (r_sid q r) | Rabin => osid_eqb (Some (d_sid q d0)) (r_sid q r) end)
                       = sid_eqb (d_sid q d0) (r_sid q r)) by (destruct var; reflexivity).
          destruct var eqn:Evar; cbn [osid_eqb] in Ev;
          (destruct (sid_eqb (d_sid q d0) (r_sid q r)) eqn:E1; cbn [negb] in Ev; [|discriminate];
           destruct (r_idx q r <? nverif a) eqn:E2; cbn [negb] in Ev; [|discriminate];
           destruct (sig_ok q (a_vs q a) r) eqn:E3; cbn [negb] in Ev; [|discriminate];
           apply add_response_some in Ev; destruct Ev as (Ri & L & ->);
           rewrite (nverif_vs _ Hv) in Ri;
           cbn; vsplit; auto;
           destruct (r_appr q r) eqn:Eap;
           [apply (ainv_add_approval _ _ _ d0); auto;
            left; exists r; split; [apply in_or_app; right; left; reflexivity|];
            unfold sig_ok in E3; destruct (r_sig q r) as [k sd i b|] eqn:Esig; [|discriminate];
            rewrite !andb_true_iff in E3; destruct E3 as [[[S1 S2] S3] S4];
            apply zeqb_eq in S1; apply sid_eqb_eq in S2, E1; apply Z.eqb_eq in S3; apply Bool.eqb_prop in S4;
            unfold signed_approval; rewrite Hv in S1; subst; repeat split; auto; congruence
           |apply ainv_add_complaint; auto]). }
        destruct var; cbn; rewrite ?Ea, ?Ed0; rewrite X; exact G.
      - (* ProcessJustification *)
        destruct (v_agg q s) as [a|] eqn:Ea; [|cbn; vsplit; auto; rewrite Ea; exact I].
        assert (IA' := ainv_mono a h (VJust j) IA).
        destruct (verify_justification a j) as [a' ok] eqn:Ej. cbn. vsplit; auto.
        unfold VssSM.verify_justification in Ej.
        destruct (j_idx q j <? nverif a) eqn:E1; cbn [negb] in Ej; [|inversion Ej; subst; exact IA'].
        destruct (lookup (a_resps q a) (j_idx q j)) as [[|]|] eqn:El; try (inversion Ej; subst; exact IA').
        destruct (j_deal q j) as [d|] eqn:Edj; [|inversion Ej; subst; apply ainv_with_bad; exact IA'].
        destruct (d_i q d =? j_idx q j) eqn:E2; cbn [negb] in Ej; [|inversion Ej; subst; apply ainv_with_bad; exact IA'].
        apply Z.eqb_eq in E2.
        set (cchk := match a_commits q a with [] => false | _ => negb (points_eqb q (a_commits q a) (d_commits q d)) end) in Ej.
        destruct cchk eqn:E3; [inversion Ej; subst; apply ainv_with_bad; exact IA'|].
        assert (Cm : a_commits q a <> [] -> d_commits q d = a_commits q a).
        { intros Hne. unfold cchk in E3. destruct (a_commits q a) eqn:Ec; [congruence|].
          apply negb_false_iff in E3. apply points_eqb_eq in E3. congruence. }
        destruct IA as (Hv & Hd & K & Hh).
        assert (Kj : 0 <= j_idx q j < n) by (eapply keys_ok_range; [exact K|eapply lookup_in; exact El]).
        destruct (verify_deal a d false) as [a1 vd] eqn:Ev.
        pose proof (verify_deal_cases _ _ _ _ _ Ev) as Cs.
        assert (R : ainv a1 (h ++ [VJust j])).
        { destruct Cs as [[-> _]|(Hn & Sb & ->)]; [exact IA'|].
          assert (Hh' := Hh). unfold held in Hh'. rewrite Hn in Hh'. destruct Hh' as [Pv Hl].
          apply record_ainv; auto. intros Rv. congruence. }
        destruct vd; try (inversion Ej; subst; apply ainv_with_bad; exact R).
        inversion Ej; subst a' ok. clear Ej.
        apply verify_deal_ok_iff in Ev. destruct Ev as (_ & Hs & E1' & C).
        assert (Sb : sid_bound a d = true) by (apply sid_bound_iff; exact Hs).
        (* the complaint becomes an approval *)
        assert (La : a_resps q a1 = a_resps q a).
        { rewrite E1'. unfold VssSM.record_deal. destruct (a_deal q a); reflexivity. }
        destruct R as (Rv & Rd & RK & Rh).
        cbn. asplit; cbn; auto.
        + apply keys_ok_set_true. exact RK.
        + unfold held in *. cbn.
          destruct (a_deal q a1) as [d1|] eqn:Ed1.
          * destruct Rh as (H1 & H2 & H3 & H4 & H5). repeat split; auto.
            intros k. rewrite lookup_set_true. destruct (k =? j_idx q j) eqn:Ek; [|apply H5].
            apply Z.eqb_eq in Ek. subst k. intros _.
            right. right. exists j, d. split; [apply in_or_app; right; left; reflexivity|].
            split; [reflexivity|]. split; [exact Edj|].
            destruct (a_deal q a) as [d0|] eqn:Ed0.
            -- assert (Ra : record_deal a d = a) by (unfold VssSM.record_deal; rewrite Ed0; reflexivity).
               rewrite E1', Ra in Ed1. rewrite Ed0 in Ed1. inversion Ed1; subst d1.
               destruct Hh as (G1 & G2 & G3 & G4 & G5).
               apply (conditions_good a d d0 (j_idx q j)); auto; try lia.
               ++ rewrite Ra in C. exact C.
               ++ rewrite <- G2. exact Cm.
            -- assert (d1 = d) by (rewrite E1' in Ed1; unfold VssSM.record_deal in Ed1; rewrite Ed0 in Ed1; cbn in Ed1; congruence). subst d1.
               apply (conditions_good a1 d d (j_idx q j)); auto; try lia.
               ++ rewrite E1'. unfold VssSM.sid_bound, VssSM.record_deal. rewrite Ed0. cbn. exact Sb.
               ++ rewrite E1'. exact C.
          * exfalso. rewrite E1' in Ed1. unfold VssSM.record_deal in Ed1. destruct (a_deal q a) eqn:E0; [rewrite E0 in Ed1|cbn in Ed1]; discriminate.
      - (* SetTimeout *)
        destruct (v_agg q s) as [a|] eqn:Ea; [|cbn; vsplit; auto; rewrite Ea; exact I].
        assert (IA' := ainv_mono a h VTimeout IA).
        cbn. vsplit; auto. unfold VssSM.set_timeout. destruct var; [apply ainv_with_timeout; exact IA'|].
        destruct IA' as (Hv & Hd & K & Hh).
        unfold clean_verifiers.
        pose proof (clean_fold n (zrange (nverif a)) a) as CF.
        rewrite (nverif_vs _ Hv) in *.
        specialize (CF (fun k H => proj1 (in_zrange n k) H) K). cbn zeta in CF.
        destruct CF as (C1 & C2 & _ & _ & C5 & C6 & C7 & C8 & C9 & C10 & _).
        asplit; try congruence; auto. unfold held in *. rewrite C7, C8, C9, C10.
        destruct (a_deal q a).
        + destruct Hh as (H1 & H2 & H3 & H4 & H5). repeat split; auto. intros k L. apply H5. apply C2. exact L.
        + destruct Hh as [H1 H2]. split; auto. intros k L. apply (H2 k). apply C2. exact L.
    Qed.

    Lemma inv_init : Inv [] v0.
    Proof.
      unfold Inv, VssSM.new_verifier. cbn. repeat split; auto.
      destruct var eqn:E; cbn; [|exact I].
      unfold ainv, held. cbn. asplit; auto; [apply keys_ok_nil|]. split; [exact E|discriminate].
    Qed.

    Lemma inv_run_from : forall h h0 s, Inv h0 s -> Inv (h0 ++ h) (fold_left (fun s o => fst (vstep s o)) h s).
    Proof.
      induction h as [|o h IH]; intros h0 s H; cbn [fold_left].
      - rewrite app_nil_r. exact H.
      - replace (h0 ++ o :: h) with ((h0 ++ [o]) ++ h) by (rewrite <- app_assoc; reflexivity).
        apply IH. apply inv_step. exact H.
    Qed.

    Theorem inv_run h : Inv h (vrun v0 h).
    Proof. apply (inv_run_from h [] v0 inv_init). Qed.

    (* DealCertified at a verifier, after EVERY history of encrypted deals,
       responses (genuine, duplicated, forged), justifications (correct or not)
       and time-outs: the dealer produced no invalid justification, the threshold
       is in range, the verifier holds a deal whose session id is the hash of its
       commitments, and there are t distinct verifiers each of which signed an
       approval for that session id, or is this verifier and approved its own
       consistent deal, or had its complaint answered by a consistent deal of its
       index on the same commitments *)
    Theorem certified_sound h a :
      v_agg q (vrun v0 h) = Some a -> deal_certified a = true ->
      a_bad q a = false /\ 2 <= a_t q a <= n /\
      exists d0, a_deal q a = Some d0 /\ a_commits q a = d_commits q d0 /\ a_t q a = d_t q d0 /\
                 a_sid q a = Some (d_sid q d0) /\ d_sid q d0 = Hsid dealer vs (d_commits q d0) (d_t q d0) /\
      exists l, NoDup l /\ a_t q a <= Z.of_nat (length l) /\
                forall i, In i l -> 0 <= i < n /\ genuine h (d_commits q d0) (d_sid q d0) i.
    Proof.
      intros Ha C. pose proof (inv_run h) as (_ & _ & _ & _ & IA). rewrite Ha in IA.
      destruct IA as (Hv & Hd & K & Hh).
      destruct (certified_counts n a (nverif_vs a Hv) K C) as (B & T & l & N & Len & Hl).
      split; [exact B|]. split; [exact T|].
      unfold held in Hh. destruct (a_deal q a) as [d0|].
      - destruct Hh as (H1 & H2 & H3 & H4 & H5). exists d0. repeat split; auto.
        exists l. repeat split; auto; try (apply Hl; assumption). apply H5. apply Hl. assumption.
      - exfalso. destruct Hh as [_ Hno]. destruct l as [|i l]; [cbn in Len; lia|].
        apply (Hno i). apply Hl. left. reflexivity.
    Qed.

    (* bad is forever *)
    Theorem bad_is_forever s o : v_bad q s = true -> v_bad q (fst (vstep s o)) = true.
    Proof.
      unfold v_bad. destruct (v_agg q s) as [a|] eqn:Ea; [|discriminate]. intros B.
      destruct o as [e|r|j|]; cbn [VssSM.vstep]; rewrite ?Ea.
      - unfold VssSM.process_encrypted_deal. destruct (decrypt_deal q s e) as [d|]; [|cbn; rewrite Ea; exact B].
        destruct (negb (d_i q d =? v_idx q s)); [cbn; rewrite Ea; exact B|]. rewrite Ea.
        destruct (verify_deal a d true) as [a1 vd] eqn:Ev.
        assert (B1 : a_bad q a1 = true).
        { destruct (verify_deal_cases _ _ _ _ _ Ev) as [[-> _]|(Hn & _ & ->)]; [exact B|].
          unfold VssSM.record_deal. rewrite Hn. exact B. }
        destruct vd; cbn; try exact B;
          match goal with |- context [add_response q a1 ?i ?b] => destruct (add_response q a1 i b) as [a2|] eqn:Eadd end;
          cbn; try exact B1; apply add_response_some in Eadd; destruct Eadd as (_ & _ & ->); exact B1.
      - assert (VR : forall a', verify_response a r = Some a' -> a_bad q a' = true).
        { intros a'. unfold VssSM.verify_response.
          repeat match goal with |- (if ?c then None else _) = _ -> _ => destruct c; [discriminate|] end.
          intros Ev. apply add_response_some in Ev. destruct Ev as (_ & _ & ->). exact B. }
        destruct (verify_response a r) as [a'|] eqn:Ev.
        + specialize (VR a' eq_refl). destruct var, (a_deal q a); cbn; rewrite ?Ea; auto.
        + destruct var, (a_deal q a); cbn; rewrite ?Ea; auto.
      - destruct (verify_justification a j) as [a' ok] eqn:Ej. cbn.
        unfold VssSM.verify_justification in Ej.
        repeat match type of Ej with
               | (if ?c then _ else _) = _ => destruct c
               | match ?c with _ => _ end = _ => destruct c eqn:?
               end; inversion Ej; subst; cbn; try exact B; try reflexivity.
        destruct (verify_deal_cases _ _ _ _ _ Heqp) as [[-> _]|(Hn & _ & ->)]; [exact B|].
        unfold VssSM.record_deal. rewrite Hn. exact B.
      - cbn. unfold VssSM.set_timeout. destruct var; [exact B|].
        unfold clean_verifiers.
        assert (G : forall l (x : agg), a_bad q x = true ->
                  a_bad q (fold_left (fun acc i => match lookup (a_resps q acc) i with
                                                   | Some _ => acc
                                                   | None => with_resps q acc ((i, false) :: a_resps q acc)
                                                   end) l x) = true).
        { induction l as [|i l IH]; intros x Hx; cbn [fold_left]; [exact Hx|].
          apply IH. destruct (lookup (a_resps q x) i); exact Hx. }
        apply G. exact B.
    Qed.

    Corollary bad_forever_run s h : v_bad q s = true -> v_bad q (vrun s h) = true /\ v_certified q var (vrun s h) = false.
    Proof.
      revert s. induction h as [|o h IH]; intros s B.
      - cbn. split; [exact B|]. unfold v_certified, v_bad in *. destruct (v_agg q s); [apply bad_never_certified; exact B|reflexivity].
      - cbn [VssSM.vrun fold_left]. apply (IH (fst (vstep s o))). apply bad_is_forever. exact B.
    Qed.
  End Verifier.

  Lemma verify_response_some a r a' sd :
    a_sid q a = Some sd ->
    verify_response a r = Some a' ->
    r_sid q r = sd /\ sig_ok q (a_vs q a) r = true /\ add_response q a (r_idx q r) (r_appr q r) = Some a'.
  Proof.
    intros Hs Ev. unfold VssSM.verify_response in Ev. rewrite Hs in Ev.
    destruct var; cbn [osid_eqb] in Ev;
      (destruct (sid_eqb sd (r_sid q r)) eqn:E1; cbn [negb] in Ev; [|discriminate];
       destruct (r_idx q r <? nverif a) eqn:E2; cbn [negb] in Ev; [|discriminate];
       destruct (sig_ok q (a_vs q a) r) eqn:E3; cbn [negb] in Ev; [|discriminate];
       apply sid_eqb_eq in E1; auto).
  Qed.

  Lemma sig_ok_signed vs r :
    sig_ok q vs r = true -> r_sig q r = SigBy (nth_pub q vs (r_idx q r)) (r_sid q r) (r_idx q r) (r_appr q r).
  Proof.
    unfold sig_ok. destruct (r_sig q r) as [k sd i b|]; [|discriminate].
    rewrite !andb_true_iff. intros [[[S1 S2] S3] S4].
    apply zeqb_eq in S1. apply sid_eqb_eq in S2. apply Z.eqb_eq in S3. apply Bool.eqb_prop in S4. congruence.
  Qed.

  (* ------------------------------------------------------------ histories at the dealer *)

  Section Dealer.
    Variables (dealer : F) (vs : list F) (t : Z) (f g : list F).
    Notation n := (Z.of_nat (length vs)).
    Notation D0 := (new_dealer dealer vs t f g).
    Notation sid0 := (Hsid dealer vs (dealer_commits q var hH f g) t).

    Definition dinv (h : list (dop q)) (s : dst q) : Prop :=
      let a := dl_agg q s in
      a_vs q a = vs /\ a_sid q a = Some sid0 /\ a_t q a = t /\ keys_ok n (a_resps q a) /\
      dl_secret q s = hd zzero f /\
      forall i, lookup (a_resps q a) i = Some true ->
                exists r, In (DResp r) h /\ signed_approval vs sid0 i r.

    Lemma dinv_step h s o : dinv h s -> dinv (h ++ [o]) (fst (dstep s o)).
    Proof.
      intros (Hv & Hs & Ht & K & Sec & G).
      assert (G' : forall i, lookup (a_resps q (dl_agg q s)) i = Some true ->
                             exists r, In (DResp r) (h ++ [o]) /\ signed_approval vs sid0 i r).
      { intros i L. destruct (G i L) as (r & H1 & H2). exists r. split; [apply in_or_app; auto|exact H2]. }
      destruct o as [r|]; cbn [VssSM.dstep].
      - destruct (verify_response (dl_agg q s) r) as [a'|] eqn:Ev.
        2:{ cbn. unfold dinv. split; [exact Hv|]; split; [exact Hs|]; split; [exact Ht|]; split; [exact K|]; split; [exact Sec|exact G']. }
        assert (X : dinv (h ++ [DResp r]) (mkD q a' (dl_deals q s) (dl_secret q s))).
        { destruct (verify_response_some _ _ _ _ Hs Ev) as (E1 & E3 & Ea).
          apply add_response_some in Ea. destruct Ea as (Ri & L & ->).
          unfold VssSM.nverif in Ri. rewrite Hv in Ri.
          unfold dinv. cbn. split; [exact Hv|]. split; [exact Hs|]. split; [exact Ht|].
          split; [apply keys_ok_cons; auto|]. split; [exact Sec|].
          intros i. destruct (r_idx q r =? i) eqn:Ei; [|apply G'].
          apply Z.eqb_eq in Ei. subst i. intros Hap. inversion Hap as [Hap'].
          exists r. split; [apply in_or_app; right; left; reflexivity|].
          apply sig_ok_signed in E3. rewrite Hv in E3.
          unfold signed_approval. rewrite E3, E1, Hap'. repeat split; auto. }
        destruct (r_appr q r); exact X.
      - cbn. unfold dinv. cbn. unfold VssSM.set_timeout. destruct var.
        + cbn. split; [exact Hv|]; split; [exact Hs|]; split; [exact Ht|]; split; [exact K|]; split; [exact Sec|exact G'].
        + unfold clean_verifiers.
          pose proof (clean_fold n (zrange (nverif (dl_agg q s))) (dl_agg q s)) as CF.
          assert (Nv : nverif (dl_agg q s) = n) by (unfold VssSM.nverif; rewrite Hv; reflexivity).
          rewrite Nv in *.
          specialize (CF (fun k H => proj1 (in_zrange n k) H) K). cbn zeta in CF.
          destruct CF as (C1 & C2 & _ & _ & C5 & C6 & C7 & C8 & C9 & C10 & _).
          split; [congruence|]. split; [congruence|]. split; [congruence|]. split; [exact C1|]. split; [exact Sec|].
          intros i L. apply G'. apply C2. exact L.
    Qed.

    Lemma dinv_init : dinv [] D0.
    Proof.
      unfold dinv, VssSM.new_dealer. cbn. split; [reflexivity|]. split; [reflexivity|]. split; [reflexivity|].
      split; [apply keys_ok_nil|]. split; [reflexivity|]. discriminate.
    Qed.

    Lemma dinv_run_from : forall h h0 s, dinv h0 s -> dinv (h0 ++ h) (fold_left (fun x o => fst (dstep x o)) h s).
    Proof.
      induction h as [|o h IH]; intros h0 s H; cbn [fold_left].
      - rewrite app_nil_r. exact H.
      - replace (h0 ++ o :: h) with ((h0 ++ [o]) ++ h) by (rewrite <- app_assoc; reflexivity).
        apply IH. apply dinv_step. exact H.
    Qed.

    (* the dealer's own view: certified (and SecretCommit released) only with t
       distinct verifiers having signed an approval for the dealer's session id *)
    Theorem dealer_certified_sound h :
      let s := drun D0 h in
      deal_certified (dl_agg q s) = true ->
      2 <= t <= n /\
      secret_commit q var s = Some (smul (hd zzero f) pbase) /\
      exists l, NoDup l /\ t <= Z.of_nat (length l) /\
                forall i, In i l -> 0 <= i < n /\ exists r, In (DResp r) h /\ signed_approval vs sid0 i r.
    Proof.
      intros s C. pose proof (dinv_run_from h [] D0 dinv_init) as (Hv & Hs & Ht & K & Sec & G).
      cbn [app] in *. fold (drun D0 h) in *. fold s in Hv, Hs, Ht, K, Sec, G.
      assert (Nv : nverif (dl_agg q s) = n) by (unfold VssSM.nverif; rewrite Hv; reflexivity).
      destruct (certified_counts n _ Nv K C) as (B & T & l & N & Len & Hl).
      rewrite Ht in *. split; [exact T|].
      split; [unfold secret_commit; rewrite C, Sec; reflexivity|].
      exists l. repeat split; auto; try (apply Hl; assumption). apply G. apply Hl. assumption.
    Qed.

    Theorem dealer_uncertified_no_commit h :
      deal_certified (dl_agg q (drun D0 h)) = false -> secret_commit q var (drun D0 h) = None.
    Proof. intros C. unfold secret_commit. rewrite C. reflexivity. Qed.
  End Dealer.

  (* ------------------------------------------------------------ the honest run *)

  Section Honest.
    Hypothesis q_prime : prime q.
    Variables (dealer : F) (vs : list F) (t : Z) (f g : list F).
    Notation n := (Z.of_nat (length vs)).
    Notation cs := (dealer_commits q var hH f g).
    Notation sid0 := (Hsid dealer vs cs t).
    Hypothesis t_range : 2 <= t <= n.
    Hypothesis f_len : length f = Z.to_nat t.
    Hypothesis g_len : var = Rabin -> length g = length f.

    Notation hdeal := (dealer_deal q var hH sid0 f g t).

    (* the deals NewDealer hands out lie on the polynomial it commits to *)
    Lemma honest_deal_on_poly i : on_committed_poly (hdeal i).
    Proof.
      unfold on_committed_poly, dealer_deal, dealer_commits.
      destruct var eqn:E; cbn [d_v d_rv d_commits d_i].
      - rewrite (pub_peval_eq q q_prime), (peval_commit q q_prime). reflexivity.
      - rewrite (pub_peval_eq q q_prime), (peval_zip_add q q_prime).
        + rewrite !(peval_commit q q_prime). reflexivity.
        + unfold commit. rewrite !map_length. symmetry. apply g_len. reflexivity.
    Qed.

    (* the encrypted deal the honest dealer sends to verifier i *)
    Definition honest_enc (i : Z) : encdeal q :=
      mkEnc (Some dealer) (nth_pub q vs i) dealer vs true (Some (hdeal i)).

    (* every verifier approves the honest dealer's deal, with the dealer's session id *)
    Theorem honest_verifier_approves i :
      0 <= i < n ->
      exists v' r, process_encrypted_deal (new_verifier i (nth_pub q vs i) dealer vs) (honest_enc i) = (v', OResp r)
                   /\ r_appr q r = true.
    Proof.
      intros Hi. apply approve_iff.
      - unfold wf_v, VssSM.new_verifier. cbn. destruct var; cbn; auto.
      - exists (hdeal i). split; [unfold authentic, honest_enc, VssSM.new_verifier; cbn; auto|].
        split; [reflexivity|].
        split; [|split; [unfold fresh, VssSM.new_verifier; cbn; destruct var; cbn; auto|cbn; lia]].
        unfold consistent_deal, vn, VssSM.new_verifier. cbn.
        repeat split; auto; try lia. apply honest_deal_on_poly.
    Qed.

    (* the commitment the dealer publishes is the commitment of the secret *)
    Theorem honest_secret_commitment :
      var = Pedersen -> hd zzero cs = smul (hd zzero f) pbase.
    Proof.
      intros E. unfold dealer_commits. rewrite E. destruct f as [|s0 f']; [cbn in f_len; lia|]. reflexivity.
    Qed.

    Lemma valid_idx_map (l : list Z) (y : Z -> F) :
      valid_idx (map (fun i => Some (i, Some (y i))) l) = l.
    Proof.
      induction l as [|i l IH]; [reflexivity|].
      change (valid_idx (map (fun i => Some (i, Some (y i))) (i :: l)))
        with (i :: valid_idx (map (fun i => Some (i, Some (y i))) l)).
      rewrite IH. reflexivity.
    Qed.

    (* any t (or more) of the n deals, in any order, recover the dealer's secret *)
    Theorem honest_recovery (idxs : list Z) :
      n < q - 1 -> n < 4294967295 ->
      NoDup idxs -> (forall i, In i idxs -> 0 <= i < n) -> t <= Z.of_nat (length idxs) ->
      recover q (map hdeal idxs) t = Some (hd zzero f).
    Proof.
      intros Q1 Q2 N R Len. unfold recover.
      destruct idxs as [|i0 rest] eqn:Eidx; [cbn in Len; lia|]. rewrite <- Eidx in *.
      assert (Hm : map hdeal idxs = hdeal i0 :: map hdeal rest) by (rewrite Eidx; reflexivity).
      rewrite Hm. rewrite <- Hm.
      assert (Fa : forallb (fun d => sid_eqb (d_sid q d) (d_sid q (hdeal i0))) (map hdeal idxs) = true).
      { apply forallb_forall. intros d Hd. apply in_map_iff in Hd. destruct Hd as (i & <- & _). cbn. apply sid_eqb_refl. }
      rewrite Fa. rewrite map_map. cbn [d_i d_v dealer_deal].
      apply (recover_secret_correct q q_prime); auto; try lia.
      - intros i y Hin. apply in_map_iff in Hin. destruct Hin as (k & E & Hk). inversion E; subst.
        specialize (R _ Hk). repeat split; try lia.
      - rewrite (valid_idx_map idxs (fun i => peval f (xeval q i))).
        rewrite (nodup_fixed_point Z.eq_dec N). lia.
    Qed.
  End Honest.

  (* ------------------------------------------------------------ approvals bind commitments *)

  (* collision freedom of the session-id hash, as an explicit premise: two
     verifiers whose approvals carry the same session id approved the same
     commitments and threshold *)
  Theorem approval_binds_commitments v1 v2 e1 e2 v1' v2' r1 r2 :
    (forall d vs c1 t1 c2 t2, Hsid d vs c1 t1 = Hsid d vs c2 t2 -> c1 = c2 /\ t1 = t2) ->
    wf_v v1 -> wf_v v2 -> v_dealer q v1 = v_dealer q v2 -> v_vs q v1 = v_vs q v2 ->
    process_encrypted_deal v1 e1 = (v1', OResp r1) -> r_appr q r1 = true ->
    process_encrypted_deal v2 e2 = (v2', OResp r2) -> r_appr q r2 = true ->
    exists d1 d2, e_deal q e1 = Some d1 /\ e_deal q e2 = Some d2 /\
                  r_sid q r1 = d_sid q d1 /\ r_sid q r2 = d_sid q d2 /\
                  (r_sid q r1 = r_sid q r2 -> d_commits q d1 = d_commits q d2 /\ d_t q d1 = d_t q d2).
  Proof.
    intros Inj W1 W2 Ed Ev P1 A1 P2 A2.
    assert (X : forall v e v' r, wf_v v -> process_encrypted_deal v e = (v', OResp r) -> r_appr q r = true ->
                exists d, e_deal q e = Some d /\ r_sid q r = d_sid q d /\
                          d_sid q d = Hsid (v_dealer q v) (v_vs q v) (d_commits q d) (d_t q d)).
    { intros v e v' r W P A.
      assert (Hex : exists v' r, process_encrypted_deal v e = (v', OResp r) /\ r_appr q r = true) by (exists v', r; auto).
      apply (approve_iff v e W) in Hex. destruct Hex as (d & Au & D & C & _).
      exists d. split; [exact D|]. destruct C as (_ & _ & _ & _ & S & _). split; [|exact S].
      unfold VssSM.process_encrypted_deal in P.
      assert (Dd : decrypt_deal q v e = Some d) by (apply decrypt_deal_some; auto). rewrite Dd in P.
      destruct (negb (d_i q d =? v_idx q v)); [discriminate|].
      match type of P with (match ?oa with Some _ => _ | None => _ end) = _ => destruct oa as [a|]; [|discriminate] end.
      destruct (verify_deal a d true) as [a1 vd]. destruct vd; try discriminate;
        match type of P with (match ?x with Some _ => _ | None => _ end) = _ => destruct x; [|discriminate] end;
        inversion P; subst; cbn in *; congruence. }
    destruct (X _ _ _ _ W1 P1 A1) as (d1 & D1 & R1 & S1).
    destruct (X _ _ _ _ W2 P2 A2) as (d2 & D2 & R2 & S2).
    exists d1, d2. repeat split; auto.
    - rewrite R1, R2, S1, S2, Ed, Ev in H. apply Inj in H. tauto.
    - rewrite R1, R2, S1, S2, Ed, Ev in H. apply Inj in H. tauto.
  Qed.

End Proofs.
