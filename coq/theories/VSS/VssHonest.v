(* C10, the honest run: every order and multiplicity of the verifiers' approvals
   certifies the honest dealer's deal, at every verifier and at the dealer,
   exactly when enough distinct verifiers approved; fewer than t never do; and a
   certified honest deal is recoverable.  Over the model VssSM.v as it stands
   (Pedersen and Rabin). *)
From Coq Require Import ZArith Znumtheory List Bool Lia Permutation.
From Kyber Require Import Algebra.Zq Algebra.Grp Share.ShamirSM VSS.VssSM VSS.VssProofs.
Import ListNotations.
Local Open Scope Z_scope.

Section Honest.
  Variable q : Z.
  Notation F := (zq q).
  Variable Hsid : F -> list F -> list F -> Z -> sidt.
  Variable var : variant.
  Variable hH : F.

  Notation agg := (agg q).
  Notation response := (response q).
  Notation verify_response := (verify_response q var).
  Notation deal_certified := (deal_certified q var).
  Notation nverif := (nverif q).
  (* lemmas of VssProofs that were generalised over (q, Hsid, hH) by their section *)
  Notation nodup_filter_keys := (nodup_filter_keys q Hsid hH).
  Notation lookup_nodup_in := (lookup_nodup_in q Hsid hH).
  Notation keys_ok_cons := (keys_ok_cons q Hsid hH).
  Notation keys_ok_nil := (keys_ok_nil q Hsid hH).
  Notation clean_fold := (clean_fold q Hsid hH).

  (* ------------------------------------------------------------ counting over the response map *)

  Lemma lookup_true_in m k : lookup m k = Some true -> In (k, true) m.
  Proof.
    induction m as [|[j b] m IH]; cbn; [discriminate|].
    destruct (j =? k) eqn:E; [apply Z.eqb_eq in E; subst j; intros H; inversion H; auto|auto].
  Qed.

  Lemma nodup_same_length (l1 l2 : list Z) :
    NoDup l1 -> NoDup l2 -> (forall k, In k l1 <-> In k l2) -> length l1 = length l2.
  Proof. intros N1 N2 H. apply Permutation_length, NoDup_Permutation; auto. Qed.

  (* the number of entries with StatusApproved = true (Rabin EnoughApprovals) *)
  Lemma true_count (n : Z) m (S : list Z) :
    keys_ok n m -> NoDup S -> (forall k, In k S <-> lookup m k = Some true) ->
    length (filter (fun e : Z * bool => snd e) m) = length S.
  Proof.
    intros K NS H. rewrite <- (map_length fst).
    apply nodup_same_length; auto.
    - apply nodup_filter_keys, (keys_ok_nodup n), K.
    - intros k. rewrite H. split.
      + intros Hin. apply in_map_iff in Hin. destruct Hin as ([j b] & E & Hin). cbn in E. subst j.
        apply filter_In in Hin. destruct Hin as [Hin Hb]. cbn in Hb. subst b.
        apply lookup_nodup_in; [apply (keys_ok_nodup n), K|exact Hin].
      + intros L. apply in_map_iff. exists (k, true). split; [reflexivity|].
        apply filter_In. split; [apply lookup_true_in; exact L|reflexivity].
  Qed.

  (* the counts DealCertified makes over the indices 0..n-1 (Pedersen) *)
  Lemma count_approved (a : agg) (S : list Z) :
    NoDup S -> (forall k, In k S <-> 0 <= k < nverif a /\ lookup (a_resps q a) k = Some true) ->
    count_where q is_approved a = Z.of_nat (length S).
  Proof.
    intros NS H. unfold count_where. f_equal. apply nodup_same_length; auto.
    - apply NoDup_filter, nodup_zrange.
    - intros k. rewrite filter_In, in_zrange, H. unfold is_approved.
      destruct (lookup (a_resps q a) k) as [[|]|]; intuition congruence.
  Qed.

  Lemma count_none (f : option bool -> bool) (a : agg) :
    (forall k, 0 <= k < nverif a -> f (lookup (a_resps q a) k) = false) -> count_where q f a = 0.
  Proof.
    intros H. unfold count_where.
    assert (E : filter (fun i => f (lookup (a_resps q a) i)) (zrange (nverif a)) = []).
    { assert (G : forall l, (forall k, In k l -> 0 <= k < nverif a) ->
                            filter (fun i => f (lookup (a_resps q a) i)) l = []).
      { induction l as [|x l IH]; intros R; [reflexivity|]. cbn. rewrite (H x (R x (or_introl eq_refl))).
        apply IH. intros k Hk. apply R. right. exact Hk. }
      apply G. intros k Hk. apply in_zrange. exact Hk. }
    rewrite E. reflexivity.
  Qed.

  Lemma count_partition (a : agg) :
    count_where q is_absent a + count_where q is_approved a + count_where q is_complaint a = Z.max 0 (nverif a).
  Proof.
    unfold count_where.
    assert (G : forall l : list Z,
      (length (filter (fun i => is_absent (lookup (a_resps q a) i)) l)
       + length (filter (fun i => is_approved (lookup (a_resps q a) i)) l)
       + length (filter (fun i => is_complaint (lookup (a_resps q a) i)) l) = length l)%nat).
    { induction l as [|x l IH]; [reflexivity|]. cbn.
      destruct (lookup (a_resps q a) x) as [[|]|]; cbn; lia. }
    specialize (G (zrange (nverif a))).
    assert (L : length (zrange (nverif a)) = Z.to_nat (nverif a)).
    { unfold zrange. rewrite map_length, seq_length. reflexivity. }
    lia.
  Qed.

  (* ------------------------------------------------------------ absorbing responses *)

  (* what ProcessResponse does to the aggregator: a refused response changes nothing *)
  Definition absorb (a : agg) (r : response) : agg :=
    match verify_response a r with Some a' => a' | None => a end.
  Definition absorb_all (a : agg) (rs : list response) : agg := fold_left absorb rs a.

  (* an approval for index k that is accepted whenever k is in range and new *)
  Definition absorb_idx (a : agg) (k : Z) : agg :=
    match add_response q a k true with Some a' => a' | None => a end.

  Definition same_frame (a a' : agg) : Prop :=
    a_dealer q a' = a_dealer q a /\ a_vs q a' = a_vs q a /\ a_commits q a' = a_commits q a /\
    a_sid q a' = a_sid q a /\ a_deal q a' = a_deal q a /\ a_t q a' = a_t q a /\
    a_bad q a' = a_bad q a /\ a_timeout q a' = a_timeout q a.

  Lemma same_frame_refl a : same_frame a a.
  Proof. unfold same_frame. tauto. Qed.
  Lemma same_frame_trans a b c : same_frame a b -> same_frame b c -> same_frame a c.
  Proof. unfold same_frame. intuition congruence. Qed.

  Lemma absorb_idx_spec a k :
    same_frame a (absorb_idx a k) /\
    (forall j, lookup (a_resps q (absorb_idx a k)) j =
               match lookup (a_resps q a) j with
               | Some b => Some b
               | None => if (j =? k) && (0 <=? k) && (k <? nverif a) then Some true else None
               end).
  Proof.
    unfold absorb_idx. destruct (add_response q a k true) as [a'|] eqn:E.
    - apply add_response_some in E. destruct E as (R & L & ->). split; [unfold same_frame; cbn; tauto|].
      intros j. cbn. destruct (k =? j) eqn:Ej.
      + apply Z.eqb_eq in Ej. subst j. rewrite L, Z.eqb_refl.
        replace (0 <=? k) with true by (symmetry; apply Z.leb_le; lia).
        replace (k <? nverif a) with true by (symmetry; apply Z.ltb_lt; lia). reflexivity.
      + rewrite (Z.eqb_sym j k), Ej. cbn. destruct (lookup (a_resps q a) j); reflexivity.
    - split; [apply same_frame_refl|]. intros j.
      destruct (lookup (a_resps q a) j) eqn:Lj; [reflexivity|].
      destruct ((j =? k) && (0 <=? k) && (k <? nverif a)) eqn:C; [|reflexivity]. exfalso.
      rewrite !andb_true_iff in C. destruct C as [[C1 C2] C3].
      apply Z.eqb_eq in C1. subst j. apply Z.leb_le in C2. apply Z.ltb_lt in C3.
      assert (exists x, add_response q a k true = Some x) as [x Hx].
      { eexists. apply add_response_some. repeat split; auto. }
      congruence.
  Qed.

  Lemma absorb_idx_keys n a k : nverif a = n -> keys_ok n (a_resps q a) -> keys_ok n (a_resps q (absorb_idx a k)).
  Proof.
    intros Hn K. unfold absorb_idx. destruct (add_response q a k true) as [a'|] eqn:E; [|exact K].
    apply add_response_some in E. destruct E as (R & L & ->). cbn. apply keys_ok_cons; auto. lia.
  Qed.

  Lemma nverif_frame a a' : same_frame a a' -> nverif a' = nverif a.
  Proof. intros (_ & H & _). unfold VssSM.nverif. rewrite H. reflexivity. Qed.

  (* after absorbing approvals for the indices ks (any order, any multiplicity) *)
  Lemma absorb_idxs_spec n : forall ks a,
    nverif a = n -> keys_ok n (a_resps q a) ->
    let a' := fold_left absorb_idx ks a in
    same_frame a a' /\ keys_ok n (a_resps q a') /\
    (forall j, lookup (a_resps q a') j =
               match lookup (a_resps q a) j with
               | Some b => Some b
               | None => if existsb (Z.eqb j) ks && (0 <=? j) && (j <? n) then Some true else None
               end).
  Proof.
    induction ks as [|k ks IH]; intros a Hn K; cbn [fold_left].
    - cbn. split; [apply same_frame_refl|]. split; [exact K|].
      intros j. destruct (lookup (a_resps q a) j); reflexivity.
    - destruct (absorb_idx_spec a k) as [Fr Lk].
      assert (Hn1 : nverif (absorb_idx a k) = n) by (rewrite (nverif_frame _ _ Fr); exact Hn).
      specialize (IH (absorb_idx a k) Hn1 (absorb_idx_keys n a k Hn K)). cbn zeta in IH.
      destruct IH as (Fr2 & K2 & L2).
      split; [eapply same_frame_trans; eauto|]. split; [exact K2|].
      intros j. rewrite L2, Lk, Hn. cbn [existsb].
      destruct (lookup (a_resps q a) j); [reflexivity|].
      destruct (j =? k) eqn:Ejk; cbn [andb orb].
      + apply Z.eqb_eq in Ejk. subst k.
        destruct (0 <=? j), (j <? n); cbn; try reflexivity;
          destruct (existsb (Z.eqb j) ks); reflexivity.
      + reflexivity.
  Qed.

  (* ------------------------------------------------------------ DealCertified from the approved set *)

  (* an aggregator in which the verifiers of S (and nobody else) have approved,
     nobody complains, and the dealer is not marked bad *)
  Definition clean_state (n t : Z) (S : list Z) (a : agg) : Prop :=
    nverif a = n /\ a_t q a = t /\ a_bad q a = false /\ keys_ok n (a_resps q a) /\ NoDup S /\
    (forall k, In k S <-> lookup (a_resps q a) k = Some true) /\
    (forall k, lookup (a_resps q a) k <> Some false).

  Lemma clean_state_range n t S a k : clean_state n t S a -> In k S -> 0 <= k < n.
  Proof.
    intros (_ & _ & _ & K & _ & H & _) Hin. apply H in Hin.
    eapply keys_ok_range; [exact K|eapply lookup_in; exact Hin].
  Qed.

  Lemma clean_state_counts n t S a :
    clean_state n t S a ->
    count_where q is_approved a = Z.of_nat (length S) /\
    count_where q is_complaint a = 0 /\
    count_where q is_absent a = n - Z.of_nat (length S) /\
    Z.of_nat (length S) <= n.
  Proof.
    intros C. pose proof C as (Hn & Ht & Hb & K & NS & HS & HC).
    assert (A : count_where q is_approved a = Z.of_nat (length S)).
    { apply count_approved; auto. intros k. rewrite Hn. split.
      - intros Hin. split; [eapply clean_state_range; eauto|apply HS; exact Hin].
      - intros [_ L]. apply HS. exact L. }
    assert (Cm : count_where q is_complaint a = 0).
    { apply count_none. intros k _. unfold is_complaint.
      destruct (lookup (a_resps q a) k) as [[|]|] eqn:E; auto. exfalso. exact (HC k E). }
    pose proof (count_partition a) as P. rewrite A, Cm, Hn in P.
    assert (0 <= count_where q is_absent a) by (unfold count_where; lia).
    assert (0 <= n) by (rewrite <- Hn; unfold VssSM.nverif; lia).
    repeat split; auto; lia.
  Qed.

  (* DealCertified as coded, on such a state *)
  Theorem clean_state_certified n t S a :
    clean_state n t S a -> 2 <= t <= n -> n < 4294967296 ->
    (deal_certified a = true <->
     match var with
     | Pedersen => if a_timeout q a then t <= Z.of_nat (length S) else Z.of_nat (length S) = n
     | Rabin => Z.of_nat (length S) = n
     end).
  Proof.
    intros C T N32. destruct (clean_state_counts n t S a C) as (A & Cm & Ab & Le).
    pose proof C as (Hn & Ht & Hb & K & NS & HS & HC).
    unfold VssSM.deal_certified. destruct var.
    - rewrite A, Cm, Ab, Hn, Ht, Hb. unfold validT. cbn [negb].
      replace ((n - t) mod 4294967296) with (n - t) by (symmetry; apply Z.mod_small; lia).
      destruct (a_timeout q a); rewrite !andb_true_iff, ?negb_true_iff, ?Z.leb_le, ?Z.eqb_eq, ?Z.ltb_ge; lia.
    - rewrite Ab, Hn, Ht, Hb. unfold validT.
      rewrite (true_count n (a_resps q a) S K NS HS).
      rewrite !andb_true_iff, ?negb_true_iff, ?Z.leb_le, ?Z.eqb_eq. cbn. intuition lia.
  Qed.

  (* ... and after SetTimeout (Pedersen: the flag; Rabin: cleanVerifiers files a
     complaint for every silent verifier) *)
  Theorem clean_state_timeout_certified n t S a :
    clean_state n t S a -> 2 <= t <= n -> n < 4294967296 ->
    (deal_certified (set_timeout q var a) = true <-> t <= Z.of_nat (length S)).
  Proof.
    intros C T N32. pose proof C as (Hn & Ht & Hb & K & NS & HS & HC).
    destruct (clean_state_counts n t S a C) as (A & Cm & Ab & Le).
    unfold VssSM.set_timeout. destruct var eqn:Ev.
    - assert (C' : clean_state n t S (with_timeout q a)) by exact C.
      pose proof (clean_state_certified n t S (with_timeout q a) C' T N32) as X.
      rewrite Ev in X. cbn in X. exact X.
    - unfold clean_verifiers.
      pose proof (clean_fold n (zrange (nverif a)) a) as CF. rewrite Hn in *.
      specialize (CF (fun k H => proj1 (in_zrange n k) H) K). cbn zeta in CF.
      set (a' := fold_left _ (zrange n) a) in *.
      destruct CF as (K' & T' & P' & _ & _ & Fv & _ & _ & _ & Ft & Fb & _).
      assert (Hn' : nverif a' = n) by (unfold VssSM.nverif; rewrite Fv; exact Hn).
      unfold VssSM.deal_certified.
      assert (Ab' : count_where q is_absent a' = 0).
      { apply count_none. rewrite Hn'. intros k Hk. unfold is_absent.
        destruct (lookup (a_resps q a') k) eqn:E; auto. exfalso. apply (P' k); [apply in_zrange; exact Hk|exact E]. }
      rewrite Ab', Hn', Ft, Fb, Ht, Hb. unfold validT.
      rewrite (true_count n (a_resps q a') S K' NS).
      + rewrite !andb_true_iff, ?Z.leb_le. cbn. intuition lia.
      + intros k. rewrite HS. symmetry. apply T'.
  Qed.

  (* fold of absorb_idx keeps a clean state clean and adds the new in-range indices *)
  Lemma absorb_idxs_clean n t S ks a :
    clean_state n t S a -> (forall k, In k ks -> 0 <= k < n) ->
    clean_state n t (nodup Z.eq_dec (S ++ ks)) (fold_left absorb_idx ks a) /\
    same_frame a (fold_left absorb_idx ks a).
  Proof.
    intros (Hn & Ht & Hb & K & NS & HS & HC) R.
    destruct (absorb_idxs_spec n ks a Hn K) as (Fr & K' & L).
    split; [|exact Fr].
    pose proof Fr as (_ & Fv & _ & _ & _ & Ft & Fb & _).
    unfold clean_state. split; [unfold VssSM.nverif; rewrite Fv; exact Hn|].
    split; [congruence|]. split; [congruence|]. split; [exact K'|]. split; [apply NoDup_nodup|].
    split.
    - intros k. rewrite nodup_In, in_app_iff, L.
      destruct (lookup (a_resps q a) k) as [b|] eqn:E.
      + rewrite HS, E. split; [intros [H|H]; [exact H|]|auto].
        (* k in ks but already answered: the entry is unchanged; it must be an approval *)
        destruct b; [reflexivity|]. exfalso. exact (HC k E).
      + split.
        * intros [H|H]; [apply HS in H; congruence|].
          assert (X : existsb (Z.eqb k) ks = true) by (apply existsb_exists; exists k; split; [exact H|apply Z.eqb_refl]).
          specialize (R k H). rewrite X.
          replace (0 <=? k) with true by (symmetry; apply Z.leb_le; lia).
          replace (k <? n) with true by (symmetry; apply Z.ltb_lt; lia). reflexivity.
        * destruct (existsb (Z.eqb k) ks && (0 <=? k) && (k <? n)) eqn:X; [|discriminate]. intros _.
          rewrite !andb_true_iff in X. destruct X as [[X _] _]. apply existsb_exists in X.
          destruct X as (x & Hx & Ex). apply Z.eqb_eq in Ex. subst x. right. exact Hx.
    - intros k. rewrite L. destruct (lookup (a_resps q a) k) as [b|] eqn:E.
      + intros H. inversion H; subst b. exact (HC k E).
      + destruct (existsb (Z.eqb k) ks && (0 <=? k) && (k <? n)); discriminate.
  Qed.

  (* ------------------------------------------------------------ fewer than t never certify (any history) *)

  Definition resp_idxs (h : list (vop q)) : list Z :=
    flat_map (fun o => match o with VResp r => [r_idx q r] | _ => [] end) h.
  Definition dresp_idxs (h : list (dop q)) : list Z :=
    flat_map (fun o => match o with DResp r => [r_idx q r] | _ => [] end) h.

  (* At a verifier, for EVERY history of encrypted deals, responses (of any kind,
     in any order and multiplicity) and time-outs that contains no justification:
     certified implies that the threshold of the deal it holds is at most the
     number of distinct verifiers that responded, itself included *)
  Theorem few_never_certify_verifier idx pub dealer vs (h : list (vop q)) (a : agg) :
    (forall j, ~ In (VJust j) h) ->
    v_agg q (vrun q Hsid var hH (new_verifier q var idx pub dealer vs) h) = Some a ->
    deal_certified a = true ->
    a_t q a <= Z.of_nat (length (nodup Z.eq_dec (idx :: resp_idxs h))).
  Proof.
    intros NJ Ha C.
    destruct (certified_sound q Hsid var hH idx pub dealer vs h a Ha C)
      as (_ & _ & d0 & _ & _ & _ & _ & _ & l & NL & Len & Hl).
    assert (I : incl l (nodup Z.eq_dec (idx :: resp_idxs h))).
    { intros i Hi. apply nodup_In. destruct (Hl i Hi) as [_ [(r & Hr & Sg)|[(E & _)|(j & d & Hj & _)]]].
      - right. unfold resp_idxs. apply in_flat_map. exists (VResp r). split; [exact Hr|].
        destruct Sg as (E & _). left. exact E.
      - left. symmetry. exact E.
      - exfalso. exact (NJ j Hj). }
    pose proof (NoDup_incl_length NL I). lia.
  Qed.

  (* the dealer likewise: certified implies t <= number of distinct responders *)
  Theorem few_never_certify_dealer dealer vs t f g (h : list (dop q)) :
    deal_certified (dl_agg q (drun q var (new_dealer q Hsid var hH dealer vs t f g) h)) = true ->
    t <= Z.of_nat (length (nodup Z.eq_dec (dresp_idxs h))).
  Proof.
    intros C. destruct (dealer_certified_sound q Hsid var hH dealer vs t f g h C) as (_ & _ & l & NL & Len & Hl).
    assert (I : incl l (nodup Z.eq_dec (dresp_idxs h))).
    { intros i Hi. apply nodup_In. destruct (Hl i Hi) as [_ (r & Hr & Sg)].
      unfold dresp_idxs. apply in_flat_map. exists (DResp r). split; [exact Hr|].
      destruct Sg as (E & _). left. exact E. }
    pose proof (NoDup_incl_length NL I). lia.
  Qed.

  Lemma vstep_resp (v : vst q) a r :
    a_deal q a <> None ->
    fst (vstep q Hsid var hH (with_agg q v a) (VResp r)) = with_agg q v (absorb a r).
  Proof.
    intros Hd. cbn [VssSM.vstep v_agg with_agg]. unfold absorb.
    destruct var, (a_deal q a); try contradiction; destruct (VssSM.verify_response q _ a r); reflexivity.
  Qed.

  (* ------------------------------------------------------------ the honest run *)

  Section Run.
    Hypothesis q_prime : prime q.
    Variables (dealer : F) (vs : list F) (t : Z) (f g : list F).
    Notation n := (Z.of_nat (length vs)).
    Notation cs := (dealer_commits q var hH f g).
    Notation sid0 := (Hsid dealer vs cs t).
    Notation hdeal := (dealer_deal q var hH sid0 f g t).
    Notation henc := (honest_enc q Hsid var hH dealer vs t f g).
    Notation D0 := (new_dealer q Hsid var hH dealer vs t f g).
    Hypothesis t_range : 2 <= t <= n.
    Hypothesis f_len : length f = Z.to_nat t.
    Hypothesis g_len : var = Rabin -> length g = length f.
    Hypothesis n_u32 : n < 4294967295.

    (* the approval verifier k signs for the honest deal *)
    Definition happ (k : Z) : response := mkResp sid0 k true (SigBy (nth_pub q vs k) sid0 k true).

    (* verifier i right after it processed its encrypted deal *)
    Definition hagg (i : Z) : agg :=
      mkAgg dealer vs cs (Some sid0) (Some (hdeal i)) t false false [(i, true)].
    Notation v0 i := (new_verifier q var i (nth_pub q vs i) dealer vs).

    Lemma verify_honest_deal a0 i :
      a_deal q a0 = None -> a_dealer q a0 = dealer -> a_vs q a0 = vs -> (var = Rabin -> a_t q a0 = t) ->
      0 <= i < n ->
      verify_deal q Hsid var hH a0 (hdeal i) true =
      (mkAgg dealer vs cs (Some sid0) (Some (hdeal i)) t (a_bad q a0) (a_timeout q a0) (a_resps q a0), VOk).
    Proof.
      intros Hn Hd Hv Ht Hi.
      assert (R : record_deal q var a0 (hdeal i) =
                  mkAgg dealer vs cs (Some sid0) (Some (hdeal i)) t (a_bad q a0) (a_timeout q a0) (a_resps q a0)).
      { unfold record_deal. rewrite Hn, Hd, Hv. cbn [d_commits d_sid d_t dealer_deal].
        f_equal. destruct var; [reflexivity|apply Ht; reflexivity]. }
      rewrite <- R. apply verify_deal_ok_iff.
      split; [intros _; exact Hn|]. split; [rewrite Hd, Hv; reflexivity|]. split; [reflexivity|].
      rewrite R. unfold deal_conditions. cbn [d_t d_sid d_i d_ri dealer_deal a_t a_sid].
      unfold VssSM.nverif. cbn [a_vs].
      repeat split; auto; try lia.
      - cbn. apply sid_eqb_refl.
      - apply (honest_deal_on_poly q Hsid var hH q_prime dealer vs t f g g_len i).
    Qed.

    (* ProcessEncryptedDeal of the honest deal: an approval, and this state *)
    Theorem honest_process i :
      0 <= i < n ->
      process_encrypted_deal q Hsid var hH (v0 i) (henc i) = (with_agg q (v0 i) (hagg i), OResp (happ i)).
    Proof.
      intros Hi. unfold process_encrypted_deal.
      assert (Dc : decrypt_deal q (v0 i) (henc i) = Some (hdeal i)).
      { apply decrypt_deal_some. split; [|reflexivity].
        unfold authentic, honest_enc, VssSM.new_verifier. cbn. auto. }
      rewrite Dc.
      change (v_idx q (v0 i)) with i. change (v_dealer q (v0 i)) with dealer.
      change (v_vs q (v0 i)) with vs. change (v_pub q (v0 i)) with (nth_pub q vs i).
      change (v_agg q (v0 i)) with (match var with Pedersen => Some (empty_agg q dealer vs) | Rabin => None end).
      change (d_i q (hdeal i)) with i. change (d_commits q (hdeal i)) with cs.
      change (d_t q (hdeal i)) with t. change (d_sid q (hdeal i)) with sid0.
      rewrite Z.eqb_refl, sid_eqb_refl. cbn [negb].
      match goal with
      | |- match ?oa with Some _ => _ | None => _ end = _ =>
          assert (Ea : exists a, oa = Some a /\ a_deal q a = None /\ a_dealer q a = dealer /\ a_vs q a = vs /\
                                 (var = Rabin -> a_t q a = t) /\ a_bad q a = false /\ a_timeout q a = false /\ a_resps q a = [])
      end.
      { destruct var; eexists; (split; [reflexivity|]); cbn; repeat split; auto; discriminate. }
      destruct Ea as (a & -> & Hn & Hd & Hv & Ht & Hb & Hto & Hr).
      rewrite (verify_honest_deal a i Hn Hd Hv Ht Hi). rewrite Hb, Hto, Hr.
      unfold add_response, VssSM.nverif. cbn [a_vs a_resps lookup].
      replace (0 <=? i) with true by (symmetry; apply Z.leb_le; lia).
      replace (i <? n) with true by (symmetry; apply Z.ltb_lt; lia).
      cbn. reflexivity.
    Qed.

    Lemma hagg_clean i : 0 <= i < n -> clean_state n t [i] (hagg i).
    Proof.
      intros Hi. unfold clean_state, hagg. cbn.
      split; [reflexivity|]. split; [reflexivity|]. split; [reflexivity|].
      split; [apply keys_ok_cons; [apply keys_ok_nil|exact Hi|reflexivity]|].
      split; [constructor; [intros []|constructor]|].
      split.
      - intros k. destruct (i =? k) eqn:E.
        + apply Z.eqb_eq in E. subst k. split; auto.
        + apply Z.eqb_neq in E. split; [intros [H|[]]; contradiction|discriminate].
      - intros k. destruct (i =? k); discriminate.
    Qed.

    Lemma dagg_clean : clean_state n t [] (dl_agg q D0).
    Proof.
      unfold clean_state, VssSM.new_dealer. cbn.
      split; [reflexivity|]. split; [reflexivity|]. split; [reflexivity|].
      split; [apply keys_ok_nil|]. split; [constructor|]. split; [intros k; split; [intros []|discriminate]|discriminate].
    Qed.

    (* an honest approval passes verifyResponse whenever addResponse takes it *)
    Lemma verify_happ a k :
      a_sid q a = Some sid0 -> a_vs q a = vs -> verify_response a (happ k) = add_response q a k true.
    Proof.
      intros Hs Hv. unfold VssSM.verify_response. rewrite Hs, Hv.
      assert (Sg : sig_ok q vs (happ k) = true).
      { unfold sig_ok, happ. cbn. rewrite sid_eqb_refl, Z.eqb_refl.
        assert (Z1 : zeqb (nth_pub q vs k) (nth_pub q vs k) = true) by (apply zeqb_eq; reflexivity).
        rewrite Z1. reflexivity. }
      rewrite Sg. cbn [r_sid r_idx r_appr happ negb].
      assert (Sf : (match var with Pedersen => osid_eqb (Some sid0) sid0 | Rabin => osid_eqb (Some sid0) sid0 end) = true)
        by (destruct var; cbn; apply sid_eqb_refl).
      destruct var; cbn [osid_eqb]; rewrite sid_eqb_refl; cbn [negb];
        (destruct (k <? nverif a) eqn:E; cbn [negb]; [reflexivity|];
         unfold add_response; rewrite E, andb_false_r; reflexivity).
    Qed.

    Lemma absorb_happ a k : a_sid q a = Some sid0 -> a_vs q a = vs -> absorb a (happ k) = absorb_idx a k.
    Proof. intros Hs Hv. unfold absorb, absorb_idx. rewrite (verify_happ a k Hs Hv). reflexivity. Qed.

    (* the verifier's run over approvals, in terms of the aggregator *)
    Lemma vrun_happ : forall ks (v : vst q) a,
      a_sid q a = Some sid0 -> a_vs q a = vs -> a_deal q a <> None ->
      vrun q Hsid var hH (with_agg q v a) (map (fun k => VResp (happ k)) ks) = with_agg q v (fold_left absorb_idx ks a).
    Proof.
      induction ks as [|k ks IH]; intros v a Hs Hv Hd; [reflexivity|].
      cbn [map]. unfold VssSM.vrun in *. cbn [fold_left].
      assert (St : fst (vstep q Hsid var hH (with_agg q v a) (VResp (happ k))) = with_agg q v (absorb_idx a k)).
      { rewrite (vstep_resp v a (happ k) Hd), (absorb_happ a k Hs Hv). reflexivity. }
      rewrite St. destruct (absorb_idx_spec a k) as [(_ & Fv & _ & Fs & Fd & _) _].
      apply IH; congruence.
    Qed.

    Lemma drun_happ : forall ks (s : dst q),
      a_sid q (dl_agg q s) = Some sid0 -> a_vs q (dl_agg q s) = vs ->
      dl_agg q (drun q var s (map (fun k => DResp (happ k)) ks)) = fold_left absorb_idx ks (dl_agg q s) /\
      dl_secret q (drun q var s (map (fun k => DResp (happ k)) ks)) = dl_secret q s.
    Proof.
      induction ks as [|k ks IH]; intros s Hs Hv; [split; reflexivity|].
      cbn [map]. unfold VssSM.drun in *. cbn [fold_left].
      assert (St : dl_agg q (fst (dstep q var s (DResp (happ k)))) = absorb_idx (dl_agg q s) k /\
                   dl_secret q (fst (dstep q var s (DResp (happ k)))) = dl_secret q s).
      { cbn [VssSM.dstep]. rewrite <- (absorb_happ _ k Hs Hv). unfold absorb.
        destruct (verify_response (dl_agg q s) (happ k)); cbn; auto. }
      destruct St as [S1 S2].
      destruct (absorb_idx_spec (dl_agg q s) k) as [(_ & Fv & _ & Fs & _) _].
      destruct (IH (fst (dstep q var s (DResp (happ k))))) as [I1 I2]; try (rewrite S1; congruence).
      split; [rewrite I1, S1; reflexivity|rewrite I2, S2; reflexivity].
    Qed.

    (* MAIN THEOREM, verifier side.  Verifier i processes the honest dealer's
       encrypted deal and then the approvals of the verifiers ks - ANY list: every
       order, every multiplicity, its own approval included or not.  Then exactly
       the distinct verifiers S = {i} + ks are recorded as approvals, nobody
       complains, the dealer is not bad, and
         DealCertified              <->  all n verifiers are in S
         DealCertified after SetTimeout  <->  |S| >= t. *)
    Theorem honest_verifier_certifies i ks :
      0 <= i < n -> (forall k, In k ks -> 0 <= k < n) ->
      let v1 := fst (process_encrypted_deal q Hsid var hH (v0 i) (henc i)) in
      let s := vrun q Hsid var hH v1 (map (fun k => VResp (happ k)) ks) in
      let S := nodup Z.eq_dec (i :: ks) in
      snd (process_encrypted_deal q Hsid var hH (v0 i) (henc i)) = OResp (happ i) /\
      exists a, v_agg q s = Some a /\ clean_state n t S a /\ a_deal q a = Some (hdeal i) /\
                count_where q is_approved a = Z.of_nat (length S) /\
                count_where q is_complaint a = 0 /\
                (v_certified q var s = true <-> Z.of_nat (length S) = n) /\
                (v_certified q var (fst (vstep q Hsid var hH s VTimeout)) = true <-> t <= Z.of_nat (length S)).
    Proof.
      intros Hi R v1 s S. subst s v1. rewrite (honest_process i Hi). cbn [fst snd].
      split; [reflexivity|].
      rewrite (vrun_happ ks (v0 i) (hagg i)); try reflexivity; try (cbn; discriminate).
      destruct (absorb_idxs_clean n t [i] ks (hagg i) (hagg_clean i Hi) R) as [C Fr].
      change ([i] ++ ks) with (i :: ks) in C. fold S in C.
      exists (fold_left absorb_idx ks (hagg i)). cbn [v_agg with_agg].
      split; [reflexivity|]. split; [exact C|].
      destruct Fr as (_ & _ & _ & _ & Fd & _ & _ & Fto).
      split; [rewrite Fd; reflexivity|].
      destruct (clean_state_counts n t S _ C) as (A & Cm & _ & _).
      split; [exact A|]. split; [exact Cm|].
      assert (N32 : n < 4294967296) by lia.
      split.
      - unfold v_certified. cbn [v_agg with_agg].
        rewrite (clean_state_certified n t S _ C t_range N32). rewrite Fto. cbn [a_timeout hagg].
        destruct var; reflexivity.
      - cbn [VssSM.vstep v_agg with_agg fst]. unfold v_certified. cbn [v_agg with_agg].
        apply (clean_state_timeout_certified n t S _ C t_range N32).
    Qed.

    (* MAIN THEOREM, dealer side: the same for the dealer, which also releases
       SecretCommit = secret*G exactly when certified *)
    Theorem honest_dealer_certifies ks :
      (forall k, In k ks -> 0 <= k < n) ->
      let s := drun q var D0 (map (fun k => DResp (happ k)) ks) in
      let S := nodup Z.eq_dec ks in
      clean_state n t S (dl_agg q s) /\
      count_where q is_approved (dl_agg q s) = Z.of_nat (length S) /\
      (deal_certified (dl_agg q s) = true <-> Z.of_nat (length S) = n) /\
      (deal_certified (dl_agg q (fst (dstep q var s DTimeout))) = true <-> t <= Z.of_nat (length S)) /\
      (deal_certified (dl_agg q s) = true -> secret_commit q var s = Some (smul (hd zzero f) pbase)).
    Proof.
      intros R s S. unfold s.
      destruct (drun_happ ks D0) as [Ea Es]; try reflexivity.
      destruct (absorb_idxs_clean n t [] ks (dl_agg q D0) dagg_clean R) as [C Fr].
      cbn [app] in C. fold S in C. rewrite <- Ea in C, Fr.
      split; [exact C|].
      destruct (clean_state_counts n t S _ C) as (A & _ & _ & _).
      split; [exact A|].
      assert (N32 : n < 4294967296) by lia.
      destruct Fr as (_ & _ & _ & _ & _ & _ & _ & Fto).
      split; [|split].
      - rewrite (clean_state_certified n t S _ C t_range N32). rewrite Fto. cbn.
        destruct var; reflexivity.
      - cbn [VssSM.dstep fst dl_agg]. apply (clean_state_timeout_certified n t S _ C t_range N32).
      - intros Cc. unfold secret_commit. rewrite Cc, Es. reflexivity.
    Qed.

    (* each verifier holds the deal the dealer made for it *)
    Definition held_deal (k : Z) : option (deal q) :=
      match v_agg q (fst (process_encrypted_deal q Hsid var hH (v0 k) (henc k))) with
      | Some a => a_deal q a
      | None => None
      end.

    Lemma held_deal_honest k : 0 <= k < n -> held_deal k = Some (hdeal k).
    Proof. intros Hk. unfold held_deal. rewrite (honest_process k Hk). reflexivity. Qed.

    (* COROLLARY in the property's words: when verifier i reports the honest deal
       certified (before or after its time-out), at least t verifiers hold deals,
       and any t (or more) of the deals the verifiers hold, in any order,
       reconstruct exactly the dealer's secret *)
    Theorem certified_honest_deal_recoverable i ks :
      n < q - 1 ->
      0 <= i < n -> (forall k, In k ks -> 0 <= k < n) ->
      let v1 := fst (process_encrypted_deal q Hsid var hH (v0 i) (henc i)) in
      let s := vrun q Hsid var hH v1 (map (fun k => VResp (happ k)) ks) in
      v_certified q var s = true \/ v_certified q var (fst (vstep q Hsid var hH s VTimeout)) = true ->
      t <= Z.of_nat (length (nodup Z.eq_dec (i :: ks))) /\
      forall idxs ds,
        NoDup idxs -> (forall k, In k idxs -> 0 <= k < n) -> t <= Z.of_nat (length idxs) ->
        map held_deal idxs = map Some ds ->
        recover q ds t = Some (hd zzero f).
    Proof.
      intros Q1 Hi R v1 s Hc.
      destruct (honest_verifier_certifies i ks Hi R) as (_ & a & _ & C & _ & _ & _ & C1 & C2).
      fold v1 in C1, C2. fold s in C1, C2.
      split.
      - destruct Hc as [Hc|Hc]; [apply C1 in Hc; lia|apply C2 in Hc; exact Hc].
      - intros idxs ds N Rg Len Hd.
        assert (E : ds = map hdeal idxs).
        { revert ds Hd. clear N Len. induction idxs as [|k idxs IH]; intros ds Hd.
          - destruct ds; [reflexivity|discriminate].
          - destruct ds as [|d ds]; [discriminate|]. cbn in Hd. inversion Hd as [[H1 H2]].
            rewrite held_deal_honest in H1 by (apply Rg; left; reflexivity). inversion H1; subst d.
            cbn. f_equal. apply IH; [intros x Hx; apply Rg; right; exact Hx|exact H2]. }
        subst ds.
        apply (honest_recovery q Hsid var hH q_prime dealer vs t f g t_range f_len g_len idxs Q1 n_u32 N Rg Len).
    Qed.

    (* DUAL for the honest deal: fewer than t distinct approving verifiers never
       certify it, before or after the time-out, in any order or multiplicity *)
    Corollary honest_few_never_certify i ks :
      0 <= i < n -> (forall k, In k ks -> 0 <= k < n) ->
      Z.of_nat (length (nodup Z.eq_dec (i :: ks))) < t ->
      let v1 := fst (process_encrypted_deal q Hsid var hH (v0 i) (henc i)) in
      let s := vrun q Hsid var hH v1 (map (fun k => VResp (happ k)) ks) in
      v_certified q var s = false /\ v_certified q var (fst (vstep q Hsid var hH s VTimeout)) = false.
    Proof.
      intros Hi R Lt v1 s.
      destruct (honest_verifier_certifies i ks Hi R) as (_ & a & _ & _ & _ & _ & _ & C1 & C2).
      fold v1 in C1, C2. fold s in C1, C2.
      split.
      - apply not_true_is_false. intros E. apply C1 in E. lia.
      - apply not_true_is_false. intros E. apply C2 in E. lia.
    Qed.

    (* ---- the time-out in the middle of the approvals ---- *)

    Lemma vrun_app (v : vst q) h1 h2 :
      vrun q Hsid var hH v (h1 ++ h2) = vrun q Hsid var hH (vrun q Hsid var hH v h1) h2.
    Proof. unfold VssSM.vrun. apply fold_left_app. Qed.

    Lemma vrun_timeout (v : vst q) a :
      vrun q Hsid var hH (with_agg q v a) [VTimeout] = with_agg q v (set_timeout q var a).
    Proof. reflexivity. Qed.

    (* Pedersen: SetTimeout only sets a flag; approvals arriving afterwards still count *)
    Theorem honest_verifier_timeout_middle_pedersen i ks1 ks2 :
      var = Pedersen ->
      0 <= i < n -> (forall k, In k (ks1 ++ ks2) -> 0 <= k < n) ->
      let v1 := fst (process_encrypted_deal q Hsid var hH (v0 i) (henc i)) in
      let s := vrun q Hsid var hH v1 (map (fun k => VResp (happ k)) ks1 ++ [VTimeout] ++ map (fun k => VResp (happ k)) ks2) in
      v_certified q var s = true <-> t <= Z.of_nat (length (nodup Z.eq_dec (i :: ks1 ++ ks2))).
    Proof.
      intros Ev Hi R v1 s. subst s v1. rewrite (honest_process i Hi). cbn [fst].
      rewrite !vrun_app.
      rewrite (vrun_happ ks1 (v0 i) (hagg i)); try reflexivity; try (cbn; discriminate).
      rewrite vrun_timeout.
      assert (R1 : forall k, In k ks1 -> 0 <= k < n) by (intros k Hk; apply R, in_or_app; auto).
      assert (R2 : forall k, In k ks2 -> 0 <= k < n) by (intros k Hk; apply R, in_or_app; auto).
      destruct (absorb_idxs_clean n t [i] ks1 (hagg i) (hagg_clean i Hi) R1) as [C1 Fr1].
      set (a1 := fold_left absorb_idx ks1 (hagg i)) in *.
      replace (set_timeout q var a1) with (with_timeout q a1) by (unfold VssSM.set_timeout; rewrite Ev; reflexivity).
      assert (C1' : clean_state n t (nodup Z.eq_dec ([i] ++ ks1)) (with_timeout q a1)) by exact C1.
      destruct Fr1 as (_ & Fv & _ & Fs & Fd & _).
      assert (Hd1 : a_deal q (with_timeout q a1) <> None).
      { change (a_deal q a1 <> None). rewrite Fd. cbn. discriminate. }
      assert (Hs1 : a_sid q (with_timeout q a1) = Some sid0) by (change (a_sid q a1 = Some sid0); rewrite Fs; reflexivity).
      assert (Hv1 : a_vs q (with_timeout q a1) = vs) by (change (a_vs q a1 = vs); rewrite Fv; reflexivity).
      rewrite (vrun_happ ks2 (v0 i) (with_timeout q a1) Hs1 Hv1 Hd1).
      destruct (absorb_idxs_clean n t _ ks2 (with_timeout q a1) C1' R2) as [C2 Fr2].
      unfold v_certified. cbn [v_agg with_agg].
      assert (N32 : n < 4294967296) by lia.
      rewrite (clean_state_certified n t _ _ C2 t_range N32). rewrite Ev.
      destruct Fr2 as (_ & _ & _ & _ & _ & _ & _ & Fto). rewrite Fto. cbn [a_timeout with_timeout].
      (* the two descriptions of the approved set have the same elements *)
      assert (E : length (nodup Z.eq_dec (nodup Z.eq_dec ([i] ++ ks1) ++ ks2)) = length (nodup Z.eq_dec (i :: ks1 ++ ks2))).
      { apply nodup_same_length; try apply NoDup_nodup. intros k.
        rewrite !nodup_In, in_app_iff, nodup_In. cbn. rewrite !in_app_iff. tauto. }
      rewrite E. reflexivity.
    Qed.

    (* Rabin: SetTimeout files a complaint for every silent verifier; approvals
       arriving afterwards are refused (a response exists), so only the verifiers
       that approved BEFORE the time-out count *)
    Theorem honest_verifier_timeout_middle_rabin i ks1 ks2 :
      var = Rabin ->
      0 <= i < n -> (forall k, In k (ks1 ++ ks2) -> 0 <= k < n) ->
      let v1 := fst (process_encrypted_deal q Hsid var hH (v0 i) (henc i)) in
      let s := vrun q Hsid var hH v1 (map (fun k => VResp (happ k)) ks1 ++ [VTimeout] ++ map (fun k => VResp (happ k)) ks2) in
      v_certified q var s = true <-> t <= Z.of_nat (length (nodup Z.eq_dec (i :: ks1))).
    Proof.
      intros Ev Hi R v1 s. subst s v1. rewrite (honest_process i Hi). cbn [fst].
      rewrite !vrun_app.
      rewrite (vrun_happ ks1 (v0 i) (hagg i)); try reflexivity; try (cbn; discriminate).
      rewrite vrun_timeout.
      assert (R1 : forall k, In k ks1 -> 0 <= k < n) by (intros k Hk; apply R, in_or_app; auto).
      assert (R2 : forall k, In k ks2 -> 0 <= k < n) by (intros k Hk; apply R, in_or_app; auto).
      destruct (absorb_idxs_clean n t [i] ks1 (hagg i) (hagg_clean i Hi) R1) as [C1 Fr1].
      change ([i] ++ ks1) with (i :: ks1) in C1.
      set (a1 := fold_left absorb_idx ks1 (hagg i)) in *.
      assert (N32 : n < 4294967296) by lia.
      pose proof (clean_state_timeout_certified n t _ a1 C1 t_range N32) as X.
      (* after cleanVerifiers every in-range slot is taken *)
      pose proof C1 as (Hn & _ & _ & K & _).
      assert (Full : forall k, 0 <= k < n -> lookup (a_resps q (set_timeout q var a1)) k <> None /\
                               same_frame a1 (set_timeout q var a1)).
      { intros k Hk. unfold VssSM.set_timeout. rewrite Ev. unfold clean_verifiers.
        pose proof (clean_fold n (zrange (nverif a1)) a1) as CF. rewrite Hn in *.
        specialize (CF (fun k H => proj1 (in_zrange n k) H) K). cbn zeta in CF.
        destruct CF as (_ & _ & P' & _ & F1 & F2 & F3 & F4 & F5 & F6 & F7 & F8).
        split; [apply P', in_zrange; exact Hk|unfold same_frame; tauto]. }
      set (a2 := set_timeout q var a1) in *.
      assert (Id : forall ks a, (forall k, In k ks -> 0 <= k < n) -> nverif a = n ->
                                (forall k, 0 <= k < n -> lookup (a_resps q a) k <> None) ->
                                fold_left absorb_idx ks a = a).
      { induction ks as [|k ks IH]; intros a Rk Hna Fa; [reflexivity|]. cbn [fold_left].
        assert (E : absorb_idx a k = a).
        { unfold absorb_idx. destruct (add_response q a k true) as [a'|] eqn:Ea; [|reflexivity].
          apply add_response_some in Ea. destruct Ea as (Rg & L & _). rewrite Hna in Rg. exfalso. exact (Fa k Rg L). }
        rewrite E. apply IH; auto. intros x Hx. apply Rk. right. exact Hx. }
      assert (Fr2 : same_frame a1 a2) by (destruct (Full i Hi); assumption).
      destruct Fr1 as (_ & Fv1 & _ & Fs1 & Fd1 & _). destruct Fr2 as (_ & Fv2 & _ & Fs2 & Fd2 & _).
      assert (Hs2 : a_sid q a2 = Some sid0) by (rewrite Fs2, Fs1; reflexivity).
      assert (Hv2 : a_vs q a2 = vs) by (rewrite Fv2, Fv1; reflexivity).
      assert (Hd2 : a_deal q a2 <> None) by (rewrite Fd2, Fd1; cbn; discriminate).
      rewrite (vrun_happ ks2 (v0 i) a2 Hs2 Hv2 Hd2).
      rewrite (Id ks2 a2 R2); [| unfold VssSM.nverif; rewrite Fv2; exact Hn | intros k Hk; apply (Full k Hk)].
      unfold v_certified. cbn [v_agg with_agg]. exact X.
    Qed.

    (* the dealer's side of the corollary: when the dealer reports its deal
       certified, SecretCommit is the commitment of exactly the secret that any t
       of the verifiers' deals reconstruct *)
    Theorem certified_dealer_secret_recoverable ks :
      n < q - 1 -> (forall k, In k ks -> 0 <= k < n) ->
      let s := drun q var D0 (map (fun k => DResp (happ k)) ks) in
      deal_certified (dl_agg q s) = true \/ deal_certified (dl_agg q (fst (dstep q var s DTimeout))) = true ->
      t <= Z.of_nat (length (nodup Z.eq_dec ks)) /\
      forall idxs, NoDup idxs -> (forall k, In k idxs -> 0 <= k < n) -> t <= Z.of_nat (length idxs) ->
        exists sec, recover q (map hdeal idxs) t = Some sec /\ sec = hd zzero f /\
                    (deal_certified (dl_agg q s) = true -> secret_commit q var s = Some (smul sec pbase)).
    Proof.
      intros Q1 R s Hc. destruct (honest_dealer_certifies ks R) as (_ & _ & C1 & C2 & Sc). fold s in C1, C2, Sc.
      split; [destruct Hc as [Hc|Hc]; [apply C1 in Hc; lia|apply C2 in Hc; exact Hc]|].
      intros idxs N Rg Len. exists (hd zzero f). split; [|split; [reflexivity|exact Sc]].
      apply (honest_recovery q Hsid var hH q_prime dealer vs t f g t_range f_len g_len idxs Q1 n_u32 N Rg Len).
    Qed.
  End Run.
End Honest.
