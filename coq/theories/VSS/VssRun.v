(* Runner for the C10 correspondence: evaluates the VSS model on the histories
   the harness drove the real share/vss/{pedersen,rabin} packages through (over
   the transparent dlog group of order 2^61-1) and lists the cases whose
   observations differ.  Not used by any theorem. *)
From Coq Require Import ZArith List Bool.
From Kyber Require Import Algebra.Zq Algebra.Grp Share.ShamirSM VSS.VssSM.
Import ListNotations.
Local Open Scope Z_scope.

Definition Q : Z := 2305843009213693951.
Notation FQ := (zq Q).
Definition fz (x : Z) : FQ := of_Z Q x.

(* injective stand-in for the session-id hash: the harness names every session
   id it meets by the encoding of its preimage (or [0; k] for junk bytes) *)
Definition Hsid_enc (dealer : FQ) (vs cs : list FQ) (t : Z) : sidt :=
  1 :: val dealer :: Z.of_nat (length vs) :: map val vs ++ Z.of_nat (length cs) :: map val cs ++ [t].

Definition var_of (k : Z) : variant := if k =? 0 then Pedersen else Rabin.

(* wire constructors *)
Definition wdeal (sid : sidt) (i v ri rv t : Z) (cs : list Z) : deal Q :=
  mkDeal sid i (fz v) ri (fz rv) t (map fz cs).
Definition wsig (k : Z) (sid : sidt) (i : Z) (b : bool) : sigt Q := SigBy (fz k) sid i b.
Definition wjunk : sigt Q := SigJunk.
Definition wresp (sid : sidt) (i : Z) (b : bool) (s : sigt Q) : response Q := mkResp sid i b s.
Definition wjust (i : Z) (d : option (deal Q)) : justification Q := mkJust i d.
Definition wenc (signer : option Z) (rcpt cdealer : Z) (cvs : list Z) (intact : bool) (d : option (deal Q)) : encdeal Q :=
  mkEnc (option_map fz signer) (fz rcpt) (fz cdealer) (map fz cvs) intact d.

(* observed outputs *)
Inductive xout :=
| XOk | XErr | XPanic
| XResp (sid : sidt) (i : Z) (appr sigvalid : bool)
| XJust (i : Z) (d : option (deal Q)).

Fixpoint zl_eqb (a b : list Z) : bool :=
  match a, b with
  | [], [] => true
  | x :: a', y :: b' => (x =? y) && zl_eqb a' b'
  | _, _ => false
  end.

Definition deal_eqb (a b : deal Q) : bool :=
  sid_eqb (d_sid Q a) (d_sid Q b) && (d_i Q a =? d_i Q b) && zeqb (d_v Q a) (d_v Q b)
  && (d_ri Q a =? d_ri Q b) && zeqb (d_rv Q a) (d_rv Q b) && (d_t Q a =? d_t Q b)
  && points_eqb Q (d_commits Q a) (d_commits Q b).

Definition odeal_eqb (a b : option (deal Q)) : bool :=
  match a, b with
  | None, None => true
  | Some x, Some y => deal_eqb x y
  | _, _ => false
  end.

Fixpoint deals_eqb (a b : list (deal Q)) : bool :=
  match a, b with
  | [], [] => true
  | x :: a', y :: b' => deal_eqb x y && deals_eqb a' b'
  | _, _ => false
  end.

Definition out_eqb (o : out Q) (x : xout) : bool :=
  match o, x with
  | OOk, XOk => true
  | OErr, XErr => true
  | OPanic, XPanic => true
  | OResp r, XResp sid i b sv =>
      sid_eqb (r_sid Q r) sid && (r_idx Q r =? i) && Bool.eqb (r_appr Q r) b && sv
  | OJust j, XJust i d => (j_idx Q j =? i) && odeal_eqb (j_deal Q j) d
  | _, _ => false
  end.

(* an observation: output of the call, then DealCertified() and badDealer *)
Definition obs := (xout * bool * bool)%type.

Inductive case :=
| CVer (id : Z) (var h dealer : Z) (vs : list Z) (idx pub : Z) (steps : list (vop Q * obs))
| CDeal (id : Z) (var h dealer : Z) (vs : list Z) (t : Z) (f g : list Z)
        (commits : list Z) (deals : list (deal Q)) (ovr : list (Z * deal Q)) (steps : list (dop Q * obs))
        (secret_commit : option Z)
| CRec (id : Z) (t : Z) (deals : list (deal Q)) (observed : option Z).

Fixpoint vsteps (var : variant) (h : FQ) (v : vst Q) (steps : list (vop Q * obs)) : bool :=
  match steps with
  | [] => true
  | (o, (x, cert, bad)) :: r =>
      let '(v', out) := vstep Q Hsid_enc var h v o in
      out_eqb out x && Bool.eqb (v_certified Q var v') cert && Bool.eqb (v_bad Q v') bad
      && vsteps var h v' r
  end.

Fixpoint dsteps (var : variant) (h : FQ) (s : dst Q) (steps : list (dop Q * obs)) : bool * dst Q :=
  match steps with
  | [] => (true, s)
  | (o, (x, cert, bad)) :: r =>
      let '(s', out) := dstep Q var s o in
      if out_eqb out x && Bool.eqb (deal_certified Q var (dl_agg Q s')) cert && Bool.eqb (a_bad Q (dl_agg Q s')) bad
      then dsteps var h s' r else (false, s')
  end.

(* deals replaced through the test hook VerifSetDeal (a misbehaving dealer) *)
Fixpoint set_nth {A} (l : list A) (n : nat) (x : A) : list A :=
  match l, n with
  | [], _ => []
  | _ :: r, O => x :: r
  | y :: r, S k => y :: set_nth r k x
  end.
Definition override (s : dst Q) (ovr : list (Z * deal Q)) : dst Q :=
  mkD Q (dl_agg Q s) (fold_left (fun l e => set_nth l (Z.to_nat (fst e)) (snd e)) ovr (dl_deals Q s)) (dl_secret Q s).

Definition oz_eqb (a b : option Z) : bool :=
  match a, b with
  | None, None => true
  | Some x, Some y => x =? y
  | _, _ => false
  end.

Definition check (c : case) : option Z :=
  match c with
  | CVer id var h dealer vs idx pub steps =>
      let v := new_verifier Q (var_of var) idx (fz pub) (fz dealer) (map fz vs) in
      if vsteps (var_of var) (fz h) v steps then None else Some id
  | CDeal id var h dealer vs t f g commits deals ovr steps sc =>
      let s := new_dealer Q Hsid_enc (var_of var) (fz h) (fz dealer) (map fz vs) t (map fz f) (map fz g) in
      if points_eqb Q (a_commits Q (dl_agg Q s)) (map fz commits) && deals_eqb (dl_deals Q s) deals
      then let '(ok, s') := dsteps (var_of var) (fz h) (override s ovr) steps in
           if ok && oz_eqb (option_map (@val Q) (secret_commit Q (var_of var) s')) sc then None else Some id
      else Some id
  | CRec id t deals observed =>
      if oz_eqb (option_map (@val Q) (recover Q deals t)) observed then None else Some id
  end.

Definition mismatches (cs : list case) : list Z :=
  flat_map (fun c => match check c with Some i => [i] | None => [] end) cs.
