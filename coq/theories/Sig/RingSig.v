(* sign/anon/sig.go: (linkable) ring signatures over a prime-order group
   modelled by discrete logarithms.  H1 (an XOF keyed with the message that
   absorbs [scope || tag ||] PG [|| PH] and from which a scalar is picked) and
   the link-base derivation Hb = Point().Pick(XOF(scope)) are Section variables:
   the theorems hold for every choice of these functions. *)
From Coq Require Import ZArith Znumtheory List Bool Lia Ring Field.
From Kyber Require Import Algebra.Zq Algebra.Grp.
Import ListNotations.
Local Open Scope Z_scope.

Section RingModel.
  Variable q : Z.
  Notation F := (zq q).
  Variable plen slen : nat.
  Variable penc : F -> list Z.
  Variable pdec : list Z -> option F.
  Variable senc : F -> list Z.
  Variable sdec : list Z -> option F.
  Variable H1 : list Z -> list Z -> F.   (* message (XOF key) -> absorbed bytes -> scalar *)
  Variable Hb : list Z -> F.             (* scope -> link base point *)

  (* signH1pre: the ring-position invariant prefix *)
  Definition h1pre (scope : option (list Z)) (tag : F) : list Z :=
    match scope with None => [] | Some sc => sc ++ penc tag end.

  (* signH1 *)
  Definition h1 (m pre : list Z) (PG : F) (PH : option F) : F :=
    H1 m (pre ++ penc PG ++ match PH with None => [] | Some P => penc P end).

  Section Chain.
    Variable m : list Z.
    Variable scope : option (list Z).
    Variable hb tag : F.

    Definition link (P : F) : option F :=
      match scope with None => None | Some _ => Some P end.

    (* one ring position: c_{i+1} from c_i, s_i, P_i *)
    Definition step (c : F) (sP : F * F) : F :=
      let '(s, P) := sP in
      h1 m (h1pre scope tag)
         (padd (smul s pbase) (smul c P))
         (link (padd (smul s hb) (smul c tag))).

    Definition chain (c : F) (l : list (F * F)) : F := fold_left step l c.
  End Chain.

  Definition link_base (scope : option (list Z)) : F :=
    match scope with None => zzero | Some sc => Hb sc end.

  (* Sign: [u] and [rs] are the scalars picked from the random stream, in the
     order of the picks (u, then s_i for i = pi+1, ..., pi-1 around the ring) *)
  Definition ring_sign (m : list Z) (L : list F) (scope : option (list Z))
             (pi : nat) (x u : F) (rs : list F) : list Z :=
    let hb := link_base scope in
    let tag := smul x hb in
    let A := firstn pi L in
    let B := skipn (S pi) L in
    let rB := firstn (length B) rs in
    let rA := skipn (length B) rs in
    let cstart := h1 m (h1pre scope tag) (smul u pbase) (link scope (smul u hb)) in
    let c0 := chain m scope hb tag cstart (combine rB B) in
    let cpi := chain m scope hb tag c0 (combine rA A) in
    let spi := zsub u (zmul x cpi) in
    senc c0 ++ concat (map senc (rA ++ [spi] ++ rB)) ++
    match scope with None => [] | Some _ => penc tag end.

  Fixpoint dec_scalars (n : nat) (b : list Z) : option (list F * list Z) :=
    match n with
    | O => Some ([], b)
    | S k =>
      match sdec (firstn slen b) with
      | None => None
      | Some s =>
        match dec_scalars k (skipn slen b) with
        | None => None
        | Some (ss, r) => Some (s :: ss, r)
        end
      end
    end.

  (* Verify: Some tag-bytes (empty when unlinkable) / None = error *)
  Definition ring_verify (m : list Z) (L : list F) (scope : option (list Z))
             (sig : list Z) : option (list Z) :=
    match sdec (firstn slen sig) with
    | None => None
    | Some c0 =>
      match dec_scalars (length L) (skipn slen sig) with
      | None => None
      | Some (ss, rest) =>
        match scope with
        | None =>
          if zeqb (chain m None zzero zzero c0 (combine ss L)) c0 then Some [] else None
        | Some sc =>
          match pdec (firstn plen rest) with
          | None => None
          | Some tag =>
            if zeqb (chain m scope (Hb sc) tag c0 (combine ss L)) c0
            then Some (penc tag) else None
          end
        end
      end
    end.
End RingModel.

Section RingProofs.
  Variable q : Z.
  Hypothesis q_prime : prime q.
  Add Field zqFr : (zq_field q q_prime).
  Notation F := (zq q).
  Variable plen slen : nat.
  Variable penc : F -> list Z.
  Variable pdec : list Z -> option F.
  Variable senc : F -> list Z.
  Variable sdec : list Z -> option F.
  Variable H1 : list Z -> list Z -> F.
  Variable Hb : list Z -> F.

  Hypothesis penc_len : forall P, length (penc P) = plen.
  Hypothesis senc_len : forall s, length (senc s) = slen.
  Hypothesis pdec_enc : forall P, pdec (penc P) = Some P.
  Hypothesis sdec_enc : forall s, sdec (senc s) = Some s.

  Notation h1pre := (h1pre q penc).
  Notation h1 := (h1 q penc H1).
  Notation step := (step q penc H1).
  Notation chain := (chain q penc H1).
  Notation ring_sign := (ring_sign q penc senc H1 Hb).
  Notation ring_verify := (ring_verify q plen slen penc pdec sdec H1 Hb).
  Notation dec_scalars := (dec_scalars q slen sdec).
  Notation link_base := (link_base q Hb).
  Notation link := (link q).

  Lemma firstn_app_len {A} (a b : list A) n : length a = n -> firstn n (a ++ b) = a.
  Proof.
    intros <-. rewrite firstn_app, Nat.sub_diag, firstn_O, app_nil_r. apply firstn_all.
  Qed.
  Lemma skipn_app_len {A} (a b : list A) n : length a = n -> skipn n (a ++ b) = b.
  Proof.
    intros <-. rewrite skipn_app, Nat.sub_diag, skipn_all. reflexivity.
  Qed.

  Lemma penc_inj P P' : penc P = penc P' -> P = P'.
  Proof. intros H. assert (E := pdec_enc P). rewrite H, pdec_enc in E. congruence. Qed.

  Lemma dec_scalars_enc ss : forall rest,
    dec_scalars (length ss) (concat (map senc ss) ++ rest) = Some (ss, rest).
  Proof.
    induction ss as [|s ss IH]; intros rest; cbn [length map concat RingSig.dec_scalars app]; [reflexivity|].
    rewrite <- app_assoc.
    rewrite firstn_app_len, skipn_app_len by apply senc_len.
    rewrite sdec_enc, IH. reflexivity.
  Qed.

  Lemma chain_app m scope hb tag c l1 l2 :
    chain m scope hb tag c (l1 ++ l2) = chain m scope hb tag (chain m scope hb tag c l1) l2.
  Proof. unfold RingSig.chain. apply fold_left_app. Qed.

  Lemma combine_app {A B} (a1 : list A) : forall (b1 : list B) a2 b2, length a1 = length b1 ->
    combine (a1 ++ a2) (b1 ++ b2) = combine a1 b1 ++ combine a2 b2.
  Proof.
    induction a1 as [|x a1 IH]; intros [|y b1] a2 b2 H; try discriminate; cbn; auto.
    f_equal. apply IH. cbn in H. lia.
  Qed.

  Lemma split_nth {A} (l : list A) d : forall pi, (pi < length l)%nat ->
    l = firstn pi l ++ [nth pi l d] ++ skipn (S pi) l.
  Proof.
    induction l as [|y l IH]; intros [|pi] H; cbn in *; try lia; [reflexivity|].
    f_equal. apply IH. lia.
  Qed.

  (* the signer's position closes the ring: s_pi*B + c_pi*(x*B) = u*B, likewise on the link base *)
  Lemma step_close m scope hb x u cpi :
    step m scope hb (smul x hb) cpi (zsub u (zmul x cpi), smul x pbase) =
    h1 m (h1pre scope (smul x hb)) (smul u pbase) (link scope (smul u hb)).
  Proof.
    unfold RingSig.step. f_equal.
    - unfold padd, smul, pbase. ring.
    - unfold link. destruct scope; [|reflexivity]. f_equal. unfold padd, smul. ring.
  Qed.

  (* ---- completeness: every ring size n >= 1, signer position, scope ---- *)
  Theorem ring_complete m L scope pi x u rs :
    (pi < length L)%nat -> nth pi L zzero = smul x pbase ->
    length rs = (length L - 1)%nat ->
    ring_verify m L scope (ring_sign m L scope pi x u rs) =
    Some (match scope with None => [] | Some _ => penc (smul x (link_base scope)) end).
  Proof.
    intros Hpi Hkey Hrs.
    unfold RingSig.ring_sign.
    set (hb := link_base scope). set (tag := smul x hb).
    set (A := firstn pi L). set (B := skipn (S pi) L).
    set (rB := firstn (length B) rs). set (rA := skipn (length B) rs).
    set (cstart := h1 m (h1pre scope tag) (smul u pbase) (link scope (smul u hb))).
    set (c0 := chain m scope hb tag cstart (combine rB B)).
    set (cpi := chain m scope hb tag c0 (combine rA A)).
    set (spi := zsub u (zmul x cpi)).
    assert (HL : L = A ++ [smul x pbase] ++ B).
    { unfold A, B. rewrite <- Hkey. apply split_nth. exact Hpi. }
    assert (HlA : length A = pi) by (unfold A; rewrite firstn_length; lia).
    assert (HlB : length B = (length L - S pi)%nat) by (unfold B; apply skipn_length).
    assert (HlrB : length rB = length B) by (unfold rB; rewrite firstn_length; lia).
    assert (HlrA : length rA = length A) by (unfold rA; rewrite skipn_length; lia).
    assert (Hn : length L = length (rA ++ [spi] ++ rB)).
    { rewrite !app_length. cbn [length]. lia. }
    unfold RingSig.ring_verify.
    rewrite firstn_app_len, skipn_app_len by apply senc_len.
    rewrite sdec_enc. rewrite Hn, dec_scalars_enc.
    assert (Hclose : chain m scope hb tag c0 (combine (rA ++ [spi] ++ rB) L) = c0).
    { rewrite HL at 1.
      rewrite combine_app by auto. rewrite chain_app. fold cpi.
      rewrite combine_app by reflexivity. rewrite chain_app.
      cbn [combine]. unfold RingSig.chain at 2. cbn [fold_left].
      unfold spi, tag. rewrite step_close. reflexivity. }
    destruct scope as [sc|].
    - rewrite firstn_all2 by (rewrite penc_len; lia). rewrite pdec_enc.
      fold hb. fold tag. change (Hb sc) with hb.
      rewrite Hclose. unfold zeqb. rewrite Z.eqb_refl. reflexivity.
    - assert (Eh : hb = zzero) by reflexivity.
      assert (Et : tag = zzero) by (unfold tag; rewrite Eh; unfold smul; ring).
      rewrite Et, Eh in Hclose. rewrite Hclose. unfold zeqb. rewrite Z.eqb_refl. reflexivity.
  Qed.

  (* ---- acceptance is exactly: everything decodes and the hash chain closes ---- *)
  Theorem ring_accept_iff m L scope sig out :
    ring_verify m L scope sig = Some out <->
    exists c0 ss rest,
      sdec (firstn slen sig) = Some c0 /\
      dec_scalars (length L) (skipn slen sig) = Some (ss, rest) /\
      match scope with
      | None => chain m None zzero zzero c0 (combine ss L) = c0 /\ out = []
      | Some sc => exists tag, pdec (firstn plen rest) = Some tag /\
                   chain m scope (Hb sc) tag c0 (combine ss L) = c0 /\ out = penc tag
      end.
  Proof.
    unfold RingSig.ring_verify.
    destruct (sdec (firstn slen sig)) as [c0|].
    2:{ split; [discriminate|]. intros [? [? [? [H _]]]]. discriminate. }
    destruct (dec_scalars (length L) (skipn slen sig)) as [[ss rest]|].
    2:{ split; [discriminate|]. intros [? [? [? [_ [H _]]]]]. discriminate. }
    destruct scope as [sc|].
    - destruct (pdec (firstn plen rest)) as [tag|] eqn:E2.
      2:{ split; [discriminate|]. intros [? [? [? [_ [H [t [H' _]]]]]]]. inversion H; subst. congruence. }
      destruct (zeqb _ c0) eqn:E.
      + apply zeqb_eq in E. split.
        * intros H. inversion H; subst. exists c0, ss, rest. repeat split; auto. exists tag. auto.
        * intros [c [s' [r [H1' [H2' [t [H3 [H4 H5]]]]]]]]. inversion H1'; inversion H2'; subst.
          rewrite E2 in H3; inversion H3; subst. reflexivity.
      + split; [discriminate|].
        intros [c [s' [r [H1' [H2' [t [H3 [H4 H5]]]]]]]]. inversion H1'; inversion H2'; subst.
        rewrite E2 in H3; inversion H3; subst. apply zeqb_eq in H4. congruence.
    - destruct (zeqb _ c0) eqn:E.
      + apply zeqb_eq in E. split.
        * intros H. inversion H; subst. exists c0, ss, rest. repeat split; auto.
        * intros [c [s' [r [H1' [H2' [H3 H4]]]]]]. subst. reflexivity.
      + split; [discriminate|].
        intros [c [s' [r [H1' [H2' [H3 H4]]]]]]. inversion H1'; inversion H2'; subst.
        apply zeqb_eq in H3. congruence.
  Qed.

  (* ---- linkage tags ---- *)
  (* same key, same scope: same tag, whatever the message, ring, position and randomness *)
  Theorem ring_tag_same m m' L L' sc pi pi' x u u' rs rs' t t' :
    (pi < length L)%nat -> nth pi L zzero = smul x pbase -> length rs = (length L - 1)%nat ->
    (pi' < length L')%nat -> nth pi' L' zzero = smul x pbase -> length rs' = (length L' - 1)%nat ->
    ring_verify m L (Some sc) (ring_sign m L (Some sc) pi x u rs) = Some t ->
    ring_verify m' L' (Some sc) (ring_sign m' L' (Some sc) pi' x u' rs') = Some t' ->
    t = t'.
  Proof.
    intros H1' H2' H3 H4 H5 H6.
    rewrite ring_complete by auto. rewrite ring_complete by auto. congruence.
  Qed.

  (* different keys, same scope: different tags (link base is not the identity) *)
  Theorem ring_tag_diff_key m m' L L' sc pi pi' x x' u u' rs rs' t t' :
    (pi < length L)%nat -> nth pi L zzero = smul x pbase -> length rs = (length L - 1)%nat ->
    (pi' < length L')%nat -> nth pi' L' zzero = smul x' pbase -> length rs' = (length L' - 1)%nat ->
    ring_verify m L (Some sc) (ring_sign m L (Some sc) pi x u rs) = Some t ->
    ring_verify m' L' (Some sc) (ring_sign m' L' (Some sc) pi' x' u' rs') = Some t' ->
    x <> x' -> Hb sc <> zzero -> t <> t'.
  Proof.
    intros H1' H2' H3 H4 H5 H6.
    rewrite ring_complete by auto. rewrite ring_complete by auto.
    intros E1 E2 Hx Hb0 Et. subst t'. inversion E1 as [E]. rewrite <- E in E2. inversion E2 as [E'].
    apply penc_inj in E'. cbn [RingSig.link_base] in E'.
    apply Hx.
    assert (Z0 : zmul (zsub x' x) (Hb sc) = zzero).
    { unfold smul in E'. transitivity (zsub (zmul x' (Hb sc)) (zmul x (Hb sc))); [ring|]. rewrite E'. ring. }
    apply (zmul_eq_0 q q_prime) in Z0. destruct Z0 as [Z0|Z0]; [|contradiction].
    transitivity (zadd (zsub x' x) x); [|ring]. rewrite Z0. ring.
  Qed.

  (* same key (not 0), two scopes: the tags coincide only if the two link bases coincide *)
  Theorem ring_tag_diff_scope m m' L L' sc sc' pi pi' x u u' rs rs' t t' :
    (pi < length L)%nat -> nth pi L zzero = smul x pbase -> length rs = (length L - 1)%nat ->
    (pi' < length L')%nat -> nth pi' L' zzero = smul x pbase -> length rs' = (length L' - 1)%nat ->
    ring_verify m L (Some sc) (ring_sign m L (Some sc) pi x u rs) = Some t ->
    ring_verify m' L' (Some sc') (ring_sign m' L' (Some sc') pi' x u' rs') = Some t' ->
    x <> zzero -> Hb sc <> Hb sc' -> t <> t'.
  Proof.
    intros H1' H2' H3 H4 H5 H6.
    rewrite ring_complete by auto. rewrite ring_complete by auto.
    intros E1 E2 Hx Hbne Et. subst t'. inversion E1 as [E]. rewrite <- E in E2. inversion E2 as [E'].
    apply penc_inj in E'. cbn [RingSig.link_base] in E'.
    apply Hbne.
    assert (Z0 : zmul x (zsub (Hb sc') (Hb sc)) = zzero).
    { unfold smul in E'. transitivity (zsub (zmul x (Hb sc')) (zmul x (Hb sc))); [ring|]. rewrite E'. ring. }
    apply (zmul_eq_0 q q_prime) in Z0. destruct Z0 as [Z0|Z0]; [contradiction|].
    transitivity (zadd (zsub (Hb sc') (Hb sc)) (Hb sc)); [rewrite Z0|]; ring.
  Qed.

  (* ---- tampering with a response s_j ---- *)
  Definition h1_collision (m : list Z) : Prop :=
    exists d d', d <> d' /\ H1 m d = H1 m d'.

  Lemma app_inv_len {A} (a a' b b' : list A) : length a = length a' -> a ++ b = a' ++ b' -> a = a' /\ b = b'.
  Proof.
    revert a'. induction a as [|x a IH]; intros [|y a'] Hl H; try discriminate; cbn in *; auto.
    inversion H; subst. destruct (IH a') as [-> ->]; auto.
  Qed.

  (* two chain steps with different PG hash different byte strings *)
  Lemma step_inputs_differ m scope hb tag c c' s s' P P' :
    padd (smul s pbase) (smul c P) <> padd (smul s' pbase) (smul c' P') ->
    step m scope hb tag c (s, P) = step m scope hb tag c' (s', P') -> h1_collision m.
  Proof.
    intros Hne He. unfold RingSig.step, RingSig.h1 in He.
    eexists; eexists; split; [|exact He].
    intros E. apply app_inv_head in E. apply app_inv_len in E; [|rewrite !penc_len; reflexivity].
    destruct E as [E _]. apply penc_inj in E. contradiction.
  Qed.

  (* once the two chains differ they can only re-merge through a collision,
     provided the remaining ring keys are not the identity *)
  Lemma chain_merge m scope hb tag l : forall a a',
    a <> a' -> Forall (fun sP : F * F => snd sP <> zzero) l ->
    chain m scope hb tag a l = chain m scope hb tag a' l -> h1_collision m.
  Proof.
    induction l as [|[s P] l IH]; intros a a' Hne Hl He; cbn in He; [contradiction|].
    inversion Hl as [|? ? HP Hl']; subst. cbn [snd] in HP.
    destruct (zeqb_spec q (step m scope hb tag a (s, P)) (step m scope hb tag a' (s, P))) as [E|E].
    - apply (step_inputs_differ m scope hb tag a a' s s P P); auto.
      intros Hpg. apply Hne.
      assert (Z0 : zmul (zsub a a') P = zzero).
      { unfold padd, smul, pbase in Hpg.
        transitivity (zsub (zadd (zmul s zone) (zmul a P)) (zadd (zmul s zone) (zmul a' P))); [ring|].
        rewrite Hpg. ring. }
      apply (zmul_eq_0 q q_prime) in Z0. destruct Z0 as [Z0|Z0]; [|contradiction].
      transitivity (zadd (zsub a a') a'); [ring|]. rewrite Z0. ring.
    - apply (IH _ _ E Hl'). exact He.
  Qed.

  (* If a signature closes the chain and the same signature with s_j replaced by
     a different value also does, then H1 has an explicit collision: barring a
     hash coincidence, changing any single response invalidates the signature. *)
  Theorem ring_tamper_s_collision m scope hb tag c0 S1 S2 L1 L2 sj sj' Pj :
    length S1 = length L1 ->
    Forall (fun P => P <> zzero) L2 ->
    sj <> sj' ->
    chain m scope hb tag c0 (combine (S1 ++ [sj] ++ S2) (L1 ++ [Pj] ++ L2)) = c0 ->
    chain m scope hb tag c0 (combine (S1 ++ [sj'] ++ S2) (L1 ++ [Pj] ++ L2)) = c0 ->
    h1_collision m.
  Proof.
    intros Hl HL2 Hs E1 E2.
    rewrite combine_app in E1, E2 by auto. rewrite chain_app in E1, E2.
    set (cj := chain m scope hb tag c0 (combine S1 L1)) in *.
    cbn [app combine] in E1, E2. unfold RingSig.chain in E1, E2. cbn [fold_left] in E1, E2.
    fold (chain m scope hb tag (step m scope hb tag cj (sj, Pj)) (combine S2 L2)) in E1.
    fold (chain m scope hb tag (step m scope hb tag cj (sj', Pj)) (combine S2 L2)) in E2.
    destruct (zeqb_spec q (step m scope hb tag cj (sj, Pj)) (step m scope hb tag cj (sj', Pj))) as [E|E].
    - apply (step_inputs_differ m scope hb tag cj cj sj sj' Pj Pj); auto.
      intros Hpg. apply Hs. unfold padd, smul, pbase in Hpg.
      transitivity (zsub (zadd (zmul sj zone) (zmul cj Pj)) (zmul cj Pj)); [ring|].
      rewrite Hpg. ring.
    - apply (chain_merge m scope hb tag (combine S2 L2) _ _ E).
      + clear -HL2. revert S2. induction L2 as [|P L2 IH]; intros [|s S2]; cbn; try constructor.
        * inversion HL2; auto.
        * apply IH. inversion HL2; auto.
      + congruence.
  Qed.

  (* the same for a replaced ring key P_j (the chain value entering position j is
     not 0): accepted only with an exhibited H1 collision *)
  Theorem ring_tamper_key_collision m scope hb tag c0 S1 S2 L1 L2 sj Pj Pj' :
    length S1 = length L1 ->
    Forall (fun P => P <> zzero) L2 ->
    Pj <> Pj' ->
    chain m scope hb tag c0 (combine S1 L1) <> zzero ->
    chain m scope hb tag c0 (combine (S1 ++ [sj] ++ S2) (L1 ++ [Pj] ++ L2)) = c0 ->
    chain m scope hb tag c0 (combine (S1 ++ [sj] ++ S2) (L1 ++ [Pj'] ++ L2)) = c0 ->
    h1_collision m.
  Proof.
    intros Hl HL2 Hs Hc E1 E2.
    rewrite combine_app in E1, E2 by auto. rewrite chain_app in E1, E2.
    set (cj := chain m scope hb tag c0 (combine S1 L1)) in *.
    cbn [app combine] in E1, E2. unfold RingSig.chain in E1, E2. cbn [fold_left] in E1, E2.
    fold (chain m scope hb tag (step m scope hb tag cj (sj, Pj)) (combine S2 L2)) in E1.
    fold (chain m scope hb tag (step m scope hb tag cj (sj, Pj')) (combine S2 L2)) in E2.
    destruct (zeqb_spec q (step m scope hb tag cj (sj, Pj)) (step m scope hb tag cj (sj, Pj'))) as [E|E].
    - apply (step_inputs_differ m scope hb tag cj cj sj sj Pj Pj'); auto.
      intros Hpg. apply Hs. unfold padd, smul, pbase in Hpg.
      assert (Z0 : zmul cj (zsub Pj Pj') = zzero).
      { transitivity (zsub (zadd (zmul sj zone) (zmul cj Pj)) (zadd (zmul sj zone) (zmul cj Pj'))); [ring|].
        rewrite Hpg. ring. }
      apply (zmul_eq_0 q q_prime) in Z0. destruct Z0 as [Z0|Z0]; [contradiction|].
      transitivity (zadd (zsub Pj Pj') Pj'); [ring|]. rewrite Z0. ring.
    - apply (chain_merge m scope hb tag (combine S2 L2) _ _ E).
      + clear -HL2. revert S2. induction L2 as [|P L2 IH]; intros [|s S2]; cbn; try constructor.
        * inversion HL2; auto.
        * apply IH. inversion HL2; auto.
      + congruence.
  Qed.

  (* changed message, tag, scope or C0: the verifier recomputes the whole chain;
     acceptance is by definition the fixed-point equation of [ring_accept_iff].  For a
     ring of size >= 1 the closing value is an H1 output: C0 must equal it *)
  Theorem ring_c0_is_hash m scope hb tag c0 (l : list (F * F)) :
    l <> [] -> chain m scope hb tag c0 l = c0 -> exists d, c0 = H1 m d.
  Proof.
    intros Hne E. destruct (exists_last Hne) as [l' [[s P] ->]].
    rewrite chain_app in E. cbn in E. unfold RingSig.h1 in E.
    eexists. symmetry. exact E.
  Qed.
End RingProofs.
