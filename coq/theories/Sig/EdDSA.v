(* sign/eddsa (RFC 8032 signing, VerifyWithChecks) and the Ed25519 instance of
   sign/schnorr.VerifyWithChecks, over the FULL curve group E(F_p) = Z_L x Z_8:
   a point is (logarithm of its prime-order component, torsion component).
   SHA-512 and the 32-byte point codec are Section variables; what is assumed
   of the codec is listed as hypotheses of the proof Section (all of them are
   facts about the curve, sampled by the correspondence run).  The byte-level
   guards (scalar / point IsCanonical, HasSmallOrder) are the transcriptions of
   Sig/Bytes25519.v, proved there equal to their arithmetic meaning. *)
From Coq Require Import ZArith Znumtheory List Bool Lia Ring.
From Kyber Require Import Algebra.Zq Algebra.Grp Sig.Bytes25519.
Import ListNotations.
Local Open Scope Z_scope.

Notation Lq := L25519.
Notation FL := (zq L25519).

(* ---------------- the curve group ---------------- *)
Definition cpt := (FL * Z)%type.
Definition cwf (P : cpt) : Prop := 0 <= snd P < 8.
Definition cadd (P Q : cpt) : cpt := (zadd (fst P) (fst Q), (snd P + snd Q) mod 8).
Definition cneg (P : cpt) : cpt := (zopp (fst P), (- snd P) mod 8).
(* multiplication by an INTEGER (kyber multiplies by the raw 256-bit scalar) *)
Definition cmul (n : Z) (P : cpt) : cpt := (zmul (of_Z Lq n) (fst P), (n * snd P) mod 8).
Definition cbase : cpt := (zone, 0).
Definition ceqb (P Q : cpt) : bool := zeqb (fst P) (fst Q) && (snd P =? snd Q).
(* order divides 8 *)
Definition csmall (P : cpt) : bool := zeqb (fst P) zzero.

Inductive everdict :=
| EOk | ELen | ESNonCanon | ERNonCanon | ERInvalid | ERSmall
| EPkNonCanon | EPkInvalid | EPkSmall | EEq.

Section EdModel.
  Variable H512 : list Z -> list Z.
  Variable cenc : cpt -> list Z.
  Variable cdec : list Z -> option cpt.

  (* Scalar().SetBytes(digest): little-endian, reduced mod L *)
  Definition hscalar (b : list Z) : Z := le_decode (H512 b) mod Lq.

  (* NewKeyAndSeedWithInput: digest[0] &= 0xf8; digest[31] &= 0x7f; digest[31] |= 0x40;
     the secret scalar is the UNREDUCED integer *)
  Definition clamp (d : list Z) : Z :=
    let b := firstn 32 d in
    le_decode (Z.land (nth 0 b 0) 248 :: firstn 30 (skipn 1 b)
               ++ [Z.lor (Z.land (nth 31 b 0) 127) 64]).

  Definition expand (seed : list Z) : Z * list Z :=
    let d := H512 seed in (clamp d, skipn 32 d).

  Definition eddsa_public (seed : list Z) : cpt := cmul (fst (expand seed)) cbase.

  (* R || S for secret integer a and nonce r *)
  Definition sign_core (a r : Z) (m : list Z) : list Z :=
    let A := cmul a cbase in
    let R := cmul r cbase in
    let h := hscalar (cenc R ++ cenc A ++ m) in
    cenc R ++ le_bytes 32 ((r + h * a) mod Lq).

  (* EdDSA.Sign: no randomness, the nonce is H(prefix || msg) mod L *)
  Definition eddsa_sign (seed m : list Z) : list Z :=
    let '(a, prefix) := expand seed in
    sign_core a (hscalar (prefix ++ m)) m.

  (* schnorr.Sign over edwards25519: private scalar x, picked nonce k *)
  Definition schnorr25519_sign (x k : Z) (m : list Z) : list Z := sign_core x k m.

  (* eddsa.VerifyWithChecks, guards in the order of the code *)
  Definition eddsa_verify (pub m sig : list Z) : everdict :=
    if negb (length sig =? 64)%nat then ELen else
    let Rb := firstn 32 sig in
    let Sb := skipn 32 sig in
    if negb (sc_is_canonical Sb) then ESNonCanon else
    if negb (pt_is_canonical Rb) then ERNonCanon else
    match cdec Rb with
    | None => ERInvalid
    | Some R =>
      if has_small_order (cenc R) then ERSmall else
      if negb (pt_is_canonical pub) then EPkNonCanon else
      match cdec pub with
      | None => EPkInvalid
      | Some A =>
        if has_small_order (cenc A) then EPkSmall else
        let h := hscalar (Rb ++ pub ++ m) in
        if ceqb (cadd R (cmul h A)) (cmul (le_decode Sb) cbase) then EOk else EEq
      end
    end.

  (* schnorr.VerifyWithChecks with g = edwards25519 (the optional interfaces are
     implemented): decode first, then canonicity / small order; the challenge is
     hashed over the re-encoded points *)
  Definition schnorr25519_verify (pub m sig : list Z) : bool :=
    if negb (length sig =? 64)%nat then false else
    let Rb := firstn 32 sig in
    let Sb := skipn 32 sig in
    match cdec Rb with
    | None => false
    | Some R =>
      if negb (pt_is_canonical Rb) then false else
      if has_small_order (cenc R) then false else
      if negb (sc_is_canonical Sb) then false else
      match cdec pub with
      | None => false
      | Some A =>
        if negb (pt_is_canonical pub) then false else
        if has_small_order (cenc A) then false else
        let h := hscalar (cenc R ++ cenc A ++ m) in
        ceqb (cmul (le_decode Sb) cbase) (cadd R (cmul h A))
      end
    end.

  (* model of crypto/ed25519.Verify (Go standard library): decode A permissively,
     require S < L, recompute R' = [S]B - [k]A and compare its canonical encoding
     with the first half of the signature *)
  Variable godec : list Z -> option cpt.
  Definition go_verify (pub m sig : list Z) : bool :=
    (length pub =? 32)%nat && (length sig =? 64)%nat &&
    (Z.land (nth 63 sig 0) 224 =? 0) &&
    match godec pub with
    | None => false
    | Some A =>
      let k := hscalar (firstn 32 sig ++ pub ++ m) in
      let S := le_decode (skipn 32 sig) in
      (S <? Lq) && list_eqb (firstn 32 sig) (cenc (cadd (cmul S cbase) (cneg (cmul k A))))
    end.
End EdModel.

(* ================================================================== *)
Section EdProofs.
  Variable H512 : list Z -> list Z.
  Variable cenc : cpt -> list Z.
  Variable cdec : list Z -> option cpt.
  Variable godec : list Z -> option cpt.

  Hypothesis H512_len : forall x, length (H512 x) = 64%nat.
  Hypothesis H512_bytes : forall x, Forall is_byte (H512 x).
  (* the codec: 32 canonical bytes; decoding inverts encoding; a canonical string
     of a point that is not of small order is THE encoding of that point; the
     five listed y values are exactly those of the 8 torsion points *)
  Hypothesis cenc_len : forall P, length (cenc P) = 32%nat.
  Hypothesis cenc_bytes : forall P, Forall is_byte (cenc P).
  Hypothesis cenc_canon : forall P, pt_is_canonical (cenc P) = true.
  Hypothesis cdec_enc : forall P, cwf P -> cdec (cenc P) = Some P.
  Hypothesis cdec_wf : forall b P, cdec b = Some P -> cwf P.
  Hypothesis cdec_canon_inj : forall b P,
    cdec b = Some P -> pt_is_canonical b = true -> csmall P = false -> b = cenc P.
  Hypothesis small_enc : forall P, cwf P -> has_small_order (cenc P) = csmall P.
  (* Go decodes (at least) what kyber decodes, to the same point *)
  Hypothesis godec_ext : forall b P, cdec b = Some P -> godec b = Some P.

  Add Ring zqLR : (zq_ring Lq).

  Notation hscalar := (hscalar H512).
  Notation clamp := clamp.
  Notation expand := (expand H512).
  Notation sign_core := (sign_core H512 cenc).
  Notation eddsa_sign := (eddsa_sign H512 cenc).
  Notation eddsa_verify := (eddsa_verify H512 cenc cdec).
  Notation schnorr25519_verify := (schnorr25519_verify H512 cenc cdec).
  Notation go_verify := (go_verify H512 cenc godec).

  Lemma L_pos : 0 < Lq. Proof. reflexivity. Qed.

  (* ---------- group facts ---------- *)
  Lemma ceqb_eq P Q : ceqb P Q = true <-> P = Q.
  Proof.
    destruct P as [a t], Q as [b u]. unfold ceqb. cbn [fst snd].
    rewrite andb_true_iff, zeqb_eq, Z.eqb_eq. split.
    - intros [-> ->]. reflexivity.
    - intros E. inversion E. auto.
  Qed.

  Lemma of_Z_mod x : of_Z Lq (x mod Lq) = of_Z Lq x.
  Proof. apply zq_eq. rewrite !val_of_Z. apply Zmod_mod. Qed.
  Lemma of_Z_add x y : of_Z Lq (x + y) = zadd (of_Z Lq x) (of_Z Lq y).
  Proof. apply zq_eq. unfold zadd. rewrite !val_of_Z. apply Zplus_mod. Qed.
  Lemma of_Z_mul x y : of_Z Lq (x * y) = zmul (of_Z Lq x) (of_Z Lq y).
  Proof. apply zq_eq. unfold zmul. rewrite !val_of_Z. apply Zmult_mod. Qed.
  Lemma of_Z_zero_iff x : of_Z Lq x = zzero <-> x mod Lq = 0.
  Proof.
    rewrite zq_eq_iff. unfold zzero. rewrite !val_of_Z. rewrite Z.mod_0_l by (pose proof L_pos; lia).
    reflexivity.
  Qed.

  Lemma cmul_base_wf n : cwf (cmul n cbase).
  Proof. unfold cwf, cmul, cbase. cbn [snd]. rewrite Z.mul_0_r. cbn. lia. Qed.

  Lemma cmul_base n : cmul n cbase = (of_Z Lq n, 0).
  Proof.
    unfold cmul, cbase. cbn [fst snd]. rewrite Z.mul_0_r. f_equal. ring.
  Qed.

  (* the verification equation, componentwise *)
  Lemma eq_components R A h S : cwf R ->
    (cadd R (cmul h A) = cmul S cbase <->
     of_Z Lq S = zadd (fst R) (zmul (of_Z Lq h) (fst A)) /\ (snd R + h * snd A) mod 8 = 0).
  Proof.
    intros HR. rewrite cmul_base. unfold cadd, cmul. cbn [fst snd].
    rewrite Zplus_mod_idemp_r. split.
    - intros E. apply pair_equal_spec in E. destruct E as [E1 E2]. rewrite E2. split; auto.
    - intros [E1 E2]. rewrite E1, E2. reflexivity.
  Qed.

  (* ---------- clamping ---------- *)
  Lemma land248 a : is_byte a -> Z.land a 248 mod 8 = 0 /\ 0 <= Z.land a 248 < 256.
  Proof.
    intros Ha.
    assert (H := sweep1 (fun a => (Z.land a 248 mod 8 =? 0) && (0 <=? Z.land a 248) && (Z.land a 248 <? 256))).
    cbv beta in H. specialize (H ltac:(vm_compute; reflexivity) a Ha). lia.
  Qed.
  Lemma lor64 a : is_byte a -> 64 <= Z.lor (Z.land a 127) 64 < 128.
  Proof.
    intros Ha.
    assert (H := sweep1 (fun a => (64 <=? Z.lor (Z.land a 127) 64) && (Z.lor (Z.land a 127) 64 <? 128))).
    cbv beta in H. specialize (H ltac:(vm_compute; reflexivity) a Ha). lia.
  Qed.

  Lemma Forall_firstn {A} (P : A -> Prop) n l : Forall P l -> Forall P (firstn n l).
  Proof. intros H. apply Forall_forall. intros x Hx. apply firstn_In in Hx. rewrite Forall_forall in H. auto. Qed.
  Lemma Forall_skipn {A} (P : A -> Prop) n : forall l, Forall P l -> Forall P (skipn n l).
  Proof. induction n; intros [|x l] H; cbn; auto. apply IHn. inversion H; auto. Qed.

  (* the clamped secret: a multiple of 8 with bit 254 set and bit 255 clear *)
  Theorem clamp_spec d : (32 <= length d)%nat -> Forall is_byte d ->
    clamp d mod 8 = 0 /\ 2 ^ 254 <= clamp d < 2 ^ 255.
  Proof.
    intros Hl Hd. unfold clamp.
    set (b := firstn 32 d).
    assert (Hb : Forall is_byte b) by (apply Forall_firstn; auto).
    assert (Hbl : length b = 32%nat) by (unfold b; rewrite firstn_length; lia).
    assert (H0 : is_byte (nth 0 b 0)) by (rewrite Forall_forall in Hb; apply Hb, nth_In; lia).
    assert (H31 : is_byte (nth 31 b 0)) by (rewrite Forall_forall in Hb; apply Hb, nth_In; lia).
    set (mid := firstn 30 (skipn 1 b)).
    assert (Hm : Forall is_byte mid) by (apply Forall_firstn, Forall_skipn; auto).
    assert (Hml : length mid = 30%nat) by (unfold mid; rewrite firstn_length, skipn_length; lia).
    cbn [le_decode]. rewrite le_decode_app, Hml. cbn [le_decode].
    change (Z.of_nat 30) with 30.
    pose proof (le_decode_range mid Hm) as R. rewrite Hml in R. change (Z.of_nat 30) with 30 in R.
    destruct (land248 _ H0) as [A1 A2]. pose proof (lor64 _ H31) as A3.
    set (x0 := Z.land (nth 0 b 0) 248) in *. set (x31 := Z.lor (Z.land (nth 31 b 0) 127) 64) in *.
    set (v := le_decode mid) in *.
    change (256 ^ 30) with 1766847064778384329583297500742918515827483896875618958121606201292619776 in *.
    change (2 ^ 254) with 28948022309329048855892746252171976963317496166410141009864396001978282409984.
    change (2 ^ 255) with 57896044618658097711785492504343953926634992332820282019728792003956564819968.
    split; [|lia].
    replace (x0 + 256 * (v + 1766847064778384329583297500742918515827483896875618958121606201292619776 * (x31 + 256 * 0)))
      with (x0 + (32 * (v + 1766847064778384329583297500742918515827483896875618958121606201292619776 * x31)) * 8) by ring.
    rewrite Z.mod_add by lia. exact A1.
  Qed.

  (* ... hence never 0 mod L: the public key is never of small order *)
  Lemma clamped_nonzero a : a mod 8 = 0 -> 2 ^ 254 <= a < 2 ^ 255 -> a mod Lq <> 0.
  Proof.
    intros H8 Hr Hz.
    assert (E : a = Lq * (a / Lq)) by (pose proof (Z.div_mod a Lq ltac:(unfold L25519; lia)); lia).
    set (k := a / Lq) in *.
    unfold L25519 in *.
    change (2 ^ 252) with 7237005577332262213973186563042994240829374041602535252466099000494570602496 in *.
    change (2 ^ 254) with 28948022309329048855892746252171976963317496166410141009864396001978282409984 in *.
    change (2 ^ 255) with 57896044618658097711785492504343953926634992332820282019728792003956564819968 in *.
    assert (4 <= k <= 7) by nia.
    assert (Hk : k = 4 \/ k = 5 \/ k = 6 \/ k = 7) by lia.
    destruct Hk as [-> | [-> | [-> | ->]]]; rewrite E in H8; vm_compute in H8; discriminate.
  Qed.

  (* ---------- completeness ---------- *)
  Lemma firstn_app_len {A} (a b : list A) n : length a = n -> firstn n (a ++ b) = a.
  Proof.
    intros <-. rewrite firstn_app, Nat.sub_diag, firstn_O, app_nil_r. apply firstn_all.
  Qed.
  Lemma skipn_app_len {A} (a b : list A) n : length a = n -> skipn n (a ++ b) = b.
  Proof.
    intros <-. rewrite skipn_app, Nat.sub_diag, skipn_all. reflexivity.
  Qed.

  Lemma small_of_mul n : csmall (cmul n cbase) = (n mod Lq =? 0).
  Proof.
    rewrite cmul_base. unfold csmall, zeqb, zzero. cbn [fst]. rewrite !val_of_Z.
    rewrite Z.mod_0_l by (pose proof L_pos; lia). reflexivity.
  Qed.

  Lemma L_lt_256_32 : Lq < 256 ^ 32. Proof. reflexivity. Qed.

  (* R || S built from secret integer a and nonce r verifies under a*B, provided
     neither a nor r is 0 mod L (a nonce H(..) = 0 mod L, probability 2^-252,
     gives R = O which the small-order guard rejects) *)
  Theorem core_complete a r m :
    a mod Lq <> 0 -> r mod Lq <> 0 ->
    eddsa_verify (cenc (cmul a cbase)) m (sign_core a r m) = EOk.
  Proof.
    intros Ha Hr. unfold EdDSA.sign_core, EdDSA.eddsa_verify.
    set (A := cmul a cbase). set (R := cmul r cbase).
    set (h := hscalar (cenc R ++ cenc A ++ m)).
    set (S := (r + h * a) mod Lq).
    assert (HS : 0 <= S < Lq) by (apply Z.mod_pos_bound; reflexivity).
    rewrite app_length, cenc_len, le_bytes_length. cbn [Nat.add Nat.eqb negb].
    rewrite firstn_app_len, skipn_app_len by apply cenc_len.
    rewrite sc_is_canonical_spec by apply le_bytes_bytes.
    rewrite le_bytes_length, le_decode_bytes by (pose proof L_lt_256_32; change (Z.of_nat 32) with 32; lia).
    replace (S <? Lq) with true by (symmetry; apply Z.ltb_lt; lia). cbn [Nat.eqb andb negb].
    rewrite cenc_canon. cbn [negb].
    rewrite cdec_enc by apply cmul_base_wf.
    rewrite small_enc by apply cmul_base_wf. unfold R at 1. rewrite small_of_mul.
    replace (r mod Lq =? 0) with false by (symmetry; apply Z.eqb_neq; auto).
    rewrite cenc_canon. cbn [negb].
    rewrite cdec_enc by apply cmul_base_wf.
    rewrite small_enc by apply cmul_base_wf. unfold A at 1. rewrite small_of_mul.
    replace (a mod Lq =? 0) with false by (symmetry; apply Z.eqb_neq; auto).
    fold h.
    replace (ceqb _ _) with true; [reflexivity|].
    symmetry. apply ceqb_eq. apply eq_components; [apply cmul_base_wf|].
    unfold R, A. rewrite !cmul_base. cbn [fst snd]. split.
    - unfold S. rewrite of_Z_mod, of_Z_add, of_Z_mul. reflexivity.
    - rewrite Z.mul_0_r. reflexivity.
  Qed.

  Theorem eddsa_complete seed m :
    hscalar (snd (expand seed) ++ m) <> 0 ->         (* nonce not 0 mod L *)
    eddsa_verify (cenc (eddsa_public H512 seed)) m (eddsa_sign seed m) = EOk.
  Proof.
    intros Hr. unfold EdDSA.eddsa_sign, eddsa_public. unfold EdDSA.expand in *.
    cbv beta iota zeta in *. cbn [fst snd] in *.
    apply core_complete.
    - destruct (clamp_spec (H512 seed)) as [C1 C2].
      + rewrite H512_len. lia.
      + apply H512_bytes.
      + apply clamped_nonzero; auto.
    - unfold EdDSA.hscalar in *. rewrite Zmod_mod. exact Hr.
  Qed.

  (* EdDSA signing is a function of (seed, message) and the hash alone: two
     signers that agree on SHA-512 produce the same bytes (there is no
     randomness argument in [eddsa_sign], unlike [schnorr25519_sign]) *)
  Theorem eddsa_deterministic (H' : list Z -> list Z) seed m :
    (forall x, H' x = H512 x) ->
    EdDSA.eddsa_sign H' cenc seed m = eddsa_sign seed m.
  Proof.
    intros HE. unfold EdDSA.eddsa_sign, EdDSA.expand, EdDSA.sign_core, EdDSA.hscalar.
    rewrite !HE. reflexivity.
  Qed.

  (* ---------- acceptance ---------- *)
  Theorem eddsa_accept_iff pub m sig :
    eddsa_verify pub m sig = EOk <->
    length sig = 64%nat /\
    sc_is_canonical (skipn 32 sig) = true /\
    pt_is_canonical (firstn 32 sig) = true /\
    pt_is_canonical pub = true /\
    exists R A, cdec (firstn 32 sig) = Some R /\ cdec pub = Some A /\
      has_small_order (cenc R) = false /\ has_small_order (cenc A) = false /\
      cadd R (cmul (hscalar (firstn 32 sig ++ pub ++ m)) A) = cmul (le_decode (skipn 32 sig)) cbase.
  Proof.
    unfold EdDSA.eddsa_verify.
    destruct (length sig =? 64)%nat eqn:El; cbn [negb].
    2:{ apply Nat.eqb_neq in El. split; [discriminate|]. intros [H _]. contradiction. }
    apply Nat.eqb_eq in El.
    destruct (sc_is_canonical (skipn 32 sig)) eqn:ES; cbn [negb].
    2:{ split; [discriminate|]. intros [_ [H _]]. discriminate. }
    destruct (pt_is_canonical (firstn 32 sig)) eqn:ER; cbn [negb].
    2:{ split; [discriminate|]. intros [_ [_ [H _]]]. discriminate. }
    destruct (cdec (firstn 32 sig)) as [R|] eqn:DR.
    2:{ split; [discriminate|]. intros [_ [_ [_ [_ [R [A [H _]]]]]]]. discriminate. }
    destruct (has_small_order (cenc R)) eqn:SR.
    { split; [discriminate|]. intros [_ [_ [_ [_ [R' [A [H [_ [H' _]]]]]]]]]. inversion H; subst. congruence. }
    destruct (pt_is_canonical pub) eqn:EP; cbn [negb].
    2:{ split; [discriminate|]. intros [_ [_ [_ [H _]]]]. discriminate. }
    destruct (cdec pub) as [A|] eqn:DA.
    2:{ split; [discriminate|]. intros [_ [_ [_ [_ [R' [A [_ [H _]]]]]]]]. discriminate. }
    destruct (has_small_order (cenc A)) eqn:SA.
    { split; [discriminate|]. intros [_ [_ [_ [_ [R' [A' [_ [H [_ [H' _]]]]]]]]]]. inversion H; subst. congruence. }
    destruct (ceqb _ _) eqn:E.
    - apply ceqb_eq in E. split; [|reflexivity]. intros _. repeat split; auto. exists R, A. repeat split; auto.
    - split; [discriminate|]. intros [_ [_ [_ [_ [R' [A' [H1 [H2 [_ [_ H3]]]]]]]]]].
      inversion H1; inversion H2; subst. apply ceqb_eq in H3. congruence.
  Qed.

  (* what acceptance implies, in arithmetic terms: canonical S, R, key; neither R
     nor the key of small order; the equation holds in both components *)
  Theorem eddsa_accept_guards pub m sig :
    Forall is_byte sig -> Forall is_byte pub ->
    eddsa_verify pub m sig = EOk ->
    le_decode (skipn 32 sig) < Lq /\ y_of (firstn 32 sig) < P25519 /\
    length pub = 32%nat /\ y_of pub < P25519 /\
    exists R A, cdec (firstn 32 sig) = Some R /\ cdec pub = Some A /\
      fst R <> zzero /\ fst A <> zzero /\
      let h := hscalar (firstn 32 sig ++ pub ++ m) in
      of_Z Lq (le_decode (skipn 32 sig)) = zadd (fst R) (zmul (of_Z Lq h) (fst A)) /\
      (snd R + h * snd A) mod 8 = 0.
  Proof.
    intros Bs Bp H. apply eddsa_accept_iff in H.
    destruct H as [Hl [HS [HR [HP [R [A [DR [DA [SR [SA E]]]]]]]]]].
    rewrite sc_is_canonical_spec in HS by (apply Forall_skipn; auto).
    rewrite pt_is_canonical_spec in HR by (apply Forall_firstn; auto).
    rewrite pt_is_canonical_spec in HP by auto.
    apply andb_true_iff in HS, HR, HP.
    destruct HS as [_ HS], HR as [_ HR], HP as [HPl HP].
    apply Z.ltb_lt in HS, HR, HP. apply Nat.eqb_eq in HPl.
    repeat split; auto.
    exists R, A. pose proof (cdec_wf _ _ DR) as WR. pose proof (cdec_wf _ _ DA) as WA.
    rewrite small_enc in SR, SA by auto.
    repeat split; auto.
    - intros Z0. unfold csmall in SR. rewrite Z0 in SR. unfold zeqb in SR. rewrite Z.eqb_refl in SR. discriminate.
    - intros Z0. unfold csmall in SA. rewrite Z0 in SA. unfold zeqb in SA. rewrite Z.eqb_refl in SA. discriminate.
    - apply (eq_components R A _ _ WR) in E. tauto.
    - apply (eq_components R A _ _ WR) in E. tauto.
  Qed.

  (* each guard on its own: non-canonical S (S >= L, e.g. S + L), non-canonical
     y of R or of the key (y >= p), small-order R or key are rejected whatever
     the rest of the input is *)
  Theorem eddsa_noncanonical_S_rejected pub m sig :
    Forall is_byte sig -> Lq <= le_decode (skipn 32 sig) -> eddsa_verify pub m sig <> EOk.
  Proof.
    intros Bs HS H. apply eddsa_accept_iff in H. destruct H as [_ [C _]].
    rewrite sc_is_canonical_spec in C by (apply Forall_skipn; auto).
    apply andb_true_iff in C. destruct C as [_ C]. apply Z.ltb_lt in C. lia.
  Qed.

  Theorem eddsa_noncanonical_R_rejected pub m sig :
    Forall is_byte sig -> P25519 <= y_of (firstn 32 sig) -> eddsa_verify pub m sig <> EOk.
  Proof.
    intros Bs HS H. apply eddsa_accept_iff in H. destruct H as [_ [_ [C _]]].
    rewrite pt_is_canonical_spec in C by (apply Forall_firstn; auto).
    apply andb_true_iff in C. destruct C as [_ C]. apply Z.ltb_lt in C. lia.
  Qed.

  Theorem eddsa_noncanonical_key_rejected pub m sig :
    Forall is_byte pub -> P25519 <= y_of pub \/ length pub <> 32%nat -> eddsa_verify pub m sig <> EOk.
  Proof.
    intros Bs HS H. apply eddsa_accept_iff in H. destruct H as [_ [_ [_ [C _]]]].
    rewrite pt_is_canonical_spec in C by auto.
    apply andb_true_iff in C. destruct C as [C1 C]. apply Z.ltb_lt in C. apply Nat.eqb_eq in C1.
    destruct HS; [lia|contradiction].
  Qed.

  Theorem eddsa_small_order_rejected pub m sig :
    (forall R, cdec (firstn 32 sig) = Some R -> fst R = zzero) \/
    (forall A, cdec pub = Some A -> fst A = zzero) ->
    eddsa_verify pub m sig <> EOk.
  Proof.
    intros Hs H. apply eddsa_accept_iff in H.
    destruct H as [_ [_ [_ [_ [R [A [DR [DA [SR [SA _]]]]]]]]]].
    rewrite small_enc in SR, SA by (eapply cdec_wf; eauto).
    unfold csmall, zeqb in SR, SA.
    destruct Hs as [Hs|Hs].
    - rewrite (Hs R DR) in SR. rewrite Z.eqb_refl in SR. discriminate.
    - rewrite (Hs A DA) in SA. rewrite Z.eqb_refl in SA. discriminate.
  Qed.

  (* for a key in the prime-order subgroup (every honestly generated key), an R
     with ANY torsion component (R + T, T one of the 7 non-trivial torsion
     points) is rejected, unconditionally *)
  Theorem eddsa_torsion_R_rejected pub m sig R A :
    cdec (firstn 32 sig) = Some R -> cdec pub = Some A ->
    snd A = 0 -> snd R <> 0 -> eddsa_verify pub m sig <> EOk.
  Proof.
    intros DR DA HA HR H. apply eddsa_accept_iff in H.
    destruct H as [_ [_ [_ [_ [R' [A' [DR' [DA' [_ [_ E]]]]]]]]]].
    rewrite DR in DR'. rewrite DA in DA'. inversion DR'; inversion DA'; subst R' A'.
    pose proof (cdec_wf _ _ DR) as WR.
    apply (eq_components R A _ _ WR) in E. destruct E as [_ E].
    rewrite HA, Z.mul_0_r, Z.add_0_r in E. unfold cwf in WR.
    rewrite Z.mod_small in E by lia. contradiction.
  Qed.

  (* for given R, key and message exactly one S (as an integer below L, hence as
     a byte string) verifies *)
  Theorem eddsa_S_unique pub m sig sig' :
    Forall is_byte sig -> Forall is_byte sig' ->
    eddsa_verify pub m sig = EOk -> eddsa_verify pub m sig' = EOk ->
    firstn 32 sig = firstn 32 sig' -> sig = sig'.
  Proof.
    intros B B' H H' ER.
    apply eddsa_accept_iff in H, H'.
    destruct H as [Hl [HS [_ [_ [R [A [DR [DA [_ [_ E]]]]]]]]]].
    destruct H' as [Hl' [HS' [_ [_ [R' [A' [DR' [DA' [_ [_ E']]]]]]]]]].
    rewrite <- ER in DR', E'. rewrite DR in DR'. rewrite DA in DA'. inversion DR'; inversion DA'; subst R' A'.
    rewrite E in E'. rewrite !cmul_base in E'. apply pair_equal_spec in E'. destruct E' as [E1 _].
    rewrite <- (firstn_skipn 32 sig), <- (firstn_skipn 32 sig'). f_equal; auto.
    apply sc_canonical_unique; auto using Forall_skipn.
    apply zq_eq_iff in E1. rewrite !val_of_Z in E1. exact E1.
  Qed.

  (* no second accepted encoding: two accepted signatures whose R halves decode
     to the same point and whose S halves are congruent mod L are byte-identical *)
  Theorem eddsa_no_second_encoding pub m sig sig' R :
    Forall is_byte sig -> Forall is_byte sig' ->
    eddsa_verify pub m sig = EOk -> eddsa_verify pub m sig' = EOk ->
    cdec (firstn 32 sig) = Some R -> cdec (firstn 32 sig') = Some R ->
    le_decode (skipn 32 sig) mod Lq = le_decode (skipn 32 sig') mod Lq ->
    sig = sig'.
  Proof.
    intros B B' H H' DR DR' ES.
    apply eddsa_accept_iff in H, H'.
    destruct H as [Hl [HS [HR [_ [R1 [A [DR1 [DA [SR _]]]]]]]]].
    destruct H' as [Hl' [HS' [HR' [_ [R2 [A' [DR2 [DA' [SR' _]]]]]]]]].
    rewrite DR in DR1. rewrite DR' in DR2. inversion DR1; inversion DR2; subst R1 R2.
    pose proof (cdec_wf _ _ DR) as WR. rewrite small_enc in SR by auto.
    rewrite <- (firstn_skipn 32 sig), <- (firstn_skipn 32 sig'). f_equal.
    - rewrite (cdec_canon_inj _ _ DR HR SR), (cdec_canon_inj _ _ DR' HR' SR). reflexivity.
    - apply sc_canonical_unique; auto using Forall_skipn.
  Qed.


  (* the signature is determined by its commitment POINT: two accepted signatures
     for the same key and message whose R halves decode to the same point are
     byte-identical (so a different accepted signature needs a different R) *)
  Theorem eddsa_same_R_same_sig pub m sig sig' R :
    Forall is_byte sig -> Forall is_byte sig' ->
    eddsa_verify pub m sig = EOk -> eddsa_verify pub m sig' = EOk ->
    cdec (firstn 32 sig) = Some R -> cdec (firstn 32 sig') = Some R ->
    sig = sig'.
  Proof.
    intros B B' H H' DR DR'.
    assert (H0 := H). assert (H0' := H').
    apply eddsa_accept_iff in H0, H0'.
    destruct H0 as [_ [_ [HR [_ [R1 [A [DR1 [_ [SR _]]]]]]]]].
    destruct H0' as [_ [_ [HR' [_ [R2 [A' [DR2 [_ [SR' _]]]]]]]]].
    rewrite DR in DR1. rewrite DR' in DR2. inversion DR1; inversion DR2; subst R1 R2.
    pose proof (cdec_wf _ _ DR) as WR. rewrite small_enc in SR by auto.
    apply (eddsa_S_unique pub m); auto.
    rewrite (cdec_canon_inj _ _ DR HR SR), (cdec_canon_inj _ _ DR' HR' SR). reflexivity.
  Qed.

  (* a changed key (another point A') is accepted iff the explicit relation between
     the two hash values holds *)
  Theorem eddsa_tamper_key pub pub' m sig R A A' :
    eddsa_verify pub m sig = EOk ->
    cdec (firstn 32 sig) = Some R -> cdec pub = Some A -> cdec pub' = Some A' ->
    eddsa_verify pub' m sig = EOk ->
    let h := hscalar (firstn 32 sig ++ pub ++ m) in
    let h' := hscalar (firstn 32 sig ++ pub' ++ m) in
    zmul (of_Z Lq h') (fst A') = zmul (of_Z Lq h) (fst A) /\
    (snd R + h' * snd A') mod 8 = 0.
  Proof.
    intros H DR DA DA' H'. cbv zeta.
    pose proof (cdec_wf _ _ DR) as WR.
    apply eddsa_accept_iff in H, H'.
    destruct H as [_ [_ [_ [_ [R1 [A1 [DR1 [DA1 [_ [_ E]]]]]]]]]].
    destruct H' as [_ [_ [_ [_ [R2 [A2 [DR2 [DA2 [_ [_ E']]]]]]]]]].
    rewrite DR in DR1, DR2. rewrite DA in DA1. rewrite DA' in DA2.
    inversion DR1; inversion DR2; inversion DA1; inversion DA2; subst R1 R2 A1 A2.
    apply (eq_components R A _ _ WR) in E. apply (eq_components R A' _ _ WR) in E'.
    destruct E as [E1 _], E' as [E1' E2']. split; auto.
    rewrite E1 in E1'.
    transitivity (zsub (zadd (fst R) (zmul (of_Z Lq (hscalar (firstn 32 sig ++ pub' ++ m))) (fst A'))) (fst R)); [ring|].
    rewrite <- E1'. ring.
  Qed.

  (* and the key has a single accepted encoding as well *)
  Theorem eddsa_key_encoding_unique pub pub' m m' sig sig' A :
    eddsa_verify pub m sig = EOk -> eddsa_verify pub' m' sig' = EOk ->
    cdec pub = Some A -> cdec pub' = Some A -> pub = pub'.
  Proof.
    intros H H' DA DA'.
    apply eddsa_accept_iff in H, H'.
    destruct H as [_ [_ [_ [HP [R1 [A1 [_ [DA1 [_ [SA _]]]]]]]]]].
    destruct H' as [_ [_ [_ [HP' [R2 [A2 [_ [DA2 [_ [SA' _]]]]]]]]]].
    rewrite DA in DA1. inversion DA1; subst A1.
    pose proof (cdec_wf _ _ DA) as WA. rewrite small_enc in SA by auto.
    rewrite (cdec_canon_inj _ _ DA HP SA), (cdec_canon_inj _ _ DA' HP' SA). reflexivity.
  Qed.

  (* changed message / key: accepted iff the explicit relation between the two
     hash values holds (in particular: never when the challenge changes and the
     key is as it should be) *)
  Theorem eddsa_tamper_m pub m m' sig R A :
    eddsa_verify pub m sig = EOk ->
    cdec (firstn 32 sig) = Some R -> cdec pub = Some A ->
    (eddsa_verify pub m' sig = EOk <->
     let h := hscalar (firstn 32 sig ++ pub ++ m) in
     let h' := hscalar (firstn 32 sig ++ pub ++ m') in
     zmul (of_Z Lq h') (fst A) = zmul (of_Z Lq h) (fst A) /\
     (snd R + h' * snd A) mod 8 = 0).
  Proof.
    intros H DR DA. cbv zeta.
    pose proof (cdec_wf _ _ DR) as WR.
    rewrite eddsa_accept_iff. apply eddsa_accept_iff in H.
    destruct H as [Hl [HS [HR [HP [R1 [A1 [DR1 [DA1 [SR [SA E]]]]]]]]]].
    rewrite DR in DR1. rewrite DA in DA1. inversion DR1; inversion DA1; subst R1 A1.
    apply (eq_components R A _ _ WR) in E. destruct E as [E1 E2].
    split.
    - intros [_ [_ [_ [_ [R2 [A2 [DR2 [DA2 [_ [_ E']]]]]]]]]].
      rewrite DR in DR2. rewrite DA in DA2. inversion DR2; inversion DA2; subst R2 A2.
      apply (eq_components R A _ _ WR) in E'. destruct E' as [E1' E2']. split; auto.
      rewrite E1 in E1'.
      transitivity (zsub (zadd (fst R) (zmul (of_Z Lq (hscalar (firstn 32 sig ++ pub ++ m'))) (fst A))) (fst R)); [ring|].
      rewrite <- E1'. ring.
    - intros [E1' E2']. repeat split; auto. exists R, A. repeat split; auto.
      apply (eq_components R A _ _ WR). split; auto. rewrite E1', E1. reflexivity.
  Qed.

  (* ---------- the two verifiers of kyber agree on Ed25519 ---------- *)
  Theorem schnorr25519_eddsa_agree pub m sig :
    schnorr25519_verify pub m sig = true <-> eddsa_verify pub m sig = EOk.
  Proof.
    rewrite eddsa_accept_iff. unfold EdDSA.schnorr25519_verify.
    destruct (length sig =? 64)%nat eqn:El; cbn [negb].
    2:{ apply Nat.eqb_neq in El. split; [discriminate|]. intros [H _]. contradiction. }
    apply Nat.eqb_eq in El.
    destruct (cdec (firstn 32 sig)) as [R|] eqn:DR.
    2:{ split; [discriminate|]. intros [_ [_ [_ [_ [R [A [H _]]]]]]]. discriminate. }
    destruct (pt_is_canonical (firstn 32 sig)) eqn:ER; cbn [negb].
    2:{ split; [discriminate|]. intros [_ [_ [H _]]]. discriminate. }
    destruct (has_small_order (cenc R)) eqn:SR.
    { split; [discriminate|]. intros [_ [_ [_ [_ [R' [A [H [_ [H' _]]]]]]]]]. inversion H; subst. congruence. }
    destruct (sc_is_canonical (skipn 32 sig)) eqn:ES; cbn [negb].
    2:{ split; [discriminate|]. intros [_ [H _]]. discriminate. }
    destruct (cdec pub) as [A|] eqn:DA.
    2:{ split; [discriminate|]. intros [_ [_ [_ [_ [R' [A [_ [H _]]]]]]]]. discriminate. }
    destruct (pt_is_canonical pub) eqn:EP; cbn [negb].
    2:{ split; [discriminate|]. intros [_ [_ [_ [H _]]]]. discriminate. }
    destruct (has_small_order (cenc A)) eqn:SA.
    { split; [discriminate|]. intros [_ [_ [_ [_ [R' [A' [_ [H [_ [H' _]]]]]]]]]]. inversion H; subst. congruence. }
    (* the re-encoded points are the received strings *)
    pose proof (cdec_wf _ _ DR) as WR. pose proof (cdec_wf _ _ DA) as WA.
    assert (SR' := SR). assert (SA' := SA). rewrite small_enc in SR', SA' by auto.
    rewrite <- (cdec_canon_inj _ _ DR ER SR'), <- (cdec_canon_inj _ _ DA EP SA').
    rewrite ceqb_eq. split.
    - intros E. repeat split; auto. exists R, A. repeat split; auto.
    - intros [_ [_ [_ [_ [R' [A' [H1 [H2 [_ [_ H3]]]]]]]]]]. inversion H1; inversion H2; subst. auto.
  Qed.

  (* ---------- inclusion in crypto/ed25519 (against the MODEL of Go's verifier) ---------- *)
  Lemma land224 b : is_byte b -> b < 32 -> Z.land b 224 = 0.
  Proof.
    intros Hb Hlt.
    assert (H := sweep1 (fun b => negb (b <? 32) || (Z.land b 224 =? 0))). cbv beta in H.
    specialize (H ltac:(vm_compute; reflexivity) b Hb).
    apply orb_true_iff in H. destruct H as [H|H]; [|lia].
    apply negb_true_iff in H. lia.
  Qed.

  Lemma sub_back R X : cwf R -> cadd (cadd R X) (cneg X) = R.
  Proof.
    intros WR. destruct R as [a t], X as [b u]. unfold cwf in WR. cbn [snd] in WR.
    unfold cadd, cneg. cbn [fst snd]. f_equal; [ring|].
    rewrite Zplus_mod_idemp_l, Zplus_mod_idemp_r.
    replace (t + u + - u) with t by ring. apply Z.mod_small. lia.
  Qed.

  Theorem eddsa_accepts_subset_of_go pub m sig :
    Forall is_byte sig ->
    eddsa_verify pub m sig = EOk -> go_verify pub m sig = true.
  Proof.
    intros Bs H. apply eddsa_accept_iff in H.
    destruct H as [Hl [HS [HR [HP [R [A [DR [DA [SR [SA E]]]]]]]]]].
    unfold EdDSA.go_verify.
    assert (Bsk : Forall is_byte (skipn 32 sig)) by (apply Forall_skipn; auto).
    rewrite sc_is_canonical_spec in HS by auto. apply andb_true_iff in HS. destruct HS as [HSl HS].
    apply Nat.eqb_eq in HSl. assert (HS' := HS). apply Z.ltb_lt in HS'.
    (* key length *)
    unfold pt_is_canonical in HP. destruct (length pub =? 32)%nat eqn:Epl; [|discriminate].
    rewrite Hl, Nat.eqb_refl. cbn [andb].
    (* top three bits of S are clear *)
    assert (Hn : nth 63 sig 0 = nth 31 (skipn 32 sig) 0).
    { rewrite <- (firstn_skipn 32 sig) at 1. rewrite app_nth2; rewrite firstn_length, Hl; [reflexivity|lia]. }
    rewrite Hn.
    assert (Hb31 : is_byte (nth 31 (skipn 32 sig) 0)).
    { rewrite Forall_forall in Bsk. apply Bsk, nth_In. lia. }
    assert (Hlt : nth 31 (skipn 32 sig) 0 < 32).
    { assert (Hsp : skipn 32 sig = firstn 31 (skipn 32 sig) ++ [nth 31 (skipn 32 sig) 0]).
      { generalize dependent (skipn 32 sig). intros l. intros.
        rewrite <- (firstn_skipn 31 l) at 1. f_equal.
        do 32 (destruct l as [|? l]; [discriminate|]). destruct l; [|discriminate]. reflexivity. }
      rewrite Hsp in HS'. rewrite le_decode_app in HS'. cbn [le_decode] in HS'.
      rewrite firstn_length, HSl in HS'. change (Z.of_nat (Nat.min 31 32)) with 31 in HS'.
      assert (Bf : Forall is_byte (firstn 31 (skipn 32 sig))) by (apply Forall_firstn; auto).
      pose proof (le_decode_range _ Bf) as Rg.
      unfold L25519 in HS'.
      change (256 ^ 31) with 452312848583266388373324160190187140051835877600158453279131187530910662656 in *.
      change (2 ^ 252) with 7237005577332262213973186563042994240829374041602535252466099000494570602496 in *.
      unfold is_byte in Hb31. lia. }
    rewrite (land224 _ Hb31 Hlt). cbn [Z.eqb andb].
    rewrite (godec_ext _ _ DA). rewrite HS. cbn [andb].
    rewrite <- E. pose proof (cdec_wf _ _ DR) as WR.
    rewrite sub_back by auto.
    rewrite small_enc in SR by auto.
    rewrite <- (cdec_canon_inj _ _ DR HR SR).
    apply list_eqb_eq. reflexivity.
  Qed.
End EdProofs.

(* the codec facts assumed by the Ed25519 theorems, bundled (used by props/C08.v) *)
Definition codec_ok (H512 : list Z -> list Z) (cenc : cpt -> list Z) (cdec godec : list Z -> option cpt) : Prop :=
  (forall x, length (H512 x) = 64%nat) /\ (forall x, Forall is_byte (H512 x)) /\
  (forall P, length (cenc P) = 32%nat) /\ (forall P, Forall is_byte (cenc P)) /\
  (forall P, pt_is_canonical (cenc P) = true) /\
  (forall P, cwf P -> cdec (cenc P) = Some P) /\
  (forall b P, cdec b = Some P -> cwf P) /\
  (forall b P, cdec b = Some P -> pt_is_canonical b = true -> csmall P = false -> b = cenc P) /\
  (forall P, cwf P -> has_small_order (cenc P) = csmall P) /\
  (forall b P, cdec b = Some P -> godec b = Some P).

Ltac codec H :=
  destruct H as [? [? [? [? [? [? [? [? [? ?]]]]]]]]].
