(* sign/schnorr over a prime-order group (modelled by discrete logarithms,
   Algebra/Grp.v): Sign, VerifyWithChecks (guards in the order of the code) and
   Verify.  The point / scalar codecs and the challenge hash (SHA-512 of
   enc R || enc A || msg, reduced into the scalar field) are Section variables:
   the theorems hold for every codec that round-trips and for every hash.

   The Ed25519 instance of VerifyWithChecks (extra canonicity / small-order
   guards, torsion) is modelled in Sig/EdDSA.v over the full curve group. *)
From Coq Require Import ZArith Znumtheory List Bool Lia Ring Field.
From Kyber Require Import Algebra.Zq Algebra.Grp.
Import ListNotations.
Local Open Scope Z_scope.

Inductive sverdict :=
| SOk | SLen | SRdec | SSdec | SPubdec | SEq.

Definition sverdict_ok (v : sverdict) : bool := match v with SOk => true | _ => false end.

Section SchnorrModel.
  Variable q : Z.
  Notation F := (zq q).
  Variable plen slen : nat.
  Variable penc : F -> list Z.
  Variable pdec : list Z -> option F.
  Variable senc : F -> list Z.
  Variable sdec : list Z -> option F.
  Variable Hc : list Z -> F.

  (* hash(g, public, r, msg): r || public || msg *)
  Definition challenge (R A : F) (m : list Z) : F := Hc (penc R ++ penc A ++ m).

  (* Sign: k is the scalar picked from the suite's random stream *)
  Definition schnorr_sign (x k : F) (m : list Z) : list Z :=
    let R := smul k pbase in
    let A := smul x pbase in
    let h := challenge R A m in
    penc R ++ senc (zadd k (zmul x h)).

  (* the verification equation on decoded values: s*B = R + h*A *)
  Definition schnorr_eq (A : F) (m : list Z) (R s : F) : bool :=
    peqb (smul s pbase) (padd R (smul (challenge R A m) A)).

  (* VerifyWithChecks for a group without the optional canonicity / small-order
     interfaces; a point outside the prime-order subgroup (IsInCorrectGroup =
     false) has no logarithm and is a decoding failure of the model codec *)
  Definition schnorr_verify (pub m sig : list Z) : sverdict :=
    if negb (length sig =? plen + slen)%nat then SLen else
    match pdec (firstn plen sig) with
    | None => SRdec
    | Some R =>
      match sdec (skipn plen sig) with
      | None => SSdec
      | Some s =>
        match pdec pub with
        | None => SPubdec
        | Some A => if schnorr_eq A m R s then SOk else SEq
        end
      end
    end.

  (* Verify(g, public, msg, sig) = VerifyWithChecks(g, public.MarshalBinary(), msg, sig) *)
  Definition schnorr_verify_point (A : F) (m sig : list Z) : sverdict :=
    schnorr_verify (penc A) m sig.
End SchnorrModel.

Section SchnorrProofs.
  Variable q : Z.
  Hypothesis q_prime : prime q.
  Add Field zqF : (zq_field q q_prime).
  Notation F := (zq q).
  Variable plen slen : nat.
  Variable penc : F -> list Z.
  Variable pdec : list Z -> option F.
  Variable senc : F -> list Z.
  Variable sdec : list Z -> option F.
  Variable Hc : list Z -> F.

  (* what is assumed of a codec: fixed lengths, decoding inverts encoding *)
  Hypothesis penc_len : forall P, length (penc P) = plen.
  Hypothesis senc_len : forall s, length (senc s) = slen.
  Hypothesis pdec_enc : forall P, pdec (penc P) = Some P.
  Hypothesis sdec_enc : forall s, sdec (senc s) = Some s.

  Notation challenge := (challenge q penc Hc).
  Notation schnorr_sign := (schnorr_sign q penc senc Hc).
  Notation schnorr_verify := (schnorr_verify q plen slen penc pdec sdec Hc).
  Notation schnorr_eq := (schnorr_eq q penc Hc).

  Lemma firstn_app_len {A} (a b : list A) n : length a = n -> firstn n (a ++ b) = a.
  Proof.
    intros <-. rewrite firstn_app, Nat.sub_diag, firstn_O, app_nil_r. apply firstn_all.
  Qed.
  Lemma skipn_app_len {A} (a b : list A) n : length a = n -> skipn n (a ++ b) = b.
  Proof.
    intros <-. rewrite skipn_app, Nat.sub_diag, skipn_all. reflexivity.
  Qed.

  Lemma schnorr_eq_iff A m R s :
    schnorr_eq A m R s = true <-> s = zadd R (zmul (challenge R A m) A).
  Proof.
    unfold Schnorr.schnorr_eq, peqb. rewrite zeqb_eq. unfold smul, padd, pbase.
    split; intros H.
    - rewrite <- H. ring.
    - rewrite H. ring.
  Qed.

  (* every honest signature verifies: all keys, nonces, messages, hashes *)
  Theorem schnorr_complete x k m :
    schnorr_verify (penc (smul x pbase)) m (schnorr_sign x k m) = SOk.
  Proof.
    unfold Schnorr.schnorr_verify, Schnorr.schnorr_sign.
    rewrite app_length, penc_len, senc_len, Nat.eqb_refl. cbn [negb].
    rewrite firstn_app_len, skipn_app_len by apply penc_len.
    rewrite pdec_enc, sdec_enc, pdec_enc.
    replace (schnorr_eq _ _ _ _) with true; [reflexivity|].
    symmetry. apply schnorr_eq_iff. unfold smul, pbase. ring.
  Qed.

  (* acceptance is exactly: right length, all three parts decode, equation holds *)
  Theorem schnorr_accept_iff pub m sig :
    schnorr_verify pub m sig = SOk <->
    length sig = (plen + slen)%nat /\
    exists R s A, pdec (firstn plen sig) = Some R /\ sdec (skipn plen sig) = Some s /\
                  pdec pub = Some A /\
                  smul s pbase = padd R (smul (challenge R A m) A).
  Proof.
    unfold Schnorr.schnorr_verify.
    destruct (length sig =? plen + slen)%nat eqn:El; cbn [negb].
    2:{ apply Nat.eqb_neq in El. split; [discriminate|]. intros [H _]. contradiction. }
    apply Nat.eqb_eq in El.
    destruct (pdec (firstn plen sig)) as [R|] eqn:ER.
    2:{ split; [discriminate|]. intros [_ [R [s [A [H _]]]]]. discriminate. }
    destruct (sdec (skipn plen sig)) as [s|] eqn:ES.
    2:{ split; [discriminate|]. intros [_ [R' [s [A [_ [H _]]]]]]. discriminate. }
    destruct (pdec pub) as [A|] eqn:EA.
    2:{ split; [discriminate|]. intros [_ [R' [s' [A [_ [_ [H _]]]]]]]. discriminate. }
    destruct (schnorr_eq A m R s) eqn:E.
    - split; [|reflexivity]. intros _. split; auto. exists R, s, A. repeat split; auto.
      apply schnorr_eq_iff in E. rewrite E. unfold smul, padd, pbase. ring.
    - split; [discriminate|]. intros [_ [R' [s' [A' [H1 [H2 [H3 H4]]]]]]].
      inversion H1; inversion H2; inversion H3; subst.
      assert (schnorr_eq A' m R' s' = true).
      { apply schnorr_eq_iff. unfold smul, padd, pbase in H4. rewrite <- H4. ring. }
      congruence.
  Qed.

  (* for a given R, key and message exactly one response verifies: every other s is rejected *)
  Theorem schnorr_s_unique A m R s s' :
    schnorr_eq A m R s = true -> schnorr_eq A m R s' = true -> s = s'.
  Proof. rewrite !schnorr_eq_iff. congruence. Qed.

  Corollary schnorr_tamper_s_rejected A m R s s' :
    schnorr_eq A m R s = true -> s' <> s -> schnorr_eq A m R s' = false.
  Proof.
    intros H Hn. destruct (schnorr_eq A m R s') eqn:E; auto.
    exfalso. apply Hn. eapply schnorr_s_unique; eauto.
  Qed.

  (* a changed commitment R' is accepted iff the two hash values are related by
     (h' - h) * A = R - R' *)
  Theorem schnorr_tamper_R A m R R' s :
    schnorr_eq A m R s = true ->
    (schnorr_eq A m R' s = true <->
     zmul (zsub (challenge R' A m) (challenge R A m)) A = zsub R R').
  Proof.
    rewrite !schnorr_eq_iff. intros ->. split; intros H.
    - assert (E : zsub (zadd R (zmul (challenge R A m) A)) (zadd R' (zmul (challenge R A m) A))
                  = zsub (zadd R' (zmul (challenge R' A m) A)) (zadd R' (zmul (challenge R A m) A)))
        by (rewrite <- H; reflexivity).
      transitivity (zsub (zadd R' (zmul (challenge R' A m) A)) (zadd R' (zmul (challenge R A m) A))); [ring|].
      rewrite <- E. ring.
    - transitivity (zadd (zadd R' (zmul (challenge R A m) A)) (zsub R R')); [ring|].
      rewrite <- H. ring.
  Qed.

  Corollary schnorr_tamper_R_rejected A m R R' s :
    schnorr_eq A m R s = true -> R' <> R ->
    zmul (zsub (challenge R' A m) (challenge R A m)) A <> zsub R R' ->   (* no hash coincidence *)
    schnorr_eq A m R' s = false.
  Proof.
    intros H Hn Hh. destruct (schnorr_eq A m R' s) eqn:E; auto.
    exfalso. apply Hh. apply (schnorr_tamper_R A m R R' s H). exact E.
  Qed.

  (* a changed message is accepted iff the challenge did not change (A <> O) *)
  Theorem schnorr_tamper_m A m m' R s :
    A <> zzero -> schnorr_eq A m R s = true ->
    (schnorr_eq A m' R s = true <-> challenge R A m' = challenge R A m).
  Proof.
    intros HA. rewrite !schnorr_eq_iff. intros ->. split; intros H.
    - assert (E : zmul (zsub (challenge R A m') (challenge R A m)) A = zzero).
      { transitivity (zsub (zadd R (zmul (challenge R A m') A)) (zadd R (zmul (challenge R A m) A))); [ring|].
        rewrite <- H. ring. }
      apply (zmul_eq_0 q q_prime) in E. destruct E as [E|E]; [|contradiction].
      transitivity (zadd (zsub (challenge R A m') (challenge R A m)) (challenge R A m)); [ring|].
      rewrite E. ring.
    - rewrite H. reflexivity.
  Qed.

  Corollary schnorr_tamper_m_rejected A m m' R s :
    A <> zzero -> schnorr_eq A m R s = true ->
    challenge R A m' <> challenge R A m ->            (* no hash coincidence *)
    schnorr_eq A m' R s = false.
  Proof.
    intros HA H Hh. destruct (schnorr_eq A m' R s) eqn:E; auto.
    exfalso. apply Hh. apply (schnorr_tamper_m A m m' R s HA H). exact E.
  Qed.

  (* a changed key is accepted iff h' * A' = h * A *)
  Theorem schnorr_tamper_A A A' m R s :
    schnorr_eq A m R s = true ->
    (schnorr_eq A' m R s = true <->
     zmul (challenge R A' m) A' = zmul (challenge R A m) A).
  Proof.
    rewrite !schnorr_eq_iff. intros ->. split; intros H.
    - transitivity (zsub (zadd R (zmul (challenge R A' m) A')) R); [ring|].
      rewrite <- H. ring.
    - rewrite H. reflexivity.
  Qed.

  Corollary schnorr_tamper_A_rejected A A' m R s :
    schnorr_eq A m R s = true ->
    zmul (challenge R A' m) A' <> zmul (challenge R A m) A ->   (* no hash coincidence *)
    schnorr_eq A' m R s = false.
  Proof.
    intros H Hh. destruct (schnorr_eq A' m R s) eqn:E; auto.
    exfalso. apply Hh. apply (schnorr_tamper_A A A' m R s H). exact E.
  Qed.

  (* byte level: a signature of the wrong length (truncated / extended) is rejected *)
  Theorem schnorr_wrong_length_rejected pub m sig :
    length sig <> (plen + slen)%nat -> schnorr_verify pub m sig = SLen.
  Proof.
    intros H. unfold Schnorr.schnorr_verify. apply Nat.eqb_neq in H. rewrite H. reflexivity.
  Qed.
End SchnorrProofs.
