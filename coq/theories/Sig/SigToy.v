(* A toy codec and hash over q = 251, used only by the non-vacuity example of props/C08.v *)
From Coq Require Import ZArith List Bool.
From Kyber Require Import Algebra.Zq.
Import ListNotations.
Local Open Scope Z_scope.

Definition enc1 (v : zq 251) : list Z := [val v].
Definition dec1 (b : list Z) : option (zq 251) :=
  match b with [v] => if (0 <=? v) && (v <? 251) then Some (of_Z 251 v) else None | _ => None end.
Definition toyH (b : list Z) : zq 251 := of_Z 251 (fold_left (fun a x => 31 * a + x + 7) b 3).

