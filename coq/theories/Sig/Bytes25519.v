(* Byte-level predicates of group/edwards25519 used by the signature verifiers:
   point.IsCanonical, scalar.IsCanonical and point.HasSmallOrder, transcribed
   with Go's uint8/uint16 arithmetic, and proved equal to their arithmetic
   specifications for ALL byte strings (no sampling): byte-level facts are
   established by exhaustive sweeps over 256 x 256 byte pairs and lifted to
   32-byte strings by induction. *)
From Coq Require Import ZArith List Bool Lia.
Import ListNotations.
Local Open Scope Z_scope.

Definition is_byte (b : Z) : Prop := 0 <= b < 256.
Definition byteb (b : Z) : bool := (0 <=? b) && (b <? 256).

(* little-endian value of a byte string *)
Fixpoint le_decode (l : list Z) : Z :=
  match l with [] => 0 | b :: t => b + 256 * le_decode t end.

(* the n low-order bytes of v, least significant first *)
Fixpoint le_bytes (n : nat) (v : Z) : list Z :=
  match n with O => [] | S k => (v mod 256) :: le_bytes k (v / 256) end.

Fixpoint list_eqb (a b : list Z) : bool :=
  match a, b with
  | [], [] => true
  | x :: a', y :: b' => Z.eqb x y && list_eqb a' b'
  | _, _ => false
  end.

(* Go's fixed-width conversions *)
Definition u8 (x : Z) : Z := x mod 256.
Definition u16 (x : Z) : Z := x mod 65536.

(* field prime and group order of Ed25519 *)
Definition P25519 : Z := 2 ^ 255 - 19.
Definition L25519 : Z := 2 ^ 252 + 27742317777372353535851937790883648493.

(* ------------------------------------------------------------------ *)
(* point.IsCanonical (group/edwards25519/point.go)                      *)
(*   c := (s[31] & 0x7f) ^ 0x7f
     for i := 30; i > 0; i-- { c |= s[i] ^ 0xff }
     c = byte((uint16(c) - 1) >> 8)
     d := byte((0xed - 1 - uint16(s[0])) >> 8)
     return 1-(c&d&1) == 1                                              *)
Definition pt_is_canonical (s : list Z) : bool :=
  if negb (length s =? 32)%nat then false else
  let c0 := Z.lxor (Z.land (nth 31 s 0) 127) 127 in
  let c1 := fold_left (fun c i => Z.lor c (Z.lxor (nth i s 0) 255)) (rev (seq 1 30)) c0 in
  let c := u8 (Z.shiftr (u16 (c1 - 1)) 8) in
  let d := u8 (Z.shiftr (u16 (237 - 1 - nth 0 s 0)) 8) in
  (1 - Z.land (Z.land c d) 1) =? 1.

(* the y coordinate an encoding carries: bit 255 (the sign of x) cleared *)
Definition mask_top (s : list Z) : list Z :=
  firstn 31 s ++ [Z.land (nth 31 s 0) 127].
Definition y_of (s : list Z) : Z := le_decode (mask_top s).

(* ------------------------------------------------------------------ *)
(* scalar.IsCanonical (group/edwards25519/scalar.go)                    *)
Definition L_le : list Z := le_bytes 32 L25519.

Definition sc_step (st : Z * Z) (ab : Z * Z) : Z * Z :=
  let '(c, n) := st in
  let '(a, b) := ab in
  (Z.lor c (Z.land (u8 (Z.shiftr (u16 (a - b)) 8)) n),
   Z.land n (u8 (Z.shiftr (u16 (Z.lxor a b - 1)) 8))).

Definition sc_is_canonical (sb : list Z) : bool :=
  if negb (length sb =? 32)%nat then false else
  if Z.land (nth 31 sb 0) 240 =? 0 then true else
  (* for i := 31; i >= 0; i-- : most significant byte first *)
  let '(c, _) := fold_left sc_step (rev (combine sb L_le)) (0, 1) in
  negb (c =? 0).

(* ------------------------------------------------------------------ *)
(* point.HasSmallOrder: s is the (canonical) marshalling of the point   *)
Definition weak_keys : list (list Z) :=
  [ [0;0;0;0;0;0;0;0;0;0;0;0;0;0;0;0;0;0;0;0;0;0;0;0;0;0;0;0;0;0;0;0];
    [1;0;0;0;0;0;0;0;0;0;0;0;0;0;0;0;0;0;0;0;0;0;0;0;0;0;0;0;0;0;0;0];
    [0x26;0xe8;0x95;0x8f;0xc2;0xb2;0x27;0xb0;0x45;0xc3;0xf4;0x89;0xf2;0xef;0x98;0xf0;
     0xd5;0xdf;0xac;0x05;0xd3;0xc6;0x33;0x39;0xb1;0x38;0x02;0x88;0x6d;0x53;0xfc;0x05];
    [0xc7;0x17;0x6a;0x70;0x3d;0x4d;0xd8;0x4f;0xba;0x3c;0x0b;0x76;0x0d;0x10;0x67;0x0f;
     0x2a;0x20;0x53;0xfa;0x2c;0x39;0xcc;0xc6;0x4e;0xc7;0xfd;0x77;0x92;0xac;0x03;0x7a];
    [0xec;0xff;0xff;0xff;0xff;0xff;0xff;0xff;0xff;0xff;0xff;0xff;0xff;0xff;0xff;0xff;
     0xff;0xff;0xff;0xff;0xff;0xff;0xff;0xff;0xff;0xff;0xff;0xff;0xff;0xff;0xff;0x7f] ].

(* c[i] for one weak key: OR of the XORs of the 31 low bytes, then of the masked top byte *)
Definition so_acc (c : Z) (ab : Z * Z) : Z := Z.lor c (Z.lxor (fst ab) (snd ab)).
Definition so_c (s wk : list Z) : Z :=
  let c := fold_left so_acc (combine (firstn 31 s) (firstn 31 wk)) 0 in
  Z.lor c (Z.lxor (Z.land (nth 31 s 0) 127) (nth 31 wk 0)).

Definition has_small_order (s : list Z) : bool :=
  let k := fold_left (fun k wk => Z.lor k (u16 (so_c s wk - 1))) weak_keys 0 in
  0 <? Z.land (Z.shiftr k 8) 1.

(* y coordinates of the 8 points of small order (two x signs each, except y = 1, p-1) *)
Definition small_ys : list Z := map le_decode weak_keys.

(* ================================================================== *)
(* Proofs                                                              *)

(* exhaustive sweeps over bytes, lifted to universally quantified facts *)
Definition range256 : list Z := map Z.of_nat (seq 0 256).

Lemma in_range256 a : is_byte a -> In a range256.
Proof.
  intros H. unfold range256. apply in_map_iff. exists (Z.to_nat a). split.
  - unfold is_byte in H. lia.
  - apply in_seq. unfold is_byte in H. lia.
Qed.

Lemma sweep1 (f : Z -> bool) :
  forallb f range256 = true -> forall a, is_byte a -> f a = true.
Proof. intros H a Ha. rewrite forallb_forall in H. apply H, in_range256, Ha. Qed.

Lemma sweep2 (f : Z -> Z -> bool) :
  forallb (fun a => forallb (f a) range256) range256 = true ->
  forall a b, is_byte a -> is_byte b -> f a b = true.
Proof.
  intros H a b Ha Hb. rewrite forallb_forall in H.
  specialize (H a (in_range256 a Ha)). rewrite forallb_forall in H.
  apply H, in_range256, Hb.
Qed.

Lemma byte_lor a b : is_byte a -> is_byte b -> is_byte (Z.lor a b).
Proof.
  intros Ha Hb.
  assert (H := sweep2 (fun a b => byteb (Z.lor a b))). cbv beta in H.
  specialize (H ltac:(vm_compute; reflexivity) a b Ha Hb).
  unfold byteb in H. unfold is_byte. lia.
Qed.

Lemma byte_lxor a b : is_byte a -> is_byte b -> is_byte (Z.lxor a b).
Proof.
  intros Ha Hb.
  assert (H := sweep2 (fun a b => byteb (Z.lxor a b))). cbv beta in H.
  specialize (H ltac:(vm_compute; reflexivity) a b Ha Hb).
  unfold byteb in H. unfold is_byte. lia.
Qed.

Lemma byte_land127 a : is_byte a -> 0 <= Z.land a 127 < 128.
Proof.
  intros Ha.
  assert (H := sweep1 (fun a => (0 <=? Z.land a 127) && (Z.land a 127 <? 128))). cbv beta in H.
  specialize (H ltac:(vm_compute; reflexivity) a Ha). lia.
Qed.

Lemma land127_val a : is_byte a -> Z.land a 127 = a mod 128.
Proof.
  intros Ha.
  assert (H := sweep1 (fun a => Z.land a 127 =? a mod 128)). cbv beta in H.
  specialize (H ltac:(vm_compute; reflexivity) a Ha). lia.
Qed.

Lemma land240_zero a : is_byte a -> (Z.land a 240 =? 0) = (a <? 16).
Proof.
  intros Ha.
  assert (H := sweep1 (fun a => Bool.eqb (Z.land a 240 =? 0) (a <? 16))). cbv beta in H.
  specialize (H ltac:(vm_compute; reflexivity) a Ha). apply Bool.eqb_prop in H. exact H.
Qed.

(* (uint16(c) - 1) >> 8 as a byte: 0xff when c = 0, else 0 *)
Lemma dec_shift c : is_byte c ->
  u8 (Z.shiftr (u16 (c - 1)) 8) = if c =? 0 then 255 else 0.
Proof.
  intros Hc.
  assert (H := sweep1 (fun c => u8 (Z.shiftr (u16 (c - 1)) 8) =? (if c =? 0 then 255 else 0))).
  cbv beta in H. specialize (H ltac:(vm_compute; reflexivity) c Hc). lia.
Qed.

(* borrow of a byte subtraction, as Go computes it *)
Lemma borrow_shift a b : is_byte a -> is_byte b ->
  u8 (Z.shiftr (u16 (a - b)) 8) = if a <? b then 255 else 0.
Proof.
  intros Ha Hb.
  assert (H := sweep2 (fun a b => u8 (Z.shiftr (u16 (a - b)) 8) =? (if a <? b then 255 else 0))).
  cbv beta in H. specialize (H ltac:(vm_compute; reflexivity) a b Ha Hb). lia.
Qed.

Lemma eq_shift a b : is_byte a -> is_byte b ->
  u8 (Z.shiftr (u16 (Z.lxor a b - 1)) 8) = if a =? b then 255 else 0.
Proof.
  intros Ha Hb.
  assert (H := sweep2 (fun a b => u8 (Z.shiftr (u16 (Z.lxor a b - 1)) 8) =? (if a =? b then 255 else 0))).
  cbv beta in H. specialize (H ltac:(vm_compute; reflexivity) a b Ha Hb). lia.
Qed.

Lemma lxor_zero_iff a b : Z.lxor a b = 0 <-> a = b.
Proof. split. apply Z.lxor_eq. intros ->. apply Z.lxor_nilpotent. Qed.

Lemma lor_zero_iff a b : Z.lor a b = 0 <-> a = 0 /\ b = 0.
Proof. apply Z.lor_eq_0_iff. Qed.

(* ---------------- little-endian values ---------------- *)
Lemma le_decode_app a b :
  le_decode (a ++ b) = le_decode a + 256 ^ Z.of_nat (length a) * le_decode b.
Proof.
  induction a as [|x a IH]; cbn [app le_decode length].
  - change (Z.of_nat 0) with 0. rewrite Z.pow_0_r. lia.
  - rewrite IH, Nat2Z.inj_succ, Z.pow_succ_r by lia. ring.
Qed.

Lemma le_decode_range l : Forall is_byte l -> 0 <= le_decode l < 256 ^ Z.of_nat (length l).
Proof.
  induction 1 as [|x l Hx Hl IH]; cbn [le_decode length].
  - cbn. lia.
  - rewrite Nat2Z.inj_succ, Z.pow_succ_r by lia. unfold is_byte in Hx. lia.
Qed.

Lemma le_decode_inj a : forall b, length a = length b -> Forall is_byte a -> Forall is_byte b ->
  le_decode a = le_decode b -> a = b.
Proof.
  induction a as [|x a IH]; intros [|y b] Hl Ha Hb He; try discriminate; auto.
  inversion Ha; inversion Hb; subst. cbn [le_decode] in He. cbn in Hl.
  unfold is_byte in *.
  assert (x = y) by lia. subst y. f_equal. apply IH; auto; lia.
Qed.

Lemma list_eqb_eq a : forall b, list_eqb a b = true <-> a = b.
Proof.
  induction a as [|x a IH]; intros [|y b]; cbn; split; intros H; try discriminate; auto.
  - apply andb_true_iff in H. destruct H as [H1 H2]. apply Z.eqb_eq in H1. apply IH in H2. congruence.
  - inversion H; subst. rewrite Z.eqb_refl. cbn. apply IH. reflexivity.
Qed.

(* ---------------- point.IsCanonical ---------------- *)

Ltac destr_list s n :=
  match n with
  | O => destruct s; [|cbn in *; try discriminate; try lia]
  | S ?k => destruct s as [|? s]; [cbn in *; try discriminate; try lia | destr_list s k]
  end.

Lemma firstn_In {A} (x : A) n : forall l, In x (firstn n l) -> In x l.
Proof.
  induction n; intros [|y l] H; cbn in *; try tauto. destruct H; auto.
Qed.

Lemma Forall_cons_inv {A} (P : A -> Prop) x l : Forall P (x :: l) -> P x /\ Forall P l.
Proof. intros H. inversion H; auto. Qed.

(* the OR-accumulator of the loop is zero exactly when every byte is 0xff *)
Lemma fold_or_ff (l : list Z) : forall c0, is_byte c0 -> Forall is_byte l ->
  let r := fold_left (fun c b => Z.lor c (Z.lxor b 255)) l c0 in
  is_byte r /\ (r = 0 <-> c0 = 0 /\ Forall (fun b => b = 255) l).
Proof.
  induction l as [|x l IH]; intros c0 Hc Hl; cbn [fold_left].
  - split; auto. split; [intros ->; auto | tauto].
  - apply Forall_cons_inv in Hl. destruct Hl as [Hx Hl].
    assert (Hb : is_byte (Z.lor c0 (Z.lxor x 255))).
    { apply byte_lor; auto. apply byte_lxor; auto. unfold is_byte; lia. }
    destruct (IH _ Hb Hl) as [H1 H2]. split; auto.
    rewrite H2, lor_zero_iff, lxor_zero_iff. split.
    + intros [[? ?] ?]. split; auto.
    + intros [? H]. apply Forall_cons_inv in H. tauto.
Qed.

Lemma fold_nth_map (s : list Z) (idx : list nat) c0 :
  fold_left (fun c i => Z.lor c (Z.lxor (nth i s 0) 255)) idx c0 =
  fold_left (fun c b => Z.lor c (Z.lxor b 255)) (map (fun i => nth i s 0) idx) c0.
Proof. revert c0. induction idx; intros; cbn; auto. Qed.

Lemma le_decode_all_ff l : Forall (fun b => b = 255) l -> le_decode l = 256 ^ Z.of_nat (length l) - 1.
Proof.
  induction 1 as [|x l Hx Hl IH]; cbn [le_decode length]; [reflexivity|].
  rewrite Nat2Z.inj_succ, Z.pow_succ_r by lia. lia.
Qed.

Lemma le_decode_not_ff l : Forall is_byte l -> ~ Forall (fun b => b = 255) l ->
  le_decode l < 256 ^ Z.of_nat (length l) - 1.
Proof.
  induction 1 as [|x l Hx Hl IH]; intros Hn.
  - exfalso. apply Hn. constructor.
  - cbn [le_decode length]. rewrite Nat2Z.inj_succ, Z.pow_succ_r by lia.
    pose proof (le_decode_range l Hl) as R. unfold is_byte in Hx.
    destruct (Z.eq_dec x 255) as [->|Hx'].
    + assert (~ Forall (fun b => b = 255) l) by (intros F; apply Hn; constructor; auto).
      specialize (IH H). lia.
    + lia.
Qed.

Lemma Forall_dec_ff l : {Forall (fun b => b = 255) l} + {~ Forall (fun b => b = 255) l}.
Proof. apply Forall_dec. intros x. apply Z.eq_dec. Qed.

(* decomposition of a 32-byte string *)
Lemma split32 (s : list Z) : length s = 32%nat ->
  s = nth 0 s 0 :: (map (fun i => nth i s 0) (seq 1 30)) ++ [nth 31 s 0].
Proof.
  intros H. do 32 (destruct s as [|? s]; [discriminate|]). destruct s; [|discriminate].
  reflexivity.
Qed.

Theorem pt_is_canonical_spec s :
  Forall is_byte s ->
  pt_is_canonical s = (length s =? 32)%nat && (y_of s <? P25519).
Proof.
  intros Hs. unfold pt_is_canonical.
  destruct (length s =? 32)%nat eqn:Hl; cbn [negb andb]; [|reflexivity].
  apply Nat.eqb_eq in Hl.
  rewrite fold_nth_map, map_rev. unfold y_of, mask_top.
  set (b0 := nth 0 s 0). set (b31 := nth 31 s 0).
  set (mid := map (fun i => nth i s 0) (seq 1 30)).
  assert (Hsplit : s = b0 :: mid ++ [b31]) by (apply split32; auto).
  assert (Hmidlen : length mid = 30%nat) by (unfold mid; rewrite map_length, seq_length; reflexivity).
  clearbody b0 b31 mid. subst s. clear Hl.
  assert (Hb0 : is_byte b0 /\ Forall is_byte mid /\ is_byte b31).
  { apply Forall_cons_inv in Hs. destruct Hs as [? Hs].
    apply Forall_app in Hs. destruct Hs as [? Hs]. apply Forall_cons_inv in Hs. tauto. }
  destruct Hb0 as [Hb0 [Hmid Hb31]].
  (* value of y *)
  assert (Hy : le_decode (firstn 31 (b0 :: mid ++ [b31]) ++ [Z.land b31 127])
               = b0 + 256 * (le_decode mid + 256 ^ 30 * Z.land b31 127)).
  { assert (firstn 31 (b0 :: mid ++ [b31]) = b0 :: mid) as ->.
    { change 31%nat with (S 30). rewrite firstn_cons. f_equal. rewrite firstn_app, Hmidlen.
      replace (30 - 30)%nat with 0%nat by reflexivity. rewrite firstn_O.
      rewrite app_nil_r. rewrite <- Hmidlen. apply firstn_all. }
    rewrite <- app_comm_cons. cbn [le_decode]. rewrite le_decode_app, Hmidlen. cbn [le_decode]. f_equal. f_equal.
    change (Z.of_nat 30) with 30. ring. }
  (* the loop *)
  assert (Hc0 : is_byte (Z.lxor (Z.land b31 127) 127)).
  { apply byte_lxor; [pose proof (byte_land127 b31 Hb31)|]; unfold is_byte; lia. }
  destruct (fold_or_ff (rev mid) _ Hc0 (Forall_rev Hmid)) as [Hr1 Hr2].
  cbv zeta in Hr1, Hr2.
  set (c1 := fold_left _ (rev mid) _) in *.
  rewrite (dec_shift c1 Hr1).
  assert (Hd : is_byte b0) by auto.
  replace (237 - 1 - b0) with (236 - b0) by ring.
  assert (Hdd : u8 (Z.shiftr (u16 (236 - b0)) 8) = if 236 <? b0 then 255 else 0).
  { assert (is_byte 236) by (unfold is_byte; lia). apply (borrow_shift 236 b0); auto. }
  rewrite Hdd. rewrite Hy.
  pose proof (le_decode_range mid Hmid) as Rmid. rewrite Hmidlen in Rmid. change (Z.of_nat 30) with 30 in Rmid.
  pose proof (byte_land127 b31 Hb31) as R31.
  unfold P25519. unfold is_byte in Hb0.
  destruct (c1 =? 0) eqn:Ec.
  - apply Z.eqb_eq in Ec. apply Hr2 in Ec. destruct Ec as [E1 E2].
    apply Z.lxor_eq in E1.
    assert (F : Forall (fun b => b = 255) mid).
    { apply Forall_rev in E2. rewrite rev_involutive in E2. exact E2. }
    rewrite (le_decode_all_ff mid F), Hmidlen, E1. change (Z.of_nat 30) with 30.
    match goal with |- _ = ?r => set (rhs := r) end.
    destruct (236 <? b0) eqn:E0; cbn; unfold rhs.
    + symmetry. apply Z.ltb_ge. apply Z.ltb_lt in E0. lia.
    + symmetry. apply Z.ltb_lt. apply Z.ltb_ge in E0. lia.
  - replace (Z.land (Z.land 0 (if 236 <? b0 then 255 else 0)) 1) with 0 by (destruct (236 <? b0); reflexivity).
    match goal with |- _ = ?r => set (rhs := r) end. cbn. unfold rhs.
    symmetry. apply Z.ltb_lt. apply Z.eqb_neq in Ec.
    assert (Hnot : ~ (Z.lxor (Z.land b31 127) 127 = 0 /\ Forall (fun b : Z => b = 255) (rev mid))) by tauto.
    destruct (Z.eq_dec (Z.land b31 127) 127) as [E|E].
    + assert (~ Forall (fun b => b = 255) mid).
      { intros F. apply Hnot. split. apply lxor_zero_iff; auto. apply Forall_rev; auto. }
      pose proof (le_decode_not_ff mid Hmid H) as Lt. rewrite Hmidlen in Lt. change (Z.of_nat 30) with 30 in Lt.
      lia.
    + lia.
Qed.

(* ---------------- scalar.IsCanonical ---------------- *)

Definition b2z (b : bool) : Z := if b then 1 else 0.
Definition acc_step (v : Z * Z) (ab : Z * Z) : Z * Z := (256 * fst v + fst ab, 256 * snd v + snd ab).
Definition cmp_state (v : Z * Z) : Z * Z := (b2z (fst v <? snd v), b2z (fst v =? snd v)).

Lemma sc_step_inv v ab : is_byte (fst ab) -> is_byte (snd ab) ->
  sc_step (cmp_state v) ab = cmp_state (acc_step v ab).
Proof.
  destruct v as [v1 v2], ab as [a b]. cbn [fst snd]. intros Ha Hb.
  unfold sc_step, cmp_state, acc_step. cbn [fst snd].
  rewrite borrow_shift, eq_shift by auto. unfold is_byte in *.
  destruct (v1 <? v2) eqn:E1; destruct (v1 =? v2) eqn:E2; try lia; cbn [b2z].
  - (* v1 < v2 *)
    replace (256 * v1 + a <? 256 * v2 + b) with true by (symmetry; apply Z.ltb_lt; lia).
    replace (256 * v1 + a =? 256 * v2 + b) with false by (symmetry; apply Z.eqb_neq; lia).
    rewrite Z.land_0_r. cbn. destruct (a =? b); reflexivity.
  - (* equal so far *)
    apply Z.eqb_eq in E2. subst v2.
    replace (256 * v1 + a <? 256 * v1 + b) with (a <? b) by (destruct (a <? b) eqn:E; symmetry; [apply Z.ltb_lt|apply Z.ltb_ge]; lia).
    replace (256 * v1 + a =? 256 * v1 + b) with (a =? b) by (destruct (a =? b) eqn:E; symmetry; [apply Z.eqb_eq|apply Z.eqb_neq]; lia).
    destruct (a <? b), (a =? b); reflexivity.
  - (* v1 > v2 *)
    replace (256 * v1 + a <? 256 * v2 + b) with false by (symmetry; apply Z.ltb_ge; lia).
    replace (256 * v1 + a =? 256 * v2 + b) with false by (symmetry; apply Z.eqb_neq; lia).
    rewrite Z.land_0_r. cbn. destruct (a =? b); reflexivity.
Qed.

Lemma sc_fold_inv ps : forall v, Forall (fun ab => is_byte (fst ab) /\ is_byte (snd ab)) ps ->
  fold_left sc_step ps (cmp_state v) = cmp_state (fold_left acc_step ps v).
Proof.
  induction ps as [|ab ps IH]; intros v H; cbn [fold_left]; auto.
  apply Forall_cons_inv in H. destruct H as [[Ha Hb] H].
  rewrite sc_step_inv by auto. apply IH; auto.
Qed.

Lemma acc_rev_le a : forall b, length a = length b ->
  fold_left acc_step (rev (combine a b)) (0, 0) = (le_decode a, le_decode b).
Proof.
  induction a as [|x a IH]; intros [|y b] Hl; try discriminate; [reflexivity|].
  cbn [combine rev]. rewrite fold_left_app. cbn in Hl. rewrite IH by lia.
  cbn [fold_left]. unfold acc_step. cbn [fst snd le_decode]. f_equal; ring.
Qed.

Lemma Forall_combine a : forall b, Forall is_byte a -> Forall is_byte b ->
  Forall (fun ab => is_byte (fst ab) /\ is_byte (snd ab)) (combine a b).
Proof.
  induction a as [|x a IH]; intros [|y b] Ha Hb; cbn; try constructor.
  - cbn. apply Forall_cons_inv in Ha. apply Forall_cons_inv in Hb. tauto.
  - apply Forall_cons_inv in Ha. apply Forall_cons_inv in Hb. apply IH; tauto.
Qed.

Lemma L_le_bytes : Forall is_byte L_le.
Proof.
  apply Forall_forall. intros x Hx.
  assert (H : forallb byteb L_le = true) by (vm_compute; reflexivity).
  rewrite forallb_forall in H. specialize (H x Hx). unfold byteb in H. unfold is_byte. lia.
Qed.

Lemma L_le_val : le_decode L_le = L25519.
Proof. vm_compute. reflexivity. Qed.

Theorem sc_is_canonical_spec sb :
  Forall is_byte sb ->
  sc_is_canonical sb = (length sb =? 32)%nat && (le_decode sb <? L25519).
Proof.
  intros Hs. unfold sc_is_canonical.
  destruct (length sb =? 32)%nat eqn:Hl; cbn [negb andb]; [|reflexivity].
  apply Nat.eqb_eq in Hl.
  assert (Hb31 : is_byte (nth 31 sb 0)).
  { rewrite Forall_forall in Hs. apply Hs. apply nth_In. lia. }
  rewrite land240_zero by auto.
  destruct (nth 31 sb 0 <? 16) eqn:E31.
  - (* top nibble clear: below 2^252 *)
    symmetry. apply Z.ltb_lt. apply Z.ltb_lt in E31.
    assert (Hsp : sb = firstn 31 sb ++ [nth 31 sb 0]).
    { rewrite <- (firstn_skipn 31 sb) at 1. f_equal.
      do 32 (destruct sb as [|? sb]; [discriminate|]). destruct sb; [|discriminate]. reflexivity. }
    rewrite Hsp, le_decode_app. cbn [le_decode].
    assert (Hf : Forall is_byte (firstn 31 sb)).
    { rewrite Hsp in Hs. apply Forall_app in Hs. tauto. }
    pose proof (le_decode_range _ Hf) as R. rewrite firstn_length, Hl in R.
    change (Z.of_nat (Init.Nat.min 31 32)) with 31 in *.
    rewrite firstn_length, Hl. change (Z.of_nat (Init.Nat.min 31 32)) with 31.
    unfold L25519. unfold is_byte in Hb31. lia.
  - change (0, 1) with (cmp_state (0, 0)).
    rewrite sc_fold_inv.
    2:{ apply Forall_rev. apply Forall_combine; auto. apply L_le_bytes. }
    rewrite acc_rev_le by (rewrite Hl; reflexivity).
    rewrite L_le_val. unfold cmp_state. cbn [fst snd].
    destruct (le_decode sb <? L25519); reflexivity.
Qed.

(* ---------------- point.HasSmallOrder ---------------- *)

Lemma so_fold (l : list (Z * Z)) : forall c0, is_byte c0 ->
  Forall (fun ab => is_byte (fst ab) /\ is_byte (snd ab)) l ->
  let r := fold_left so_acc l c0 in
  is_byte r /\ (r = 0 <-> c0 = 0 /\ map fst l = map snd l).
Proof.
  induction l as [|[a b] l IH]; intros c0 Hc Hl; cbn [fold_left map].
  - split; auto. split; [intros ->; auto | tauto].
  - apply Forall_cons_inv in Hl. destruct Hl as [[Ha Hb] Hl]. cbn [fst snd] in *.
    assert (Hb' : is_byte (so_acc c0 (a, b))).
    { unfold so_acc. cbn [fst snd]. apply byte_lor; auto. apply byte_lxor; auto. }
    destruct (IH _ Hb' Hl) as [H1 H2]. split; auto.
    rewrite H2. unfold so_acc. cbn [fst snd]. rewrite lor_zero_iff, lxor_zero_iff. split.
    + intros [[? ?] ?]. split; auto. congruence.
    + intros [? H]. inversion H. tauto.
Qed.

Lemma map_fst_combine {A B} (a : list A) : forall (b : list B), length a = length b -> map fst (combine a b) = a.
Proof. induction a; intros [|y b] H; try discriminate; cbn; auto. f_equal. apply IHa. cbn in H. lia. Qed.
Lemma map_snd_combine {A B} (a : list A) : forall (b : list B), length a = length b -> map snd (combine a b) = b.
Proof. induction a; intros [|y b] H; try discriminate; cbn; auto. f_equal. apply IHa. cbn in H. lia. Qed.

Definition wk_ok (wk : list Z) : Prop :=
  length wk = 32%nat /\ Forall is_byte wk.

Lemma so_c_spec s wk : length s = 32%nat -> Forall is_byte s -> wk_ok wk ->
  is_byte (so_c s wk) /\ (so_c s wk = 0 <-> mask_top s = wk).
Proof.
  intros Hl Hs [Hwl Hw]. unfold so_c.
  assert (Hf : Forall (fun ab => is_byte (fst ab) /\ is_byte (snd ab)) (combine (firstn 31 s) (firstn 31 wk))).
  { apply Forall_combine; apply Forall_forall; intros x Hx; apply firstn_In in Hx.
    - rewrite Forall_forall in Hs; auto.
    - rewrite Forall_forall in Hw; auto. }
  destruct (so_fold _ 0 ltac:(unfold is_byte; lia) Hf) as [H1 H2]. cbv zeta in H1, H2.
  set (c := fold_left so_acc _ 0) in *.
  assert (Hs31 : is_byte (nth 31 s 0)) by (rewrite Forall_forall in Hs; apply Hs, nth_In; lia).
  assert (Hw31 : is_byte (nth 31 wk 0)) by (rewrite Forall_forall in Hw; apply Hw, nth_In; lia).
  assert (Hm : is_byte (Z.land (nth 31 s 0) 127)) by (pose proof (byte_land127 _ Hs31); unfold is_byte; lia).
  split. { apply byte_lor; auto. apply byte_lxor; auto. }
  rewrite lor_zero_iff, lxor_zero_iff, H2.
  rewrite map_fst_combine, map_snd_combine by (rewrite !firstn_length; lia).
  unfold mask_top.
  assert (Hwsp : wk = firstn 31 wk ++ [nth 31 wk 0]).
  { rewrite <- (firstn_skipn 31 wk) at 1. f_equal.
    do 32 (destruct wk as [|? wk]; [discriminate|]). destruct wk; [|discriminate]. reflexivity. }
  split.
  - intros [[_ E1] E2]. rewrite Hwsp. rewrite E1, E2. reflexivity.
  - intros E. rewrite Hwsp in E. apply app_inj_tail in E. destruct E as [E1 E2]. auto.
Qed.

Lemma bit8_dec c : is_byte c -> Z.testbit (u16 (c - 1)) 8 = (c =? 0).
Proof.
  intros Hc.
  assert (H := sweep1 (fun c => Bool.eqb (Z.testbit (u16 (c - 1)) 8) (c =? 0))). cbv beta in H.
  specialize (H ltac:(vm_compute; reflexivity) c Hc). apply Bool.eqb_prop in H. exact H.
Qed.

Lemma land_shift_bit k : 0 <= k -> (0 <? Z.land (Z.shiftr k 8) 1) = Z.testbit k 8.
Proof.
  intros Hk. rewrite Z.land_comm. change 1 with (Z.ones 1). rewrite Z.land_comm, Z.land_ones by lia.
  change (2 ^ 1) with 2. rewrite <- Z.bit0_mod. rewrite Z.shiftr_spec by lia. cbn [Z.add].
  destruct (Z.testbit k 8); reflexivity.
Qed.

Lemma so_k_fold s (wks : list (list Z)) : length s = 32%nat -> Forall is_byte s -> Forall wk_ok wks ->
  forall k0, 0 <= k0 ->
  let k := fold_left (fun k wk => Z.lor k (u16 (so_c s wk - 1))) wks k0 in
  0 <= k /\ Z.testbit k 8 = Z.testbit k0 8 || existsb (fun wk => list_eqb (mask_top s) wk) wks.
Proof.
  intros Hl Hs. induction wks as [|wk wks IH]; intros Hw k0 Hk0; cbn [fold_left existsb].
  - split; auto. rewrite orb_false_r. reflexivity.
  - apply Forall_cons_inv in Hw. destruct Hw as [Hwk Hw].
    destruct (so_c_spec s wk Hl Hs Hwk) as [Hc1 Hc2].
    assert (Hk1 : 0 <= Z.lor k0 (u16 (so_c s wk - 1))).
    { apply Z.lor_nonneg. split; auto. unfold u16. apply Z.mod_pos_bound. lia. }
    destruct (IH Hw _ Hk1) as [H1 H2]. cbv zeta in H1, H2. split; auto.
    rewrite H2, Z.lor_spec, bit8_dec by auto. rewrite <- orb_assoc. f_equal. f_equal.
    destruct (so_c s wk =? 0) eqn:E.
    + apply Z.eqb_eq in E. apply Hc2 in E. symmetry. apply list_eqb_eq. exact E.
    + apply Z.eqb_neq in E. symmetry. apply not_true_is_false. intros T. apply list_eqb_eq in T. tauto.
Qed.

Lemma weak_keys_ok : Forall wk_ok weak_keys.
Proof.
  assert (H : forallb (fun wk => (length wk =? 32)%nat && forallb byteb wk) weak_keys = true)
    by (vm_compute; reflexivity).
  apply Forall_forall. intros wk Hwk. rewrite forallb_forall in H. specialize (H wk Hwk).
  apply andb_true_iff in H. destruct H as [H1 H2]. apply Nat.eqb_eq in H1. split; auto.
  apply Forall_forall. intros x Hx. rewrite forallb_forall in H2. specialize (H2 x Hx).
  unfold byteb in H2. unfold is_byte. lia.
Qed.

(* HasSmallOrder = "the encoding, sign bit cleared, is one of the five listed strings" *)
Theorem has_small_order_spec s : length s = 32%nat -> Forall is_byte s ->
  has_small_order s = existsb (fun wk => list_eqb (mask_top s) wk) weak_keys.
Proof.
  intros Hl Hs. unfold has_small_order.
  destruct (so_k_fold s weak_keys Hl Hs weak_keys_ok 0 ltac:(lia)) as [H1 H2]. cbv zeta in H1, H2.
  rewrite land_shift_bit by auto. rewrite H2. reflexivity.
Qed.

Lemma mask_top_bytes s : length s = 32%nat -> Forall is_byte s ->
  length (mask_top s) = 32%nat /\ Forall is_byte (mask_top s).
Proof.
  intros Hl Hs. unfold mask_top. split.
  - rewrite app_length, firstn_length, Hl. reflexivity.
  - apply Forall_app. split.
    + apply Forall_forall. intros x Hx. apply firstn_In in Hx. rewrite Forall_forall in Hs. auto.
    + constructor; [|constructor].
      assert (is_byte (nth 31 s 0)) by (rewrite Forall_forall in Hs; apply Hs, nth_In; lia).
      pose proof (byte_land127 _ H). unfold is_byte. lia.
Qed.

(* ... equivalently: the y coordinate is 0, 1, p-1 or one of the two order-8 values *)
Theorem has_small_order_arith s : length s = 32%nat -> Forall is_byte s ->
  has_small_order s = existsb (Z.eqb (y_of s)) small_ys.
Proof.
  intros Hl Hs. rewrite has_small_order_spec by auto.
  destruct (mask_top_bytes s Hl Hs) as [Ml Mb].
  unfold small_ys, y_of. generalize weak_keys_ok. generalize weak_keys as wks.
  induction wks as [|wk wks IH]; intros Hw; cbn [existsb map]; [reflexivity|].
  apply Forall_cons_inv in Hw. destruct Hw as [[Hwl Hwb] Hw]. rewrite IH by auto. f_equal.
  destruct (list_eqb (mask_top s) wk) eqn:E.
  - apply list_eqb_eq in E. rewrite E. symmetry. apply Z.eqb_refl.
  - symmetry. apply Z.eqb_neq. intros Heq. apply le_decode_inj in Heq; auto; [|congruence].
    apply list_eqb_eq in Heq. congruence.
Qed.

Lemma small_ys_val :
  small_ys = [0; 1;
    2707385501144840649318225287225658788936804267575313519463743609750303402022;
    55188659117513257062467267217118295137698188065244968500265048394206261417927;
    P25519 - 1].
Proof. vm_compute. reflexivity. Qed.

(* ---------------- encodings: le_bytes / le_decode round trips ---------------- *)
Lemma le_bytes_length n : forall v, length (le_bytes n v) = n.
Proof. induction n; intros; cbn; auto. Qed.

Lemma le_bytes_bytes n : forall v, Forall is_byte (le_bytes n v).
Proof.
  induction n; intros; cbn; constructor; auto. unfold is_byte. apply Z.mod_pos_bound. lia.
Qed.

Lemma le_decode_bytes n : forall v, 0 <= v < 256 ^ Z.of_nat n -> le_decode (le_bytes n v) = v.
Proof.
  induction n; intros v Hv.
  - cbn in *. lia.
  - cbn [le_bytes le_decode]. rewrite Nat2Z.inj_succ, Z.pow_succ_r in Hv by lia.
    rewrite IHn. pose proof (Z.div_mod v 256). lia.
    split. apply Z.div_pos; lia. apply Z.div_lt_upper_bound; lia.
Qed.

Lemma le_bytes_decode l : Forall is_byte l -> le_bytes (length l) (le_decode l) = l.
Proof.
  induction 1 as [|x l Hx Hl IH]; cbn [length le_bytes le_decode]; [reflexivity|].
  unfold is_byte in Hx.
  replace (x + 256 * le_decode l) with (x + le_decode l * 256) by ring.
  rewrite Z.mod_add, Z.div_add by lia. rewrite Z.mod_small, Z.div_small by lia.
  rewrite Z.add_0_l.
  rewrite IH. reflexivity.
Qed.

(* A canonical scalar string is determined by its value: no second accepted encoding of S *)
Corollary sc_canonical_unique a b :
  Forall is_byte a -> Forall is_byte b ->
  sc_is_canonical a = true -> sc_is_canonical b = true ->
  le_decode a mod L25519 = le_decode b mod L25519 -> a = b.
Proof.
  intros Ha Hb Ca Cb He.
  rewrite sc_is_canonical_spec in Ca, Cb by auto.
  apply andb_true_iff in Ca, Cb. destruct Ca as [La Va], Cb as [Lb Vb].
  apply Nat.eqb_eq in La, Lb. apply Z.ltb_lt in Va, Vb.
  pose proof (le_decode_range a Ha). pose proof (le_decode_range b Hb).
  rewrite !Z.mod_small in He by lia.
  apply le_decode_inj; auto. congruence.
Qed.

(* S + L (and every other representative of S mod L) is rejected *)
Corollary sc_plus_L_rejected a b :
  Forall is_byte a -> Forall is_byte b ->
  sc_is_canonical a = true -> a <> b ->
  le_decode a mod L25519 = le_decode b mod L25519 -> sc_is_canonical b = false.
Proof.
  intros Ha Hb Ca Hne He. destruct (sc_is_canonical b) eqn:Cb; auto.
  exfalso. apply Hne. apply sc_canonical_unique; auto.
Qed.

(* a canonical point string is determined by (y, sign): y + p is rejected *)
Corollary pt_noncanonical_rejected s :
  Forall is_byte s -> length s = 32%nat -> P25519 <= y_of s -> pt_is_canonical s = false.
Proof.
  intros Hs Hl Hy. rewrite pt_is_canonical_spec by auto. rewrite Hl. cbn.
  apply Z.ltb_ge. exact Hy.
Qed.
