(* Runner for the C08 correspondence: evaluates the signature models on the
   cases written by harness/cmd/c08 and lists the cases whose observations
   differ.  Hashes / XOF outputs are finite tables computed by the harness with
   crypto/sha512 and blake2xb directly; the Ed25519 point codec is a table of
   (logarithm, torsion component, bytes) of the points that occur in the case.
   Not used by any theorem. *)
From Coq Require Import ZArith List Bool.
From Kyber Require Import Algebra.Zq Algebra.Grp Sig.Bytes25519 Sig.Schnorr Sig.EdDSA Sig.RingSig.
Import ListNotations.
Local Open Scope Z_scope.

(* ---------------- the transparent group of the harness: q = 2^61 - 1 ---------------- *)
Definition Q61 : Z := 2305843009213693951.
Notation F61 := (zq Q61).

Fixpoint be_decode_acc (acc : Z) (l : list Z) : Z :=
  match l with [] => acc | b :: t => be_decode_acc (acc * 256 + b) t end.

Definition senc61 (s : F61) : list Z := rev (le_bytes 8 (val s)).
Definition sdec61 (b : list Z) : option F61 :=
  if (length b =? 8)%nat && forallb byteb b then
    let v := be_decode_acc 0 b in
    if v <? Q61 then Some (of_Z Q61 v) else None
  else None.
Definition penc61 (P : F61) : list Z := 4 :: senc61 P.
Definition pdec61 (b : list Z) : option F61 :=
  match b with
  | t :: r => if t =? 4 then sdec61 r else None
  | [] => None
  end.

(* hash tables *)
Fixpoint lookup1 (t : list (list Z * Z)) (x : list Z) : Z :=
  match t with
  | [] => 1234567
  | (i, o) :: r => if list_eqb i x then o else lookup1 r x
  end.
Fixpoint lookup2 (t : list (list Z * list Z * Z)) (x y : list Z) : Z :=
  match t with
  | [] => 1234567
  | (i, j, o) :: r => if list_eqb i x && list_eqb j y then o else lookup2 r x y
  end.
Fixpoint lookupb (t : list (list Z * list Z)) (x : list Z) : list Z :=
  match t with
  | [] => repeat 7 64
  | (i, o) :: r => if list_eqb i x then o else lookupb r x
  end.

Definition hc61 (t : list (list Z * Z)) (x : list Z) : F61 := of_Z Q61 (lookup1 t x).
Definition h1_61 (t : list (list Z * list Z * Z)) (m d : list Z) : F61 := of_Z Q61 (lookup2 t m d).
Definition hb61 (t : list (list Z * Z)) (sc : list Z) : F61 := of_Z Q61 (lookup1 t sc).

(* ---------------- Ed25519 point table ---------------- *)
(* (logarithm, torsion component, bytes, bytes are the canonical encoding) *)
Definition pentry := (Z * Z * list Z * bool)%type.

Fixpoint tenc (t : list pentry) (P : cpt) : list Z :=
  match t with
  | [] => [-1]
  | (k, j, b, c) :: r =>
      if c && (k =? val (fst P)) && (j =? snd P) then b else tenc r P
  end.
Fixpoint tdec (t : list pentry) (b : list Z) : option cpt :=
  match t with
  | [] => None
  | (k, j, b', _) :: r => if list_eqb b' b then Some (of_Z L25519 k, j) else tdec r b
  end.

Definition vcode (v : everdict) : Z :=
  match v with
  | EOk => 0 | ELen => 1 | ESNonCanon => 2 | ERNonCanon => 3 | ERInvalid => 4 | ERSmall => 5
  | EPkNonCanon => 6 | EPkInvalid => 7 | EPkSmall => 8 | EEq => 9
  end.

Definition opt_eqb (a b : option (list Z)) : bool :=
  match a, b with
  | None, None => true
  | Some x, Some y => list_eqb x y
  | _, _ => false
  end.

Definition optl (b : bool) (l : list Z) : option (list Z) := if b then Some l else None.

Inductive case :=
(* sign/schnorr over the transparent group *)
| CSchSign (id : Z) (tbl : list (list Z * Z)) (x k : Z) (msg sig : list Z)
| CSchVerify (id : Z) (tbl : list (list Z * Z)) (pub msg sig : list Z) (ok : bool)
(* sign/eddsa *)
| CEdSign (id : Z) (sha : list (list Z * list Z)) (pts : list pentry) (seed msg pub sig : list Z)
| CEdVerify (id : Z) (sha : list (list Z * list Z)) (pts : list pentry) (pub msg sig : list Z)
            (verdict : Z) (go_ok : bool)
(* sign/schnorr over edwards25519 *)
| CSch25519Sign (id : Z) (sha : list (list Z * list Z)) (pts : list pentry) (x k : Z) (msg sig : list Z)
| CSch25519Verify (id : Z) (sha : list (list Z * list Z)) (pts : list pentry) (pub msg sig : list Z) (ok : bool)
(* sign/anon *)
| CRingSign (id : Z) (h1 : list (list Z * list Z * Z)) (hb : list (list Z * Z))
            (msg : list Z) (keys : list Z) (linkable : bool) (scope : list Z)
            (pi x u : Z) (rs : list Z) (sig : list Z)
| CRingVerify (id : Z) (h1 : list (list Z * list Z * Z)) (hb : list (list Z * Z))
              (msg : list Z) (keys : list Z) (linkable : bool) (scope : list Z)
              (sig : list Z) (accepted : bool) (tag : list Z)
(* byte-level predicates of group/edwards25519 *)
| CPred (id : Z) (b : list Z) (pt_canon sc_canon : bool)
| CSmall (id : Z) (enc : list Z) (small : bool).

Definition check (c : case) : option Z :=
  match c with
  | CSchSign id tbl x k msg sig =>
      let r := schnorr_sign Q61 penc61 senc61 (hc61 tbl) (of_Z Q61 x) (of_Z Q61 k) msg in
      if list_eqb r sig then None else Some id
  | CSchVerify id tbl pub msg sig ok =>
      let v := schnorr_verify Q61 9 8 penc61 pdec61 sdec61 (hc61 tbl) pub msg sig in
      if Bool.eqb (sverdict_ok v) ok then None else Some id
  | CEdSign id sha pts seed msg pub sig =>
      let H := lookupb sha in
      if list_eqb (tenc pts (eddsa_public H seed)) pub &&
         list_eqb (eddsa_sign H (tenc pts) seed msg) sig then None else Some id
  | CEdVerify id sha pts pub msg sig verdict go_ok =>
      let H := lookupb sha in
      let v := eddsa_verify H (tenc pts) (tdec pts) pub msg sig in
      let g := go_verify H (tenc pts) (tdec pts) pub msg sig in
      if (vcode v =? verdict) && Bool.eqb g go_ok then None else Some id
  | CSch25519Sign id sha pts x k msg sig =>
      let H := lookupb sha in
      if list_eqb (schnorr25519_sign H (tenc pts) x k msg) sig then None else Some id
  | CSch25519Verify id sha pts pub msg sig ok =>
      let H := lookupb sha in
      if Bool.eqb (schnorr25519_verify H (tenc pts) (tdec pts) pub msg sig) ok then None else Some id
  | CRingSign id h1 hb msg keys linkable scope pi x u rs sig =>
      let sc := if linkable then Some scope else None in
      let r := ring_sign Q61 penc61 senc61 (h1_61 h1) (hb61 hb) msg (map (of_Z Q61) keys) sc
                         (Z.to_nat pi) (of_Z Q61 x) (of_Z Q61 u) (map (of_Z Q61) rs) in
      if list_eqb r sig then None else Some id
  | CRingVerify id h1 hb msg keys linkable scope sig accepted tag =>
      let sc := if linkable then Some scope else None in
      let r := ring_verify Q61 9 8 penc61 pdec61 sdec61 (h1_61 h1) (hb61 hb) msg (map (of_Z Q61) keys) sc sig in
      if opt_eqb r (optl accepted tag) then None else Some id
  | CPred id b p s =>
      if Bool.eqb (pt_is_canonical b) p && Bool.eqb (sc_is_canonical b) s then None else Some id
  | CSmall id enc small =>
      if Bool.eqb (has_small_order enc) small then None else Some id
  end.

Definition mismatches (cs : list case) : list Z :=
  flat_map (fun c => match check c with Some i => [i] | None => [] end) cs.
