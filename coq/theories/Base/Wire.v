(* Wire format used by the correspondence harness.

   The Go harness writes byte strings and big integers into cases_*.v as lists
   of primitive 63-bit integer literals (7 bytes = 56 bits per word, big-endian
   inside a word, most significant word first), because Coq 8.16 parses
   [0x..%uint63] literals about 12x faster than [Z] numerals.  Nothing in this
   file is used by any property theorem: it only serves to *run* the models on
   the inputs the implementation ran on. *)
From Coq Require Import ZArith List Uint63.
Import ListNotations.
Local Open Scope Z_scope.

(* value of a list of 56-bit words, most significant first *)
Definition zw (ws : list int) : Z :=
  fold_left (fun acc w => acc * 72057594037927936 + Uint63.to_Z w) ws 0.

(* signed integer: sign flag, magnitude words *)
Definition zws (neg : bool) (ws : list int) : Z :=
  if neg then - zw ws else zw ws.

(* the [n] low-order bytes of [v], most significant byte first *)
Fixpoint be_bytes_acc (n : nat) (v : Z) (acc : list Z) : list Z :=
  match n with
  | O => acc
  | S k => be_bytes_acc k (Z.shiftr v 8) (Z.land v 255 :: acc)
  end.

Definition word_bytes (w : int) : list Z := be_bytes_acc 7 (Uint63.to_Z w) [].

(* a byte string of length [len] packed 7 bytes per word; the last word is
   right-padded with zero bytes *)
Definition bs (len : Z) (ws : list int) : list Z :=
  firstn (Z.to_nat len) (flat_map word_bytes ws).

(* numerals inside the word lists are primitive-integer literals *)
Arguments zw ws%uint63.
Arguments zws neg ws%uint63.
Arguments bs len%Z ws%uint63.
