(* Executable model of kyber's proof/dleq/dleq.go and share/pvss/pvss.go
   (Schoenmakers' PVSS).  Definitions only; theorems are in PvssProofs.v.

   Scalars are elements of [zq q]; a point of the prime-order group is modelled
   by its discrete logarithm (Algebra/Grp.v).  Polynomials, commitments and the
   Lagrange recovery are those of the C07 model (Share/ShamirSM.v).

   The hash-to-scalar  Pick(XOF(Hash(P_1 || ... || P_k)))  that produces every
   challenge is a Section variable [Hc] (an arbitrary function of the list of
   hashed points).  The prover's private randomness (the commitment scalars v
   picked from suite.RandomStream()) is an explicit argument. *)
From Coq Require Import ZArith List Bool.
From Kyber Require Import Algebra.Zq Algebra.Grp Share.ShamirSM.
Import ListNotations.
Local Open Scope Z_scope.

Section PVSS.
  Variable q : Z.
  Notation F := (zq q).
  Notation point := (zq q) (only parsing).
  Variable Hc : list point -> F.

  (* ---------------------------------------------------------------- dleq.go *)

  (* dleq.Proof *)
  Record proof := mkProof { pC : F; pR : F; pVG : point; pVH : point }.

  (* the proof NewDLEQProof / NewDLEQProofBatch build for secret x, commitment
     scalar v and challenge c:  r = v - x*c  (r.Mul(x, c).Sub(v, r)) *)
  Definition dleq_proof_c (G H : point) (x v c : F) : proof :=
    mkProof c (zsub v (zmul x c)) (smul v G) (smul v H).

  (* NewDLEQProof: c = hash of yG, yH, vG, vH; returns (proof, yG, yH) *)
  Definition dleq_prove (G H : point) (x v : F) : proof * point * point :=
    let yG := smul x G in
    let yH := smul x H in
    (dleq_proof_c G H x v (Hc [yG; yH; smul v G; smul v H]), yG, yH).

  (* Proof.Verify: vG == rG + c(yG) and vH == rH + c(yH) *)
  Definition dleq_verify (p : proof) (G H yG yH : point) : bool :=
    peqb (pVG p) (padd (smul (pR p) G) (smul (pC p) yG)) &&
    peqb (pVH p) (padd (smul (pR p) H) (smul (pC p) yH)).

  (* NewDLEQProofBatch: one challenge over all yG, all yH, all vG, all vH.
     [None] = ErrDifferentLengths.  [vs] are the picked commitment scalars. *)
  Definition map2 {A B C} (f : A -> B -> C) (a : list A) (b : list B) : list C :=
    map (fun p => f (fst p) (snd p)) (combine a b).

  Definition dleq_prove_batch (Gs Hs : list point) (xs vs : list F)
    : option (list proof * list point * list point) :=
    if negb (Nat.eqb (length Gs) (length Hs) && Nat.eqb (length Hs) (length xs)) then None
    else
      let yG := map2 smul xs Gs in
      let yH := map2 smul xs Hs in
      let vG := map2 smul vs Gs in
      let vH := map2 smul vs Hs in
      let c := Hc (yG ++ yH ++ vG ++ vH) in
      Some (map (fun r => dleq_proof_c (fst (fst r)) (snd (fst r)) (fst (snd r)) (snd (snd r)) c)
                (combine (combine Gs Hs) (combine xs vs)),
            yG, yH).

  (* ---------------------------------------------------------------- pvss.go *)

  (* PubVerShare: share index (uint32), share value, proof *)
  Record pvshare := mkShare { sI : Z; sV : point; sP : proof }.

  (* outcomes: value, error class, panic *)
  Inductive res (A : Type) := ROk (a : A) | RErr (code : Z) | RPanic.
  Arguments ROk {A} a.
  Arguments RErr {A} code.
  Arguments RPanic {A}.

  Definition E_LENGTHS : Z := 1.   (* ErrDifferentLengths *)
  Definition E_TOO_FEW : Z := 2.   (* ErrTooFewShares *)
  Definition E_SHARE : Z := 3.     (* share.RecoverCommit: not enough good public shares *)

  (* verdict of the single-share verifications *)
  Inductive verdict := VOk | VChallenge | VProof | VIndex.
  Definition verdict_ok (v : verdict) : bool := match v with VOk => true | _ => false end.
  Definition verdict_code (v : verdict) : Z :=
    match v with VOk => 0 | VChallenge => 1 | VProof => 2 | VIndex => 3 end.

  (* one encrypted share: ((i, p(i)), (X_i, v_i)) |-> {i, p(i) X_i, proof} *)
  Definition enc_one (H : point) (c : F) (r : (Z * F) * (point * F)) : pvshare :=
    mkShare (fst (fst r)) (smul (snd (fst r)) (fst (snd r)))
            (dleq_proof_c H (fst (snd r)) (snd (fst r)) (snd (snd r)) c).

  (* EncShares (with NewDLEQProofBatch on G_i = H, H_i = X_i, secrets p(i)
     inlined): [coeffs] = secret :: picked coefficients (t of them), [vs] the n
     picked commitment scalars.  t = 0 panics in NewPriPoly; too little
     randomness is outside the model ([RErr 0]). *)
  Definition enc_shares (H : point) (X : list point) (coeffs vs : list F)
    : res (list pvshare * list point) :=
    match coeffs with
    | [] => RPanic
    | _ =>
      let n := length X in
      if negb (Nat.eqb (length vs) n) then RErr 0 else
      let rows := combine (pri_shares coeffs n) (combine X vs) in
      let sH := map (fun r => smul (snd (fst r)) H) rows in
      let sX := map (fun r => smul (snd (fst r)) (fst (snd r))) rows in
      let vG := map (fun r => smul (snd (snd r)) H) rows in
      let vH := map (fun r => smul (snd (snd r)) (fst (snd r))) rows in
      let c := Hc (sH ++ sX ++ vG ++ vH) in
      ROk (map (enc_one H c) rows, commit H coeffs)
    end.

  (* computeCommitments, one index: acc = 0; for j = t-1 .. 1: acc = ith*(acc + C_j);
     acc + C_0.  Indexing polyComs[0] panics on an empty polynomial. *)
  Definition com_at (polyComs : list point) (x : F) : option point :=
    match polyComs with
    | [] => None
    | c0 :: rest => Some (padd (fold_right (fun cj acc => smul x (padd acc cj)) pzero rest) c0)
    end.

  Fixpoint sequence {A} (l : list (option A)) : option (list A) :=
    match l with
    | [] => Some []
    | None :: _ => None
    | Some a :: r => match sequence r with Some r' => Some (a :: r') | None => None end
    end.

  Definition commitments (n : nat) (polyComs : list point) : option (list point) :=
    sequence (map (fun i => com_at polyComs (xeval q i)) (zseq n)).

  Definition chal_input (coms : list point) (enc : list pvshare) : list point :=
    coms ++ map sV enc ++ map (fun e => pVG (sP e)) enc ++ map (fun e => pVH (sP e)) enc.

  (* computeGlobalChallenge; [None] = panic *)
  Definition global_challenge (n : nat) (polyComs : list point) (enc : list pvshare) : option F :=
    match commitments n polyComs with
    | None => None
    | Some coms => Some (Hc (chal_input coms enc))
    end.

  (* VerifyEncShare *)
  Definition verify_enc_share (H X sH : point) (expC : F) (e : pvshare) : verdict :=
    if negb (zeqb (pC (sP e)) expC) then VChallenge
    else if dleq_verify (sP e) H X sH (sV e) then VOk else VProof.

  (* the loop of VerifyEncShareBatch: K = append(K, X[i]); E = append(E, encShares[i]) *)
  Definition enc_batch_step (H : point) (gc : F) (acc : list point * list pvshare)
             (r : point * (point * pvshare)) : list point * list pvshare :=
    if verdict_ok (verify_enc_share H (fst r) (fst (snd r)) gc (snd (snd r)))
    then (fst acc ++ [fst r], snd acc ++ [snd (snd r)]) else acc.

  Definition same_len3 {A B C} (a : list A) (b : list B) (c : list C) : bool :=
    Nat.eqb (length a) (length b) && Nat.eqb (length b) (length c).

  (* VerifyEncShareBatch *)
  Definition verify_enc_share_batch (H : point) (X sH polyComs : list point) (enc : list pvshare)
    : res (list point * list pvshare) :=
    if negb (same_len3 X sH enc) then RErr E_LENGTHS else
    match global_challenge (length X) polyComs enc with
    | None => RPanic
    | Some gc => ROk (fold_left (enc_batch_step H gc) (combine X (combine sH enc)) ([], []))
    end.

  (* decShareChallenge: hash of X, the encrypted share, the decrypted share V,
     vG, vH (in this order) *)
  Definition dec_challenge (X xS V vG vH : point) : F := Hc [X; xS; V; vG; vH].

  (* DecShare: verify, V = x^-1 * S.V, proof of log_G X = log_V xS built in
     place with the challenge covering V; [v] = picked scalar *)
  Definition dec_share (H X sH : point) (x expC : F) (e : pvshare) (v : F) : verdict + pvshare :=
    match verify_enc_share H X sH expC e with
    | VOk =>
        let V := smul (zinv x) (sV e) in
        let vG := smul v pbase in
        let vH := smul v V in
        inr (mkShare (sI e) V (dleq_proof_c pbase V x v (dec_challenge X (sV e) V vG vH)))
    | bad => inl bad
    end.

  (* DecShareBatch: one trustee key x, positions (X_i, sH_i, gc_i, e_i); a
     commitment scalar is picked only for the shares that verify.  [None] = the
     supplied randomness is exhausted (outside the model). *)
  Definition dsb_acc := (list point * list pvshare * list pvshare)%type.

  Fixpoint dec_share_batch_go (H : point) (x : F) (rows : list (point * (point * (F * pvshare))))
           (vs : list F) (acc : dsb_acc) : option dsb_acc :=
    match rows with
    | [] => Some acc
    | r :: rest =>
        match dec_share H (fst r) (fst (snd r)) x (fst (snd (snd r))) (snd (snd (snd r))) (hd zzero vs) with
        | inr d =>
            match vs with
            | [] => None
            | _ :: vs' =>
                dec_share_batch_go H x rest vs'
                  (fst (fst acc) ++ [fst r], snd (fst acc) ++ [snd (snd (snd r))], snd acc ++ [d])
            end
        | inl _ => dec_share_batch_go H x rest vs acc
        end
    end.

  (* indexing expGlobalChallenges[i] panics when that slice is too short *)
  Definition dec_share_batch (H : point) (X sH : list point) (x : F) (gcs : list F)
             (enc : list pvshare) (vs : list F) : option (res dsb_acc) :=
    if negb (same_len3 X sH enc) then Some (RErr E_LENGTHS)
    else if Nat.ltb (length gcs) (length enc) then Some RPanic
    else match dec_share_batch_go H x (combine X (combine sH (combine gcs enc))) vs ([], [], []) with
         | Some a => Some (ROk a)
         | None => None
         end.

  (* VerifyDecShare (repaired code: index check; challenge recomputed over
     X, xS, V, VG, VH) *)
  Definition verify_dec_share (G X : point) (e d : pvshare) : verdict :=
    if negb (sI d =? sI e) then VIndex
    else if negb (zeqb (pC (sP d)) (dec_challenge X (sV e) (sV d) (pVG (sP d)) (pVH (sP d)))) then VChallenge
    else if dleq_verify (sP d) G (sV d) X (sV e) then VOk else VProof.

  (* VerifyDecShare before the repair: the challenge did not cover the
     decrypted share V (a base point of the statement chosen by the prover) *)
  Definition verify_dec_share_unrepaired (G X : point) (e d : pvshare) : verdict :=
    if negb (sI d =? sI e) then VIndex
    else if negb (zeqb (pC (sP d)) (Hc [X; sV e; pVG (sP d); pVH (sP d)])) then VChallenge
    else if dleq_verify (sP d) G (sV d) X (sV e) then VOk else VProof.

  Definition dec_batch_step (G : point) (acc : list pvshare) (r : point * (pvshare * pvshare)) : list pvshare :=
    if verdict_ok (verify_dec_share G (fst r) (fst (snd r)) (snd (snd r))) then acc ++ [snd (snd r)] else acc.

  (* VerifyDecShareBatch; [None] = ErrDifferentLengths *)
  Definition verify_dec_share_batch (G : point) (X : list point) (enc dec : list pvshare)
    : option (list pvshare) :=
    if negb (same_len3 X enc dec) then None
    else Some (fold_left (dec_batch_step G) (combine X (combine enc dec)) []).

  Definition to_entry (d : pvshare) : entry q := Some (sI d, Some (sV d)).

  (* RecoverSecret: filter, refuse below t, share.RecoverCommit *)
  Definition recover_secret (G : point) (X : list point) (enc dec : list pvshare) (t : nat) : res point :=
    match verify_dec_share_batch G X enc dec with
    | None => RErr E_LENGTHS
    | Some D =>
        if Nat.ltb (length D) t then RErr E_TOO_FEW
        else match recover_commit t (map to_entry D) with
             | Some p => ROk p
             | None => RErr E_SHARE
             end
    end.
End PVSS.

Arguments mkProof {q} pC pR pVG pVH.
Arguments pC {q} p.
Arguments pR {q} p.
Arguments pVG {q} p.
Arguments pVH {q} p.
Arguments mkShare {q} sI sV sP.
Arguments sI {q} p.
Arguments sV {q} p.
Arguments sP {q} p.
Arguments ROk {A} a.
Arguments RErr {A} code.
Arguments RPanic {A}.
Arguments dleq_proof_c {q} G H x v c.
Arguments dleq_prove {q} Hc G H x v.
Arguments dleq_verify {q} p G H yG yH.
Arguments dleq_prove_batch {q} Hc Gs Hs xs vs.
Arguments enc_one {q} H c r.
Arguments enc_shares {q} Hc H X coeffs vs.
Arguments com_at {q} polyComs x.
Arguments commitments {q} n polyComs.
Arguments chal_input {q} coms enc.
Arguments global_challenge {q} Hc n polyComs enc.
Arguments verify_enc_share {q} H X sH expC e.
Arguments enc_batch_step {q} H gc acc r.
Arguments verify_enc_share_batch {q} Hc H X sH polyComs enc.
Arguments dec_share {q} Hc H X sH x expC e v.
Arguments dec_share_batch_go {q} Hc H x rows vs acc.
Arguments dec_share_batch {q} Hc H X sH x gcs enc vs.
Arguments dec_challenge {q} Hc X xS V vG vH.
Arguments verify_dec_share {q} Hc G X e d.
Arguments verify_dec_share_unrepaired {q} Hc G X e d.
Arguments dec_batch_step {q} Hc G acc r.
Arguments verify_dec_share_batch {q} Hc G X enc dec.
Arguments to_entry {q} d.
Arguments recover_secret {q} Hc G X enc dec t.
