(* Runner for the C13 correspondence: evaluates the model of proof/dleq and
   share/pvss (PvssSM.v) on the inputs the harness ran the implementation on
   (driven over the transparent discrete-log group, so every scalar and every
   point logarithm is known exactly) and lists the cases whose observations
   differ.  The hash-to-scalar oracle is a finite table computed by the harness
   independently of pvss.go / dleq.go (SHA-256 over the marshalled points, then
   Pick from the BLAKE2Xb XOF).  Not used by any theorem. *)
From Coq Require Import ZArith List Bool.
From Kyber Require Import Algebra.Zq Algebra.Grp Share.ShamirSM PVSS.PvssSM.
Import ListNotations.
Local Open Scope Z_scope.

Fixpoint zlist_eqb (a b : list Z) : bool :=
  match a, b with
  | [], [] => true
  | x :: a', y :: b' => (x =? y) && zlist_eqb a' b'
  | _, _ => false
  end.

(* oracle table: list of (hashed logarithms, challenge); a miss yields 0 and is
   counted by [misses] *)
Definition table := list (list Z * Z).

Fixpoint lookup (t : table) (k : list Z) : option Z :=
  match t with
  | [] => None
  | (k', v) :: r => if zlist_eqb k k' then Some v else lookup r k
  end.

Definition hc (q : Z) (t : table) (l : list (zq q)) : zq q :=
  match lookup t (map val l) with Some v => of_Z q v | None => of_Z q 0 end.

(* wire shares: (index, value, (C, R, VG, VH)) *)
Definition wproof := (Z * Z * Z * Z)%type.
Definition wshare := (Z * Z * wproof)%type.

Definition mk_proof (q : Z) (w : wproof) : proof q :=
  let '(c, r, vg, vh) := w in mkProof (of_Z q c) (of_Z q r) (of_Z q vg) (of_Z q vh).
Definition mk_share (q : Z) (w : wshare) : pvshare q :=
  let '(i, v, p) := w in mkShare i (of_Z q v) (mk_proof q p).

Definition proof_eqb {q} (p : proof q) (w : wproof) : bool :=
  let '(c, r, vg, vh) := w in
  (val (pC p) =? c) && (val (pR p) =? r) && (val (pVG p) =? vg) && (val (pVH p) =? vh).
Definition share_eqb {q} (s : pvshare q) (w : wshare) : bool :=
  let '(i, v, p) := w in (sI s =? i) && (val (sV s) =? v) && proof_eqb (sP s) p.

Fixpoint shares_eqb {q} (a : list (pvshare q)) (b : list wshare) : bool :=
  match a, b with
  | [], [] => true
  | x :: a', y :: b' => share_eqb x y && shares_eqb a' b'
  | _, _ => false
  end.

Fixpoint proofs_eqb {q} (a : list (proof q)) (b : list wproof) : bool :=
  match a, b with
  | [], [] => true
  | x :: a', y :: b' => proof_eqb x y && proofs_eqb a' b'
  | _, _ => false
  end.

Definition zs (q : Z) (l : list Z) : list (zq q) := map (of_Z q) l.
Definition vals {q} (l : list (zq q)) : list Z := map val l.

Definition PANIC : Z := -1.

Inductive case :=
(* NewDLEQProof(G, H, x) with picked v: proof, yG, yH *)
| CDleq (id q : Z) (tbl : table) (G H x v : Z) (p : wproof) (yG yH : Z)
(* NewDLEQProofBatch: None = ErrDifferentLengths *)
| CDleqBatch (id q : Z) (tbl : table) (Gs Hs xs vs : list Z)
             (out : option (list wproof * list Z * list Z))
(* Proof.Verify *)
| CDleqVerify (id q : Z) (p : wproof) (G H yG yH : Z) (ok : bool)
(* EncShares: inl code (-1 panic) | inr (shares, commitments) *)
| CEnc (id q : Z) (tbl : table) (H : Z) (X coeffs vs : list Z)
       (out : Z + (list wshare * list Z))
(* computeCommitments / computeGlobalChallenge: None = panic *)
| CGc (id q : Z) (tbl : table) (n : Z) (commits : list Z) (enc : list wshare)
      (coms : option (list Z)) (gc : option Z)
(* VerifyEncShare: verdict code *)
| CVerEnc (id q : Z) (H X sH gc : Z) (e : wshare) (verdict : Z)
(* VerifyEncShareBatch: inl code | inr (K, E) *)
| CEncBatch (id q : Z) (tbl : table) (H : Z) (X sH commits : list Z) (enc : list wshare)
            (out : Z + (list Z * list wshare))
(* DecShare: inl verdict code | inr share *)
| CDec (id q : Z) (tbl : table) (H X sH x gc : Z) (e : wshare) (v : Z) (out : Z + wshare)
(* DecShareBatch with the picked scalars of the successful positions:
   inl code | inr (K, E, D) *)
| CDecShareBatch (id q : Z) (tbl : table) (H : Z) (X sH : list Z) (x : Z) (gcs : list Z)
                 (enc : list wshare) (vs : list Z) (out : Z + (list Z * list wshare * list wshare))
(* VerifyDecShare: verdict code *)
| CVerDec (id q : Z) (tbl : table) (G X : Z) (e d : wshare) (verdict : Z)
(* VerifyDecShareBatch: None = ErrDifferentLengths *)
| CDecBatch (id q : Z) (tbl : table) (G : Z) (X : list Z) (enc dec : list wshare)
            (out : option (list wshare))
(* RecoverSecret: inl code | inr point *)
| CRecover (id q : Z) (tbl : table) (G : Z) (X : list Z) (enc dec : list wshare) (t : Z)
           (out : Z + Z).

Definition oz_eqb (a b : option Z) : bool :=
  match a, b with
  | None, None => true
  | Some x, Some y => x =? y
  | _, _ => false
  end.

Definition res_code {A} (r : res A) : Z :=
  match r with ROk _ => 0 | RErr c => c | RPanic => PANIC end.

Definition check_case (c : case) : option Z :=
  match c with
  | CDleq id q tbl G H x v p yG yH =>
      let '(p', yG', yH') := dleq_prove (hc q tbl) (of_Z q G) (of_Z q H) (of_Z q x) (of_Z q v) in
      if proof_eqb p' p && (val yG' =? yG) && (val yH' =? yH) then None else Some id
  | CDleqBatch id q tbl Gs Hs xs vs out =>
      let ok :=
        match dleq_prove_batch (hc q tbl) (zs q Gs) (zs q Hs) (zs q xs) (zs q vs), out with
        | None, None => true
        | Some (ps, yG, yH), Some (ps', yG', yH') =>
            proofs_eqb ps ps' && zlist_eqb (vals yG) yG' && zlist_eqb (vals yH) yH'
        | _, _ => false
        end in
      if ok then None else Some id
  | CDleqVerify id q p G H yG yH ok =>
      if Bool.eqb (dleq_verify (mk_proof q p) (of_Z q G) (of_Z q H) (of_Z q yG) (of_Z q yH)) ok
      then None else Some id
  | CEnc id q tbl H X coeffs vs out =>
      let ok :=
        match enc_shares (hc q tbl) (of_Z q H) (zs q X) (zs q coeffs) (zs q vs), out with
        | ROk (sh, cm), inr (sh', cm') => shares_eqb sh sh' && zlist_eqb (vals cm) cm'
        | RErr c, inl c' => c =? c'
        | RPanic, inl c' => c' =? PANIC
        | _, _ => false
        end in
      if ok then None else Some id
  | CGc id q tbl n commits enc coms gc =>
      let e := map (mk_share q) enc in
      let ok :=
        match commitments (Z.to_nat n) (zs q commits), coms with
        | None, None => true
        | Some l, Some l' => zlist_eqb (vals l) l'
        | _, _ => false
        end
        && oz_eqb (option_map val (global_challenge (hc q tbl) (Z.to_nat n) (zs q commits) e)) gc in
      if ok then None else Some id
  | CVerEnc id q H X sH gc e verdict =>
      if verdict_code (verify_enc_share (of_Z q H) (of_Z q X) (of_Z q sH) (of_Z q gc) (mk_share q e)) =? verdict
      then None else Some id
  | CEncBatch id q tbl H X sH commits enc out =>
      let ok :=
        match verify_enc_share_batch (hc q tbl) (of_Z q H) (zs q X) (zs q sH) (zs q commits) (map (mk_share q) enc), out with
        | ROk (K, E), inr (K', E') => zlist_eqb (vals K) K' && shares_eqb E E'
        | RErr c, inl c' => c =? c'
        | RPanic, inl c' => c' =? PANIC
        | _, _ => false
        end in
      if ok then None else Some id
  | CDec id q tbl H X sH x gc e v out =>
      let ok :=
        match dec_share (hc q tbl) (of_Z q H) (of_Z q X) (of_Z q sH) (of_Z q x) (of_Z q gc) (mk_share q e) (of_Z q v), out with
        | inl vd, inl c => verdict_code vd =? c
        | inr d, inr d' => share_eqb d d'
        | _, _ => false
        end in
      if ok then None else Some id
  | CDecShareBatch id q tbl H X sH x gcs enc vs out =>
      let ok :=
        match dec_share_batch (hc q tbl) (of_Z q H) (zs q X) (zs q sH) (of_Z q x) (zs q gcs) (map (mk_share q) enc) (zs q vs), out with
        | Some (ROk (K, E, D)), inr (K', E', D') => zlist_eqb (vals K) K' && shares_eqb E E' && shares_eqb D D'
        | Some (RErr c), inl c' => c =? c'
        | Some RPanic, inl c' => c' =? PANIC
        | _, _ => false
        end in
      if ok then None else Some id
  | CVerDec id q tbl G X e d verdict =>
      if verdict_code (verify_dec_share (hc q tbl) (of_Z q G) (of_Z q X) (mk_share q e) (mk_share q d)) =? verdict
      then None else Some id
  | CDecBatch id q tbl G X enc dec out =>
      let ok :=
        match verify_dec_share_batch (hc q tbl) (of_Z q G) (zs q X) (map (mk_share q) enc) (map (mk_share q) dec), out with
        | None, None => true
        | Some D, Some D' => shares_eqb D D'
        | _, _ => false
        end in
      if ok then None else Some id
  | CRecover id q tbl G X enc dec t out =>
      let ok :=
        match recover_secret (hc q tbl) (of_Z q G) (zs q X) (map (mk_share q) enc) (map (mk_share q) dec) (Z.to_nat t), out with
        | ROk p, inr p' => val p =? p'
        | RErr c, inl c' => c =? c'
        | RPanic, inl c' => c' =? PANIC
        | _, _ => false
        end in
      if ok then None else Some id
  end.

Definition mismatches (cs : list case) : list Z :=
  flat_map (fun c => match check_case c with Some i => [i] | None => [] end) cs.
