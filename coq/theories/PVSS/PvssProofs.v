(* Theorems about the model of proof/dleq and share/pvss (PvssSM.v): property C13.

   Part A: DLEQ proofs: completeness, accept-iff, single-field mutations,
           soundness core.
   Part B: the verification functions of PVSS as accept-iff characterisations,
           single-field mutations and cross-trustee swaps.
   Part C: the batch functions are order-preserving filters.
   Part D: honest runs: all encrypted shares verify, decrypted shares verify,
           any t verified decrypted shares in any order recover secret*G
           (Lagrange recovery: C07's theorems), refusal below t. *)
From Coq Require Import ZArith Znumtheory List Bool Lia Ring Field Permutation.
From Kyber Require Import Algebra.Zq Algebra.Grp Share.ShamirSM Share.PolyFacts Share.ShamirProofs PVSS.PvssSM.
Import ListNotations.

Section PvssProofs.
  Variable q : Z.
  Hypothesis q_prime : prime q.
  Notation F := (zq q).
  Add Field zqF13 : (zq_field q q_prime).

  Variable Hc : list F -> F.

  Local Notation zeqb_eq := (zeqb_eq q).

  Lemma zeqb_refl (a : F) : zeqb a a = true.
  Proof. apply zeqb_eq. reflexivity. Qed.

  Lemma zeqb_neq (a b : F) : a <> b -> zeqb a b = false.
  Proof. intros H. destruct (zeqb a b) eqn:E; [|reflexivity]. apply zeqb_eq in E. contradiction. Qed.

  Lemma zsub_eq_0 (a b : F) : zsub a b = zzero -> a = b.
  Proof. intros H. assert (E : a = zadd (zsub a b) b) by ring. rewrite E, H. ring. Qed.

  Lemma zmul_cancel (a b c : F) : zmul (zsub a b) c = zzero -> a = b \/ c = zzero.
  Proof.
    intros H. destruct (zmul_eq_0 q q_prime _ _ H) as [E|E]; [left; apply zsub_eq_0; exact E|right; exact E].
  Qed.

  (* ================================================================ Part A *)

  (* the two verification equations *)
  Definition dleq_eqs (p : proof q) (G H yG yH : F) : Prop :=
    pVG p = padd (smul (pR p) G) (smul (pC p) yG) /\
    pVH p = padd (smul (pR p) H) (smul (pC p) yH).

  Theorem dleq_accept_iff (p : proof q) (G H yG yH : F) :
    dleq_verify p G H yG yH = true <-> dleq_eqs p G H yG yH.
  Proof.
    unfold dleq_verify, dleq_eqs, peqb. rewrite andb_true_iff, !zeqb_eq. reflexivity.
  Qed.

  (* completeness, for every secret, commitment scalar, challenge and base points *)
  Theorem dleq_complete (G H x v c : F) :
    dleq_verify (dleq_proof_c G H x v c) G H (smul x G) (smul x H) = true.
  Proof.
    apply dleq_accept_iff. unfold dleq_eqs, dleq_proof_c. cbn [pC pR pVG pVH].
    unfold padd, smul. split; ring.
  Qed.

  Theorem dleq_prove_verifies (G H x v : F) :
    let '(p, yG, yH) := dleq_prove Hc G H x v in
    yG = smul x G /\ yH = smul x H /\ dleq_verify p G H yG yH = true.
  Proof.
    unfold dleq_prove. cbv zeta. repeat split. apply dleq_complete.
  Qed.

  (* soundness core: an accepted proof ties the challenge to the commitments
     whenever the statement is false (yG*H <> yH*G, i.e. log_G yG <> log_H yH) *)
  Theorem dleq_sound_core (p : proof q) (G H yG yH : F) :
    dleq_verify p G H yG yH = true ->
    zmul (pC p) (zsub (zmul yG H) (zmul yH G)) = zsub (zmul (pVG p) H) (zmul (pVH p) G).
  Proof.
    intros A. apply dleq_accept_iff in A. destruct A as [A1 A2]. rewrite A1, A2.
    unfold padd, smul. ring.
  Qed.

  (* for a false statement and fixed commitments VG, VH at most one challenge is accepted *)
  Theorem dleq_false_statement_one_challenge (p p' : proof q) (G H yG yH : F) :
    zmul yG H <> zmul yH G ->
    pVG p = pVG p' -> pVH p = pVH p' ->
    dleq_verify p G H yG yH = true -> dleq_verify p' G H yG yH = true ->
    pC p = pC p'.
  Proof.
    intros Hfalse EG EH A A'. apply dleq_sound_core in A. apply dleq_sound_core in A'.
    rewrite <- EG, <- EH in A'. rewrite <- A' in A.
    assert (E : zmul (zsub (pC p) (pC p')) (zsub (zmul yG H) (zmul yH G)) = zzero).
    { transitivity (zsub (zmul (pC p) (zsub (zmul yG H) (zmul yH G))) (zmul (pC p') (zsub (zmul yG H) (zmul yH G)))); [ring|].
      rewrite A. ring. }
    destruct (zmul_cancel _ _ _ E) as [E1|E1]; [exact E1|]. apply zsub_eq_0 in E1. contradiction.
  Qed.

  (* special soundness: two accepting transcripts with the same commitments and
     different challenges yield the common logarithm *)
  Theorem dleq_special_sound (p p' : proof q) (G H yG yH : F) :
    pVG p = pVG p' -> pVH p = pVH p' -> pC p <> pC p' ->
    dleq_verify p G H yG yH = true -> dleq_verify p' G H yG yH = true ->
    let w := zdiv (zsub (pR p') (pR p)) (zsub (pC p) (pC p')) in
    yG = smul w G /\ yH = smul w H.
  Proof.
    intros EG EH Hc' A A'. apply dleq_accept_iff in A. apply dleq_accept_iff in A'.
    destruct A as [A1 A2], A' as [B1 B2]. rewrite <- EG in B1. rewrite <- EH in B2.
    assert (D : zsub (pC p) (pC p') <> zzero) by (intros E; apply zsub_eq_0 in E; contradiction).
    cbv zeta. unfold smul, padd in *. split.
    - assert (K : zmul (zsub (pC p) (pC p')) yG = zmul (zsub (pR p') (pR p)) G).
      { transitivity (zsub (zadd (zmul (pR p') G) (zmul (pC p) yG)) (zadd (zmul (pR p') G) (zmul (pC p') yG))); [ring|].
        rewrite <- B1. rewrite A1. ring. }
      transitivity (zdiv (zmul (zsub (pC p) (pC p')) yG) (zsub (pC p) (pC p'))); [field; exact D|].
      rewrite K. field. exact D.
    - assert (K : zmul (zsub (pC p) (pC p')) yH = zmul (zsub (pR p') (pR p)) H).
      { transitivity (zsub (zadd (zmul (pR p') H) (zmul (pC p) yH)) (zadd (zmul (pR p') H) (zmul (pC p') yH))); [ring|].
        rewrite <- B2. rewrite A2. ring. }
      transitivity (zdiv (zmul (zsub (pC p) (pC p')) yH) (zsub (pC p) (pC p'))); [field; exact D|].
      rewrite K. field. exact D.
  Qed.

  (* single-field mutations of an accepted proof / statement *)
  Definition set_C (p : proof q) (c : F) : proof q := mkProof c (pR p) (pVG p) (pVH p).
  Definition set_R (p : proof q) (r : F) : proof q := mkProof (pC p) r (pVG p) (pVH p).
  Definition set_VG (p : proof q) (g : F) : proof q := mkProof (pC p) (pR p) g (pVH p).
  Definition set_VH (p : proof q) (h : F) : proof q := mkProof (pC p) (pR p) (pVG p) h.

  Lemma reject_of_not_eqs p G H yG yH : ~ dleq_eqs p G H yG yH -> dleq_verify p G H yG yH = false.
  Proof.
    intros N. destruct (dleq_verify p G H yG yH) eqn:E; [|reflexivity].
    apply dleq_accept_iff in E. contradiction.
  Qed.

  Section Mutation.
    Variable p : proof q.
    Variables G H yG yH : F.
    Hypothesis accepted : dleq_verify p G H yG yH = true.

    Let A1 : pVG p = padd (smul (pR p) G) (smul (pC p) yG).
    Proof. apply dleq_accept_iff in accepted. exact (proj1 accepted). Qed.
    Let A2 : pVH p = padd (smul (pR p) H) (smul (pC p) yH).
    Proof. apply dleq_accept_iff in accepted. exact (proj2 accepted). Qed.

    Theorem dleq_mut_C c' : c' <> pC p -> yG <> zzero \/ yH <> zzero ->
      dleq_verify (set_C p c') G H yG yH = false.
    Proof.
      intros Hne Hnz. apply reject_of_not_eqs. unfold dleq_eqs, set_C. cbn [pC pR pVG pVH].
      intros [B1 B2]. rewrite A1 in B1. rewrite A2 in B2. unfold padd, smul in B1, B2.
      assert (E1 : zmul (zsub c' (pC p)) yG = zzero).
      { transitivity (zsub (zadd (zmul (pR p) G) (zmul c' yG)) (zadd (zmul (pR p) G) (zmul (pC p) yG))); [ring|].
        rewrite <- B1. ring. }
      assert (E2 : zmul (zsub c' (pC p)) yH = zzero).
      { transitivity (zsub (zadd (zmul (pR p) H) (zmul c' yH)) (zadd (zmul (pR p) H) (zmul (pC p) yH))); [ring|].
        rewrite <- B2. ring. }
      destruct (zmul_cancel _ _ _ E1) as [|Z1]; [contradiction|].
      destruct (zmul_cancel _ _ _ E2) as [|Z2]; [contradiction|].
      destruct Hnz; contradiction.
    Qed.

    Theorem dleq_mut_R r' : r' <> pR p -> G <> zzero \/ H <> zzero ->
      dleq_verify (set_R p r') G H yG yH = false.
    Proof.
      intros Hne Hnz. apply reject_of_not_eqs. unfold dleq_eqs, set_R. cbn [pC pR pVG pVH].
      intros [B1 B2]. rewrite A1 in B1. rewrite A2 in B2. unfold padd, smul in B1, B2.
      assert (E1 : zmul (zsub r' (pR p)) G = zzero).
      { transitivity (zsub (zadd (zmul r' G) (zmul (pC p) yG)) (zadd (zmul (pR p) G) (zmul (pC p) yG))); [ring|].
        rewrite <- B1. ring. }
      assert (E2 : zmul (zsub r' (pR p)) H = zzero).
      { transitivity (zsub (zadd (zmul r' H) (zmul (pC p) yH)) (zadd (zmul (pR p) H) (zmul (pC p) yH))); [ring|].
        rewrite <- B2. ring. }
      destruct (zmul_cancel _ _ _ E1) as [|Z1]; [contradiction|].
      destruct (zmul_cancel _ _ _ E2) as [|Z2]; [contradiction|].
      destruct Hnz; contradiction.
    Qed.

    Theorem dleq_mut_VG g' : g' <> pVG p -> dleq_verify (set_VG p g') G H yG yH = false.
    Proof.
      intros Hne. apply reject_of_not_eqs. unfold dleq_eqs, set_VG. cbn [pC pR pVG pVH].
      intros [B1 _]. rewrite <- A1 in B1. contradiction.
    Qed.

    Theorem dleq_mut_VH h' : h' <> pVH p -> dleq_verify (set_VH p h') G H yG yH = false.
    Proof.
      intros Hne. apply reject_of_not_eqs. unfold dleq_eqs, set_VH. cbn [pC pR pVG pVH].
      intros [_ B2]. rewrite <- A2 in B2. contradiction.
    Qed.

    Theorem dleq_mut_yG yG' : yG' <> yG -> pC p <> zzero -> dleq_verify p G H yG' yH = false.
    Proof.
      intros Hne Hnz. apply reject_of_not_eqs. unfold dleq_eqs. intros [B1 _].
      rewrite A1 in B1. unfold padd, smul in B1.
      assert (E : zmul (zsub yG' yG) (pC p) = zzero).
      { transitivity (zsub (zadd (zmul (pR p) G) (zmul (pC p) yG')) (zadd (zmul (pR p) G) (zmul (pC p) yG))); [ring|].
        rewrite <- B1. ring. }
      destruct (zmul_cancel _ _ _ E); contradiction.
    Qed.

    Theorem dleq_mut_yH yH' : yH' <> yH -> pC p <> zzero -> dleq_verify p G H yG yH' = false.
    Proof.
      intros Hne Hnz. apply reject_of_not_eqs. unfold dleq_eqs. intros [_ B2].
      rewrite A2 in B2. unfold padd, smul in B2.
      assert (E : zmul (zsub yH' yH) (pC p) = zzero).
      { transitivity (zsub (zadd (zmul (pR p) H) (zmul (pC p) yH')) (zadd (zmul (pR p) H) (zmul (pC p) yH))); [ring|].
        rewrite <- B2. ring. }
      destruct (zmul_cancel _ _ _ E); contradiction.
    Qed.

    Theorem dleq_mut_G G' : G' <> G -> pR p <> zzero -> dleq_verify p G' H yG yH = false.
    Proof.
      intros Hne Hnz. apply reject_of_not_eqs. unfold dleq_eqs. intros [B1 _].
      rewrite A1 in B1. unfold padd, smul in B1.
      assert (E : zmul (zsub G' G) (pR p) = zzero).
      { transitivity (zsub (zadd (zmul (pR p) G') (zmul (pC p) yG)) (zadd (zmul (pR p) G) (zmul (pC p) yG))); [ring|].
        rewrite <- B1. ring. }
      destruct (zmul_cancel _ _ _ E); contradiction.
    Qed.

    Theorem dleq_mut_H H' : H' <> H -> pR p <> zzero -> dleq_verify p G H' yG yH = false.
    Proof.
      intros Hne Hnz. apply reject_of_not_eqs. unfold dleq_eqs. intros [_ B2].
      rewrite A2 in B2. unfold padd, smul in B2.
      assert (E : zmul (zsub H' H) (pR p) = zzero).
      { transitivity (zsub (zadd (zmul (pR p) H') (zmul (pC p) yH)) (zadd (zmul (pR p) H) (zmul (pC p) yH))); [ring|].
        rewrite <- B2. ring. }
      destruct (zmul_cancel _ _ _ E); contradiction.
    Qed.
  End Mutation.

  (* all single-field mutations in one statement *)
  Theorem dleq_single_field_rejects (p : proof q) (G H yG yH : F) :
    dleq_verify p G H yG yH = true ->
    (forall c', c' <> pC p -> yG <> zzero \/ yH <> zzero -> dleq_verify (set_C p c') G H yG yH = false) /\
    (forall r', r' <> pR p -> G <> zzero \/ H <> zzero -> dleq_verify (set_R p r') G H yG yH = false) /\
    (forall g', g' <> pVG p -> dleq_verify (set_VG p g') G H yG yH = false) /\
    (forall h', h' <> pVH p -> dleq_verify (set_VH p h') G H yG yH = false) /\
    (forall yG', yG' <> yG -> pC p <> zzero -> dleq_verify p G H yG' yH = false) /\
    (forall yH', yH' <> yH -> pC p <> zzero -> dleq_verify p G H yG yH' = false) /\
    (forall G', G' <> G -> pR p <> zzero -> dleq_verify p G' H yG yH = false) /\
    (forall H', H' <> H -> pR p <> zzero -> dleq_verify p G H' yG yH = false).
  Proof.
    intros A. repeat split; intros.
    - apply dleq_mut_C; assumption.
    - apply dleq_mut_R; assumption.
    - apply dleq_mut_VG; assumption.
    - apply dleq_mut_VH; assumption.
    - apply dleq_mut_yG with (yG := yG); assumption.
    - apply dleq_mut_yH with (yH := yH); assumption.
    - apply dleq_mut_G with (G := G); assumption.
    - apply dleq_mut_H with (H := H); assumption.
  Qed.

  (* the side conditions are tight: the challenge of a proof about the neutral
     element is not bound by Verify alone (PVSS binds it by recomputing the hash) *)
  Theorem dleq_C_free_on_neutral (p : proof q) (G H : F) c' :
    dleq_verify p G H zzero zzero = true -> dleq_verify (set_C p c') G H zzero zzero = true.
  Proof.
    intros A. apply dleq_accept_iff in A. destruct A as [A1 A2]. apply dleq_accept_iff.
    unfold dleq_eqs, set_C. cbn [pC pR pVG pVH]. rewrite A1, A2. unfold padd, smul. split; ring.
  Qed.

  (* ================================================================ Part B *)

  Theorem enc_verifies_iff (H X sH gc : F) (e : pvshare q) :
    verify_enc_share H X sH gc e = VOk <->
    pC (sP e) = gc /\ dleq_eqs (sP e) H X sH (sV e).
  Proof.
    unfold verify_enc_share. destruct (zeqb (pC (sP e)) gc) eqn:E; cbn [negb].
    - apply zeqb_eq in E. destruct (dleq_verify (sP e) H X sH (sV e)) eqn:V.
      + apply dleq_accept_iff in V. split; auto.
      + split; [discriminate|]. intros [_ K]. apply dleq_accept_iff in K. congruence.
    - split; [discriminate|]. intros [K _]. apply zeqb_eq in K. congruence.
  Qed.

  Theorem dec_verifies_iff (G X : F) (e d : pvshare q) :
    verify_dec_share Hc G X e d = VOk <->
    sI d = sI e /\ pC (sP d) = Hc [X; sV e; sV d; pVG (sP d); pVH (sP d)] /\
    dleq_eqs (sP d) G (sV d) X (sV e).
  Proof.
    unfold verify_dec_share, dec_challenge. destruct (Z.eqb_spec (sI d) (sI e)) as [EI|NI]; cbn [negb].
    - destruct (zeqb (pC (sP d)) (Hc [X; sV e; sV d; pVG (sP d); pVH (sP d)])) eqn:E; cbn [negb].
      + apply zeqb_eq in E. destruct (dleq_verify (sP d) G (sV d) X (sV e)) eqn:V.
        * apply dleq_accept_iff in V. split; auto.
        * split; [discriminate|]. intros [_ [_ K]]. apply dleq_accept_iff in K. congruence.
      + split; [discriminate|]. intros [_ [K _]]. apply zeqb_eq in K. congruence.
    - split; [discriminate|]. intros [K _]. contradiction.
  Qed.

  Definition set_P (e : pvshare q) (p : proof q) : pvshare q := mkShare (sI e) (sV e) p.
  Definition set_V (e : pvshare q) (v : F) : pvshare q := mkShare (sI e) v (sP e).
  Definition set_I (e : pvshare q) (i : Z) : pvshare q := mkShare i (sV e) (sP e).

  (* every single-field change of an accepted encrypted share, of its proof, of
     the trustee key (= cross-trustee swap), of the commitment sH (= changed
     commitment polynomial or share index) or of the expected challenge *)
  Theorem enc_single_field_rejects (H X sH gc : F) (e : pvshare q) :
    verify_enc_share H X sH gc e = VOk ->
    (forall c', c' <> pC (sP e) -> verify_enc_share H X sH gc (set_P e (set_C (sP e) c')) = VChallenge) /\
    (forall r', r' <> pR (sP e) -> H <> zzero \/ X <> zzero ->
                verify_enc_share H X sH gc (set_P e (set_R (sP e) r')) = VProof) /\
    (forall g', g' <> pVG (sP e) -> verify_enc_share H X sH gc (set_P e (set_VG (sP e) g')) = VProof) /\
    (forall h', h' <> pVH (sP e) -> verify_enc_share H X sH gc (set_P e (set_VH (sP e) h')) = VProof) /\
    (forall v', v' <> sV e -> gc <> zzero -> verify_enc_share H X sH gc (set_V e v') = VProof) /\
    (forall X', X' <> X -> pR (sP e) <> zzero -> verify_enc_share H X' sH gc e = VProof) /\
    (forall sH', sH' <> sH -> gc <> zzero -> verify_enc_share H X sH' gc e = VProof) /\
    (forall gc', gc' <> gc -> verify_enc_share H X sH gc' e = VChallenge).
  Proof.
    intros A. apply enc_verifies_iff in A. destruct A as [EC A]. apply dleq_accept_iff in A.
    unfold verify_enc_share, set_P, set_V. cbn [sP sV sI].
    repeat split.
    - intros c' Hne. unfold set_C. cbn [pC]. rewrite zeqb_neq by congruence. reflexivity.
    - intros r' Hne Hnz. unfold set_R at 1. cbn [pC]. rewrite EC, zeqb_refl. cbn [negb].
      rewrite dleq_mut_R; auto.
    - intros g' Hne. unfold set_VG at 1. cbn [pC]. rewrite EC, zeqb_refl. cbn [negb].
      rewrite dleq_mut_VG; auto.
    - intros h' Hne. unfold set_VH at 1. cbn [pC]. rewrite EC, zeqb_refl. cbn [negb].
      rewrite dleq_mut_VH; auto.
    - intros v' Hne Hnz. rewrite EC, zeqb_refl. cbn [negb].
      rewrite (dleq_mut_yH _ _ _ _ _ A); auto. congruence.
    - intros X' Hne Hnz. rewrite EC, zeqb_refl. cbn [negb].
      rewrite (dleq_mut_H _ _ _ _ _ A); auto.
    - intros sH' Hne Hnz. rewrite EC, zeqb_refl. cbn [negb].
      rewrite (dleq_mut_yG _ _ _ _ _ A); auto. congruence.
    - intros gc' Hne. rewrite zeqb_neq by congruence. reflexivity.
  Qed.

  (* cross-trustee swap of an encrypted share: a share accepted for trustee key
     X is rejected under every other key X' (unless its response is 0) *)
  Corollary enc_swap_rejected (H X X' sH gc : F) (e : pvshare q) :
    verify_enc_share H X sH gc e = VOk -> X' <> X -> pR (sP e) <> zzero ->
    verify_enc_share H X' sH gc e = VProof.
  Proof. intros A. apply (enc_single_field_rejects H X sH gc e A). Qed.

  (* every single-field change of an accepted decrypted share *)
  Theorem dec_single_field_rejects (G X : F) (e d : pvshare q) :
    verify_dec_share Hc G X e d = VOk ->
    (forall i', i' <> sI d -> verify_dec_share Hc G X e (set_I d i') = VIndex) /\
    (forall i', i' <> sI e -> verify_dec_share Hc G X (set_I e i') d = VIndex) /\
    (forall c', c' <> pC (sP d) -> verify_dec_share Hc G X e (set_P d (set_C (sP d) c')) = VChallenge) /\
    (forall r', r' <> pR (sP d) -> G <> zzero \/ sV d <> zzero ->
                verify_dec_share Hc G X e (set_P d (set_R (sP d) r')) = VProof) /\
    (forall g', g' <> pVG (sP d) -> verdict_ok (verify_dec_share Hc G X e (set_P d (set_VG (sP d) g'))) = false) /\
    (forall h', h' <> pVH (sP d) -> verdict_ok (verify_dec_share Hc G X e (set_P d (set_VH (sP d) h'))) = false) /\
    (forall v', v' <> sV d -> pR (sP d) <> zzero -> verdict_ok (verify_dec_share Hc G X e (set_V d v')) = false) /\
    (forall s', s' <> sV e -> pC (sP d) <> zzero -> verdict_ok (verify_dec_share Hc G X (set_V e s') d) = false) /\
    (forall X', X' <> X -> pC (sP d) <> zzero -> verdict_ok (verify_dec_share Hc G X' e d) = false).
  Proof.
    intros A. apply dec_verifies_iff in A. unfold verify_dec_share, dec_challenge. destruct A as [EI [EC A]]. apply dleq_accept_iff in A.
    repeat split.
    - intros i' Hne. unfold verify_dec_share, set_I. cbn [sI].
      destruct (Z.eqb_spec i' (sI e)); [congruence|reflexivity].
    - intros i' Hne. unfold verify_dec_share, set_I. cbn [sI].
      destruct (Z.eqb_spec (sI d) i'); [congruence|reflexivity].
    - intros c' Hne. unfold verify_dec_share, set_P, set_C. cbn [sI sP sV pC pVG pVH].
      rewrite EI, Z.eqb_refl. cbn [negb]. rewrite zeqb_neq by congruence. reflexivity.
    - intros r' Hne Hnz. unfold verify_dec_share, set_P. cbn [sI sP sV].
      rewrite EI, Z.eqb_refl. cbn [negb]. unfold set_R at 1 2 3. cbn [pC pVG pVH].
      rewrite <- EC, zeqb_refl. cbn [negb]. rewrite dleq_mut_R; auto.
    - intros g' Hne. unfold verify_dec_share, set_P. cbn [sI sP sV].
      rewrite EI, Z.eqb_refl. cbn [negb].
      destruct (negb (zeqb (pC (set_VG (sP d) g')) _)); [reflexivity|].
      rewrite dleq_mut_VG; auto.
    - intros h' Hne. unfold verify_dec_share, set_P. cbn [sI sP sV].
      rewrite EI, Z.eqb_refl. cbn [negb].
      destruct (negb (zeqb (pC (set_VH (sP d) h')) _)); [reflexivity|].
      rewrite dleq_mut_VH; auto.
    - intros v' Hne Hnz. unfold verify_dec_share, set_V. cbn [sI sP sV].
      rewrite EI, Z.eqb_refl. cbn [negb].
      destruct (negb (zeqb (pC (sP d)) _)); [reflexivity|].
      rewrite (dleq_mut_H _ _ _ _ _ A); auto.
    - intros s' Hne Hnz. unfold verify_dec_share, set_V. cbn [sI sP sV].
      rewrite EI, Z.eqb_refl. cbn [negb].
      destruct (negb (zeqb (pC (sP d)) _)); [reflexivity|].
      rewrite (dleq_mut_yH _ _ _ _ _ A); auto.
    - intros X' Hne Hnz. unfold verify_dec_share.
      rewrite EI, Z.eqb_refl. cbn [negb].
      destruct (negb (zeqb (pC (sP d)) _)); [reflexivity|].
      rewrite (dleq_mut_yG _ _ _ _ _ A); auto.
  Qed.

  (* cross-trustee swap of a decrypted share: share j in the slot of trustee i
     is rejected because of its index, and (independently of the index) because
     one proof cannot satisfy the equations for two different keys *)
  Theorem dec_swap_rejected_index (G X : F) (e d : pvshare q) :
    sI d <> sI e -> verify_dec_share Hc G X e d = VIndex.
  Proof.
    intros Hne. unfold verify_dec_share. destruct (Z.eqb_spec (sI d) (sI e)); [contradiction|reflexivity].
  Qed.

  Theorem dec_swap_rejected_key (G X X' : F) (e e' d : pvshare q) :
    verify_dec_share Hc G X e d = VOk -> verify_dec_share Hc G X' e' d = VOk ->
    X' <> X -> pC (sP d) = zzero.
  Proof.
    intros A B Hne. apply dec_verifies_iff in A. apply dec_verifies_iff in B.
    destruct A as [_ [_ [A1 _]]], B as [_ [_ [B1 _]]]. rewrite A1 in B1. unfold padd, smul in B1.
    assert (E : zmul (zsub X' X) (pC (sP d)) = zzero).
    { transitivity (zsub (zadd (zmul (pR (sP d)) G) (zmul (pC (sP d)) X')) (zadd (zmul (pR (sP d)) G) (zmul (pC (sP d)) X))); [ring|].
      rewrite <- B1. ring. }
    destruct (zmul_cancel _ _ _ E); [contradiction|assumption].
  Qed.

  (* ================================================================ Part C *)

  Definition enc_ok (H gc : F) (r : F * (F * pvshare q)) : bool :=
    verdict_ok (verify_enc_share H (fst r) (fst (snd r)) gc (snd (snd r))).
  Definition dec_ok (G : F) (r : F * (pvshare q * pvshare q)) : bool :=
    verdict_ok (verify_dec_share Hc G (fst r) (fst (snd r)) (snd (snd r))).

  Lemma enc_fold (H gc : F) : forall rows acc,
    fold_left (enc_batch_step H gc) rows acc =
    (fst acc ++ map fst (filter (enc_ok H gc) rows),
     snd acc ++ map (fun r => snd (snd r)) (filter (enc_ok H gc) rows)).
  Proof.
    induction rows as [|r rows IH]; intros [K E].
    - cbn. rewrite !app_nil_r. reflexivity.
    - cbn [fold_left filter]. rewrite IH. unfold enc_batch_step, enc_ok.
      destruct (verdict_ok (verify_enc_share H (fst r) (fst (snd r)) gc (snd (snd r)))); cbn [fst snd map].
      + rewrite <- !app_assoc. reflexivity.
      + reflexivity.
  Qed.

  Lemma dec_fold (G : F) : forall rows acc,
    fold_left (dec_batch_step Hc G) rows acc = acc ++ map (fun r => snd (snd r)) (filter (dec_ok G) rows).
  Proof.
    induction rows as [|r rows IH]; intros acc.
    - cbn. rewrite app_nil_r. reflexivity.
    - cbn [fold_left filter]. rewrite IH. unfold dec_batch_step, dec_ok.
      destruct (verdict_ok (verify_dec_share Hc G (fst r) (fst (snd r)) (snd (snd r)))); cbn [map].
      + rewrite <- app_assoc. reflexivity.
      + reflexivity.
  Qed.

  Lemma same_len3_true {A B C} (a : list A) (b : list B) (c : list C) :
    same_len3 a b c = true <-> length a = length b /\ length b = length c.
  Proof. unfold same_len3. rewrite andb_true_iff, !Nat.eqb_eq. reflexivity. Qed.

  (* VerifyEncShareBatch returns exactly the keys and shares of the individually
     verifying positions, in order *)
  Theorem enc_batch_filter_spec (H : F) (X sH cm : list F) (enc : list (pvshare q)) gc :
    length X = length sH -> length sH = length enc ->
    global_challenge Hc (length X) cm enc = Some gc ->
    let kept := filter (enc_ok H gc) (combine X (combine sH enc)) in
    verify_enc_share_batch Hc H X sH cm enc = ROk (map fst kept, map (fun r => snd (snd r)) kept).
  Proof.
    intros L1 L2 Hg. cbv zeta. unfold verify_enc_share_batch.
    assert (S : same_len3 X sH enc = true) by (apply same_len3_true; auto).
    rewrite S. cbn [negb]. rewrite Hg. rewrite enc_fold. reflexivity.
  Qed.

  Theorem enc_batch_lengths (H : F) (X sH cm : list F) (enc : list (pvshare q)) :
    length X <> length sH \/ length sH <> length enc ->
    verify_enc_share_batch Hc H X sH cm enc = RErr E_LENGTHS.
  Proof.
    intros L. unfold verify_enc_share_batch. destruct (same_len3 X sH enc) eqn:S; [|reflexivity].
    apply same_len3_true in S. destruct S, L; contradiction.
  Qed.

  (* the decrypted shares VerifyDecShareBatch / RecoverSecret keep *)
  Definition verified (G : F) (X : list F) (enc dec : list (pvshare q)) : list (pvshare q) :=
    map (fun r => snd (snd r)) (filter (dec_ok G) (combine X (combine enc dec))).

  Theorem dec_batch_filter_spec (G : F) (X : list F) (enc dec : list (pvshare q)) :
    length X = length enc -> length enc = length dec ->
    verify_dec_share_batch Hc G X enc dec = Some (verified G X enc dec).
  Proof.
    intros L1 L2. unfold verify_dec_share_batch.
    assert (S : same_len3 X enc dec = true) by (apply same_len3_true; auto).
    rewrite S. cbn [negb]. rewrite dec_fold. reflexivity.
  Qed.

  Theorem dec_batch_lengths (G : F) (X : list F) (enc dec : list (pvshare q)) :
    length X <> length enc \/ length enc <> length dec ->
    verify_dec_share_batch Hc G X enc dec = None.
  Proof.
    intros L. unfold verify_dec_share_batch. destruct (same_len3 X enc dec) eqn:S; [|reflexivity].
    apply same_len3_true in S. destruct S, L; contradiction.
  Qed.


  (* ================================================================ Part D *)

  (* computeCommitments is the evaluation of the commitment polynomial *)
  Lemma com_at_eval (cs : list F) (x : F) : cs <> [] -> com_at cs x = Some (pub_peval cs x).
  Proof.
    destruct cs as [|c0 rest]; [congruence|]. intros _. unfold com_at. f_equal.
    unfold pub_peval. cbn [fold_right]. f_equal.
    induction rest as [|c r IH]; cbn [fold_right].
    - unfold smul, pzero. ring.
    - rewrite IH. reflexivity.
  Qed.

  Lemma sequence_map_some {A B} (f : A -> option B) (g : A -> B) : forall l,
    (forall a, In a l -> f a = Some (g a)) -> sequence (map f l) = Some (map g l).
  Proof.
    induction l as [|a l IH]; intros Hf; [reflexivity|].
    cbn [map sequence]. rewrite (Hf a (or_introl eq_refl)). rewrite IH; [reflexivity|].
    intros b Hb. apply Hf. right. exact Hb.
  Qed.

  Lemma commitments_eval (n : nat) (cs : list F) : cs <> [] ->
    commitments n cs = Some (map (fun i => snd (pub_eval cs i)) (zseq n)).
  Proof.
    intros Hne. unfold commitments. apply sequence_map_some. intros i _.
    rewrite com_at_eval by exact Hne. reflexivity.
  Qed.

  Lemma commit_nonempty (H : F) (c : list F) : c <> [] -> commit H c <> [].
  Proof. destruct c; [congruence|]. intros _. unfold commit. cbn. discriminate. Qed.

  Lemma eval_commit (H : F) (coeffs : list F) (i : Z) :
    snd (pub_eval (commit H coeffs) i) = smul (peval coeffs (xeval q i)) H.
  Proof.
    unfold pub_eval. cbn [snd]. rewrite (pub_peval_eq q q_prime). apply (peval_commit q q_prime).
  Qed.

  Lemma map_fst_combine {A B C} (f : A -> C) : forall (a : list A) (b : list B),
    length a = length b -> map (fun r => f (fst r)) (combine a b) = map f a.
  Proof.
    induction a as [|x a IH]; intros [|y b] L; try discriminate; [reflexivity|].
    cbn. f_equal. apply IH. cbn in L. lia.
  Qed.

  Lemma zseq_length n : length (zseq n) = n.
  Proof. unfold zseq. rewrite map_length, seq_length. reflexivity. Qed.

  Lemma pri_shares_length (c : list F) n : length (pri_shares c n) = n.
  Proof. unfold pri_shares. rewrite map_length. apply zseq_length. Qed.

  Lemma pri_shares_in (c : list F) n s : In s (pri_shares c n) ->
    snd s = peval c (xeval q (fst s)) /\ (0 <= fst s < Z.of_nat n)%Z.
  Proof.
    unfold pri_shares, zseq. rewrite map_map. intros Hs. apply in_map_iff in Hs.
    destruct Hs as [k [<- Hk]]. apply in_seq in Hk. unfold pri_eval. cbn [fst snd]. split; [reflexivity|lia].
  Qed.

  Definition sH_of (cm : list F) (e : pvshare q) : F := snd (pub_eval cm (sI e)).

  (* an honestly produced encrypted share for (index i, key X, randomness v) *)
  Definition honest_enc (H gc : F) (coeffs : list F) (n : nat) (X : F) (e : pvshare q) : Prop :=
    exists i v, (0 <= i < Z.of_nat n)%Z /\ e = enc_one H gc ((i, peval coeffs (xeval q i)), (X, v)).

  Lemma honest_enc_verifies (H gc : F) (coeffs : list F) n X e :
    honest_enc H gc coeffs n X e ->
    verify_enc_share H X (sH_of (commit H coeffs) e) gc e = VOk.
  Proof.
    intros [i [v [_ ->]]]. apply enc_verifies_iff. unfold sH_of, enc_one. cbn [sI sV sP fst snd].
    split; [reflexivity|]. rewrite eval_commit. apply dleq_accept_iff. apply dleq_complete.
  Qed.

  Lemma honest_enc_rows (H gc : F) (coeffs : list F) n : forall (X : list F) ps vs,
    length ps = length X -> length vs = length X ->
    (forall s, In s ps -> snd s = peval coeffs (xeval q (fst s)) /\ (0 <= fst s < Z.of_nat n)%Z) ->
    Forall2 (honest_enc H gc coeffs n) X (map (enc_one H gc) (combine ps (combine X vs))).
  Proof.
    induction X as [|x X IH]; intros [|s ps] [|v vs] L1 L2 Hps; try discriminate; cbn [combine map]; constructor.
    - destruct s as [i y]. destruct (Hps (i, y) (or_introl eq_refl)) as [E R]. cbn [fst snd] in E, R.
      exists i, v. split; [exact R|]. rewrite E. reflexivity.
    - apply IH; cbn in L1, L2; try lia. intros s' Hs'. apply Hps. right. exact Hs'.
  Qed.

  Lemma Forall2_imp {A B} (P Q : A -> B -> Prop) (l : list A) (l' : list B) :
    Forall2 P l l' -> (forall a b, P a b -> Q a b) -> Forall2 Q l l'.
  Proof. intros HF HI. induction HF; constructor; auto. Qed.

  Lemma enc_batch_all (H gc : F) (cm : list F) : forall (X : list F) (shares : list (pvshare q)),
    Forall2 (fun x e => verify_enc_share H x (sH_of cm e) gc e = VOk) X shares ->
    forall acc, fold_left (enc_batch_step H gc) (combine X (combine (map (sH_of cm) shares) shares)) acc
                = (fst acc ++ X, snd acc ++ shares).
  Proof.
    induction 1 as [|x e X shares Hv _ IH]; intros [K E].
    - cbn. rewrite !app_nil_r. reflexivity.
    - cbn [map combine fold_left]. unfold enc_batch_step at 2. cbn [fst snd]. rewrite Hv. cbn [verdict_ok].
      rewrite IH. cbn [fst snd]. rewrite <- !app_assoc. reflexivity.
  Qed.

  (* EncShares: every produced share is honest for its trustee key, carries the
     global challenge the verifier recomputes, verifies individually, and the
     batch verification keeps all keys and shares *)
  Theorem pvss_enc_honest (H : F) (X : list F) (coeffs vs : list F) shares cm :
    enc_shares Hc H X coeffs vs = ROk (shares, cm) ->
    cm = commit H coeffs /\ length shares = length X /\
    map sI shares = zseq (length X) /\
    exists gc, global_challenge Hc (length X) cm shares = Some gc /\
      Forall2 (honest_enc H gc coeffs (length X)) X shares /\
      Forall2 (fun x e => verify_enc_share H x (sH_of cm e) gc e = VOk) X shares /\
      verify_enc_share_batch Hc H X (map (sH_of cm) shares) cm shares = ROk (X, shares).
  Proof.
    unfold enc_shares. destruct coeffs as [|c0 cr] eqn:Ec; [discriminate|]. rewrite <- Ec.
    assert (Hne : coeffs <> []) by (rewrite Ec; discriminate).
    destruct (Nat.eqb (length vs) (length X)) eqn:Lv; cbn [negb]; [|discriminate].
    apply Nat.eqb_eq in Lv. cbv zeta.
    set (n := length X). set (ps := pri_shares coeffs n). set (rows := combine ps (combine X vs)).
    set (c := Hc _). intros E. injection E as <- <-.
    assert (Lps : length ps = length X) by (apply pri_shares_length).
    assert (Lrows : length rows = n).
    { unfold rows. rewrite combine_length, combine_length, Lps, Lv. fold n. lia. }
    assert (HH : Forall2 (honest_enc H c coeffs n) X (map (enc_one H c) rows)).
    { apply honest_enc_rows; auto. intros s Hs. apply (pri_shares_in coeffs n s Hs). }
    assert (HV : Forall2 (fun x e => verify_enc_share H x (sH_of (commit H coeffs) e) c e = VOk) X (map (enc_one H c) rows)).
    { apply (Forall2_imp _ _ _ _ HH). intros x e He. eapply honest_enc_verifies. exact He. }
    assert (HI : map sI (map (enc_one H c) rows) = zseq n).
    { rewrite map_map. unfold enc_one. cbn [sI]. unfold rows.
      rewrite (map_fst_combine (fun s : Z * F => fst s) ps (combine X vs)) by (rewrite combine_length, Lv, Lps; lia).
      unfold ps, pri_shares. rewrite map_map. unfold pri_eval. cbn [fst]. apply map_id. }
    assert (HG : global_challenge Hc n (commit H coeffs) (map (enc_one H c) rows) = Some c).
    { unfold global_challenge. rewrite commitments_eval by (apply commit_nonempty; exact Hne).
      f_equal. unfold c, chal_input. f_equal. rewrite !map_map. unfold enc_one. cbn [sV sP pVG pVH dleq_proof_c].
      f_equal. unfold rows.
      rewrite (map_fst_combine (fun s : Z * F => smul (snd s) H) ps (combine X vs)) by (rewrite combine_length, Lv, Lps; lia).
      unfold ps, pri_shares. rewrite map_map. apply map_ext. intros i. rewrite eval_commit. reflexivity. }
    split; [reflexivity|]. split; [rewrite map_length; exact Lrows|]. split; [exact HI|].
    exists c. split; [exact HG|]. split; [exact HH|]. split; [exact HV|].
    unfold verify_enc_share_batch.
    assert (S : same_len3 X (map (sH_of (commit H coeffs)) (map (enc_one H c) rows)) (map (enc_one H c) rows) = true).
    { apply same_len3_true. rewrite !map_length, Lrows. split; reflexivity. }
    rewrite S. cbn [negb]. fold n. rewrite HG. rewrite (enc_batch_all H c (commit H coeffs) X _ HV). reflexivity.
  Qed.

  (* DecShare refuses exactly the shares VerifyEncShare refuses *)
  Theorem dec_share_refuses (H X sH x gc : F) (e : pvshare q) (v : F) :
    verify_enc_share H X sH gc e <> VOk ->
    dec_share Hc H X sH x gc e v = inl (verify_enc_share H X sH gc e).
  Proof. intros N. unfold dec_share. destruct (verify_enc_share H X sH gc e); congruence. Qed.

  (* DecShare on a verifying share with the key pair (x, X = xG): the result
     keeps the index, is x^-1 * S and verifies *)
  Theorem pvss_dec_honest (H X sH x gc : F) (e : pvshare q) (v : F) :
    x <> zzero -> X = smul x pbase -> verify_enc_share H X sH gc e = VOk ->
    exists d, dec_share Hc H X sH x gc e v = inr d /\
              sI d = sI e /\ sV d = smul (zinv x) (sV e) /\
              verify_dec_share Hc pbase X e d = VOk.
  Proof.
    intros Hx -> A. unfold dec_share. rewrite A. eexists. split; [reflexivity|].
    cbn [sI sV]. split; [reflexivity|]. split; [reflexivity|].
    apply dec_verifies_iff. cbn [sI sV sP]. unfold dleq_proof_c, dec_challenge. cbn [pC pR pVG pVH].
    split; [reflexivity|]. split; [reflexivity|].
    set (c := Hc _). unfold dleq_eqs. cbn [pC pR pVG pVH]. unfold padd, smul, pbase. split; [ring|field; exact Hx].
  Qed.

  (* the decrypted value of an honest share is p(i) G *)
  Lemma dec_value_honest (H gc x s v : F) (i : Z) : x <> zzero ->
    smul (zinv x) (sV (enc_one H gc ((i, s), (smul x pbase, v)))) = smul s pbase.
  Proof. intros Hx. unfold enc_one. cbn [sV fst snd]. unfold smul, pbase. field. exact Hx. Qed.

  Lemma nodup_length_le (l : list Z) : (length (nodup Z.eq_dec l) <= length l)%nat.
  Proof.
    induction l as [|a l IH]; [cbn; lia|]. cbn [nodup]. destruct (in_dec Z.eq_dec a l); cbn [length]; lia.
  Qed.

  Lemma valid_idx_entries (D : list (pvshare q)) : valid_idx (map to_entry D) = map sI D.
  Proof.
    unfold valid_idx, vidx, nonnil. induction D as [|d D IH]; [reflexivity|].
    cbn [map flat_map to_entry app snd fst]. cbn [map] in IH. rewrite IH. reflexivity.
  Qed.

  Lemma hd_commit (G : F) (c : list F) : c <> [] -> hd pzero (commit G c) = smul (hd zzero c) G.
  Proof. destruct c; [congruence|]. intros _. reflexivity. Qed.

  (* filter-then-interpolate: whenever the decrypted shares that pass
     verification lie on the dealer's polynomial (in basis G) and carry t
     distinct indices, RecoverSecret returns secret * G - for every order,
     selection, duplication and every number of rejected entries in between *)
  Theorem pvss_recover_filtered (G : F) (X : list F) (enc dec : list (pvshare q)) (t : nat) (coeffs : list F) :
    length X = length enc -> length enc = length dec ->
    (1 <= t)%nat -> length coeffs = t ->
    (forall d, In d (verified G X enc dec) ->
       (0 <= sI d < q - 1)%Z /\ (sI d < 4294967295)%Z /\ sV d = smul (peval coeffs (xeval q (sI d))) G) ->
    (t <= length (nodup Z.eq_dec (map sI (verified G X enc dec))))%nat ->
    recover_secret Hc G X enc dec t = ROk (smul (hd zzero coeffs) G).
  Proof.
    intros L1 L2 Ht Lc Hon Hd. unfold recover_secret. rewrite dec_batch_filter_spec by assumption.
    set (D := verified G X enc dec) in *.
    assert (LD : (t <= length D)%nat).
    { pose proof (nodup_length_le (map sI D)) as K. rewrite map_length in K. lia. }
    apply Nat.ltb_ge in LD. rewrite LD.
    assert (Hne : coeffs <> []) by (destruct coeffs; [cbn in Lc; lia|discriminate]).
    destruct (recover_commit_correct q q_prime t (commit G coeffs) (map to_entry D)) as [R _].
    - exact Ht.
    - unfold commit. rewrite map_length. exact Lc.
    - intros i y Hin. apply in_map_iff in Hin. destruct Hin as [d [Ed Hd']]. unfold to_entry in Ed.
      injection Ed as <- <-. destruct (Hon d Hd') as [A [B C]]. repeat split; try assumption; try lia.
      rewrite eval_commit. exact C.
    - rewrite valid_idx_entries. exact Hd.
    - rewrite R. rewrite hd_commit by exact Hne. reflexivity.
  Qed.

  (* a position of an honest run: trustee key pair (x, xG), the dealer's
     encrypted share for index i and the trustee's decryption of it *)
  Definition honest_row (H gc : F) (coeffs : list F) (r : F * (pvshare q * pvshare q)) : Prop :=
    exists i x v v', (0 <= i < q - 1)%Z /\ (i < 4294967295)%Z /\ x <> zzero /\
      fst r = smul x pbase /\
      fst (snd r) = enc_one H gc ((i, peval coeffs (xeval q i)), (smul x pbase, v)) /\
      dec_share Hc H (fst r) (smul (peval coeffs (xeval q i)) H) x gc (fst (snd r)) v' = inr (snd (snd r)).

  Lemma honest_row_ok (H gc : F) (coeffs : list F) r : honest_row H gc coeffs r ->
    dec_ok pbase r = true /\
    (0 <= sI (snd (snd r)) < q - 1)%Z /\ (sI (snd (snd r)) < 4294967295)%Z /\
    sI (snd (snd r)) = sI (fst (snd r)) /\
    sV (snd (snd r)) = smul (peval coeffs (xeval q (sI (snd (snd r))))) pbase.
  Proof.
    intros [i [x [v [v' [R1 [R2 [Hx [EX [Ee Ed]]]]]]]]].
    assert (A : verify_enc_share H (fst r) (smul (peval coeffs (xeval q i)) H) gc (fst (snd r)) = VOk).
    { rewrite Ee, EX. apply enc_verifies_iff. unfold enc_one. cbn [sI sV sP fst snd]. split; [reflexivity|].
      apply dleq_accept_iff. apply dleq_complete. }
    destruct (pvss_dec_honest H (fst r) _ x gc (fst (snd r)) v' Hx EX A) as [d [Ed' [EI [EV Vd]]]].
    rewrite Ed in Ed'. injection Ed' as <-.
    assert (I : sI (fst (snd r)) = i) by (rewrite Ee; reflexivity).
    unfold dec_ok. rewrite Vd. split; [reflexivity|]. rewrite EI, I. repeat split; try lia.
    rewrite EV, Ee. apply dec_value_honest. exact Hx.
  Qed.

  Lemma combine_map3 {A B C D} (f : A -> B) (g : A -> C) (h : A -> D) : forall l,
    combine (map f l) (combine (map g l) (map h l)) = map (fun a => (f a, (g a, h a))) l.
  Proof. induction l as [|a l IH]; [reflexivity|]. cbn. rewrite IH. reflexivity. Qed.

  Lemma filter_all {A} (f : A -> bool) : forall l, (forall a, In a l -> f a = true) -> filter f l = l.
  Proof.
    induction l as [|a l IH]; intros Hf; [reflexivity|]. cbn. rewrite (Hf a (or_introl eq_refl)).
    f_equal. apply IH. intros b Hb. apply Hf. right. exact Hb.
  Qed.

  (* any t verified decrypted shares of an honest run, in any order (any list
     of honest positions carrying t distinct indices), recover secret * G *)
  Theorem pvss_recover_honest (H gc : F) (coeffs : list F) (t : nat)
          (rows : list (F * (pvshare q * pvshare q))) :
    (1 <= t)%nat -> length coeffs = t ->
    Forall (honest_row H gc coeffs) rows ->
    (t <= length (nodup Z.eq_dec (map (fun r => sI (fst (snd r))) rows)))%nat ->
    recover_secret Hc pbase (map fst rows) (map (fun r => fst (snd r)) rows) (map (fun r => snd (snd r)) rows) t
    = ROk (smul (hd zzero coeffs) pbase).
  Proof.
    intros Ht Lc Hrows Hd. rewrite Forall_forall in Hrows.
    assert (V : verified pbase (map fst rows) (map (fun r => fst (snd r)) rows) (map (fun r => snd (snd r)) rows)
                = map (fun r => snd (snd r)) rows).
    { unfold verified. rewrite combine_map3. rewrite filter_all.
      - rewrite map_map. reflexivity.
      - intros a Ha. apply in_map_iff in Ha. destruct Ha as [r [<- Hr]].
        destruct (honest_row_ok H gc coeffs r (Hrows r Hr)) as [K _].
        unfold dec_ok in *. cbn [fst snd]. exact K. }
    apply pvss_recover_filtered; try assumption.
    - rewrite !map_length. reflexivity.
    - rewrite !map_length. reflexivity.
    - rewrite V. intros d Hin. apply in_map_iff in Hin. destruct Hin as [r [<- Hr]].
      destruct (honest_row_ok H gc coeffs r (Hrows r Hr)) as [_ [A [B [_ C]]]]. auto.
    - rewrite V. rewrite map_map.
      assert (E : map (fun r => sI (snd (snd r))) rows = map (fun r => sI (fst (snd r))) rows).
      { apply map_ext_in. intros r Hr. destruct (honest_row_ok H gc coeffs r (Hrows r Hr)) as [_ [_ [_ [I _]]]]. exact I. }
      rewrite E. exact Hd.
  Qed.

  (* refusal: fewer than t entries pass verification -> ErrTooFewShares;
     fewer than t distinct indices among them -> an error, never a point *)
  Theorem pvss_refuses_below_t (G : F) (X : list F) (enc dec : list (pvshare q)) (t : nat) :
    length X = length enc -> length enc = length dec ->
    (length (verified G X enc dec) < t)%nat ->
    recover_secret Hc G X enc dec t = RErr E_TOO_FEW.
  Proof.
    intros L1 L2 Hl. unfold recover_secret. rewrite dec_batch_filter_spec by assumption.
    apply Nat.ltb_lt in Hl. rewrite Hl. reflexivity.
  Qed.

  Theorem pvss_refuses_below_t_distinct (G : F) (X : list F) (enc dec : list (pvshare q)) (t : nat) :
    (length (nodup Z.eq_dec (map sI (verified G X enc dec))) < t)%nat ->
    exists code, recover_secret Hc G X enc dec t = RErr code.
  Proof.
    intros Hl. unfold recover_secret.
    destruct (verify_dec_share_batch Hc G X enc dec) as [D|] eqn:B; [|eexists; reflexivity].
    assert (ED : D = verified G X enc dec).
    { unfold verify_dec_share_batch in B. destruct (same_len3 X enc dec) eqn:S; cbn [negb] in B; [|discriminate].
      rewrite dec_fold in B. injection B as <-. reflexivity. }
    subst D. destruct (Nat.ltb (length (verified G X enc dec)) t); [eexists; reflexivity|].
    destruct (recover_secret_refuses q t (map to_entry (verified G X enc dec))) as [_ [R _]].
    - rewrite valid_idx_entries. exact Hl.
    - rewrite R. eexists. reflexivity.
  Qed.

  Theorem pvss_recover_lengths (G : F) (X : list F) (enc dec : list (pvshare q)) (t : nat) :
    length X <> length enc \/ length enc <> length dec ->
    recover_secret Hc G X enc dec t = RErr E_LENGTHS.
  Proof. intros L. unfold recover_secret. rewrite dec_batch_lengths by exact L. reflexivity. Qed.

  (* a rejected entry has no influence on the result: RecoverSecret only sees
     the verified sub-list *)
  Theorem pvss_recover_only_verified (G : F) (X X' : list F) (enc dec enc' dec' : list (pvshare q)) (t : nat) :
    length X = length enc -> length enc = length dec ->
    length X' = length enc' -> length enc' = length dec' ->
    verified G X enc dec = verified G X' enc' dec' ->
    recover_secret Hc G X enc dec t = recover_secret Hc G X' enc' dec' t.
  Proof.
    intros L1 L2 L3 L4 E. unfold recover_secret. rewrite !dec_batch_filter_spec by assumption. rewrite E. reflexivity.
  Qed.

  (* the share index: an encrypted share relabelled from i to j is checked
     against the commitment p(j) H and rejected unless p(i) = p(j) *)
  Theorem enc_relabel_rejected (H gc : F) (coeffs : list F) (X v : F) (i j : Z) :
    let e := enc_one H gc ((i, peval coeffs (xeval q i)), (X, v)) in
    verify_enc_share H X (sH_of (commit H coeffs) (set_I e j)) gc (set_I e j) = VOk ->
    gc = zzero \/ H = zzero \/ peval coeffs (xeval q j) = peval coeffs (xeval q i).
  Proof.
    cbv zeta. intros A. apply enc_verifies_iff in A. destruct A as [_ [A1 _]].
    unfold sH_of, set_I, enc_one in A1. cbn [sI sV sP fst snd dleq_proof_c pC pR pVG pVH] in A1.
    rewrite eval_commit in A1. unfold padd, smul in A1.
    set (pj := peval coeffs (xeval q j)) in *. set (pi := peval coeffs (xeval q i)) in *.
    assert (E : zmul (zsub pj pi) (zmul gc H) = zzero).
    { transitivity (zsub (zadd (zmul (zsub v (zmul pi gc)) H) (zmul gc (zmul pj H))) (zmul v H)); [ring|].
      rewrite <- A1. ring. }
    destruct (zmul_cancel _ _ _ E) as [K|K]; [right; right; exact K|].
    destruct (zmul_eq_0 q q_prime _ _ K); auto.
  Qed.

  (* a decrypted share whose index differs from the index of the encrypted
     share it belongs to never enters the recovery *)
  Theorem dec_verified_index (G X : F) (e d : pvshare q) :
    verify_dec_share Hc G X e d = VOk -> sI d = sI e.
  Proof. intros A. apply dec_verifies_iff in A. exact (proj1 A). Qed.


  (* ---------------------------------------------------------------- end to end *)

  (* decryption of position (x, e) with some picked scalar *)
  Definition dec_of (H gc : F) (cm : list F) (xe : F * pvshare q) (d : pvshare q) : Prop :=
    exists v', dec_share Hc H (smul (fst xe) pbase) (sH_of cm (snd xe)) (fst xe) gc (snd xe) v' = inr d.

  Lemma rows_honest (H gc : F) (coeffs : list F) (n : nat) :
    (Z.of_nat n <= q - 1)%Z -> (Z.of_nat n <= 4294967295)%Z ->
    forall (xs : list F) (shares decs : list (pvshare q)),
    Forall (fun x => x <> zzero) xs ->
    Forall2 (honest_enc H gc coeffs n) (map (fun x => smul x pbase) xs) shares ->
    Forall2 (dec_of H gc (commit H coeffs)) (combine xs shares) decs ->
    Forall (honest_row H gc coeffs) (combine (map (fun x => smul x pbase) xs) (combine shares decs)).
  Proof.
    intros Hn1 Hn2. induction xs as [|x xs IH]; intros shares decs Hx HE HD; [constructor|].
    cbn [map] in HE. inversion HE as [|X0 e Xs shares' He HE' E1 E2]; subst.
    cbn [combine] in HD. inversion HD as [|xe d l decs' Hd HD' E1 E2]; subst.
    inversion Hx as [|x0 xs0 Hx0 Hxs]; subst.
    cbn [map combine]. constructor; [|apply IH; assumption].
    destruct He as [i [v [Hi Ee]]]. destruct Hd as [v' Hd]. cbn [fst snd] in Hd.
    exists i, x, v, v'. cbn [fst snd]. repeat split; try lia; try assumption.
    rewrite <- Hd. f_equal. unfold sH_of. rewrite eval_commit. rewrite Ee. reflexivity.
  Qed.

  (* The property's main clause in one statement: for every base point H,
     non-zero trustee keys xs, polynomial (secret :: picked coefficients) with
     t coefficients and all picked randomness: if EncShares returns (shares, cm)
     and every trustee decrypts its share, then ANY list of positions (any
     subset, any order, with repetitions) that carries t distinct indices
     recovers secret * G. *)
  Theorem pvss_end_to_end (H : F) (xs coeffs vs : list F) (shares : list (pvshare q)) (cm : list F)
          (gc : F) (decs : list (pvshare q)) (t : nat) :
    let X := map (fun x => smul x pbase) xs in
    enc_shares Hc H X coeffs vs = ROk (shares, cm) ->
    global_challenge Hc (length X) cm shares = Some gc ->
    Forall (fun x => x <> zzero) xs ->
    (Z.of_nat (length xs) <= q - 1)%Z -> (Z.of_nat (length xs) <= 4294967295)%Z ->
    (1 <= t)%nat -> length coeffs = t ->
    Forall2 (dec_of H gc cm) (combine xs shares) decs ->
    forall rows,
      incl rows (combine X (combine shares decs)) ->
      (t <= length (nodup Z.eq_dec (map (fun r => sI (fst (snd r))) rows)))%nat ->
      recover_secret Hc pbase (map fst rows) (map (fun r => fst (snd r)) rows) (map (fun r => snd (snd r)) rows) t
      = ROk (smul (hd zzero coeffs) pbase).
  Proof.
    cbv zeta. intros HEnc HG Hx Hn1 Hn2 Ht Lc HD rows Hincl Hd.
    destruct (pvss_enc_honest H _ coeffs vs shares cm HEnc) as [Ecm [_ [_ [gc' [HG' [HH _]]]]]].
    rewrite HG in HG'. injection HG' as <-. subst cm. rewrite map_length in HH.
    pose proof (rows_honest H gc coeffs (length xs) Hn1 Hn2 xs shares decs Hx HH HD) as HR.
    apply (pvss_recover_honest H gc coeffs t rows Ht Lc); [|exact Hd].
    rewrite Forall_forall in *. intros r Hr. apply HR. apply Hincl. exact Hr.
  Qed.


  (* ---------------------------------------------------------------- DecShareBatch *)

  Definition dsb_row := (F * (F * (F * pvshare q)))%type.
  Definition dsb_ok (H : F) (r : dsb_row) : bool :=
    verdict_ok (verify_enc_share H (fst r) (fst (snd r)) (fst (snd (snd r))) (snd (snd (snd r)))).
  Definition dsb_dec (H x : F) (r : dsb_row) (d : pvshare q) : Prop :=
    exists v, dec_share Hc H (fst r) (fst (snd r)) x (fst (snd (snd r))) (snd (snd (snd r))) v = inr d.

  Lemma dec_share_inr (H X sH x gc : F) e v d :
    dec_share Hc H X sH x gc e v = inr d -> verify_enc_share H X sH gc e = VOk.
  Proof. unfold dec_share. destruct (verify_enc_share H X sH gc e); congruence. Qed.

  Lemma dec_share_inl (H X sH x gc : F) e v b :
    dec_share Hc H X sH x gc e v = inl b -> verdict_ok (verify_enc_share H X sH gc e) = false.
  Proof. unfold dec_share. destruct (verify_enc_share H X sH gc e); try congruence; reflexivity. Qed.

  Lemma dsb_go_spec (H x : F) : forall (rows : list dsb_row) vs acc out,
    dec_share_batch_go Hc H x rows vs acc = Some out ->
    fst (fst out) = fst (fst acc) ++ map fst (filter (dsb_ok H) rows) /\
    snd (fst out) = snd (fst acc) ++ map (fun r => snd (snd (snd r))) (filter (dsb_ok H) rows) /\
    exists ds, snd out = snd acc ++ ds /\ Forall2 (dsb_dec H x) (filter (dsb_ok H) rows) ds.
  Proof.
    induction rows as [|r rows IH]; intros vs acc out E.
    - cbn in E. injection E as <-. cbn. rewrite !app_nil_r. repeat split. exists []. rewrite app_nil_r. split; [reflexivity|constructor].
    - cbn [dec_share_batch_go] in E.
      destruct (dec_share Hc H (fst r) (fst (snd r)) x (fst (snd (snd r))) (snd (snd (snd r))) (hd zzero vs)) as [b|d] eqn:D.
      + apply dec_share_inl in D. assert (K : dsb_ok H r = false) by exact D.
        cbn [filter]. rewrite K. apply (IH _ _ _ E).
      + destruct vs as [|v vs']; [discriminate|].
        pose proof (dec_share_inr _ _ _ _ _ _ _ _ D) as V.
        assert (K : dsb_ok H r = true) by (unfold dsb_ok; rewrite V; reflexivity).
        cbn [filter]. rewrite K. cbn [map].
        destruct (IH _ _ _ E) as [A [B [ds [C F2]]]]. cbn [fst snd] in A, B, C.
        rewrite A, B. rewrite <- !app_assoc. cbn [app]. repeat split.
        exists (d :: ds). rewrite C, <- app_assoc. split; [reflexivity|].
        constructor; [|exact F2]. exists v. exact D.
  Qed.

  (* DecShareBatch returns the keys and encrypted shares of exactly the
     positions whose share verifies, in order, with their decryptions *)
  Theorem dec_share_batch_spec (H : F) (X sH : list F) (x : F) (gcs : list F) (enc : list (pvshare q)) vs K E D :
    dec_share_batch Hc H X sH x gcs enc vs = Some (ROk (K, E, D)) ->
    let kept := filter (dsb_ok H) (combine X (combine sH (combine gcs enc))) in
    K = map fst kept /\ E = map (fun r => snd (snd (snd r))) kept /\ Forall2 (dsb_dec H x) kept D.
  Proof.
    unfold dec_share_batch. destruct (same_len3 X sH enc); cbn [negb]; [|discriminate].
    destruct (Nat.ltb (length gcs) (length enc)); [discriminate|].
    destruct (dec_share_batch_go Hc H x (combine X (combine sH (combine gcs enc))) vs ([], [], [])) as [[[K' E'] D']|] eqn:G; [|discriminate].
    intros Eq. injection Eq as <- <- <-. cbv zeta.
    destruct (dsb_go_spec H x _ _ _ _ G) as [A [B [ds [C F2]]]]. cbn [fst snd app] in A, B, C.
    subst. repeat split; assumption.
  Qed.

  (* ... and each returned decryption verifies when the positions are addressed to the key pair (x, xG) *)
  Corollary dec_share_batch_verifies (H x : F) (r : dsb_row) (d : pvshare q) :
    x <> zzero -> fst r = smul x pbase -> dsb_ok H r = true -> dsb_dec H x r d ->
    verify_dec_share Hc pbase (fst r) (snd (snd (snd r))) d = VOk.
  Proof.
    intros Hx EX Ok [v Dv]. unfold dsb_ok in Ok.
    assert (V : verify_enc_share H (fst r) (fst (snd r)) (fst (snd (snd r))) (snd (snd (snd r))) = VOk)
      by (destruct (verify_enc_share H (fst r) (fst (snd r)) (fst (snd (snd r))) (snd (snd (snd r)))); try discriminate; reflexivity).
    destruct (pvss_dec_honest H (fst r) (fst (snd r)) x (fst (snd (snd r))) (snd (snd (snd r))) v Hx EX V) as [d' [E' [_ [_ Vd]]]].
    rewrite Dv in E'. injection E' as <-. exact Vd.
  Qed.


  (* ---------------------------------------------------------------- the decrypted share and the challenge *)

  Theorem dec_unrepaired_verifies_iff (G X : F) (e d : pvshare q) :
    verify_dec_share_unrepaired Hc G X e d = VOk <->
    sI d = sI e /\ pC (sP d) = Hc [X; sV e; pVG (sP d); pVH (sP d)] /\
    dleq_eqs (sP d) G (sV d) X (sV e).
  Proof.
    unfold verify_dec_share_unrepaired. destruct (Z.eqb_spec (sI d) (sI e)) as [EI|NI]; cbn [negb].
    - destruct (zeqb (pC (sP d)) (Hc [X; sV e; pVG (sP d); pVH (sP d)])) eqn:E; cbn [negb].
      + apply zeqb_eq in E. destruct (dleq_verify (sP d) G (sV d) X (sV e)) eqn:V.
        * apply dleq_accept_iff in V. split; auto.
        * split; [discriminate|]. intros [_ [_ K]]. apply dleq_accept_iff in K. congruence.
      + split; [discriminate|]. intros [_ [K _]]. apply zeqb_eq in K. congruence.
    - split; [discriminate|]. intros [K _]. contradiction.
  Qed.

  (* REFUTATION of "only correct shares verify" for the verifier before the
     repair (weak Fiat-Shamir: the challenge did not cover the prover-chosen
     base point V).  A trustee with key x picks v and W, sets VG = vG, VH = W,
     c = Hc(X, xS, VG, VH), r = v - c x and solves the second verification
     equation for V' = r^-1 (W - c xS).  The share is accepted for EVERY hash
     function, and V' is wrong whenever W <> v x^-1 xS. *)
  Theorem dec_share_forgery_before_repair (x v W : F) (e : pvshare q) :
    let X := smul x pbase in
    let c := Hc [X; sV e; smul v pbase; W] in
    let r := zsub v (zmul c x) in
    let V' := smul (zinv r) (psub W (smul c (sV e))) in
    let d := mkShare (sI e) V' (mkProof c r (smul v pbase) W) in
    x <> zzero -> r <> zzero ->
    verify_dec_share_unrepaired Hc pbase X e d = VOk /\
    (W <> smul v (smul (zinv x) (sV e)) -> V' <> smul (zinv x) (sV e)).
  Proof.
    cbv zeta. intros Hx Hr. split.
    - apply dec_unrepaired_verifies_iff. cbn [sI sV sP pC pR pVG pVH]. split; [reflexivity|]. split; [reflexivity|].
      set (c := Hc _) in *. unfold dleq_eqs. cbn [pC pR pVG pVH]. unfold padd, psub, smul, pbase. split; [ring|field; exact Hr].
    - set (c := Hc _) in *. intros HW E. apply HW.
      assert (K : zmul (zsub v (zmul c x)) (smul (zinv (zsub v (zmul c x))) (psub W (smul c (sV e)))) = psub W (smul c (sV e)))
        by (unfold smul, psub; field; exact Hr).
      rewrite E in K. unfold smul, psub in *.
      transitivity (zadd (zsub W (zmul c (sV e))) (zmul c (sV e))); [ring|]. rewrite <- K. field. exact Hx.
  Qed.

  (* the same strategy against the repaired verifier needs the challenge to be
     a hash of V' itself: an accepted share carries C = Hc(X, xS, V, VG, VH) *)
  Theorem dec_accepted_challenge_binds_V (G X : F) (e d : pvshare q) :
    verify_dec_share Hc G X e d = VOk ->
    pC (sP d) = Hc [X; sV e; sV d; pVG (sP d); pVH (sP d)].
  Proof. intros A. apply dec_verifies_iff in A. exact (proj1 (proj2 A)). Qed.

  (* soundness core for the decrypted share: if V is wrong (log_G X <> log_V xS,
     i.e. X*V <> xS*G on logarithms) an accepted transcript has hit the single
     challenge c* determined by the hash's own inputs (X, xS, V, VG, VH) *)
  Theorem dec_wrong_share_one_challenge (G X : F) (e d : pvshare q) :
    verify_dec_share Hc G X e d = VOk ->
    zmul X (sV d) <> zmul (sV e) G ->
    Hc [X; sV e; sV d; pVG (sP d); pVH (sP d)] =
    zdiv (zsub (zmul (pVG (sP d)) (sV d)) (zmul (pVH (sP d)) G)) (zsub (zmul X (sV d)) (zmul (sV e) G)).
  Proof.
    intros A Hw. apply dec_verifies_iff in A. destruct A as [_ [EC A]]. apply dleq_accept_iff in A.
    apply dleq_sound_core in A. rewrite <- EC.
    assert (D : zsub (zmul X (sV d)) (zmul (sV e) G) <> zzero) by (intros E; apply zsub_eq_0 in E; contradiction).
    rewrite <- A. field. exact D.
  Qed.

  Corollary dec_wrong_share_one_challenge_key (x : F) (e d : pvshare q) :
    x <> zzero ->
    verify_dec_share Hc pbase (smul x pbase) e d = VOk ->
    sV d <> smul (zinv x) (sV e) ->
    Hc [smul x pbase; sV e; sV d; pVG (sP d); pVH (sP d)] =
    zdiv (zsub (zmul (pVG (sP d)) (sV d)) (zmul (pVH (sP d)) pbase))
         (zsub (zmul (smul x pbase) (sV d)) (zmul (sV e) pbase)).
  Proof.
    intros Hx A Hw. apply dec_wrong_share_one_challenge; [exact A|].
    intros E. apply Hw. unfold smul, pbase in *.
    transitivity (zmul (zinv x) (zmul (zmul x zone) (sV d))); [field; exact Hx|]. rewrite E. ring.
  Qed.

  Lemma dec_ok_dleq (Hx : list F -> F) (G X : F) (e d : pvshare q) :
    verify_dec_share Hx G X e d = VOk -> dleq_verify (sP d) G (sV d) X (sV e) = true.
  Proof.
    unfold verify_dec_share. destruct (negb (sI d =? sI e)%Z); [discriminate|].
    destruct (negb (zeqb (pC (sP d)) _)); [discriminate|].
    destruct (dleq_verify (sP d) G (sV d) X (sV e)); [reflexivity|discriminate].
  Qed.

  (* special soundness (two hash oracles = rewinding): two accepted transcripts
     for the same (V, VG, VH) with different challenges force V = x^-1 xS *)
  Theorem dec_special_sound (Hc' : list F -> F) (x : F) (e d d' : pvshare q) :
    x <> zzero ->
    verify_dec_share Hc pbase (smul x pbase) e d = VOk ->
    verify_dec_share Hc' pbase (smul x pbase) e d' = VOk ->
    sV d = sV d' -> pVG (sP d) = pVG (sP d') -> pVH (sP d) = pVH (sP d') ->
    pC (sP d) <> pC (sP d') ->
    sV d = smul (zinv x) (sV e).
  Proof.
    intros Hx A B EV EG EH Hne.
    apply dec_ok_dleq in A. apply dec_ok_dleq in B.
    assert (B' : dleq_verify (sP d') pbase (sV d) (smul x pbase) (sV e) = true) by (rewrite EV; exact B).
    destruct (dleq_special_sound (sP d) (sP d') pbase (sV d) (smul x pbase) (sV e) EG EH Hne A B') as [W1 W2].
    set (w := zdiv (zsub (pR (sP d')) (pR (sP d))) (zsub (pC (sP d)) (pC (sP d')))) in *.
    assert (Ew : w = x). { unfold smul, pbase in W1. transitivity (zmul w zone); [ring|]. rewrite <- W1. ring. }
    rewrite Ew in W2. rewrite W2. unfold smul. field. exact Hx.
  Qed.

End PvssProofs.
