(* Theorems about the model of MSigSM.v (property C09). *)
From Coq Require Import ZArith Znumtheory List Bool Lia Ring Field Permutation.
From Kyber Require Import Algebra.Zq Algebra.Grp MSig.Lagrange MSig.MSigSM.
Import ListNotations.
Local Open Scope Z_scope.

Section Proofs.
  Variable q : Z.
  Hypothesis q_prime : prime q.
  Notation F := (zq q).
  Add Field zqF_msig : (zq_field q q_prime).

  Lemma zeqb_true_iff (a b : F) : zeqb a b = true <-> a = b.
  Proof. apply zeqb_eq. Qed.

  Lemma zeqb_false_iff (a b : F) : zeqb a b = false <-> a <> b.
  Proof.
    split.
    - intros H E. apply zeqb_true_iff in E. congruence.
    - intros H. destruct (zeqb a b) eqn:E; [|reflexivity]. apply zeqb_true_iff in E. contradiction.
  Qed.

  Lemma zmul_cancel_r (a b c : F) : c <> zzero -> zmul a c = zmul b c -> a = b.
  Proof.
    intros Hc H.
    assert (E : zmul (zsub a b) c = zzero).
    { transitivity (zsub (zmul a c) (zmul b c)); [ring|]. rewrite H. ring. }
    apply (zmul_eq_0 q q_prime) in E. destruct E as [E|E]; [|contradiction].
    apply (zsub_eq_0 q q_prime). exact E.
  Qed.

  (* ================================================================ BLS *)
  (* Verify accepts exactly the point X*H(m) (X the logarithm of the key, i.e.
     the secret), for both group assignments *)
  Theorem bls_accept_iff (g1 : bool) (X h s : F) :
    bls_verify g1 X h (Some s) = true <-> s = bls_sign X h.
  Proof.
    unfold bls_verify, validate_pairing, peqb, pair, pbase, bls_sign, smul.
    destruct g1; rewrite zeqb_true_iff; split; intros H.
    - transitivity (zmul s zone); [ring|]. rewrite <- H. ring.
    - rewrite H. ring.
    - transitivity (zmul zone s); [ring|]. rewrite <- H. ring.
    - rewrite H. ring.
  Qed.

  Theorem bls_complete (g1 : bool) (x h : F) :
    bls_verify g1 x h (Some (bls_sign x h)) = true.
  Proof. apply bls_accept_iff. reflexivity. Qed.

  Theorem bls_reject_undecodable (g1 : bool) (X h : F) : bls_verify g1 X h None = false.
  Proof. reflexivity. Qed.

  (* any semantically different signature is rejected *)
  Theorem bls_reject_other_sig (g1 : bool) (x h s : F) :
    s <> bls_sign x h -> bls_verify g1 x h (Some s) = false.
  Proof.
    intros H. destruct (bls_verify g1 x h (Some s)) eqn:E; [|reflexivity].
    apply bls_accept_iff in E. contradiction.
  Qed.

  (* another key: rejected, provided H(m) is not the identity *)
  Theorem bls_reject_other_key (g1 : bool) (x x' h : F) :
    h <> zzero -> x' <> x -> bls_verify g1 x' h (Some (bls_sign x h)) = false.
  Proof.
    intros Hh Hx. apply bls_reject_other_sig. unfold bls_sign, smul. intros E.
    apply Hx. symmetry. exact (zmul_cancel_r _ _ _ Hh E).
  Qed.

  (* another message: rejected, provided the hash-to-group outputs differ and
     the key is not the identity *)
  Theorem bls_reject_other_msg (g1 : bool) (x h h' : F) :
    x <> zzero -> h' <> h -> bls_verify g1 x h' (Some (bls_sign x h)) = false.
  Proof.
    intros Hx Hh. apply bls_reject_other_sig. unfold bls_sign, smul. intros E.
    apply Hh. symmetry. apply (zmul_cancel_r _ _ x Hx).
    transitivity (zmul x h); [ring|]. rewrite E. ring.
  Qed.

  (* ================================================================ TBLS *)
  Lemma peval_zero (c : list F) : peval c zzero = hd zzero c.
  Proof. destruct c as [|a c]; [reflexivity|]. cbn [peval hd]. ring. Qed.

  Lemma ofZ_inj (a b : Z) : 0 <= a < q -> 0 <= b < q -> of_Z q a = of_Z q b -> a = b.
  Proof.
    intros Ha Hb H. apply (f_equal val) in H. rewrite !val_of_Z in H.
    rewrite !Z.mod_small in H by assumption. exact H.
  Qed.

  Lemma NoDup_map_inj_on {A B} (f : A -> B) (l : list A) :
    (forall x y, In x l -> In y l -> f x = f y -> x = y) -> NoDup l -> NoDup (map f l).
  Proof.
    induction l as [|a l IH]; intros Hinj Hnd; [constructor|].
    inversion Hnd as [|? ? Hn Hnd']; subst. cbn [map]. constructor.
    - intros Hin. apply in_map_iff in Hin. destruct Hin as [y [Hy Hiny]].
      assert (y = a) by (apply Hinj; [right; exact Hiny|left; reflexivity|exact Hy]).
      subst y. contradiction.
    - apply IH; [|exact Hnd']. intros x y Hx Hy. apply Hinj; right; assumption.
  Qed.

  Lemma has_idx_spec (i : Z) (acc : list (Z * F)) : has_idx q i acc = true <-> In i (map fst acc).
  Proof.
    unfold has_idx. rewrite existsb_exists. split.
    - intros [p [Hp E]]. apply Z.eqb_eq in E. subst i. apply in_map. exact Hp.
    - intros H. apply in_map_iff in H. destruct H as [p [E Hp]]. exists p. split; [exact Hp|].
      apply Z.eqb_eq. exact E.
  Qed.

  Lemma insert_perm (p : Z * F) : forall l, Permutation (insert_by_idx q p l) (p :: l).
  Proof.
    induction l as [|a l IH]; cbn [insert_by_idx]; [reflexivity|].
    destruct (fst p <? fst a); [reflexivity|].
    rewrite IH. apply perm_swap.
  Qed.

  Lemma sort_perm : forall l, Permutation (sort_by_idx q l) l.
  Proof.
    induction l as [|a l IH]; [reflexivity|].
    cbn [sort_by_idx fold_right]. rewrite insert_perm. constructor. exact IH.
  Qed.

  Lemma upsert_new (i : Z) (v : F) : forall m, ~ In i (map fst m) -> upsert q i v m = m ++ [(i, v)].
  Proof.
    induction m as [|[j w] m IH]; intros Hn; [reflexivity|].
    cbn [upsert]. destruct (Z.eqb_spec j i) as [->|Hne].
    - exfalso. apply Hn. left. reflexivity.
    - cbn [app]. f_equal. apply IH. intros H. apply Hn. right. exact H.
  Qed.

  Lemma xy_take_all (t : nat) : forall l m,
      NoDup (map fst (m ++ l)) -> length (m ++ l) = t -> xy_take q t m l = m ++ l.
  Proof.
    induction l as [|[i v] r IH]; intros m Hnd Hlen; [rewrite app_nil_r; reflexivity|].
    cbn [xy_take].
    assert (Hn : ~ In i (map fst m)).
    { rewrite map_app in Hnd. cbn [map fst] in Hnd. apply NoDup_remove_2 in Hnd.
      intros H. apply Hnd. apply in_or_app. left. exact H. }
    rewrite (upsert_new i v m Hn).
    destruct (Nat.eqb_spec (length (m ++ [(i, v)])) t) as [E|E].
    - rewrite !app_length in *. cbn [length] in *. assert (length r = 0)%nat by lia.
      destruct r; [reflexivity|discriminate].
    - rewrite IH; rewrite <- app_assoc; cbn [app]; auto.
  Qed.

  Lemma NoDup_snoc {A} (l : list A) (a : A) : NoDup l -> ~ In a l -> NoDup (l ++ [a]).
  Proof.
    intros Hnd Hn. apply (Permutation_NoDup (l := a :: l)).
    - apply Permutation_cons_append.
    - constructor; assumption.
  Qed.

  Section TBLS.
    Variables (g1 : bool) (commits : list F) (h : F) (t : nat).

    Definition part_wf (p : partial q) : Prop :=
      match p with Some (i, _) => 0 <= i < 65536 | None => True end.

    (* the index of a partial that VerifyPartial accepts *)
    Definition valid_idx (p : partial q) : option Z :=
      match p with
      | Some (i, Some v) => if bls_verify g1 (pub_eval q commits i) h (Some v) then Some i else None
      | _ => None
      end.

    Lemma valid_idx_verify_partial p :
      tbls_verify_partial q g1 commits h p = true <-> exists i, valid_idx p = Some i.
    Proof.
      destruct p as [[i [v|]]|]; cbn [tbls_verify_partial valid_idx].
      - destruct (bls_verify g1 (pub_eval q commits i) h (Some v)); split; intros H;
          try discriminate; try (eexists; reflexivity); try reflexivity.
        destruct H; discriminate.
      - split; [discriminate|intros [? ?]; discriminate].
      - split; [discriminate|intros [? ?]; discriminate].
    Qed.

    Let good (i : Z) (v : F) : Prop := v = bls_sign (pub_eval q commits i) h.
    Let walk := tbls_walk q true g1 commits h t.

    Lemma walk_spec : forall parts acc,
        NoDup (map fst acc) -> (length acc < t)%nat ->
        (forall i v, In (i, v) acc -> good i v) ->
        NoDup (map fst (walk acc parts)) /\
        (length (walk acc parts) <= t)%nat /\
        (forall i v, In (i, v) (walk acc parts) -> good i v) /\
        (forall i v, In (i, v) (walk acc parts) ->
                     In (i, v) acc \/ exists p, In p parts /\ valid_idx p = Some i) /\
        ((length (walk acc parts) < t)%nat ->
         forall p i, In p parts -> valid_idx p = Some i -> In i (map fst (walk acc parts))) /\
        incl acc (walk acc parts).
    Proof.
      induction parts as [|p rest IH]; intros acc Hnd Hlen Hgood.
      - cbn. repeat split; auto; try lia. apply incl_refl.
      - assert (Skip : valid_idx p = None \/ (exists i, valid_idx p = Some i /\ In i (map fst acc)) ->
                       walk acc (p :: rest) = walk acc rest ->
                       NoDup (map fst (walk acc (p :: rest))) /\
                       (length (walk acc (p :: rest)) <= t)%nat /\
                       (forall i v, In (i, v) (walk acc (p :: rest)) -> good i v) /\
                       (forall i v, In (i, v) (walk acc (p :: rest)) ->
                                    In (i, v) acc \/ exists p0, In p0 (p :: rest) /\ valid_idx p0 = Some i) /\
                       ((length (walk acc (p :: rest)) < t)%nat ->
                        forall p0 i, In p0 (p :: rest) -> valid_idx p0 = Some i ->
                                     In i (map fst (walk acc (p :: rest)))) /\
                       incl acc (walk acc (p :: rest))).
        { intros Hv E. rewrite E.
          destruct (IH acc Hnd Hlen Hgood) as (A & B & C & D & G & I).
          repeat split; auto.
          - intros i v Hin. destruct (D i v Hin) as [?|[p0 [? ?]]]; [left; assumption|].
            right. exists p0. split; [right; assumption|assumption].
          - intros Hl p0 i [<-|Hin] Hp0.
            + destruct Hv as [Hv|[j [Hj Hjin]]]; [congruence|].
              assert (j = i) by congruence. subst j.
              apply (incl_map fst I). exact Hjin.
            + apply (G Hl p0 i Hin Hp0). }
        destruct p as [[i [v|]]|].
        + change (walk acc (Some (i, Some v) :: rest)) with
            (if negb (true && has_idx q i acc) && bls_verify g1 (pub_eval q commits i) h (Some v)
             then let acc' := acc ++ [(i, v)] in
                  if (t <=? length acc')%nat then acc' else walk acc' rest
             else walk acc rest) in *.
          cbn [andb] in *.
          destruct (has_idx q i acc) eqn:Hhas; cbn [negb andb] in *.
          * apply Skip; [|reflexivity].
            cbn [valid_idx]. destruct (bls_verify g1 (pub_eval q commits i) h (Some v)); [|left; reflexivity].
            right. exists i. split; [reflexivity|]. apply has_idx_spec. exact Hhas.
          * destruct (bls_verify g1 (pub_eval q commits i) h (Some v)) eqn:Hver.
            2:{ apply Skip; [|reflexivity]. left. cbn [valid_idx]. rewrite Hver. reflexivity. }
            assert (Hni : ~ In i (map fst acc)).
            { intros H. apply has_idx_spec in H. congruence. }
            assert (Hg : good i v) by (unfold good; apply (proj1 (bls_accept_iff g1 _ _ _)); exact Hver).
            assert (Hvi : valid_idx (Some (i, Some v)) = Some i) by (cbn [valid_idx]; rewrite Hver; reflexivity).
            set (acc' := acc ++ [(i, v)]).
            assert (Hnd' : NoDup (map fst acc')).
            { unfold acc'. rewrite map_app. cbn [map fst].
              apply NoDup_snoc; assumption. }
            assert (Hgood' : forall j w, In (j, w) acc' -> good j w).
            { intros j w Hin. apply in_app_or in Hin. destruct Hin as [Hin|[Hin|[]]]; [auto|].
              inversion Hin; subst. exact Hg. }
            assert (Hlen' : length acc' = S (length acc)).
            { unfold acc'. rewrite app_length. cbn. lia. }
            cbv zeta. fold acc'.
            destruct (Nat.leb_spec t (length acc')) as [Hle|Hgt].
            -- repeat split; auto; try lia.
               ++ intros j w Hin. apply in_app_or in Hin. destruct Hin as [Hin|[Hin|[]]]; [left; exact Hin|].
                  inversion Hin; subst. right. eexists. split; [left; reflexivity|exact Hvi].
               ++ apply incl_appl. apply incl_refl.
            -- destruct (IH acc' Hnd' Hgt Hgood') as (A & B & C & D & G & I).
               repeat split; auto.
               ++ intros j w Hin. destruct (D j w Hin) as [Hin'|[p0 [? ?]]].
                  ** apply in_app_or in Hin'. destruct Hin' as [Hin'|[Hin'|[]]]; [left; exact Hin'|].
                     inversion Hin'; subst. right. eexists. split; [left; reflexivity|exact Hvi].
                  ** right. exists p0. split; [right; assumption|assumption].
               ++ intros Hl p0 j [<-|Hin] Hp0.
                  ** rewrite Hvi in Hp0. inversion Hp0; subst j.
                     apply (incl_map fst I). unfold acc'. rewrite map_app. apply in_or_app. right. left. reflexivity.
                  ** apply (G Hl p0 j Hin Hp0).
               ++ intros x Hx. apply I. unfold acc'. apply in_or_app. left. exact Hx.
        + apply Skip; [left; reflexivity|reflexivity].
        + apply Skip; [left; reflexivity|reflexivity].
    Qed.

    Hypothesis q_big : 65536 < q.

    Lemma recover_commit_ok (W : list (Z * F)) :
      NoDup (map fst W) -> length W = t -> (length commits <= t)%nat ->
      (forall i v, In (i, v) W -> 0 <= i < 65536 /\ good i v) ->
      recover_commit q W t = Some (bls_sign (peval commits zzero) h).
    Proof.
      intros Hnd Hlen Hc Hall. unfold recover_commit.
      pose proof (sort_perm W) as P. set (S := sort_by_idx q W) in *.
      assert (HndS : NoDup (map fst S)).
      { apply (Permutation_NoDup (l := map fst W)); [apply Permutation_map; symmetry; exact P|exact Hnd]. }
      assert (HlenS : length S = t) by (rewrite (Permutation_length P); exact Hlen).
      assert (HallS : forall i v, In (i, v) S -> 0 <= i < 65536 /\ good i v).
      { intros i v Hin. apply Hall. apply (Permutation_in _ P). exact Hin. }
      rewrite (xy_take_all t S []) by (cbn [app]; assumption). cbn [app].
      destruct (Nat.ltb_spec (length S) t) as [Hlt|_]; [lia|].
      f_equal. unfold bls_sign.
      apply (lagrange_recover_pairs q q_prime commits h).
      - rewrite map_map. cbn [fst].
        rewrite <- (map_map fst (fun i => of_Z q (i + 1))).
        apply NoDup_map_inj_on; [|exact HndS].
        intros x y Hx Hy E.
        apply in_map_iff in Hx. destruct Hx as [[x' vx] [Ex Hx]]. cbn in Ex. subst x'.
        apply in_map_iff in Hy. destruct Hy as [[y' vy] [Ey Hy]]. cbn in Ey. subst y'.
        destruct (HallS _ _ Hx) as [Rx _]. destruct (HallS _ _ Hy) as [Ry _].
        apply ofZ_inj in E; lia.
      - rewrite map_length. lia.
      - apply Forall_forall. intros p Hp. apply in_map_iff in Hp.
        destruct Hp as [[i v] [<- Hin]]. cbn [fst snd].
        destruct (HallS _ _ Hin) as [_ Hg]. exact Hg.
    Qed.

    Hypothesis t_pos : (1 <= t)%nat.
    Hypothesis commits_len : length commits = t.

    Definition valid_set (parts : list (partial q)) (js : list Z) : Prop :=
      NoDup js /\ forall j, In j js -> exists p, In p parts /\ valid_idx p = Some j.

    Lemma valid_idx_range parts p i :
      Forall part_wf parts -> In p parts -> valid_idx p = Some i -> 0 <= i < 65536.
    Proof.
      intros Hwf Hin Hv. rewrite Forall_forall in Hwf. specialize (Hwf p Hin).
      destruct p as [[j [v|]]|]; cbn [valid_idx] in Hv; try discriminate.
      destruct (bls_verify g1 (pub_eval q commits j) h (Some v)); [|discriminate].
      inversion Hv; subst. exact Hwf.
    Qed.

    (* what Recover returns, in terms of the walk *)
    Lemma recover_cases parts :
      Forall part_wf parts ->
      let W := walk [] parts in
      (length W = t /\ tbls_recover q g1 commits h t parts = Some (bls_sign (peval commits zzero) h)
       /\ valid_set parts (map fst W)) \/
      ((length W < t)%nat /\ tbls_recover q g1 commits h t parts = None /\
       valid_set parts (map fst W) /\
       forall p i, In p parts -> valid_idx p = Some i -> In i (map fst W)).
    Proof.
      intros Hwf W.
      destruct (walk_spec parts [] ltac:(constructor) ltac:(cbn; lia) ltac:(intros ? ? []))
        as (A & B & C & D & G & _).
      fold W in A, B, C, D, G.
      assert (VS : valid_set parts (map fst W)).
      { split; [exact A|]. intros j Hj. apply in_map_iff in Hj. destruct Hj as [[j' v] [E Hin]].
        cbn in E. subst j'. destruct (D j v Hin) as [[]|H]. exact H. }
      unfold tbls_recover, tbls_recover_gen. fold walk. fold W.
      destruct (Nat.ltb_spec (length W) t) as [Hlt|Hge].
      - right. split; [exact Hlt|]. split; [reflexivity|]. split; [exact VS|exact (G Hlt)].
      - left. assert (Hl : length W = t) by lia. split; [exact Hl|]. split; [|exact VS].
        apply recover_commit_ok; auto; [lia|].
        intros i v Hin. split; [|apply C; exact Hin].
        destruct (D i v Hin) as [[]|[p [Hp Hv]]]. exact (valid_idx_range parts p i Hwf Hp Hv).
    Qed.

    (* any t valid partials with pairwise distinct indices, anywhere in the list,
       in any order, among arbitrary other entries: the group signature *)
    Theorem tbls_recover_any_t parts :
      Forall part_wf parts ->
      (exists js, valid_set parts js /\ length js = t) ->
      tbls_recover q g1 commits h t parts = Some (bls_sign (peval commits zzero) h).
    Proof.
      intros Hwf [js [[Hnd Hval] Hlen]].
      destruct (recover_cases parts Hwf) as [(_ & R & _)|(Hlt & _ & _ & Hall)]; [exact R|exfalso].
      assert (incl js (map fst (walk [] parts))).
      { intros j Hj. destruct (Hval j Hj) as [p [Hp Hv]]. exact (Hall p j Hp Hv). }
      pose proof (NoDup_incl_length Hnd H) as L. rewrite map_length in L. lia.
    Qed.

    (* fewer than t valid partials with distinct indices: refused *)
    Theorem tbls_refuses parts :
      Forall part_wf parts ->
      (forall js, valid_set parts js -> (length js < t)%nat) ->
      tbls_recover q g1 commits h t parts = None.
    Proof.
      intros Hwf Hfew.
      destruct (recover_cases parts Hwf) as [(Hl & _ & VS)|(_ & R & _)]; [exfalso|exact R].
      specialize (Hfew _ VS). rewrite map_length in Hfew. lia.
    Qed.

    (* whenever Recover succeeds, the result is the signature the group secret
       produces, it verifies under the group key, and t valid partials were present *)
    Theorem tbls_recover_unique parts s :
      Forall part_wf parts ->
      tbls_recover q g1 commits h t parts = Some s ->
      s = bls_sign (hd zzero commits) h /\
      bls_verify g1 (hd zzero commits) h (Some s) = true /\
      exists js, valid_set parts js /\ length js = t.
    Proof.
      intros Hwf R. rewrite <- peval_zero.
      destruct (recover_cases parts Hwf) as [(Hl & R' & VS)|(_ & R' & _)]; [|congruence].
      rewrite R' in R. inversion R; subst s. split; [reflexivity|]. split; [apply bls_complete|].
      exists (map fst (walk [] parts)). split; [exact VS|]. rewrite map_length. exact Hl.
    Qed.

    (* the order of the partials is irrelevant *)
    Theorem tbls_recover_perm parts parts' :
      Forall part_wf parts -> Permutation parts parts' ->
      tbls_recover q g1 commits h t parts = tbls_recover q g1 commits h t parts'.
    Proof.
      intros Hwf P.
      assert (Hwf' : Forall part_wf parts').
      { apply Forall_forall. intros p Hp. rewrite Forall_forall in Hwf. apply Hwf.
        apply (Permutation_in _ (Permutation_sym P)). exact Hp. }
      assert (Tr : forall l l' js, Permutation l l' -> valid_set l js -> valid_set l' js).
      { intros l l' js Pl [Hnd Hv]. split; [exact Hnd|]. intros j Hj.
        destruct (Hv j Hj) as [p [Hp Hvp]]. exists p. split; [apply (Permutation_in _ Pl); exact Hp|exact Hvp]. }
      destruct (recover_cases parts Hwf) as [(Hl & R & VS)|(Hlt & R & VS & Hall)]; rewrite R; symmetry.
      - apply tbls_recover_any_t; [exact Hwf'|]. exists (map fst (walk [] parts)).
        split; [apply (Tr parts parts' _ P VS)|]. rewrite map_length. exact Hl.
      - apply tbls_refuses; [exact Hwf'|]. intros js VS'.
        apply (Tr parts' parts js (Permutation_sym P)) in VS'. destruct VS' as [Hnd Hv].
        assert (incl js (map fst (walk [] parts))).
        { intros j Hj. destruct (Hv j Hj) as [p [Hp Hvp]]. exact (Hall p j Hp Hvp). }
        pose proof (NoDup_incl_length Hnd H) as L. rewrite map_length in L. lia.
    Qed.

    (* honest partials are valid *)
    Lemma tbls_sign_valid (i : Z) : valid_idx (tbls_sign q commits i h) = Some i.
    Proof.
      unfold tbls_sign, valid_idx, pri_eval, pub_eval. rewrite bls_complete. reflexivity.
    Qed.

    (* the statement in terms of the signers: if the honest partials of t
       distinct signers occur somewhere in the list, Recover returns the
       signature of the group secret, whatever else the list contains *)
    Corollary tbls_recover_honest parts (js : list Z) :
      Forall part_wf parts -> NoDup js -> length js = t ->
      (forall j, In j js -> In (tbls_sign q commits j h) parts) ->
      tbls_recover q g1 commits h t parts = Some (bls_sign (hd zzero commits) h).
    Proof.
      intros Hwf Hnd Hlen Hin. rewrite <- peval_zero. apply tbls_recover_any_t; [exact Hwf|].
      exists js. split; [|exact Hlen]. split; [exact Hnd|].
      intros j Hj. exists (tbls_sign q commits j h). split; [apply Hin; exact Hj|apply tbls_sign_valid].
    Qed.
  End TBLS.

  (* ================================================================ lists / bits *)
  Lemma set_nth_0 {A} (v x : A) (l : list A) : set_nth 0 v (x :: l) = v :: l.
  Proof. reflexivity. Qed.

  Lemma set_nth_S {A} (k : nat) (v x : A) (l : list A) :
    set_nth (S k) v (x :: l) = x :: set_nth k v l.
  Proof. reflexivity. Qed.

  Lemma set_nth_length {A} (v : A) : forall k l, (k < length l)%nat -> length (set_nth k v l) = length l.
  Proof.
    induction k as [|k IH]; intros [|x l] H; cbn [length] in *; try lia.
    - reflexivity.
    - rewrite set_nth_S. cbn [length]. rewrite IH by lia. reflexivity.
  Qed.

  Lemma nth_set_nth_eq {A} (v d : A) : forall k l, (k < length l)%nat -> nth k (set_nth k v l) d = v.
  Proof.
    induction k as [|k IH]; intros [|x l] H; cbn [length] in *; try lia.
    - reflexivity.
    - rewrite set_nth_S. cbn [nth]. apply IH. lia.
  Qed.

  Lemma nth_set_nth_neq {A} (v d : A) : forall k j l,
      (k < length l)%nat -> j <> k -> nth j (set_nth k v l) d = nth j l d.
  Proof.
    induction k as [|k IH]; intros j [|x l] H Hne; cbn [length] in *; try lia.
    - destruct j; [congruence|reflexivity].
    - rewrite set_nth_S. destruct j; [reflexivity|]. cbn [nth]. apply IH; lia.
  Qed.

  Lemma map2_length {A B C} (f : A -> B -> C) : forall a b,
      length a = length b -> length (map2 f a b) = length a.
  Proof.
    induction a as [|x a IH]; intros [|y b] H; cbn in *; try lia. rewrite IH by lia. reflexivity.
  Qed.

  Lemma mask_bits_ge (n : nat) : (n <= mask_bits n)%nat.
  Proof.
    unfold mask_bits, mask_len.
    pose proof (Nat.div_mod (n + 7) 8 ltac:(lia)) as D.
    pose proof (Nat.mod_upper_bound (n + 7) 8 ltac:(lia)) as U. lia.
  Qed.

  Lemma hd_nth {A} (d : A) (l : list A) : hd d l = nth 0 l d.
  Proof. destruct l; reflexivity. Qed.

  Lemma nth_tl {A} (d : A) (k : nat) (l : list A) : nth k (tl l) d = nth (S k) l d.
  Proof. destruct l; [destruct k; reflexivity|reflexivity]. Qed.

  (* the first n bits decide *)
  Lemma firstn_ext_nth (n : nat) : forall (a b : list bool),
      (n <= length a)%nat -> (n <= length b)%nat ->
      (forall k, (k < n)%nat -> nth k a false = nth k b false) -> firstn n a = firstn n b.
  Proof.
    induction n as [|n IH]; intros a b Ha Hb H; [reflexivity|].
    destruct a as [|x a]; [cbn in Ha; lia|]. destruct b as [|y b]; [cbn in Hb; lia|].
    cbn [firstn]. f_equal.
    - apply (H 0%nat). lia.
    - apply IH; cbn [length] in *; try lia. intros k Hk. apply (H (S k)). lia.
  Qed.

  (* ================================================================ BDN *)
  Section BDN.
    Variable Hcoef : list F -> list F.
    Hypothesis Hcoef_len : forall l, length (Hcoef l) = length l.

    Definition bdn_wf (m : bmask q) : Prop :=
      bm_coefs q m = Some (Hcoef (bm_pubs q m)) /\
      bm_terms q m = Some (bdn_terms q (Hcoef (bm_pubs q m)) (bm_pubs q m)) /\
      length (bm_bits q m) = mask_bits (length (bm_pubs q m)).

    Lemma bdn_set_bit_wf m i b :
      bdn_wf m -> bdn_wf (fst (bdn_set_bit q m i b)) /\ bm_pubs q (fst (bdn_set_bit q m i b)) = bm_pubs q m.
    Proof.
      intros (A & B & C). unfold bdn_set_bit.
      destruct ((i <? 0) || (Z.of_nat (length (bm_pubs q m)) <=? i)) eqn:E; cbn [fst].
      - repeat split; assumption.
      - apply orb_false_iff in E. destruct E as [E1 E2]. apply Z.ltb_ge in E1. apply Z.leb_gt in E2.
        unfold bdn_wf, bm_set_bits. cbn. repeat split; auto.
        rewrite set_nth_length; [exact C|]. rewrite C.
        pose proof (mask_bits_ge (length (bm_pubs q m))). lia.
    Qed.

    Lemma bdn_step_wf m o :
      bdn_wf m -> bdn_wf (fst (bdn_step q m o)) /\ bm_pubs q (fst (bdn_step q m o)) = bm_pubs q m.
    Proof.
      intros W. destruct o as [i b|bits|bits|]; cbn [bdn_step].
      - apply bdn_set_bit_wf. exact W.
      - destruct W as (A & B & C). unfold bdn_set_mask.
        destruct (Nat.eqb_spec (length bits) (mask_bits (length (bm_pubs q m)))) as [E|E]; cbn [fst].
        + unfold bdn_wf, bm_set_bits. cbn. repeat split; auto.
        + repeat split; assumption.
      - destruct W as (A & B & C). unfold bdn_merge.
        destruct (Nat.eqb_spec (length bits) (length (bm_bits q m))) as [E|E]; cbn [fst].
        + unfold bdn_wf, bm_set_bits. cbn. repeat split; auto.
          rewrite map2_length by (symmetry; exact E). exact C.
        + repeat split; assumption.
      - destruct W as (A & B & C). cbn. repeat split; assumption.
    Qed.

    Lemma bdn_run_wf : forall ops m,
        bdn_wf m -> bdn_wf (fst (bdn_run q m ops)) /\ bm_pubs q (fst (bdn_run q m ops)) = bm_pubs q m.
    Proof.
      induction ops as [|o ops IH]; intros m W; cbn [bdn_run].
      - cbn [fst]. split; [exact W|reflexivity].
      - destruct (bdn_step q m o) as [m' e] eqn:E.
        pose proof (bdn_step_wf m o W) as [W' P']. rewrite E in W', P'. cbn [fst] in W', P'.
        destruct (bdn_run q m' ops) as [m'' es] eqn:E'.
        pose proof (IH m' W') as [W'' P'']. rewrite E' in W'', P''. cbn [fst] in *.
        split; [exact W''|congruence].
    Qed.

    Lemma bdn_new_mask_wf pubs own m :
      bdn_new_mask q Hcoef pubs own = Some m -> bdn_wf m /\ bm_pubs q m = pubs.
    Proof.
      unfold bdn_new_mask, bdn_new_mask_gen. intros H.
      set (full := mkB q (repeat false (mask_bits (length pubs))) pubs (Some (Hcoef pubs))
                       (Some (bdn_terms q (Hcoef pubs) pubs))) in *.
      assert (Wf : bdn_wf full).
      { unfold bdn_wf, full. cbn. repeat split. apply repeat_length. }
      destruct own as [k|].
      - destruct (find_key q k pubs 0) as [i|]; [|discriminate].
        inversion H; subst m. apply (bdn_set_bit_wf full (Z.of_nat i) true Wf).
      - inversion H; subst m. split; [exact Wf|reflexivity].
    Qed.

    (* every mask reachable from a constructor by any history holds the
       coefficients and terms of its key list and a mask of the right length *)
    Theorem bdn_mask_invariant pubs own ops m0 :
      bdn_new_mask q Hcoef pubs own = Some m0 ->
      bdn_wf (fst (bdn_run q m0 ops)) /\ bm_pubs q (fst (bdn_run q m0 ops)) = pubs.
    Proof.
      intros H. destruct (bdn_new_mask_wf pubs own m0 H) as [W P].
      destruct (bdn_run_wf ops m0 W) as [W' P']. split; [exact W'|congruence].
    Qed.

    Lemma agg_pubs_spec : forall secrets bits coefs acc,
        length coefs = length secrets ->
        agg_pubs_go q secrets bits (Some (bdn_terms q coefs secrets)) acc
        = ROk (padd acc (agg_secret q secrets bits coefs)).
    Proof.
      induction secrets as [|x r IH]; intros bits coefs acc Hl.
      - cbn. f_equal. unfold padd, pzero. ring.
      - destruct coefs as [|c coefs]; [cbn in Hl; lia|].
        cbn [agg_pubs_go agg_secret bdn_terms map2 option_map tl hd].
        fold (bdn_terms q coefs r).
        destruct (hd false bits).
        + rewrite IH by (cbn in Hl; lia). f_equal. unfold padd, smul. ring.
        + rewrite IH by (cbn in Hl; lia). reflexivity.
    Qed.

    Lemma agg_sigs_spec (h : F) : forall secrets bits coefs acc,
        length coefs = length secrets ->
        agg_sigs_go q secrets bits (Some coefs) (honest_sigs q secrets bits h) acc
        = ROk (padd acc (smul (agg_secret q secrets bits coefs) h)).
    Proof.
      induction secrets as [|x r IH]; intros bits coefs acc Hl.
      - cbn. f_equal. unfold padd, smul, pzero. ring.
      - destruct coefs as [|c coefs]; [cbn in Hl; lia|].
        cbn [agg_sigs_go agg_secret honest_sigs option_map tl hd].
        destruct (hd false bits).
        + rewrite IH by (cbn in Hl; lia). f_equal. unfold padd, smul, bls_sign, smul. ring.
        + rewrite IH by (cbn in Hl; lia). reflexivity.
    Qed.

    (* BDN: for every constructor and every history, aggregation of the
       participants' signatures and keys succeeds (no error, no panic), yields
       (sum (c_i+1) x_i) * H(m) and (sum (c_i+1) x_i) * B, and verifies *)
    Theorem bdn_aggregate_verifies (g1 : bool) pubs own ops m0 (h : F) :
      bdn_new_mask q Hcoef pubs own = Some m0 ->
      let m := fst (bdn_run q m0 ops) in
      let a := agg_secret q pubs (bm_bits q m) (Hcoef pubs) in
      bdn_agg_pubs q m = ROk a /\
      bdn_agg_sigs q m (honest_sigs q pubs (bm_bits q m) h) = ROk (bls_sign a h) /\
      bls_verify g1 a h (Some (bls_sign a h)) = true.
    Proof.
      intros H m a.
      destruct (bdn_mask_invariant pubs own ops m0 H) as [(A & B & C) P]. fold m in A, B, C, P.
      unfold bdn_agg_pubs, bdn_agg_sigs. rewrite A, B, P.
      rewrite agg_pubs_spec by apply Hcoef_len.
      rewrite agg_sigs_spec by apply Hcoef_len.
      repeat split.
      - f_equal. unfold padd, pzero. fold a. ring.
      - f_equal. unfold padd, pzero, bls_sign. fold a. ring.
      - apply bls_complete.
    Qed.

    Lemma Forall_set_nth {A} (P : A -> Prop) (v : A) : forall k l,
        Forall P l -> P v -> Forall P (set_nth k v l).
    Proof.
      induction k as [|k IH]; intros [|x l] Hl Hv.
      - unfold set_nth. cbn. constructor; [exact Hv|constructor].
      - rewrite set_nth_0. inversion Hl; subst. constructor; assumption.
      - unfold set_nth. cbn. constructor; [exact Hv|constructor].
      - rewrite set_nth_S. inversion Hl; subst. constructor; [assumption|]. apply IH; assumption.
    Qed.

    (* the same for mask objects used side by side in one session: whatever
       interleaving of NewMask / Clone / SetBit / SetMask / Merge produced the
       pool, every object in it aggregates and verifies - any number of times,
       since aggregation reads the mask and writes nothing *)
    Theorem bdn_pool_verifies (g1 : bool) pubs (steps : list (pstep q)) (m : bmask q) (h : F) :
      In m (pool_run q Hcoef pubs steps) ->
      let a := agg_secret q pubs (bm_bits q m) (Hcoef pubs) in
      bdn_agg_pubs q m = ROk a /\
      bdn_agg_sigs q m (honest_sigs q pubs (bm_bits q m) h) = ROk (bls_sign a h) /\
      bls_verify g1 a h (Some (bls_sign a h)) = true.
    Proof.
      intros Hin a.
      assert (Inv : Forall (fun m => bdn_wf m /\ bm_pubs q m = pubs) (pool_run q Hcoef pubs steps)).
      { unfold pool_run.
        assert (G : forall steps pool, Forall (fun m => bdn_wf m /\ bm_pubs q m = pubs) pool ->
                      Forall (fun m => bdn_wf m /\ bm_pubs q m = pubs) (fold_left (pool_step q Hcoef pubs) steps pool)).
        { clear. induction steps as [|st steps IH]; intros pool Hp; [exact Hp|].
          cbn [fold_left]. apply IH. destruct st as [own|k o|k]; cbn [pool_step].
          - destruct (bdn_new_mask q Hcoef pubs own) as [m0|] eqn:E; [|exact Hp].
            apply Forall_app. split; [exact Hp|]. constructor; [|constructor].
            exact (bdn_new_mask_wf pubs own m0 E).
          - destruct (nth_error pool k) as [m0|] eqn:E; [|exact Hp].
            apply Forall_set_nth; [exact Hp|].
            apply nth_error_In in E. rewrite Forall_forall in Hp. destruct (Hp m0 E) as [W P].
            destruct (bdn_step_wf m0 o W) as [W' P']. split; [exact W'|congruence].
          - destruct (nth_error pool k) as [m0|] eqn:E; [|exact Hp].
            apply Forall_app. split; [exact Hp|]. constructor; [|constructor].
            apply nth_error_In in E. rewrite Forall_forall in Hp. destruct (Hp m0 E) as [W P].
            destruct (bdn_step_wf m0 BClone W) as [W' P']. split; [exact W'|congruence]. }
        apply G. constructor. }
      rewrite Forall_forall in Inv. destruct (Inv m Hin) as [(A & B & C) P].
      unfold bdn_agg_pubs, bdn_agg_sigs. rewrite A, B, P.
      rewrite agg_pubs_spec by apply Hcoef_len.
      rewrite agg_sigs_spec by apply Hcoef_len.
      repeat split.
      - f_equal. unfold padd, pzero. fold a. ring.
      - f_equal. unfold padd, pzero, bls_sign. fold a. ring.
      - apply bls_complete.
    Qed.

    (* under which key / message the aggregate of mask [bits] verifies *)
    Theorem bdn_accept_iff (g1 : bool) pubs (bits bits' : list bool) (h h' : F) :
      let a := agg_secret q pubs bits (Hcoef pubs) in
      let a' := agg_secret q pubs bits' (Hcoef pubs) in
      bls_verify g1 a' h' (Some (bls_sign a h)) = true <-> smul a h = smul a' h'.
    Proof. cbv zeta. rewrite bls_accept_iff. unfold bls_sign. reflexivity. Qed.

    Corollary bdn_reject_other_mask (g1 : bool) pubs (bits bits' : list bool) (h : F) :
      h <> zzero ->
      agg_secret q pubs bits' (Hcoef pubs) <> agg_secret q pubs bits (Hcoef pubs) ->
      bls_verify g1 (agg_secret q pubs bits' (Hcoef pubs)) h
                 (Some (bls_sign (agg_secret q pubs bits (Hcoef pubs)) h)) = false.
    Proof. intros Hh Hne. apply bls_reject_other_key; assumption. Qed.

    Corollary bdn_reject_other_msg (g1 : bool) pubs (bits : list bool) (h h' : F) :
      agg_secret q pubs bits (Hcoef pubs) <> zzero -> h' <> h ->
      bls_verify g1 (agg_secret q pubs bits (Hcoef pubs)) h'
                 (Some (bls_sign (agg_secret q pubs bits (Hcoef pubs)) h)) = false.
    Proof. intros Ha Hh. apply bls_reject_other_msg; assumption. Qed.

    (* the aggregate depends on the bits of real cosigners only *)
    Lemma agg_secret_ext : forall secrets b1 b2 coefs,
        (forall k, (k < length secrets)%nat -> nth k b1 false = nth k b2 false) ->
        agg_secret q secrets b1 coefs = agg_secret q secrets b2 coefs.
    Proof.
      induction secrets as [|x r IH]; intros b1 b2 coefs H; [reflexivity|].
      cbn [agg_secret]. rewrite !hd_nth. rewrite (H 0%nat) by (cbn; lia).
      rewrite (IH (tl b1) (tl b2)); [reflexivity|].
      intros k Hk. rewrite !nth_tl. apply H. cbn. lia.
    Qed.

    (* flipping the bit of cosigner k changes the aggregate secret by (c_k+1) x_k *)
    Lemma agg_secret_flip : forall secrets bits coefs k,
        (k < length secrets)%nat -> (k < length bits)%nat -> nth k bits false = false ->
        agg_secret q secrets (set_nth k true bits) coefs
        = padd (agg_secret q secrets bits coefs)
               (smul (zadd (nth k coefs zzero) zone) (nth k secrets zzero)).
    Proof.
      induction secrets as [|x r IH]; intros bits coefs k Hk Hb Hn; [cbn in Hk; lia|].
      destruct bits as [|b bits]; [cbn in Hb; lia|].
      destruct k as [|k].
      - cbn in Hn. subst b. rewrite set_nth_0. cbn [agg_secret hd tl nth].
        rewrite hd_nth. unfold padd, smul. ring.
      - rewrite set_nth_S. cbn [agg_secret hd tl]. cbn [nth] in Hn.
        rewrite (IH bits (tl coefs) k) by (cbn in *; try lia; exact Hn).
        rewrite nth_tl. cbn [nth]. destruct b; unfold padd, smul; ring.
    Qed.

    (* masks that differ in exactly one real cosigner whose key is not the
       identity and whose coefficient is not -1 have different aggregate keys,
       hence do not verify each other's aggregates *)
    Corollary bdn_reject_one_bit (g1 : bool) pubs bits k (h : F) :
      (k < length pubs)%nat -> (k < length bits)%nat -> nth k bits false = false ->
      h <> zzero -> nth k pubs zzero <> zzero -> zadd (nth k (Hcoef pubs) zzero) zone <> zzero ->
      bls_verify g1 (agg_secret q pubs (set_nth k true bits) (Hcoef pubs)) h
                 (Some (bls_sign (agg_secret q pubs bits (Hcoef pubs)) h)) = false /\
      bls_verify g1 (agg_secret q pubs bits (Hcoef pubs)) h
                 (Some (bls_sign (agg_secret q pubs (set_nth k true bits) (Hcoef pubs)) h)) = false.
    Proof.
      intros Hk Hb Hn Hh Hx Hc.
      assert (D : agg_secret q pubs (set_nth k true bits) (Hcoef pubs) <> agg_secret q pubs bits (Hcoef pubs)).
      { rewrite agg_secret_flip by assumption. intros E.
        assert (Z0 : smul (zadd (nth k (Hcoef pubs) zzero) zone) (nth k pubs zzero) = zzero).
        { unfold padd in E.
          transitivity (zsub (zadd (agg_secret q pubs bits (Hcoef pubs))
                                   (smul (zadd (nth k (Hcoef pubs) zzero) zone) (nth k pubs zzero)))
                             (agg_secret q pubs bits (Hcoef pubs))); [ring|].
          rewrite E. ring. }
        unfold smul in Z0. apply (zmul_eq_0 q q_prime) in Z0. destruct Z0; contradiction. }
      split; apply bls_reject_other_key; auto.
    Qed.
  End BDN.

  (* ================================================================ CoSi *)
  Lemma sum_enabled_ext : forall (pubs : list F) b1 b2,
      (forall k, (k < length pubs)%nat -> nth k b1 false = nth k b2 false) ->
      sum_enabled q pubs b1 = sum_enabled q pubs b2.
  Proof.
    induction pubs as [|x r IH]; intros b1 b2 H; [reflexivity|].
    cbn [sum_enabled]. rewrite !hd_nth. rewrite (H 0%nat) by (cbn; lia).
    rewrite (IH (tl b1) (tl b2)); [reflexivity|].
    intros k Hk. rewrite !nth_tl. apply H. cbn. lia.
  Qed.

  Lemma sum_enabled_false : forall (pubs : list F) k, sum_enabled q pubs (repeat false k) = pzero.
  Proof.
    induction pubs as [|x r IH]; intros k; [reflexivity|].
    destruct k; cbn [sum_enabled repeat hd tl].
    - apply (IH 0%nat).
    - apply IH.
  Qed.

  Lemma sum_enabled_set : forall (pubs : list F) bits k b,
      (k < length pubs)%nat -> (k < length bits)%nat -> nth k bits false = negb b ->
      sum_enabled q pubs (set_nth k b bits)
      = if b then padd (sum_enabled q pubs bits) (nth k pubs pzero)
        else psub (sum_enabled q pubs bits) (nth k pubs pzero).
  Proof.
    induction pubs as [|x r IH]; intros bits k b Hk Hb Hn; [cbn in Hk; lia|].
    destruct bits as [|c bits]; [cbn in Hb; lia|].
    destruct k as [|k].
    - cbn in Hn. subst c. rewrite set_nth_0. cbn [sum_enabled hd tl nth].
      destruct b; cbn [negb]; unfold padd, psub; ring.
    - rewrite set_nth_S. cbn [sum_enabled hd tl nth]. cbn [nth] in Hn.
      rewrite (IH bits k b) by (cbn in *; try lia; exact Hn).
      destruct c, b; unfold padd, psub; ring.
  Qed.

  Definition cosi_inv (m : cmask q) : Prop :=
    cm_agg q m = sum_enabled q (cm_pubs q m) (cm_bits q m) /\
    length (cm_bits q m) = mask_bits (length (cm_pubs q m)).

  (* one cosigner's bit brought to the value [new]: the common body of SetBit and SetMask *)
  Definition flip1 (m : cmask q) (k : nat) (new : bool) : cmask q :=
    let cur := nth k (cm_bits q m) false in
    let X := nth k (cm_pubs q m) pzero in
    if negb cur && new then mkC q (set_nth k true (cm_bits q m)) (cm_pubs q m) (padd (cm_agg q m) X)
    else if cur && negb new then mkC q (set_nth k false (cm_bits q m)) (cm_pubs q m) (psub (cm_agg q m) X)
    else m.

  Lemma flip1_spec m k new :
    cosi_inv m -> (k < length (cm_pubs q m))%nat ->
    cosi_inv (flip1 m k new) /\ cm_pubs q (flip1 m k new) = cm_pubs q m /\
    nth k (cm_bits q (flip1 m k new)) false = new /\
    (forall j, j <> k -> nth j (cm_bits q (flip1 m k new)) false = nth j (cm_bits q m) false).
  Proof.
    intros [A L] Hk. unfold flip1.
    assert (Hkb : (k < length (cm_bits q m))%nat).
    { rewrite L. pose proof (mask_bits_ge (length (cm_pubs q m))). lia. }
    destruct (nth k (cm_bits q m) false) eqn:Cur; destruct new; cbn [negb andb].
    - repeat split; auto.
    - unfold cosi_inv. cbn [cm_agg cm_pubs cm_bits].
      rewrite (sum_enabled_set _ _ k false) by (try assumption; rewrite Cur; reflexivity).
      rewrite A, set_nth_length by assumption. repeat split; auto.
      + apply nth_set_nth_eq. assumption.
      + intros j Hj. apply nth_set_nth_neq; assumption.
    - unfold cosi_inv. cbn [cm_agg cm_pubs cm_bits].
      rewrite (sum_enabled_set _ _ k true) by (try assumption; rewrite Cur; reflexivity).
      rewrite A, set_nth_length by assumption. repeat split; auto.
      + apply nth_set_nth_eq. assumption.
      + intros j Hj. apply nth_set_nth_neq; assumption.
    - repeat split; auto.
  Qed.

  Lemma cosi_set_bit_flip m i b m' :
    cosi_set_bit q m i b = ROk m' -> 0 <= i < Z.of_nat (length (cm_pubs q m)) /\ m' = flip1 m (Z.to_nat i) b.
  Proof.
    unfold cosi_set_bit, flip1.
    destruct (Z.leb_spec (Z.of_nat (length (cm_pubs q m))) i) as [Hle|Hlt]; [discriminate|].
    destruct (Z.ltb_spec i 0) as [Hneg|Hpos]; [discriminate|].
    intros H. split; [lia|].
    destruct (negb (nth (Z.to_nat i) (cm_bits q m) false) && b);
      [inversion H; reflexivity|].
    destruct (nth (Z.to_nat i) (cm_bits q m) false && negb b); inversion H; reflexivity.
  Qed.

  Lemma cosi_flip_is_flip1 bits m k : cosi_flip q bits m k = flip1 m k (nth k bits false).
  Proof. reflexivity. Qed.

  (* SetMask's loop over a list of cosigner indices *)
  Lemma fold_flip_spec bits : forall (ks : list nat) m,
      cosi_inv m -> (forall k, In k ks -> (k < length (cm_pubs q m))%nat) ->
      let m' := fold_left (cosi_flip q bits) ks m in
      cosi_inv m' /\ cm_pubs q m' = cm_pubs q m /\
      (forall k, In k ks -> nth k (cm_bits q m') false = nth k bits false) /\
      (forall k, ~ In k ks -> nth k (cm_bits q m') false = nth k (cm_bits q m) false).
  Proof.
    induction ks as [|k0 ks IH]; intros m Inv Hks; cbn [fold_left].
    - split; [exact Inv|]. split; [reflexivity|]. split; [intros k []|reflexivity].
    - rewrite cosi_flip_is_flip1.
      destruct (flip1_spec m k0 (nth k0 bits false) Inv (Hks k0 (or_introl eq_refl))) as (I1 & P1 & N1 & O1).
      destruct (IH (flip1 m k0 (nth k0 bits false)) I1) as (I2 & P2 & N2 & O2).
      { intros k Hk. rewrite P1. apply Hks. right. exact Hk. }
      cbv zeta in *. split; [exact I2|]. split; [congruence|]. split.
      + intros k [<-|Hk].
        * destruct (in_dec Nat.eq_dec k0 ks) as [Hin|Hn]; [apply N2; exact Hin|].
          rewrite (O2 k0 Hn). exact N1.
        * apply N2. exact Hk.
      + intros k Hn. rewrite O2 by (intros H; apply Hn; right; exact H).
        apply O1. intros E. apply Hn. left. congruence.
  Qed.

  Lemma cosi_set_mask_spec m bits m' :
    cosi_inv m -> cosi_set_mask q m bits = ROk m' ->
    length bits = mask_bits (length (cm_pubs q m)) /\
    cosi_inv m' /\ cm_pubs q m' = cm_pubs q m /\
    cm_agg q m' = sum_enabled q (cm_pubs q m) bits /\
    firstn (length (cm_pubs q m)) (cm_bits q m') = firstn (length (cm_pubs q m)) bits.
  Proof.
    intros Inv. unfold cosi_set_mask.
    destruct (Nat.eqb_spec (length bits) (mask_bits (length (cm_pubs q m)))) as [E|E]; cbn [negb]; [|discriminate].
    intros H. inversion H; subst m'. clear H.
    destruct (fold_flip_spec bits (seq 0 (length (cm_pubs q m))) m Inv) as (I & P & N & O).
    { intros k Hk. apply in_seq in Hk. lia. }
    cbv zeta in *. split; [exact E|]. split; [exact I|]. split; [exact P|].
    assert (Hn : forall k, (k < length (cm_pubs q m))%nat ->
                           nth k (cm_bits q (fold_left (cosi_flip q bits) (seq 0 (length (cm_pubs q m))) m)) false
                           = nth k bits false).
    { intros k Hk. apply N. apply in_seq. lia. }
    split.
    - destruct I as [A L]. rewrite A, P. apply sum_enabled_ext. exact Hn.
    - destruct I as [A L]. pose proof (mask_bits_ge (length (cm_pubs q m))) as G.
      apply firstn_ext_nth; [rewrite L, P; exact G|rewrite E; exact G|exact Hn].
  Qed.

  Lemma cosi_step_inv m o m' :
    cosi_inv m -> cosi_step q m o = ROk m' -> cosi_inv m' /\ cm_pubs q m' = cm_pubs q m.
  Proof.
    intros Inv. destruct o as [i b|bits|bits]; cbn [cosi_step]; intros H.
    - apply cosi_set_bit_flip in H. destruct H as [R ->].
      destruct (flip1_spec m (Z.to_nat i) b Inv ltac:(lia)) as (I & P & _). split; assumption.
    - destruct (cosi_set_mask_spec m bits m' Inv H) as (_ & I & P & _). split; assumption.
    - destruct (aggregate_masks (cm_bits q m) bits) as [u|]; [|discriminate].
      destruct (cosi_set_mask_spec m u m' Inv H) as (_ & I & P & _). split; assumption.
  Qed.

  Lemma cosi_new_mask_inv pubs own m :
    cosi_new_mask q pubs own = ROk m -> cosi_inv m /\ cm_pubs q m = pubs.
  Proof.
    unfold cosi_new_mask.
    set (m0 := mkC q (repeat false (mask_bits (length pubs))) pubs pzero).
    assert (I0 : cosi_inv m0).
    { unfold cosi_inv, m0. cbn. rewrite sum_enabled_false, repeat_length. split; reflexivity. }
    destruct own as [k|].
    - destruct (find_key q k pubs 0) as [i|]; [|discriminate]. intros H.
      apply cosi_set_bit_flip in H. destruct H as [R ->].
      destruct (flip1_spec m0 (Z.to_nat (Z.of_nat i)) true I0 ltac:(cbn in *; lia)) as (I & P & _).
      split; [exact I|exact P].
    - intros H. inversion H; subst m. split; [exact I0|reflexivity].
  Qed.

  (* CoSi mask: after NewMask (with or without own key) and ANY sequence of
     SetBit / SetMask / merge operations (failing ones included), the
     incrementally maintained AggregatePublic is the sum of the enabled keys *)
  Theorem cosi_mask_invariant pubs own m0 : forall ops,
      cosi_new_mask q pubs own = ROk m0 ->
      let m := cosi_run q m0 ops in
      cm_agg q m = sum_enabled q pubs (cm_bits q m) /\ cm_pubs q m = pubs /\
      length (cm_bits q m) = mask_bits (length pubs).
  Proof.
    intros ops H. destruct (cosi_new_mask_inv pubs own m0 H) as [I0 P0].
    assert (G : forall ops' m, cosi_inv m -> cm_pubs q m = pubs ->
                              cosi_inv (cosi_run q m ops') /\ cm_pubs q (cosi_run q m ops') = pubs).
    { clear H I0 P0. intros ops'. induction ops' as [|o ops' IH]; intros m I P; [split; assumption|].
      unfold cosi_run. cbn [fold_left]. fold (cosi_run q (cosi_step' q m o) ops').
      unfold cosi_step'. destruct (cosi_step q m o) as [m'| |] eqn:E; try (apply IH; assumption).
      destruct (cosi_step_inv m o m' I E) as [I' P']. apply IH; [exact I'|congruence]. }
    destruct (G ops m0 I0 P0) as [[A L] P]. cbv zeta. rewrite P in A, L. repeat split; assumption.
  Qed.

  Lemma count_bits_firstn n (a b : list bool) : firstn n a = firstn n b -> count_bits n a = count_bits n b.
  Proof. unfold count_bits. intros ->. reflexivity. Qed.

  (* CountEnabled looks at the bits of real cosigners only *)
  Theorem count_enabled_ignores_padding (pre pad1 pad2 : list bool) :
    count_bits (length pre) (pre ++ pad1) = count_bits (length pre) (pre ++ pad2).
  Proof.
    apply count_bits_firstn. rewrite !firstn_app, !Nat.sub_diag, !firstn_all. reflexivity.
  Qed.

  Theorem sum_enabled_ignores_padding (pubs : list F) (pre pad1 pad2 : list bool) :
    length pre = length pubs -> sum_enabled q pubs (pre ++ pad1) = sum_enabled q pubs (pre ++ pad2).
  Proof.
    intros L. apply sum_enabled_ext. intros k Hk. rewrite !app_nth1 by lia. reflexivity.
  Qed.

  Section CoSiVerify.
    Variable Hc : F -> F -> Z -> F.

    (* Verify accepts exactly: a mask of the right length, the Schnorr equation
       r*B = V + H(V || A_mask || M) * A_mask for the aggregate key of the mask's
       real cosigners, and the policy on their number *)
    Theorem cosi_verify_iff pubs msg (v r : F) (mb : list bool) pol :
      let n := length pubs in
      let A := sum_enabled q pubs mb in
      cosi_verify q Hc pubs msg (Some (Some v, r, mb)) pol = true <->
      length mb = mask_bits n /\
      r = zadd v (zmul (Hc v A msg) A) /\
      policy_check pol (count_bits n mb) n = true.
    Proof.
      cbv zeta. unfold cosi_verify. cbn [cosi_new_mask].
      set (m0 := mkC q (repeat false (mask_bits (length pubs))) pubs pzero).
      destruct (cosi_new_mask_inv pubs None m0 eq_refl) as [I0 P0].
      destruct (cosi_set_mask q m0 mb) as [m| |] eqn:E.
      - destruct (cosi_set_mask_spec m0 mb m I0 E) as (L & I & P & A & Fn).
        rewrite P0 in *. rewrite A.
        unfold cosi_count_enabled. rewrite P. rewrite (count_bits_firstn _ _ _ Fn).
        set (k := Hc v (sum_enabled q pubs mb) msg). set (a := sum_enabled q pubs mb).
        unfold peqb, padd, smul, pneg, pbase.
        destruct (zeqb (zadd (zmul k (zopp a)) (zmul r zone)) v) eqn:Z; cbn [negb].
        + apply zeqb_true_iff in Z. split.
          * intros Hp. repeat split; auto. rewrite <- Z. ring.
          * intros (_ & _ & Hp). exact Hp.
        + apply zeqb_false_iff in Z. split; [discriminate|].
          intros (_ & Hr & _). exfalso. apply Z. rewrite Hr. ring.
      - split; [discriminate|]. intros (L & _). unfold cosi_set_mask in E. rewrite P0 in *.
        cbn [cm_pubs] in E. rewrite L, Nat.eqb_refl in E. discriminate.
      - unfold cosi_set_mask in E. destruct (negb _); discriminate.
    Qed.

    Theorem cosi_reject_undecodable pubs msg r mb pol :
      cosi_verify q Hc pubs msg (Some (None, r, mb)) pol = false /\
      cosi_verify q Hc pubs msg None pol = false.
    Proof. split; reflexivity. Qed.

    Lemma sum_enabled_responses (c : F) : forall (secrets vs : list F) bits,
        length vs = length secrets ->
        sum_enabled q (map2 (fun a v => cosi_response q a v c) secrets vs) bits
        = zadd (sum_enabled q vs bits) (zmul c (sum_enabled q secrets bits)).
    Proof.
      induction secrets as [|a r IH]; intros vs bits L.
      - destruct vs; [|cbn in L; lia]. cbn. unfold pzero. ring.
      - destruct vs as [|v vs]; [cbn in L; lia|].
        cbn [map2 sum_enabled]. rewrite IH by (cbn in L; lia).
        destruct (hd false bits); unfold padd, cosi_response; ring.
    Qed.

    (* the honest protocol among the cosigners of [bits] produces a signature
       that verifies exactly when the policy is met *)
    Theorem cosi_complete (secrets vs : list F) (bits : list bool) msg pol :
      length vs = length secrets -> length bits = mask_bits (length secrets) ->
      cosi_verify q Hc secrets msg (cosi_honest_sig q Hc secrets vs bits msg) pol
      = policy_check pol (count_bits (length secrets) bits) (length secrets).
    Proof.
      intros Lv Lb. unfold cosi_honest_sig.
      destruct (policy_check pol (count_bits (length secrets) bits) (length secrets)) eqn:Pc.
      - apply cosi_verify_iff. split; [exact Lb|]. split; [|exact Pc].
        rewrite sum_enabled_responses by exact Lv. ring.
      - destruct (cosi_verify q Hc secrets msg _ pol) eqn:V; [|reflexivity].
        apply cosi_verify_iff in V. destruct V as (_ & _ & V). congruence.
    Qed.

    (* any other response is rejected *)
    Corollary cosi_reject_other_response pubs msg (v r r' : F) mb pol :
      cosi_verify q Hc pubs msg (Some (Some v, r, mb)) pol = true -> r' <> r ->
      cosi_verify q Hc pubs msg (Some (Some v, r', mb)) pol = false.
    Proof.
      intros V Hne. apply cosi_verify_iff in V. destruct V as (_ & Hr & _).
      destruct (cosi_verify q Hc pubs msg (Some (Some v, r', mb)) pol) eqn:V'; [|reflexivity].
      apply cosi_verify_iff in V'. destruct V' as (_ & Hr' & _). congruence.
    Qed.

    (* any change of commitment, mask or message is rejected unless the Schnorr
       equation happens to hold for the changed values (a hash coincidence) *)
    Corollary cosi_reject_equation pubs msg (v r : F) mb pol :
      r <> zadd v (zmul (Hc v (sum_enabled q pubs mb) msg) (sum_enabled q pubs mb)) ->
      cosi_verify q Hc pubs msg (Some (Some v, r, mb)) pol = false.
    Proof.
      intros Hne. destruct (cosi_verify q Hc pubs msg (Some (Some v, r, mb)) pol) eqn:V; [|reflexivity].
      apply cosi_verify_iff in V. destruct V as (_ & Hr & _). contradiction.
    Qed.

    (* a mask that is not of the byte length of the key list is rejected *)
    Corollary cosi_reject_mask_length pubs msg (v r : F) mb pol :
      length mb <> mask_bits (length pubs) ->
      cosi_verify q Hc pubs msg (Some (Some v, r, mb)) pol = false.
    Proof.
      intros Hne. destruct (cosi_verify q Hc pubs msg (Some (Some v, r, mb)) pol) eqn:V; [|reflexivity].
      apply cosi_verify_iff in V. destruct V as (L & _). contradiction.
    Qed.

    (* the policy decides on the number of real participants *)
    Corollary cosi_policy_enforced pubs msg (v r : F) mb pol :
      policy_check pol (count_bits (length pubs) mb) (length pubs) = false ->
      cosi_verify q Hc pubs msg (Some (Some v, r, mb)) pol = false.
    Proof.
      intros Hp. destruct (cosi_verify q Hc pubs msg (Some (Some v, r, mb)) pol) eqn:V; [|reflexivity].
      apply cosi_verify_iff in V. destruct V as (_ & _ & P). congruence.
    Qed.
  End CoSiVerify.
End Proofs.

(* ------------------------------------------------------------------ a prime above 2^16
   (threshold indices are uint16, the abscissae 1..65536 must be distinct mod q) *)
Lemma prime_by_sqrt_trial (p : Z) :
  2 <= p -> (forall d, 2 <= d -> d * d <= p -> p mod d <> 0) -> prime p.
Proof.
  intros Hp H. apply prime_alt. split; [lia|].
  intros n Hn [k Hk].
  assert (Hk1 : 1 < k < p) by nia.
  destruct (Z_le_gt_dec (n * n) p) as [Hle|Hgt].
  - apply (H n); [lia|exact Hle|]. rewrite Hk. apply Z_mod_mult.
  - apply (H k); [lia|nia|]. rewrite Hk, Z.mul_comm. apply Z_mod_mult.
Qed.

Lemma prime_65537 : prime 65537.
Proof.
  apply prime_by_sqrt_trial; [lia|].
  assert (C : forallb (fun d => negb (65537 mod (Z.of_nat d) =? 0)) (seq 2 255) = true) by (vm_compute; reflexivity).
  intros d Hd Hdd E. rewrite forallb_forall in C.
  assert (d <= 256) by nia.
  assert (Hin : In (Z.to_nat d) (seq 2 255)) by (apply in_seq; lia).
  specialize (C (Z.to_nat d) Hin). rewrite Z2Nat.id in C by lia.
  rewrite E in C. discriminate C.
Qed.

(* ------------------------------------------------------------------ the code as found
   (before the two repairs) does not have the property *)
Example tbls_dup_refuted :
  let c := map (of_Z 251) [3; 5; 7] in
  let h := of_Z 251 2 in
  let p i := tbls_sign 251 c i h in
  let parts := [p 0; p 0; p 1; p 2] in
  (* three distinct valid partials are present, t = 3 *)
  option_map val (tbls_recover 251 true c h 3 parts) = Some 6 /\
  tbls_recover_orig 251 true c h 3 parts = None.
Proof. vm_compute. split; reflexivity. Qed.

Example bdn_ownkey_refuted :
  let Hcoef := fun l : list (zq 251) => map (fun _ => of_Z 251 5) l in
  let pubs := map (of_Z 251) [3; 4] in
  let agg (o : option (bmask 251)) :=
      match o with
      | Some m => match bdn_agg_pubs 251 m with ROk a => val a | RErr => -1 | RPanic => -2 end
      | None => -3
      end in
  agg (bdn_new_mask_orig 251 Hcoef pubs (Some (of_Z 251 4))) = -2 /\
  agg (bdn_new_mask 251 Hcoef pubs (Some (of_Z 251 4))) = 24.
Proof. vm_compute. split; reflexivity. Qed.
