(* Runner for the C09 correspondence: evaluates the model of MSigSM.v on the
   cases the Go harness wrote (inputs + what the implementation did) and lists
   the ids of the cases whose observations differ.  Not used by any theorem.

   All group elements arrive as discrete logarithms modulo Q = 2^61-1: exact
   ones when the implementation ran over the transparent dlog pairing suite /
   vh.DlogGroup, harness-assigned ones (known multiples of random generators)
   for the real pairing suites, where only verdicts / equalities are compared
   ([exact] = false). *)
From Coq Require Import ZArith List Bool.
From Kyber Require Import Algebra.Zq Algebra.Grp MSig.Lagrange MSig.MSigSM.
Import ListNotations.
Local Open Scope Z_scope.

Definition Q : Z := 2305843009213693951.
Notation F := (zq Q).
Definition fz (x : Z) : F := of_Z Q x.
Definition ofz (o : option Z) : option F := option_map fz o.

Fixpoint zlist_eqb (a b : list Z) : bool :=
  match a, b with
  | [], [] => true
  | x :: a', y :: b' => Z.eqb x y && zlist_eqb a' b'
  | _, _ => false
  end.

Fixpoint zll_eqb (a b : list (list Z)) : bool :=
  match a, b with
  | [], [] => true
  | x :: a', y :: b' => zlist_eqb x y && zll_eqb a' b'
  | _, _ => false
  end.

Fixpoint blist_eqb (a b : list bool) : bool :=
  match a, b with
  | [], [] => true
  | x :: a', y :: b' => Bool.eqb x y && blist_eqb a' b'
  | _, _ => false
  end.

Definition b2z (b : bool) : Z := if b then 1 else 0.

(* mask bytes <-> bits (bit j of byte i is cosigner 8i+j) *)
Definition bits_of_byte (b : Z) : list bool := map (Z.testbit b) [0; 1; 2; 3; 4; 5; 6; 7].
Definition bits_of_bytes (bs : list Z) : list bool := flat_map bits_of_byte bs.
Definition byte_of_bits (l : list bool) : Z := fold_right (fun b acc => b2z b + 2 * acc) 0 l.
Fixpoint bytes_of_bits (fuel : nat) (l : list bool) : list Z :=
  match fuel with
  | O => []
  | S f => match l with
           | [] => []
           | _ => byte_of_bits (firstn 8 l) :: bytes_of_bits f (skipn 8 l)
           end
  end.
Definition to_bytes (l : list bool) : list Z := bytes_of_bits (S (length l)) l.

(* ------------------------------------------------------------------ wire *)
Definition wpart (p : option (Z * option Z)) : partial Q :=
  match p with
  | None => None
  | Some (i, v) => Some (i, ofz v)
  end.

Inductive wbop := WSetBit (i : Z) (b : bool) | WSetMask (bs : list Z) | WMerge (bs : list Z) | WClone.
Definition bop_of (o : wbop) : bop :=
  match o with
  | WSetBit i b => BSetBit i b
  | WSetMask bs => BSetMask (bits_of_bytes bs)
  | WMerge bs => BMerge (bits_of_bytes bs)
  | WClone => BClone
  end.

Inductive wcop := VSetBit (i : Z) (b : bool) | VSetMask (bs : list Z) | VMerge (bs : list Z).
Definition cop_of (o : wcop) : cop :=
  match o with
  | VSetBit i b => CSetBit i b
  | VSetMask bs => CSetMask (bits_of_bytes bs)
  | VMerge bs => CMerge (bits_of_bytes bs)
  end.

(* a session over SEVERAL mask objects that share what NewMask precomputed:
   object k is created by NewMask or by cloning an earlier object; mask
   operations and aggregations are interleaved and every call is observed *)
Inductive wstep :=
| SNew (own : option Z)                     (* NewMask over the session's key list *)
| SMask (k : Z) (o : wbop)                   (* SetBit / SetMask / Merge on object k *)
| SClone (k : Z)                             (* object k cloned; the clone becomes the last object *)
| SAgg (k : Z) (sigs : list (option Z)).     (* AggregatePublicKeys, AggregateSignatures, Verify on object k *)

Inductive wpol := WComplete | WThreshold (th : Z).
Definition pol_of (p : wpol) : policy :=
  match p with WComplete => PComplete | WThreshold th => PThreshold th end.

Inductive case :=
| CBls (id : Z) (g1 : bool)
       (signs : list (Z * Z * Z))                    (* secret, h, dlog of Sign's output *)
       (qs : list (Z * Z * option Z * bool))         (* X, h, signature, verdict of Verify *)
| CTbls (id : Z) (g1 exact : bool) (commits : list Z) (h : Z) (t : Z)
        (parts : list (option (Z * option Z)))
        (vp : list bool)                             (* VerifyPartial verdict per part *)
        (status : Z)                                 (* Recover: 0 error, 1 = Sign(group secret), 2 other value *)
        (value : Z)                                  (* recovered dlog, -1 if none / not exact *)
        (vrec : bool)                                (* VerifyRecovered under the group key *)
| CBdn (id : Z) (g1 exact : bool) (pubs coefs : list Z) (own : option Z) (ops : list wbop)
       (sigs : list (option Z)) (h h2 : Z) (other : list Z) (obs : list Z)
| CBdnS (id : Z) (g1 exact : bool) (pubs coefs : list Z) (h : Z) (steps : list wstep) (obs : list (list Z))
| CCosiMask (id : Z) (pubs : list Z) (own : option Z) (ops : list wcop) (obs : list (list Z))
| CCosiV (id : Z) (pubs : list Z) (tbl : list (Z * Z * Z)) (sig : option (option Z * Z * list Z))
         (pol : wpol) (verdict : bool).

(* ------------------------------------------------------------------ BLS *)
Definition check_bls (g1 : bool) (signs : list (Z * Z * Z)) (qs : list (Z * Z * option Z * bool)) : bool :=
  forallb (fun s => match s with (x, h, o) => zeqb (bls_sign (fz x) (fz h)) (fz o) && (val (fz o) =? o) end) signs
  && forallb (fun e => match e with (X, h, s, v) => Bool.eqb (bls_verify g1 (fz X) (fz h) (ofz s)) v end) qs.

(* ------------------------------------------------------------------ TBLS *)
Definition check_tbls (g1 exact : bool) (commits : list Z) (h : Z) (t : Z)
           (parts : list (option (Z * option Z))) (vp : list bool) (status value : Z) (vrec : bool) : bool :=
  let cs := map fz commits in
  let ps := map wpart parts in
  let vp' := map (tbls_verify_partial Q g1 cs (fz h)) ps in
  let direct := bls_sign (hd zzero cs) (fz h) in
  let r := tbls_recover Q g1 cs (fz h) (Z.to_nat t) ps in
  let '(st', val', vrec') :=
    match r with
    | None => (0, -1, false)
    | Some s => (if zeqb s direct then 1 else 2, if exact then val s else -1,
                 bls_verify g1 (hd zzero cs) (fz h) (Some s))
    end in
  blist_eqb vp' vp && (st' =? status) && (val' =? value) && Bool.eqb vrec' vrec.

(* ------------------------------------------------------------------ BDN *)
Definition res_code {A} (r : res A) : Z := match r with ROk _ => 0 | RErr => 1 | RPanic => 2 end.

Definition bdn_obs (g1 exact : bool) (pubs coefs : list Z) (own : option Z) (ops : list wbop)
           (sigs : list (option Z)) (h h2 : Z) (other : list Z) : list Z :=
  let Hcoef := fun _ : list F => map fz coefs in
  let ps := map fz pubs in
  match bdn_new_mask Q Hcoef ps (ofz own) with
  | None => [1]
  | Some m0 =>
      let '(m, errs) := bdn_run Q m0 (map bop_of ops) in
      let ap := bdn_agg_pubs Q m in
      let asg := bdn_agg_sigs Q m (map ofz sigs) in
      let ex (v : F) := if exact then val v else -1 in
      let tail :=
        match ap, asg with
        | ROk A, ROk SG =>
            let m2 := match bdn_new_mask Q Hcoef ps None with
                      | Some b => fst (bdn_set_mask Q b (bits_of_bytes other))
                      | None => m
                      end in
            let v2 := match bdn_agg_pubs Q m2 with
                      | ROk A2 => b2z (bls_verify g1 A2 (fz h) (Some SG))
                      | _ => -1
                      end in
            [0; ex A; 0; ex SG; b2z (bls_verify g1 A (fz h) (Some SG)); v2; b2z (bls_verify g1 A (fz h2) (Some SG))]
        | _, _ => [res_code ap; match ap with ROk A => ex A | _ => -1 end;
                   res_code asg; match asg with ROk SG => ex SG | _ => -1 end; -1; -1; -1]
        end in
      [0] ++ map b2z errs ++ to_bytes (bm_bits Q m) ++ [Z.of_nat (bdn_count_enabled Q m)] ++ tail
  end.

(* sessions: in the model aggregation is a function of the mask value and
   leaves every object unchanged, so each SAgg is evaluated on the current
   value of its object *)
Definition bdn_agg_obs (g1 exact : bool) (m : bmask Q) (sigs : list (option Z)) (h : Z) : list Z :=
  let ap := bdn_agg_pubs Q m in
  let asg := bdn_agg_sigs Q m (map ofz sigs) in
  let ex (v : F) := if exact then val v else -1 in
  [res_code ap; match ap with ROk A => ex A | _ => -1 end;
   res_code asg; match asg with ROk SG => ex SG | _ => -1 end;
   match ap, asg with
   | ROk A, ROk SG => b2z (bls_verify g1 A (fz h) (Some SG))
   | _, _ => -1
   end] ++ to_bytes (bm_bits Q m) ++ [Z.of_nat (bdn_count_enabled Q m)].

Fixpoint bdn_session (g1 exact : bool) (Hcoef : list F -> list F) (ps : list F) (h : Z)
         (objs : list (bmask Q)) (steps : list wstep) : list (list Z) :=
  match steps with
  | [] => []
  | st :: rest =>
      let dflt := mkB Q [] [] None None in
      match st with
      | SNew own =>
          match bdn_new_mask Q Hcoef ps (ofz own) with
          | Some m => [0] :: bdn_session g1 exact Hcoef ps h (objs ++ [m]) rest
          | None => [1] :: bdn_session g1 exact Hcoef ps h objs rest
          end
      | SMask k o =>
          let i := Z.to_nat k in
          let '(m', e) := bdn_step Q (nth i objs dflt) (bop_of o) in
          [b2z e] :: bdn_session g1 exact Hcoef ps h (set_nth i m' objs) rest
      | SClone k =>
          let '(m', _) := bdn_step Q (nth (Z.to_nat k) objs dflt) BClone in
          [0] :: bdn_session g1 exact Hcoef ps h (objs ++ [m']) rest
      | SAgg k sigs =>
          bdn_agg_obs g1 exact (nth (Z.to_nat k) objs dflt) sigs h
          :: bdn_session g1 exact Hcoef ps h objs rest
      end
  end.

(* ------------------------------------------------------------------ CoSi *)
Definition cosi_obs1 (r : res (cmask Q)) : list Z :=
  match r with
  | ROk m => [0; val (cm_agg Q m); Z.of_nat (cosi_count_enabled Q m)] ++ to_bytes (cm_bits Q m)
  | RErr => [1]
  | RPanic => [2]
  end.

Fixpoint cosi_obs_run (m : cmask Q) (ops : list cop) : list (list Z) :=
  match ops with
  | [] => []
  | o :: r =>
      let s := cosi_step Q m o in
      let m' := match s with ROk m' => m' | _ => m end in
      (match s with ROk _ => cosi_obs1 s | _ => cosi_obs1 s ++ cosi_obs1 (ROk m) end) :: cosi_obs_run m' r
  end.

Definition cosi_mask_obs (pubs : list Z) (own : option Z) (ops : list wcop) : list (list Z) :=
  let s := cosi_new_mask Q (map fz pubs) (ofz own) in
  match s with
  | ROk m => cosi_obs1 s :: cosi_obs_run m (map cop_of ops)
  | _ => [cosi_obs1 s]
  end.

Fixpoint hc_lookup (tbl : list (Z * Z * Z)) (v a : F) : F :=
  match tbl with
  | [] => fz 0
  | (v', a', k) :: r => if zeqb v (fz v') && zeqb a (fz a') then fz k else hc_lookup r v a
  end.

Definition cosi_v (pubs : list Z) (tbl : list (Z * Z * Z)) (sig : option (option Z * Z * list Z)) (pol : wpol) : bool :=
  let Hc := fun (v a : F) (_ : Z) => hc_lookup tbl v a in
  let s : cosig Q := match sig with
                     | None => None
                     | Some (v, r, mb) => Some (ofz v, fz r, bits_of_bytes mb)
                     end in
  cosi_verify Q Hc (map fz pubs) 0 s (pol_of pol).

Definition check (c : case) : option Z :=
  match c with
  | CBls id g1 signs qs => if check_bls g1 signs qs then None else Some id
  | CTbls id g1 exact commits h t parts vp status value vrec =>
      if check_tbls g1 exact commits h t parts vp status value vrec then None else Some id
  | CBdn id g1 exact pubs coefs own ops sigs h h2 other obs =>
      if zlist_eqb (bdn_obs g1 exact pubs coefs own ops sigs h h2 other) obs then None else Some id
  | CBdnS id g1 exact pubs coefs h steps obs =>
      if zll_eqb (bdn_session g1 exact (fun _ => map fz coefs) (map fz pubs) h [] steps) obs
      then None else Some id
  | CCosiMask id pubs own ops obs =>
      if zll_eqb (cosi_mask_obs pubs own ops) obs then None else Some id
  | CCosiV id pubs tbl sig pol verdict =>
      if Bool.eqb (cosi_v pubs tbl sig pol) verdict then None else Some id
  end.

Definition mismatches (cs : list case) : list Z :=
  flat_map (fun c => match check c with Some i => [i] | None => [] end) cs.

(* what the model does on a case (for debugging a mismatch) *)
Definition show_bdn := bdn_obs.
Definition show_cosi := cosi_mask_obs.
