(* Lagrange interpolation at 0 as share.RecoverCommit computes it, and its
   correctness: from any t pairwise distinct abscissae the shares of a
   polynomial of degree < t recombine to its constant term.

   Polynomials are coefficient lists (low degree first).  The proof is the
   classical one: the interpolation polynomial minus the sharing polynomial
   has degree < t and t distinct roots, hence vanishes everywhere (Ruffini
   division + no zero divisors in Z_q, q prime).  Self-contained: only
   Algebra/Zq and Algebra/Grp are used. *)
From Coq Require Import ZArith Znumtheory Lia List Bool Ring Field.
From Kyber Require Import Algebra.Zq Algebra.Grp.
Import ListNotations.

Section Lagrange.
  Variable q : Z.
  Notation F := (zq q).

  (* ---------------------------------------------------------------- model *)
  (* Horner evaluation, as PriPoly.Eval / PubPoly.Eval do it *)
  Fixpoint peval (c : list F) (x : F) : F :=
    match c with
    | [] => zzero
    | a :: c' => zadd a (zmul x (peval c' x))
    end.

  Definition fprod (l : list F) : F := fold_right zmul zone l.

  (* RecoverCommit: for share i, num = prod_{j<>i} x_j, den = prod_{j<>i} (x_j - x_i),
     the positions j<>i being all the other entries of the map *)
  Definition lag_weight (xi : F) (others : list F) : F :=
    zdiv (fprod others) (fprod (map (fun xj => zsub xj xi) others)).

  Fixpoint lag_go (pre post : list (F * F)) : F :=
    match post with
    | [] => pzero
    | (xi, yi) :: r =>
        padd (smul (lag_weight xi (map fst (pre ++ r))) yi) (lag_go (pre ++ [(xi, yi)]) r)
    end.

  (* Acc = sum_i (num_i/den_i) * y_i *)
  Definition lagrange0 (l : list (F * F)) : F := lag_go [] l.

  (* ------------------------------------------------- polynomial arithmetic *)
  Fixpoint poly_add (c d : list F) : list F :=
    match c, d with
    | [], _ => d
    | _, [] => c
    | a :: c', b :: d' => zadd a b :: poly_add c' d'
    end.
  Definition poly_scale (k : F) (c : list F) : list F := map (zmul k) c.
  (* (X - a) * c *)
  Definition poly_mulx (a : F) (c : list F) : list F :=
    poly_add (poly_scale (zopp a) c) (zzero :: c).
  Definition basis_num (others : list F) : list F := fold_right poly_mulx [zone] others.

  Fixpoint interp_go (Y : F -> F) (pre post : list F) : list F :=
    match post with
    | [] => []
    | xi :: r =>
        let others := pre ++ r in
        poly_add (poly_scale (zdiv (Y xi) (fprod (map (fun o => zsub xi o) others))) (basis_num others))
                 (interp_go Y (pre ++ [xi]) r)
    end.

  Section Proofs.
    Hypothesis q_prime : prime q.
    Add Field zqF_lag : (zq_field q q_prime).

    Lemma peval_cons a c x : peval (a :: c) x = zadd a (zmul x (peval c x)).
    Proof. reflexivity. Qed.

    Lemma peval_add : forall c d x, peval (poly_add c d) x = zadd (peval c x) (peval d x).
    Proof.
      induction c as [|a c IH]; intros [|b d] x; cbn [poly_add peval]; try ring.
      rewrite IH. ring.
    Qed.

    Lemma peval_scale k : forall c x, peval (poly_scale k c) x = zmul k (peval c x).
    Proof.
      induction c as [|a c IH]; intros x; cbn [poly_scale map peval]; [ring|].
      unfold poly_scale in IH. rewrite IH. ring.
    Qed.

    Lemma peval_mulx a c x : peval (poly_mulx a c) x = zmul (zsub x a) (peval c x).
    Proof. unfold poly_mulx. rewrite peval_add, peval_scale, peval_cons. ring. Qed.

    Lemma len_add : forall c d, length (poly_add c d) = Nat.max (length c) (length d).
    Proof.
      induction c as [|a c IH]; intros [|b d]; cbn [poly_add length]; try lia.
      rewrite IH. lia.
    Qed.

    Lemma len_scale k c : length (poly_scale k c) = length c.
    Proof. apply map_length. Qed.

    Lemma len_mulx a c : length (poly_mulx a c) = S (length c).
    Proof. unfold poly_mulx. rewrite len_add, len_scale. cbn [length]. lia. Qed.

    Lemma fprod_cons a l : fprod (a :: l) = zmul a (fprod l).
    Proof. reflexivity. Qed.

    Lemma fprod_zero_in l : In zzero l -> fprod l = zzero.
    Proof.
      induction l as [|a l IH]; intros H; [destruct H|].
      rewrite fprod_cons. destruct H as [->|H]; [ring|]. rewrite IH by exact H. ring.
    Qed.

    Lemma fprod_nonzero l : (forall a, In a l -> a <> zzero) -> fprod l <> zzero.
    Proof.
      induction l as [|a l IH]; intros H.
      - apply (zone_neq_zzero q q_prime).
      - rewrite fprod_cons. intros E. apply (zmul_eq_0 q q_prime) in E. destruct E as [E|E].
        + apply (H a); [left; reflexivity|exact E].
        + apply IH; [|exact E]. intros b Hb. apply H. right. exact Hb.
    Qed.

    Lemma zsub_eq_0 (a b : F) : zsub a b = zzero -> a = b.
    Proof.
      intros H. transitivity (zadd (zsub a b) b); [ring|]. rewrite H. ring.
    Qed.

    (* Ruffini: c(X) = c(a) + (X - a) c'(X) with one coefficient less *)
    Lemma ruffini : forall (c : list F) (a : F), c <> [] ->
      exists c', length c' = pred (length c) /\
                 forall x, peval c x = zadd (peval c a) (zmul (zsub x a) (peval c' x)).
    Proof.
      induction c as [|c0 c IH]; intros a Hne; [congruence|].
      destruct c as [|c1 c].
      - exists []. split; [reflexivity|]. intros x. cbn [peval]. ring.
      - destruct (IH a ltac:(discriminate)) as [c' [Hl He]].
        exists (peval (c1 :: c) a :: c'). split.
        + cbn [length pred] in *. lia.
        + intros x. rewrite !(peval_cons c0). rewrite (He x).
          rewrite (peval_cons (peval (c1 :: c) a) c'). ring.
    Qed.

    (* a polynomial with at least as many distinct roots as coefficients is zero *)
    Lemma roots_zero : forall (rs : list F) (c : list F),
        NoDup rs -> (length c <= length rs)%nat ->
        (forall r, In r rs -> peval c r = zzero) -> forall x, peval c x = zzero.
    Proof.
      induction rs as [|a rs IH]; intros c Hnd Hlen Hroot x.
      - destruct c; [reflexivity|cbn in Hlen; lia].
      - destruct c as [|c0 c]; [reflexivity|].
        destruct (ruffini (c0 :: c) a ltac:(discriminate)) as [c' [Hl He]].
        assert (Ha : peval (c0 :: c) a = zzero) by (apply Hroot; left; reflexivity).
        inversion Hnd as [|? ? Hnotin Hnd']; subst.
        assert (Hc' : forall y, peval c' y = zzero).
        { apply IH; [exact Hnd'|cbn [length pred] in *; lia|].
          intros r Hr. pose proof (He r) as E.
          rewrite Ha, (Hroot r (or_intror Hr)) in E.
          assert (M : zmul (zsub r a) (peval c' r) = zzero).
          { transitivity (zadd zzero (zmul (zsub r a) (peval c' r))); [ring|symmetry; exact E]. }
          apply (zmul_eq_0 q q_prime) in M. destruct M as [M|M]; [|exact M].
          apply zsub_eq_0 in M. subst r. contradiction. }
        rewrite He, Ha, Hc'. ring.
    Qed.

    Lemma peval_basis_num z : forall others,
        peval (basis_num others) z = fprod (map (fun o => zsub z o) others).
    Proof.
      induction others as [|o l IH].
      - cbn. ring.
      - cbn [basis_num fold_right map]. rewrite peval_mulx, fprod_cons.
        fold (basis_num l). rewrite IH. reflexivity.
    Qed.

    Lemma len_basis_num : forall others, length (basis_num others) = S (length others).
    Proof.
      induction others as [|o l IH]; [reflexivity|].
      cbn [basis_num fold_right]. rewrite len_mulx. fold (basis_num l). rewrite IH. reflexivity.
    Qed.

    Lemma len_interp Y : forall post pre,
        (length (interp_go Y pre post) <= length (pre ++ post))%nat.
    Proof.
      induction post as [|xi r IH]; intros pre; cbn [interp_go]; [cbn; lia|].
      rewrite len_add, len_scale, len_basis_num.
      specialize (IH (pre ++ [xi])). rewrite <- app_assoc in IH. cbn [app] in IH.
      rewrite !app_length in *. cbn [length] in *. lia.
    Qed.

    Lemma interp_vanish Y z : forall post pre,
        In z pre -> peval (interp_go Y pre post) z = zzero.
    Proof.
      induction post as [|xi r IH]; intros pre Hin; cbn [interp_go]; [reflexivity|].
      rewrite peval_add, peval_scale, peval_basis_num.
      rewrite IH by (apply in_or_app; left; exact Hin).
      rewrite (fprod_zero_in (map (fun o => zsub z o) (pre ++ r))); [ring|].
      apply in_map_iff. exists z. split; [ring|apply in_or_app; left; exact Hin].
    Qed.

    Lemma diffs_nonzero (z : F) (others : list F) :
      ~ In z others -> fprod (map (fun o => zsub z o) others) <> zzero.
    Proof.
      intros Hn. apply fprod_nonzero. intros a Ha. apply in_map_iff in Ha.
      destruct Ha as [o [<- Ho]]. intros E. apply zsub_eq_0 in E. subst o. contradiction.
    Qed.

    Lemma diffs_nonzero' (z : F) (others : list F) :
      ~ In z others -> fprod (map (fun o => zsub o z) others) <> zzero.
    Proof.
      intros Hn. apply fprod_nonzero. intros a Ha. apply in_map_iff in Ha.
      destruct Ha as [o [<- Ho]]. intros E. apply zsub_eq_0 in E. subst o. contradiction.
    Qed.

    Lemma interp_hit Y z : forall post pre,
        NoDup (pre ++ post) -> In z post -> peval (interp_go Y pre post) z = Y z.
    Proof.
      induction post as [|xi r IH]; intros pre Hnd Hin; [destruct Hin|].
      cbn [interp_go]. rewrite peval_add, peval_scale, peval_basis_num.
      destruct Hin as [->|Hin].
      - rewrite interp_vanish by (apply in_or_app; right; left; reflexivity).
        pose proof (diffs_nonzero z (pre ++ r) (NoDup_remove_2 _ _ _ Hnd)) as Hnz.
        field. exact Hnz.
      - rewrite (fprod_zero_in (map (fun o => zsub z o) (pre ++ r))).
        + rewrite IH; [ring| |exact Hin]. rewrite <- app_assoc. exact Hnd.
        + apply in_map_iff. exists z. split; [ring|apply in_or_app; right; exact Hin].
    Qed.

    (* (-1)^k cancels between numerator and denominator *)
    Lemma sign_cross xi : forall others,
        zmul (fprod (map (fun o => zsub zzero o) others)) (fprod (map (fun o => zsub o xi) others))
        = zmul (fprod others) (fprod (map (fun o => zsub xi o) others)).
    Proof.
      induction others as [|a l IH]; cbn [map]; rewrite ?fprod_cons; [ring|].
      set (A := fprod (map (fun o => zsub zzero o) l)) in *.
      set (B' := fprod (map (fun o => zsub o xi) l)) in *.
      set (A' := fprod l) in *.
      set (B := fprod (map (fun o => zsub xi o) l)) in *.
      transitivity (zmul (zmul (zsub zzero a) (zsub a xi)) (zmul A B')); [ring|].
      rewrite IH. ring.
    Qed.

    Lemma div_cross (a b c d : F) :
      b <> zzero -> d <> zzero -> zmul a d = zmul c b -> zdiv a b = zdiv c d.
    Proof.
      intros Hb Hd H.
      transitivity (zdiv (zmul a d) (zmul b d)); [field; split; assumption|].
      rewrite H. field. split; assumption.
    Qed.

    Definition pr (Y : F -> F) (x : F) : F * F := (x, Y x).

    Lemma map_fst_pr Y l : map fst (map (pr Y) l) = l.
    Proof. rewrite map_map. cbn. apply map_id. Qed.

    Lemma lag_go_interp Y : forall post pre,
        NoDup (pre ++ post) ->
        lag_go (map (pr Y) pre) (map (pr Y) post) = peval (interp_go Y pre post) zzero.
    Proof.
      induction post as [|xi r IH]; intros pre Hnd; [reflexivity|].
      cbn [map lag_go interp_go]. unfold pr at 1.
      rewrite peval_add, peval_scale, peval_basis_num.
      replace (map (pr Y) pre ++ [(xi, Y xi)]) with (map (pr Y) (pre ++ [xi]))
        by (rewrite map_app; reflexivity).
      rewrite IH by (rewrite <- app_assoc; exact Hnd).
      rewrite <- map_app, map_fst_pr.
      pose proof (NoDup_remove_2 _ _ _ Hnd) as Hn.
      pose proof (diffs_nonzero xi _ Hn) as HB.
      pose proof (diffs_nonzero' xi _ Hn) as HB'.
      unfold padd, smul, lag_weight. f_equal.
      rewrite (div_cross (fprod (pre ++ r)) _ (fprod (map (fun o => zsub zzero o) (pre ++ r)))
                         (fprod (map (fun o => zsub xi o) (pre ++ r))) HB' HB).
      - field. exact HB.
      - symmetry. apply sign_cross.
    Qed.

    (* the shares Y(x) = c(x)*h of a polynomial with at most |xs| coefficients
       recombine to c(0)*h *)
    Theorem lagrange_recover (c : list F) (h : F) (xs : list F) :
      NoDup xs -> (length c <= length xs)%nat ->
      lagrange0 (map (fun x => (x, smul (peval c x) h)) xs) = smul (peval c zzero) h.
    Proof.
      intros Hnd Hlen. unfold lagrange0.
      set (Y := fun x => smul (peval c x) h).
      change (map (fun x => (x, smul (peval c x) h)) xs) with (map (pr Y) xs).
      change (@nil (F * F)) with (map (pr Y) []).
      rewrite lag_go_interp by exact Hnd.
      set (D := poly_add (interp_go Y [] xs) (poly_scale (zopp h) c)).
      assert (HD : forall x, peval D x = zzero).
      { apply (roots_zero xs); [exact Hnd| |].
        - unfold D. rewrite len_add, len_scale. pose proof (len_interp Y xs []) as L.
          cbn [app] in L. lia.
        - intros r Hr. unfold D. rewrite peval_add, peval_scale.
          rewrite (interp_hit Y r xs []) by assumption. unfold Y, smul. ring. }
      specialize (HD zzero). unfold D in HD. rewrite peval_add, peval_scale in HD.
      unfold smul.
      transitivity (zsub (zadd (peval (interp_go Y [] xs) zzero) (zmul (zopp h) (peval c zzero)))
                         (zmul (zopp h) (peval c zzero))); [ring|].
      rewrite HD. ring.
    Qed.

    Lemma pairs_as_map (c : list F) (h : F) : forall l : list (F * F),
        Forall (fun p => snd p = smul (peval c (fst p)) h) l ->
        l = map (fun x => (x, smul (peval c x) h)) (map fst l).
    Proof.
      induction l as [|[x y] l IH]; intros H; [reflexivity|].
      inversion H as [|? ? Hh Ht]; subst. cbn [map fst]. cbn [fst snd] in Hh. subst y.
      f_equal. apply IH. exact Ht.
    Qed.

    Theorem lagrange_recover_pairs (c : list F) (h : F) (l : list (F * F)) :
      NoDup (map fst l) -> (length c <= length l)%nat ->
      Forall (fun p => snd p = smul (peval c (fst p)) h) l ->
      lagrange0 l = smul (peval c zzero) h.
    Proof.
      intros Hnd Hlen Hall. rewrite (pairs_as_map c h l Hall).
      apply lagrange_recover; [exact Hnd|rewrite map_length; exact Hlen].
    Qed.
  End Proofs.
End Lagrange.

Arguments peval {q} c x.
Arguments fprod {q} l.
Arguments lag_weight {q} xi others.
Arguments lag_go {q} pre post.
Arguments lagrange0 {q} l.
