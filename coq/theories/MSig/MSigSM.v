(* Executable model of kyber's multi-signature code (property C09):
     sign/bls/bls.go      Sign, Verify (both group assignments)
     sign/tbls/tbls.go    Sign, VerifyPartial, Recover  (+ share.RecoverCommit, PubPoly.Eval)
     sign/bdn/bdn.go      AggregateSignatures, AggregatePublicKeys
     sign/bdn/mask.go     NewMask, SetBit, SetMask, Merge, Clone, CountEnabled
     sign/cosi/cosi.go    Mask (NewMask, SetBit, SetMask, AggregateMasks, CountEnabled),
                          Challenge, Response, Aggregate*, Verify, policies (sign/policy.go)

   Groups are modelled by discrete logarithms (Algebra/Grp.v): a point of G1,
   G2 or GT is the element of Z_q it is the multiple of the respective base
   point of; the pairing is the product.  A hash-to-group output H(m) is an
   arbitrary element [h].  A byte string that is supposed to hold a point is
   modelled by [option F] ([None] = UnmarshalBinary fails).  Participation
   masks are modelled at bit level: a mask of Len() bytes is the list of its
   8*Len() bits (bit i = byte i/8, bit i mod 8, as the code addresses them);
   the runner converts.  Definitions only; theorems are in MSigProofs.v. *)
From Coq Require Import ZArith List Bool Lia.
From Kyber Require Import Algebra.Zq Algebra.Grp MSig.Lagrange.
Import ListNotations.
Local Open Scope Z_scope.

Inductive res (A : Type) := ROk (v : A) | RErr | RPanic.
Arguments ROk {A} v.
Arguments RErr {A}.
Arguments RPanic {A}.

Section MSig.
  Variable q : Z.
  Notation F := (zq q).

  (* ================================================================ BLS *)
  (* Sign: xHM = HM.Mul(private, HM) *)
  Definition bls_sign (x h : F) : F := smul x h.

  (* suite.ValidatePairing(p1,p2,inv1,inv2): e(p1,p2) == e(inv1,inv2) *)
  Definition validate_pairing (p1 p2 i1 i2 : F) : bool := peqb (pair p1 p2) (pair i1 i2).

  (* Verify.  g1 = true: NewSchemeOnG1 (signatures in G1, keys in G2):
       ValidatePairing(HM, X, sig, B2);
     g1 = false: NewSchemeOnG2: ValidatePairing(X, HM, B1, sig). *)
  Definition bls_verify (g1 : bool) (X h : F) (sig : option F) : bool :=
    match sig with
    | None => false
    | Some s => if g1 then validate_pairing h X s pbase else validate_pairing X h pbase s
    end.

  (* ================================================================ TBLS *)
  (* a partial signature as received: None = shorter than the 2-byte index;
     Some (i, None) = index i, value does not decode;  Some (i, Some v) *)
  Definition partial := option (Z * option F).

  (* PubPoly.Eval(i): x = i+1, Horner over the commitments *)
  Definition pub_eval (commits : list F) (i : Z) : F := peval commits (of_Z q (i + 1)).
  (* PriPoly.Eval(i).V *)
  Definition pri_eval (coefs : list F) (i : Z) : F := peval coefs (of_Z q (i + 1)).
  (* tbls.Sign *)
  Definition tbls_sign (coefs : list F) (i : Z) (h : F) : partial :=
    Some (i, Some (bls_sign (pri_eval coefs i) h)).

  (* VerifyPartial *)
  Definition tbls_verify_partial (g1 : bool) (commits : list F) (h : F) (p : partial) : bool :=
    match p with
    | Some (i, v) => bls_verify g1 (pub_eval commits i) h v
    | None => false
    end.

  Definition has_idx (i : Z) (acc : list (Z * F)) : bool := existsb (fun p => fst p =? i) acc.

  (* Recover, the walk over the received partials (as repaired: an index that was
     already collected is skipped).  [dedup = false] is the code as found. *)
  Fixpoint tbls_walk (dedup g1 : bool) (commits : list F) (h : F) (t : nat)
           (acc : list (Z * F)) (parts : list partial) : list (Z * F) :=
    match parts with
    | [] => acc
    | p :: rest =>
        match p with
        | Some (i, Some v) =>
            if negb (dedup && has_idx i acc) && bls_verify g1 (pub_eval commits i) h (Some v)
            then let acc' := acc ++ [(i, v)] in
                 if (t <=? length acc')%nat then acc' else tbls_walk dedup g1 commits h t acc' rest
            else tbls_walk dedup g1 commits h t acc rest
        | _ => tbls_walk dedup g1 commits h t acc rest
        end
    end.

  (* share.xyCommit: sort by index (insertion sort here; Go's sort is not stable,
     which only matters between entries of equal index), then fill the maps
     x,y until they hold t distinct indices (a repeated index overwrites) *)
  Fixpoint insert_by_idx (p : Z * F) (l : list (Z * F)) : list (Z * F) :=
    match l with
    | [] => [p]
    | p' :: r => if fst p <? fst p' then p :: l else p' :: insert_by_idx p r
    end.
  Definition sort_by_idx (l : list (Z * F)) : list (Z * F) := fold_right insert_by_idx [] l.

  Fixpoint upsert (i : Z) (v : F) (m : list (Z * F)) : list (Z * F) :=
    match m with
    | [] => [(i, v)]
    | (j, w) :: r => if j =? i then (i, v) :: r else (j, w) :: upsert i v r
    end.

  Fixpoint xy_take (t : nat) (m : list (Z * F)) (l : list (Z * F)) : list (Z * F) :=
    match l with
    | [] => m
    | (i, v) :: r =>
        let m' := upsert i v m in
        if (length m' =? t)%nat then m' else xy_take t m' r
    end.

  (* share.RecoverCommit (the map is iterated in random order by Go; the sum
     does not depend on the order, see lagrange_recover which holds for every order) *)
  Definition recover_commit (shares : list (Z * F)) (t : nat) : option F :=
    let m := xy_take t [] (sort_by_idx shares) in
    if (length m <? t)%nat then None
    else Some (lagrange0 (map (fun p => (of_Z q (fst p + 1), snd p)) m)).

  Definition tbls_recover_gen (dedup g1 : bool) (commits : list F) (h : F) (t : nat)
             (parts : list partial) : option F :=
    let acc := tbls_walk dedup g1 commits h t [] parts in
    if (length acc <? t)%nat then None else recover_commit acc t.

  Definition tbls_recover := tbls_recover_gen true.
  Definition tbls_recover_orig := tbls_recover_gen false.   (* before the repair *)

  (* ================================================================ masks: bits *)
  Definition mask_len (n : nat) : nat := ((n + 7) / 8)%nat.
  Definition mask_bits (n : nat) : nat := (8 * mask_len n)%nat.

  Definition set_nth {A} (i : nat) (v : A) (l : list A) : list A :=
    firstn i l ++ v :: skipn (S i) l.

  Fixpoint map2 {A B C} (f : A -> B -> C) (a : list A) (b : list B) : list C :=
    match a, b with
    | x :: a', y :: b' => f x y :: map2 f a' b'
    | _, _ => []
    end.

  Fixpoint find_key (k : F) (pubs : list F) (i : nat) : option nat :=
    match pubs with
    | [] => None
    | x :: r => if zeqb x k then Some i else find_key k r (S i)
    end.

  (* number of set bits among the first n *)
  Definition count_bits (n : nat) (bits : list bool) : nat :=
    length (filter (fun b => b) (firstn n bits)).

  (* ================================================================ BDN *)
  (* hashPointToR: the coefficients, one per public key, a function of the
     whole key list (BLAKE2s XOF; an oracle here) *)
  Variable Hcoef : list F -> list F.

  Record bmask := mkB {
    bm_bits : list bool;
    bm_pubs : list F;
    bm_coefs : option (list F);    (* publicCoefs; None = nil slice *)
    bm_terms : option (list F)     (* publicTerms *)
  }.

  Definition bdn_terms (coefs pubs : list F) : list F :=
    map2 (fun c X => padd (smul c X) X) coefs pubs.

  Definition bm_set_bits (m : bmask) (bits : list bool) : bmask :=
    mkB bits (bm_pubs m) (bm_coefs m) (bm_terms m).

  (* SetBit: (new state, error?) *)
  Definition bdn_set_bit (m : bmask) (i : Z) (b : bool) : bmask * bool :=
    if (i <? 0) || (Z.of_nat (length (bm_pubs m)) <=? i) then (m, true)
    else (bm_set_bits m (set_nth (Z.to_nat i) b (bm_bits m)), false).

  (* SetMask: Len() must equal the byte length *)
  Definition bdn_set_mask (m : bmask) (bits : list bool) : bmask * bool :=
    if (length bits =? mask_bits (length (bm_pubs m)))%nat then (bm_set_bits m bits, false) else (m, true).

  (* Merge: len(m.mask) must equal the byte length *)
  Definition bdn_merge (m : bmask) (bits : list bool) : bmask * bool :=
    if (length bits =? length (bm_bits m))%nat then (bm_set_bits m (map2 orb (bm_bits m) bits), false)
    else (m, true).

  (* NewMask.  [fixed = true]: as repaired, the coefficients and terms are
     computed before the own key is looked up; [fixed = false]: as found, the
     branch for myKey returns before they are computed. *)
  Definition bdn_new_mask_gen (fixed : bool) (pubs : list F) (own : option F) : option bmask :=
    let n := length pubs in
    let coefs := Hcoef pubs in
    let full := mkB (repeat false (mask_bits n)) pubs (Some coefs) (Some (bdn_terms coefs pubs)) in
    let bare := mkB (repeat false (mask_bits n)) pubs None None in
    match own with
    | None => Some full
    | Some k =>
        match find_key k pubs 0 with
        | Some i => Some (fst (bdn_set_bit (if fixed then full else bare) (Z.of_nat i) true))
        | None => None
        end
    end.
  Definition bdn_new_mask := bdn_new_mask_gen true.
  Definition bdn_new_mask_orig := bdn_new_mask_gen false.

  Inductive bop :=
  | BSetBit (i : Z) (b : bool)
  | BSetMask (bits : list bool)
  | BMerge (bits : list bool)
  | BClone.                          (* continue with the clone *)

  Definition bdn_step (m : bmask) (o : bop) : bmask * bool :=
    match o with
    | BSetBit i b => bdn_set_bit m i b
    | BSetMask bits => bdn_set_mask m bits
    | BMerge bits => bdn_merge m bits
    | BClone => (mkB (bm_bits m) (bm_pubs m) (bm_coefs m) (bm_terms m), false)
    end.

  (* run a history; also returns the error flag of every step *)
  Fixpoint bdn_run (m : bmask) (ops : list bop) : bmask * list bool :=
    match ops with
    | [] => (m, [])
    | o :: r => let '(m', e) := bdn_step m o in
                let '(m'', es) := bdn_run m' r in (m'', e :: es)
    end.

  (* several mask objects over the same key list, used side by side: new ones
     come from NewMask or from cloning an existing one (they then share the
     precomputed coefficients and terms, which no operation writes) *)
  Inductive pstep :=
  | PNew (own : option F)
  | POp (k : nat) (o : bop)
  | PClone (k : nat).

  Definition pool_step (pubs : list F) (pool : list bmask) (s : pstep) : list bmask :=
    match s with
    | PNew own => match bdn_new_mask pubs own with Some m => pool ++ [m] | None => pool end
    | POp k o => match nth_error pool k with
                 | Some m => set_nth k (fst (bdn_step m o)) pool
                 | None => pool
                 end
    | PClone k => match nth_error pool k with
                  | Some m => pool ++ [fst (bdn_step m BClone)]
                  | None => pool
                  end
    end.

  Definition pool_run (pubs : list F) (steps : list pstep) : list bmask :=
    fold_left (pool_step pubs) steps [].

  Definition bdn_count_enabled (m : bmask) : nat := count_bits (length (bm_pubs m)) (bm_bits m).

  (* AggregateSignatures: for i over the publics, enabled bits consume the next signature *)
  Fixpoint agg_sigs_go (pubs : list F) (bits : list bool) (coefs : option (list F))
           (sigs : list (option F)) (acc : F) : res F :=
    match pubs with
    | [] => match sigs with [] => ROk acc | _ => RErr end
    | _ :: pubs' =>
        let coefs' := option_map (@tl F) coefs in
        if hd false bits then
          match sigs with
          | [] => RErr
          | None :: _ => RErr
          | Some s :: sigs' =>
              match coefs with
              | Some (c :: _) => agg_sigs_go pubs' (tl bits) coefs' sigs' (padd acc (padd (smul c s) s))
              | _ => RPanic            (* index into a nil publicCoefs *)
              end
          end
        else agg_sigs_go pubs' (tl bits) coefs' sigs acc
    end.
  Definition bdn_agg_sigs (m : bmask) (sigs : list (option F)) : res F :=
    agg_sigs_go (bm_pubs m) (bm_bits m) (bm_coefs m) sigs pzero.

  (* AggregatePublicKeys *)
  Fixpoint agg_pubs_go (pubs : list F) (bits : list bool) (terms : option (list F)) (acc : F) : res F :=
    match pubs with
    | [] => ROk acc
    | _ :: pubs' =>
        let terms' := option_map (@tl F) terms in
        if hd false bits then
          match terms with
          | Some (tm :: _) => agg_pubs_go pubs' (tl bits) terms' (padd acc tm)
          | _ => RPanic
          end
        else agg_pubs_go pubs' (tl bits) terms' acc
    end.
  Definition bdn_agg_pubs (m : bmask) : res F :=
    agg_pubs_go (bm_pubs m) (bm_bits m) (bm_terms m) pzero.

  (* what honest signers of the enabled keys send, in key order *)
  Fixpoint honest_sigs (secrets : list F) (bits : list bool) (h : F) : list (option F) :=
    match secrets with
    | [] => []
    | x :: r => if hd false bits then Some (bls_sign x h) :: honest_sigs r (tl bits) h
                else honest_sigs r (tl bits) h
    end.

  (* the aggregate secret of a mask: sum over enabled i of (c_i + 1) x_i *)
  Fixpoint agg_secret (secrets : list F) (bits : list bool) (coefs : list F) : F :=
    match secrets with
    | [] => pzero
    | x :: r =>
        if hd false bits then padd (smul (zadd (hd zzero coefs) zone) x) (agg_secret r (tl bits) (tl coefs))
        else agg_secret r (tl bits) (tl coefs)
    end.

  (* ================================================================ CoSi *)
  Record cmask := mkC { cm_bits : list bool; cm_pubs : list F; cm_agg : F }.

  (* SetBit: a negative index indexes the byte slice out of range (panic) *)
  Definition cosi_set_bit (m : cmask) (i : Z) (enable : bool) : res cmask :=
    if Z.of_nat (length (cm_pubs m)) <=? i then RErr
    else if i <? 0 then RPanic
    else
      let k := Z.to_nat i in
      let cur := nth k (cm_bits m) false in
      let X := nth k (cm_pubs m) pzero in
      if negb cur && enable then ROk (mkC (set_nth k true (cm_bits m)) (cm_pubs m) (padd (cm_agg m) X))
      else if cur && negb enable then ROk (mkC (set_nth k false (cm_bits m)) (cm_pubs m) (psub (cm_agg m) X))
      else ROk m.

  (* the body of SetMask's loop for cosigner k *)
  Definition cosi_flip (bits : list bool) (m : cmask) (k : nat) : cmask :=
    let cur := nth k (cm_bits m) false in
    let new := nth k bits false in
    let X := nth k (cm_pubs m) pzero in
    if negb cur && new then mkC (set_nth k true (cm_bits m)) (cm_pubs m) (padd (cm_agg m) X)
    else if cur && negb new then mkC (set_nth k false (cm_bits m)) (cm_pubs m) (psub (cm_agg m) X)
    else m.

  Definition cosi_set_mask (m : cmask) (bits : list bool) : res cmask :=
    if negb (length bits =? mask_bits (length (cm_pubs m)))%nat then RErr
    else ROk (fold_left (cosi_flip bits) (seq 0 (length (cm_pubs m))) m).

  Definition cosi_new_mask (pubs : list F) (own : option F) : res cmask :=
    let m0 := mkC (repeat false (mask_bits (length pubs))) pubs pzero in
    match own with
    | None => ROk m0
    | Some k => match find_key k pubs 0 with
                | Some i => cosi_set_bit m0 (Z.of_nat i) true
                | None => RErr
                end
    end.

  (* AggregateMasks(a, b) *)
  Definition aggregate_masks (a b : list bool) : option (list bool) :=
    if (length a =? length b)%nat then Some (map2 orb a b) else None.

  Inductive cop :=
  | CSetBit (i : Z) (b : bool)
  | CSetMask (bits : list bool)
  | CMerge (bits : list bool).        (* SetMask(AggregateMasks(Mask(), bits)) *)

  Definition cosi_step (m : cmask) (o : cop) : res cmask :=
    match o with
    | CSetBit i b => cosi_set_bit m i b
    | CSetMask bits => cosi_set_mask m bits
    | CMerge bits => match aggregate_masks (cm_bits m) bits with
                     | Some u => cosi_set_mask m u
                     | None => RErr
                     end
    end.

  (* a failed step leaves the mask unchanged (errors) / is skipped (panics) *)
  Definition cosi_step' (m : cmask) (o : cop) : cmask :=
    match cosi_step m o with ROk m' => m' | _ => m end.

  Definition cosi_run (m : cmask) (ops : list cop) : cmask := fold_left cosi_step' ops m.

  Definition cosi_count_enabled (m : cmask) : nat := count_bits (length (cm_pubs m)) (cm_bits m).

  (* sum of the keys whose bit is set, among the first |pubs| bits *)
  Fixpoint sum_enabled (pubs : list F) (bits : list bool) : F :=
    match pubs with
    | [] => pzero
    | X :: r => if hd false bits then padd X (sum_enabled r (tl bits)) else sum_enabled r (tl bits)
    end.

  Inductive policy := PComplete | PThreshold (th : Z).
  Definition policy_check (p : policy) (enabled total : nat) : bool :=
    match p with
    | PComplete => (enabled =? total)%nat
    | PThreshold th => th <=? Z.of_nat enabled
    end.

  (* the challenge hash H(V || A || M) -> scalar (SHA-512/256 + SetBytes): an oracle *)
  Variable Hc : F -> F -> Z -> F.

  (* Response: r = v + c*a *)
  Definition cosi_response (a v c : F) : F := zadd v (zmul a c).

  (* a signature as received: None = too short for V||r; V may fail to decode;
     r is reduced by SetBytes; the rest is the mask *)
  Definition cosig := option (option F * F * list bool).

  Definition cosi_verify (pubs : list F) (msg : Z) (sig : cosig) (pol : policy) : bool :=
    match sig with
    | None => false
    | Some (None, _, _) => false
    | Some (Some v, r, mb) =>
        match cosi_new_mask pubs None with
        | ROk m0 =>
            match cosi_set_mask m0 mb with
            | ROk m =>
                let A := cm_agg m in
                let k := Hc v A msg in
                let left := padd (smul k (pneg A)) (smul r pbase) in
                if negb (peqb left v) then false
                else policy_check pol (cosi_count_enabled m) (length pubs)
            | _ => false
            end
        | _ => false
        end
    end.

  (* the honest protocol: participants = enabled bits, commitments vs (one per key,
     only those of participants are used) *)
  Definition cosi_honest_sig (secrets vs : list F) (bits : list bool) (msg : Z) : cosig :=
    let V := sum_enabled vs bits in
    let A := sum_enabled secrets bits in
    let c := Hc V A msg in
    let rs := map2 (fun a v => cosi_response a v c) secrets vs in
    Some (Some V, sum_enabled rs bits, bits).
End MSig.

Arguments bls_sign {q} x h.
Arguments bls_verify {q} g1 X h sig.
Arguments validate_pairing {q} p1 p2 i1 i2.
