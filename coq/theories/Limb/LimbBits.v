(* Limb/LimbBits.v - a reflective BIT-SLICE analysis for the straight-line limb
   language of LimbSem.v, proved sound ONCE for all programs.  It is what turns
   the limb-level theorems of LimbGenValue.v into statements about the input and
   output BYTES of the generated code (instantiated in LimbBytes.v).

   Abstract value of an expression: a descriptor `d : list bsrc`, least
   significant bit first; entry n names where bit n of the value comes from:
       BC b      - the constant bit b
       BI a i j  - bit j of input byte  in_a[i]
       BV v j    - bit j of variable v of a reference store st0
   and every bit beyond the list is 0 (so the value is in [0, 2^length)).
   `R x d`  :=  forall n, testbit x n = (bit n described by d), equivalently
   x = dval d  (the number whose binary digits d describes).

   Tracked exactly: constants >= 0, input bytes (in [0,256)), << k, >> k,
   & and | (bitwise on descriptors; | only of bits one of which is the constant
   0, so that no information is lost), variables.  + - * give "unknown".

   Two checks, evaluated by vm_compute on the generated programs:
     unpack_check : the limbs a_0..a_11 the code loads are consecutive 21-bit
                    slices (the last one: all remaining bits) of the bit string
                    of the input bytes   => sum a_i 2^(21 i) = le_decode bytes
     pack_check   : the 32 stored bytes byte(e_j), concatenated, are the bits
                    of the limbs s_0..s_11 (21 bits each, the last one all its
                    bits)                => le_decode out = sum s_i 2^(21 i) *)
From Coq Require Import ZArith List Lia Bool.
From Kyber Require Import Limb.LimbSem Limb.LimbBounds Limb.LimbPoly Codec.Bytes.
Import ListNotations.
Open Scope Z_scope.

Inductive bsrc : Type :=
| BC (b : bool)
| BI (a i j : nat)
| BV (v j : nat).

Definition desc : Type := list bsrc.

Definition beqb (x y : bsrc) : bool :=
  match x, y with
  | BC a, BC b => Bool.eqb a b
  | BI a i j, BI a' i' j' => Nat.eqb a a' && Nat.eqb i i' && Nat.eqb j j'
  | BV v j, BV v' j' => Nat.eqb v v' && Nat.eqb j j'
  | _, _ => false
  end.

Lemma beqb_eq x y : beqb x y = true -> x = y.
Proof.
  destruct x, y; cbn [beqb]; intros H; try discriminate.
  - apply Bool.eqb_prop in H. congruence.
  - apply andb_true_iff in H. destruct H as [H H3]. apply andb_true_iff in H. destruct H as [H1 H2].
    apply Nat.eqb_eq in H1, H2, H3. congruence.
  - apply andb_true_iff in H. destruct H as [H1 H2]. apply Nat.eqb_eq in H1, H2. congruence.
Qed.

Definition is_zero (b : bsrc) : bool := match b with BC false => true | _ => false end.
Definition all_zero (d : desc) : bool := forallb is_zero d.

(* equality of descriptors up to trailing constant-0 bits *)
Fixpoint deq (x y : desc) : bool :=
  match x, y with
  | [], _ => all_zero y
  | _, [] => all_zero x
  | a :: x', b :: y' => beqb a b && deq x' y'
  end.

(* ---------- bitwise operations on descriptors ---------- *)

Definition bor (a b : bsrc) : option bsrc :=
  if is_zero a then Some b else if is_zero b then Some a else None.

Definition band (a b : bsrc) : option bsrc :=
  match a, b with
  | BC false, _ => Some (BC false)
  | _, BC false => Some (BC false)
  | BC true, _ => Some b
  | _, BC true => Some a
  | _, _ => None
  end.

Fixpoint dor (x y : desc) : option desc :=
  match x, y with
  | [], _ => Some y
  | _, [] => Some x
  | a :: x', b :: y' =>
      match bor a b, dor x' y' with
      | Some c, Some r => Some (c :: r)
      | _, _ => None
      end
  end.

Fixpoint dand (x y : desc) : option desc :=
  match x, y with
  | [], _ => Some []
  | _, [] => Some []
  | a :: x', b :: y' =>
      match band a b, dand x' y' with
      | Some c, Some r => Some (c :: r)
      | _, _ => None
      end
  end.

Definition const_bits (c : Z) : desc :=
  map (fun j => BC (Z.testbit c (Z.of_nat j))) (seq 0 (Z.to_nat (Z.log2 c + 1))).

Definition byte_bits (a i : nat) : desc := map (BI a i) (seq 0 8).

(* symbolic store: one optional descriptor per variable (None = unknown) *)
Fixpoint gets (ss : list (option desc)) (v : nat) : option desc :=
  match ss, v with
  | [], _ => None
  | x :: _, O => x
  | _ :: t, S n => gets t n
  end.

Fixpoint sset (ss : list (option desc)) (v : nat) (x : option desc) : list (option desc) :=
  match ss, v with
  | [], _ => []
  | _ :: t, O => x :: t
  | y :: t, S n => y :: sset t n x
  end.

Fixpoint seval (ss : list (option desc)) (e : expr) : option desc :=
  match e with
  | EConst c => if 0 <=? c then Some (const_bits c) else None
  | EVar v => gets ss v
  | EIn a i => Some (byte_bits a i)
  | EAdd _ _ | ESub _ _ | EMul _ _ => None
  | EShl a k =>
      if 0 <=? k then
        match seval ss a with
        | Some d => Some (repeat (BC false) (Z.to_nat k) ++ d)
        | None => None
        end
      else None
  | EShr a k =>
      if 0 <=? k then
        match seval ss a with
        | Some d => Some (skipn (Z.to_nat k) d)
        | None => None
        end
      else None
  | EAnd a b =>
      match seval ss a, seval ss b with
      | Some x, Some y => dand x y
      | _, _ => None
      end
  | EOr a b =>
      match seval ss a, seval ss b with
      | Some x, Some y => dor x y
      | _, _ => None
      end
  end.

Definition sstep (ss : list (option desc)) (i : instr) : list (option desc) :=
  match i with ISet v e => sset ss v (seval ss e) end.

Fixpoint sexec (code : list instr) (ss : list (option desc)) : list (option desc) :=
  match code with
  | [] => ss
  | i :: p => sexec p (sstep ss i)
  end.

(* the low 8 bits, as exactly 8 entries *)
Fixpoint nthb (d : desc) (n : nat) : bsrc :=
  match d, n with
  | [], _ => BC false
  | b :: _, O => b
  | _ :: r, S m => nthb r m
  end.
Definition take8 (d : desc) : desc := map (nthb d) (seq 0 8).

(* out[j] = byte(e_j): the concatenated bits of all output bytes *)
Fixpoint souts (ss : list (option desc)) (outs : list expr) : option desc :=
  match outs with
  | [] => Some []
  | e :: r =>
      match seval ss e, souts ss r with
      | Some d, Some D => Some (take8 d ++ D)
      | _, _ => None
      end
  end.

Fixpoint collect (ss : list (option desc)) (vars : list nat) : option (list desc) :=
  match vars with
  | [] => Some []
  | v :: r =>
      match gets ss v, collect ss r with
      | Some d, Some ds => Some (d :: ds)
      | _, _ => None
      end
  end.

(* ds = consecutive 21-bit slices of D, the last one taking everything left *)
Fixpoint split_check (ds : list desc) (D : desc) : bool :=
  match ds with
  | [] => all_zero D
  | d :: r =>
      match r with
      | [] => deq d D
      | _ :: _ => deq d (firstn 21 D) && split_check r (skipn 21 D)
      end
  end.

(* the bits of input bytes in_a[k], in_a[k+1], ..., n of them *)
Fixpoint bytes_desc (a k n : nat) : desc :=
  match n with
  | O => []
  | S n' => byte_bits a k ++ bytes_desc a (S k) n'
  end.

(* sum_{i<n} l[k+i] 256^i  (missing bytes read 0, like inb) *)
Fixpoint le_nth (l : list Z) (k n : nat) : Z :=
  match n with
  | O => 0
  | S n' => inb l k + 256 * le_nth l (S k) n'
  end.

Lemma le_nth_cons x l n : forall k, le_nth (x :: l) (S k) n = le_nth l k n.
Proof. induction n as [|n IH]; intros k; cbn [le_nth]; auto. rewrite IH. reflexivity. Qed.

Lemma le_nth_decode l : le_nth l 0 (length l) = le_decode l.
Proof.
  induction l as [|x l IH]; cbn [length le_nth le_decode]; auto.
  rewrite le_nth_cons, IH. reflexivity.
Qed.

(* identity descriptors: variable v is known to be in [0, 2^w) *)
Definition ident (vw : nat * nat) : desc := map (BV (fst vw)) (seq 0 (snd vw)).

Definition id_f (svw : list (nat * nat)) (v : nat) : option desc :=
  match find (fun p => Nat.eqb (fst p) v) svw with
  | Some p => Some (ident p)
  | None => None
  end.

Fixpoint id_store (n k : nat) (f : nat -> option desc) : list (option desc) :=
  match n with
  | O => []
  | S n' => f k :: id_store n' (S k) f
  end.

Definition unpack_check (nvars : nat) (code : list instr) (vars : list nat) (a nbytes : nat) : bool :=
  match collect (sexec code (repeat (Some []) nvars)) vars with
  | Some ds => split_check ds (bytes_desc a 0 nbytes)
  | None => false
  end.

Definition pack_check (p : prog) (svw : list (nat * nat)) : bool :=
  match souts (id_store (p_nvars p) 0 (id_f svw)) (p_outs p) with
  | Some D => split_check (map ident svw) D
  | None => false
  end.

Fixpoint wdval_gen (dv : desc -> Z) (w : Z) (ds : list desc) : Z :=
  match ds with
  | [] => 0
  | d :: r => w * dv d + wdval_gen dv (w * 2097152) r
  end.

(* ---------- semantics of descriptors and soundness ---------- *)

Section Den.
  Variable ins : list (list Z).
  Variable st0 : list Z.

  Definition bitval (b : bsrc) : bool :=
    match b with
    | BC c => c
    | BI a i j => Z.testbit (inb (arr ins a) i) (Z.of_nat j)
    | BV v j => Z.testbit (getv st0 v) (Z.of_nat j)
    end.

  Fixpoint bden (d : desc) (n : nat) : bool :=
    match d, n with
    | [], _ => false
    | b :: _, O => bitval b
    | _ :: r, S m => bden r m
    end.

  Fixpoint dval (d : desc) : Z :=
    match d with
    | [] => 0
    | b :: r => Z.b2z (bitval b) + 2 * dval r
    end.

  Definition R (x : Z) (d : desc) : Prop :=
    forall n : nat, Z.testbit x (Z.of_nat n) = bden d n.

  Lemma dval_testbit d : forall n, Z.testbit (dval d) (Z.of_nat n) = bden d n.
  Proof.
    induction d as [|b r IH]; intros [|n]; cbn [dval bden].
    - apply Z.testbit_0_l.
    - apply Z.testbit_0_l.
    - rewrite Z.add_comm. apply Z.testbit_0_r.
    - rewrite Nat2Z.inj_succ, Z.add_comm, Z.testbit_succ_r by lia. apply IH.
  Qed.

  Lemma R_eq x d : R x d -> x = dval d.
  Proof.
    intros H. apply Z.bits_inj'. intros n Hn.
    rewrite <- (Z2Nat.id n) by lia. rewrite H, dval_testbit. reflexivity.
  Qed.

  Lemma dval_app x y : dval (x ++ y) = dval x + 2 ^ Z.of_nat (length x) * dval y.
  Proof.
    induction x as [|b x IH]; cbn [app dval length].
    - rewrite Z.pow_0_r. lia.
    - rewrite IH, Nat2Z.inj_succ, Z.pow_succ_r by lia. ring.
  Qed.

  Lemma dval_firstn_skipn k : forall D,
    dval D = dval (firstn k D) + 2 ^ Z.of_nat k * dval (skipn k D).
  Proof.
    induction k as [|k IH]; intros D.
    - cbn [firstn skipn dval]. rewrite Z.pow_0_r. lia.
    - destruct D as [|b D]; cbn [firstn skipn dval]; [lia|].
      rewrite (IH D) at 1. rewrite Nat2Z.inj_succ, Z.pow_succ_r by lia. ring.
  Qed.

  Lemma is_zero_val b : is_zero b = true -> bitval b = false.
  Proof. destruct b as [[|]| |]; cbn; congruence. Qed.

  Lemma all_zero_dval d : all_zero d = true -> dval d = 0.
  Proof.
    induction d as [|b r IH]; cbn [all_zero forallb dval]; auto.
    intros H. apply andb_true_iff in H. destruct H as [H1 H2].
    rewrite (is_zero_val _ H1). fold (all_zero r) in H2. rewrite (IH H2). reflexivity.
  Qed.

  Lemma deq_dval x : forall y, deq x y = true -> dval x = dval y.
  Proof.
    induction x as [|a x IH]; intros y H.
    - cbn [deq] in H. rewrite (all_zero_dval _ H). reflexivity.
    - destruct y as [|b y].
      + cbn [deq] in H. rewrite (all_zero_dval _ H). reflexivity.
      + cbn [deq] in H. apply andb_true_iff in H. destruct H as [H1 H2].
        apply beqb_eq in H1. subst b. cbn [dval]. rewrite (IH _ H2). reflexivity.
  Qed.

  (* ----- R for each operation ----- *)

  Lemma bden_nil n : bden [] n = false.
  Proof. destruct n; reflexivity. Qed.

  Lemma R_zero : R 0 [].
  Proof. intros n. rewrite bden_nil. apply Z.testbit_0_l. Qed.

  Lemma bden_map_seq (mk : nat -> bsrc) w : forall k n,
    bden (map mk (seq k w)) n = if Nat.ltb n w then bitval (mk (k + n)%nat) else false.
  Proof.
    induction w as [|w IH]; intros k n; cbn [seq map].
    - rewrite bden_nil. reflexivity.
    - destruct n as [|n]; cbn [bden].
      + rewrite Nat.add_0_r. reflexivity.
      + rewrite IH. replace (S k + n)%nat with (k + S n)%nat by lia.
        change (Nat.ltb (S n) (S w)) with (Nat.ltb n w). reflexivity.
  Qed.

  Lemma testbit_high x (w n : nat) :
    0 <= x < 2 ^ Z.of_nat w -> (w <= n)%nat -> Z.testbit x (Z.of_nat n) = false.
  Proof.
    intros Hx Hn. destruct (Z.eq_dec x 0) as [->|Hx0]; [apply Z.testbit_0_l|].
    apply Z.bits_above_log2; [lia|].
    apply Z.log2_lt_pow2; [lia|].
    assert (2 ^ Z.of_nat w <= 2 ^ Z.of_nat n) by (apply Z.pow_le_mono_r; lia). lia.
  Qed.

  Lemma R_srcbits x (mk : nat -> bsrc) w :
    0 <= x < 2 ^ Z.of_nat w ->
    (forall j, bitval (mk j) = Z.testbit x (Z.of_nat j)) ->
    R x (map mk (seq 0 w)).
  Proof.
    intros Hx Hmk n. rewrite bden_map_seq.
    destruct (Nat.ltb_spec n w) as [Hn | Hn].
    - rewrite Hmk. reflexivity.
    - apply (testbit_high x w n); auto.
  Qed.

  Lemma R_const c : 0 <= c -> R c (const_bits c).
  Proof.
    intros Hc. unfold const_bits. apply R_srcbits; [|reflexivity].
    pose proof (Z.log2_nonneg c). rewrite Z2Nat.id by lia.
    destruct (Z.eq_dec c 0) as [->|Hc0]; [cbn; lia|].
    split; [lia|]. replace (Z.log2 c + 1) with (Z.succ (Z.log2 c)) by lia.
    apply Z.log2_spec. lia.
  Qed.

  Lemma R_shl x d k : 0 <= k -> R x d -> R (Z.shiftl x k) (repeat (BC false) (Z.to_nat k) ++ d).
  Proof.
    intros Hk H n. rewrite Z.shiftl_spec by lia.
    assert (Ek : k = Z.of_nat (Z.to_nat k)) by lia.
    revert n. rewrite Ek. rewrite Nat2Z.id. generalize (Z.to_nat k) as m. clear k Hk Ek.
    induction m as [|m IH]; intros n.
    - cbn [repeat app]. rewrite Z.sub_0_r. apply H.
    - cbn [repeat app]. destruct n as [|n]; cbn [bden bitval].
      + apply Z.testbit_neg_r. lia.
      + rewrite <- IH. f_equal. lia.
  Qed.

  Lemma bden_skipn m : forall d n, bden (skipn m d) n = bden d (n + m).
  Proof.
    induction m as [|m IH]; intros d n.
    - cbn [skipn]. rewrite Nat.add_0_r. reflexivity.
    - destruct d as [|b d]; cbn [skipn].
      + rewrite !bden_nil. reflexivity.
      + rewrite IH. replace (n + S m)%nat with (S (n + m)) by lia. reflexivity.
  Qed.

  Lemma R_shr x d k : 0 <= k -> R x d -> R (Z.shiftr x k) (skipn (Z.to_nat k) d).
  Proof.
    intros Hk H n. rewrite Z.shiftr_spec by lia. rewrite bden_skipn, <- H.
    f_equal. lia.
  Qed.

  Lemma bor_val a b c : bor a b = Some c -> bitval c = bitval a || bitval b.
  Proof.
    unfold bor. destruct (is_zero a) eqn:Ea.
    - intros E. inversion E. subst. rewrite (is_zero_val _ Ea). reflexivity.
    - destruct (is_zero b) eqn:Eb; [|discriminate].
      intros E. inversion E. subst. rewrite (is_zero_val _ Eb), orb_false_r. reflexivity.
  Qed.

  Lemma band_val a b c : band a b = Some c -> bitval c = bitval a && bitval b.
  Proof.
    destruct a as [[|]| |], b as [[|]| |]; cbn [band]; intros E; inversion E; subst;
      cbn [bitval]; rewrite ?andb_true_r, ?andb_false_r, ?andb_true_l, ?andb_false_l; reflexivity.
  Qed.

  Lemma dor_bden x : forall y d, dor x y = Some d -> forall n, bden d n = bden x n || bden y n.
  Proof.
    induction x as [|a x IH]; intros y d H n.
    - cbn [dor] in H. inversion H. subst. rewrite bden_nil. reflexivity.
    - destruct y as [|b y].
      + cbn [dor] in H. inversion H. subst. rewrite bden_nil, orb_false_r. reflexivity.
      + cbn [dor] in H. destruct (bor a b) as [c|] eqn:Ec; [|discriminate].
        destruct (dor x y) as [r|] eqn:Er; [|discriminate]. inversion H. subst d.
        destruct n as [|n]; cbn [bden].
        * apply (bor_val _ _ _ Ec).
        * apply (IH _ _ Er).
  Qed.

  Lemma dand_bden x : forall y d, dand x y = Some d -> forall n, bden d n = bden x n && bden y n.
  Proof.
    induction x as [|a x IH]; intros y d H n.
    - cbn [dand] in H. inversion H. subst. rewrite bden_nil. reflexivity.
    - destruct y as [|b y].
      + cbn [dand] in H. inversion H. subst. rewrite !bden_nil, andb_false_r. reflexivity.
      + cbn [dand] in H. destruct (band a b) as [c|] eqn:Ec; [|discriminate].
        destruct (dand x y) as [r|] eqn:Er; [|discriminate]. inversion H. subst d.
        destruct n as [|n]; cbn [bden].
        * apply (band_val _ _ _ Ec).
        * apply (IH _ _ Er).
  Qed.

  Lemma R_lor x y dx dy d : R x dx -> R y dy -> dor dx dy = Some d -> R (Z.lor x y) d.
  Proof. intros Hx Hy H n. rewrite Z.lor_spec, Hx, Hy. symmetry. apply (dor_bden _ _ _ H). Qed.

  Lemma R_land x y dx dy d : R x dx -> R y dy -> dand dx dy = Some d -> R (Z.land x y) d.
  Proof. intros Hx Hy H n. rewrite Z.land_spec, Hx, Hy. symmetry. apply (dand_bden _ _ _ H). Qed.

  Lemma bden_take8 d n : bden (take8 d) n = if Nat.ltb n 8 then bden d n else false.
  Proof.
    unfold take8. rewrite bden_map_seq. destruct (Nat.ltb n 8); auto.
    cbn [Nat.add]. revert n. induction d as [|b d IH]; intros [|n]; cbn [nthb bden bitval]; auto.
  Qed.

  Lemma R_byte8 x d : R x d -> R (byte8 x) (take8 d).
  Proof.
    intros H n. unfold byte8. change 256 with (2 ^ 8). rewrite bden_take8.
    destruct (Nat.ltb_spec n 8) as [Hn | Hn].
    - rewrite Z.mod_pow2_bits_low by lia. apply H.
    - apply Z.mod_pow2_bits_high. lia.
  Qed.

  Lemma take8_length d : length (take8 d) = 8%nat.
  Proof. reflexivity. Qed.

  (* ----- symbolic execution ----- *)

  Hypothesis Hbytes : forall a i, 0 <= inb (arr ins a) i < 256.

  Lemma R_in a i : R (inb (arr ins a) i) (byte_bits a i).
  Proof. unfold byte_bits. apply R_srcbits; [exact (Hbytes a i) | reflexivity]. Qed.

  Definition agree (ss : list (option desc)) (st : list Z) : Prop :=
    length ss = length st /\ forall v d, gets ss v = Some d -> R (getv st v) d.

  Lemma seval_sound ss st e : agree ss st ->
    forall d, seval ss e = Some d -> R (eval noi ins st e) d.
  Proof.
    intros [_ Hag]. induction e; intros d H; cbn [seval] in H; cbn [eval]; unfold noi.
    - destruct (0 <=? c) eqn:Ec; [|discriminate]. apply Z.leb_le in Ec.
      inversion H. subst. apply R_const; auto.
    - apply Hag; auto.
    - inversion H. subst. apply R_in.
    - discriminate.
    - discriminate.
    - discriminate.
    - destruct (0 <=? k) eqn:Ek; [|discriminate]. apply Z.leb_le in Ek.
      destruct (seval ss e) as [x|]; [|discriminate]. inversion H. subst.
      apply R_shl; auto.
    - destruct (0 <=? k) eqn:Ek; [|discriminate]. apply Z.leb_le in Ek.
      destruct (seval ss e) as [x|]; [|discriminate]. inversion H. subst.
      apply R_shr; auto.
    - destruct (seval ss e1) as [x|]; [|discriminate]. destruct (seval ss e2) as [y|]; [|discriminate].
      eapply R_land; eauto.
    - destruct (seval ss e1) as [x|]; [|discriminate]. destruct (seval ss e2) as [y|]; [|discriminate].
      eapply R_lor; eauto.
  Qed.

  Lemma sset_length ss v x : length (sset ss v x) = length ss.
  Proof. revert v. induction ss; destruct v; cbn; auto. Qed.

  Lemma gets_sset ss v w x : (v < length ss)%nat ->
    gets (sset ss v x) w = if Nat.eqb w v then x else gets ss w.
  Proof.
    revert v w. induction ss as [|y t IH]; intros v w Hv; [cbn in Hv; lia|].
    destruct v, w; cbn; auto. apply IH. cbn in Hv. lia.
  Qed.

  Lemma sset_oob ss v x : (length ss <= v)%nat -> sset ss v x = ss.
  Proof.
    revert v. induction ss as [|y t IH]; intros v Hv; [destruct v; reflexivity|].
    destruct v; cbn in Hv; [lia|]. cbn [sset]. rewrite IH by lia. reflexivity.
  Qed.

  Lemma setv_oob st v x : (length st <= v)%nat -> setv st v x = st.
  Proof.
    revert v. induction st as [|y t IH]; intros v Hv; [destruct v; reflexivity|].
    destruct v; cbn in Hv; [lia|]. cbn [setv]. rewrite IH by lia. reflexivity.
  Qed.

  Lemma sstep_sound ss st i : agree ss st -> agree (sstep ss i) (step noi ins st i).
  Proof.
    intros Hag. destruct i as [v e]. cbn [sstep step].
    pose proof Hag as [Hl Hg].
    destruct (lt_dec v (length st)) as [Hv | Hv].
    - split; [rewrite sset_length, setv_length; exact Hl|].
      intros w d. rewrite gets_sset, getv_setv by lia.
      destruct (Nat.eqb w v); [|apply Hg]. apply seval_sound; exact Hag.
    - rewrite sset_oob, setv_oob by lia. exact Hag.
  Qed.

  Lemma sexec_sound code : forall ss st, agree ss st ->
    agree (sexec code ss) (exec noi ins code st).
  Proof.
    induction code as [|i p IH]; intros ss st Hag; cbn [sexec exec]; auto.
    apply IH. apply sstep_sound. exact Hag.
  Qed.

  Lemma gets_repeat_nil n : forall v d, gets (repeat (Some []) n) v = Some d -> d = [].
  Proof.
    induction n as [|n IH]; intros v d H; [destruct v; discriminate|].
    destruct v; cbn in H; [inversion H; reflexivity|]. apply (IH _ _ H).
  Qed.

  Lemma agree_init n : agree (repeat (Some []) n) (repeat 0 n).
  Proof.
    split; [rewrite !repeat_length; reflexivity|].
    intros v d H. apply gets_repeat_nil in H. subst d. rewrite getv_repeat. apply R_zero.
  Qed.

  Lemma souts_sound ss st outs : agree ss st ->
    forall D, souts ss outs = Some D -> le_decode (outs_of noi ins st outs) = dval D.
  Proof.
    intros Hag. induction outs as [|e r IH]; intros D H; cbn [souts] in H; cbn [outs_of le_decode].
    - inversion H. reflexivity.
    - destruct (seval ss e) as [d|] eqn:Ed; [|discriminate].
      destruct (souts ss r) as [D'|]; [|discriminate].
      assert (ED : D = take8 d ++ D') by congruence. subst D. clear H.
      rewrite dval_app, take8_length, (IH _ eq_refl).
      rewrite <- (R_eq _ _ (R_byte8 _ _ (seval_sound _ _ _ Hag _ Ed))).
      change (2 ^ Z.of_nat 8) with 256. reflexivity.
  Qed.

  Definition wdval : Z -> list desc -> Z := wdval_gen dval.

  Lemma collect_wval ss st vars : agree ss st ->
    forall ds w, collect ss vars = Some ds -> wval w st vars = wdval w ds.
  Proof.
    intros [_ Hag]. induction vars as [|v r IH]; intros ds w H; cbn [collect] in H.
    - inversion H. reflexivity.
    - destruct (gets ss v) as [d|] eqn:Ed; [|discriminate].
      destruct (collect ss r) as [ds'|]; [|discriminate]. inversion H. subst ds.
      cbn [wval]. unfold wdval. cbn [wdval_gen]. fold wdval.
      rewrite (IH _ _ eq_refl), (R_eq _ _ (Hag _ _ Ed)). reflexivity.
  Qed.

  Lemma split_check_sound ds : forall D w, split_check ds D = true -> wdval w ds = w * dval D.
  Proof.
    induction ds as [|d r IH]; intros D w H.
    - cbn [split_check] in H. rewrite (all_zero_dval _ H). unfold wdval. cbn [wdval_gen]. lia.
    - destruct r as [|d' r'].
      + cbn [split_check] in H. apply deq_dval in H. unfold wdval. cbn [wdval_gen]. rewrite H. lia.
      + change (split_check (d :: d' :: r') D)
          with (deq d (firstn 21 D) && split_check (d' :: r') (skipn 21 D)) in H.
        apply andb_true_iff in H. destruct H as [H1 H2].
        apply deq_dval in H1. specialize (IH _ (w * 2097152) H2).
        change (wdval w (d :: d' :: r')) with (w * dval d + wdval (w * 2097152) (d' :: r')).
        rewrite IH, H1. rewrite (dval_firstn_skipn 21 D).
        change (2 ^ Z.of_nat 21) with 2097152. ring.
  Qed.

  Lemma bytes_desc_dval a n : forall k, dval (bytes_desc a k n) = le_nth (arr ins a) k n.
  Proof.
    induction n as [|n IH]; intros k; cbn [bytes_desc le_nth]; auto.
    rewrite dval_app, IH, <- (R_eq _ _ (R_in a k)).
    change (2 ^ Z.of_nat (length (byte_bits a k))) with 256. reflexivity.
  Qed.

  (* MAIN 1 (unpack): the limbs held in `vars` after running `code` from the
     all-zero store are the radix-2^21 digits of the little-endian value of the
     first `nbytes` bytes of input array a *)
  Theorem unpack_sound nvars code vars a nbytes :
    unpack_check nvars code vars a nbytes = true ->
    wval 1 (exec noi ins code (repeat 0 nvars)) vars = le_nth (arr ins a) 0 nbytes.
  Proof.
    unfold unpack_check. intros H.
    destruct (collect (sexec code (repeat (Some []) nvars)) vars) as [ds|] eqn:Ec; [|discriminate].
    pose proof (sexec_sound code _ _ (agree_init nvars)) as Hag.
    rewrite (collect_wval _ _ _ Hag _ 1 Ec), (split_check_sound _ _ 1 H), bytes_desc_dval. lia.
  Qed.
End Den.

(* ---------- pack: reference store = the store the outputs are read from ---------- *)

Lemma gets_id_store f n : forall k v,
  gets (id_store n k f) v = if Nat.ltb v n then f (k + v)%nat else None.
Proof.
  induction n as [|n IH]; intros k v; cbn [id_store].
  - destruct v; reflexivity.
  - destruct v as [|v]; cbn [gets].
    + rewrite Nat.add_0_r. reflexivity.
    + rewrite IH. replace (S k + v)%nat with (k + S v)%nat by lia.
      change (Nat.ltb (S v) (S n)) with (Nat.ltb v n). reflexivity.
Qed.

Lemma id_store_length f n : forall k, length (id_store n k f) = n.
Proof. induction n as [|n IH]; intros k; cbn [id_store length]; auto. Qed.

Definition in_width (st : list Z) (vw : nat * nat) : Prop :=
  0 <= getv st (fst vw) < 2 ^ Z.of_nat (snd vw).

Lemma R_ident ins st vw : in_width st vw -> R ins st (getv st (fst vw)) (ident vw).
Proof. intros H. unfold ident. apply R_srcbits; [exact H | reflexivity]. Qed.

Lemma agree_id_store ins st svw :
  Forall (in_width st) svw -> agree ins st (id_store (length st) 0 (id_f svw)) st.
Proof.
  intros HF. split; [apply id_store_length|].
  intros v d. rewrite gets_id_store. destruct (Nat.ltb v (length st)); [|discriminate].
  cbn [Nat.add]. unfold id_f.
  destruct (find (fun p => Nat.eqb (fst p) v) svw) as [p|] eqn:Ef; [|discriminate].
  intros E. inversion E. subst d. apply find_some in Ef. destruct Ef as [Hin Hv].
  apply Nat.eqb_eq in Hv. subst v. apply R_ident.
  rewrite Forall_forall in HF. auto.
Qed.

Lemma wdval_ident ins st svw : Forall (in_width st) svw ->
  forall w, wdval ins st w (map ident svw) = wval w st (map fst svw).
Proof.
  intros HF. induction HF as [|vw r Hvw Hr IH]; intros w; [reflexivity|].
  cbn [map wval]. unfold wdval. cbn [wdval_gen]. fold (wdval ins st).
  rewrite IH, <- (R_eq _ _ _ _ (R_ident ins st vw Hvw)). reflexivity.
Qed.

(* MAIN 2 (pack): the stored bytes are the little-endian encoding of the value of the limbs *)
Theorem pack_sound ins p svw st :
  (forall a i, 0 <= inb (arr ins a) i < 256) ->
  length st = p_nvars p ->
  Forall (in_width st) svw ->
  pack_check p svw = true ->
  le_decode (outs_of noi ins st (p_outs p)) = wval 1 st (map fst svw).
Proof.
  intros Hb Hl HF H. unfold pack_check in H. rewrite <- Hl in H.
  destruct (souts (id_store (length st) 0 (id_f svw)) (p_outs p)) as [D|] eqn:Es; [|discriminate].
  rewrite (souts_sound ins st Hb _ st _ (agree_id_store ins st svw HF) _ Es).
  rewrite <- (wdval_ident ins st svw HF 1), (split_check_sound ins st _ _ 1 H). lia.
Qed.

Lemma outs_of_length wr ins st outs : length (outs_of wr ins st outs) = length outs.
Proof. induction outs; cbn [outs_of length]; auto. Qed.

Lemma outs_of_bytes wr ins st outs : Forall (fun x => 0 <= x <= 255) (outs_of wr ins st outs).
Proof.
  induction outs as [|e r IH]; cbn [outs_of]; constructor; auto.
  unfold byte8. pose proof (Z.mod_pos_bound (eval wr ins st e) 256 ltac:(lia)). lia.
Qed.
