(* Limb/LimbRun.v - translation validation runner: evaluates the GENERATED Gallina
   functions (Generated/ScalarLimbs.v; Go semantics, every operation wrapped) and
   the deeply embedded programs on the inputs the real Go functions ran on and
   compares the 32 output bytes. Cases are written by translator/validate
   (`bin/gen-limbs --validate`). *)
From Coq Require Import ZArith List Bool.
From Kyber Require Import Limb.LimbSem Generated.ScalarLimbs.
Import ListNotations.
Open Scope bool_scope.
Open Scope Z_scope.

Inductive fn := FMulAdd | FMul | FAdd | FSub | FReduce.

Record case := mkCase {
  c_id : Z; c_fn : fn; c_a : list Z; c_b : list Z; c_c : list Z; c_out : list Z }.

Fixpoint zlist_eqb (x y : list Z) : bool :=
  match x, y with
  | [], [] => true
  | a :: x', b :: y' => Z.eqb a b && zlist_eqb x' y'
  | _, _ => false
  end.

(* the shallow generated function *)
Definition gen_shallow (c : case) : list Z :=
  match c_fn c with
  | FMulAdd => scMulAdd (c_a c) (c_b c) (c_c c)
  | FMul => scMul (c_a c) (c_b c)
  | FAdd => scAdd (c_a c) (c_b c)
  | FSub => scSub (c_a c) (c_b c)
  | FReduce => scReduce (c_a c)
  end.

(* the deep program under the wrapped and the unwrapped semantics *)
Definition gen_deep (wr : Z -> Z) (c : case) : list Z :=
  match c_fn c with
  | FMulAdd => run wr [c_a c; c_b c; c_c c] prog_scMulAdd
  | FMul => run wr [c_a c; c_b c] prog_scMul
  | FAdd => run wr [c_a c; c_b c] prog_scAdd
  | FSub => run wr [c_a c; c_b c] prog_scSub
  | FReduce => run wr [c_a c] prog_scReduce
  end.

Definition check (c : case) : option Z :=
  if zlist_eqb (gen_shallow c) (c_out c)
     && zlist_eqb (gen_deep i64 c) (c_out c)
     && zlist_eqb (gen_deep noi c) (c_out c)
  then None else Some (c_id c).

Fixpoint mismatches (cs : list case) : list Z :=
  match cs with
  | [] => []
  | c :: r => match check c with Some i => i :: mismatches r | None => mismatches r end
  end.
