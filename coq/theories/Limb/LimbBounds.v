(* Limb/LimbBounds.v - a reflective interval analysis for the straight-line limb
   language of LimbSem.v, proved sound ONCE for all programs:

     bounds_ok p input_ranges = true
       -> every input byte in its range
       -> no int64 operation of p ever wraps:  run i64 ins p = run noi ins p
          (and the final store lies in the computed intervals).

   Domain: one closed interval per variable plus "carry facts"
   `c = (x + r) >> k` (valid while neither c nor x is reassigned), which make the
   ref10 carry step  c = (x + r) >> k ; y += c ; x -= c << k  precise:
   afterwards x is in [-r, 2^k - r).  Plain intervals lose that relation and
   report spurious overflows in the following  s_j += s_i * 666643  folds. *)
From Coq Require Import ZArith List Lia Bool.
From Kyber Require Import Limb.LimbSem.
Import ListNotations.
Open Scope Z_scope.

(* ---------- arithmetic facts ---------- *)

Lemma i64_id x : in64 x -> i64 x = x.
Proof.
  unfold in64, i64, two63, two64. intros H.
  rewrite Z.mod_small by lia. lia.
Qed.

Lemma shiftl_mul x k : 0 <= k -> Z.shiftl x k = x * 2 ^ k.
Proof. intros. apply Z.shiftl_mul_pow2; auto. Qed.

Lemma shiftr_div x k : 0 <= k -> Z.shiftr x k = x / 2 ^ k.
Proof. intros. apply Z.shiftr_div_pow2; auto. Qed.

Lemma pow2_pos k : 0 <= k -> 0 < 2 ^ k.
Proof. intros. apply Z.pow_pos_nonneg; lia. Qed.

Lemma range_div p a : 0 < p -> (- p <= a < p <-> a / p = 0 \/ a / p = -1).
Proof.
  intros Hp. pose proof (Z.div_mod a p ltac:(lia)) as E.
  pose proof (Z.mod_pos_bound a p Hp) as B.
  split; intros H.
  - assert (-1 <= a / p < 1) by nia. lia.
  - destruct H as [H | H]; rewrite H in E; lia.
Qed.

Lemma lor_range k a b : 0 <= k ->
  - 2 ^ k <= a < 2 ^ k -> - 2 ^ k <= b < 2 ^ k -> - 2 ^ k <= Z.lor a b < 2 ^ k.
Proof.
  intros Hk Ha Hb. pose proof (pow2_pos k Hk) as Hp.
  apply (range_div _ _ Hp) in Ha, Hb. apply (range_div _ _ Hp).
  rewrite <- !shiftr_div in * by auto. rewrite Z.shiftr_lor.
  destruct Ha as [-> | ->], Hb as [-> | ->]; cbn; auto.
Qed.

Lemma land_range k a b : 0 <= k ->
  - 2 ^ k <= a < 2 ^ k -> - 2 ^ k <= b < 2 ^ k -> - 2 ^ k <= Z.land a b < 2 ^ k.
Proof.
  intros Hk Ha Hb. pose proof (pow2_pos k Hk) as Hp.
  apply (range_div _ _ Hp) in Ha, Hb. apply (range_div _ _ Hp).
  rewrite <- !shiftr_div in * by auto. rewrite Z.shiftr_land.
  destruct Ha as [-> | ->], Hb as [-> | ->]; cbn; auto.
Qed.

Lemma land_upper a b : 0 <= b -> 0 <= Z.land a b <= b.
Proof.
  intros Hb. split. { apply Z.land_nonneg. auto. }
  assert (E : b = Z.ldiff b a + Z.land b a).
  { rewrite Z.add_nocarry_lxor, Z.lxor_lor.
    - symmetry. apply Z.lor_ldiff_and.
    - rewrite (Z.land_comm b a), Z.land_assoc, Z.land_ldiff. reflexivity.
    - rewrite (Z.land_comm b a), Z.land_assoc, Z.land_ldiff. reflexivity. }
  assert (0 <= Z.ldiff b a) by (apply Z.ldiff_nonneg; auto).
  rewrite (Z.land_comm a b). lia.
Qed.

Lemma mul_bounds a b c d x y : a <= x <= b -> c <= y <= d ->
  Z.min (Z.min (a * c) (a * d)) (Z.min (b * c) (b * d)) <= x * y
  <= Z.max (Z.max (a * c) (a * d)) (Z.max (b * c) (b * d)).
Proof.
  intros Hx Hy.
  assert (0 <= (x - a) * (y - c)) by nia.
  assert (0 <= (b - x) * (d - y)) by nia.
  assert (0 <= (x - a) * (d - y)) by nia.
  assert (0 <= (b - x) * (y - c)) by nia.
  destruct (Z.le_ge_cases 0 y); destruct (Z.le_ge_cases 0 x); split; nia.
Qed.

(* x - ((x + r) / 2^k) * 2^k  is the centred remainder *)
Lemma carry_remainder x r p : 0 < p ->
  - r <= x - ((x + r) / p) * p <= p - 1 - r.
Proof.
  intros Hp. pose proof (Z.div_mod (x + r) p ltac:(lia)).
  pose proof (Z.mod_pos_bound (x + r) p Hp). nia.
Qed.

(* ---------- abstract domain ---------- *)

Definition itv : Type := (Z * Z)%type.
Definition inI (x : Z) (i : itv) : Prop := fst i <= x <= snd i.
Definition fits (i : itv) : bool := (- two63 <=? fst i) && (snd i <? two63).

Lemma fits_in64 x i : fits i = true -> inI x i -> in64 x.
Proof.
  unfold fits, inI, in64. intros H. apply andb_true_iff in H. destruct H as [H1 H2].
  apply Z.leb_le in H1. apply Z.ltb_lt in H2. lia.
Qed.

Fixpoint geti (st : list itv) (v : nat) : itv :=
  match st, v with
  | [], _ => (0, 0)
  | x :: _, O => x
  | _ :: t, S n => geti t n
  end.

Fixpoint seti (st : list itv) (v : nat) (x : itv) : list itv :=
  match st, v with
  | [], _ => []
  | _ :: t, O => x :: t
  | y :: t, S n => y :: seti t n x
  end.

Record fact : Type := mkFact { f_c : nat; f_x : nat; f_r : Z; f_k : Z }.

Record astate : Type := mkA { a_iv : list itv; a_facts : list fact }.

Definition holds (st : list Z) (f : fact) : Prop :=
  getv st (f_c f) = Z.shiftr (getv st (f_x f) + f_r f) (f_k f).

Definition gamma (A : astate) (st : list Z) : Prop :=
  length st = length (a_iv A) /\
  (forall v, inI (getv st v) (geti (a_iv A) v)) /\
  Forall (holds st) (a_facts A).

Definition chk (i : itv) : option itv := if fits i then Some i else None.

Definition maxabs (x y : itv) : Z :=
  Z.max (Z.max (Z.abs (fst x)) (Z.abs (snd x))) (Z.max (Z.abs (fst y)) (Z.abs (snd y))).

Definition width (x y : itv) : Z := Z.log2 (maxabs x y) + 1.

Definition and_itv (x y : itv) : itv :=
  if (0 <=? fst x) && (0 <=? fst y) then (0, Z.min (snd x) (snd y))
  else if 0 <=? fst y then (0, snd y)
  else if 0 <=? fst x then (0, snd x)
  else let k := width x y in (- 2 ^ k, 2 ^ k - 1).

Definition or_itv (x y : itv) : itv :=
  let k := width x y in
  if (0 <=? fst x) && (0 <=? fst y) then (0, 2 ^ k - 1) else (- 2 ^ k, 2 ^ k - 1).

Definition mul_itv (x y : itv) : itv :=
  let '(a, b) := x in let '(c, d) := y in
  (Z.min (Z.min (a * c) (a * d)) (Z.min (b * c) (b * d)),
   Z.max (Z.max (a * c) (a * d)) (Z.max (b * c) (b * d))).

Section Analysis.
  Variable inr : list itv.            (* range of the bytes of each input array *)

  Fixpoint aexpr (iv : list itv) (e : expr) : option itv :=
    match e with
    | EConst c => Some (c, c)
    | EVar v => Some (geti iv v)
    | EIn a _ => Some (nth a inr (0, 0))
    | EAdd a b =>
        match aexpr iv a, aexpr iv b with
        | Some x, Some y => chk (fst x + fst y, snd x + snd y)
        | _, _ => None
        end
    | ESub a b =>
        match aexpr iv a, aexpr iv b with
        | Some x, Some y => chk (fst x - snd y, snd x - fst y)
        | _, _ => None
        end
    | EMul a b =>
        match aexpr iv a, aexpr iv b with
        | Some x, Some y => chk (mul_itv x y)
        | _, _ => None
        end
    | EShl a k =>
        match aexpr iv a with
        | Some x => if 0 <=? k then chk (fst x * 2 ^ k, snd x * 2 ^ k) else None
        | None => None
        end
    | EShr a k =>
        match aexpr iv a with
        | Some x => if 0 <=? k then chk (fst x / 2 ^ k, snd x / 2 ^ k) else None
        | None => None
        end
    | EAnd a b =>
        match aexpr iv a, aexpr iv b with
        | Some x, Some y => chk (and_itv x y)
        | _, _ => None
        end
    | EOr a b =>
        match aexpr iv a, aexpr iv b with
        | Some x, Some y => chk (or_itv x y)
        | _, _ => None
        end
    end.

  (* a fact created by  v := (x + r) >> k  or  v := x >> k *)
  Definition newfact (v : nat) (e : expr) : list fact :=
    match e with
    | EShr (EAdd (EVar x) (EConst r)) k => if Nat.eqb x v then [] else [mkFact v x r k]
    | EShr (EVar x) k => if Nat.eqb x v then [] else [mkFact v x 0 k]
    | _ => []
    end.

  Definition fact_matches (c x : nat) (k : Z) (f : fact) : bool :=
    Nat.eqb (f_c f) c && Nat.eqb (f_x f) x && (f_k f =? k) && (0 <=? f_r f) && (f_r f <? 2 ^ k).

  (* v := v - (c << k) with a live fact c = (v + r) >> k *)
  Definition refine (facts : list fact) (v : nat) (e : expr) (i : itv) : itv :=
    match e with
    | ESub (EVar x) (EShl (EVar c) k) =>
        if Nat.eqb x v && (0 <=? k) then
          match find (fact_matches c x k) facts with
          | Some f => (Z.max (fst i) (- f_r f), Z.min (snd i) (2 ^ k - 1 - f_r f))
          | None => i
          end
        else i
    | _ => i
    end.

  Definition survives (v : nat) (f : fact) : bool :=
    negb (Nat.eqb (f_c f) v) && negb (Nat.eqb (f_x f) v).

  Definition ainstr (A : astate) (i : instr) : option astate :=
    match i with
    | ISet v e =>
        if Nat.ltb v (length (a_iv A)) then
          match aexpr (a_iv A) e with
          | Some iv =>
              Some (mkA (seti (a_iv A) v (refine (a_facts A) v e iv))
                        (newfact v e ++ filter (survives v) (a_facts A)))
          | None => None
          end
        else None
    end.

  Fixpoint acode (A : astate) (code : list instr) : option astate :=
    match code with
    | [] => Some A
    | i :: p => match ainstr A i with Some A' => acode A' p | None => None end
    end.

  Definition ainit (p : prog) : astate := mkA (repeat (0, 0) (p_nvars p)) [].

  Definition afinal (p : prog) : option astate := acode (ainit p) (p_code p).

  Fixpoint aouts (iv : list itv) (outs : list expr) : bool :=
    match outs with
    | [] => true
    | e :: r => match aexpr iv e with Some _ => aouts iv r | None => false end
    end.

  Definition bounds_ok (p : prog) : bool :=
    match afinal p with
    | Some A => aouts (a_iv A) (p_outs p)
    | None => false
    end.

  (* ---------- soundness ---------- *)

  Variable ins : list (list Z).
  Definition ins_ok : Prop := forall a i, inI (inb (arr ins a) i) (nth a inr (0, 0)).
  Hypothesis Hins : ins_ok.

  Lemma chk_some i j : chk i = Some j -> j = i /\ fits i = true.
  Proof. unfold chk. destruct (fits i); intros H; inversion H; auto. Qed.

  Lemma maxabs_bound x y v : inI v x \/ inI v y -> Z.abs v <= maxabs x y.
  Proof. unfold inI, maxabs. intros [H | H]; lia. Qed.

  Lemma width_bound x y v : inI v x \/ inI v y ->
    0 <= width x y /\ - 2 ^ width x y <= v < 2 ^ width x y.
  Proof.
    intros H. apply maxabs_bound in H. unfold width.
    pose proof (Z.log2_nonneg (maxabs x y)).
    assert (maxabs x y < 2 ^ (Z.log2 (maxabs x y) + 1)).
    { destruct (Z.eq_dec (maxabs x y) 0) as [E | E].
      - rewrite E. cbn. lia.
      - replace (Z.log2 (maxabs x y) + 1) with (Z.succ (Z.log2 (maxabs x y))) by lia.
        apply Z.log2_spec. lia. }
    lia.
  Qed.

  Lemma and_itv_sound x y a b : inI a x -> inI b y -> inI (Z.land a b) (and_itv x y).
  Proof.
    intros Ha Hb. unfold and_itv.
    destruct ((0 <=? fst x) && (0 <=? fst y)) eqn:E0.
    { apply andb_true_iff in E0. destruct E0 as [E1 E2].
      apply Z.leb_le in E1. apply Z.leb_le in E2. unfold inI in *. cbn [fst snd].
      pose proof (land_upper a b ltac:(lia)). pose proof (land_upper b a ltac:(lia)).
      rewrite (Z.land_comm b a) in *. lia. }
    destruct (0 <=? fst y) eqn:E1.
    { apply Z.leb_le in E1. unfold inI in *. cbn [fst snd].
      pose proof (land_upper a b ltac:(lia)). lia. }
    destruct (0 <=? fst x) eqn:E2.
    { apply Z.leb_le in E2. unfold inI in *. cbn [fst snd].
      pose proof (land_upper b a ltac:(lia)). rewrite Z.land_comm. lia. }
    destruct (width_bound x y a (or_introl Ha)) as [Hk Hra].
    destruct (width_bound x y b (or_intror Hb)) as [_ Hrb].
    pose proof (land_range _ _ _ Hk Hra Hrb). unfold inI. cbn [fst snd]. lia.
  Qed.

  Lemma or_itv_sound x y a b : inI a x -> inI b y -> inI (Z.lor a b) (or_itv x y).
  Proof.
    intros Ha Hb. unfold or_itv.
    destruct (width_bound x y a (or_introl Ha)) as [Hk Hra].
    destruct (width_bound x y b (or_intror Hb)) as [_ Hrb].
    pose proof (lor_range _ _ _ Hk Hra Hrb).
    destruct ((0 <=? fst x) && (0 <=? fst y)) eqn:E.
    - apply andb_true_iff in E. destruct E as [E1 E2].
      apply Z.leb_le in E1. apply Z.leb_le in E2. unfold inI in *. cbn [fst snd].
      assert (0 <= Z.lor a b) by (apply Z.lor_nonneg; lia). lia.
    - unfold inI. cbn [fst snd]. lia.
  Qed.

  Lemma mul_itv_sound x y a b : inI a x -> inI b y -> inI (a * b) (mul_itv x y).
  Proof.
    destruct x as [xl xh], y as [yl yh]. unfold inI. cbn [fst snd mul_itv]. intros Ha Hb.
    apply mul_bounds; auto.
  Qed.

  Lemma aexpr_sound iv st e r :
    (forall v, inI (getv st v) (geti iv v)) ->
    aexpr iv e = Some r ->
    eval i64 ins st e = eval noi ins st e /\ inI (eval noi ins st e) r.
  Proof.
    intros Hst. revert r. induction e; intros r H; cbn [aexpr] in H; cbn [eval].
    - inversion H. subst. unfold inI. cbn. split; [auto | lia].
    - inversion H. subst. split; auto.
    - inversion H. subst. split; auto.
    - destruct (aexpr iv e1) as [x|]; [|discriminate]. destruct (aexpr iv e2) as [y|]; [|discriminate].
      destruct (IHe1 _ eq_refl) as [E1 I1]. destruct (IHe2 _ eq_refl) as [E2 I2].
      apply chk_some in H. destruct H as [-> F]. rewrite E1, E2. unfold noi at 1 4.
      assert (I : inI (eval noi ins st e1 + eval noi ins st e2) (fst x + fst y, snd x + snd y)).
      { unfold inI in *. cbn [fst snd]. lia. }
      split; auto. apply i64_id. eapply fits_in64; eauto.
    - destruct (aexpr iv e1) as [x|]; [|discriminate]. destruct (aexpr iv e2) as [y|]; [|discriminate].
      destruct (IHe1 _ eq_refl) as [E1 I1]. destruct (IHe2 _ eq_refl) as [E2 I2].
      apply chk_some in H. destruct H as [-> F]. rewrite E1, E2. unfold noi at 1 4.
      assert (I : inI (eval noi ins st e1 - eval noi ins st e2) (fst x - snd y, snd x - fst y)).
      { unfold inI in *. cbn [fst snd]. lia. }
      split; auto. apply i64_id. eapply fits_in64; eauto.
    - destruct (aexpr iv e1) as [x|]; [|discriminate]. destruct (aexpr iv e2) as [y|]; [|discriminate].
      destruct (IHe1 _ eq_refl) as [E1 I1]. destruct (IHe2 _ eq_refl) as [E2 I2].
      apply chk_some in H. destruct H as [-> F]. rewrite E1, E2. unfold noi at 1 4.
      pose proof (mul_itv_sound _ _ _ _ I1 I2) as I.
      split; auto. apply i64_id. eapply fits_in64; eauto.
    - destruct (aexpr iv e) as [x|]; [|discriminate].
      destruct (IHe _ eq_refl) as [E1 I1].
      destruct (0 <=? k) eqn:Ek; [|discriminate]. apply Z.leb_le in Ek.
      apply chk_some in H. destruct H as [-> F]. rewrite E1. unfold noi at 1 3.
      assert (I : inI (Z.shiftl (eval noi ins st e) k) (fst x * 2 ^ k, snd x * 2 ^ k)).
      { rewrite shiftl_mul by auto. pose proof (pow2_pos k Ek). unfold inI in *. cbn [fst snd]. nia. }
      split; auto. apply i64_id. eapply fits_in64; eauto.
    - destruct (aexpr iv e) as [x|]; [|discriminate].
      destruct (IHe _ eq_refl) as [E1 I1].
      destruct (0 <=? k) eqn:Ek; [|discriminate]. apply Z.leb_le in Ek.
      apply chk_some in H. destruct H as [-> F]. rewrite E1. unfold noi at 1 3.
      assert (I : inI (Z.shiftr (eval noi ins st e) k) (fst x / 2 ^ k, snd x / 2 ^ k)).
      { rewrite shiftr_div by auto. pose proof (pow2_pos k Ek). unfold inI in *. cbn [fst snd].
        split; apply Z.div_le_mono; lia. }
      split; auto. apply i64_id. eapply fits_in64; eauto.
    - destruct (aexpr iv e1) as [x|]; [|discriminate]. destruct (aexpr iv e2) as [y|]; [|discriminate].
      destruct (IHe1 _ eq_refl) as [E1 I1]. destruct (IHe2 _ eq_refl) as [E2 I2].
      apply chk_some in H. destruct H as [-> F]. rewrite E1, E2. unfold noi at 1 4.
      pose proof (and_itv_sound _ _ _ _ I1 I2) as I.
      split; auto. apply i64_id. eapply fits_in64; eauto.
    - destruct (aexpr iv e1) as [x|]; [|discriminate]. destruct (aexpr iv e2) as [y|]; [|discriminate].
      destruct (IHe1 _ eq_refl) as [E1 I1]. destruct (IHe2 _ eq_refl) as [E2 I2].
      apply chk_some in H. destruct H as [-> F]. rewrite E1, E2. unfold noi at 1 4.
      pose proof (or_itv_sound _ _ _ _ I1 I2) as I.
      split; auto. apply i64_id. eapply fits_in64; eauto.
  Qed.

  Lemma getv_setv st v w x : (v < length st)%nat ->
    getv (setv st v x) w = if Nat.eqb w v then x else getv st w.
  Proof.
    revert v w. induction st as [|y t IH]; intros v w Hv; [cbn in Hv; lia|].
    destruct v, w; cbn; auto. apply IH. cbn in Hv. lia.
  Qed.

  Lemma geti_seti st v w x : (v < length st)%nat ->
    geti (seti st v x) w = if Nat.eqb w v then x else geti st w.
  Proof.
    revert v w. induction st as [|y t IH]; intros v w Hv; [cbn in Hv; lia|].
    destruct v, w; cbn; auto. apply IH. cbn in Hv. lia.
  Qed.

  Lemma setv_length st v x : length (setv st v x) = length st.
  Proof. revert v. induction st; destruct v; cbn; auto. Qed.

  Lemma seti_length st v x : length (seti st v x) = length st.
  Proof. revert v. induction st; destruct v; cbn; auto. Qed.

  Lemma newfact_holds st v e :
    (v < length st)%nat ->
    Forall (holds (setv st v (eval noi ins st e))) (newfact v e).
  Proof.
    intros Hv. unfold newfact.
    destruct e; try constructor.
    destruct e; try constructor.
    - (* EShr (EVar x) k *)
      destruct (Nat.eqb v0 v) eqn:E; constructor; [|constructor].
      unfold holds. cbn [f_c f_x f_r f_k]. rewrite !getv_setv by auto.
      rewrite Nat.eqb_refl, E. cbn [eval]. unfold noi. rewrite Z.add_0_r. reflexivity.
    - (* EShr (EAdd (EVar x) (EConst r)) k *)
      destruct e1; try constructor. destruct e2; try constructor.
      destruct (Nat.eqb v0 v) eqn:E; constructor; [|constructor].
      unfold holds. cbn [f_c f_x f_r f_k]. rewrite !getv_setv by auto.
      rewrite Nat.eqb_refl, E. cbn [eval]. unfold noi. reflexivity.
  Qed.

  Lemma survives_holds st v x f :
    (v < length st)%nat -> survives v f = true -> holds st f -> holds (setv st v x) f.
  Proof.
    unfold survives, holds. intros Hv H Hf.
    apply andb_true_iff in H. destruct H as [H1 H2].
    apply negb_true_iff in H1. apply negb_true_iff in H2.
    rewrite !getv_setv by auto. rewrite H1, H2. exact Hf.
  Qed.

  Lemma refine_sound A st v e i :
    gamma A st ->
    inI (eval noi ins st e) i ->
    inI (eval noi ins st e) (refine (a_facts A) v e i).
  Proof.
    intros [_ [_ Hf]] Hi. unfold refine.
    destruct e; auto. destruct e1; auto. destruct e2; auto. destruct e2; auto.
    destruct (Nat.eqb v0 v && (0 <=? k)) eqn:E; auto.
    apply andb_true_iff in E. destruct E as [E1 E2]. apply Z.leb_le in E2.
    destruct (find (fact_matches v1 v0 k) (a_facts A)) as [f|] eqn:Ef; auto.
    apply find_some in Ef. destruct Ef as [Hin Hm].
    rewrite Forall_forall in Hf. specialize (Hf _ Hin).
    unfold fact_matches in Hm.
    apply andb_true_iff in Hm. destruct Hm as [Hm M5].
    apply andb_true_iff in Hm. destruct Hm as [Hm M4].
    apply andb_true_iff in Hm. destruct Hm as [Hm M3].
    apply andb_true_iff in Hm. destruct Hm as [M1 M2].
    apply Nat.eqb_eq in M1. apply Nat.eqb_eq in M2. apply Z.eqb_eq in M3.
    apply Z.leb_le in M4. apply Z.ltb_lt in M5.
    unfold holds in Hf. rewrite M1, M2, M3 in Hf.
    cbn [eval] in *. unfold noi in *. rewrite Hf in Hi |- *.
    rewrite shiftr_div, shiftl_mul in Hi |- * by auto.
    pose proof (carry_remainder (getv st v0) (f_r f) (2 ^ k) (pow2_pos k E2)).
    unfold inI in *. cbn [fst snd]. lia.
  Qed.

  Lemma ainstr_sound A A' st i :
    gamma A st -> ainstr A i = Some A' ->
    step i64 ins st i = step noi ins st i /\ gamma A' (step noi ins st i).
  Proof.
    intros G H. destruct i as [v e]. cbn [ainstr] in H. cbn [step].
    destruct (Nat.ltb v (length (a_iv A))) eqn:Ev; [|discriminate]. apply Nat.ltb_lt in Ev.
    destruct (aexpr (a_iv A) e) as [iv|] eqn:Ea; [|discriminate].
    inversion H. subst A'. clear H.
    pose proof G as [GL [GI GF]].
    destruct (aexpr_sound _ _ _ _ GI Ea) as [E I].
    rewrite E. split; auto.
    assert (Hv : (v < length st)%nat) by lia.
    split; [|split]; cbn [a_iv a_facts].
    - rewrite setv_length, seti_length. auto.
    - intros w. rewrite getv_setv, geti_seti by auto.
      destruct (Nat.eqb w v); auto. apply refine_sound; auto.
    - apply Forall_app. split. { apply newfact_holds; auto. }
      rewrite Forall_forall. intros f Hf. apply filter_In in Hf. destruct Hf as [Hin Hs].
      apply survives_holds; auto. rewrite Forall_forall in GF. auto.
  Qed.

  Lemma acode_sound code : forall A A' st,
    gamma A st -> acode A code = Some A' ->
    exec i64 ins code st = exec noi ins code st /\ gamma A' (exec noi ins code st).
  Proof.
    induction code as [|i p IH]; intros A A' st G H; cbn [acode] in H; cbn [exec].
    - inversion H. subst. auto.
    - destruct (ainstr A i) as [A1|] eqn:E; [|discriminate].
      destruct (ainstr_sound _ _ _ _ G E) as [E1 G1]. rewrite E1.
      apply (IH _ _ _ G1 H).
  Qed.

  Lemma getv_repeat n v : getv (repeat 0 n) v = 0.
  Proof. revert v. induction n; destruct v; cbn; auto. Qed.

  Lemma geti_repeat n v : geti (repeat (0, 0) n) v = (0, 0).
  Proof. revert v. induction n; destruct v; cbn; auto. Qed.

  Lemma gamma_init p : gamma (ainit p) (init p).
  Proof.
    unfold ainit, init. split; [|split]; cbn [a_iv a_facts].
    - rewrite !repeat_length. auto.
    - intros v. rewrite getv_repeat, geti_repeat. unfold inI. cbn. lia.
    - constructor.
  Qed.

  Lemma aouts_sound iv st outs :
    (forall v, inI (getv st v) (geti iv v)) ->
    aouts iv outs = true -> outs_of i64 ins st outs = outs_of noi ins st outs.
  Proof.
    intros Hst. induction outs as [|e r IH]; cbn [aouts outs_of]; auto.
    destruct (aexpr iv e) as [i|] eqn:E; [|discriminate]. intros H.
    destruct (aexpr_sound _ _ _ _ Hst E) as [-> _]. rewrite IH; auto.
  Qed.

  (* the final abstract state describes the final store, under both semantics *)
  Theorem afinal_sound p A :
    afinal p = Some A ->
    exec i64 ins (p_code p) (init p) = exec noi ins (p_code p) (init p) /\
    gamma A (exec noi ins (p_code p) (init p)).
  Proof. intros H. apply (acode_sound _ _ _ _ (gamma_init p) H). Qed.

  (* MAIN: a successful analysis means no int64 operation wraps *)
  Theorem bounds_ok_no_wrap p :
    bounds_ok p = true -> run i64 ins p = run noi ins p.
  Proof.
    unfold bounds_ok, run. destruct (afinal p) as [A|] eqn:E; [|discriminate].
    intros H. destruct (afinal_sound _ _ E) as [-> [_ [GI _]]].
    apply (aouts_sound _ _ _ GI H).
  Qed.
End Analysis.

(* exec_k / run_k are exec / run *)
Lemma exec_k_exec {A : Type} wr ins code : forall st (k : list Z -> A),
  exec_k wr ins code st k = k (exec wr ins code st).
Proof.
  induction code as [|[v e] p IH]; intros st k; cbn [exec_k exec]; auto.
  unfold Let_In. rewrite IH. reflexivity.
Qed.

Lemma run_k_run wr ins p : run_k wr ins p = run wr ins p.
Proof. unfold run_k, run. apply exec_k_exec. Qed.
