(* Limb/LimbSem.v - the small straight-line language into which /verif/translator
   translates the ref10 scalar limb code of group/edwards25519/scalar.go
   (scMulAdd, scMul, scAdd, scSub, scReduce, with load3/load4 inlined), and its
   semantics.  Definitions only.

   Go semantics represented:
     int64 arithmetic wraps          -> every operation result goes through `wr`
                                        (`i64` = wrap to [-2^63,2^63); `id` = the
                                        unwrapped integer version)
     x >> k on int64 (arithmetic)    -> Z.shiftr (floor division by 2^k)
     x << k on int64                 -> wrap (x * 2^k)
     & and | on int64                -> Z.land / Z.lor (two's complement on Z)
     byte(x)                         -> x mod 256
     int64(in[i]) for a byte         -> the byte value
   The generated file Generated/ScalarLimbs.v contains, per Go function, a shallow
   Gallina `let` chain and a deeply embedded program; `run i64 prog inputs` of the
   latter is proved equal to the former in Limb/LimbGen.v by computation. *)
From Coq Require Import ZArith List.
Import ListNotations.
Open Scope Z_scope.

Definition two63 : Z := 9223372036854775808.
Definition two64 : Z := 18446744073709551616.

(* wrap to the signed 64-bit range *)
Definition i64 (x : Z) : Z := ((x + two63) mod two64) - two63.
Definition noi (x : Z) : Z := x.            (* the "no wrap" wrapper *)
Definition byte8 (x : Z) : Z := x mod 256.
Definition in64 (x : Z) : Prop := - two63 <= x < two63.

(* An explicit, kernel-visible `let`: the shallow functions and `exec_k` bind every
   intermediate with it. Unlike a primitive let it is not zeta-expanded during
   conversion (Strategy below), so "shallow function = run_k of the deep program"
   is checked by the kernel binder by binder, with sharing. *)
Definition Let_In {A B : Type} (a : A) (f : A -> B) : B := f a.
Notation "'dlet' x := a 'in' b" := (Let_In a (fun x => b))
  (at level 200, x name, b at level 200, right associativity, only parsing).

Inductive expr : Type :=
| EConst (c : Z)
| EVar (v : nat)
| EIn (arr i : nat)                 (* int64(input_arr[i]) *)
| EAdd (a b : expr)
| ESub (a b : expr)
| EMul (a b : expr)
| EShl (a : expr) (k : Z)
| EShr (a : expr) (k : Z)
| EAnd (a b : expr)
| EOr (a b : expr).

Inductive instr : Type := ISet (v : nat) (e : expr).

Record prog : Type := mkProg {
  p_nvars : nat;
  p_code : list instr;
  p_outs : list expr       (* out[j] = byte(p_outs[j]) *)
}.

Definition inb (l : list Z) (i : nat) : Z := nth i l 0.
Definition arr (ins : list (list Z)) (a : nat) : list Z := nth a ins [].

Fixpoint getv (st : list Z) (v : nat) : Z :=
  match st, v with
  | [], _ => 0
  | x :: _, O => x
  | _ :: t, S n => getv t n
  end.

Fixpoint setv (st : list Z) (v : nat) (x : Z) : list Z :=
  match st, v with
  | [], _ => []
  | _ :: t, O => x :: t
  | y :: t, S n => y :: setv t n x
  end.

Section Sem.
  Variable wr : Z -> Z.
  Variable ins : list (list Z).

  Fixpoint eval (st : list Z) (e : expr) : Z :=
    match e with
    | EConst c => c
    | EVar v => getv st v
    | EIn a i => inb (arr ins a) i
    | EAdd a b => wr (eval st a + eval st b)
    | ESub a b => wr (eval st a - eval st b)
    | EMul a b => wr (eval st a * eval st b)
    | EShl a k => wr (Z.shiftl (eval st a) k)
    | EShr a k => wr (Z.shiftr (eval st a) k)
    | EAnd a b => wr (Z.land (eval st a) (eval st b))
    | EOr a b => wr (Z.lor (eval st a) (eval st b))
    end.

  Definition step (st : list Z) (i : instr) : list Z :=
    match i with ISet v e => setv st v (eval st e) end.

  Fixpoint exec (code : list instr) (st : list Z) : list Z :=
    match code with
    | [] => st
    | i :: p => exec p (step st i)
    end.

  (* continuation form with explicit Let_In binders: it unfolds to the chain the
     translator prints as the shallow function *)
  Fixpoint exec_k {A : Type} (code : list instr) (st : list Z) (k : list Z -> A) : A :=
    match code with
    | [] => k st
    | ISet v e :: p => Let_In (eval st e) (fun x => exec_k p (setv st v x) k)
    end.

  Fixpoint outs_of (st : list Z) (outs : list expr) : list Z :=
    match outs with
    | [] => []
    | e :: r => byte8 (eval st e) :: outs_of st r
    end.

  Definition init (p : prog) : list Z := repeat 0 (p_nvars p).

  Definition run (p : prog) : list Z :=
    outs_of (exec (p_code p) (init p)) (p_outs p).

  Definition run_k (p : prog) : list Z :=
    exec_k (p_code p) (init p) (fun st => outs_of st (p_outs p)).
End Sem.
