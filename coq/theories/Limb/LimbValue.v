(* Limb/LimbValue.v - value-level theorems about limb programs, generic in the
   program (proved once), driven by boolean checks that are evaluated on the
   GENERATED programs in LimbGenValue.v:

   congruence   : the value  S = sum_i s_i 2^(21 i)  of the final limbs is congruent
                  modulo L to  A*B + C  (A + C, A - C), A B C being the values of
                  the loaded limbs - a polynomial identity modulo L in the loaded
                  limbs and the (opaque) carries, checked coefficient-wise;
   canonical    : 0 <= S < L.  Argument (ref10's, made explicit): the code ends with
                    chainA : floor-carry chain s0..s11 -> s12     (36 instructions)
                    fold   : s0..s5 += s12 * (2^252 - L) ; s12 = 0  (7)
                    chainB : floor-carry chain s0..s10 -> s11     (33)
                  Before chainA the value V of s0..s11 lies in [-2^252, 2^252)
                  (interval analysis); chainA leaves limbs in [0,2^21) and
                  s12 = floor(V / 2^252) in {-1,0} (exact polynomial identity +
                  intervals); fold and chainB give S = V - s12*L exactly, so
                  S = V or S = V + L, in [0,L) either way. *)
From Coq Require Import ZArith List Lia Bool.
From Kyber Require Import Limb.LimbSem Limb.LimbBounds Limb.LimbPoly.
Import ListNotations.
Open Scope Z_scope.

Definition Lq : Z := 7237005577332262213973186563042994240857116359379907606001950938285454250989.
Definition two252 : Z := 7237005577332262213973186563042994240829374041602535252466099000494570602496.

Definition pnull (p : poly) : bool := match p with [] => true | _ => false end.

Lemma pnull_den rho p : pnull p = true -> den rho p = 0.
Proof. destruct p; [reflexivity | discriminate]. Qed.

Lemma exec_app wr ins a : forall b st, exec wr ins (a ++ b) st = exec wr ins b (exec wr ins a st).
Proof. induction a as [|i a IH]; intros b st; cbn [app exec]; auto. Qed.

Lemma exec_length wr ins code : forall st, length (exec wr ins code st) = length st.
Proof.
  induction code as [|[v e] p IH]; intros st; cbn [exec step]; auto.
  rewrite IH, setv_length. reflexivity.
Qed.

Lemma wval_app st a : forall w b,
  wval w st (a ++ b) = wval w st a + wval (w * 2097152 ^ Z.of_nat (length a)) st b.
Proof.
  induction a as [|v r IH]; intros w b; cbn [app wval length].
  - rewrite Z.pow_0_r, Z.mul_1_r. lia.
  - rewrite IH. rewrite Nat2Z.inj_succ, Z.pow_succ_r by lia.
    replace (w * 2097152 * 2097152 ^ Z.of_nat (length r))
       with (w * (2097152 * 2097152 ^ Z.of_nat (length r))) by lia. lia.
Qed.

(* interval of a weighted sum *)
Fixpoint ilo (w : Z) (iv : list itv) (vars : list nat) : Z :=
  match vars with [] => 0 | v :: r => w * fst (geti iv v) + ilo (w * 2097152) iv r end.
Fixpoint ihi (w : Z) (iv : list itv) (vars : list nat) : Z :=
  match vars with [] => 0 | v :: r => w * snd (geti iv v) + ihi (w * 2097152) iv r end.

Lemma wval_bounds iv st vars : forall w, 0 <= w ->
  (forall v, inI (getv st v) (geti iv v)) ->
  ilo w iv vars <= wval w st vars <= ihi w iv vars.
Proof.
  induction vars as [|v r IH]; intros w Hw H; cbn [ilo ihi wval]; [lia|].
  specialize (IH (w * 2097152) ltac:(lia) H). specialize (H v). unfold inI in H. nia.
Qed.

Section Segments.
  Variable inr : list itv.
  Variable ins : list (list Z).
  Hypothesis Hins : ins_ok inr ins.

  (* one code segment: from a store described by A0, symbolic start sym_id *)
  Lemma segment A0 A1 seg st0 :
    gamma A0 st0 -> acode inr A0 seg = Some A1 ->
    Z.of_nat (length st0 + length seg) < 1073741824 ->
    let st1 := exec noi ins seg st0 in
    exec i64 ins seg st0 = st1 /\ gamma A1 st1 /\
    exists rho,
      (forall v, getv st0 v = den rho (getp (sym_id (length st0)) v)) /\
      (forall v, getv st1 v = den rho (getp (sym_exec 0 seg (sym_id (length st0))) v)).
  Proof.
    intros G HA Hb st1. destruct (acode_sound inr ins Hins seg A0 A1 st0 G HA) as [E G1].
    split; [exact E|]. split; [exact G1|].
    destruct (sym_sound ins seg st0 Hb) as [vals Hag]. destruct Hag as [_ Hag].
    exists (mkrho st0 vals). split; [|exact Hag].
    assert (Hs : Z.of_nat (length st0) < 1073741824) by lia.
    destruct (agrees_sym_id st0 vals Hs) as [_ H]. exact H.
  Qed.
End Segments.

(* ---------- congruence modulo L ---------- *)

Inductive kind := KMulAdd | KAdd | KSub.

Definition spec_poly (k : kind) (PA PB PC : poly) : poly :=
  match k with
  | KMulAdd => padd (pmul PA PB) PC
  | KAdd => padd PA PC
  | KSub => psub PA PC
  end.

Definition spec_val (k : kind) (A B C : Z) : Z :=
  match k with KMulAdd => A * B + C | KAdd => A + C | KSub => A - C end.

Definition small (p : prog) : bool :=
  Z.of_nat (p_nvars p + length (p_code p)) <? 1073741824.

Definition congr_check (k : kind) (p : prog) (sv av bv cv : list nat) : bool :=
  let s := sym_exec 0 (p_code p) (sym_id (p_nvars p)) in
  let PA := wsum 1 s av in let PB := wsum 1 s bv in let PC := wsum 1 s cv in
  small p && is_lin PA && is_lin PB &&
  all_zero_mod Lq (psub (wsum 1 s sv) (spec_poly k PA PB PC)).

Lemma Lq_nonzero : Lq <> 0.
Proof. unfold Lq. lia. Qed.

Lemma init_length p : length (init p) = p_nvars p.
Proof. unfold init. apply repeat_length. Qed.

Theorem congr_sound ins k p sv av bv cv :
  congr_check k p sv av bv cv = true ->
  let st := exec noi ins (p_code p) (init p) in
  (Lq | wval 1 st sv - spec_val k (wval 1 st av) (wval 1 st bv) (wval 1 st cv)).
Proof.
  intros H st. unfold congr_check in H.
  apply andb_true_iff in H. destruct H as [H H4].
  apply andb_true_iff in H. destruct H as [H H3].
  apply andb_true_iff in H. destruct H as [H1 H2].
  unfold small in H1. apply Z.ltb_lt in H1.
  assert (Hs : Z.of_nat (length (init p) + length (p_code p)) < 1073741824).
  { rewrite init_length. exact H1. }
  destruct (sym_sound ins (p_code p) (init p) Hs) as [vals Hag].
  destruct Hag as [_ Hag].
  rewrite init_length in Hag. fold st in Hag.
  set (rho := mkrho (init p) vals) in *.
  set (s := sym_exec 0 (p_code p) (sym_id (p_nvars p))) in *.
  apply (all_zero_mod_divide rho _ _ Lq_nonzero) in H4.
  rewrite den_psub in H4.
  rewrite (den_wsum rho st s sv 1 Hag) in H4.
  replace (den rho (spec_poly k (wsum 1 s av) (wsum 1 s bv) (wsum 1 s cv)))
     with (spec_val k (wval 1 st av) (wval 1 st bv) (wval 1 st cv)) in H4; [exact H4|].
  destruct k; cbn [spec_poly spec_val].
  - rewrite den_padd, den_pmul by auto.
    rewrite !(den_wsum rho st s _ 1 Hag). reflexivity.
  - rewrite den_padd, !(den_wsum rho st s _ 1 Hag). reflexivity.
  - rewrite den_psub, !(den_wsum rho st s _ 1 Hag). reflexivity.
Qed.

(* reduction of the limbs held at a cut point (scReduce: after the load phase) *)
Definition reduce_check (p : prog) (cut : nat) (sv12 sv24 : list nat) : bool :=
  let n := p_nvars p in
  let s := sym_exec 0 (skipn cut (p_code p)) (sym_id n) in
  small p && all_zero_mod Lq (psub (wsum 1 s sv12) (wsum 1 (sym_id n) sv24)).

Theorem reduce_sound ins p cut sv12 sv24 :
  reduce_check p cut sv12 sv24 = true ->
  let st1 := exec noi ins (firstn cut (p_code p)) (init p) in
  let st := exec noi ins (p_code p) (init p) in
  (Lq | wval 1 st sv12 - wval 1 st1 sv24).
Proof.
  intros H st1 st. unfold reduce_check in H.
  apply andb_true_iff in H. destruct H as [H1 H2].
  unfold small in H1. apply Z.ltb_lt in H1.
  assert (Est : st = exec noi ins (skipn cut (p_code p)) st1).
  { unfold st, st1. rewrite <- exec_app, firstn_skipn. reflexivity. }
  assert (L1 : length st1 = p_nvars p).
  { unfold st1. rewrite exec_length, init_length. reflexivity. }
  assert (Hlen : (length (skipn cut (p_code p)) <= length (p_code p))%nat).
  { rewrite skipn_length. lia. }
  assert (Hs : Z.of_nat (length st1 + length (skipn cut (p_code p))) < 1073741824).
  { rewrite L1. lia. }
  destruct (sym_sound ins (skipn cut (p_code p)) st1 Hs) as [vals Hag].
  destruct Hag as [_ Hag].
  rewrite <- Est, L1 in Hag.
  assert (Hs1 : Z.of_nat (length st1) < 1073741824) by lia.
  destruct (agrees_sym_id st1 vals Hs1) as [_ Hid]. rewrite L1 in Hid.
  apply (all_zero_mod_divide (mkrho st1 vals) _ _ Lq_nonzero) in H2.
  rewrite den_psub in H2.
  rewrite (den_wsum _ st _ sv12 1 Hag), (den_wsum _ st1 _ sv24 1 Hid) in H2. exact H2.
Qed.

(* ---------- canonical result: 0 <= S < L ---------- *)

Section Tail.
  Variable inr : list itv.

  Definition tail_check (p : prog) (sv : list nat) (s12 : nat) : bool :=
    let code := p_code p in
    let n := p_nvars p in
    let k := (length code - 76)%nat in
    let seg1 := firstn k code in
    let seg2 := firstn 36 (skipn k code) in
    let seg3 := skipn 36 (skipn k code) in
    small p && (2097152 ^ Z.of_nat (length sv) =? two252) &&
    match acode inr (ainit p) seg1 with
    | None => false
    | Some A1 =>
        (- two252 <=? ilo 1 (a_iv A1) sv) && (ihi 1 (a_iv A1) sv <? two252) &&
        (fst (geti (a_iv A1) s12) =? 0) && (snd (geti (a_iv A1) s12) =? 0) &&
        match acode inr A1 seg2 with
        | None => false
        | Some A2 =>
            (0 <=? ilo 1 (a_iv A2) sv) && (ihi 1 (a_iv A2) sv <? two252) &&
            pnull (psub (wsum 1 (sym_exec 0 seg2 (sym_id n)) (sv ++ [s12]))
                        (wsum 1 (sym_id n) (sv ++ [s12]))) &&
            pnull (psub (wsum 1 (sym_exec 0 seg3 (sym_id n)) sv)
                        (padd (wsum 1 (sym_id n) sv)
                              (pscale (two252 - Lq) (getp (sym_id n) s12)))) &&
            match acode inr A2 seg3 with Some _ => true | None => false end
        end
    end.

  Variable ins : list (list Z).
  Hypothesis Hins : ins_ok inr ins.

  Theorem tail_sound p sv s12 :
    tail_check p sv s12 = true ->
    let st := exec noi ins (p_code p) (init p) in
    0 <= wval 1 st sv < Lq.
  Proof.
    intros H st. unfold tail_check in H.
    set (code := p_code p) in *. set (n := p_nvars p) in *.
    set (k := (length code - 76)%nat) in *.
    set (seg1 := firstn k code) in *.
    set (seg2 := firstn 36 (skipn k code)) in *.
    set (seg3 := skipn 36 (skipn k code)) in *.
    assert (Ecode : code = seg1 ++ seg2 ++ seg3).
    { unfold seg1, seg2, seg3. rewrite !firstn_skipn. reflexivity. }
    apply andb_true_iff in H. destruct H as [H HA].
    apply andb_true_iff in H. destruct H as [Hsm Hw].
    unfold small in Hsm. fold code n in Hsm. apply Z.ltb_lt in Hsm. apply Z.eqb_eq in Hw.
    pose proof (f_equal (@length instr) Ecode) as Hl. rewrite !app_length in Hl.
    destruct (acode inr (ainit p) seg1) as [A1|] eqn:E1; [|discriminate].
    apply andb_true_iff in HA. destruct HA as [HA HB].
    apply andb_true_iff in HA. destruct HA as [HA Hz2].
    apply andb_true_iff in HA. destruct HA as [HA Hz1].
    apply andb_true_iff in HA. destruct HA as [Hlo1 Hhi1].
    apply Z.leb_le in Hlo1. apply Z.ltb_lt in Hhi1. apply Z.eqb_eq in Hz1. apply Z.eqb_eq in Hz2.
    destruct (acode inr A1 seg2) as [A2|] eqn:E2; [|discriminate].
    apply andb_true_iff in HB. destruct HB as [HB HC].
    apply andb_true_iff in HB. destruct HB as [HB Hp3].
    apply andb_true_iff in HB. destruct HB as [HB Hp2].
    apply andb_true_iff in HB. destruct HB as [Hlo2 Hhi2].
    apply Z.leb_le in Hlo2. apply Z.ltb_lt in Hhi2.
    destruct (acode inr A2 seg3) as [A3|] eqn:E3; [|discriminate]. clear HC.
    (* segment 1 *)
    pose proof (gamma_init p) as G0.
    destruct (segment inr ins Hins _ _ seg1 _ G0 E1) as [_ [G1 _]].
    { rewrite init_length. fold n. lia. }
    set (st1 := exec noi ins seg1 (init p)) in *.
    assert (L1 : length st1 = n). { unfold st1. rewrite exec_length, init_length. reflexivity. }
    (* segment 2 *)
    destruct (segment inr ins Hins _ _ seg2 _ G1 E2) as [_ [G2 [rho2 [R2a R2b]]]].
    { rewrite L1. lia. }
    set (st2 := exec noi ins seg2 st1) in *.
    assert (L2 : length st2 = n). { unfold st2. rewrite exec_length. exact L1. }
    (* segment 3 *)
    destruct (segment inr ins Hins _ _ seg3 _ G2 E3) as [_ [G3 [rho3 [R3a R3b]]]].
    { rewrite L2. lia. }
    set (st3 := exec noi ins seg3 st2) in *.
    assert (Est : st = st3).
    { unfold st, st3, st2, st1. fold code. rewrite Ecode, !exec_app. reflexivity. }
    rewrite Est. rewrite L1 in R2a, R2b. rewrite L2 in R3a, R3b.
    (* values *)
    destruct G1 as [_ [I1 _]]. destruct G2 as [_ [I2 _]].
    pose proof (wval_bounds _ _ sv 1 ltac:(lia) I1) as B1.
    pose proof (wval_bounds _ _ sv 1 ltac:(lia) I2) as B2.
    pose proof (I1 s12) as Z12. unfold inI in Z12. rewrite Hz1, Hz2 in Z12.
    apply (pnull_den rho2) in Hp2. rewrite den_psub in Hp2.
    rewrite (den_wsum rho2 st2 _ _ 1 R2b), (den_wsum rho2 st1 _ _ 1 R2a) in Hp2.
    rewrite !wval_app in Hp2. rewrite Z.mul_1_l, Hw in Hp2. cbn [wval] in Hp2.
    apply (pnull_den rho3) in Hp3. rewrite den_psub, den_padd, den_pscale in Hp3.
    rewrite (den_wsum rho3 st3 _ _ 1 R3b), (den_wsum rho3 st2 _ _ 1 R3a) in Hp3.
    rewrite <- (R3a s12) in Hp3.
    set (V := wval 1 st1 sv) in *. set (R := wval 1 st2 sv) in *.
    set (S := wval 1 st3 sv) in *. set (q := getv st2 s12) in *.
    unfold two252, Lq in *. lia.
  Qed.
End Tail.

(* let-free, kind-specialised forms (so that instantiating them with a concrete
   program needs no conversion over the program) *)
Corollary congr_muladd ins p sv av bv cv :
  congr_check KMulAdd p sv av bv cv = true ->
  (Lq | wval 1 (exec noi ins (p_code p) (init p)) sv
        - (wval 1 (exec noi ins (p_code p) (init p)) av
           * wval 1 (exec noi ins (p_code p) (init p)) bv
           + wval 1 (exec noi ins (p_code p) (init p)) cv)).
Proof. intros H. exact (congr_sound ins KMulAdd p sv av bv cv H). Qed.

Corollary congr_add ins p sv av cv :
  congr_check KAdd p sv av [] cv = true ->
  (Lq | wval 1 (exec noi ins (p_code p) (init p)) sv
        - (wval 1 (exec noi ins (p_code p) (init p)) av
           + wval 1 (exec noi ins (p_code p) (init p)) cv)).
Proof. intros H. exact (congr_sound ins KAdd p sv av [] cv H). Qed.

Corollary congr_sub ins p sv av cv :
  congr_check KSub p sv av [] cv = true ->
  (Lq | wval 1 (exec noi ins (p_code p) (init p)) sv
        - (wval 1 (exec noi ins (p_code p) (init p)) av
           - wval 1 (exec noi ins (p_code p) (init p)) cv)).
Proof. intros H. exact (congr_sound ins KSub p sv av [] cv H). Qed.

Corollary reduce_congr ins p cut sv12 sv24 :
  reduce_check p cut sv12 sv24 = true ->
  (Lq | wval 1 (exec noi ins (p_code p) (init p)) sv12
        - wval 1 (exec noi ins (firstn cut (p_code p)) (init p)) sv24).
Proof. intros H. exact (reduce_sound ins p cut sv12 sv24 H). Qed.

Corollary tail_canonical inr ins p sv s12 :
  ins_ok inr ins -> tail_check inr p sv s12 = true ->
  0 <= wval 1 (exec noi ins (p_code p) (init p)) sv < Lq.
Proof. intros Hi H. exact (tail_sound inr ins Hi p sv s12 H). Qed.

(* a variable list whose polynomials are all empty has value 0 (scMul: c_i = int64(0)) *)
Lemma wsum_nil_wval ins p vs :
  small p = true ->
  wsum 1 (sym_exec 0 (p_code p) (sym_id (p_nvars p))) vs = [] ->
  wval 1 (exec noi ins (p_code p) (init p)) vs = 0.
Proof.
  intros Hsm E. unfold small in Hsm. apply Z.ltb_lt in Hsm.
  assert (Hs : Z.of_nat (length (init p) + length (p_code p)) < 1073741824).
  { rewrite init_length. exact Hsm. }
  destruct (sym_sound ins (p_code p) (init p) Hs) as [vals Hag].
  destruct Hag as [_ Hag]. rewrite init_length in Hag.
  rewrite <- (den_wsum _ _ _ vs 1 Hag). rewrite E. reflexivity.
Qed.

(* ---------- final limb ranges ---------- *)

Definition two231 : Z := 3450873173395281893717377931138512726225554486085193277581262111899648.

Definition range_check (inr : list itv) (p : prog) (sv11 : list nat) : bool :=
  match afinal inr p with
  | Some A =>
      forallb (fun v => (0 <=? fst (geti (a_iv A) v)) && (snd (geti (a_iv A) v) <=? 2097151)) sv11
      && (2097152 ^ Z.of_nat (length sv11) =? two231)
      && (0 <=? ilo 1 (a_iv A) sv11) && (ihi 1 (a_iv A) sv11 <? two231)
  | None => false
  end.

Theorem range_sound inr ins p sv11 s11 :
  ins_ok inr ins -> range_check inr p sv11 = true ->
  0 <= wval 1 (exec noi ins (p_code p) (init p)) (sv11 ++ [s11]) < Lq ->
  Forall (fun v => 0 <= getv (exec noi ins (p_code p) (init p)) v <= 2097151) sv11 /\
  0 <= getv (exec noi ins (p_code p) (init p)) s11 <= 2097152.
Proof.
  intros Hi H HS. unfold range_check in H.
  destruct (afinal inr p) as [A|] eqn:EA; [|discriminate].
  destruct (afinal_sound inr ins Hi p A EA) as [_ [_ [GI _]]].
  set (st := exec noi ins (p_code p) (init p)) in *.
  apply andb_true_iff in H. destruct H as [H H4].
  apply andb_true_iff in H. destruct H as [H H3].
  apply andb_true_iff in H. destruct H as [H1 H2].
  apply Z.eqb_eq in H2. apply Z.leb_le in H3. apply Z.ltb_lt in H4.
  split.
  - rewrite Forall_forall. intros v Hv. rewrite forallb_forall in H1. specialize (H1 v Hv).
    apply andb_true_iff in H1. destruct H1 as [L1 L2].
    apply Z.leb_le in L1. apply Z.leb_le in L2. specialize (GI v). unfold inI in GI. lia.
  - pose proof (wval_bounds _ _ sv11 1 ltac:(lia) GI) as B.
    rewrite wval_app in HS. rewrite Z.mul_1_l, H2 in HS. cbn [wval] in HS.
    unfold two231, Lq in *. lia.
Qed.
