(* Limb/LimbGen.v - facts about the GENERATED code (Generated/ScalarLimbs.v), which
   is re-translated from group/edwards25519/scalar.go on every check:

   1. each shallow Gallina function (wrapped and unwrapped) IS the run of the
      deeply embedded program the translator printed next to it (kernel
      conversion, binder by binder);
   2. the interval analysis of LimbBounds.v succeeds on every generated program
      for inputs that are bytes (vm_compute), hence NO int64 operation of
      scMulAdd / scMul / scAdd / scSub / scReduce can overflow, for all inputs:
      the Go-semantics function equals its unbounded-integer version. *)
From Coq Require Import ZArith List Lia.
From Kyber Require Import Limb.LimbSem Limb.LimbBounds Generated.ScalarLimbs.
Import ListNotations.
Open Scope Z_scope.

Local Strategy 100 [Let_In].

Definition is_byte (x : Z) : Prop := 0 <= x <= 255.
Definition bytes (l : list Z) : Prop := Forall is_byte l.
Definition B8 : itv := (0, 255).

Lemma inb_byte l i : bytes l -> is_byte (inb l i).
Proof.
  unfold inb. intros H. revert i. induction H; intros [|i]; cbn; auto; unfold is_byte; lia.
Qed.

Lemma ins_ok_bytes ins : Forall bytes ins -> ins_ok (repeat B8 (length ins)) ins.
Proof.
  intros H a i. unfold arr. revert a.
  induction H as [|l r Hl Hr IH]; intros a.
  - destruct a; cbn; unfold inI, inb; destruct i; cbn; lia.
  - destruct a; cbn [nth length repeat].
    + apply (inb_byte l i) in Hl. unfold inI, is_byte, B8 in *. cbn. lia.
    + apply IH.
Qed.

(* ---- 1. shallow = deep ---- *)

Ltac by_conversion t := rewrite <- run_k_run; exact (@eq_refl (list Z) t).

Lemma scMulAdd_deep a b c : scMulAdd a b c = run i64 [a; b; c] prog_scMulAdd.
Proof. by_conversion (scMulAdd a b c). Qed.
Lemma scMulAdd_nowrap_deep a b c : scMulAdd_nowrap a b c = run noi [a; b; c] prog_scMulAdd.
Proof. by_conversion (scMulAdd_nowrap a b c). Qed.
Lemma scMul_deep a b : scMul a b = run i64 [a; b] prog_scMul.
Proof. by_conversion (scMul a b). Qed.
Lemma scMul_nowrap_deep a b : scMul_nowrap a b = run noi [a; b] prog_scMul.
Proof. by_conversion (scMul_nowrap a b). Qed.
Lemma scAdd_deep a c : scAdd a c = run i64 [a; c] prog_scAdd.
Proof. by_conversion (scAdd a c). Qed.
Lemma scAdd_nowrap_deep a c : scAdd_nowrap a c = run noi [a; c] prog_scAdd.
Proof. by_conversion (scAdd_nowrap a c). Qed.
Lemma scSub_deep a c : scSub a c = run i64 [a; c] prog_scSub.
Proof. by_conversion (scSub a c). Qed.
Lemma scSub_nowrap_deep a c : scSub_nowrap a c = run noi [a; c] prog_scSub.
Proof. by_conversion (scSub_nowrap a c). Qed.
Lemma scReduce_deep s : scReduce s = run i64 [s] prog_scReduce.
Proof. by_conversion (scReduce s). Qed.
Lemma scReduce_nowrap_deep s : scReduce_nowrap s = run noi [s] prog_scReduce.
Proof. by_conversion (scReduce_nowrap s). Qed.

(* ---- 2. the analysis accepts the generated programs ---- *)

Lemma bounds_scMulAdd : bounds_ok [B8; B8; B8] prog_scMulAdd = true.
Proof. vm_compute. reflexivity. Qed.
Lemma bounds_scMul : bounds_ok [B8; B8] prog_scMul = true.
Proof. vm_compute. reflexivity. Qed.
Lemma bounds_scAdd : bounds_ok [B8; B8] prog_scAdd = true.
Proof. vm_compute. reflexivity. Qed.
Lemma bounds_scSub : bounds_ok [B8; B8] prog_scSub = true.
Proof. vm_compute. reflexivity. Qed.
Lemma bounds_scReduce : bounds_ok [B8] prog_scReduce = true.
Proof. vm_compute. reflexivity. Qed.

(* ---- no overflow, for ALL byte inputs (of any length: missing bytes read 0) ---- *)

Theorem scMulAdd_no_overflow a b c :
  bytes a -> bytes b -> bytes c -> scMulAdd a b c = scMulAdd_nowrap a b c.
Proof.
  intros Ha Hb Hc. rewrite scMulAdd_deep, scMulAdd_nowrap_deep.
  apply (bounds_ok_no_wrap [B8; B8; B8] [a; b; c]); [|exact bounds_scMulAdd].
  apply (ins_ok_bytes [a; b; c]). repeat constructor; auto.
Qed.

Theorem scMul_no_overflow a b :
  bytes a -> bytes b -> scMul a b = scMul_nowrap a b.
Proof.
  intros Ha Hb. rewrite scMul_deep, scMul_nowrap_deep.
  apply (bounds_ok_no_wrap [B8; B8] [a; b]); [|exact bounds_scMul].
  apply (ins_ok_bytes [a; b]). repeat constructor; auto.
Qed.

Theorem scAdd_no_overflow a c :
  bytes a -> bytes c -> scAdd a c = scAdd_nowrap a c.
Proof.
  intros Ha Hc. rewrite scAdd_deep, scAdd_nowrap_deep.
  apply (bounds_ok_no_wrap [B8; B8] [a; c]); [|exact bounds_scAdd].
  apply (ins_ok_bytes [a; c]). repeat constructor; auto.
Qed.

Theorem scSub_no_overflow a c :
  bytes a -> bytes c -> scSub a c = scSub_nowrap a c.
Proof.
  intros Ha Hc. rewrite scSub_deep, scSub_nowrap_deep.
  apply (bounds_ok_no_wrap [B8; B8] [a; c]); [|exact bounds_scSub].
  apply (ins_ok_bytes [a; c]). repeat constructor; auto.
Qed.

Theorem scReduce_no_overflow s :
  bytes s -> scReduce s = scReduce_nowrap s.
Proof.
  intros Hs. rewrite scReduce_deep, scReduce_nowrap_deep.
  apply (bounds_ok_no_wrap [B8] [s]); [|exact bounds_scReduce].
  apply (ins_ok_bytes [s]). repeat constructor; auto.
Qed.

Print Assumptions scMulAdd_no_overflow.
