(* Limb/LimbBytes.v - BYTE-level theorems about the GENERATED limb code
   (Generated/ScalarLimbs.v, re-translated from group/edwards25519/scalar.go on
   every check).  LimbGenValue.v proves, for the 12 result limbs, congruence
   modulo L, canonical range and limb ranges; this file adds the two missing
   ends, by the reflective bit-slice analysis of LimbBits.v run on the generated
   programs:

     (B1) unpack: the limbs a_0..a_11 (b_i, c_i; the 24 limbs of scReduce) the
          code loads with load3/load4, shifts and masks are the radix-2^21 digits
          of the little-endian value of the input bytes:
              sum_i a_i 2^(21 i) = le_decode a         (32 resp. 64 bytes)
     (B2) pack: for limbs in the proved ranges the 32 stored bytes are the
          little-endian encoding of  S = sum_i s_i 2^(21 i)
     (B3) end to end, for ALL byte inputs, about the Go-semantics (wrapping)
          generated functions:
              le_decode (scMulAdd a b c) = (le_decode a * le_decode b + le_decode c) mod L
              le_decode (scMul a b)      = (le_decode a * le_decode b) mod L
              le_decode (scAdd a c)      = (le_decode a + le_decode c) mod L
              le_decode (scSub a c)      = (le_decode a - le_decode c) mod L
              le_decode (scReduce s)     = le_decode s mod L            (64 bytes)
          and the output is 32 bytes, each in 0..255 (so it is THE canonical
          little-endian encoding of the reduced scalar). *)
From Coq Require Import String ZArith List Lia Bool.
From Kyber Require Import Limb.LimbSem Limb.LimbBounds Limb.LimbPoly Limb.LimbValue
  Limb.LimbGen Limb.LimbGenValue Limb.LimbBits Generated.ScalarLimbs Codec.Bytes.
Import ListNotations.
Open Scope Z_scope.

(* ---------- generic glue ---------- *)

Lemma inb_arr_byte ins a i : Forall bytes ins -> 0 <= inb (arr ins a) i < 256.
Proof.
  intros H. assert (Hb : bytes (arr ins a)).
  { unfold arr. destruct (nth_in_or_default a ins []) as [Hin | ->].
    - rewrite Forall_forall in H. auto.
    - constructor. }
  pose proof (inb_byte _ i Hb) as B. unfold is_byte in B. lia.
Qed.

(* a computable test for `bytes` (for concrete instances) *)
Lemma bytes_of_check l : forallb (fun x => (0 <=? x) && (x <=? 255)) l = true -> bytes l.
Proof.
  intros H. unfold bytes. rewrite Forall_forall. intros x Hx.
  rewrite forallb_forall in H. specialize (H x Hx). apply andb_true_iff in H.
  destruct H as [H1 H2]. apply Z.leb_le in H1, H2. unfold is_byte. lia.
Qed.

Lemma final_noi inr p ins : ins_ok inr ins -> bounds_ok inr p = true ->
  final p ins = exec noi ins (p_code p) (init p).
Proof.
  intros Hi Hok. destruct (bounds_afinal inr p Hok) as [A HA].
  exact (proj1 (final_nowrap inr p ins A Hi HA)).
Qed.

Lemma mod_unique S X : (Lq | S - X) -> 0 <= S < Lq -> S = X mod Lq.
Proof.
  intros [k Hk] Hr. replace X with (S + (- k) * Lq) by lia.
  rewrite Z.mod_add by exact Lq_nonzero. symmetry. apply Z.mod_small. exact Hr.
Qed.

(* widths of the final limbs: s0..s10 are 21-bit, s11 is in [0,2^21] (22 bits) *)
Definition widths (sv11 : list nat) (s11 : nat) : list (nat * nat) :=
  (map (fun v => (v, 21%nat)) sv11 ++ [(s11, 22%nat)])%list.

Lemma widths_fst sv11 s11 : map fst (widths sv11 s11) = (sv11 ++ [s11])%list.
Proof.
  unfold widths. rewrite map_app, map_map. cbn [map fst]. rewrite map_id. reflexivity.
Qed.

Lemma widths_ok st sv11 s11 :
  Forall (fun v => 0 <= getv st v <= 2097151) sv11 -> 0 <= getv st s11 <= 2097152 ->
  Forall (in_width st) (widths sv11 s11).
Proof.
  intros H1 H2. unfold widths. apply Forall_app. split.
  - rewrite Forall_map. eapply Forall_impl; [|exact H1].
    intros v Hv. cbv beta in Hv. unfold in_width. cbn [fst snd]. change (2 ^ Z.of_nat 21) with 2097152. lia.
  - constructor; [|constructor]. unfold in_width. cbn [fst snd].
    change (2 ^ Z.of_nat 22) with 4194304. lia.
Qed.

(* the generic byte-level statement about the outputs of a program whose final
   limbs are in range *)
Theorem pack_run inr ins p sv11 s11 :
  Forall bytes ins -> ins_ok inr ins -> bounds_ok inr p = true ->
  pack_check p (widths sv11 s11) = true ->
  (Forall (fun v => 0 <= getv (final p ins) v <= 2097151) sv11 /\
   0 <= getv (final p ins) s11 <= 2097152) ->
  le_decode (run i64 ins p) = wval 1 (final p ins) (sv11 ++ [s11]) /\
  length (run i64 ins p) = length (p_outs p) /\
  bytes (run i64 ins p).
Proof.
  intros Hb Hi Hok Hpk [R1 R2].
  rewrite (bounds_ok_no_wrap inr ins Hi p Hok).
  rewrite (final_noi inr p ins Hi Hok) in *.
  unfold run. set (st := exec noi ins (p_code p) (init p)) in *.
  split; [|split].
  - rewrite <- widths_fst. apply pack_sound; auto.
    + intros a i. apply inb_arr_byte. exact Hb.
    + unfold st. rewrite exec_length. apply init_length.
    + apply widths_ok; auto.
  - apply outs_of_length.
  - apply outs_of_bytes.
Qed.

Theorem unpack_run ins nvars code vars a n :
  Forall bytes ins -> length (arr ins a) = n ->
  unpack_check nvars code vars a n = true ->
  wval 1 (exec noi ins code (repeat 0 nvars)) vars = le_decode (arr ins a).
Proof.
  intros Hb Hl H. rewrite <- le_nth_decode, Hl.
  apply (unpack_sound ins []); auto.
  intros a' i. apply inb_arr_byte. exact Hb.
Qed.

(* ---------- the checks, evaluated on the generated programs ---------- *)

Lemma unpack_scMulAdd :
  unpack_check (p_nvars prog_scMulAdd) (p_code prog_scMulAdd) (vars names_scMulAdd A12) 0 32 = true /\
  unpack_check (p_nvars prog_scMulAdd) (p_code prog_scMulAdd) (vars names_scMulAdd B12) 1 32 = true /\
  unpack_check (p_nvars prog_scMulAdd) (p_code prog_scMulAdd) (vars names_scMulAdd C12) 2 32 = true.
Proof. vm_compute. auto. Qed.

Lemma unpack_scMul :
  unpack_check (p_nvars prog_scMul) (p_code prog_scMul) (vars names_scMul A12) 0 32 = true /\
  unpack_check (p_nvars prog_scMul) (p_code prog_scMul) (vars names_scMul B12) 1 32 = true.
Proof. vm_compute. auto. Qed.

Lemma unpack_scAdd :
  unpack_check (p_nvars prog_scAdd) (p_code prog_scAdd) (vars names_scAdd A12) 0 32 = true /\
  unpack_check (p_nvars prog_scAdd) (p_code prog_scAdd) (vars names_scAdd C12) 1 32 = true.
Proof. vm_compute. auto. Qed.

Lemma unpack_scSub :
  unpack_check (p_nvars prog_scSub) (p_code prog_scSub) (vars names_scSub A12) 0 32 = true /\
  unpack_check (p_nvars prog_scSub) (p_code prog_scSub) (vars names_scSub C12) 1 32 = true.
Proof. vm_compute. auto. Qed.

(* scReduce: the 24 limbs right after the load phase *)
Lemma unpack_scReduce :
  unpack_check (p_nvars prog_scReduce)
    (firstn (load_len (p_code prog_scReduce)) (p_code prog_scReduce))
    (vars names_scReduce S24) 0 64 = true.
Proof. vm_compute. auto. Qed.

Lemma pack_checks :
  pack_check prog_scMulAdd (widths (vars names_scMulAdd S11) (index_of "s11"%string names_scMulAdd 0)) = true /\
  pack_check prog_scMul (widths (vars names_scMul S11) (index_of "s11"%string names_scMul 0)) = true /\
  pack_check prog_scAdd (widths (vars names_scAdd S11) (index_of "s11"%string names_scAdd 0)) = true /\
  pack_check prog_scSub (widths (vars names_scSub S11) (index_of "s11"%string names_scSub 0)) = true /\
  pack_check prog_scReduce (widths (vars names_scReduce S11) (index_of "s11"%string names_scReduce 0)) = true.
Proof. vm_compute. auto. Qed.

Lemma out_lengths :
  length (p_outs prog_scMulAdd) = 32%nat /\ length (p_outs prog_scMul) = 32%nat /\
  length (p_outs prog_scAdd) = 32%nat /\ length (p_outs prog_scSub) = 32%nat /\
  length (p_outs prog_scReduce) = 32%nat.
Proof. vm_compute. auto. Qed.

(* ---------- (B1) unpack, per function ---------- *)

Lemma unpack_prog ins p code vars a n :
  Forall bytes ins -> length (arr ins a) = n ->
  unpack_check (p_nvars p) code vars a n = true ->
  wval 1 (exec noi ins code (init p)) vars = le_decode (arr ins a).
Proof. intros Hb Hl H. exact (unpack_run ins (p_nvars p) code vars a n Hb Hl H). Qed.

Theorem scMulAdd_unpack a b c : bytes a -> bytes b -> bytes c ->
  length a = 32%nat -> length b = 32%nat -> length c = 32%nat ->
  wval 1 (final prog_scMulAdd [a; b; c]) (vars names_scMulAdd A12) = le_decode a /\
  wval 1 (final prog_scMulAdd [a; b; c]) (vars names_scMulAdd B12) = le_decode b /\
  wval 1 (final prog_scMulAdd [a; b; c]) (vars names_scMulAdd C12) = le_decode c.
Proof.
  intros Ha Hb Hc La Lb Lc.
  assert (HB : Forall bytes [a; b; c]) by (repeat constructor; auto).
  assert (Hi : ins_ok [B8; B8; B8] [a; b; c]) by (apply (ins_ok_bytes [a; b; c]); exact HB).
  rewrite (final_noi _ _ _ Hi bounds_scMulAdd).
  destruct unpack_scMulAdd as [UA [UB UC]].
  split; [|split].
  - exact (unpack_prog [a; b; c] prog_scMulAdd _ _ 0 32 HB La UA).
  - exact (unpack_prog [a; b; c] prog_scMulAdd _ _ 1 32 HB Lb UB).
  - exact (unpack_prog [a; b; c] prog_scMulAdd _ _ 2 32 HB Lc UC).
Qed.

Theorem scMul_unpack a b : bytes a -> bytes b ->
  length a = 32%nat -> length b = 32%nat ->
  wval 1 (final prog_scMul [a; b]) (vars names_scMul A12) = le_decode a /\
  wval 1 (final prog_scMul [a; b]) (vars names_scMul B12) = le_decode b.
Proof.
  intros Ha Hb La Lb.
  assert (HB : Forall bytes [a; b]) by (repeat constructor; auto).
  assert (Hi : ins_ok [B8; B8] [a; b]) by (apply (ins_ok_bytes [a; b]); exact HB).
  rewrite (final_noi _ _ _ Hi bounds_scMul).
  destruct unpack_scMul as [UA UB].
  split.
  - exact (unpack_prog [a; b] prog_scMul _ _ 0 32 HB La UA).
  - exact (unpack_prog [a; b] prog_scMul _ _ 1 32 HB Lb UB).
Qed.

Theorem scAdd_unpack a c : bytes a -> bytes c ->
  length a = 32%nat -> length c = 32%nat ->
  wval 1 (final prog_scAdd [a; c]) (vars names_scAdd A12) = le_decode a /\
  wval 1 (final prog_scAdd [a; c]) (vars names_scAdd C12) = le_decode c.
Proof.
  intros Ha Hc La Lc.
  assert (HB : Forall bytes [a; c]) by (repeat constructor; auto).
  assert (Hi : ins_ok [B8; B8] [a; c]) by (apply (ins_ok_bytes [a; c]); exact HB).
  rewrite (final_noi _ _ _ Hi bounds_scAdd).
  destruct unpack_scAdd as [UA UC].
  split.
  - exact (unpack_prog [a; c] prog_scAdd _ _ 0 32 HB La UA).
  - exact (unpack_prog [a; c] prog_scAdd _ _ 1 32 HB Lc UC).
Qed.

Theorem scSub_unpack a c : bytes a -> bytes c ->
  length a = 32%nat -> length c = 32%nat ->
  wval 1 (final prog_scSub [a; c]) (vars names_scSub A12) = le_decode a /\
  wval 1 (final prog_scSub [a; c]) (vars names_scSub C12) = le_decode c.
Proof.
  intros Ha Hc La Lc.
  assert (HB : Forall bytes [a; c]) by (repeat constructor; auto).
  assert (Hi : ins_ok [B8; B8] [a; c]) by (apply (ins_ok_bytes [a; c]); exact HB).
  rewrite (final_noi _ _ _ Hi bounds_scSub).
  destruct unpack_scSub as [UA UC].
  split.
  - exact (unpack_prog [a; c] prog_scSub _ _ 0 32 HB La UA).
  - exact (unpack_prog [a; c] prog_scSub _ _ 1 32 HB Lc UC).
Qed.

(* scReduce: the 24 limbs right after the load phase are the digits of the 64-byte input *)
Theorem scReduce_unpack s : bytes s -> length s = 64%nat ->
  wval 1 (exec noi [s] (firstn (load_len (p_code prog_scReduce)) (p_code prog_scReduce))
               (init prog_scReduce)) (vars names_scReduce S24) = le_decode s.
Proof.
  intros Hs Ls.
  assert (HB : Forall bytes [s]) by (repeat constructor; auto).
  exact (unpack_prog [s] prog_scReduce _ _ 0 64 HB Ls unpack_scReduce).
Qed.

(* ---------- (B2) pack, per function: the Go-semantics output bytes encode the final limbs ---------- *)

Theorem scMulAdd_pack a b c : bytes a -> bytes b -> bytes c ->
  le_decode (scMulAdd a b c) = wval 1 (final prog_scMulAdd [a; b; c]) (vars names_scMulAdd S12) /\
  length (scMulAdd a b c) = 32%nat /\ bytes (scMulAdd a b c).
Proof.
  intros Ha Hb Hc.
  assert (HB : Forall bytes [a; b; c]) by (repeat constructor; auto).
  assert (Hi : ins_ok [B8; B8; B8] [a; b; c]) by (apply (ins_ok_bytes [a; b; c]); exact HB).
  destruct pack_checks as [PK _]. destruct out_lengths as [OL _].
  rewrite scMulAdd_deep, S12_split, <- OL.
  exact (pack_run [B8; B8; B8] [a; b; c] prog_scMulAdd _ _ HB Hi bounds_scMulAdd PK
           (scMulAdd_limb_ranges a b c Ha Hb Hc)).
Qed.

Theorem scMul_pack a b : bytes a -> bytes b ->
  le_decode (scMul a b) = wval 1 (final prog_scMul [a; b]) (vars names_scMul S12) /\
  length (scMul a b) = 32%nat /\ bytes (scMul a b).
Proof.
  intros Ha Hb.
  assert (HB : Forall bytes [a; b]) by (repeat constructor; auto).
  assert (Hi : ins_ok [B8; B8] [a; b]) by (apply (ins_ok_bytes [a; b]); exact HB).
  destruct pack_checks as [_ [PK _]]. destruct out_lengths as [_ [OL _]].
  rewrite scMul_deep, S12_split, <- OL.
  exact (pack_run [B8; B8] [a; b] prog_scMul _ _ HB Hi bounds_scMul PK
           (scMul_limb_ranges a b Ha Hb)).
Qed.

Theorem scAdd_pack a c : bytes a -> bytes c ->
  le_decode (scAdd a c) = wval 1 (final prog_scAdd [a; c]) (vars names_scAdd S12) /\
  length (scAdd a c) = 32%nat /\ bytes (scAdd a c).
Proof.
  intros Ha Hc.
  assert (HB : Forall bytes [a; c]) by (repeat constructor; auto).
  assert (Hi : ins_ok [B8; B8] [a; c]) by (apply (ins_ok_bytes [a; c]); exact HB).
  destruct pack_checks as [_ [_ [PK _]]]. destruct out_lengths as [_ [_ [OL _]]].
  rewrite scAdd_deep, S12_split, <- OL.
  exact (pack_run [B8; B8] [a; c] prog_scAdd _ _ HB Hi bounds_scAdd PK
           (scAdd_limb_ranges a c Ha Hc)).
Qed.

Theorem scSub_pack a c : bytes a -> bytes c ->
  le_decode (scSub a c) = wval 1 (final prog_scSub [a; c]) (vars names_scSub S12) /\
  length (scSub a c) = 32%nat /\ bytes (scSub a c).
Proof.
  intros Ha Hc.
  assert (HB : Forall bytes [a; c]) by (repeat constructor; auto).
  assert (Hi : ins_ok [B8; B8] [a; c]) by (apply (ins_ok_bytes [a; c]); exact HB).
  destruct pack_checks as [_ [_ [_ [PK _]]]]. destruct out_lengths as [_ [_ [_ [OL _]]]].
  rewrite scSub_deep, S12_split, <- OL.
  exact (pack_run [B8; B8] [a; c] prog_scSub _ _ HB Hi bounds_scSub PK
           (scSub_limb_ranges a c Ha Hc)).
Qed.

Theorem scReduce_pack s : bytes s ->
  le_decode (scReduce s) = wval 1 (final prog_scReduce [s]) (vars names_scReduce S12) /\
  length (scReduce s) = 32%nat /\ bytes (scReduce s).
Proof.
  intros Hs.
  assert (HB : Forall bytes [s]) by (repeat constructor; auto).
  assert (Hi : ins_ok [B8] [s]) by (apply (ins_ok_bytes [s]); exact HB).
  destruct pack_checks as [_ [_ [_ [_ PK]]]]. destruct out_lengths as [_ [_ [_ [_ OL]]]].
  rewrite scReduce_deep, S12_split, <- OL.
  exact (pack_run [B8] [s] prog_scReduce _ _ HB Hi bounds_scReduce PK
           (scReduce_limb_ranges s Hs)).
Qed.

(* ---------- (B3) end to end ---------- *)

Theorem scMulAdd_bytes a b c : bytes a -> bytes b -> bytes c ->
  length a = 32%nat -> length b = 32%nat -> length c = 32%nat ->
  le_decode (scMulAdd a b c) = (le_decode a * le_decode b + le_decode c) mod Lq /\
  length (scMulAdd a b c) = 32%nat /\ bytes (scMulAdd a b c).
Proof.
  intros Ha Hb Hc La Lb Lc.
  destruct (scMulAdd_pack a b c Ha Hb Hc) as [V [Ln By]].
  destruct (scMulAdd_unpack a b c Ha Hb Hc La Lb Lc) as [EA [EB EC]].
  destruct (scMulAdd_limbs a b c Ha Hb Hc) as [Dv Rg].
  rewrite EA, EB, EC in Dv. rewrite <- V in Dv, Rg.
  split; [|split]; auto. apply mod_unique; auto.
Qed.

Theorem scMul_bytes a b : bytes a -> bytes b ->
  length a = 32%nat -> length b = 32%nat ->
  le_decode (scMul a b) = (le_decode a * le_decode b) mod Lq /\
  length (scMul a b) = 32%nat /\ bytes (scMul a b).
Proof.
  intros Ha Hb La Lb.
  destruct (scMul_pack a b Ha Hb) as [V [Ln By]].
  destruct (scMul_unpack a b Ha Hb La Lb) as [EA EB].
  destruct (scMul_limbs a b Ha Hb) as [Dv Rg].
  rewrite EA, EB in Dv. rewrite <- V in Dv, Rg.
  split; [|split]; auto. apply mod_unique; auto.
Qed.

Theorem scAdd_bytes a c : bytes a -> bytes c ->
  length a = 32%nat -> length c = 32%nat ->
  le_decode (scAdd a c) = (le_decode a + le_decode c) mod Lq /\
  length (scAdd a c) = 32%nat /\ bytes (scAdd a c).
Proof.
  intros Ha Hc La Lc.
  destruct (scAdd_pack a c Ha Hc) as [V [Ln By]].
  destruct (scAdd_unpack a c Ha Hc La Lc) as [EA EC].
  destruct (scAdd_limbs a c Ha Hc) as [Dv Rg].
  rewrite EA, EC in Dv. rewrite <- V in Dv, Rg.
  split; [|split]; auto. apply mod_unique; auto.
Qed.

Theorem scSub_bytes a c : bytes a -> bytes c ->
  length a = 32%nat -> length c = 32%nat ->
  le_decode (scSub a c) = (le_decode a - le_decode c) mod Lq /\
  length (scSub a c) = 32%nat /\ bytes (scSub a c).
Proof.
  intros Ha Hc La Lc.
  destruct (scSub_pack a c Ha Hc) as [V [Ln By]].
  destruct (scSub_unpack a c Ha Hc La Lc) as [EA EC].
  destruct (scSub_limbs a c Ha Hc) as [Dv Rg].
  rewrite EA, EC in Dv. rewrite <- V in Dv, Rg.
  split; [|split]; auto. apply mod_unique; auto.
Qed.

Theorem scReduce_bytes s : bytes s -> length s = 64%nat ->
  le_decode (scReduce s) = le_decode s mod Lq /\
  length (scReduce s) = 32%nat /\ bytes (scReduce s).
Proof.
  intros Hs Ls.
  destruct (scReduce_pack s Hs) as [V [Ln By]].
  destruct (scReduce_limbs s Hs) as [Dv Rg].
  rewrite (scReduce_unpack s Hs Ls) in Dv. rewrite <- V in Dv, Rg.
  split; [|split]; auto. apply mod_unique; auto.
Qed.

Print Assumptions scMulAdd_bytes.
Print Assumptions scMul_bytes.
Print Assumptions scAdd_bytes.
Print Assumptions scSub_bytes.
Print Assumptions scReduce_bytes.
