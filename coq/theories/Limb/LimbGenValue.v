(* Limb/LimbGenValue.v - value theorems about the GENERATED limb programs
   (Generated/ScalarLimbs.v, re-translated from scalar.go on every check).

   For the final store of the Go-semantics (wrapped) execution of each function
   on arbitrary byte inputs, with  S = sum_{i<12} s_i 2^(21 i)  the value of the
   final limbs and A, B, C the values of the loaded limbs a_i, b_i, c_i:
     scMulAdd : S == A*B + C (mod L)        scMul : S == A*B (mod L)
     scAdd    : S == A + C   (mod L)        scSub : S == A - C (mod L)
     scReduce : S == sum_{i<24} t_i 2^(21 i) (mod L), t_i the 24 loaded limbs
   and in all five cases  0 <= S < L  (canonical), s_0..s_10 in [0,2^21),
   s_11 in [0,2^21].

   Values are `wval 1 st vars` = sum_i 2^(21 i) * st[vars_i]; variables are found by
   their Go names in the name table the translator prints (names_<fn>).

   Not proved in THIS file: the byte packing LE(out bytes) = S and the unpacking
   A = LE(a bytes); they are proved in Limb/LimbBits.v + Limb/LimbBytes.v, which
   also states the end-to-end byte-level theorems. *)
From Coq Require Import ZArith List Lia String.
From Kyber Require Import Limb.LimbSem Limb.LimbBounds Limb.LimbPoly Limb.LimbValue
  Limb.LimbGen Generated.ScalarLimbs.
Import ListNotations.
Open Scope Z_scope.

Fixpoint index_of (s : string) (l : list string) (i : nat) : nat :=
  match l with
  | [] => i
  | x :: r => if String.eqb x s then i else index_of s r (S i)
  end.
Definition vars (names l : list string) : list nat := map (fun s => index_of s names 0%nat) l.

Open Scope string_scope.
Definition S12 := ["s0";"s1";"s2";"s3";"s4";"s5";"s6";"s7";"s8";"s9";"s10";"s11"].
Definition S24 := (S12 ++ ["s12";"s13";"s14";"s15";"s16";"s17";"s18";"s19";"s20";"s21";"s22";"s23"])%list.
Definition A12 := ["a0";"a1";"a2";"a3";"a4";"a5";"a6";"a7";"a8";"a9";"a10";"a11"].
Definition B12 := ["b0";"b1";"b2";"b3";"b4";"b5";"b6";"b7";"b8";"b9";"b10";"b11"].
Definition C12 := ["c0";"c1";"c2";"c3";"c4";"c5";"c6";"c7";"c8";"c9";"c10";"c11"].
Close Scope string_scope.

(* end of the load phase = first instruction that is an addition/subtraction *)
Fixpoint load_len (code : list instr) : nat :=
  match code with
  | ISet _ (EAdd _ _) :: _ => 0
  | ISet _ (ESub _ _) :: _ => 0
  | _ :: r => S (load_len r)
  | [] => 0
  end.

(* value of a list of variables of a store, radix 2^21 *)
(* final store under Go semantics *)
Definition final (p : prog) (ins : list (list Z)) : list Z := exec i64 ins (p_code p) (init p).

Lemma final_nowrap inr p ins A :
  ins_ok inr ins -> afinal inr p = Some A ->
  final p ins = exec noi ins (p_code p) (init p) /\ gamma A (final p ins).
Proof.
  intros Hi HA. unfold final. destruct (afinal_sound inr ins Hi p A HA) as [E G].
  rewrite E. auto.
Qed.

Lemma bounds_afinal inr p : bounds_ok inr p = true -> exists A, afinal inr p = Some A.
Proof. unfold bounds_ok. destruct (afinal inr p) as [A|]; [eauto | discriminate]. Qed.

Ltac to_nowrap inr lst Hok :=
  match goal with
  | |- context [final ?p ?ins] =>
      let A := fresh "A" in let HA := fresh "HA" in let E := fresh "E" in
      destruct (bounds_afinal inr p Hok) as [A HA];
      assert (Hi : ins_ok inr ins) by (apply (ins_ok_bytes lst); repeat constructor; auto);
      destruct (final_nowrap inr p ins A Hi HA) as [E _]; rewrite E
  end.

(* ---- checks, evaluated on the generated programs ---- *)

Lemma congr_scMulAdd : congr_check KMulAdd prog_scMulAdd (vars names_scMulAdd S12)
  (vars names_scMulAdd A12) (vars names_scMulAdd B12) (vars names_scMulAdd C12) = true.
Proof. vm_compute. reflexivity. Qed.
Lemma congr_scMul : congr_check KMulAdd prog_scMul (vars names_scMul S12)
  (vars names_scMul A12) (vars names_scMul B12) (vars names_scMul C12) = true.
Proof. vm_compute. reflexivity. Qed.
Lemma congr_scAdd : congr_check KAdd prog_scAdd (vars names_scAdd S12)
  (vars names_scAdd A12) [] (vars names_scAdd C12) = true.
Proof. vm_compute. reflexivity. Qed.
Lemma congr_scSub : congr_check KSub prog_scSub (vars names_scSub S12)
  (vars names_scSub A12) [] (vars names_scSub C12) = true.
Proof. vm_compute. reflexivity. Qed.
Lemma congr_scReduce : reduce_check prog_scReduce (load_len (p_code prog_scReduce))
  (vars names_scReduce S12) (vars names_scReduce S24) = true.
Proof. vm_compute. reflexivity. Qed.

Lemma tail_scMulAdd : tail_check [B8; B8; B8] prog_scMulAdd (vars names_scMulAdd S12)
  (index_of "s12" names_scMulAdd 0) = true.
Proof. vm_compute. reflexivity. Qed.
Lemma tail_scMul : tail_check [B8; B8] prog_scMul (vars names_scMul S12)
  (index_of "s12" names_scMul 0) = true.
Proof. vm_compute. reflexivity. Qed.
Lemma tail_scAdd : tail_check [B8; B8] prog_scAdd (vars names_scAdd S12)
  (index_of "s12" names_scAdd 0) = true.
Proof. vm_compute. reflexivity. Qed.
Lemma tail_scSub : tail_check [B8; B8] prog_scSub (vars names_scSub S12)
  (index_of "s12" names_scSub 0) = true.
Proof. vm_compute. reflexivity. Qed.
Lemma tail_scReduce : tail_check [B8] prog_scReduce (vars names_scReduce S12)
  (index_of "s12" names_scReduce 0) = true.
Proof. vm_compute. reflexivity. Qed.

(* the names exist (index_of returns the length when a name is missing) *)
Lemma names_present :
  forallb (fun v => Nat.ltb v (p_nvars prog_scMulAdd)) (vars names_scMulAdd (S24 ++ A12 ++ B12 ++ C12)) = true /\
  forallb (fun v => Nat.ltb v (p_nvars prog_scMul)) (vars names_scMul (S24 ++ A12 ++ B12 ++ C12)) = true /\
  forallb (fun v => Nat.ltb v (p_nvars prog_scAdd)) (vars names_scAdd (S24 ++ A12 ++ C12)) = true /\
  forallb (fun v => Nat.ltb v (p_nvars prog_scSub)) (vars names_scSub (S24 ++ A12 ++ C12)) = true /\
  forallb (fun v => Nat.ltb v (p_nvars prog_scReduce)) (vars names_scReduce S24) = true.
Proof. vm_compute. auto. Qed.

(* ---- theorems ---- *)

Lemma cvars_scMul_zero :
  small prog_scMul = true /\
  wsum 1 (sym_exec 0 (p_code prog_scMul) (sym_id (p_nvars prog_scMul))) (vars names_scMul C12) = [].
Proof. vm_compute. auto. Qed.

Theorem scMulAdd_limbs a b c : bytes a -> bytes b -> bytes c ->
  (Lq | wval 1 (final prog_scMulAdd [a; b; c]) (vars names_scMulAdd S12)
        - (wval 1 (final prog_scMulAdd [a; b; c]) (vars names_scMulAdd A12)
           * wval 1 (final prog_scMulAdd [a; b; c]) (vars names_scMulAdd B12)
           + wval 1 (final prog_scMulAdd [a; b; c]) (vars names_scMulAdd C12)))
  /\ 0 <= wval 1 (final prog_scMulAdd [a; b; c]) (vars names_scMulAdd S12) < Lq.
Proof.
  intros Ha Hb Hc.
  to_nowrap [B8; B8; B8] [a; b; c] bounds_scMulAdd.
  split.
  - exact (congr_muladd [a; b; c] prog_scMulAdd _ _ _ _ congr_scMulAdd).
  - exact (tail_canonical [B8; B8; B8] [a; b; c] prog_scMulAdd _ _ Hi tail_scMulAdd).
Qed.

Theorem scMul_limbs a b : bytes a -> bytes b ->
  (Lq | wval 1 (final prog_scMul [a; b]) (vars names_scMul S12)
        - wval 1 (final prog_scMul [a; b]) (vars names_scMul A12)
          * wval 1 (final prog_scMul [a; b]) (vars names_scMul B12))
  /\ 0 <= wval 1 (final prog_scMul [a; b]) (vars names_scMul S12) < Lq.
Proof.
  intros Ha Hb.
  to_nowrap [B8; B8] [a; b] bounds_scMul.
  split.
  - pose proof (congr_muladd [a; b] prog_scMul _ _ _ _ congr_scMul) as H.
    destruct cvars_scMul_zero as [Z1 Z2].
    rewrite (wsum_nil_wval [a; b] prog_scMul _ Z1 Z2), Z.add_0_r in H. exact H.
  - exact (tail_canonical [B8; B8] [a; b] prog_scMul _ _ Hi tail_scMul).
Qed.

Theorem scAdd_limbs a c : bytes a -> bytes c ->
  (Lq | wval 1 (final prog_scAdd [a; c]) (vars names_scAdd S12)
        - (wval 1 (final prog_scAdd [a; c]) (vars names_scAdd A12)
           + wval 1 (final prog_scAdd [a; c]) (vars names_scAdd C12)))
  /\ 0 <= wval 1 (final prog_scAdd [a; c]) (vars names_scAdd S12) < Lq.
Proof.
  intros Ha Hc.
  to_nowrap [B8; B8] [a; c] bounds_scAdd.
  split.
  - exact (congr_add [a; c] prog_scAdd _ _ _ congr_scAdd).
  - exact (tail_canonical [B8; B8] [a; c] prog_scAdd _ _ Hi tail_scAdd).
Qed.

Theorem scSub_limbs a c : bytes a -> bytes c ->
  (Lq | wval 1 (final prog_scSub [a; c]) (vars names_scSub S12)
        - (wval 1 (final prog_scSub [a; c]) (vars names_scSub A12)
           - wval 1 (final prog_scSub [a; c]) (vars names_scSub C12)))
  /\ 0 <= wval 1 (final prog_scSub [a; c]) (vars names_scSub S12) < Lq.
Proof.
  intros Ha Hc.
  to_nowrap [B8; B8] [a; c] bounds_scSub.
  split.
  - exact (congr_sub [a; c] prog_scSub _ _ _ congr_scSub).
  - exact (tail_canonical [B8; B8] [a; c] prog_scSub _ _ Hi tail_scSub).
Qed.

(* scReduce: the 24 limbs right after the load phase (instruction load_len) *)
Theorem scReduce_limbs s : bytes s ->
  (Lq | wval 1 (final prog_scReduce [s]) (vars names_scReduce S12)
        - wval 1 (exec noi [s] (firstn (load_len (p_code prog_scReduce)) (p_code prog_scReduce))
                       (init prog_scReduce)) (vars names_scReduce S24))
  /\ 0 <= wval 1 (final prog_scReduce [s]) (vars names_scReduce S12) < Lq.
Proof.
  intros Hs.
  to_nowrap [B8] [s] bounds_scReduce.
  split.
  - exact (reduce_congr [s] prog_scReduce _ _ _ congr_scReduce).
  - exact (tail_canonical [B8] [s] prog_scReduce _ _ Hi tail_scReduce).
Qed.

Print Assumptions scMulAdd_limbs.
Print Assumptions scMul_limbs.
Print Assumptions scAdd_limbs.
Print Assumptions scSub_limbs.
Print Assumptions scReduce_limbs.

(* ---- final limb ranges: s0..s10 in [0,2^21), s11 in [0,2^21] ---- *)

Open Scope string_scope.
Definition S11 := ["s0";"s1";"s2";"s3";"s4";"s5";"s6";"s7";"s8";"s9";"s10"].
Close Scope string_scope.

Lemma S12_split names : vars names S12 = (vars names S11 ++ [index_of "s11" names 0%nat])%list.
Proof. reflexivity. Qed.

Lemma range_checks :
  range_check [B8; B8; B8] prog_scMulAdd (vars names_scMulAdd S11) = true /\
  range_check [B8; B8] prog_scMul (vars names_scMul S11) = true /\
  range_check [B8; B8] prog_scAdd (vars names_scAdd S11) = true /\
  range_check [B8; B8] prog_scSub (vars names_scSub S11) = true /\
  range_check [B8] prog_scReduce (vars names_scReduce S11) = true.
Proof. vm_compute. auto. Qed.

Ltac range_tac inr lst Hok Hrc Hlimbs names :=
  to_nowrap inr lst Hok;
  match goal with
  | Hi : ins_ok _ ?ins |- context [exec noi ?ins (p_code ?p) (init ?p)] =>
      apply (range_sound inr ins p (vars names S11) (index_of "s11" names 0%nat) Hi Hrc);
      rewrite <- S12_split;
      match goal with E : final p ins = _ |- _ => rewrite <- E end;
      apply Hlimbs; auto
  end.

Theorem scMulAdd_limb_ranges a b c : bytes a -> bytes b -> bytes c ->
  Forall (fun v => 0 <= getv (final prog_scMulAdd [a; b; c]) v <= 2097151) (vars names_scMulAdd S11) /\
  0 <= getv (final prog_scMulAdd [a; b; c]) (index_of "s11" names_scMulAdd 0) <= 2097152.
Proof.
  intros Ha Hb Hc. destruct range_checks as [R _].
  range_tac [B8; B8; B8] [a; b; c] bounds_scMulAdd R (scMulAdd_limbs a b c) names_scMulAdd.
Qed.

Theorem scMul_limb_ranges a b : bytes a -> bytes b ->
  Forall (fun v => 0 <= getv (final prog_scMul [a; b]) v <= 2097151) (vars names_scMul S11) /\
  0 <= getv (final prog_scMul [a; b]) (index_of "s11" names_scMul 0) <= 2097152.
Proof.
  intros Ha Hb. destruct range_checks as [_ [R _]].
  range_tac [B8; B8] [a; b] bounds_scMul R (scMul_limbs a b) names_scMul.
Qed.

Theorem scAdd_limb_ranges a c : bytes a -> bytes c ->
  Forall (fun v => 0 <= getv (final prog_scAdd [a; c]) v <= 2097151) (vars names_scAdd S11) /\
  0 <= getv (final prog_scAdd [a; c]) (index_of "s11" names_scAdd 0) <= 2097152.
Proof.
  intros Ha Hc. destruct range_checks as [_ [_ [R _]]].
  range_tac [B8; B8] [a; c] bounds_scAdd R (scAdd_limbs a c) names_scAdd.
Qed.

Theorem scSub_limb_ranges a c : bytes a -> bytes c ->
  Forall (fun v => 0 <= getv (final prog_scSub [a; c]) v <= 2097151) (vars names_scSub S11) /\
  0 <= getv (final prog_scSub [a; c]) (index_of "s11" names_scSub 0) <= 2097152.
Proof.
  intros Ha Hc. destruct range_checks as [_ [_ [_ [R _]]]].
  range_tac [B8; B8] [a; c] bounds_scSub R (scSub_limbs a c) names_scSub.
Qed.

Theorem scReduce_limb_ranges s : bytes s ->
  Forall (fun v => 0 <= getv (final prog_scReduce [s]) v <= 2097151) (vars names_scReduce S11) /\
  0 <= getv (final prog_scReduce [s]) (index_of "s11" names_scReduce 0) <= 2097152.
Proof.
  intros Hs. destruct range_checks as [_ [_ [_ [_ R]]]].
  range_tac [B8] [s] bounds_scReduce R (scReduce_limbs s) names_scReduce.
Qed.

Print Assumptions scMulAdd_limb_ranges.
Print Assumptions scReduce_limb_ranges.

(* (historical note; P1 and P3 below are now proved in Limb/LimbBytes.v)
   what was missing for the byte-level statement
     bytes a, b, c of length 32 ->
     le_decode (scMulAdd a b c) = (le_decode a * le_decode b + le_decode c) mod L
   (and likewise for scMul/scAdd/scSub/scReduce):
   (P1) unpacking: after the load phase  sum_i a_i 2^(21 i) = le_decode a  for 32 bytes
        (a_i = ((load3|load4)(a[k:]) >> s) & (2^21-1), a_11 unmasked), i.e.
        `wval 1 st (vars names A12) = le_decode a`;
   (P3) packing: for limbs s_0..s_10 in [0,2^21) and 0 <= s_11 <= 2^21 the 32 output
        expressions byte((s_i >> k) | (s_(i+1) << m)) are the little-endian bytes of
        S = sum_i s_i 2^(21 i), i.e. `le_decode (run ...) = wval 1 st (vars names S12)`.
   Both are bit-slicing identities over Z.lor/Z.shiftl/Z.shiftr/mod with no
   arithmetic content; everything between them (no overflow, congruence mod L,
   canonical range, limb ranges) is proved above for all inputs. With P1+P3 the
   theorems scX_limbs give the full statement because 0 <= S < L makes S the
   canonical representative.  P1/P3 are covered on every run by the translation
   validation (bin/gen-limbs --validate) and by C02's limb_spec correspondence. *)
