(* Limb/LimbPoly.v - a reflective polynomial (symbolic) execution of the limb
   language, proved sound ONCE:

   every variable of the unwrapped store is tracked as a polynomial of degree
   <= 2 with integer coefficients over "atoms":
       AVar v  - the value of variable v at the start of the code segment
       AOpq pc - the (opaque) value assigned by instruction number pc, used for
                 everything that is not polynomial: >> (the carries), &, |, input
                 bytes.
   +, -, * by a constant, << k, and atom*atom are tracked exactly.  Carries are
   opaque: the identities we need (the value  sum s_i 2^(21 i)  is preserved by
   carry steps exactly, and by the folds  s_(i-12..) += s_i * c_j  modulo L) hold
   whatever the carries are, so they are polynomial identities whose
   coefficients can be checked by computation - exactly, or modulo L. *)
From Coq Require Import ZArith List Lia Bool.
From Kyber Require Import Limb.LimbSem Limb.LimbBounds.
Import ListNotations.
Open Scope Z_scope.

Definition BIG : Z := 4294967296.

(* monomial key: t1 * BIG + t2 with atom codes t2 <= t1 < BIG; code 0 = "1" *)
Definition poly : Type := list (Z * Z).     (* (key, coefficient), sorted by key *)

Definition code_var (v : nat) : Z := 2 * Z.of_nat v + 2.
Definition code_opq (pc : nat) : Z := 2 * Z.of_nat pc + 3.

Fixpoint padd (p : poly) : poly -> poly :=
  match p with
  | [] => fun q => q
  | (k1, c1) :: p' =>
      fix aux (q : poly) : poly :=
        match q with
        | [] => (k1, c1) :: p'
        | (k2, c2) :: q' =>
            if k1 <? k2 then (k1, c1) :: padd p' q
            else if k2 <? k1 then (k2, c2) :: aux q'
            else let c := c1 + c2 in
                 if c =? 0 then padd p' q' else (k1, c) :: padd p' q'
        end
  end.

Definition pscale (c : Z) (p : poly) : poly :=
  if c =? 0 then [] else map (fun kc => (fst kc, c * snd kc)) p.

Definition pconst (c : Z) : poly := if c =? 0 then [] else [(0, c)].
Definition patom (t : Z) : poly := [(t, 1)].
Definition psub (p q : poly) : poly := padd p (pscale (-1) q).

Definition mkkey (k1 k2 : Z) : Z :=
  let hi := Z.max k1 k2 in let lo := Z.min k1 k2 in
  if lo =? 0 then hi else hi * BIG + lo.

Definition is_lin (p : poly) : bool :=
  forallb (fun kc => (0 <=? fst kc) && (fst kc <? BIG)) p.

(* product of two polynomials of degree <= 1 *)
Definition pmul (p q : poly) : poly :=
  fold_right (fun kc1 acc =>
    fold_right (fun kc2 acc' => padd [(mkkey (fst kc1) (fst kc2), snd kc1 * snd kc2)] acc') acc q)
    [] p.

Section Den.
  Variable rho : Z -> Z.      (* valuation of atom codes *)
  Definition rho1 (t : Z) : Z := if t =? 0 then 1 else rho t.
  Definition denk (k : Z) : Z := rho1 (k / BIG) * rho1 (k mod BIG).

  Fixpoint den (p : poly) : Z :=
    match p with
    | [] => 0
    | (k, c) :: r => c * denk k + den r
    end.

  Lemma den_padd p : forall q, den (padd p q) = den p + den q.
  Proof.
    induction p as [|[k1 c1] p' IH]; intros q; cbn [padd]; [cbn; lia|].
    induction q as [|[k2 c2] q' IHq]; [cbn; lia|].
    destruct (k1 <? k2) eqn:E1.
    { cbn [den]. rewrite IH. cbn [den]. lia. }
    destruct (k2 <? k1) eqn:E2.
    { cbn [den] in *. rewrite IHq. lia. }
    assert (k1 = k2) by (apply Z.ltb_ge in E1; apply Z.ltb_ge in E2; lia). subst k2.
    cbv zeta. destruct (c1 + c2 =? 0) eqn:E3.
    - apply Z.eqb_eq in E3. rewrite IH. cbn [den]. nia.
    - cbn [den]. rewrite IH. lia.
  Qed.

  Lemma den_pscale c p : den (pscale c p) = c * den p.
  Proof.
    unfold pscale. destruct (c =? 0) eqn:E. { apply Z.eqb_eq in E. subst. cbn. lia. }
    induction p as [|[k x] r IH]; cbn [map den fst snd]; [lia|]. rewrite IH. lia.
  Qed.

  Lemma denk_0 : denk 0 = 1.
  Proof. reflexivity. Qed.

  Lemma den_pconst c : den (pconst c) = c.
  Proof.
    unfold pconst. destruct (c =? 0) eqn:E. { apply Z.eqb_eq in E. subst. reflexivity. }
    cbn [den]. rewrite denk_0. lia.
  Qed.

  Lemma den_psub p q : den (psub p q) = den p - den q.
  Proof. unfold psub. rewrite den_padd, den_pscale. lia. Qed.

  Lemma denk_lin k : 0 <= k < BIG -> denk k = rho1 k.
  Proof.
    intros H. unfold denk. rewrite Z.div_small, Z.mod_small by lia.
    change (rho1 0) with 1. lia.
  Qed.

  Lemma denk_mkkey k1 k2 : 0 <= k1 < BIG -> 0 <= k2 < BIG ->
    denk (mkkey k1 k2) = denk k1 * denk k2.
  Proof.
    intros H1 H2. rewrite (denk_lin k1), (denk_lin k2) by auto. unfold mkkey.
    destruct (Z.min k1 k2 =? 0) eqn:E.
    - apply Z.eqb_eq in E. rewrite denk_lin by lia.
      destruct (Z.le_ge_cases k1 k2).
      + rewrite Z.min_l in E by lia. rewrite Z.max_r by lia. subst k1. change (rho1 0) with 1. lia.
      + rewrite Z.min_r in E by lia. rewrite Z.max_l by lia. subst k2. change (rho1 0) with 1. lia.
    - apply Z.eqb_neq in E. unfold denk.
      assert (B : 0 <= Z.min k1 k2 < BIG) by lia.
      replace ((Z.max k1 k2 * BIG + Z.min k1 k2) / BIG) with (Z.max k1 k2).
      2:{ symmetry. rewrite Z.add_comm, Z.div_add by (unfold BIG; lia).
          rewrite Z.div_small by lia. lia. }
      replace ((Z.max k1 k2 * BIG + Z.min k1 k2) mod BIG) with (Z.min k1 k2).
      2:{ symmetry. rewrite Z.add_comm, Z.mod_add by (unfold BIG; lia).
          apply Z.mod_small. lia. }
      destruct (Z.le_ge_cases k1 k2).
      + rewrite Z.min_l, Z.max_r by lia. lia.
      + rewrite Z.min_r, Z.max_l by lia. lia.
  Qed.

  Lemma is_lin_forall p : is_lin p = true -> Forall (fun kc => 0 <= fst kc < BIG) p.
  Proof.
    unfold is_lin. rewrite forallb_forall, Forall_forall. intros H x Hx.
    specialize (H x Hx). apply andb_true_iff in H. destruct H as [H1 H2].
    apply Z.leb_le in H1. apply Z.ltb_lt in H2. lia.
  Qed.

  Lemma den_row k1 c1 q acc : 0 <= k1 < BIG ->
    Forall (fun kc => 0 <= fst kc < BIG) q ->
    den (fold_right (fun kc2 acc' => padd [(mkkey k1 (fst kc2), c1 * snd kc2)] acc') acc q)
    = c1 * denk k1 * den q + den acc.
  Proof.
    intros H1 Hq. induction Hq as [|[k2 c2] q' H2 Hq' IHq]; cbn [fold_right den]; [lia|].
    cbn [fst snd] in *. rewrite den_padd. cbn [den]. rewrite IHq.
    rewrite denk_mkkey by auto. lia.
  Qed.

  Lemma den_pmul p q : is_lin p = true -> is_lin q = true -> den (pmul p q) = den p * den q.
  Proof.
    intros Hp Hq. apply is_lin_forall in Hp. apply is_lin_forall in Hq. unfold pmul.
    induction Hp as [|[k1 c1] p' H1 Hp' IH]; cbn [fold_right den]; [lia|].
    cbn [fst snd] in *. rewrite den_row by auto. rewrite IH. lia.
  Qed.

  (* all coefficients divisible by m -> value divisible by m *)
  Definition all_zero_mod (m : Z) (p : poly) : bool :=
    forallb (fun kc => snd kc mod m =? 0) p.

  Lemma all_zero_mod_divide m p : m <> 0 -> all_zero_mod m p = true -> (m | den p).
  Proof.
    intros Hm. unfold all_zero_mod. induction p as [|[k c] r IH]; cbn [forallb den snd].
    - intros _. apply Z.divide_0_r.
    - intros H. apply andb_true_iff in H. destruct H as [H1 H2].
      apply Z.eqb_eq in H1. apply Z.mod_divide in H1; auto.
      apply Z.divide_add_r; auto. apply Z.divide_mul_l. auto.
  Qed.
End Den.

(* ---------- symbolic execution ---------- *)

Fixpoint getp (s : list poly) (v : nat) : poly :=
  match s, v with
  | [], _ => []
  | x :: _, O => x
  | _ :: t, S n => getp t n
  end.

Fixpoint setp (s : list poly) (v : nat) (x : poly) : list poly :=
  match s, v with
  | [], _ => []
  | _ :: t, O => x :: t
  | y :: t, S n => y :: setp t n x
  end.

Definition is_const (p : poly) : option Z :=
  match p with
  | [] => Some 0
  | [(k, c)] => if k =? 0 then Some c else None
  | _ => None
  end.

Definition is_atom (p : poly) : option Z :=
  match p with
  | [(k, c)] => if (c =? 1) && (0 <? k) && (k <? BIG) then Some k else None
  | _ => None
  end.

Fixpoint pexpr (s : list poly) (e : expr) : option poly :=
  match e with
  | EConst c => Some (pconst c)
  | EVar v => Some (getp s v)
  | EIn _ _ => None
  | EAdd a b =>
      match pexpr s a, pexpr s b with
      | Some p, Some q => Some (padd p q) | _, _ => None end
  | ESub a b =>
      match pexpr s a, pexpr s b with
      | Some p, Some q => Some (psub p q) | _, _ => None end
  | EMul a b =>
      match pexpr s a, pexpr s b with
      | Some p, Some q =>
          match is_const p, is_const q with
          | Some c, _ => Some (pscale c q)
          | _, Some c => Some (pscale c p)
          | _, _ =>
              match is_atom p, is_atom q with
              | Some t1, Some t2 => Some [(mkkey t1 t2, 1)]
              | _, _ => None
              end
          end
      | _, _ => None
      end
  | EShl a k =>
      match pexpr s a with
      | Some p => if 0 <=? k then Some (pscale (2 ^ k) p) else None
      | None => None
      end
  | EShr _ _ | EAnd _ _ | EOr _ _ => None
  end.

Definition sym_step (pc : nat) (s : list poly) (i : instr) : list poly :=
  match i with
  | ISet v e =>
      match pexpr s e with
      | Some p => setp s v p
      | None => setp s v (patom (code_opq pc))
      end
  end.

Fixpoint sym_exec (pc : nat) (code : list instr) (s : list poly) : list poly :=
  match code with
  | [] => s
  | i :: p => sym_exec (S pc) p (sym_step pc s i)
  end.

Definition sym_id (n : nat) : list poly := map (fun v => patom (code_var v)) (seq 0 n).

Section Sound.
  Variable ins : list (list Z).

  (* valuation: variables of the initial store, opaque values by pc *)
  Definition mkrho (st0 : list Z) (vals : nat -> Z) (t : Z) : Z :=
    if Z.even t then getv st0 (Z.to_nat ((t - 2) / 2)) else vals (Z.to_nat ((t - 3) / 2)).

  Lemma mkrho_var st0 vals v : mkrho st0 vals (code_var v) = getv st0 v.
  Proof.
    unfold mkrho, code_var.
    replace (2 * Z.of_nat v + 2) with (2 * (Z.of_nat v + 1)) by lia.
    rewrite Z.even_mul. cbn [Z.even orb].
    replace ((2 * (Z.of_nat v + 1) - 2) / 2) with (Z.of_nat v).
    2:{ replace (2 * (Z.of_nat v + 1) - 2) with (Z.of_nat v * 2) by lia. rewrite Z.div_mul; lia. }
    rewrite Nat2Z.id. reflexivity.
  Qed.

  Lemma mkrho_opq st0 vals pc : mkrho st0 vals (code_opq pc) = vals pc.
  Proof.
    unfold mkrho, code_opq.
    replace (2 * Z.of_nat pc + 3) with (1 + 2 * (Z.of_nat pc + 1)) by lia.
    rewrite Z.even_add_mul_2. cbn [Z.even].
    replace ((1 + 2 * (Z.of_nat pc + 1) - 3) / 2) with (Z.of_nat pc).
    2:{ replace (1 + 2 * (Z.of_nat pc + 1) - 3) with (Z.of_nat pc * 2) by lia. rewrite Z.div_mul; lia. }
    rewrite Nat2Z.id. reflexivity.
  Qed.

  Fixpoint consistent (vals : nat -> Z) (pc : nat) (code : list instr) (st : list Z) : Prop :=
    match code with
    | [] => True
    | ISet v e :: p =>
        vals pc = eval noi ins st e /\ consistent vals (S pc) p (setv st v (eval noi ins st e))
    end.

  Fixpoint trace (code : list instr) (st : list Z) : list Z :=
    match code with
    | [] => []
    | ISet v e :: p => eval noi ins st e :: trace p (setv st v (eval noi ins st e))
    end.

  Lemma consistent_ext f g code : forall pc st,
    (forall j, (pc <= j)%nat -> f j = g j) -> consistent f pc code st -> consistent g pc code st.
  Proof.
    induction code as [|[v e] p IH]; intros pc st H C; cbn [consistent] in *; auto.
    destruct C as [C1 C2]. split. { rewrite <- H by lia. auto. }
    apply (IH (S pc)); auto. intros j Hj. apply H. lia.
  Qed.

  Lemma consistent_trace code : forall pc st,
    consistent (fun j => nth (j - pc) (trace code st) 0) pc code st.
  Proof.
    induction code as [|[v e] p IH]; intros pc st; cbn [consistent trace]; auto.
    split. { rewrite Nat.sub_diag. reflexivity. }
    eapply consistent_ext; [|apply (IH (S pc))].
    intros j Hj. cbn beta. replace (j - pc)%nat with (S (j - S pc)) by lia. reflexivity.
  Qed.

  Section WithRho.
    Variable rho : Z -> Z.

    Definition agrees (st : list Z) (s : list poly) : Prop :=
      length st = length s /\ forall v, getv st v = den rho (getp s v).

    Lemma is_const_den p c : is_const p = Some c -> den rho p = c.
    Proof.
      unfold is_const. destruct p as [|[k x] [|? ?]]; try discriminate.
      - intros H. inversion H. reflexivity.
      - destruct (k =? 0) eqn:E; [|discriminate]. apply Z.eqb_eq in E. subst.
        intros H. inversion H. subst. cbn [den]. rewrite denk_0. lia.
    Qed.

    Lemma is_atom_den p t : is_atom p = Some t -> den rho p = denk rho t /\ 0 <= t < BIG.
    Proof.
      unfold is_atom. destruct p as [|[k x] [|? ?]]; try discriminate.
      destruct ((x =? 1) && (0 <? k) && (k <? BIG)) eqn:E; [|discriminate].
      apply andb_true_iff in E. destruct E as [E E3]. apply andb_true_iff in E. destruct E as [E1 E2].
      apply Z.eqb_eq in E1. apply Z.ltb_lt in E2. apply Z.ltb_lt in E3.
      intros H. inversion H. subst. cbn [den]. split; lia.
    Qed.

    Lemma pexpr_sound st s e p :
      (forall v, getv st v = den rho (getp s v)) ->
      pexpr s e = Some p -> eval noi ins st e = den rho p.
    Proof.
      intros Hs. revert p. induction e; intros p H; cbn [pexpr] in H; cbn [eval]; try (unfold noi at 1).
      - inversion H. rewrite den_pconst. reflexivity.
      - inversion H. apply Hs.
      - discriminate.
      - destruct (pexpr s e1) as [p1|]; [|discriminate]. destruct (pexpr s e2) as [p2|]; [|discriminate].
        inversion H. rewrite den_padd, (IHe1 _ eq_refl), (IHe2 _ eq_refl). reflexivity.
      - destruct (pexpr s e1) as [p1|]; [|discriminate]. destruct (pexpr s e2) as [p2|]; [|discriminate].
        inversion H. rewrite den_psub, (IHe1 _ eq_refl), (IHe2 _ eq_refl). reflexivity.
      - destruct (pexpr s e1) as [p1|]; [|discriminate]. destruct (pexpr s e2) as [p2|]; [|discriminate].
        rewrite (IHe1 _ eq_refl), (IHe2 _ eq_refl).
        destruct (is_const p1) as [c1|] eqn:C1.
        { inversion H. rewrite den_pscale, (is_const_den _ _ C1). reflexivity. }
        destruct (is_const p2) as [c2|] eqn:C2.
        { inversion H. rewrite den_pscale, (is_const_den _ _ C2). lia. }
        destruct (is_atom p1) as [t1|] eqn:A1; [|discriminate].
        destruct (is_atom p2) as [t2|] eqn:A2; [|discriminate].
        inversion H. destruct (is_atom_den _ _ A1) as [-> B1]. destruct (is_atom_den _ _ A2) as [-> B2].
        cbn [den]. rewrite denk_mkkey by auto. lia.
      - destruct (pexpr s e) as [p1|]; [|discriminate].
        destruct (0 <=? k) eqn:Ek; [|discriminate]. apply Z.leb_le in Ek.
        inversion H. rewrite den_pscale, (IHe _ eq_refl), shiftl_mul by auto. lia.
      - discriminate.
      - discriminate.
      - discriminate.
    Qed.

    Lemma getp_setp s v w x : (v < length s)%nat ->
      getp (setp s v x) w = if Nat.eqb w v then x else getp s w.
    Proof.
      revert v w. induction s as [|y t IH]; intros v w Hv; [cbn in Hv; lia|].
      destruct v, w; cbn; auto. apply IH. cbn in Hv. lia.
    Qed.

    Lemma setp_length s v x : length (setp s v x) = length s.
    Proof. revert v. induction s; destruct v; cbn; auto. Qed.

    Lemma setv_noop st v x : (length st <= v)%nat -> setv st v x = st.
    Proof.
      revert v. induction st as [|y t IH]; intros v Hv; destruct v; cbn in *; auto; try lia.
      rewrite IH by lia. reflexivity.
    Qed.

    Lemma setp_noop s v x : (length s <= v)%nat -> setp s v x = s.
    Proof.
      revert v. induction s as [|y t IH]; intros v Hv; destruct v; cbn in *; auto; try lia.
      rewrite IH by lia. reflexivity.
    Qed.

    Lemma agrees_set st s v x p : agrees st s -> x = den rho p -> agrees (setv st v x) (setp s v p).
    Proof.
      intros [L A] E. destruct (Nat.lt_ge_cases v (length st)) as [Hv | Hv].
      - split. { rewrite setv_length, setp_length. auto. }
        intros w. rewrite getv_setv, getp_setp by lia. destruct (Nat.eqb w v); auto.
      - rewrite setv_noop, setp_noop by lia. split; auto.
    Qed.

    Lemma sym_exec_sound vals code : forall pc st s,
      (forall j, rho (code_opq j) = vals j) ->
      Z.of_nat (pc + length code) < 1073741824 ->
      agrees st s -> consistent vals pc code st ->
      agrees (exec noi ins code st) (sym_exec pc code s).
    Proof.
      induction code as [|[v e] p IH]; intros pc st s Hr Hb A C; cbn [exec sym_exec]; auto.
      cbn [consistent] in C. destruct C as [C1 C2]. cbn [step sym_step].
      cbn [length] in Hb.
      apply (IH (S pc)); auto. { lia. }
      destruct (pexpr s e) as [q|] eqn:E.
      - apply agrees_set; auto. apply (pexpr_sound st s e q); auto. apply A.
      - apply agrees_set; auto. unfold patom. cbn [den].
        assert (0 < code_opq pc < BIG) by (unfold code_opq, BIG; lia).
        rewrite denk_lin by lia. unfold rho1.
        destruct (code_opq pc =? 0) eqn:E0; [apply Z.eqb_eq in E0; lia|].
        rewrite Hr, C1. lia.
    Qed.
  End WithRho.

  Lemma getv_oob st v : (length st <= v)%nat -> getv st v = 0.
  Proof.
    revert v. induction st as [|y t IH]; intros v Hv; destruct v; cbn in *; auto; try lia.
    apply IH. lia.
  Qed.

  Lemma getp_map_seq (f : nat -> poly) n : forall a v,
    getp (map f (seq a n)) v = if Nat.ltb v n then f (a + v)%nat else [].
  Proof.
    induction n as [|n IH]; intros a v; cbn [seq map getp].
    - destruct v; reflexivity.
    - destruct v; cbn [getp].
      + rewrite Nat.add_0_r. reflexivity.
      + rewrite IH. replace (S a + v)%nat with (a + S v)%nat by lia.
        change (Nat.ltb (S v) (S n)) with (Nat.ltb v n). reflexivity.
  Qed.

  Lemma agrees_sym_id st0 vals :
    Z.of_nat (length st0) < 1073741824 ->
    agrees (mkrho st0 vals) st0 (sym_id (length st0)).
  Proof.
    intros Hb. split. { unfold sym_id. rewrite map_length, seq_length. reflexivity. }
    intros v. unfold sym_id. rewrite getp_map_seq. cbn [Nat.add].
    destruct (Nat.ltb v (length st0)) eqn:E.
    + apply Nat.ltb_lt in E. unfold patom. cbn [den].
      assert (0 < code_var v < BIG) by (unfold code_var, BIG; lia).
      rewrite denk_lin by lia. unfold rho1.
      destruct (code_var v =? 0) eqn:E0; [apply Z.eqb_eq in E0; lia|].
      rewrite mkrho_var. lia.
    + apply Nat.ltb_ge in E. rewrite getv_oob by auto. reflexivity.
  Qed.

  (* MAIN: the polynomials computed by symbolic execution of a code segment
     describe the store after the segment, for a suitable valuation of the
     opaque atoms; the valuation of AVar atoms is the store before the segment *)
  Theorem sym_sound code st0 :
    Z.of_nat (length st0 + length code) < 1073741824 ->
    exists vals, agrees (mkrho st0 vals) (exec noi ins code st0)
                        (sym_exec 0 code (sym_id (length st0))).
  Proof.
    intros Hb. exists (fun j => nth (j - 0) (trace code st0) 0).
    apply (sym_exec_sound _ (fun j => nth (j - 0) (trace code st0) 0)).
    - intros j. apply mkrho_opq.
    - lia.
    - apply agrees_sym_id. lia.
    - apply consistent_trace.
  Qed.
End Sound.

(* ---------- weighted sums of variables (radix 2^21) ---------- *)

Fixpoint wsum (w : Z) (s : list poly) (vars : list nat) : poly :=
  match vars with
  | [] => []
  | v :: r => padd (pscale w (getp s v)) (wsum (w * 2097152) s r)
  end.

Fixpoint wval (w : Z) (st : list Z) (vars : list nat) : Z :=
  match vars with
  | [] => 0
  | v :: r => w * getv st v + wval (w * 2097152) st r
  end.

Lemma den_wsum rho st s vars : forall w,
  (forall v, getv st v = den rho (getp s v)) -> den rho (wsum w s vars) = wval w st vars.
Proof.
  induction vars as [|v r IH]; intros w H; cbn [wsum wval den]; auto.
  rewrite den_padd, den_pscale, IH, <- H by auto. reflexivity.
Qed.
