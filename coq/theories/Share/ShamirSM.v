(* Executable model of kyber's share/poly.go (Shamir secret sharing and
   polynomial commitments).  Definitions only; the theorems are in
   PolyFacts.v / ShamirProofs.v.

   Scalars are elements of [zq q]; a point of the prime-order group is modelled
   by its discrete logarithm (Algebra/Grp.v), so a public polynomial is again a
   list of [zq q].  Share indices are Go [uint32] values, modelled as [Z].

   Go maps ([x], [y] of xyScalar / xyCommit) are association lists keyed by the
   share index, in insertion order; every function that iterates over such a map
   takes the iteration order(s) as explicit arguments (the [_gen] versions), and
   the theorems quantify over all of them. *)
From Coq Require Import ZArith List Bool.
From Kyber Require Import Algebra.Zq Algebra.Grp.
Import ListNotations.
Local Open Scope Z_scope.

Section Shamir.
  Variable q : Z.
  Notation F := (zq q).
  Notation point := (zq q) (only parsing).

  (* ---------------------------------------------------------------- polynomials *)

  (* x-coordinate of share [i] as computed by PriPoly.Eval / PubPoly.Eval:
     SetInt64(1 + int64(i)) *)
  Definition xeval (i : Z) : F := of_Z q (1 + i).

  (* x-coordinate of share [i] as computed by xyScalar / xyCommit:
     SetInt64(int64(idx + 1)) where idx + 1 is computed in uint32 (wraps) *)
  Definition xrec (i : Z) : F := of_Z q ((i + 1) mod 4294967296).

  (* Horner, for j = t-1 downto 0: v = v * x + c_j   (coefficients low to high) *)
  Definition peval (c : list F) (x : F) : F :=
    fold_right (fun cj v => zadd (zmul v x) cj) zzero c.

  (* PubPoly.Eval, for j = t-1 downto 0: V = x * V + C_j *)
  Definition pub_peval (c : list point) (x : F) : point :=
    fold_right (fun cj v => padd (smul x v) cj) pzero c.

  (* PriPoly.Eval(i) = PriShare{i, p(i+1)};  PubPoly.Eval(i) likewise *)
  Definition pri_eval (c : list F) (i : Z) : Z * F := (i, peval c (xeval i)).
  Definition pub_eval (c : list point) (i : Z) : Z * point := (i, pub_peval c (xeval i)).

  Definition zseq (n : nat) : list Z := map Z.of_nat (seq 0 n).

  (* PriPoly.Shares(n), PubPoly.Shares(n) *)
  Definition pri_shares (c : list F) (n : nat) : list (Z * F) := map (pri_eval c) (zseq n).
  Definition pub_shares (c : list point) (n : nat) : list (Z * point) := map (pub_eval c) (zseq n).

  (* PriPoly.Commit(b): C_j = c_j * b  (b = standard base when nil: the caller passes pbase) *)
  Definition commit (b : point) (c : list F) : list point := map (fun cj => smul cj b) c.

  (* PubPoly.Check(s): Eval(s.I).V == s.V * b *)
  Definition check (b : point) (c : list point) (s : Z * F) : bool :=
    peqb (snd (pub_eval c (fst s))) (smul (snd s) b).

  (* component-wise sum; [None] = errCoeffs (different number of coefficients) *)
  Fixpoint zip_add (p r : list F) : list F :=
    match p, r with
    | a :: p', b :: r' => zadd a b :: zip_add p' r'
    | _, _ => []
    end.
  Definition poly_add (p r : list F) : option (list F) :=
    if Nat.eqb (length p) (length r) then Some (zip_add p r) else None.
  (* PubPoly.Add: the same on points *)
  Definition pub_add (p r : list point) : option (list point) :=
    if Nat.eqb (length p) (length r) then Some (zip_add p r) else None.

  Definition pscale (a : F) (p : list F) : list F := map (fun c => zmul c a) p.

  (* length-extending sum, used to describe the accumulation of PriPoly.Mul *)
  Fixpoint ext_add (p r : list F) : list F :=
    match p, r with
    | [], _ => r
    | _, [] => p
    | a :: p', b :: r' => zadd a b :: ext_add p' r'
    end.

  (* PriPoly.Mul for non-empty operands: coeffs[i+j] += p_i * q_j *)
  Fixpoint mul_aux (p r : list F) : list F :=
    match p with
    | [] => []
    | a :: p' => ext_add (map (fun c => zmul a c) r) (zzero :: mul_aux p' r)
    end.

  (* PriPoly.Mul: make([]Scalar, d1+d2+1) panics when both operands are empty
     ([None]); with one empty operand the loops do not run and the result is
     all-zero of length len - 1 *)
  Definition poly_mul (p r : list F) : option (list F) :=
    match p, r with
    | [], [] => None
    | [], _ => Some (repeat zzero (length r - 1))
    | _, [] => Some (repeat zzero (length p - 1))
    | _, _ => Some (mul_aux p r)
    end.

  (* PriPoly.Equal / PubPoly.Equal (same group): same length and same encodings *)
  Fixpoint list_zeqb (p r : list F) : bool :=
    match p, r with
    | [], [] => true
    | a :: p', b :: r' => zeqb a b && list_zeqb p' r'
    | _, _ => false
    end.

  (* ---------------------------------------------------------------- share selection *)

  (* an entry of the share slice: nil pointer = [None]; a share whose V is nil
     has value [None] *)
  Definition entry := option (Z * option F).

  Definition nonnil (sh : list entry) : list (Z * option F) :=
    flat_map (fun e => match e with Some s => [s] | None => [] end) sh.

  (* sort.Sort by index: the model uses a stable insertion sort; the theorems
     hold for every permutation of the non-nil entries, hence for every sorting
     algorithm, stable or not *)
  Fixpoint insert_by_idx (s : Z * option F) (l : list (Z * option F)) :=
    match l with
    | [] => [s]
    | h :: r => if fst s <? fst h then s :: l else h :: insert_by_idx s r
    end.
  Definition sort_by_idx (l : list (Z * option F)) : list (Z * option F) :=
    fold_right insert_by_idx [] l.

  (* x[idx] = ..., y[idx] = s.V : insert or overwrite *)
  Fixpoint upsert (i : Z) (y : F) (m : list (Z * F)) : list (Z * F) :=
    match m with
    | [] => [(i, y)]
    | (j, z) :: r => if i =? j then (i, y) :: r else (j, z) :: upsert i y r
    end.

  (* the loop of xyScalar / xyCommit over the sorted slice *)
  Fixpoint walk (t : nat) (m : list (Z * F)) (l : list (Z * option F)) : list (Z * F) :=
    match l with
    | [] => m
    | (i, None) :: r => walk t m r
    | (i, Some y) :: r =>
        let m' := upsert i y m in
        if Nat.eqb (length m') t then m' else walk t m' r
    end.

  (* xyScalar / xyCommit applied to an already ordered slice, and to the input *)
  Definition select_from (t : nat) (l : list (Z * option F)) : list (Z * F) := walk t [] l.
  Definition select (t : nat) (sh : list entry) : list (Z * F) :=
    select_from t (sort_by_idx (nonnil sh)).

  (* ---------------------------------------------------------------- recovery *)

  Definition zprod (l : list F) : F := fold_right zmul zone l.
  Definition zsum (l : list F) : F := fold_right zadd zzero l.

  Definition others (i : Z) (m : list (Z * F)) : list (Z * F) :=
    filter (fun e => negb (fst e =? i)) m.

  (* one term of RecoverSecret: num = y_i * prod_{j<>i} x_j,
     den = prod_{j<>i} (x_j - x_i), term = num / den.  [inner] is the order in
     which the inner loop ranges over the map. *)
  Definition secret_term (inner : list (Z * F)) (e : Z * F) : F :=
    let xi := xrec (fst e) in
    let o := others (fst e) inner in
    zdiv (zmul (snd e) (zprod (map (fun e' => xrec (fst e')) o)))
         (zprod (map (fun e' => zsub (xrec (fst e')) xi) o)).

  Definition lagrange0_gen (outer : list (Z * F)) (inner : Z -> list (Z * F)) : F :=
    zsum (map (fun e => secret_term (inner (fst e)) e) outer).

  (* RecoverSecret *)
  Definition recover_secret_from (t : nat) (l : list (Z * option F)) : option F :=
    let m := select_from t l in
    if Nat.ltb (length m) t then None else Some (lagrange0_gen m (fun _ => m)).
  Definition recover_secret (t : nat) (sh : list entry) : option F :=
    recover_secret_from t (sort_by_idx (nonnil sh)).

  (* one term of RecoverCommit: (prod x_j / prod (x_j - x_i)) * Y_i *)
  Definition commit_term (inner : list (Z * point)) (e : Z * point) : point :=
    let xi := xrec (fst e) in
    let o := others (fst e) inner in
    smul (zdiv (zprod (map (fun e' => xrec (fst e')) o))
               (zprod (map (fun e' => zsub (xrec (fst e')) xi) o)))
         (snd e).

  Definition lagrange0_pub_gen (outer : list (Z * point)) (inner : Z -> list (Z * point)) : point :=
    psum (map (fun e => commit_term (inner (fst e)) e) outer).

  (* RecoverCommit *)
  Definition recover_commit_from (t : nat) (l : list (Z * option point)) : option point :=
    let m := select_from t l in
    if Nat.ltb (length m) t then None else Some (lagrange0_pub_gen m (fun _ => m)).
  Definition recover_commit (t : nat) (sh : list entry) : option point :=
    recover_commit_from t (sort_by_idx (nonnil sh)).

  (* minusConst(c) = [-c; 1] *)
  Definition minus_const (c : F) : list F := [zopp c; zone].

  (* lagrangeBasis(i, xs): basis = prod_{m<>i} (X - x_m) built with PriPoly.Mul,
     acc = prod_{m<>i} 1/(x_i - x_m); result basis * acc.  [inner] = iteration
     order of the loop over xs. *)
  Definition basis_step (xi : F) (st : list F * F) (e : Z * F) : list F * F :=
    let xm := xrec (fst e) in
    (mul_aux (fst st) (minus_const xm), zmul (snd st) (zinv (zsub xi xm))).

  Definition lagrange_basis (i : Z) (inner : list (Z * F)) : list F :=
    let st := fold_left (basis_step (xrec i)) (others i inner) ([zone], zone) in
    pscale (snd st) (fst st).

  (* accPoly = nil; for j: if accPoly == nil then accPoly = term else accPoly.Add(term).
     [None] = error; a nil accPoly at the end is the polynomial without coefficients. *)
  Definition acc_add (acc : option (option (list F))) (term : list F) : option (option (list F)) :=
    match acc with
    | None => None
    | Some None => Some (Some term)
    | Some (Some a) => match poly_add a term with Some s => Some (Some s) | None => None end
    end.

  Definition interp_gen (outer : list (Z * F)) (inner : Z -> list (Z * F)) : option (list F) :=
    match fold_left (fun acc e => acc_add acc (pscale (snd e) (lagrange_basis (fst e) (inner (fst e)))))
                    outer (Some None) with
    | None => None
    | Some None => Some []
    | Some (Some a) => Some a
    end.

  (* RecoverPriPoly: requires exactly t map entries *)
  Definition recover_pripoly_from (t : nat) (l : list (Z * option F)) : option (list F) :=
    let m := select_from t l in
    if Nat.eqb (length m) t then interp_gen m (fun _ => m) else None.
  Definition recover_pripoly (t : nat) (sh : list entry) : option (list F) :=
    recover_pripoly_from t (sort_by_idx (nonnil sh)).

  (* RecoverPubPoly: term_j = basis_j.Commit(Y_j) = [basis_jk * Y_j]_k; the sum
     is the same computation as RecoverPriPoly on logarithms.  The base point
     stored in the result is the base of the FIRST term, i.e. Y_j of the first
     index the map iteration yields (it is not the base the shares were
     committed with; PubPoly.Equal does not look at it).  The model returns
     (base, commits). *)
  Definition recover_pubpoly_from (t : nat) (l : list (Z * option point))
    : option (option point * list point) :=
    let m := select_from t l in
    if Nat.ltb (length m) t then None
    else match interp_gen m (fun _ => m) with
         | Some c => Some (option_map snd (hd_error m), c)
         | None => None
         end.
  Definition recover_pubpoly (t : nat) (sh : list entry) :=
    recover_pubpoly_from t (sort_by_idx (nonnil sh)).
End Shamir.

Arguments peval {q} c x.
Arguments pub_peval {q} c x.
Arguments pri_eval {q} c i.
Arguments pub_eval {q} c i.
Arguments pri_shares {q} c n.
Arguments pub_shares {q} c n.
Arguments commit {q} b c.
Arguments check {q} b c s.
Arguments zip_add {q} p r.
Arguments poly_add {q} p r.
Arguments pub_add {q} p r.
Arguments pscale {q} a p.
Arguments ext_add {q} p r.
Arguments mul_aux {q} p r.
Arguments poly_mul {q} p r.
Arguments list_zeqb {q} p r.
Arguments nonnil {q} sh.
Arguments insert_by_idx {q} s l.
Arguments sort_by_idx {q} l.
Arguments upsert {q} i y m.
Arguments walk {q} t m l.
Arguments select_from {q} t l.
Arguments select {q} t sh.
Arguments zprod {q} l.
Arguments zsum {q} l.
Arguments others {q} i m.
Arguments secret_term {q} inner e.
Arguments lagrange0_gen {q} outer inner.
Arguments recover_secret_from {q} t l.
Arguments recover_secret {q} t sh.
Arguments commit_term {q} inner e.
Arguments lagrange0_pub_gen {q} outer inner.
Arguments recover_commit_from {q} t l.
Arguments recover_commit {q} t sh.
Arguments minus_const {q} c.
Arguments basis_step {q} xi st e.
Arguments lagrange_basis {q} i inner.
Arguments acc_add {q} acc term.
Arguments interp_gen {q} outer inner.
Arguments recover_pripoly_from {q} t l.
Arguments recover_pripoly {q} t sh.
Arguments recover_pubpoly_from {q} t l.
Arguments recover_pubpoly {q} t sh.
